package main

// Translator for C06 (DESIGN §2.2a, Gen/ErrorFlow): for every node / expression / datasource /
// sink type of the execution layer, find the calls to a child's Run / Evaluate (and scanner .Err())
// inside its methods and record whether the returned error is used or dropped.
// Fails closed: a kind the model knows about that is not found in the sources is an error.

import (
	"fmt"
	"go/ast"
	"go/parser"
	"go/token"
	"os"
	"path/filepath"
	"sort"
	"strings"
)

type errSite struct {
	kind, method, callee string
	dropped              bool
}

// kinds the Lean model (Octo.Model.ErrFlow) speaks about: Lean constructor name -> (file, Go receiver type)
var errFlowKinds = []struct{ lean, file, typ string }{
	{"filter", "execution/nodes/filter.go", "Filter"},
	{"map", "execution/nodes/map.go", "Map"},
	{"distinct", "execution/nodes/distinct.go", "Distinct"},
	{"orderBy", "execution/nodes/order_sensitive_transform.go", "OrderSensitiveTransform"},
	{"limit", "execution/nodes/limit.go", "Limit"},
	{"simpleGroupBy", "execution/nodes/simple_group_by.go", "SimpleGroupBy"},
	{"customGroupBy", "execution/nodes/custom_trigger_group_by.go", "CustomTriggerGroupBy"},
	{"streamJoin", "execution/nodes/stream_join.go", "StreamJoin"},
	{"outerJoin", "execution/nodes/outer_join.go", "OuterJoin"},
	{"lookupJoin", "execution/nodes/lookup_join.go", "LookupJoin"},
	{"unnest", "execution/nodes/unnest.go", "Unnest"},
	{"eventTimeBuffer", "execution/nodes/event_time_buffer.go", "EventTimeBuffer"},
	{"singleColQuery", "execution/expressions.go", "SingleColumnQueryExpression"},
	{"multiColQuery", "execution/expressions.go", "MultiColumnQueryExpression"},
	{"functionCall", "execution/expressions.go", "FunctionCall"},
	{"andExpr", "execution/expressions.go", "And"},
	{"orExpr", "execution/expressions.go", "Or"},
	{"linesSource", "datasources/lines/execution.go", "DatasourceExecuting"},
	{"jsonSource", "datasources/json/execution.go", "DatasourceExecuting"},
	{"csvSource", "datasources/csv/execution.go", "DatasourceExecuting"},
	{"eagerSink", "outputs/eager/eager.go", "OutputPrinter"},
	{"batchSink", "outputs/batch/live_output.go", "OutputPrinter"},
	{"streamSink", "outputs/stream/printer.go", "OutputPrinter"},
	{"consistentWrapper", "outputs/stream/internally_consistent_output_stream_wrapper.go", "InternallyConsistentOutputStreamWrapper"},
}

func errflowRecvType(fd *ast.FuncDecl) string {
	if fd.Recv == nil || len(fd.Recv.List) == 0 {
		return ""
	}
	t := fd.Recv.List[0].Type
	if s, ok := t.(*ast.StarExpr); ok {
		t = s.X
	}
	if id, ok := t.(*ast.Ident); ok {
		return id.Name
	}
	return ""
}

func errflowCallee(c *ast.CallExpr) string {
	if sel, ok := c.Fun.(*ast.SelectorExpr); ok {
		return sel.Sel.Name
	}
	return ""
}

var errReturning = map[string]bool{"Run": true, "Evaluate": true, "Err": true}

// sitesInFunc walks one method body.
func sitesInFunc(kind string, fd *ast.FuncDecl) []errSite {
	var out []errSite
	used := map[*ast.CallExpr]bool{}
	// calls whose value is consumed: assigned to a non-blank name, returned, used in an if-init / condition with err var
	ast.Inspect(fd.Body, func(n ast.Node) bool {
		switch s := n.(type) {
		case *ast.AssignStmt:
			for i, rhs := range s.Rhs {
				c, ok := rhs.(*ast.CallExpr)
				if !ok || !errReturning[errflowCallee(c)] {
					continue
				}
				// the error is the last value of the call; find the LHS that receives it
				var lhs ast.Expr
				if len(s.Rhs) == 1 {
					lhs = s.Lhs[len(s.Lhs)-1]
				} else {
					lhs = s.Lhs[i]
				}
				if id, ok := lhs.(*ast.Ident); ok && id.Name == "_" {
					continue // dropped
				}
				used[c] = true
			}
		case *ast.SendStmt:
			if c, ok := s.Value.(*ast.CallExpr); ok && errReturning[errflowCallee(c)] {
				used[c] = true // handed to another goroutine, which checks it
			}
		case *ast.ReturnStmt:
			for _, r := range s.Results {
				if c, ok := r.(*ast.CallExpr); ok && errReturning[errflowCallee(c)] {
					used[c] = true
				}
			}
		}
		return true
	})
	ast.Inspect(fd.Body, func(n ast.Node) bool {
		c, ok := n.(*ast.CallExpr)
		if !ok || !errReturning[errflowCallee(c)] {
			return true
		}
		callee := errflowCallee(c)
		if callee == "Err" {
			// only scanner-like `x.Err()` with no arguments on a local (sc, scanner, ctx excluded)
			if sel, ok := c.Fun.(*ast.SelectorExpr); ok {
				if id, ok := sel.X.(*ast.Ident); ok && (id.Name == "ctx" || id.Name == "localCtx" || id.Name == "execCtx") {
					return true
				}
			}
			if len(c.Args) != 0 {
				return true
			}
		}
		out = append(out, errSite{kind: kind, method: fd.Name.Name, callee: callee, dropped: !used[c]})
		return true
	})
	return out
}

func init() {
	registerExtractor("errorflow", func(repo, outDir string) error {
		fset := token.NewFileSet()
		var sites []errSite
		for _, k := range errFlowKinds {
			f, err := parser.ParseFile(fset, filepath.Join(repo, k.file), nil, 0)
			if err != nil {
				return err
			}
			found := false
			for _, d := range f.Decls {
				fd, ok := d.(*ast.FuncDecl)
				if !ok || fd.Body == nil || errflowRecvType(fd) != k.typ {
					continue
				}
				if fd.Name.Name != "Run" && fd.Name.Name != "Evaluate" {
					continue
				}
				found = true
				sites = append(sites, sitesInFunc(k.lean, fd)...)
			}
			if !found {
				return fmt.Errorf("errorflow: no Run/Evaluate method of %s in %s (unrecognised source shape)", k.typ, k.file)
			}
		}
		var sb strings.Builder
		sb.WriteString("/- GENERATED by `vh extract errorflow` from /repo's sources on every check run. Do not edit. -/\nnamespace Octo.Gen.ErrorFlow\n\n")
		sb.WriteString("inductive Kind where\n")
		for _, k := range errFlowKinds {
			sb.WriteString("  | " + k.lean + "\n")
		}
		sb.WriteString("  deriving DecidableEq, Repr, Inhabited\n\n")
		sb.WriteString("/-- one call of a child's Run / Evaluate / scanner Err() inside a Run or Evaluate method: is the error it returns used? -/\nstructure Site where\n  kind : Kind\n  method : String\n  callee : String\n  used : Bool\n\n")
		sort.SliceStable(sites, func(i, j int) bool { return sites[i].kind < sites[j].kind })
		sb.WriteString("def sites : List Site := [\n")
		for i, s := range sites {
			sep := ","
			if i == len(sites)-1 {
				sep = ""
			}
			fmt.Fprintf(&sb, "  ⟨.%s, %q, %q, %v⟩%s\n", s.kind, s.method, s.callee, !s.dropped, sep)
		}
		sb.WriteString("]\n\n")
		sb.WriteString("def allKinds : List Kind := [" + func() string {
			var ns []string
			for _, k := range errFlowKinds {
				ns = append(ns, "."+k.lean)
			}
			return strings.Join(ns, ", ")
		}() + "]\n\nend Octo.Gen.ErrorFlow\n")
		return os.WriteFile(filepath.Join(outDir, "ErrorFlow.lean"), []byte(sb.String()), 0o644)
	})
}
