package main

// C29, data-race half — VIOLATION SEARCH ONLY (never the basis of a claim): whole queries on generated files through
// a race-detector build of the real octosql binary (`go build -race -tags verif`, made on demand from the
// repository's working tree into $VERIF_BUILD/octosql-race), with varied GOMAXPROCS. A report of the race detector,
// a crash or a run that does not end is a replay.
//
//   op    race <GOMAXPROCS> <query id> <rows> d<seed>
//   out   norace exit=<code> | race <first report line…> | timeout | race-build-failed …

import (
	"bytes"
	"fmt"
	"os"
	"os/exec"
	"path/filepath"
	"strconv"
	"strings"
	"sync"
	"syscall"
	"time"
)

var c29RaceQueries = []struct {
	q     string
	stdin bool
	exit  int
}{
	{"SELECT COUNT(*), SUM(a) FROM a.json", false, 0},
	{"SELECT x.a, y.b FROM a.json x JOIN b.json y ON x.k = y.k LIMIT 7", false, 0},
	{"SELECT DISTINCT k FROM a.json LIMIT 5", false, 0},
	{"SELECT a FROM a.json WHERE s LIKE 'x1%' AND s ~ 'x[0-9]+' LIMIT 3", false, 0},
	{"SELECT x.a FROM a.json x JOIN b.json y ON x.k = y.k WHERE x.s LIKE 'x%' AND y.s LIKE '%1' AND x.s ~ '^x' AND y.s ~* 'X'", false, 0},
	{"SELECT COUNT(*) FROM stdin.json", true, 0},
	{"SELECT * FROM a.json ORDER BY a DESC LIMIT 3", false, 0},
	{"SELECT x.k, COUNT(*) FROM a.json x LEFT JOIN b.json y ON x.k = y.k GROUP BY x.k", false, 0},
	{"SELECT x.a FROM a.json x JOIN a.json y ON x.a = y.a LIMIT 2000", false, 0},
	{"SELECT x.a FROM a.json x JOIN b.json y ON x.k = y.k JOIN c.csv z ON y.k = z.k LIMIT 50", false, 0},
	{"SELECT * FROM bad.json", false, 1},
	{"SELECT s, a FROM stdin.json WHERE s LIKE 'x%' LIMIT 4", true, 0},
	{"SELECT x.a FROM a.json x JOIN bad.json y ON x.k = y.k", false, 1},
	// the function values of the table are shared by every expression of the process: the same function evaluated by
	// the two input goroutines of a join at once, with different constant arguments on the two sides
	{"SELECT x.a, y.b FROM (SELECT a, k FROM a.json WHERE s ~ '^x1') x JOIN (SELECT b, k FROM b.json WHERE s ~ '2$') y ON x.k = y.k", false, 0},
	{"SELECT x.a, y.b FROM (SELECT a, k FROM a.json WHERE s ~* 'X1' AND s LIKE 'x%') x LEFT JOIN (SELECT b, k FROM b.json WHERE s ~* '[0-9]$' AND s LIKE '%2') y ON x.k = y.k", false, 0},
	{"SELECT x.a, y.b FROM (SELECT a, k, upper(s) AS u FROM a.json WHERE s ~ 'x[12]' AND substr(s, 1) > 'a') x OUTER JOIN (SELECT b, k, lower(s) AS u FROM b.json WHERE NOT s ~ 'x[34]' AND replace(s, 'x', 'y') < 'z') y ON x.k = y.k LIMIT 3000", false, 0},
}

var c29RaceBuildOnce sync.Once
var c29RaceBuildErr string

func c29RaceBin() string { return filepath.Join(buildDir(), "octosql-race") }

// c29BuildRaceBinary builds (incrementally) the race-detector binary from the repository under test. Serialised
// over processes with the same lock file bin/check uses for its go builds.
func c29BuildRaceBinary() {
	os.MkdirAll(buildDir(), 0o755)
	lf, err := os.OpenFile(filepath.Join(buildDir(), "go.lock"), os.O_CREATE|os.O_RDWR, 0o644)
	if err == nil {
		syscall.Flock(int(lf.Fd()), syscall.LOCK_EX)
		defer func() { syscall.Flock(int(lf.Fd()), syscall.LOCK_UN); lf.Close() }()
	}
	cmd := exec.Command("go", "build", "-race", "-tags", "verif", "-o", c29RaceBin(), ".")
	cmd.Dir = repoDir()
	cmd.Env = append(os.Environ(), "GOFLAGS=-mod=mod", "GOPROXY=off", "GOSUMDB=off", "GOTOOLCHAIN=local", "CGO_ENABLED=1")
	out, err := cmd.CombinedOutput()
	if err != nil {
		msg := strings.ReplaceAll(strings.TrimSpace(string(out)), "\n", " ; ")
		if len(msg) > 300 {
			msg = msg[len(msg)-300:]
		}
		c29RaceBuildErr = strings.ReplaceAll(msg, " ", "_")
		if c29RaceBuildErr == "" {
			c29RaceBuildErr = "error"
		}
	}
}

func c29WriteRaceFiles(dir string, rows int, seed uint64) []byte {
	var a, b, c, bad bytes.Buffer
	for i := 0; i < rows; i++ {
		fmt.Fprintf(&a, "{\"a\": %d, \"k\": %d, \"s\": \"x%d\", \"b\": %d.5}\n", i, i%17, int(c29Mix(seed, 1, uint64(i))%23), i)
	}
	for i := 0; i < rows/3+1; i++ {
		fmt.Fprintf(&b, "{\"b\": %d, \"k\": %d, \"s\": \"x%d\"}\n", i, i%19, int(c29Mix(seed, 2, uint64(i))%23))
	}
	c.WriteString("k,v\n")
	for i := 0; i < 40; i++ {
		fmt.Fprintf(&c, "%d,v%d\n", i%19, i)
	}
	for i := 0; i < rows; i++ {
		if i == rows/2 {
			bad.WriteString("{\"a\": 1, \"k\": \n")
		} else {
			fmt.Fprintf(&bad, "{\"a\": %d, \"k\": %d}\n", i, i%17)
		}
	}
	os.WriteFile(filepath.Join(dir, "a.json"), a.Bytes(), 0o644)
	os.WriteFile(filepath.Join(dir, "b.json"), b.Bytes(), 0o644)
	os.WriteFile(filepath.Join(dir, "c.csv"), c.Bytes(), 0o644)
	os.WriteFile(filepath.Join(dir, "bad.json"), bad.Bytes(), 0o644)
	return a.Bytes()
}

func c29RunRace(toks []string) string {
	if len(toks) < 5 {
		return "bad-op"
	}
	gmp := toks[1]
	qid, err := strconv.Atoi(toks[2])
	if err != nil || qid < 0 || qid >= len(c29RaceQueries) {
		return "bad-op"
	}
	rows, _ := strconv.Atoi(toks[3])
	seed, _ := strconv.ParseUint(strings.TrimPrefix(toks[4], "d"), 10, 64)
	c29RaceBuildOnce.Do(c29BuildRaceBinary)
	if c29RaceBuildErr != "" {
		return "race-build-failed " + c29RaceBuildErr
	}
	dir := scratchDir("c29race")
	defer os.RemoveAll(dir)
	stdinData := c29WriteRaceFiles(dir, rows, seed)
	q := c29RaceQueries[qid]
	cmd := exec.Command(c29RaceBin(), q.q, "-o", "csv")
	cmd.Dir = dir
	cmd.Env = append(os.Environ(), "HOME="+dir, "OCTOSQL_NO_TELEMETRY=1", "XDG_CONFIG_HOME="+dir, "XDG_CACHE_HOME="+dir,
		"XDG_DATA_HOME="+dir, "GOMAXPROCS="+gmp, "GORACE=halt_on_error=1 exitcode=66")
	var so, se bytes.Buffer
	cmd.Stdout, cmd.Stderr = &so, &se
	if q.stdin {
		cmd.Stdin = bytes.NewReader(stdinData)
	}
	if err := cmd.Start(); err != nil {
		return "race-build-failed cannot-start"
	}
	done := make(chan error, 1)
	go func() { done <- cmd.Wait() }()
	exit := 0
	select {
	case err := <-done:
		if err != nil {
			if ee, ok := err.(*exec.ExitError); ok {
				exit = ee.ExitCode()
			} else {
				exit = 126
			}
		}
	case <-time.After(10 * time.Minute):
		cmd.Process.Signal(syscall.SIGQUIT)
		select {
		case <-done:
		case <-time.After(5 * time.Second):
			cmd.Process.Kill()
			<-done
		}
		d := filepath.Join(buildDir(), "run", "timeouts")
		os.MkdirAll(d, 0o755)
		os.WriteFile(filepath.Join(d, fmt.Sprintf("c29race-%d-%d.txt", os.Getpid(), time.Now().UnixNano())),
			append([]byte(strings.Join(toks, " ")+"\n"), se.Bytes()...), 0o644)
		return "timeout"
	}
	serr := se.String()
	if exit == 66 || strings.Contains(serr, "WARNING: DATA RACE") {
		// keep the report for the replay: the two stacks' top frames
		var frames []string
		for _, l := range strings.Split(serr, "\n") {
			l = strings.TrimSpace(l)
			if strings.HasPrefix(l, "github.com/cube2222/octosql") || strings.HasPrefix(l, "Write at") || strings.HasPrefix(l, "Read at") ||
				strings.HasPrefix(l, "Previous") {
				frames = append(frames, strings.ReplaceAll(l, " ", "_"))
				if len(frames) >= 8 {
					break
				}
			}
		}
		d := filepath.Join(buildDir(), "run", "races")
		os.MkdirAll(d, 0o755)
		os.WriteFile(filepath.Join(d, fmt.Sprintf("c29race-%d-%d.txt", os.Getpid(), time.Now().UnixNano())),
			append([]byte(strings.Join(toks, " ")+"\n"), se.Bytes()...), 0o644)
		return "race " + strings.Join(frames, " ")
	}
	if strings.Contains(serr, "panic:") || strings.Contains(serr, "fatal error:") {
		return "crash exit=" + strconv.Itoa(exit)
	}
	return "norace exit=" + strconv.Itoa(exit)
}
