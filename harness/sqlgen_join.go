package main

// Generator of JOIN queries and their input tables (C02). Like sqlgen.go every query is produced twice in
// lock-step: SQL text for the real binary and the prefix-token AST that lean/Octo/Drv/C02.lean parses.
//
//   jn <mode> <opt> <fmt> <kinds> DB <n> (T <ncols> <nrows> <v>…)×n Q <from> <whr> <proj> SQL <hex>
//   from := t<i> | sub <from> <expr> | proj <k> <from> <expr>×k | j (inner|lookup|left|right|full) <from> <from> <expr>
//
// Column references are positional (`c<i>`): position in ctx ++ left ++ right, where ctx are the columns of the
// left sides of enclosing LOOKUP JOINs. Table i is stored in the file <alias>.<fmt> with alias "tuv"[i] and
// column names <alias>c<j>.

import (
	"encoding/hex"
	"fmt"
	"strings"

	"github.com/cube2222/octosql/octosql"
)

var joinAliases = []string{"t", "u", "v"}

type joinCol struct {
	sql   string // qualified name as written in the query
	kind  byte   // i f s
	typed bool   // the column holds at least one non-NULL value (otherwise its static type is NULL)
}

type jtable struct {
	kinds []byte
	rows  [][]octosql.Value
}

func (t jtable) typed(j int) bool {
	for _, r := range t.rows {
		if r[j].TypeID != octosql.TypeIDNull {
			return true
		}
	}
	return false
}

func (t jtable) cols(alias string, idx int) []joinCol {
	out := make([]joinCol, len(t.kinds))
	for j := range t.kinds {
		out[j] = joinCol{sql: fmt.Sprintf("%s.%sc%d", alias, joinAliases[idx], j), kind: t.kinds[j], typed: t.typed(j)}
	}
	return out
}

func (t jtable) encode() string {
	var sb strings.Builder
	fmt.Fprintf(&sb, "T %d %d", len(t.kinds), len(t.rows))
	for _, r := range t.rows {
		for _, v := range r {
			sb.WriteByte(' ')
			sb.WriteString(EncodeValue(v))
		}
	}
	return sb.String()
}

var joinInts = []int64{0, 1, 2, 1}
var joinStrs = []string{"x", "xa", "q"}
var joinFloats = []float64{0, 0.25, 1, 2.5}

func joinValue(g *Gen, kind byte) octosql.Value {
	switch kind {
	case 'i':
		return octosql.NewInt(Pick(g, joinInts))
	case 'f':
		return octosql.NewFloat(Pick(g, joinFloats))
	default:
		return octosql.NewString(Pick(g, joinStrs))
	}
}

// genJTable: kinds[j] is the kind of column j (the key columns of all tables of one op share their kinds)
func genJTable(g *Gen, kinds []byte, minRows, maxRows int) jtable {
	t := jtable{kinds: kinds}
	n := minRows + g.Intn(maxRows-minRows+1)
	nullDen := Pick(g, []int{3, 4, 8})
	for r := 0; r < n; r++ {
		row := make([]octosql.Value, len(kinds))
		for j, k := range kinds {
			if g.Chance(1, nullDen) {
				row[j] = octosql.NewNull()
			} else {
				row[j] = joinValue(g, k)
			}
		}
		if r > 0 && g.Chance(1, 4) {
			copy(row, t.rows[g.Intn(r)])
		}
		t.rows = append(t.rows, row)
	}
	return t
}

type jexpr struct{ tok, sql string }

func colExpr(pos int, c joinCol) jexpr { return jexpr{tok: fmt.Sprintf("c%d", pos), sql: c.sql} }

func litExpr(g *Gen, kind byte) jexpr {
	v := joinValue(g, kind)
	switch kind {
	case 'i':
		return jexpr{tok: "v " + EncodeValue(v), sql: fmt.Sprintf("%d", v.Int)}
	case 'f':
		return jexpr{tok: "v " + EncodeValue(v), sql: floatText(v.Float)}
	default:
		return jexpr{tok: "v " + EncodeValue(v), sql: "'" + v.Str + "'"}
	}
}

// positions of the columns (within all) that satisfy ok
func pickCol(g *Gen, all []joinCol, lo, hi int, ok func(joinCol) bool) (int, bool) {
	var idx []int
	for i := lo; i < hi; i++ {
		if ok(all[i]) {
			idx = append(idx, i)
		}
	}
	if len(idx) == 0 {
		return 0, false
	}
	return Pick(g, idx), true
}

var orderOps = []string{"<", "<=", ">", ">="}

// genJPred: a boolean expression over all[lo:hi] (positions are indices into all)
func genJPred(g *Gen, all []joinCol, lo, hi int, depth int) jexpr {
	k := g.Intn(10)
	if depth <= 0 && k >= 7 {
		k = g.Intn(7)
	}
	switch {
	case k < 3: // column against column of the same kind
		a, ok := pickCol(g, all, lo, hi, func(c joinCol) bool { return true })
		if !ok {
			return jexpr{tok: "v b1", sql: "true"}
		}
		b, ok := pickCol(g, all, lo, hi, func(c joinCol) bool { return c.kind == all[a].kind })
		if !ok {
			b = a
		}
		ops := []string{"=", "!="}
		if all[a].typed && all[b].typed {
			ops = append(ops, orderOps...)
		}
		op := Pick(g, ops)
		return jexpr{tok: op + " " + colExpr(a, all[a]).tok + " " + colExpr(b, all[b]).tok, sql: "(" + all[a].sql + " " + op + " " + all[b].sql + ")"}
	case k < 5: // column against literal
		a, ok := pickCol(g, all, lo, hi, func(c joinCol) bool { return c.typed })
		if !ok {
			return jexpr{tok: "v b1", sql: "true"}
		}
		op := Pick(g, []string{"=", "!=", "<", "<=", ">", ">="})
		l := litExpr(g, all[a].kind)
		return jexpr{tok: op + " " + colExpr(a, all[a]).tok + " " + l.tok, sql: "(" + all[a].sql + " " + op + " " + l.sql + ")"}
	case k < 7: // IS [NOT] NULL
		a, ok := pickCol(g, all, lo, hi, func(c joinCol) bool { return true })
		if !ok {
			return jexpr{tok: "v b1", sql: "true"}
		}
		if g.Bool() {
			return jexpr{tok: fmt.Sprintf("isnull c%d", a), sql: "(" + all[a].sql + " IS NULL)"}
		}
		return jexpr{tok: fmt.Sprintf("notnull c%d", a), sql: "(" + all[a].sql + " IS NOT NULL)"}
	case k < 9:
		a, b := genJPred(g, all, lo, hi, depth-1), genJPred(g, all, lo, hi, depth-1)
		if g.Chance(1, 3) {
			return jexpr{tok: "and " + a.tok + " " + b.tok, sql: "(" + a.sql + " AND " + b.sql + ")"}
		}
		return jexpr{tok: "or " + a.tok + " " + b.tok, sql: "(" + a.sql + " OR " + b.sql + ")"}
	default:
		a := genJPred(g, all, lo, hi, depth-1)
		return jexpr{tok: "not " + a.tok, sql: "(NOT " + a.sql + ")"}
	}
}

type jfrom struct {
	tok, sql string
	cols     []joinCol
}

type joinGen struct {
	g      *Gen
	fmtExt string
	tables []jtable
	fileOf []int
	subN   int
}

func (jg *joinGen) leaf(i int, ctx []joinCol) jfrom {
	g := jg.g
	alias := joinAliases[i]
	fi := jg.fileOf[i] // the file read under this alias (a self join reads the file of an earlier table again)
	file := joinAliases[fi] + "." + jg.fmtExt
	k := g.Intn(20)
	if k < 12 {
		return jfrom{tok: fmt.Sprintf("t%d", i), sql: file + " " + alias, cols: jg.tables[i].cols(alias, fi)}
	}
	// a sub-select: (SELECT <* | e AS n, …> FROM file x [WHERE w]) alias ; positions are relative to ctx ++ columns of the file
	jg.subN++
	inner := fmt.Sprintf("%s%d", alias, jg.subN)
	all := append(append([]joinCol{}, ctx...), jg.tables[i].cols(inner, fi)...)
	srcTok := fmt.Sprintf("t%d", i)
	whereSQL := ""
	if k < 15 || k >= 18 {
		w := genJPred(g, all, len(ctx), len(all), 1)
		srcTok = fmt.Sprintf("sub t%d %s", i, w.tok)
		whereSQL = " WHERE " + w.sql
	}
	if k < 15 {
		return jfrom{tok: srcTok, sql: fmt.Sprintf("(SELECT * FROM %s %s%s) %s", file, inner, whereSQL, alias), cols: jg.tables[i].cols(alias, fi)}
	}
	n := 1 + g.Intn(len(all)-len(ctx)+1)
	var toks, sqls []string
	var out []joinCol
	for j := 0; j < n; j++ {
		a := len(ctx) + g.Intn(len(all)-len(ctx))
		if j < len(all)-len(ctx) && g.Chance(2, 3) {
			a = len(ctx) + j // mostly keep the columns in place so that the key kinds survive
		}
		e := colExpr(a, all[a])
		if all[a].kind == 'i' && all[a].typed && g.Chance(1, 4) {
			e = jexpr{tok: "+ " + e.tok + " v i1", sql: "(" + e.sql + " + 1)"}
		}
		name := fmt.Sprintf("%sp%d", alias, j)
		toks = append(toks, e.tok)
		sqls = append(sqls, e.sql+" AS "+name)
		out = append(out, joinCol{sql: alias + "." + name, kind: all[a].kind, typed: all[a].typed})
	}
	return jfrom{tok: fmt.Sprintf("proj %d %s %s", n, srcTok, strings.Join(toks, " ")),
		sql:  fmt.Sprintf("(SELECT %s FROM %s %s%s) %s", strings.Join(sqls, ", "), file, inner, whereSQL, alias),
		cols: out}
}

// onCond builds the ON condition of a join whose inputs occupy all[c:c+wl] and all[c+wl:]; all[:c] is the context
func (jg *joinGen) onCond(kind string, all []joinCol, c, wl int, ctxRefs bool) jexpr {
	g := jg.g
	outer := kind == "left" || kind == "right" || kind == "full"
	var parts []jexpr
	nk := 1 + g.Intn(3)
	if !outer && g.Chance(1, 8) {
		nk = 0
	}
	for i := 0; i < nk; i++ {
		a, ok := pickCol(g, all, c, c+wl, func(joinCol) bool { return true })
		if !ok {
			break
		}
		b, ok := pickCol(g, all, c+wl, len(all), func(x joinCol) bool { return x.kind == all[a].kind })
		if !ok {
			continue
		}
		ea, eb := colExpr(a, all[a]), colExpr(b, all[b])
		if all[a].kind == 'i' && all[a].typed && g.Chance(1, 5) {
			ea = jexpr{tok: "+ " + ea.tok + " v i1", sql: "(" + ea.sql + " + 1)"}
		} else if all[b].kind == 'i' && all[b].typed && g.Chance(1, 8) {
			eb = jexpr{tok: "- " + eb.tok + " v i1", sql: "(" + eb.sql + " - 1)"}
		}
		if g.Bool() {
			ea, eb = eb, ea
		}
		parts = append(parts, jexpr{tok: "= " + ea.tok + " " + eb.tok, sql: ea.sql + " = " + eb.sql})
	}
	extraDen := 3
	if outer {
		extraDen = 14 // the planner rejects it: exercised, but rarely
	}
	if len(parts) == 0 || g.Chance(1, extraDen) {
		lo := c
		if ctxRefs && c > 0 && g.Chance(1, 3) {
			lo = 0
		}
		var e jexpr
		switch g.Intn(4) {
		case 0: // one side only
			if g.Bool() {
				e = genJPred(g, all, c, c+wl, 1)
			} else {
				e = genJPred(g, all, c+wl, len(all), 1)
			}
		case 1:
			if g.Chance(1, 4) {
				e = jexpr{tok: "v b1", sql: "true"}
			} else {
				e = genJPred(g, all, lo, len(all), 0)
			}
		default:
			e = genJPred(g, all, lo, len(all), 1)
		}
		parts = append(parts, e)
	}
	// shuffle
	for i := len(parts) - 1; i > 0; i-- {
		j := g.Intn(i + 1)
		parts[i], parts[j] = parts[j], parts[i]
	}
	cur := parts[0]
	for _, p := range parts[1:] {
		cur = jexpr{tok: "and " + cur.tok + " " + p.tok, sql: cur.sql + " AND " + p.sql}
	}
	return cur
}

var sqlJoinKinds = []string{"inner", "inner", "lookup", "left", "right", "full", "left"}

func joinKeyword(kind string) string {
	switch kind {
	case "inner":
		return "JOIN"
	case "lookup":
		return "LOOKUP JOIN"
	case "left":
		return "LEFT JOIN"
	case "right":
		return "RIGHT JOIN"
	default:
		return "OUTER JOIN"
	}
}

// join builds `l <kind> JOIN r ON …`; mk build the two sides given their context
func (jg *joinGen) join(kind string, ctx []joinCol, mkL, mkR func(ctx []joinCol) jfrom, parenR bool) jfrom {
	l := mkL(ctx)
	rctx := ctx
	if kind == "lookup" {
		rctx = append(append([]joinCol{}, ctx...), l.cols...)
	}
	r := mkR(rctx)
	all := append(append(append([]joinCol{}, ctx...), l.cols...), r.cols...)
	on := jg.onCond(kind, all, len(ctx), len(l.cols), true)
	rsql := r.sql
	if parenR {
		rsql = "(" + rsql + ")"
	}
	return jfrom{tok: fmt.Sprintf("j %s %s %s %s", kind, l.tok, r.tok, on.tok),
		sql:  fmt.Sprintf("%s %s %s ON %s", l.sql, joinKeyword(kind), rsql, on.sql),
		cols: append(append([]joinCol{}, l.cols...), r.cols...)}
}

// genJoinOp produces one `jn` line
func genJoinOp(g *Gen, thorough bool) string {
	mode := Pick(g, []string{"json", "json", "csv", "csv", "stream_native", "batch_table", "live_table"})
	fileFmt := Pick(g, []string{"csv", "csv", "csv", "csv", "json"})
	opt := g.Bool()
	ntab := 2
	if g.Chance(2, 5) {
		ntab = 3
	}
	// shared key kinds
	nkeys := 1 + g.Intn(3)
	num := byte('i')
	if fileFmt == "json" {
		num = 'f'
	}
	kinds := make([]byte, 0, nkeys+1)
	for j := 0; j < nkeys; j++ {
		kinds = append(kinds, Pick(g, []byte{num, num, 's'}))
	}
	kinds = append(kinds, num) // payload
	maxRows := 8
	if thorough && g.Chance(1, 4) {
		maxRows = 14
	}
	jg := &joinGen{g: g, fmtExt: fileFmt}
	for i := 0; i < ntab; i++ {
		minRows := 0
		if fileFmt == "json" {
			minRows = 1 // an empty JSON file has no columns at all
		}
		switch {
		case i > 0 && g.Chance(1, 10): // self join: the same file under another alias
			fi := g.Intn(i)
			jg.fileOf = append(jg.fileOf, jg.fileOf[fi])
			jg.tables = append(jg.tables, jg.tables[fi])
			continue
		case g.Chance(1, 10):
			jg.tables = append(jg.tables, genJTable(g, kinds, minRows, 1))
		default:
			jg.tables = append(jg.tables, genJTable(g, kinds, minRows, maxRows))
		}
		jg.fileOf = append(jg.fileOf, i)
	}
	leaf := func(i int) func([]joinCol) jfrom { return func(ctx []joinCol) jfrom { return jg.leaf(i, ctx) } }
	var f jfrom
	k1, k2 := Pick(g, sqlJoinKinds), Pick(g, sqlJoinKinds)
	switch {
	case ntab == 2:
		f = jg.join(k1, nil, leaf(0), leaf(1), false)
	case g.Bool(): // left-deep: (t k1 u) k2 v
		f = jg.join(k2, nil, func(ctx []joinCol) jfrom { return jg.join(k1, ctx, leaf(0), leaf(1), false) }, leaf(2), false)
	default: // right-nested: t k1 (u k2 v)
		f = jg.join(k1, nil, leaf(0), func(ctx []joinCol) jfrom { return jg.join(k2, ctx, leaf(1), leaf(2), false) }, true)
	}
	whrTok, whrSQL := "-", ""
	if g.Chance(1, 3) {
		w := genJPred(g, f.cols, 0, len(f.cols), 2)
		whrTok, whrSQL = w.tok, " WHERE "+w.sql
	}
	projTok, projSQL := "*", "*"
	outKinds := make([]byte, len(f.cols))
	for i, c := range f.cols {
		outKinds[i] = c.kind
	}
	if g.Chance(1, 3) {
		n := 1 + g.Intn(3)
		var toks, sqls []string
		outKinds = nil
		for i := 0; i < n; i++ {
			a := g.Intn(len(f.cols))
			e := colExpr(a, f.cols[a])
			if f.cols[a].kind == 'i' && f.cols[a].typed && g.Chance(1, 3) {
				if b, ok := pickCol(g, f.cols, 0, len(f.cols), func(c joinCol) bool { return c.kind == 'i' && c.typed }); ok {
					e = jexpr{tok: "+ " + e.tok + " " + colExpr(b, f.cols[b]).tok, sql: "(" + e.sql + " + " + f.cols[b].sql + ")"}
				}
			}
			toks = append(toks, e.tok)
			sqls = append(sqls, fmt.Sprintf("%s AS a%d", e.sql, i))
			outKinds = append(outKinds, f.cols[a].kind)
		}
		projTok = fmt.Sprintf("P%d %s", n, strings.Join(toks, " "))
		projSQL = strings.Join(sqls, ", ")
	}
	sql := fmt.Sprintf("SELECT %s FROM %s%s", projSQL, f.sql, whrSQL)
	var db strings.Builder
	fmt.Fprintf(&db, "DB %d", ntab)
	for _, t := range jg.tables {
		db.WriteByte(' ')
		db.WriteString(t.encode())
	}
	o := "0"
	if opt {
		o = "1"
	}
	return fmt.Sprintf("jn %s %s %s %s %s Q %s %s %s SQL %s", mode, o, fileFmt, string(outKinds), db.String(), f.tok, whrTok, projTok,
		hex.EncodeToString([]byte(sql)))
}
