package main

// C03 — GROUP BY and aggregates match relational semantics.
//
// gen:   type-directed generator of grouping queries (0-3 key expressions, 1-4 aggregates incl. DISTINCT variants,
//        WHERE, DISTINCT, ORDER BY, LIMIT, TRIGGER clauses that select CustomTriggerGroupBy, a HAVING-like outer block,
//        nested sources) over NULL-heavy tables with duplicates and mixed-type columns; SQL text and the prefix-token
//        AST of lean/Octo/Drv/C03.lean are produced in lock-step. Plus `res` ops (overload resolution alone, on the real
//        logical.GroupBy.Typecheck) and the `aggtable` op (generated table vs linked table).
// drive: the REAL octosql binary (bin/check builds it from the repository's working tree) on the generated files.

import (
	"bufio"
	"context"
	"encoding/hex"
	"encoding/json"
	"fmt"
	"math"
	"os"
	"reflect"
	"sort"
	"strconv"
	"strings"

	"github.com/cube2222/octosql/aggregates"
	"github.com/cube2222/octosql/logical"
	"github.com/cube2222/octosql/octosql"
	"github.com/cube2222/octosql/physical"
)

func init() {
	register("C03", &prop{gen: genC03, drive: driveC03})
}

// ---------------------------------------------------------------- tables

var gInts = []int64{-1, 0, 1, 2, 1, 2, 3}
var gFloats = []float64{-1.5, math.Copysign(0, -1), 0, 0.25, 1, 2.5, 1, 0.25}
var gStrs = []string{"x", "xa", "q", "x"}

// column kinds: i f s b ; n = all NULL ; x = mixed Int/String/Boolean (CSV) ; y = mixed Float/String/Boolean (JSON)
func genGTable(g *Gen, fileFmt string, mixedOK, bigInts bool, maxRows int) qtable {
	ncols := 1 + g.Intn(4)
	kinds := []byte{'i', 'i', 'i', 'f', 's', 's', 'b'}
	if fileFmt == "json" {
		kinds = []byte{'f', 'f', 'f', 's', 's', 'b'}
	}
	t := qtable{}
	for i := 0; i < ncols; i++ {
		k := Pick(g, kinds)
		if mixedOK && g.Chance(1, 5) {
			k = 'x'
			if fileFmt == "json" {
				k = 'y'
			}
		} else if g.Chance(1, 25) {
			k = 'n'
		}
		t.cols = append(t.cols, qcol{name: fmt.Sprintf("c%d", i), kind: k, nullable: k == 'n' || g.Chance(3, 5)})
	}
	nrows := 1 + g.Intn(maxRows)
	scalar := func(k byte) octosql.Value {
		switch k {
		case 'i':
			if bigInts && g.Chance(1, 6) {
				return octosql.NewInt(Pick(g, []int64{math.MaxInt64, math.MinInt64, math.MaxInt64 - 1}))
			}
			return octosql.NewInt(Pick(g, gInts))
		case 'f':
			return octosql.NewFloat(Pick(g, gFloats))
		case 'b':
			return octosql.NewBoolean(g.Bool())
		default:
			return octosql.NewString(Pick(g, gStrs))
		}
	}
	for r := 0; r < nrows; r++ {
		row := make([]octosql.Value, ncols)
		for i, c := range t.cols {
			if c.kind == 'n' || (c.nullable && r > 0 && g.Chance(2, 5)) {
				row[i] = octosql.NewNull()
				continue
			}
			switch c.kind {
			case 'x':
				row[i] = scalar(Pick(g, []byte{'i', 'i', 's', 'b'}))
			case 'y':
				row[i] = scalar(Pick(g, []byte{'f', 'f', 's', 'b'}))
			default:
				row[i] = scalar(c.kind)
			}
		}
		if r > 0 && g.Chance(1, 4) {
			copy(row, t.rows[g.Intn(r)])
		}
		t.rows = append(t.rows, row)
	}
	return t
}

// ---------------------------------------------------------------- expressions

func plainKind(k byte) bool { return k == 'i' || k == 'f' || k == 's' || k == 'b' }

func colRef(cols []qcol, i int) qexpr {
	return qexpr{kind: cols[i].kind, nullable: cols[i].nullable, tok: fmt.Sprintf("c%d", i), sql: cols[i].name}
}

func litOf(g *Gen, kind byte) qexpr {
	switch kind {
	case 'i':
		v := int64(g.Intn(3))
		return qexpr{kind: 'i', tok: "v " + EncodeValue(octosql.NewInt(v)), sql: strconv.FormatInt(v, 10)}
	case 'f':
		f := Pick(g, []float64{0.25, 1.5})
		return qexpr{kind: 'f', tok: "v " + EncodeValue(octosql.NewFloat(f)), sql: strconv.FormatFloat(f, 'f', -1, 64)}
	default:
		s := Pick(g, []string{"x", "q"})
		return qexpr{kind: 's', tok: "v " + EncodeValue(octosql.NewString(s)), sql: "'" + s + "'"}
	}
}

// genGInt: an Int-typed expression over the Int columns (needs at least one)
func genGInt(g *Gen, cols []qcol, depth int) qexpr {
	idx := colsOfKind(cols, 'i')
	if depth > 0 && g.Chance(1, 2) {
		a, b := genGInt(g, cols, depth-1), genGInt(g, cols, depth-1)
		op := Pick(g, []string{"+", "-", "*"})
		return qexpr{kind: 'i', nullable: a.nullable || b.nullable, tok: op + " " + a.tok + " " + b.tok, sql: "(" + a.sql + " " + op + " " + b.sql + ")"}
	}
	if len(idx) > 0 && g.Chance(3, 4) {
		return colRef(cols, Pick(g, idx))
	}
	return litOf(g, 'i')
}

// genGPred: a Boolean expression; comparisons only between plain columns / literals of one kind
func genGPred(g *Gen, cols []qcol, depth int) qexpr {
	k := g.Intn(10)
	if depth <= 0 && k >= 7 {
		k = g.Intn(7)
	}
	switch {
	case k < 4:
		var cand []int
		for i, c := range cols {
			if c.kind == 'i' || c.kind == 'f' || c.kind == 's' {
				cand = append(cand, i)
			}
		}
		if len(cand) == 0 {
			break
		}
		a := colRef(cols, Pick(g, cand))
		var b qexpr
		if same := colsOfKind(cols, a.kind); len(same) > 1 && g.Chance(1, 3) {
			b = colRef(cols, Pick(g, same))
		} else {
			b = litOf(g, a.kind)
		}
		if a.kind == 'i' && g.Chance(1, 4) {
			a = genGInt(g, cols, 1)
		}
		op := Pick(g, []string{"=", "!=", "<", "<=", ">", ">="})
		return qexpr{kind: 'b', nullable: a.nullable || b.nullable, tok: op + " " + a.tok + " " + b.tok, sql: "(" + a.sql + " " + op + " " + b.sql + ")"}
	case k < 6:
	case k < 7:
		if idx := colsOfKind(cols, 'b'); len(idx) > 0 {
			return colRef(cols, Pick(g, idx))
		}
	case k < 9:
		a, b := genGPred(g, cols, depth-1), genGPred(g, cols, depth-1)
		if g.Bool() {
			return qexpr{kind: 'b', nullable: a.nullable || b.nullable, tok: "and " + a.tok + " " + b.tok, sql: "(" + a.sql + " AND " + b.sql + ")"}
		}
		return qexpr{kind: 'b', nullable: a.nullable || b.nullable, tok: "or " + a.tok + " " + b.tok, sql: "(" + a.sql + " OR " + b.sql + ")"}
	default:
		a := genGPred(g, cols, depth-1)
		return qexpr{kind: 'b', nullable: a.nullable, tok: "not " + a.tok, sql: "(NOT " + a.sql + ")"}
	}
	// IS [NOT] NULL on any column (also mixed-type and array columns)
	i := g.Intn(len(cols))
	if g.Bool() {
		return qexpr{kind: 'b', tok: fmt.Sprintf("isnull c%d", i), sql: "(" + cols[i].name + " IS NULL)"}
	}
	return qexpr{kind: 'b', tok: fmt.Sprintf("notnull c%d", i), sql: "(" + cols[i].name + " IS NOT NULL)"}
}

// a GROUP BY key: mostly a column (any kind), sometimes Int arithmetic or a predicate
func genKey(g *Gen, cols []qcol) qexpr {
	r := g.Intn(10)
	if r < 2 && len(colsOfKind(cols, 'i')) > 0 {
		e := genGInt(g, cols, 1)
		if !strings.HasPrefix(e.tok, "v ") {
			return e
		}
	}
	if r == 2 {
		return genGPred(g, cols, 1)
	}
	return colRef(cols, g.Intn(len(cols)))
}

type gagg struct {
	tok, sql string
	kind     byte // kind of the output column
}

func upperKind(k byte) byte { return k - 'a' + 'A' }

func genAgg(g *Gen, cols []qcol) gagg {
	name := Pick(g, []string{"count", "count", "sum", "sum", "avg", "avg", "min", "max", "array_agg"})
	distinct := g.Chance(1, 3)
	if (name == "min" || name == "max") && !g.Chance(1, 20) {
		distinct = false // MIN/MAX(DISTINCT …) are not in the table: a parse error (kept as a rare negative case)
	}
	numeric := func() (qexpr, bool) {
		var cand []int
		for i, c := range cols {
			if c.kind == 'i' || c.kind == 'f' || c.kind == 'x' || c.kind == 'y' || c.kind == 'n' {
				cand = append(cand, i)
			}
		}
		if g.Chance(1, 60) { // a rare negative case: no overload for this argument type
			return colRef(cols, g.Intn(len(cols))), true
		}
		if len(cand) == 0 {
			return qexpr{}, false
		}
		e := colRef(cols, Pick(g, cand))
		if e.kind == 'i' && g.Chance(1, 4) {
			e = genGInt(g, cols, 1)
		}
		return e, true
	}
	var arg qexpr
	star := false
	switch name {
	case "count":
		if !distinct && g.Chance(1, 3) {
			star = true
		} else {
			arg = colRef(cols, g.Intn(len(cols)))
			if g.Chance(1, 8) {
				arg = genGPred(g, cols, 1)
			}
		}
	case "array_agg":
		arg = colRef(cols, g.Intn(len(cols)))
	default:
		var ok bool
		arg, ok = numeric()
		if !ok {
			name, star = "count", !distinct
			if !star {
				arg = colRef(cols, g.Intn(len(cols)))
			}
		}
	}
	lname := name
	d := ""
	if distinct {
		lname += "_distinct"
		d = "DISTINCT "
	}
	sqlName := name
	if g.Chance(1, 3) {
		sqlName = strings.ToUpper(name)
	}
	if star {
		return gagg{tok: lname + " @", sql: sqlName + "(*)", kind: 'i'}
	}
	out := gagg{tok: lname + " " + arg.tok, sql: sqlName + "(" + d + arg.sql + ")"}
	switch name {
	case "count":
		out.kind = 'i'
	case "array_agg":
		out.kind = upperKind(arg.kind)
	default:
		out.kind = arg.kind // sum / avg / min / max keep the argument's kind (x, y: whatever passes the assertion)
	}
	return out
}

// ---------------------------------------------------------------- blocks

type gblock struct {
	tok, sql string
	cols     []qcol // output columns (name = alias; "" when the item has no alias)
	ordered  bool
}

func genOrderLimit(g *Gen, outCols []qcol, nrowsHint int, pOrder int) (ordTok, ordSQL, limTok, limSQL string, ordered bool) {
	ordTok, limTok = "O0", "-"
	var named []int
	for i, c := range outCols {
		if c.name != "" {
			named = append(named, i)
		}
	}
	if len(named) == 0 || !g.Chance(pOrder, 10) {
		return
	}
	k := 1 + g.Intn(2)
	var toks, sqls []string
	for i := 0; i < k; i++ {
		ci := Pick(g, named)
		dir := "asc"
		if g.Bool() {
			dir = "desc"
		}
		toks = append(toks, fmt.Sprintf("c%d %s", ci, dir))
		sqls = append(sqls, outCols[ci].name+" "+strings.ToUpper(dir))
	}
	ordTok = fmt.Sprintf("O%d %s", k, strings.Join(toks, " "))
	ordSQL = " ORDER BY " + strings.Join(sqls, ", ")
	ordered = true
	// LIMIT only together with ORDER BY: the group-by node emits its rows in hash order
	if g.Chance(1, 3) {
		n := g.Intn(nrowsHint + 2)
		limTok, limSQL = fmt.Sprintf("L%d", n), fmt.Sprintf(" LIMIT %d", n)
	}
	return
}

type gopts struct {
	having    bool // the block carries a HAVING clause (encoded as an outer block over the bare grouping block)
	aliasAll  bool
	trigger   string // "" | E | C<k> | CE<k>
	pOrder    int    // out of 10
	nrowsHint int
}

func genGroupBlock(g *Gen, srcTok, srcSQL string, cols []qcol, o gopts) gblock {
	whrTok, whrSQL := "-", ""
	if g.Chance(2, 5) {
		w := genGPred(g, cols, 2)
		whrTok, whrSQL = w.tok, " WHERE "+w.sql
	}
	nkeys := Pick(g, []int{0, 1, 1, 1, 2, 2, 3})
	var keys []qexpr
	seen := map[string]bool{}
	for len(keys) < nkeys {
		k := genKey(g, cols)
		if seen[k.sql] {
			if g.Chance(1, 2) {
				nkeys--
			}
			continue
		}
		seen[k.sql] = true
		keys = append(keys, k)
	}
	naggs := 1 + g.Intn(4)
	type item struct {
		isKey bool
		idx   int
	}
	var items []item
	for j := range keys {
		if g.Chance(4, 5) {
			items = append(items, item{true, j})
			if g.Chance(1, 8) {
				items = append(items, item{true, j}) // the same key twice in the select list
			}
		}
	}
	keySeen := map[int]int{}
	for i := 0; i < naggs; i++ {
		items = append(items, item{false, i})
	}
	// shuffle, then renumber the aggregates in select-list order
	for i := len(items) - 1; i > 0; i-- {
		j := g.Intn(i + 1)
		items[i], items[j] = items[j], items[i]
	}
	var aggs []gagg
	var selToks, selSQL []string
	var outCols []qcol
	for _, it := range items {
		alias := ""
		if it.isKey {
			k := keys[it.idx]
			if o.aliasAll || g.Chance(3, 4) {
				alias = fmt.Sprintf("k%d", it.idx)
				if keySeen[it.idx] > 0 {
					alias += "b"
				}
			}
			keySeen[it.idx]++
			selToks = append(selToks, strconv.Itoa(it.idx))
			s := k.sql
			if alias != "" {
				s += " AS " + alias
			}
			selSQL = append(selSQL, s)
			outCols = append(outCols, qcol{name: alias, kind: k.kind, nullable: true})
		} else {
			a := genAgg(g, cols)
			n := len(aggs)
			aggs = append(aggs, a)
			if o.aliasAll || g.Chance(3, 4) {
				alias = fmt.Sprintf("a%d", n)
			}
			selToks = append(selToks, strconv.Itoa(len(keys)+n))
			s := a.sql
			if alias != "" {
				s += " AS " + alias
			}
			selSQL = append(selSQL, s)
			outCols = append(outCols, qcol{name: alias, kind: a.kind, nullable: true})
		}
	}
	var keyToks, keySQL, aggToks []string
	for _, k := range keys {
		keyToks = append(keyToks, k.tok)
		keySQL = append(keySQL, k.sql)
	}
	for _, a := range aggs {
		aggToks = append(aggToks, a.tok)
	}
	distinct := g.Chance(1, 6)
	dTok, dSQL := "D0", ""
	if distinct {
		dTok, dSQL = "D1", "DISTINCT "
	}
	ordTok, ordSQL, limTok, limSQL, ordered := genOrderLimit(g, outCols, o.nrowsHint, o.pOrder)
	havTok, havSQL := "", ""
	if o.having {
		// GroupBy -> Map -> Filter(HAVING) -> Distinct -> ORDER BY / LIMIT: the same plan as an outer `SELECT * … WHERE`
		w := genGPred(g, outCols, 2)
		havSQL = " HAVING " + w.sql
		havTok = fmt.Sprintf(" %s * %s %s %s", w.tok, dTok, ordTok, limTok)
		dTok, ordTok, limTok = "D0", "O0", "-"
	}
	grpSQL := ""
	if len(keys) > 0 {
		grpSQL = " GROUP BY " + strings.Join(keySQL, ", ")
	}
	trigTok, trigSQL := "-", ""
	switch {
	case o.trigger == "E":
		trigTok, trigSQL = "E", " TRIGGER ON END OF STREAM"
	case strings.HasPrefix(o.trigger, "CE"):
		trigTok, trigSQL = o.trigger, " TRIGGER COUNTING "+o.trigger[2:]+", ON END OF STREAM"
	case strings.HasPrefix(o.trigger, "C"):
		trigTok, trigSQL = o.trigger, " TRIGGER COUNTING "+o.trigger[1:]
	}
	aliasCounter++
	join := func(xs []string) string {
		if len(xs) == 0 {
			return ""
		}
		return " " + strings.Join(xs, " ")
	}
	tok := fmt.Sprintf("grp %s %s K%d%s A%d%s S%d%s %s %s %s %s", srcTok, whrTok, len(keys), join(keyToks), len(aggs), join(aggToks),
		len(selToks), join(selToks), dTok, ordTok, limTok, trigTok)
	if o.having {
		tok = "osel " + tok + havTok
	}
	sql := fmt.Sprintf("SELECT %s%s FROM %s q%d%s%s%s%s%s%s", dSQL, strings.Join(selSQL, ", "), srcSQL, aliasCounter, whrSQL, grpSQL, havSQL, trigSQL, ordSQL, limSQL)
	return gblock{tok: tok, sql: sql, cols: outCols, ordered: ordered}
}

// the HAVING-like outer block: SELECT … FROM (<grouping query>) q WHERE <predicate over the output columns> …
func genOuterBlock(g *Gen, src gblock, o gopts) gblock {
	cols := src.cols
	whrTok, whrSQL := "-", ""
	if g.Chance(4, 5) {
		w := genGPred(g, cols, 2)
		whrTok, whrSQL = w.tok, " WHERE "+w.sql
	}
	outCols := cols
	projTok, projSQL := "*", "*"
	if g.Chance(1, 2) {
		k := 1 + g.Intn(3)
		var toks, sqls []string
		outCols = nil
		for i := 0; i < k; i++ {
			var e qexpr
			switch r := g.Intn(6); {
			case r == 0 && len(colsOfKind(cols, 'i')) > 0:
				e = genGInt(g, cols, 1)
			case r == 1:
				e = genGPred(g, cols, 1)
			default:
				e = colRef(cols, g.Intn(len(cols)))
			}
			name := fmt.Sprintf("o%d", i)
			toks = append(toks, e.tok)
			sqls = append(sqls, e.sql+" AS "+name)
			outCols = append(outCols, qcol{name: name, kind: e.kind, nullable: true})
		}
		projTok = fmt.Sprintf("P%d %s", k, strings.Join(toks, " "))
		projSQL = strings.Join(sqls, ", ")
	}
	dTok, dSQL := "D0", ""
	if g.Chance(1, 6) {
		dTok, dSQL = "D1", "DISTINCT "
	}
	ordTok, ordSQL, limTok, limSQL, ordered := genOrderLimit(g, outCols, o.nrowsHint, o.pOrder)
	aliasCounter++
	tok := fmt.Sprintf("osel %s %s %s %s %s %s", src.tok, whrTok, projTok, dTok, ordTok, limTok)
	sql := fmt.Sprintf("SELECT %s%s FROM (%s) q%d%s%s%s", dSQL, projSQL, src.sql, aliasCounter, whrSQL, ordSQL, limSQL)
	return gblock{tok: tok, sql: sql, cols: outCols, ordered: ordered}
}

func hasKind(cols []qcol, f func(byte) bool) bool {
	for _, c := range cols {
		if f(c.kind) {
			return true
		}
	}
	return false
}

func isListKind(k byte) bool { return k >= 'A' && k <= 'Z' }
func isMixedKind(k byte) bool {
	return k == 'x' || k == 'y' || k == 'X' || k == 'Y'
}

// one grouping query with its table and output mode
func genGroupCase(g *Gen, thorough bool) string {
	fileFmt := Pick(g, []string{"csv", "csv", "json"})
	mixed := g.Chance(1, 4)
	maxRows := 10
	if thorough && g.Chance(1, 3) {
		maxRows = 30 // larger groups, longer aggregate histories
	}
	t := genGTable(g, fileFmt, mixed, g.Chance(1, 5), maxRows)
	file := "t." + fileFmt
	trigger := ""
	switch g.Intn(10) {
	case 0:
		trigger = "E"
	case 1, 2:
		trigger = fmt.Sprintf("C%d", 1+g.Intn(3))
	case 3:
		trigger = fmt.Sprintf("CE%d", 1+g.Intn(3))
	}
	outer := g.Chance(1, 3)
	having := !outer && g.Chance(1, 6)
	o := gopts{aliasAll: outer || having, having: having, trigger: trigger, pOrder: 4, nrowsHint: len(t.rows)}
	srcTok, srcSQL, srcCols := "tbl", file, t.cols
	if !hasKind(t.cols, func(k byte) bool { return !plainKind(k) }) && g.Chance(1, 6) {
		// a nested single-source block as the FROM of the grouping block (generator of C01)
		so := sqlGenOpts{fileFmt: fileFmt, simpleStr: true, maxRows: 10, maxDepth: 1}
		b := genBlock(g, so, "tbl", file, t.cols, 9, len(t.rows))
		srcTok, srcSQL, srcCols = b.tok, "("+b.sql+")", b.cols
	}
	custom := strings.HasPrefix(trigger, "C")
	if custom && !outer {
		o.pOrder = 7
	}
	q := genGroupBlock(g, srcTok, srcSQL, srcCols, o)
	if outer {
		if custom {
			o.pOrder = 7
		}
		q = genOuterBlock(g, q, o)
	}
	// output mode: what the output parsers can read back without ambiguity
	modes := []string{"json", "json", "json", "csv", "csv", "batch_table", "live_table", "stream_native"}
	if hasKind(q.cols, isMixedKind) {
		modes = []string{"json"} // self-describing cells
	} else if hasKind(q.cols, isListKind) {
		modes = []string{"json", "json", "csv"} // the table printers wrap long cells
	}
	if custom && !q.ordered {
		// a changelog reaches the sink: only the table printers consolidate it
		if hasKind(q.cols, isMixedKind) || hasKind(q.cols, isListKind) {
			// the table printers cannot be read back for these columns: draw another case
			return genGroupCase(g, thorough)
		}
		modes = []string{"batch_table", "live_table"}
	}
	mode := Pick(g, modes)
	table := mode == "batch_table" || mode == "live_table"
	opt := "1"
	if g.Chance(1, 5) || ((outer || having) && hasKind(t.cols, isMixedKind)) {
		// (the optimizer prunes aggregates the outer block does not use, and with them their run-time type errors)
		opt = "0"
	}
	if !q.ordered && !table {
		opt += "s" // rows are compared as a sorted list of texts
	}
	return fmt.Sprintf("grp %s %s %s %s %s G %s SQL %s", mode, opt, fileFmt, kindsOf(q.cols), t.encode(), q.tok, hex.EncodeToString([]byte(q.sql)))
}

// ---------------------------------------------------------------- overload resolution ops

var resTypes = func() []octosql.Type {
	base := []octosql.Type{octosql.Null, octosql.Int, octosql.Float, octosql.Boolean, octosql.String, octosql.Time, octosql.Duration}
	var out []octosql.Type
	// all non-empty subsets of the seven scalar types, as TypeSum builds them
	for m := 1; m < 1<<len(base); m++ {
		var t octosql.Type
		first := true
		for i, b := range base {
			if m&(1<<i) != 0 {
				if first {
					t, first = b, false
				} else {
					t = octosql.TypeSum(t, b)
				}
			}
		}
		out = append(out, t)
	}
	out = append(out, octosql.Any,
		octosql.Type{TypeID: octosql.TypeIDList, List: struct{ Element *octosql.Type }{Element: &octosql.Int}},
		octosql.TypeSum(octosql.Type{TypeID: octosql.TypeIDList, List: struct{ Element *octosql.Type }{Element: &octosql.Int}}, octosql.Null))
	return out
}()

func aggNames() []string {
	var names []string
	for n := range aggregates.Aggregates {
		names = append(names, n)
	}
	sort.Strings(names)
	return names
}

func genC03(g *Gen, tier string, w *bufio.Writer) {
	fmt.Fprintln(w, "aggtable")
	// overload resolution: every aggregate × every union of scalar types (exhaustive on both tiers: 10 × 130)
	for _, n := range aggNames() {
		for _, t := range resTypes {
			fmt.Fprintf(w, "res %s %s\n", n, EncodeType(t))
		}
	}
	n := 1100
	if tier == "thorough" {
		n = 12000
	}
	for i := 0; i < n; i++ {
		fmt.Fprintln(w, genGroupCase(g, tier == "thorough"))
	}
	// aggregates (plain and DISTINCT, MIN / MAX) of an outer query over a RETRACTING source: equal values present several
	// times, one occurrence retracted while others remain
	nr := 12
	if tier == "thorough" {
		nr = 300
	}
	for i := 0; i < nr; i++ {
		rows := 2 + g.Intn(12)
		var sb strings.Builder
		for r := 0; r < rows; r++ {
			fmt.Fprintf(&sb, " %d %d", g.Intn(4), g.Intn(3))
		}
		fmt.Fprintf(w, "gret %s %d %d%s\n", Pick(g, []string{"json", "csv", "batch_table"}), 1+g.Intn(2), rows, sb.String())
		if i%3 == 0 {
			fmt.Fprintf(w, "gcte %s %d%s\n", Pick(g, []string{"json", "csv", "batch_table"}), rows, sb.String())
		}
	}
}

// gcte <mode> <nrows> (<k> <v>)×nrows: a grouping CTE referenced twice, each reference reading other aggregates (the
// optimizer prunes the unused ones per reference; the two references are the SAME physical node)
func driveGcte(toks []string) string {
	mode := toks[1]
	rows, _ := strconv.Atoi(toks[2])
	rest := toks[3:]
	if len(rest) < 2*rows {
		return "bad-op"
	}
	dir := scratchDir("gcte")
	defer os.RemoveAll(dir)
	var sb strings.Builder
	sb.WriteString("k,v\n")
	for r := 0; r < rows; r++ {
		fmt.Fprintf(&sb, "%s,%s\n", rest[2*r], rest[2*r+1])
	}
	os.WriteFile(dir+"/t.csv", []byte(sb.String()), 0o644)
	sql := "WITH g AS (SELECT t.k AS k, COUNT(*) AS c, SUM(t.v) AS s, MIN(t.v) AS lo, MAX(t.v) AS hi FROM t.csv t GROUP BY t.k) " +
		"SELECT p.k1 AS k, p.lo1 AS lo, q.hi2 AS hi, q.c2 AS c FROM (SELECT k AS k1, lo AS lo1 FROM g) p JOIN (SELECT k AS k2, hi AS hi2, c AS c2 FROM g) q ON p.k1 = q.k2"
	out := canonOutput(runOctosql(dir, nil, sql, "-o", mode), mode, "iiii")
	parts := strings.Split(out, " | ")
	if len(parts) > 1 && strings.HasPrefix(parts[0], "rows ") {
		sort.Strings(parts[1:])
		out = strings.Join(parts, " | ")
	}
	return out
}

func driveGret(toks []string) string {
	mode, n := toks[1], toks[2]
	rows, _ := strconv.Atoi(toks[3])
	rest := toks[4:]
	if len(rest) < 2*rows {
		return "bad-op"
	}
	dir := scratchDir("gret")
	defer os.RemoveAll(dir)
	var sb strings.Builder
	sb.WriteString("k,v\n")
	for r := 0; r < rows; r++ {
		fmt.Fprintf(&sb, "%s,%s\n", rest[2*r], rest[2*r+1])
	}
	os.WriteFile(dir+"/t.csv", []byte(sb.String()), 0o644)
	sql := "SELECT COUNT(DISTINCT q.c) AS cd, SUM(DISTINCT q.c) AS sd, COUNT(q.c) AS cc, SUM(q.c) AS s, MAX(q.c) AS mx, MIN(q.c) AS mn FROM " +
		"(SELECT t.k AS k, COUNT(t.v) AS c FROM t.csv t GROUP BY t.k TRIGGER COUNTING " + n + ") q"
	return canonOutput(runOctosql(dir, nil, sql, "-o", mode), mode, "iiiiii")
}

// ---------------------------------------------------------------- drive

type constExpr struct{ t octosql.Type }

func (c constExpr) Typecheck(ctx context.Context, env physical.Environment, logicalEnv logical.Environment) physical.Expression {
	return physical.Expression{Type: c.t, ExpressionType: physical.ExpressionTypeConstant, Constant: &physical.Constant{Value: octosql.NewNull()}}
}

type emptySource struct{}

func (emptySource) Typecheck(ctx context.Context, env physical.Environment, logicalEnv logical.Environment) (physical.Node, map[string]string) {
	return physical.Node{Schema: physical.NewSchema(nil, -1, physical.WithNoRetractions(true)), NodeType: physical.NodeTypeInMemoryRecords,
		InMemoryRecords: &physical.InMemoryRecords{}}, map[string]string{}
}

// driveRes runs the real logical.GroupBy.Typecheck on `name(<expression of type t>)` and reports which descriptor it
// chose (by identity of the descriptor's Prototype) and which TypeIDs the inserted assertion accepts.
func driveRes(name string, t octosql.Type) (out string) {
	defer func() {
		if r := recover(); r != nil {
			if s, ok := r.(string); ok && strings.HasPrefix(s, "unknown aggregate") {
				out = "none"
				return
			}
			out = "panic"
		}
	}()
	gb := logical.NewGroupBy(emptySource{}, nil, nil, []logical.Expression{constExpr{t}}, []string{name}, []string{"a"}, nil)
	env := physical.Environment{Aggregates: aggregates.Aggregates}
	node, _ := gb.Typecheck(context.Background(), env, logical.Environment{UniqueNameGenerator: map[string]int{}})
	chosen := node.GroupBy.Aggregates[0].AggregateDescriptor
	idx := -1
	for i, d := range aggregates.Aggregates[name].Descriptors {
		if reflect.ValueOf(d.Prototype).Pointer() == reflect.ValueOf(chosen.Prototype).Pointer() &&
			d.ArgumentType.Equals(chosen.ArgumentType) && d.OutputType.Equals(chosen.OutputType) {
			idx = i
			break
		}
	}
	parts := []string{strconv.Itoa(idx)}
	arg := node.GroupBy.AggregateExpressions[0]
	if arg.ExpressionType == physical.ExpressionTypeTypeAssertion {
		tt := arg.TypeAssertion.TargetType
		if tt.TypeID != octosql.TypeIDUnion {
			parts = append(parts, strconv.Itoa(int(tt.TypeID)))
		} else {
			for _, a := range tt.Union.Alternatives {
				parts = append(parts, strconv.Itoa(int(a.TypeID)))
			}
		}
	}
	return strings.Join(parts, " ")
}

func driveAggTable() string {
	var parts []string
	for _, n := range aggNames() {
		var ds []string
		for _, d := range aggregates.Aggregates[n].Descriptors {
			arg, out := "fn", "fn"
			if d.TypeFn == nil {
				arg, out = EncodeType(d.ArgumentType), EncodeType(d.OutputType)
			}
			p := d.Prototype()
			pt := reflect.TypeOf(p).String()
			inner := "-"
			if pt == "*aggregates.Distinct" {
				inner = reflect.ValueOf(p).Elem().FieldByName("wrapped").Elem().Type().String()
			}
			ds = append(ds, "("+arg+" "+out+" "+pt+" "+inner+")")
		}
		parts = append(parts, n+" "+strings.Join(ds, " "))
	}
	return strings.Join(parts, " ; ")
}

func normFloat(f float64) float64 {
	if f == 0 {
		return 0 // -0 is printed as +0 on both sides
	}
	return f
}

func numCell(kind byte, text string) (string, error) {
	switch kind {
	case 'i', 'x':
		v, err := strconv.ParseInt(text, 10, 64)
		if err != nil {
			return "", fmt.Errorf("not an Int: %q", text)
		}
		return "i" + strconv.FormatInt(v, 10), nil
	default:
		v, err := strconv.ParseFloat(text, 64)
		if err != nil {
			return "", fmt.Errorf("not a Float: %q", text)
		}
		return EncodeValue(octosql.NewFloat(normFloat(v))), nil
	}
}

// listCell: the elements of a printed list as value-codec tokens
func listCell(elemKind byte, text string, jsonSyntax bool) (string, error) {
	var elems []string
	if jsonSyntax {
		dec := json.NewDecoder(strings.NewReader(text))
		dec.UseNumber()
		var raw []json.RawMessage
		if err := dec.Decode(&raw); err != nil {
			return "", err
		}
		for _, r := range raw {
			s := strings.TrimSpace(string(r))
			switch {
			case s == "null":
				elems = append(elems, "n")
			case s == "true":
				elems = append(elems, "b1")
			case s == "false":
				elems = append(elems, "b0")
			case len(s) > 0 && s[0] == '"':
				var str string
				if err := json.Unmarshal(r, &str); err != nil {
					return "", err
				}
				elems = append(elems, "s"+hex.EncodeToString([]byte(str)))
			default:
				c, err := numCell(elemKind, s)
				if err != nil {
					return "", err
				}
				elems = append(elems, c)
			}
		}
	} else {
		// table syntax: [1, 2] / ['x', 'y'] / [true, false]
		if !strings.HasPrefix(text, "[") || !strings.HasSuffix(text, "]") {
			return "", fmt.Errorf("not a list: %q", text)
		}
		body := text[1 : len(text)-1]
		if body != "" {
			for _, s := range strings.Split(body, ", ") {
				switch {
				case s == "<null>":
					elems = append(elems, "n")
				case s == "true":
					elems = append(elems, "b1")
				case s == "false":
					elems = append(elems, "b0")
				case strings.HasPrefix(s, "'") && strings.HasSuffix(s, "'") && len(s) >= 2:
					elems = append(elems, "s"+hex.EncodeToString([]byte(s[1:len(s)-1])))
				default:
					c, err := numCell(elemKind, s)
					if err != nil {
						return "", err
					}
					elems = append(elems, c)
				}
			}
		}
	}
	return strings.TrimSpace(fmt.Sprintf("L%d %s", len(elems), strings.Join(elems, " "))), nil
}

// recell turns one canonical cell of canonOutput into value-codec tokens, using the column's static kind
func recell(kind byte, cell, mode string) (string, error) {
	if cell == "n" || cell == "b0" || cell == "b1" {
		return cell, nil
	}
	if isListKind(kind) {
		ek := kind - 'A' + 'a'
		switch cell[0] {
		case 'j':
			b, _ := hex.DecodeString(cell[1:])
			return listCell(ek, string(b), true)
		case 's':
			b, _ := hex.DecodeString(cell[1:])
			return listCell(ek, string(b), mode == "csv")
		}
		return "", fmt.Errorf("list column holds %q", cell)
	}
	switch cell[0] {
	case '#':
		return numCell(kind, cell[1:])
	case 's':
		return cell, nil
	}
	return "", fmt.Errorf("unexpected cell %q", cell)
}

func recanon(line, mode, kinds string, sorted bool) string {
	if !strings.HasPrefix(line, "rows ") {
		return line
	}
	parts := strings.Split(line, " | ")
	rows := make([]string, 0, len(parts)-1)
	for _, p := range parts[1:] {
		cells := strings.Fields(p)
		out := make([]string, len(cells))
		for j, c := range cells {
			k := byte('s')
			if j < len(kinds) {
				k = kinds[j]
			}
			rc, err := recell(k, c, mode)
			if err != nil {
				return "unparsable " + hex.EncodeToString([]byte(err.Error()))
			}
			out[j] = rc
		}
		rows = append(rows, strings.Join(out, " "))
	}
	if sorted {
		sort.Strings(rows)
	}
	return strings.Join(append([]string{parts[0]}, rows...), " | ")
}

func driveC03(toks []string) string {
	switch toks[0] {
	case "aggtable":
		return driveAggTable()
	case "res":
		t, _ := ParseType(toks[2:])
		return driveRes(toks[1], t)
	case "gret":
		return driveGret(toks)
	case "gcte":
		return driveGcte(toks)
	}
	mode, _, fileFmt, kinds, names, rows, sql := parseSelLine(toks)
	optTok := toks[2]
	dir := scratchDir("grp")
	defer os.RemoveAll(dir)
	writeTable(dir, fileFmt, names, rows)
	args := []string{sql, "-o", mode}
	if strings.HasPrefix(optTok, "0") {
		args = append(args, "--optimize=false")
	}
	// parse list cells of the table sinks / csv as strings (kind byte other than i f b)
	pk := []byte(kinds)
	for i, k := range pk {
		switch {
		case isListKind(k) || k == 'x' || k == 'y' || k == 'n':
			pk[i] = 'j'
		}
	}
	line := canonOutput(runOctosql(dir, nil, args...), mode, string(pk))
	return recanon(line, mode, kinds, strings.HasSuffix(optTok, "s"))
}
