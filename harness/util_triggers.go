package main

import (
	"bufio"
	"context"
	"fmt"
	"sort"
	"strconv"
	"strings"
	"time"

	"github.com/cube2222/octosql/aggregates"
	"github.com/cube2222/octosql/execution"
	"github.com/cube2222/octosql/execution/nodes"
	"github.com/cube2222/octosql/octosql"
	"github.com/cube2222/octosql/physical"
)

// Shared by C16 and C17 (line protocol: lean/Octo/Drv/TrigCodec.lean).
//
//	trigger configuration (prefix code):  TC<n> | TW<idx> | TE | TM<k> cfg1 … cfgk
//	gb <cfg> K<nk> A<letters|-> E<idx|-> :: <stream>      the real CustomTriggerGroupBy over a ScriptNode
//	trig <cfg> :: ev ; ev ; …                              the real trigger object; events K<k> v… | W<ns> | E | P

// parseTrigCfg builds the *physical* trigger description; Materialize (physical/triggers.go) turns it into the
// execution prototype, so that the planner's mapping is part of what is driven.
func parseTrigCfg(toks []string) (physical.Trigger, []string) {
	tok, rest := toks[0], toks[1:]
	switch {
	case strings.HasPrefix(tok, "TC"):
		n, err := strconv.ParseUint(tok[2:], 10, 64)
		if err != nil {
			panic(err)
		}
		return physical.Trigger{TriggerType: physical.TriggerTypeCounting, CountingTrigger: &physical.CountingTrigger{TriggerAfter: uint(n)}}, rest
	case strings.HasPrefix(tok, "TW"):
		n, err := strconv.Atoi(tok[2:])
		if err != nil {
			panic(err)
		}
		return physical.Trigger{TriggerType: physical.TriggerTypeWatermark, WatermarkTrigger: &physical.WatermarkTrigger{TimeFieldIndex: n}}, rest
	case tok == "TE":
		return physical.Trigger{TriggerType: physical.TriggerTypeEndOfStream, EndOfStreamTrigger: &physical.EndOfStreamTrigger{}}, rest
	case strings.HasPrefix(tok, "TM"):
		k, err := strconv.Atoi(tok[2:])
		if err != nil {
			panic(err)
		}
		ts := make([]physical.Trigger, k)
		for i := 0; i < k; i++ {
			ts[i], rest = parseTrigCfg(rest)
		}
		return physical.Trigger{TriggerType: physical.TriggerTypeMulti, MultiTrigger: &physical.MultiTrigger{Triggers: ts}}, rest
	}
	panic("bad trigger cfg token " + tok)
}

func aggProto(letter byte) func() nodes.Aggregate {
	if letter == 's' {
		return aggregates.SumOverloads[0].Prototype
	}
	return aggregates.CountOverloads[0].Prototype
}

// driveGb: the real CustomTriggerGroupBy (with the EventTimeBuffer it puts in front of the source).
func driveGb(toks []string) string {
	trig, rest := parseTrigCfg(toks)
	if len(rest) < 4 || rest[3] != "::" {
		return "bad-op"
	}
	nk, err := strconv.Atoi(rest[0][1:])
	if err != nil {
		return "bad-op"
	}
	letters := rest[1][1:]
	if letters == "-" {
		letters = ""
	}
	ket := -1
	if rest[2] != "E-" {
		ket, err = strconv.Atoi(rest[2][1:])
		if err != nil {
			return "bad-op"
		}
	}
	msgs := ParseMsgs(rest[4:])
	keyExprs := make([]execution.Expression, nk)
	for i := range keyExprs {
		keyExprs[i] = execution.NewVariable(0, i)
	}
	protos := make([]func() nodes.Aggregate, len(letters))
	aggExprs := make([]execution.Expression, len(letters))
	for i := range protos {
		protos[i] = aggProto(letters[i])
		aggExprs[i] = execution.NewVariable(0, nk+i)
	}
	proto := trig.Materialize(context.Background(), physical.Environment{})
	node := nodes.NewCustomTriggerGroupBy(protos, aggExprs, keyExprs, ket, &ScriptNode{Msgs: msgs, FailAt: -1}, proto)
	ctx := execution.ExecutionContext{Context: context.Background(), VariableContext: nil}
	out, runErr := Collect(ctx, node)
	if runErr != nil {
		return ErrClass(runErr)
	}
	if len(out) == 0 {
		return "ok"
	}
	return "ok " + EncodeMsgs(out)
}

func encodeKeyTok(k execution.GroupKey) string {
	if len(k) == 0 {
		return "K0"
	}
	return fmt.Sprintf("K%d %s", len(k), EncodeValues(k))
}

// driveTrig: the real trigger object, one method call per event.
func driveTrig(toks []string) string {
	trig, rest := parseTrigCfg(toks)
	if len(rest) < 1 || rest[0] != "::" {
		return "bad-op"
	}
	rest = rest[1:]
	t := trig.Materialize(context.Background(), physical.Environment{})()
	var polls []string
	for len(rest) > 0 {
		tok := rest[0]
		switch {
		case tok == ";":
			rest = rest[1:]
		case tok == "E":
			t.EndOfStreamReached()
			rest = rest[1:]
		case tok == "P":
			ks := t.Poll()
			parts := []string{"P" + strconv.Itoa(len(ks))}
			for _, k := range ks { // copy out at once: the slice is invalidated by the next call
				parts = append(parts, encodeKeyTok(k))
			}
			polls = append(polls, strings.Join(parts, " "))
			rest = rest[1:]
		case tok[0] == 'W':
			ns, err := strconv.ParseInt(tok[1:], 10, 64)
			if err != nil {
				panic(err)
			}
			t.WatermarkReceived(time.Unix(0, ns).UTC())
			rest = rest[1:]
		case tok[0] == 'K':
			n, err := strconv.Atoi(tok[1:])
			if err != nil {
				panic(err)
			}
			var vs []octosql.Value
			vs, rest = ParseValues(n, rest[1:])
			t.KeyReceived(execution.GroupKey(vs))
		default:
			panic("bad event token " + tok)
		}
	}
	return strings.Join(polls, " ; ")
}

// driveSgb: the real SimpleGroupBy (what the planner builds when there is no TRIGGER clause); its rows come out in
// hash-map order and are sorted by key here (the model lists them in key order).
func driveSgb(toks []string) string {
	if len(toks) < 3 || toks[2] != "::" {
		return "bad-op"
	}
	nk, err := strconv.Atoi(toks[0][1:])
	if err != nil {
		return "bad-op"
	}
	letters := toks[1][1:]
	if letters == "-" {
		letters = ""
	}
	msgs := ParseMsgs(toks[3:])
	keyExprs := make([]execution.Expression, nk)
	for i := range keyExprs {
		keyExprs[i] = execution.NewVariable(0, i)
	}
	protos := make([]func() nodes.Aggregate, len(letters))
	aggExprs := make([]execution.Expression, len(letters))
	for i := range protos {
		protos[i] = aggProto(letters[i])
		aggExprs[i] = execution.NewVariable(0, nk+i)
	}
	node := nodes.NewSimpleGroupBy(protos, aggExprs, keyExprs, &ScriptNode{Msgs: msgs, FailAt: -1})
	ctx := execution.ExecutionContext{Context: context.Background(), VariableContext: nil}
	out, runErr := Collect(ctx, node)
	if runErr != nil {
		return ErrClass(runErr)
	}
	var wms, rows []Msg
	for _, m := range out {
		if m.IsWM {
			wms = append(wms, m)
		} else {
			rows = append(rows, m)
		}
	}
	sort.SliceStable(rows, func(i, j int) bool {
		return execution.CompareValueSlices(rows[i].Rec.Values[:nk], rows[j].Rec.Values[:nk])
	})
	out = append(wms, rows...)
	if len(out) == 0 {
		return "ok"
	}
	return "ok " + EncodeMsgs(out)
}

func driveTrigProps(toks []string) string {
	switch toks[0] {
	case "sgb":
		return driveSgb(toks[1:])
	case "gb":
		return driveGb(toks[1:])
	case "trig":
		return driveTrig(toks[1:])
	}
	return "bad-op"
}

// ---------------------------------------------------------------- generators

func cfgString(c []string) string { return strings.Join(c, " ") }

// trigger combinations as SQL can produce them: every non-empty subset of {COUNTING n, ON WATERMARK, ON END OF STREAM}
// (one member: the trigger itself, several: one MultiTrigger in clause order), n in 1..4.
func sqlTriggerConfigs(timeIdx int) []string {
	w := fmt.Sprintf("TW%d", timeIdx)
	var out []string
	for n := 0; n <= 4; n++ { // n == 0: no counting member
		for _, hasW := range []bool{false, true} {
			for _, hasE := range []bool{false, true} {
				var ms []string
				if n > 0 {
					ms = append(ms, fmt.Sprintf("TC%d", n))
				}
				if hasW {
					ms = append(ms, w)
				}
				if hasE {
					ms = append(ms, "TE")
				}
				switch len(ms) {
				case 0:
				case 1:
					out = append(out, ms[0])
				default:
					out = append(out, fmt.Sprintf("TM%d %s", len(ms), strings.Join(ms, " ")))
				}
			}
		}
	}
	return out
}

// configurations beyond what the SQL layer builds: nested / repeated members, other orders, n = 0, large n.
func exoticTriggerConfigs(timeIdx int) []string {
	w := fmt.Sprintf("TW%d", timeIdx)
	return []string{
		"TM1 TC2", "TM2 TC2 TC3", "TM2 " + w + " TC2", "TM2 TE TC1", "TM2 TM2 TC2 " + w + " TE", "TM3 TC1 TM1 TM1 " + w + " TC2",
		"TC0", "TM2 TC0 " + w, "TC7", "TM2 " + w + " " + w, "TM2 TE TE", "TM2 TM1 TE TM0",
	}
}

// the small universe of the bounded-exhaustive search: 2 ids x 2 times.
// id 0 lives in UTC, id 1 in a +00:30 FixedZone created separately: the same instant then comes with two
// different *time.Location pointers, which is what GROUP BY on a parsed timestamp column with a
// non-whole-hour offset produces.
const (
	uT1 = int64(1000)
	uT2 = int64(2000)
)

func uTime(j int) int64 {
	if j == 0 {
		return uT1
	}
	return uT2
}

func uLoc(i int) int {
	if i == 0 {
		return 0
	}
	return 101
}

func uKey(i, j int) string { return fmt.Sprintf("t%d:%d i%d", uTime(j), uLoc(i), i) }

// a record of the universe: key (time_j, id_i), one argument column per aggregate letter
func uRecord(i, j int, letters string, retr bool, withEt bool) string {
	vals := uKey(i, j)
	for a := range letters {
		switch {
		case letters[a] == 's':
			vals += fmt.Sprintf(" i%d", 3+2*i+5*j)
		case letters[a] == 'N' && i == 1: // count over an argument that is NULL for id 1
			vals += " n"
		default:
			vals += " i1"
		}
	}
	sign := "+"
	if retr {
		sign = "-"
	}
	et := "z"
	if withEt {
		et = strconv.FormatInt(uTime(j), 10)
	}
	return fmt.Sprintf("R%d %s %s %s", 2+len(letters), vals, sign, et)
}

// enumerate all event sequences of exactly length n over {record, retraction} x 2 ids x 2 times + watermark x 2 times
// that are valid changelogs (no retraction of an absent row) with non-decreasing watermarks and no late records;
// calls emit with the stream text.
func enumStreams(n int, letters string, withEt bool, emit func(stream string)) {
	var cnt [2][2]int
	var parts []string
	var rec func(depth int, wm int64)
	rec = func(depth int, wm int64) {
		if depth == n {
			emit(strings.Join(parts, " ; "))
			return
		}
		for i := 0; i < 2; i++ {
			for j := 0; j < 2; j++ {
				if withEt && uTime(j) <= wm {
					continue // would be a late record
				}
				cnt[i][j]++
				parts = append(parts, uRecord(i, j, letters, false, withEt))
				rec(depth+1, wm)
				parts = parts[:len(parts)-1]
				cnt[i][j]--
				if cnt[i][j] > 0 {
					cnt[i][j]--
					parts = append(parts, uRecord(i, j, letters, true, withEt))
					rec(depth+1, wm)
					parts = parts[:len(parts)-1]
					cnt[i][j]++
				}
			}
		}
		for j := 0; j < 2; j++ {
			if uTime(j) < wm {
				continue
			}
			// watermarks at the key times and just below/above them
			for _, w := range []int64{uTime(j)} {
				parts = append(parts, "W"+strconv.FormatInt(w, 10))
				rec(depth+1, w)
				parts = parts[:len(parts)-1]
			}
		}
	}
	rec(0, -1)
}

// a random valid watermarked changelog over `nkeys` ids and `ntimes` times with several locations per instant
func randStream(g *Gen, n int, letters string, withEt bool, late bool) string {
	type row struct {
		txt string
		t   int64
	}
	var present []row
	var parts []string
	wm := int64(-1)
	nid, nt := 1+g.Intn(4), 1+g.Intn(4)
	locs := []int{0, 1, 101, 103}
	for len(parts) < n {
		switch k := g.Intn(10); {
		case k < 6 || len(present) == 0 && k < 8:
			i, j := g.Intn(nid), g.Intn(nt)
			t := int64(1000 * (j + 1))
			if withEt && t <= wm && !late {
				continue
			}
			vals := fmt.Sprintf("t%d:%d i%d", t, Pick(g, locs), i)
			for a := range letters {
				switch {
				case g.Chance(1, 6):
					vals += " n"
				case letters[a] == 's':
					vals += fmt.Sprintf(" i%d", g.Intn(9)-4)
				default:
					vals += fmt.Sprintf(" i%d", g.Intn(3))
				}
			}
			present = append(present, row{vals, t})
			parts = append(parts, fmt.Sprintf("R%d %s + %s", 2+len(letters), vals, etTxt(withEt, t)))
		case k < 8:
			if len(present) == 0 {
				continue
			}
			x := g.Intn(len(present))
			r := present[x]
			if withEt && r.t <= wm && !late {
				continue
			}
			present = append(present[:x], present[x+1:]...)
			txt := r.txt
			if g.Chance(1, 3) { // the retraction names the same instant through another location
				f := strings.Fields(txt)
				f[0] = fmt.Sprintf("t%d:%d", r.t, Pick(g, locs))
				txt = strings.Join(f, " ")
			}
			parts = append(parts, fmt.Sprintf("R%d %s - %s", 2+len(letters), txt, etTxt(withEt, r.t)))
		default:
			w := wm + int64(g.Intn(1500))
			if w < 0 {
				w = 0
			}
			wm = w
			parts = append(parts, "W"+strconv.FormatInt(w, 10))
		}
	}
	return strings.Join(parts, " ; ")
}

func etTxt(withEt bool, t int64) string {
	if withEt {
		return strconv.FormatInt(t, 10)
	}
	return "z"
}

// node-level ops.  `small` (used by C17, whose main subject is the trigger-level scripts) keeps the exhaustive part short.
func genGbOps(g *Gen, tier string, w *bufio.Writer, salt int, small bool) {
	// bounded-exhaustive: every SQL trigger combination x every valid stream (event time = key time) of length <= full;
	// the lengths above `full` up to maxLen on a rotating subset of the configurations (the subset moves with the seed)
	full, maxLen, nrand, randLen := 4, 5, 1500, 40
	share := map[int]int{5: 5} // length -> one configuration out of `share`
	if small {
		full, maxLen = 3, 4
		share = map[int]int{4: 3}
	}
	if tier == "thorough" {
		full, maxLen, nrand, randLen = 5, 7, 40000, 200
		share = map[int]int{6: 4, 7: 19}
		if small {
			full, maxLen = 4, 6
			share = map[int]int{5: 3, 6: 10}
		}
	}
	if small {
		nrand /= 4
	}
	cfgs := sqlTriggerConfigs(0)
	ex := exoticTriggerConfigs(0)
	for n := 0; n <= maxLen; n++ {
		for ci, c := range cfgs {
			if n > full && (ci+salt)%share[n] != 0 {
				continue
			}
			enumStreams(n, "c", true, func(s string) {
				fmt.Fprintf(w, "gb %s K2 Ac E0 :: %s\n", c, s)
			})
		}
	}
	// the same universe with a NULL aggregate argument for one of the ids (AggregatedSetSize stays 0: the column must be NULL)
	for n := 1; n <= full-1; n++ {
		for _, c := range cfgs {
			enumStreams(n, "N", true, func(s string) {
				fmt.Fprintf(w, "gb %s K2 Ac E0 :: %s\n", c, s)
			})
		}
	}
	// exotic configurations (nested / repeated members, n = 0, ...) on shorter lengths
	for n := 0; n <= full-1; n++ {
		for _, c := range ex {
			enumStreams(n, "c", true, func(s string) {
				if g.Chance(1, 4) || tier == "thorough" {
					fmt.Fprintf(w, "gb %s K2 Ac E0 :: %s\n", c, s)
				}
			})
		}
	}
	all := append(append([]string{}, cfgs...), ex...)
	for i := 0; i < nrand; i++ {
		c := Pick(g, all)
		letters := Pick(g, []string{"c", "cs", "s", "sc", ""})
		withEt := g.Chance(3, 4)
		ket := "E0"
		if !withEt && g.Chance(1, 2) {
			ket = "E-"
		}
		a := "A" + letters
		if letters == "" {
			a = "A-"
		}
		stream := randStream(g, 1+g.Intn(randLen), letters, withEt, g.Chance(1, 10))
		if ket == "E0" && g.Chance(1, 3) {
			// the time field is the SECOND key column (GROUP BY id, window_end): the trigger's pending keys must still be
			// handed out by time, whatever the order of the other key columns
			toks := strings.Fields(stream)
			for j := 0; j+2 < len(toks); j++ {
				if len(toks[j]) > 1 && toks[j][0] == 'R' && toks[j][1] >= '2' && toks[j][1] <= '9' {
					toks[j+1], toks[j+2] = toks[j+2], toks[j+1]
				}
			}
			stream, ket = strings.Join(toks, " "), "E1"
		}
		fmt.Fprintf(w, "gb %s K2 %s %s :: %s\n", c, a, ket, stream)
	}
	// the plain batch node (SimpleGroupBy) on the same kind of streams
	if !small {
		for n := 0; n <= full; n++ {
			enumStreams(n, "c", true, func(s string) {
				fmt.Fprintf(w, "sgb K2 Ac :: %s\n", s)
			})
		}
		for i := 0; i < nrand/3; i++ {
			letters := Pick(g, []string{"c", "cs", "s", "sc", ""})
			a := "A" + letters
			if letters == "" {
				a = "A-"
			}
			fmt.Fprintf(w, "sgb K2 %s :: %s\n", a, randStream(g, 1+g.Intn(randLen), letters, g.Chance(3, 4), g.Chance(1, 10)))
		}
	}
	// configurations on which the Go code panics by construction (time index out of range)
	fmt.Fprintf(w, "gb TW2 K2 Ac E0 :: %s\n", uRecord(0, 0, "c", false, true))
	fmt.Fprintf(w, "gb TM2 TC1 TW5 K2 Ac E0 :: %s\n", uRecord(0, 0, "c", false, true))
	fmt.Fprintf(w, "gb TW2 K2 Ac E0 :: W5\n")
}

// trigger-level ops: node-shaped scripts (Poll after every KeyReceived / WatermarkReceived, then E P)
func genTrigOps(g *Gen, tier string, w *bufio.Writer) {
	maxLen, nrand, randLen := 5, 1500, 40
	if tier == "thorough" {
		maxLen, nrand, randLen = 6, 40000, 300
	}
	cfgs := append(sqlTriggerConfigs(0), exoticTriggerConfigs(0)...)
	leafs := []string{"TC1", "TC2", "TC3", "TC4", "TW0", "TE"}
	var evs []string
	for i := 0; i < 2; i++ {
		for j := 0; j < 2; j++ {
			evs = append(evs, "K2 "+uKey(i, j))
		}
	}
	for j := 0; j < 2; j++ {
		evs = append(evs, "W"+strconv.FormatInt(uTime(j), 10))
	}
	var parts []string
	var rec func(c string, n int)
	rec = func(c string, n int) {
		if n == 0 {
			fmt.Fprintf(w, "trig %s :: %s\n", c, strings.Join(append(append([]string{}, parts...), "E", "P"), " ; "))
			return
		}
		for _, e := range evs {
			parts = append(parts, e, "P")
			rec(c, n-1)
			parts = parts[:len(parts)-2]
		}
	}
	for n := 0; n <= maxLen; n++ {
		for _, c := range leafs {
			rec(c, n)
		}
	}
	if tier == "thorough" { // length 7 on one primitive trigger (rotating with the seed)
		rec(leafs[int(seed())%len(leafs)], 7)
	}
	for n := 0; n <= maxLen-2; n++ {
		for _, c := range cfgs {
			rec(c, n)
		}
	}
	// random scripts: more keys/times/locations, polls and end of stream anywhere
	locs := []int{0, 1, 101, 103}
	cfgs1 := append(sqlTriggerConfigs(1), exoticTriggerConfigs(1)...)
	for i := 0; i < nrand; i++ {
		c := Pick(g, cfgs)
		// a third of the scripts: the time field is the SECOND key column (GROUP BY id, window_end)
		timeSecond := i%3 == 2
		if timeSecond {
			c = Pick(g, cfgs1)
		}
		n := 1 + g.Intn(randLen)
		shaped := g.Chance(2, 3)
		var ps []string
		wm := int64(0)
		for len(ps) < n {
			switch k := g.Intn(12); {
			case k < 7:
				if timeSecond {
					ps = append(ps, fmt.Sprintf("K2 i%d t%d:%d", g.Intn(3), 1000*(1+g.Intn(4)), Pick(g, locs)))
				} else {
					ps = append(ps, fmt.Sprintf("K2 t%d:%d i%d", 1000*(1+g.Intn(4)), Pick(g, locs), g.Intn(3)))
				}
				if shaped {
					ps = append(ps, "P")
				}
			case k < 9:
				if shaped || g.Chance(3, 4) {
					wm += int64(g.Intn(1500))
				} else {
					wm = int64(g.Intn(5000))
				}
				ps = append(ps, "W"+strconv.FormatInt(wm, 10))
				if shaped {
					ps = append(ps, "P")
				}
			case k < 11:
				if !shaped {
					ps = append(ps, "P")
				}
			default:
				if !shaped && g.Chance(1, 4) {
					ps = append(ps, "E")
				}
			}
		}
		ps = append(ps, "E", "P")
		fmt.Fprintf(w, "trig %s :: %s\n", c, strings.Join(ps, " ; "))
	}
	fmt.Fprintf(w, "trig TW2 :: K2 %s ; P ; E ; P\n", uKey(0, 0))
	fmt.Fprintf(w, "trig TM2 TE TW3 :: K2 %s ; P ; E ; P\n", uKey(0, 0))
}
