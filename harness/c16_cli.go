package main

// C16 at the level the property is worded: whole queries with a TRIGGER clause through the REAL binary.
//
//   trq <mode> <combo> <L> <maxdiff> <n> (<sec> <k> <v>)×n
//
// t.csv holds n rows (ts = 2020-01-01T00:00:00Z + sec seconds, non-decreasing; k, v small ints). The query groups the
// rows of every tumbling window (length L seconds) and key under trigger combination <combo>:
//
//   WITH w AS (SELECT * FROM max_diff_watermark(source=>TABLE(t.csv), max_diff=>INTERVAL <maxdiff> SECONDS, time_field=>DESCRIPTOR(ts)) y)
//   SELECT q.k AS k, q.c AS c, q.s AS s FROM (SELECT x.window_end AS e, x.k AS k, COUNT(*) AS c, SUM(x.v) AS s
//     FROM tumble(source=>TABLE(w), window_length=>INTERVAL <L> SECONDS, offset=>INTERVAL 0 SECONDS) x
//     GROUP BY x.window_end, x.k TRIGGER <combo>) q
//
// Whatever the triggers fire and retract on the way, what the sink prints must be the batch grouping: one row (k, count,
// sum) per (window, key). Output: the printed rows, sorted.

import (
	"bufio"
	"fmt"
	"os"
	"path/filepath"
	"sort"
	"strconv"
	"strings"
	"time"
)

var c16Combos = []string{
	"",
	"ON END OF STREAM",
	"ON WATERMARK",
	"COUNTING 1",
	"COUNTING 2",
	"ON WATERMARK, ON END OF STREAM",
	"ON END OF STREAM, ON WATERMARK",
	"COUNTING 2, ON WATERMARK",
	"COUNTING 3, ON END OF STREAM",
	"COUNTING 1, ON WATERMARK, ON END OF STREAM",
	"ON WATERMARK, COUNTING 2",
}

func genC16All(g *Gen, tier string, w *bufio.Writer) {
	genC16(g, tier, w)
	rounds := 2
	if tier == "thorough" {
		rounds = 30
	}
	for r := 0; r < rounds; r++ {
		n := 1 + g.Intn(12)
		L := Pick(g, []int{1, 2, 3, 5})
		md := 1 + g.Intn(3)
		var sb strings.Builder
		sec := 0
		for i := 0; i < n; i++ {
			sec += g.Intn(3)
			fmt.Fprintf(&sb, " %d %d %d", sec, g.Intn(3), g.Intn(5)-1)
		}
		for ci := range c16Combos {
			for _, mode := range []string{"csv", "json", "batch_table"} {
				if tier != "thorough" && mode == "batch_table" && ci%3 != r%3 {
					continue
				}
				fmt.Fprintf(w, "trq %s %d %d %d %d%s\n", mode, ci, L, md, n, sb.String())
			}
		}
	}
}

func driveC16(toks []string) string {
	if toks[0] != "trq" {
		return driveTrigProps(toks)
	}
	mode := toks[1]
	ci, _ := strconv.Atoi(toks[2])
	L, md := toks[3], toks[4]
	n, _ := strconv.Atoi(toks[5])
	rest := toks[6:]
	if ci < 0 || ci >= len(c16Combos) || len(rest) < 3*n {
		return "bad-op"
	}
	dir := scratchDir("trq")
	defer os.RemoveAll(dir)
	var sb strings.Builder
	sb.WriteString("ts,k,v\n")
	base := time.Date(2020, 1, 1, 0, 0, 0, 0, time.UTC)
	for i := 0; i < n; i++ {
		sec, _ := strconv.Atoi(rest[3*i])
		fmt.Fprintf(&sb, "%s,%s,%s\n", base.Add(time.Duration(sec)*time.Second).Format(time.RFC3339), rest[3*i+1], rest[3*i+2])
	}
	os.WriteFile(filepath.Join(dir, "t.csv"), []byte(sb.String()), 0o644)
	trig := ""
	if c16Combos[ci] != "" {
		trig = " TRIGGER " + c16Combos[ci]
	}
	sql := "WITH w AS (SELECT * FROM max_diff_watermark(source=>TABLE(t.csv), max_diff=>INTERVAL " + md + " SECONDS, time_field=>DESCRIPTOR(ts)) y) " +
		"SELECT q.k AS k, q.c AS c, q.s AS s FROM (SELECT x.window_end AS e, x.k AS k, COUNT(*) AS c, SUM(x.v) AS s " +
		"FROM tumble(source=>TABLE(w), window_length=>INTERVAL " + L + " SECONDS, offset=>INTERVAL 0 SECONDS) x " +
		"GROUP BY x.window_end, x.k" + trig + ") q"
	out := canonOutput(runOctosql(dir, nil, sql, "-o", mode), mode, "iii")
	parts := strings.Split(out, " | ")
	if len(parts) > 1 && strings.HasPrefix(parts[0], "rows ") {
		sort.Strings(parts[1:])
		out = strings.Join(parts, " | ")
	}
	return out
}
