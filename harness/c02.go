package main

// C02 — JOIN queries through the real octosql binary (see lean/Octo/Drv/C02.lean for the line protocol).

import (
	"bytes"
	"bufio"
	"encoding/hex"
	"fmt"
	"os"
	"path/filepath"
	"sort"
	"strconv"
	"strings"

	"github.com/cube2222/octosql/octosql"
)

func init() {
	register("C02", &prop{gen: genC02, drive: driveC02})
}

func genC02(g *Gen, tier string, w *bufio.Writer) {
	n := 900
	if tier == "thorough" {
		n = 8000
	}
	for i := 0; i < n; i++ {
		line := genJoinOp(g, tier == "thorough")
		fmt.Fprintln(w, line)
		// the same query through the real planner in-process: the NoRetractions flag of every join node (c02_flags.go)
		if i%2 == 0 {
			fmt.Fprintln(w, "jf"+strings.TrimPrefix(line, "jn"))
		}
	}
	late := 6
	if tier == "thorough" {
		late = 40
	}
	for i := 0; i < late; i++ {
		fmt.Fprintln(w, genLateMatchOp(g, i))
	}
	// the join nodes themselves under chosen interleavings, event times and watermarks (what the CLI cannot steer): a
	// sample of C19's scheduled runs of the real StreamJoin / OuterJoin, judged by C19's oracle (consolidated output =
	// the SQL join of the consolidated inputs, at every watermark and at the end)
	var buf bytes.Buffer
	bw := bufio.NewWriter(&buf)
	genC19(g, tier, bw)
	bw.Flush()
	for i, line := range strings.Split(buf.String(), "\n") {
		if line != "" && i%8 == 5 {
			fmt.Fprintln(w, line)
		}
	}
}

// parseNativeSigned reads `-o stream_native` output as a changelog: `{+…| a, b |}` adds a row, `{-…| a, b |}`
// retracts one. The result is the consolidated table.
func parseNativeSigned(out string, kinds string) (string, error) {
	var rows []string
	for _, line := range strings.Split(out, "\n") {
		if strings.TrimSpace(line) == "" {
			continue
		}
		a := strings.Index(line, "| ")
		b := strings.LastIndex(line, " |}")
		if len(line) < 2 || line[0] != '{' || (line[1] != '+' && line[1] != '-') || a < 0 || b < a {
			return "", fmt.Errorf("unrecognised stream_native line %q", line)
		}
		var cells []string
		for j, c := range strings.Split(line[a+2:b], ", ") {
			k := byte('s')
			if j < len(kinds) {
				k = kinds[j]
			}
			cells = append(cells, nativeCell(k, c))
		}
		row := strings.Join(cells, " ")
		if line[1] == '+' {
			rows = append(rows, row)
			continue
		}
		found := false
		for i := range rows {
			if rows[i] == row {
				rows = append(rows[:i], rows[i+1:]...)
				found = true
				break
			}
		}
		if !found {
			return "", fmt.Errorf("retraction of a row that was not produced: %q", line)
		}
	}
	return strings.Join(append([]string{fmt.Sprintf("rows %d", len(rows))}, rows...), " | "), nil
}

// sortRowsLine sorts the rows of a canonical `rows n | … | …` line (a join's output order depends on the schedule)
func sortRowsLine(s string) string {
	if !strings.HasPrefix(s, "rows ") {
		return s
	}
	parts := strings.Split(s, " | ")
	sort.Strings(parts[1:])
	return strings.Join(parts, " | ")
}

// writeJoinTables writes the tables of a `jn` / `jf` line into dir and returns the SQL text of the line.
func writeJoinTables(toks []string, dir string) string {
	// j? <mode> <opt> <fmt> <kinds> DB <n> (T <ncols> <nrows> v…)×n Q … SQL <hex>
	fileFmt := toks[3]
	if toks[5] != "DB" {
		panic("jn: expected DB")
	}
	ntab, _ := strconv.Atoi(toks[6])
	rest := toks[7:]
	for i := 0; i < ntab; i++ {
		if rest[0] != "T" {
			panic("jn: expected T")
		}
		ncols, _ := strconv.Atoi(rest[1])
		nrows, _ := strconv.Atoi(rest[2])
		rest = rest[3:]
		names := make([]string, ncols)
		for j := range names {
			names[j] = fmt.Sprintf("%sc%d", joinAliases[i], j)
		}
		var rows [][]octosql.Value
		for r := 0; r < nrows; r++ {
			var row []octosql.Value
			row, rest = ParseValues(ncols, rest)
			rows = append(rows, row)
		}
		if fileFmt == "json" {
			writeJSONLines(filepath.Join(dir, joinAliases[i]+".json"), names, rows)
		} else {
			writeCSV(filepath.Join(dir, joinAliases[i]+".csv"), names, rows)
		}
	}
	for i := len(toks) - 2; i >= 0; i-- {
		if toks[i] == "SQL" {
			b, err := hex.DecodeString(toks[i+1])
			if err != nil {
				panic(err)
			}
			return string(b)
		}
	}
	return ""
}

func driveC02(toks []string) string {
	if toks[0] == "sj" || toks[0] == "oj" {
		return driveC19(toks)
	}
	return driveJoin(toks)
}

func driveJoin(toks []string) string {
	if toks[0] == "jf" {
		return driveJoinFlags(toks)
	}
	mode, opt, kinds := toks[1], toks[2] == "1", toks[4]
	dir := scratchDir("jn")
	defer os.RemoveAll(dir)
	sql := writeJoinTables(toks, dir)
	args := []string{sql, "-o", mode}
	if !opt {
		args = append(args, "--optimize=false")
	}
	res := runOctosql(dir, nil, args...)
	if mode == "stream_native" && !res.Panicked && !res.TimedOut && res.Exit == 0 {
		s, err := parseNativeSigned(res.Stdout, kinds)
		if err != nil {
			return "unparsable " + hex.EncodeToString([]byte(err.Error()))
		}
		return sortRowsLine(s)
	}
	return sortRowsLine(canonOutput(res, mode, kinds))
}
