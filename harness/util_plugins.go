package main

// Shared machinery of C27 (crash safety of plugin install / repository add) and C28 (plugin discovery and
// version resolution): the op-line sections (version table, constraint table, file tree, configuration, job),
// materialising a tree below a scratch directory, dumping it canonically, a loopback HTTP server that plays the
// plugin repository, running the REAL PluginManager.Install / repository.AddRepository in-process with a crash
// injected at a chosen filesystem step (hooks of package plugins/verifhook), and running the REAL octosql binary
// to observe start-up (the versions every configured database resolves to are printed by the verif hook in cmd).
//
// Sections (space separated tokens):
//   VT <k>  <orighex>:<rank|x>:<pre 0|1>:<canonhex> …      every version string that occurs, its place in the
//                                                          library's order (equal versions share a rank), x = does not parse
//   CT <k>  <texthex>:<bits over VT> …                     constraints and which versions pass; index 0 is always `*`
//   FS <k>  d:<pathhex> | f:<pathhex>:<contenthex> …       tree below ~/.octosql (paths a/b/c)
//   CFG <k> <dbhex>:<repohex>:<pluginhex>:<cidx|-> …       configured databases
//   JOB <repohex> <pluginhex> <cidx|-> <manifest VT indices a,b,c|-> <archivehex> E <k> <pathhex>:<contenthex> … X <k> <exthex> …
//   AT <step> <tear|->

import (
	"archive/tar"
	"bytes"
	"compress/gzip"
	"context"
	"encoding/hex"
	"encoding/json"
	"fmt"
	"io"
	"net"
	"net/http"
	"os"
	"path/filepath"
	"sort"
	"strconv"
	"strings"
	"sync"

	"github.com/Masterminds/semver"

	"github.com/cube2222/octosql/config"
	"github.com/cube2222/octosql/plugins/manager"
	"github.com/cube2222/octosql/plugins/repository"
	"github.com/cube2222/octosql/plugins/verifhook"
)

type plVer struct {
	orig  string
	rank  int // -1: does not parse
	pre   bool
	canon string
}

type plCon struct {
	text string
	bits []bool
}

type plEntry struct {
	path    string
	dir     bool
	content []byte
}

type plDb struct {
	name, repo, plugin string
	cidx               int // -1: none
}

type plJob struct {
	repo, plugin string
	cidx         int
	manifest     []int
	archive      []byte
	entries      []plEntry // files inside the archive
	exts         []string
}

func hx(s string) string  { return hex.EncodeToString([]byte(s)) }
func unhx(s string) string { b, _ := hex.DecodeString(s); return string(b) }

// ---- building tables with the real semver library

// buildVT ranks the given version strings with the library's own comparison.
func buildVT(origs []string) []plVer {
	type pv struct {
		i int
		v *semver.Version
	}
	out := make([]plVer, len(origs))
	var parsed []pv
	for i, o := range origs {
		out[i] = plVer{orig: o, rank: -1}
		v, err := semver.NewVersion(o)
		if err != nil {
			continue
		}
		out[i].pre = v.Prerelease() != ""
		out[i].canon = v.String()
		parsed = append(parsed, pv{i, v})
	}
	sort.SliceStable(parsed, func(a, b int) bool { return parsed[a].v.LessThan(parsed[b].v) })
	rank := 0
	for j, p := range parsed {
		if j > 0 && !parsed[j-1].v.Equal(p.v) {
			rank++
		}
		out[p.i].rank = rank
	}
	return out
}

func buildCT(texts []string, vt []plVer) []plCon {
	out := make([]plCon, len(texts))
	for i, t := range texts {
		out[i] = plCon{text: t, bits: make([]bool, len(vt))}
		c, err := semver.NewConstraint(t)
		if err != nil {
			panic("generator produced an invalid constraint: " + t)
		}
		for j, v := range vt {
			if v.rank < 0 {
				continue
			}
			sv, _ := semver.NewVersion(v.orig)
			out[i].bits[j] = c.Check(sv)
		}
	}
	return out
}

// ---- encoding

func encVT(vt []plVer) string {
	var sb strings.Builder
	fmt.Fprintf(&sb, "VT %d", len(vt))
	for _, v := range vt {
		r := "x"
		if v.rank >= 0 {
			r = strconv.Itoa(v.rank)
		}
		p := "0"
		if v.pre {
			p = "1"
		}
		fmt.Fprintf(&sb, " %s:%s:%s:%s", hx(v.orig), r, p, hx(v.canon))
	}
	return sb.String()
}

func encCT(ct []plCon) string {
	var sb strings.Builder
	fmt.Fprintf(&sb, "CT %d", len(ct))
	for _, c := range ct {
		sb.WriteString(" " + hx(c.text) + ":")
		for _, b := range c.bits {
			if b {
				sb.WriteByte('1')
			} else {
				sb.WriteByte('0')
			}
		}
	}
	return sb.String()
}

func encFS(tag string, fs []plEntry) string {
	var sb strings.Builder
	fmt.Fprintf(&sb, "%s %d", tag, len(fs))
	for _, e := range fs {
		if e.dir {
			fmt.Fprintf(&sb, " d:%s", hx(e.path))
		} else {
			fmt.Fprintf(&sb, " f:%s:%s", hx(e.path), hex.EncodeToString(e.content))
		}
	}
	return sb.String()
}

func encCFG(cfg []plDb) string {
	var sb strings.Builder
	fmt.Fprintf(&sb, "CFG %d", len(cfg))
	for _, d := range cfg {
		c := "-"
		if d.cidx >= 0 {
			c = strconv.Itoa(d.cidx)
		}
		fmt.Fprintf(&sb, " %s:%s:%s:%s", hx(d.name), hx(d.repo), hx(d.plugin), c)
	}
	return sb.String()
}

func encJob(j plJob) string {
	var sb strings.Builder
	c := "-"
	if j.cidx >= 0 {
		c = strconv.Itoa(j.cidx)
	}
	m := "-"
	if len(j.manifest) > 0 {
		parts := make([]string, len(j.manifest))
		for i, x := range j.manifest {
			parts[i] = strconv.Itoa(x)
		}
		m = strings.Join(parts, ",")
	}
	a := hex.EncodeToString(j.archive)
	if a == "" {
		a = "-"
	}
	fmt.Fprintf(&sb, "JOB %s %s %s %s %s E %d", hx(j.repo), hx(j.plugin), c, m, a, len(j.entries))
	for _, e := range j.entries {
		fmt.Fprintf(&sb, " %s:%s", hx(e.path), hex.EncodeToString(e.content))
	}
	fmt.Fprintf(&sb, " X %d", len(j.exts))
	for _, e := range j.exts {
		sb.WriteString(" " + hx(e))
	}
	return sb.String()
}

// ---- decoding (the drive side)

type plParser struct {
	toks []string
	pos  int
}

func (p *plParser) next() string {
	if p.pos >= len(p.toks) {
		panic("op line too short")
	}
	t := p.toks[p.pos]
	p.pos++
	return t
}

func (p *plParser) expect(tag string) {
	if t := p.next(); t != tag {
		panic("expected " + tag + " got " + t)
	}
}

func (p *plParser) count(tag string) int {
	p.expect(tag)
	n, err := strconv.Atoi(p.next())
	if err != nil {
		panic(err)
	}
	return n
}

func (p *plParser) vt() []plVer {
	n := p.count("VT")
	out := make([]plVer, n)
	for i := range out {
		f := strings.Split(p.next(), ":")
		out[i] = plVer{orig: unhx(f[0]), rank: -1, pre: f[2] == "1", canon: unhx(f[3])}
		if f[1] != "x" {
			out[i].rank, _ = strconv.Atoi(f[1])
		}
	}
	return out
}

func (p *plParser) ct() []plCon {
	n := p.count("CT")
	out := make([]plCon, n)
	for i := range out {
		f := strings.Split(p.next(), ":")
		out[i] = plCon{text: unhx(f[0])}
		for _, c := range f[1] {
			out[i].bits = append(out[i].bits, c == '1')
		}
	}
	return out
}

func (p *plParser) fs(tag string) []plEntry {
	n := p.count(tag)
	out := make([]plEntry, n)
	for i := range out {
		f := strings.Split(p.next(), ":")
		out[i] = plEntry{path: unhx(f[1]), dir: f[0] == "d"}
		if !out[i].dir {
			out[i].content, _ = hex.DecodeString(f[2])
		}
	}
	return out
}

func (p *plParser) cfg() []plDb {
	n := p.count("CFG")
	out := make([]plDb, n)
	for i := range out {
		f := strings.Split(p.next(), ":")
		out[i] = plDb{name: unhx(f[0]), repo: unhx(f[1]), plugin: unhx(f[2]), cidx: -1}
		if f[3] != "-" {
			out[i].cidx, _ = strconv.Atoi(f[3])
		}
	}
	return out
}

func (p *plParser) job() plJob {
	p.expect("JOB")
	j := plJob{repo: unhx(p.next()), plugin: unhx(p.next()), cidx: -1}
	if c := p.next(); c != "-" {
		j.cidx, _ = strconv.Atoi(c)
	}
	if m := p.next(); m != "-" {
		for _, x := range strings.Split(m, ",") {
			i, _ := strconv.Atoi(x)
			j.manifest = append(j.manifest, i)
		}
	}
	if a := p.next(); a != "-" {
		j.archive, _ = hex.DecodeString(a)
	}
	n := p.count("E")
	for i := 0; i < n; i++ {
		f := strings.Split(p.next(), ":")
		c, _ := hex.DecodeString(f[1])
		j.entries = append(j.entries, plEntry{path: unhx(f[0]), content: c})
	}
	n = p.count("X")
	for i := 0; i < n; i++ {
		j.exts = append(j.exts, unhx(p.next()))
	}
	return j
}

// at: AT <step> <tear|->  or  AT <step> u<n>: no kill, but the archive is served truncated to n bytes (trunc = n), so that
// Install stops by itself inside Unarchive — the state a kill inside Unarchive would leave
func (p *plParser) at() (step, tear, trunc int) {
	p.expect("AT")
	step, _ = strconv.Atoi(p.next())
	tear, trunc = -1, -1
	t := p.next()
	switch {
	case t == "-":
	case strings.HasPrefix(t, "u"):
		trunc, _ = strconv.Atoi(t[1:])
		step = -1
	default:
		tear, _ = strconv.Atoi(t)
	}
	return
}

// ---- trees on disk

// materialize writes the tree below root (root itself is created).
func materialize(root string, fs []plEntry) {
	if err := os.MkdirAll(root, 0o755); err != nil {
		panic(err)
	}
	for _, e := range fs {
		p := filepath.Join(root, filepath.FromSlash(e.path))
		if e.dir {
			if err := os.MkdirAll(p, 0o755); err != nil {
				panic(err)
			}
		} else {
			if err := os.MkdirAll(filepath.Dir(p), 0o755); err != nil {
				panic(err)
			}
			if err := os.WriteFile(p, e.content, 0o755); err != nil {
				panic(err)
			}
		}
	}
}

func lessComponents(a, b string) bool {
	as, bs := strings.Split(a, "/"), strings.Split(b, "/")
	for i := 0; i < len(as) && i < len(bs); i++ {
		if as[i] != bs[i] {
			return as[i] < bs[i]
		}
	}
	return len(as) < len(bs)
}

// dumpTree lists everything below root, sorted component-wise (the order of the Lean model's `dump`).
func dumpTree(root string) []plEntry {
	var out []plEntry
	filepath.Walk(root, func(p string, info os.FileInfo, err error) error {
		if err != nil || p == root {
			return nil
		}
		rel, _ := filepath.Rel(root, p)
		rel = filepath.ToSlash(rel)
		if info.IsDir() {
			out = append(out, plEntry{path: rel, dir: true})
		} else {
			c, _ := os.ReadFile(p)
			out = append(out, plEntry{path: rel, content: c})
		}
		return nil
	})
	sort.Slice(out, func(i, j int) bool { return lessComponents(out[i].path, out[j].path) })
	return out
}

// ---- the loopback plugin repository

type plServer struct {
	mu       sync.Mutex
	base     string
	official []byte            // the official repository JSON
	repos    map[string][]byte // additional repositories by path
	manifest []byte
	archive  []byte
}

var (
	plSrvOnce sync.Once
	plSrv     *plServer
)

func pluginServer() *plServer {
	plSrvOnce.Do(func() {
		s := &plServer{repos: map[string][]byte{}}
		ln, err := net.Listen("tcp", "127.0.0.1:0")
		if err != nil {
			panic(err)
		}
		// every URL of the form http://plugins.test/… reaches the loopback listener, so that URLs (which end up in
		// repository entries on disk) do not depend on the port
		addr := ln.Addr().String()
		s.base = "http://plugins.test"
		http.DefaultTransport = &http.Transport{
			DialContext: func(ctx context.Context, network, _ string) (net.Conn, error) {
				return (&net.Dialer{}).DialContext(ctx, network, addr)
			},
			DisableKeepAlives: true,
		}
		mux := http.NewServeMux()
		mux.HandleFunc("/", func(w http.ResponseWriter, r *http.Request) {
			s.mu.Lock()
			defer s.mu.Unlock()
			switch {
			case r.URL.Path == "/official.json":
				w.Write(s.official)
			case r.URL.Path == "/manifest.json":
				w.Write(s.manifest)
			case strings.HasPrefix(r.URL.Path, "/archive/"):
				w.Write(s.archive)
			case strings.HasPrefix(r.URL.Path, "/repo/"):
				if b, ok := s.repos[r.URL.Path]; ok {
					w.Write(b)
				} else {
					// any repository URL the generator wrote into a tree: /repo/<slughex>.json
					slug := unhx(strings.TrimSuffix(strings.TrimPrefix(r.URL.Path, "/repo/"), ".json"))
					b, _ := json.Marshal(map[string]interface{}{"name": slug, "slug": slug, "plugins": []interface{}{}})
					w.Write(b)
				}
			default:
				http.NotFound(w, r)
			}
		})
		go http.Serve(ln, mux)
		plSrv = s
	})
	return plSrv
}

// makeTarGz packs the entries (files only; parents implied) deterministically.
func makeTarGz(entries []plEntry) []byte {
	var buf bytes.Buffer
	gz, _ := gzip.NewWriterLevel(&buf, gzip.BestCompression)
	tw := tar.NewWriter(gz)
	for _, e := range entries {
		tw.WriteHeader(&tar.Header{Name: e.path, Mode: 0o755, Size: int64(len(e.content)), Typeflag: tar.TypeReg})
		tw.Write(e.content)
	}
	tw.Close()
	gz.Close()
	return buf.Bytes()
}

// ---- crash injection

type plCrash struct{ at string }

// installSteps / addRepoSteps: the crash point names in program order and whether the step is a tearable write.
// (Cross-checked against the source by the `installsteps` extractor and the Lean tie theorem.)
var tearableStep = map[string]bool{"install:download-archive": true, "handlers:write-tmp": true, "addrepo:write-tmp": true}

// withCrash runs f with a crash injected just before filesystem step number `step` (counted over the crash
// points f passes); if that step is a write and tear >= 0, only `tear` bytes are let through and the crash
// happens at the next crash point. Returns the name of the step at which it stopped ("" = ran to completion)
// and f's error.
func withCrash(step, tear int, f func() error) (stopped string, err error) {
	idx := 0
	armed := false
	verifhook.OnCrashPoint = func(name string) {
		cur := idx
		idx++
		if armed {
			panic(plCrash{name})
		}
		if cur == step {
			if tear >= 0 && tearableStep[name] {
				armed = true
				return
			}
			panic(plCrash{name})
		}
	}
	verifhook.OnTear = func(name string) int {
		if armed {
			return tear
		}
		return -1
	}
	defer func() {
		verifhook.OnCrashPoint, verifhook.OnTear = nil, nil
		if r := recover(); r != nil {
			if c, ok := r.(plCrash); ok {
				stopped = c.at
				return
			}
			panic(r)
		}
	}()
	err = f()
	return
}

// ---- running the real code

type plWorld struct {
	dir  string // scratch; HOME of the binary
	root string // dir/.octosql
}

func newWorld(tag string, fs []plEntry) *plWorld {
	d := scratchDir(tag)
	w := &plWorld{dir: d, root: filepath.Join(d, ".octosql")}
	materialize(w.root, fs)
	w.point()
	return w
}

// point directs the in-process plugin code at this world.
func (w *plWorld) point() {
	os.Setenv("OCTOSQL_PLUGIN_DIR", filepath.Join(w.root, "plugins"))
	manager.VerifSetFileExtensionHandlersFile(filepath.Join(w.root, "file_extension_handlers.json"))
	repository.VerifSetPaths(filepath.Join(w.root, "repositories"), pluginServer().base+"/official.json")
}

func (w *plWorld) close() { os.RemoveAll(w.dir) }

func silenced(f func() error) error {
	old := os.Stdout
	devnull, _ := os.OpenFile(os.DevNull, os.O_WRONLY, 0)
	os.Stdout = devnull
	defer func() { os.Stdout = old; devnull.Close() }()
	return f()
}

// install runs the real PluginManager.Install for the job.
func (w *plWorld) install(vt []plVer, ct []plCon, j plJob, step, tear int) (stopped string, err error) {
	return w.installTrunc(vt, ct, j, step, tear, -1)
}

func (w *plWorld) installTrunc(vt []plVer, ct []plCon, j plJob, step, tear, trunc int) (stopped string, err error) {
	if trunc >= 0 && trunc < len(j.archive) {
		j.archive = j.archive[:trunc]
	}
	s := pluginServer()
	type mv struct {
		Number string `json:"number"`
	}
	var man struct {
		Pattern  string `json:"binary_download_url_pattern"`
		Versions []mv   `json:"versions"`
	}
	man.Pattern = s.base + "/archive/{{version}}"
	man.Versions = []mv{}
	for _, i := range j.manifest {
		man.Versions = append(man.Versions, mv{vt[i].orig})
	}
	mb, _ := json.Marshal(man)
	s.mu.Lock()
	s.manifest, s.archive = mb, j.archive
	s.mu.Unlock()
	pm := &manager.PluginManager{Repositories: []repository.Repository{{Slug: j.repo, Plugins: []repository.Plugin{
		{Name: j.plugin, FileExtensions: j.exts, ManifestURL: s.base + "/manifest.json"}}}}}
	var con *semver.Constraints
	if j.cidx >= 0 {
		con, err = semver.NewConstraint(ct[j.cidx].text)
		if err != nil {
			panic(err)
		}
	}
	return withCrash(step, tear, func() error {
		return silenced(func() error { return pm.Install(context.Background(), j.repo+"/"+j.plugin, con) })
	})
}

// addRepoURL runs the real repository.AddRepository for the repository with the given slug served at url.
func (w *plWorld) addRepoURL(slug, url string, step, tear int) (stopped string, err error) {
	s := pluginServer()
	rb, _ := json.Marshal(map[string]interface{}{"name": slug, "slug": slug, "plugins": []interface{}{}})
	s.mu.Lock()
	s.repos[strings.TrimPrefix(url, s.base)] = rb
	s.mu.Unlock()
	return withCrash(step, tear, func() error { return repository.AddRepository(context.Background(), url) })
}

// startup runs the real binary with the configuration and reports what happened before the query ran:
//   ok <dbhex>=<orighex> …   |  err:list | err:version | err:notinstalled:<dbhex> | err:handlers | err:other | panic
func (w *plWorld) startup(ct []plCon, cfg []plDb) string {
	var sb strings.Builder
	sb.WriteString("databases:\n")
	for _, d := range cfg {
		fmt.Fprintf(&sb, "  - name: %q\n    type: %q\n", d.name, d.repo+"/"+d.plugin)
		if d.cidx >= 0 {
			fmt.Fprintf(&sb, "    version: %q\n", ct[d.cidx].text)
		}
	}
	if len(cfg) == 0 {
		sb.Reset()
	}
	if err := os.WriteFile(filepath.Join(w.root, "octosql.yml"), []byte(sb.String()), 0o644); err != nil {
		panic(err)
	}
	os.WriteFile(filepath.Join(w.dir, "t.csv"), []byte("a\n1\n"), 0o644)
	os.Setenv("VERIF_DUMP_RESOLVED", "1")
	os.Unsetenv("OCTOSQL_PLUGIN_DIR")
	res := runOctosql(w.dir, nil, "SELECT * FROM t.csv", "-o", "csv")
	w.point()
	os.Remove(filepath.Join(w.root, "octosql.yml"))
	if res.Panicked {
		return "panic"
	}
	if res.Exit != 0 {
		e := res.Stderr
		switch {
		case strings.Contains(e, "couldn't parse plugin"):
			return "err:version"
		case strings.Contains(e, "couldn't list installed plugins"):
			return "err:list"
		case strings.Contains(e, "is not installed with the required version"):
			i := strings.Index(e, "database '")
			rest := e[i+len("database '"):]
			k := strings.Index(rest, "' plugin '")
			return "err:notinstalled:" + hx(rest[:k])
		case strings.Contains(e, "couldn't get file extension handlers"):
			return "err:handlers"
		}
		return "err:other"
	}
	got := map[string]string{}
	for _, l := range strings.Split(res.Stderr, "\n") {
		if strings.HasPrefix(l, "VERIF-RESOLVED ") {
			f := strings.SplitN(l[len("VERIF-RESOLVED "):], " ", 2)
			got[f[0]] = f[1]
		}
	}
	out := "ok"
	for _, d := range cfg {
		out += " " + hx(d.name) + "=" + hx(got[d.name])
	}
	return out
}

const plSentinel = "#END"

// runnableBits: for every configured database and the version it resolved to (orig string), does the real
// GetPluginBinaryPath find the binary, and is the file complete (ends with the sentinel every generated binary ends with)?
func (w *plWorld) runnable(cfg []plDb, resolved []string) string {
	pm := &manager.PluginManager{}
	var sb strings.Builder
	for i, d := range cfg {
		v, err := semver.NewVersion(resolved[i])
		if err != nil {
			sb.WriteByte('x')
			continue
		}
		p, err := pm.GetPluginBinaryPath(pluginRef(d.repo, d.plugin), v)
		if err != nil {
			sb.WriteByte('0')
			continue
		}
		c, _ := os.ReadFile(p)
		if bytes.HasSuffix(c, []byte(plSentinel)) {
			sb.WriteByte('1')
		} else {
			sb.WriteByte('t')
		}
	}
	if sb.Len() == 0 {
		return "-"
	}
	return sb.String()
}

// reposOK: the real getAdditionalPluginRepositoryURLs (through GetRepositories) accepts the repositories directory.
func (w *plWorld) reposOK() string {
	s := pluginServer()
	s.mu.Lock()
	s.official, _ = json.Marshal(map[string]interface{}{"name": "official", "slug": "core", "plugins": []interface{}{}})
	s.mu.Unlock()
	_, err := repository.GetRepositories(context.Background())
	if err == nil {
		return "ok"
	}
	if strings.Contains(err.Error(), "couldn't get addional repository URLs") {
		return "err:repositories"
	}
	return "err:fetch"
}

func pluginRef(repo, plugin string) config.PluginReference {
	return config.PluginReference{Name: plugin, Repository: repo}
}

var _ = io.EOF
