package main

// C14 — aggregates are invariant under retraction histories.
//
// Op lines (all self-contained):
//   table                                  -> name:ndesc … of aggregates.Aggregates, sorted
//   desc  <name> <idx>                     -> <ArgumentType> <OutputType>   ("fn fn" when the descriptor has a TypeFn)
//   hist  <name> <idx> <n> (+|- <value>)×n -> <flags> <out>        flags: what every Add returned (1 = "now empty"),
//                                                                   out: Trigger() after the last step (value | panic)
//   steps <name> <idx> <n> (+|- <value>)×n -> <flags> <out1> ; <out2> ; …    Trigger() after every step
//   fhist / fsteps                         -> the same, for float histories whose partial sums need rounding
//                                             (model/implementation correspondence is not demanded there, only the oracle)
// A fresh aggregate is made by the REAL prototype: aggregates.Aggregates[name].Descriptors[idx].Prototype().

import (
	"bufio"
	"fmt"
	"math"
	"sort"
	"strconv"
	"strings"
	"time"

	"github.com/cube2222/octosql/aggregates"
	"github.com/cube2222/octosql/octosql"
)

func init() {
	register("C14", &prop{gen: genC14, drive: driveC14})
}

// ---------------------------------------------------------------- drive

func c14Out(name string, v octosql.Value) string {
	if v.TypeID == octosql.TypeIDFloat && v.Float != v.Float && (strings.HasPrefix(name, "sum") || strings.HasPrefix(name, "avg")) {
		// a NaN *computed* by the hardware: the payload is not modelled
		return "f7ff8000000000001"
	}
	return EncodeValue(v)
}

// c14Trigger: the reported value is kept as a Value and encoded only after the whole history has been applied — a value
// that was reported stays what it was (a later Add / Trigger must not rewrite a list it handed out earlier).
func c14Trigger(name string, trig func() octosql.Value) (out func() string) {
	defer func() {
		if r := recover(); r != nil {
			out = func() string { return "panic" }
		}
	}()
	v := trig()
	return func() string { return c14Out(name, v) }
}

func driveC14(toks []string) string {
	switch toks[0] {
	case "table":
		var names []string
		for name, d := range aggregates.Aggregates {
			names = append(names, fmt.Sprintf("%s:%d", name, len(d.Descriptors)))
		}
		sort.Strings(names)
		return strings.Join(names, " ")
	case "desc":
		idx, _ := strconv.Atoi(toks[2])
		det, ok := aggregates.Aggregates[toks[1]]
		if !ok || idx >= len(det.Descriptors) {
			return "none"
		}
		d := det.Descriptors[idx]
		if d.TypeFn != nil {
			return "fn fn"
		}
		return d.ArgumentType.TypeID.String() + " " + d.OutputType.TypeID.String()
	case "hist", "steps", "fhist", "fsteps":
		name := toks[1]
		idx, _ := strconv.Atoi(toks[2])
		n, _ := strconv.Atoi(toks[3])
		det, ok := aggregates.Aggregates[name]
		if !ok || idx >= len(det.Descriptors) {
			return "none"
		}
		agg := det.Descriptors[idx].Prototype()
		every := toks[0] == "steps" || toks[0] == "fsteps"
		rest := toks[4:]
		flags := make([]byte, 0, n)
		var held []func() string
		for i := 0; i < n; i++ {
			retr := rest[0] == "-"
			var v octosql.Value
			v, rest = ParseValue(rest[1:])
			if agg.Add(retr, v) {
				flags = append(flags, '1')
			} else {
				flags = append(flags, '0')
			}
			if every || i == n-1 {
				held = append(held, c14Trigger(name, agg.Trigger))
			}
		}
		if n == 0 {
			return "- " + c14Trigger(name, agg.Trigger)()
		}
		outs := make([]string, len(held))
		for i, h := range held {
			outs[i] = h()
		}
		return string(flags) + " " + strings.Join(outs, " ; ")
	}
	return "bad-op"
}

// ---------------------------------------------------------------- gen

type c14Desc struct {
	name string
	idx  int
	arg  string // Int Float Duration Time Any fn
}

func c14Descs() []c14Desc {
	var names []string
	for name := range aggregates.Aggregates {
		names = append(names, name)
	}
	sort.Strings(names)
	var out []c14Desc
	for _, name := range names {
		for i, d := range aggregates.Aggregates[name].Descriptors {
			arg := d.ArgumentType.TypeID.String()
			if d.TypeFn != nil {
				arg = "fn"
			}
			out = append(out, c14Desc{name, i, arg})
		}
	}
	return out
}

func c14Times() []octosql.Value {
	return []octosql.Value{
		octosql.NewTime(time.Unix(0, 0).In(locOf(0))), octosql.NewTime(time.Unix(0, 0).In(locOf(1))),
		octosql.NewTime(time.Unix(0, 1).In(locOf(0))), octosql.NewTime(time.Unix(0, -1).In(locOf(103))),
	}
}

func ints(xs ...int64) []octosql.Value {
	out := make([]octosql.Value, len(xs))
	for i, x := range xs {
		out[i] = octosql.NewInt(x)
	}
	return out
}
func durs(xs ...int64) []octosql.Value {
	out := make([]octosql.Value, len(xs))
	for i, x := range xs {
		out[i] = octosql.NewDuration(time.Duration(x))
	}
	return out
}
func flts(xs ...float64) []octosql.Value {
	out := make([]octosql.Value, len(xs))
	for i, x := range xs {
		out[i] = octosql.NewFloat(x)
	}
	return out
}

var negZero = math.Copysign(0, -1)

// small domains for the exhaustive enumeration (4 values each; the first one is always used, further
// ones on the thorough tier). Float domains for sum/avg hold values whose sums are exact.
func c14SmallDomains(d c14Desc) [][]octosql.Value {
	nan1, nan2 := f64(0x7FF8000000000001), f64(0xFFF8000000000123)
	isSum := strings.HasPrefix(d.name, "sum") || strings.HasPrefix(d.name, "avg")
	switch d.arg {
	case "Int":
		return [][]octosql.Value{ints(0, 1, -1, math.MinInt64), ints(2, 3, -7, math.MaxInt64)}
	case "Duration":
		return [][]octosql.Value{durs(0, 1, -1, math.MinInt64), durs(2, 3, -7, math.MaxInt64)}
	case "Time":
		return [][]octosql.Value{c14Times()}
	case "Float":
		if isSum {
			return [][]octosql.Value{flts(0, negZero, 1, -2.5), flts(3, 0.5, -0.25, 1<<40)}
		}
		return [][]octosql.Value{
			{nan1, f64(0x8000000000000000), f64(0), octosql.NewFloat(1)},
			{nan2, nan1, octosql.NewFloat(math.Inf(-1)), octosql.NewFloat(math.Inf(1))},
		}
	case "Any":
		return [][]octosql.Value{
			{octosql.NewInt(1), nan1, octosql.NewString("a"), octosql.NewList(ints(1))},
			{f64(0), f64(0x8000000000000000), octosql.NewBoolean(true), octosql.NewStruct(ints(1))},
		}
	default: // fn: array_agg of anything
		return [][]octosql.Value{
			{f64(0), f64(0x8000000000000000), nan1, octosql.NewInt(1)},
			{octosql.NewList([]octosql.Value{f64(0)}), octosql.NewList([]octosql.Value{f64(0x8000000000000000)}), octosql.NewTuple(nil), octosql.NewString("")},
			{nan2, nan1, octosql.NewStruct(ints(1)), octosql.NewStruct(ints(1, 2))},
		}
	}
}

// the float domain with the values that poison a running float sum (known finding float-sum-poison)
func c14PoisonDomain() []octosql.Value {
	return []octosql.Value{octosql.NewFloat(math.Inf(1)), octosql.NewFloat(math.Inf(-1)), octosql.NewFloat(1), f64(0x7FF8000000000001)}
}

// classes of a domain under Compare == 0
func c14Classes(dom []octosql.Value) []int {
	cls := make([]int, len(dom))
	for i := range dom {
		cls[i] = i
		for j := 0; j < i; j++ {
			if dom[i].Compare(dom[j]) == 0 {
				cls[i] = cls[j]
				break
			}
		}
	}
	return cls
}

// all valid histories of length 1..maxLen over dom, shortest first (so that the first failing line is a shortest witness)
func c14Enumerate(w *bufio.Writer, op string, d c14Desc, dom []octosql.Value, maxLen int) {
	for l := 1; l <= maxLen; l++ {
		c14EnumerateFrom(w, op, d, dom, l, l)
	}
}

// all valid histories of length minLen..maxLen over dom
func c14EnumerateFrom(w *bufio.Writer, op string, d c14Desc, dom []octosql.Value, minLen, maxLen int) {
	cls := c14Classes(dom)
	enc := make([]string, len(dom))
	for i, v := range dom {
		enc[i] = EncodeValue(v)
	}
	count := make([]int, len(dom))
	var steps []string
	var rec func()
	rec = func() {
		if len(steps) >= minLen {
			fmt.Fprintf(w, "%s %s %d %d %s\n", op, d.name, d.idx, len(steps), strings.Join(steps, " "))
		}
		if len(steps) == maxLen {
			return
		}
		for i := range dom {
			steps = append(steps, "+ "+enc[i])
			count[cls[i]]++
			rec()
			count[cls[i]]--
			steps = steps[:len(steps)-1]
			if count[cls[i]] > 0 {
				steps = append(steps, "- "+enc[i])
				count[cls[i]]--
				rec()
				count[cls[i]]++
				steps = steps[:len(steps)-1]
			}
		}
	}
	rec()
}

// edge-heavy domains for the random long histories
func c14EdgeDomain(g *Gen, d c14Desc) []octosql.Value {
	isSum := strings.HasPrefix(d.name, "sum") || strings.HasPrefix(d.name, "avg")
	switch d.arg {
	case "Int":
		return ints(math.MinInt64, math.MinInt64+1, -3, -1, 0, 1, 2, 7, math.MaxInt64-1, math.MaxInt64, int64(g.U64()), int64(g.U64()))
	case "Duration":
		return durs(math.MinInt64, math.MinInt64+1, -3, -1, 0, 1, 2, 7, int64(time.Second), math.MaxInt64, int64(g.U64()))
	case "Time":
		ts := c14Times()
		ts = append(ts, octosql.NewTime(time.Unix(0, 5).In(locOf(2))), octosql.NewTime(time.Unix(0, 5).In(locOf(103))),
			octosql.NewTime(time.Unix(0, math.MaxInt64).In(locOf(0))), octosql.NewTime(time.Unix(0, math.MinInt64).In(locOf(0))))
		return ts
	case "Float":
		if isSum {
			// multiples of 2^-10 below 2^20: every partial sum of a history of a few thousand steps is exact
			out := flts(0, negZero, 1, -1, 0.5, -0.25, 1024, -1048575.9990234375, 3, 1.0/1024)
			for i := 0; i < 4; i++ {
				out = append(out, octosql.NewFloat(float64(int64(g.Intn(1<<30))-(1<<29))/1024))
			}
			return out
		}
		var out []octosql.Value
		for _, b := range edgeFloats {
			out = append(out, f64(b))
		}
		return append(out, f64(g.U64()), f64(g.U64()))
	default:
		u := smallUniverse()
		out := make([]octosql.Value, 0, 16)
		for i := 0; i < 10; i++ {
			out = append(out, Pick(g, u))
		}
		for i := 0; i < 3; i++ {
			v := RandValue(g, 3)
			out = append(out, v, Mutate(g, v))
		}
		return out
	}
}

// n distinct values of the descriptor's argument type
func c14WideDomain(g *Gen, d c14Desc, n int) []octosql.Value {
	isSum := strings.HasPrefix(d.name, "sum") || strings.HasPrefix(d.name, "avg")
	out := make([]octosql.Value, 0, n)
	seen := map[string]bool{}
	add := func(v octosql.Value) {
		k := EncodeValue(v)
		if !seen[k] {
			seen[k] = true
			out = append(out, v)
		}
	}
	if d.arg == "Float" || (d.arg != "Int" && d.arg != "Duration" && d.arg != "Time") {
		// values that Compare equal with different representations, in a domain wide enough for the hash maps of the
		// DISTINCT wrappers to grow (equal values must stay ONE key whatever their hashes' high bits are)
		add(octosql.NewFloat(0))
		add(octosql.NewFloat(math.Copysign(0, -1)))
	}
	for len(out) < n {
		switch d.arg {
		case "Int":
			if g.Chance(1, 2) {
				add(octosql.NewInt(int64(g.Intn(4*n)) - int64(2*n)))
			} else {
				add(octosql.NewInt(int64(g.U64())))
			}
		case "Duration":
			if g.Chance(1, 2) {
				add(octosql.NewDuration(time.Duration(int64(g.Intn(4*n)) - int64(2*n))))
			} else {
				add(octosql.NewDuration(time.Duration(int64(g.U64()))))
			}
		case "Time":
			add(octosql.NewTime(time.Unix(0, int64(g.Intn(4*n))-int64(2*n)).In(locOf(Pick(g, []int{0, 1, 2, 103})))))
		case "Float":
			if isSum {
				add(octosql.NewFloat(float64(int64(g.Intn(1<<28))-(1<<27)) / 1024))
			} else if g.Chance(1, 8) {
				add(f64(Pick(g, edgeFloats)))
			} else {
				add(f64(g.U64()))
			}
		default:
			switch g.Intn(5) {
			case 0:
				add(octosql.NewInt(int64(g.Intn(4*n)) - int64(2*n)))
			case 1:
				add(f64(g.U64()))
			case 2:
				add(octosql.NewString(strconv.Itoa(g.Intn(4 * n))))
			case 3:
				add(octosql.NewList(ints(int64(g.Intn(30)), int64(g.Intn(30)))))
			default:
				add(RandValue(g, 2))
			}
		}
	}
	return out
}

// a random history over dom: mostly valid (retractions drawn from what is present), `invalidEvery` > 0
// inserts a retraction of an absent value now and then (the model must still mirror the code there).
func c14RandomHistory(g *Gen, dom []octosql.Value, n int, retractPct int, invalid bool) []string {
	cls := c14Classes(dom)
	count := make([]int, len(dom))
	total := 0
	var steps []string
	for len(steps) < n {
		if invalid && g.Chance(1, 15) {
			i := g.Intn(len(dom))
			steps = append(steps, "- "+EncodeValue(dom[i]))
			count[cls[i]]--
			continue
		}
		if total > 0 && g.Intn(100) < retractPct {
			// retract some member of a present class (any representative of the class)
			for tries := 0; tries < 50; tries++ {
				i := g.Intn(len(dom))
				if count[cls[i]] > 0 {
					steps = append(steps, "- "+EncodeValue(dom[i]))
					count[cls[i]]--
					total--
					break
				}
			}
			continue
		}
		i := g.Intn(len(dom))
		steps = append(steps, "+ "+EncodeValue(dom[i]))
		count[cls[i]]++
		total++
	}
	return steps
}

func genC14(g *Gen, tier string, w *bufio.Writer) {
	thorough := tier == "thorough"
	descs := c14Descs()
	fmt.Fprintln(w, "table")
	for _, d := range descs {
		fmt.Fprintf(w, "desc %s %d\n", d.name, d.idx)
		fmt.Fprintf(w, "hist %s %d 0\n", d.name, d.idx)
	}
	fmt.Fprintln(w, "desc sum 3")
	fmt.Fprintln(w, "desc median 0")

	// 1. exhaustive: every valid history up to length L over small domains.
	//    quick:    L<=5 over the first 4-value domain, L<=4 over the further ones
	//    thorough: L<=6 over the first 4-value domain, L<=7 over its 3-value sub-domain (values 1..3) and, for three
	//              representative descriptors, L<=7 over all 4 values; L<=5 over the further domains
	for _, d := range descs {
		doms := c14SmallDomains(d)
		for k, dom := range doms {
			L := 5
			if thorough {
				L = 6
				if k > 0 {
					L = 5
				}
			} else if k > 0 {
				L = 4
			}
			if thorough && k == 0 {
				full7 := (d.name == "count" && d.idx == 0) || (d.name == "array_agg_distinct" && d.idx == 0) || (d.name == "min" && d.idx == 1)
				if full7 {
					L = 7
				} else {
					c14EnumerateFrom(w, "hist", d, dom[1:], 7, 7)
				}
			}
			c14Enumerate(w, "hist", d, dom, L)
		}
		if d.arg == "Float" && (strings.HasPrefix(d.name, "sum") || strings.HasPrefix(d.name, "avg")) {
			L := 4
			if thorough {
				L = 5
			}
			c14Enumerate(w, "hist", d, c14PoisonDomain(), L)
		}
	}

	// 2. random long histories over edge-heavy domains, Trigger() after every step
	nLong, maxLen := 12, 300
	if thorough {
		nLong, maxLen = 60, 400
	}
	for _, d := range descs {
		for i := 0; i < nLong; i++ {
			dom := c14EdgeDomain(g, d)
			if g.Chance(1, 3) && len(dom) > 3 {
				// a narrow domain: many collisions, counts go up and down to zero
				k := 2 + g.Intn(3)
				sub := make([]octosql.Value, k)
				for j := range sub {
					sub[j] = Pick(g, dom)
				}
				dom = sub
			}
			n := 1 + g.Intn(maxLen)
			op := "steps"
			if strings.HasPrefix(d.name, "array") {
				// the output is a list per step: keep these shorter
				n = 1 + g.Intn(60)
			}
			invalid := i%6 == 5
			steps := c14RandomHistory(g, dom, n, 30+g.Intn(30), invalid)
			fmt.Fprintf(w, "%s %s %d %d %s\n", op, d.name, d.idx, len(steps), strings.Join(steps, " "))
		}
	}

	// 2b. wide histories: hundreds of distinct values present at once, so that the btree (degree 128: nodes split
	//     above 255 items) and the hashmap (growth, tombstones) of the real code are exercised; Trigger() at the end
	nWide, wideLen := 3, 2500
	if thorough {
		nWide, wideLen = 20, 4000
	}
	for _, d := range descs {
		for i := 0; i < nWide; i++ {
			dom := c14WideDomain(g, d, 300+g.Intn(500))
			n := wideLen/2 + g.Intn(wideLen/2)
			steps := c14RandomHistory(g, dom, n, 25+g.Intn(25), false)
			fmt.Fprintf(w, "hist %s %d %d %s\n", d.name, d.idx, len(steps), strings.Join(steps, " "))
		}
	}

	// 3. float sums that need rounding: arbitrary finite doubles (oracle: rounding-error bound), and
	//    histories with non-finite values / overflow (known finding float-sum-poison)
	nF := 150
	if thorough {
		nF = 3000
	}
	for _, d := range descs {
		if d.arg != "Float" || !(strings.HasPrefix(d.name, "sum") || strings.HasPrefix(d.name, "avg")) {
			continue
		}
		for i := 0; i < nF; i++ {
			var dom []octosql.Value
			k := 2 + g.Intn(8)
			for j := 0; j < k; j++ {
				switch g.Intn(6) {
				case 0:
					dom = append(dom, octosql.NewFloat(float64(int64(g.Intn(2000))-1000)/8))
				case 1:
					u := g.U64()
					if (u>>52)&0x7FF == 0x7FF {
						u &^= 1 << 52
					}
					dom = append(dom, f64(u)) // any finite double
				case 2:
					dom = append(dom, octosql.NewFloat(math.Ldexp(float64(int64(g.U64()>>11))-float64(1<<52), g.Intn(80)-60)))
				case 3:
					dom = append(dom, f64(Pick(g, edgeFloats)))
				default:
					dom = append(dom, octosql.NewFloat(float64(int64(g.U64()>>20))/3.0))
				}
			}
			n := 1 + g.Intn(40)
			steps := c14RandomHistory(g, dom, n, 40, false)
			fmt.Fprintf(w, "fsteps %s %d %d %s\n", d.name, d.idx, len(steps), strings.Join(steps, " "))
		}
	}
}
