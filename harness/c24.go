package main

import (
	"bufio"
	"encoding/hex"
	"fmt"
	"strconv"

	"github.com/valyala/fastjson/fastfloat"
)

func init() {
	register("C24", &prop{gen: genC24, drive: driveFiles})
}

// ints <hex>: strconv.ParseInt(s, 10, 64) and fastfloat.ParseInt64(s);  bools <hex>: strconv.ParseBool
func driveParsers(toks []string) string {
	s := unhex(toks[1][1:])
	switch toks[0] {
	case "ints":
		a, b := "-", "-"
		if i, err := strconv.ParseInt(s, 10, 64); err == nil {
			a = strconv.FormatInt(i, 10)
		}
		if i, err := fastfloat.ParseInt64(s); err == nil {
			b = strconv.FormatInt(i, 10)
		}
		return a + " " + b
	case "bools":
		if b, err := strconv.ParseBool(s); err == nil {
			if b {
				return "1"
			}
			return "0"
		}
		return "-"
	}
	return "bad-op"
}

func genC24(g *Gen, tier string, w *bufio.Writer) {
	mul := 1
	if tier == "thorough" {
		mul = 8
	}
	// --- the two integer parsers and ParseBool on boundary strings
	var strs []string
	strs = append(strs, csvInts...)
	strs = append(strs, csvFloats...)
	strs = append(strs, csvOdd...)
	strs = append(strs, csvBools...)
	strs = append(strs, "", "-", "+", "--1", "+-1", "-+1", "1-", "12a", "a12", "0x10", "1_000", "９", "1\x00", "-0000000000000000000", "0000000000000000001",
		"9223372036854775806", "9223372036854775808", "-9223372036854775809", "99999999999999999999", "18446744073709551616",
		"999999999999999999", "1000000000000000000", "-999999999999999999", "-1000000000000000000", "+999999999999999999")
	for _, s := range strs {
		fmt.Fprintln(w, "ints s"+hex.EncodeToString([]byte(s)))
		fmt.Fprintln(w, "bools s"+hex.EncodeToString([]byte(s)))
	}
	for i := 0; i < 400*mul; i++ {
		// random digit strings of 1..21 characters with an optional sign and an occasional stray character
		n := 1 + g.Intn(21)
		b := make([]byte, 0, n+2)
		switch g.Intn(6) {
		case 0:
			b = append(b, '-')
		case 1:
			b = append(b, '+')
		}
		for j := 0; j < n; j++ {
			b = append(b, byte('0'+g.Intn(10)))
		}
		if g.Chance(1, 10) {
			b[g.Intn(len(b))] = Pick(g, []byte{'x', '.', ' ', '-', '+', '_'})
		}
		fmt.Fprintln(w, "ints s"+hex.EncodeToString(b))
	}
	// --- CSV files whose columns mix value kinds, the 100-row preview straddled
	for rep := 0; rep < 3*mul; rep++ {
		for _, n := range []int{1, 2, 5, 99, 100, 101, 102, 150} {
			fmt.Fprintln(w, genCSVDoc(g, n, n > 100).op(g.U64()>>1))
		}
	}
	for i := 0; i < 150*mul; i++ {
		fmt.Fprintln(w, genCSVDoc(g, 1+g.Intn(8), false).op(g.U64()>>1))
	}
	for i := 0; i < 25*mul; i++ {
		fmt.Fprintln(w, genCSVDoc(g, 101+g.Intn(30), true).op(g.U64()>>1))
	}
	// single-column files: one kind for the previewed rows, then one late cell of every other kind
	for _, first := range []int{cInt, cFloat, cBool, cTime, cStr, cEmpty, cInt | cEmpty, cInt | cFloat} {
		for _, late := range []int{cEmpty, cInt, cFloat, cBool, cTime, cStr, cOdd} {
			d := &csvDoc{sep: 'c', header: true, names: []string{"c"}}
			for r := 0; r < 100; r++ {
				d.rows = append(d.rows, []string{csvCellOf(g, first)})
			}
			d.rows = append(d.rows, []string{csvCellOf(g, late)})
			fmt.Fprintln(w, d.op(g.U64()>>1))
		}
	}
	// --- pruned schemas: conformance is per kept column
	for i := 0; i < 20*mul; i++ {
		mask := Pick(g, []string{"10", "01", "110", "011", "101", "100"})
		d := genCSVDoc(g, Pick(g, []int{2, 5, 101, 130}), true)
		if !dupNames(d.names) {
			fmt.Fprintln(w, "proj "+mask+" "+d.op(g.U64()>>1))
		}
		fmt.Fprintln(w, "proj "+mask+" "+jsonOp(g.U64()>>1, genJSONDoc(g, Pick(g, []int{2, 5, 101, 130}), false)))
	}
	// the per-column checks of the executing datasource (nullable? which kinds?) are precomputed per KEPT column, the cells are
	// read by FILE position: every mask over three columns, one of which was nullable in the preview, one late empty / odd cell
	for _, mask := range []string{"011", "101", "110", "001", "010", "100", "111"} {
		for nullableCol := -1; nullableCol < 3; nullableCol++ {
			for lateCol := 0; lateCol < 3; lateCol++ {
				if tier != "thorough" && g.Chance(1, 2) {
					continue
				}
				d := &csvDoc{sep: 'c', header: true, names: []string{"a", "b", "c"}}
				for r := 0; r < 100; r++ {
					row := []string{strconv.Itoa(g.Intn(50)), strconv.Itoa(g.Intn(50)), strconv.Itoa(g.Intn(50))}
					if nullableCol >= 0 && r%7 == 3 {
						row[nullableCol] = ""
					}
					d.rows = append(d.rows, row)
				}
				late := []string{"1", "2", "3"}
				late[lateCol] = Pick(g, []string{"", "", "x", "1.5"})
				d.rows = append(d.rows, late, []string{"4", "5", "6"})
				fmt.Fprintln(w, "proj "+mask+" "+d.op(g.U64()>>1))
			}
		}
	}
	// --- JSON files
	for rep := 0; rep < 2*mul; rep++ {
		for _, n := range []int{1, 2, 5, 99, 100, 101, 102, 150} {
			fmt.Fprintln(w, jsonOp(g.U64()>>1, genJSONDoc(g, n, n <= 100)))
		}
	}
	for i := 0; i < 150*mul; i++ {
		fmt.Fprintln(w, jsonOp(g.U64()>>1, genJSONDoc(g, 1+g.Intn(8), true)))
	}
	for i := 0; i < 25*mul; i++ {
		fmt.Fprintln(w, jsonOp(g.U64()>>1, genJSONDoc(g, 101+g.Intn(30), false)))
	}
	// nested values beyond the preview with one element / field replaced at the first, a middle, the last position
	genPositional(g, 1, func(op string) { fmt.Fprintln(w, op) })
	// one JSON kind for the previewed rows, then one late value of every kind
	vals := []*jv{{k: jNull}, jNumOf("1"), {k: jTrue}, jString("s"), jString("2020-01-02T03:04:05Z"),
		{k: jArr}, {k: jArr, vals: []*jv{jNumOf("1")}}, {k: jArr, vals: []*jv{jString("x"), {k: jNull}}},
		{k: jObj}, {k: jObj, keys: []string{"p"}, vals: []*jv{jNumOf("2")}}, {k: jObj, keys: []string{"p", "q"}, vals: []*jv{{k: jNull}, jString("z")}}}
	for _, first := range vals {
		for _, late := range vals {
			var rows []*jv
			for r := 0; r < 100; r++ {
				rows = append(rows, &jv{k: jObj, keys: []string{"c"}, vals: []*jv{first}})
			}
			rows = append(rows, &jv{k: jObj, keys: []string{"c"}, vals: []*jv{late}})
			fmt.Fprintln(w, jsonOp(g.U64()>>1, rows))
		}
	}
}
