package main

import (
	"bufio"
	"runtime"
	"strings"
	"sync"
	"time"

	"github.com/cube2222/octosql/execution"
	"github.com/cube2222/octosql/octosql"
)

// C19 — stream joins under every schedule (and the node-level half of C02).
//
// gen:   (a) the witnesses of the three confirmed defects; (b) EXHAUSTIVE: every pair of scripts of at most
//        3 (quick) / 4 (thorough) messages over small alphabets — timed records + watermarks satisfying the
//        property's hypotheses (monotone watermarks, no late records, valid changelog in event-time order), and
//        untimed records with NULL / duplicate keys and retractions — under EVERY interleaving of the two
//        scripts' events (messages and closes), for StreamJoin and the LEFT / RIGHT / FULL OuterJoin;
//        (c) RANDOM: longer scripts (up to 12 messages a side), several key columns, NULLs, mixed timed /
//        untimed records, also scripts outside the hypotheses (late records, non-monotone watermarks, invalid
//        retractions — correspondence only), random interleavings.
// drive: runs the real nodes.StreamJoin / nodes.OuterJoin in-process under exactly the given interleaving
//        (util_join.go) and prints every produced record / watermark in order.

func init() {
	register("C19", &prop{gen: genC19, drive: driveC19})
}

var c19Once sync.Once

func driveC19(toks []string) string {
	// every run is a strict hand-over between goroutines; one P avoids cross-thread wake-up latency
	c19Once.Do(func() { runtime.GOMAXPROCS(1) })
	switch toks[0] {
	case "sj", "oj":
		return runScheduledJoin(parseJoinOp(toks))
	}
	return "bad-op"
}

func tm(ns int64) time.Time {
	if ns == 0 {
		return time.Time{}
	}
	return time.Unix(0, ns).UTC()
}

func recMsg(vals []octosql.Value, retr bool, et int64) Msg {
	return Msg{Rec: execution.Record{Values: vals, Retraction: retr, EventTime: tm(et)}}
}

func wmMsg(ns int64) Msg { return Msg{IsWM: true, WM: tm(ns)} }

// --- script predicates (the property's hypotheses), used to select what is enumerated exhaustively

func scriptFresh(ms []Msg) bool {
	var cur time.Time
	for _, m := range ms {
		if m.IsWM {
			if m.WM.Before(cur) {
				return false
			}
			cur = m.WM
		} else if !m.Rec.EventTime.IsZero() && !cur.IsZero() && !m.Rec.EventTime.After(cur) {
			return false
		}
	}
	return true
}

// valid changelog in processing order (stable by event time; untimed records in arrival order)
func scriptValid(ms []Msg) bool {
	var rs []execution.Record
	for _, m := range ms {
		if !m.IsWM {
			rs = append(rs, m.Rec)
		}
	}
	// stable insertion sort by event time
	for i := 1; i < len(rs); i++ {
		for j := i; j > 0 && rs[j].EventTime.Before(rs[j-1].EventTime); j-- {
			rs[j], rs[j-1] = rs[j-1], rs[j]
		}
	}
	for i := range rs {
		if rs[i].Retraction {
			c := 0
			for j := 0; j < i; j++ {
				if EncodeValues(rs[j].Values) == EncodeValues(rs[i].Values) {
					if rs[j].Retraction {
						c--
					} else {
						c++
					}
				}
			}
			if c <= 0 {
				return false
			}
		}
	}
	return true
}

func allScripts(alphabet []Msg, maxLen int, prefixOK func([]Msg) bool, keep func([]Msg) bool) [][]Msg {
	var out [][]Msg
	var rec func(cur []Msg)
	rec = func(cur []Msg) {
		if !prefixOK(cur) {
			return
		}
		if keep(cur) {
			out = append(out, append([]Msg(nil), cur...))
		}
		if len(cur) == maxLen {
			return
		}
		for _, m := range alphabet {
			rec(append(cur, m))
		}
	}
	rec(nil)
	return out
}

// all strings with a L's and b R's
func allScheds(a, b int) []string {
	var out []string
	var rec func(cur []byte, a, b int)
	rec = func(cur []byte, a, b int) {
		if a == 0 && b == 0 {
			out = append(out, string(cur))
			return
		}
		if a > 0 {
			rec(append(cur, 'L'), a-1, b)
		}
		if b > 0 {
			rec(append(cur, 'R'), a, b-1)
		}
	}
	rec(nil, a, b)
	return out
}

func randSched(g *Gen, a, b int) string {
	var sb strings.Builder
	for a > 0 || b > 0 {
		if b == 0 || (a > 0 && g.Intn(a+b) < a) {
			sb.WriteByte('L')
			a--
		} else {
			sb.WriteByte('R')
			b--
		}
	}
	return sb.String()
}

type joinKind struct {
	outer, ol, or bool
}

var joinKinds = []joinKind{{false, false, false}, {true, true, false}, {true, false, true}, {true, true, true}}

func emitAll(w *bufio.Writer, kinds []joinKind, nL, nR int, kl, kr []int, left, right [][]Msg) {
	schedCache := map[[2]int][]string{}
	for _, l := range left {
		for _, r := range right {
			key := [2]int{len(l) + 1, len(r) + 1}
			sc, ok := schedCache[key]
			if !ok {
				sc = allScheds(key[0], key[1])
				schedCache[key] = sc
			}
			for _, k := range kinds {
				for _, s := range sc {
					op := joinSpecOp{outer: k.outer, outerL: k.ol, outerR: k.or, nL: nL, nR: nR, keysL: kl, keysR: kr, sched: s, left: l, right: r}
					w.WriteString(op.encode())
					w.WriteByte('\n')
				}
			}
		}
	}
}

func iv(i int) octosql.Value { return octosql.NewInt(int64(i)) }

func genC19(g *Gen, tier string, w *bufio.Writer) {
	thorough := tier == "thorough"
	null := octosql.NewNull()
	// rows: left = [key], right = [key, 7]  (different widths, so that column order and padding are visible)
	lrow := func(k octosql.Value) []octosql.Value { return []octosql.Value{k} }
	rrow := func(k octosql.Value) []octosql.Value { return []octosql.Value{k, iv(7)} }
	type rowFn = func(octosql.Value) []octosql.Value

	// (a) the witnesses of the confirmed defects (also in corpus/C19)
	for _, l := range c19Witnesses {
		w.WriteString(l)
		w.WriteByte('\n')
	}

	// (b1) timed, one key: records at event times 5 and 20, watermarks 4, 5, 10, 30, a retraction at 20
	timed := func(row rowFn, syms string) []Msg {
		var a []Msg
		for _, c := range syms {
			switch c {
			case 'a':
				a = append(a, recMsg(row(iv(1)), false, 5))
			case 'b':
				a = append(a, recMsg(row(iv(1)), false, 20))
			case 'r':
				a = append(a, recMsg(row(iv(1)), true, 20))
			case '4':
				a = append(a, wmMsg(4))
			case '5': // a watermark equal to an event time (the boundary of Emit's `!After`)
				a = append(a, wmMsg(5))
			case '1':
				a = append(a, wmMsg(10))
			case '3':
				a = append(a, wmMsg(30))
			}
		}
		return a
	}
	// (b2) untimed (the SQL join of two tables, C02): keys 1, 2, NULL, duplicates, retractions
	untimed := func(row rowFn, syms string) []Msg {
		var a []Msg
		for _, c := range syms {
			switch c {
			case 'a':
				a = append(a, recMsg(row(iv(1)), false, 0))
			case 'A':
				a = append(a, recMsg(row(iv(1)), true, 0))
			case 'n':
				a = append(a, recMsg(row(null), false, 0))
			case 'N':
				a = append(a, recMsg(row(null), true, 0))
			case 'b':
				a = append(a, recMsg(row(iv(2)), false, 0))
			}
		}
		return a
	}
	fam := func(kinds []joinKind, mk func(rowFn, string) []Msg, syms string, n int) {
		emitAll(w, kinds, 1, 2, []int{0}, []int{0}, allScripts(mk(lrow, syms), n, scriptFresh, scriptValid), allScripts(mk(rrow, syms), n, scriptFresh, scriptValid))
	}
	inner, left, right, full := joinKinds[0:1], joinKinds[1:2], joinKinds[2:3], joinKinds[3:4]
	if thorough {
		fam(inner, timed, "abr513", 3)
		fam(full, timed, "abr513", 3)
		fam(inner, timed, "a51", 4)
		fam(left, timed, "abr4513", 2)
		fam(right, timed, "abr4513", 2)
		fam(inner, untimed, "aAnNb", 3)
		fam(full, untimed, "aAnNb", 3)
		fam(left, untimed, "aAn", 3)
		fam(right, untimed, "aAn", 3)
		fam(inner, untimed, "aA", 4)
		fam(full, untimed, "aA", 4)
	} else {
		fam(inner, timed, "a51", 3)
		fam(full, timed, "abr513", 2)
		fam(inner, timed, "ab4", 2)
		fam(inner, untimed, "aA", 3)
		fam(inner, untimed, "aAnNb", 2)
		fam(full, untimed, "aA", 3)
		fam(full, untimed, "aAnNb", 2)
		fam(left, untimed, "aAnNb", 2)
		fam(right, untimed, "aAnNb", 2)
	}

	// (c) random
	cnt := 4000
	if thorough {
		cnt = 200000
	}
	for i := 0; i < cnt; i++ {
		w.WriteString(randJoinOp(g).encode())
		w.WriteByte('\n')
	}
}

// the three confirmed defects (fixed by the `fix:` commits) and the schedule of DESIGN.md §3 C19
var c19Witnesses = []string{
	// stream join: records released when the first input ends were not stored (oneStreamRemains too early)
	"sj 0 0 1 1 0 0 LRLLRRR | R1 i1 + 5 ; W4 | W10 ; R1 i1 + 20 ; W30",
	"sj 0 0 1 1 0 0 LRRLR | R1 i1 + 5 | R1 i1 + 7 ; W10",
	"sj 0 0 1 1 0 0 LRLRL | R1 i1 + 5 ; W10 | R1 i1 + 7",
	"oj 1 1 1 1 0 0 LRLLRRR | R1 i1 + 5 ; W4 | W10 ; R1 i1 + 20 ; W30",
	// NULL keys must not match
	"sj 0 0 1 1 0 0 LRLR | R1 n + z | R1 n + z",
	"oj 1 0 1 1 0 0 LRLR | R1 n + z | R1 n + z",
	"oj 1 1 1 1 0 0 RLLR | R1 n + z | R1 n + z",
	// padded rows retracted on the first match, re-emitted on the last retraction
	"oj 1 1 1 1 0 0 LRLRLR | R1 i1 + z ; R1 i1 - z | R1 i1 + z ; R1 i2 + z",
}

// random scripts: rows [k1, k2, payload…]; keys from a small pool including NULL
func randJoinOp(g *Gen) joinSpecOp {
	k := joinKinds[g.Intn(len(joinKinds))]
	nL, nR := 2+g.Intn(2), 2+g.Intn(2)
	nk := 1 + g.Intn(2)
	if g.Chance(1, 10) {
		nk = 0
	}
	var kl, kr []int
	for i := 0; i < nk; i++ {
		kl = append(kl, g.Intn(2))
		kr = append(kr, g.Intn(2))
	}
	mode := g.Intn(10) // 0-4 timed within hypotheses, 5-6 untimed valid, 7 mixed valid-ish, 8-9 wild
	pool := []octosql.Value{iv(1), iv(2), octosql.NewString("a"), octosql.NewNull(), octosql.NewFloat(0)}
	if g.Chance(1, 3) {
		pool = pool[:2]
	}
	side := func(width int) []Msg {
		n := g.Intn(13)
		var ms []Msg
		var live [][]octosql.Value
		var liveEt []int64
		cur := int64(0)
		for len(ms) < n {
			c := g.Intn(10)
			switch {
			case c < 2 && mode != 5 && mode != 6: // watermark
				if mode >= 8 && g.Chance(1, 4) {
					cur = int64(1 + g.Intn(40))
				} else {
					cur += int64(g.Intn(8))
				}
				if cur == 0 {
					cur = 1
				}
				ms = append(ms, wmMsg(cur))
			case c < 4 && len(live) > 0: // retraction of a live row
				j := g.Intn(len(live))
				et := int64(0)
				switch {
				case mode <= 4:
					et = maxI64(liveEt[j], cur+1) + int64(g.Intn(3))
				case mode == 7 && liveEt[j] != 0:
					et = maxI64(liveEt[j], cur+1)
				case mode >= 8:
					et = int64(g.Intn(30))
				}
				ms = append(ms, recMsg(live[j], true, et))
				live = append(live[:j], live[j+1:]...)
				liveEt = append(liveEt[:j], liveEt[j+1:]...)
			case c == 4 && mode >= 8: // retraction of something that may not be there
				row := make([]octosql.Value, width)
				for x := range row {
					row[x] = Pick(g, pool)
				}
				ms = append(ms, recMsg(row, true, int64(g.Intn(30))))
			default:
				row := make([]octosql.Value, width)
				for x := range row {
					if x < 2 {
						row[x] = Pick(g, pool)
					} else {
						row[x] = iv(g.Intn(3))
					}
				}
				et := int64(0)
				switch {
				case mode <= 4:
					et = cur + 1 + int64(g.Intn(10))
				case mode == 7 && g.Bool():
					et = cur + 1 + int64(g.Intn(10))
				case mode >= 8 && g.Chance(2, 3):
					et = int64(1 + g.Intn(30))
				}
				ms = append(ms, recMsg(row, false, et))
				live = append(live, row)
				liveEt = append(liveEt, et)
			}
		}
		return ms
	}
	l, r := side(nL), side(nR)
	return joinSpecOp{outer: k.outer, outerL: k.ol, outerR: k.or, nL: nL, nR: nR, keysL: kl, keysR: kr,
		sched: randSched(g, len(l)+1, len(r)+1), left: l, right: r}
}

func maxI64(a, b int64) int64 {
	if a > b {
		return a
	}
	return b
}
