package main

// C30 — SQL formatting round-trips through the parser.
//
//	op line:   q <hex of the SQL text> <wire tokens of the real tokenizer>…
//	impl line: E                                   sqlparser.Parse rejected the text
//	           N <verdict>                         parsed to something that is not a SELECT statement (not judged)
//	           X <verdict>                         parsed, but the tree / token use is outside the modelled fragment
//	           F <dump> P <wire tokens of String(tree)>… R <verdict> O1
//	verdict  : same | differ | reparse-err | panic   (Parse(String(Parse(s))) against Parse(s), reflect.DeepEqual)

import (
	"bufio"
	"encoding/hex"
	"fmt"
	"go/ast"
	"go/parser"
	"go/token"
	"os"
	"path/filepath"
	"reflect"
	"sort"
	"strconv"
	"strings"

	"github.com/cube2222/octosql/parser/sqlparser"
)

func init() {
	register("C30", &prop{gen: genC30, drive: driveC30})
}

// ---------------------------------------------------------------------------------------------------------
// drive

func c30Verdict(st sqlparser.Statement) (verdict string, printed string) {
	defer func() {
		if r := recover(); r != nil {
			verdict = "panic"
		}
	}()
	printed = sqlparser.String(st)
	st2, err := sqlparser.Parse(printed)
	if err != nil {
		return "reparse-err", printed
	}
	if !reflect.DeepEqual(st, st2) {
		return "differ", printed
	}
	return "same", printed
}

func driveC30(toks []string) string {
	if len(toks) >= 2 && toks[0] == "why" {
		return c30Why(toks[1])
	}
	if len(toks) < 2 || toks[0] != "q" {
		return "bad-op"
	}
	raw, err := hex.DecodeString(toks[1])
	if err != nil {
		return "bad-op"
	}
	if err := loadSQLNames().err; err != nil {
		return "names-error"
	}
	sql := string(raw)
	ts, hadComment := sqlTokenize(sql)
	if wireToks(ts) != strings.Join(toks[2:], " ") {
		return "tokens-mismatch"
	}
	st, err := sqlparser.Parse(sql)
	if err != nil {
		return "E"
	}
	verdict, printed := c30Verdict(st)
	if _, isSel := st.(sqlparser.SelectStatement); !isSel {
		return "N " + verdict // not a SELECT statement: DDL / SET / SHOW / "other" statements are lossy by design
	}
	dump, idents, raws, derr := dumpStatement(st)
	outside := derr != nil || hadComment
	if !outside {
		// keyword tokens (reserved, or used as keywords by the fragment) whose text also occurs as an identifier of
		// the tree: the grammar accepted a keyword in identifier position; the Lean parser does not model that
		// (detected by counting: more identifiers with that text in the tree than ID/STRING tokens in the input)
		kv := map[string]bool{}
		have := map[string]int{}
		for _, t := range ts {
			if t.typ >= 57344 && !t.isValueTok() && len(t.val) > 0 && !t.plainNonReserved() {
				kv[strings.ToLower(string(t.val))] = true
			}
			if t.typ == sqlparser.ID || t.typ == sqlparser.STRING {
				have[strings.ToLower(string(t.val))]++
			}
			if t.typ == sqlparser.LEX_ERROR || t.typ == sqlparser.VALUE_ARG || t.name == "" {
				outside = true
			}
		}
		need := map[string]int{}
		for _, id := range idents {
			need[strings.ToLower(id)]++
		}
		for k := range kv {
			if need[k] > have[k] {
				outside = true
			}
		}
		// names that Format prints without quoting must lex back to one identifier-like token with the same text
		for _, r := range raws {
			rt, c := sqlTokenize(r)
			if c || len(rt) != 1 || string(rt[0].val) != r || !(rt[0].typ == sqlparser.ID || rt[0].plainNonReserved()) {
				outside = true
			}
		}
	}
	if outside {
		return "X " + verdict
	}
	pt := "-"
	if verdict != "panic" {
		pts, _ := sqlTokenize(printed)
		pt = wireToks(pts)
	}
	// O1: the Lean model must find the tree inside its parser-image predicate okS (checked by correspondence)
	return "F " + dump + " P " + pt + " R " + verdict + " O1"
}

// c30Why: debugging aid (`why <sqlhex>`): the printed text, the verdict and why the statement is outside the fragment
func c30Why(h string) string {
	raw, _ := hex.DecodeString(h)
	st, err := sqlparser.Parse(string(raw))
	if err != nil {
		return "parse-error: " + err.Error()
	}
	verdict, printed := c30Verdict(st)
	_, _, raws, derr := dumpStatement(st)
	why := ""
	if derr != nil {
		why = derr.Error()
	}
	var hz []string
	for _, r := range raws {
		rt, c := sqlTokenize(r)
		if c || len(rt) != 1 || string(rt[0].val) != r || !(rt[0].typ == sqlparser.ID || rt[0].plainNonReserved()) {
			hz = append(hz, r)
		}
	}
	return fmt.Sprintf("%s | printed: %s | outside: %s | raw-hazard: %q", verdict, printed, why, hz)
}

// ---------------------------------------------------------------------------------------------------------
// generator

type sqlGen struct {
	g    *Gen
	wild bool // this statement may ignore the level discipline (then it is often a syntax error)
}

func (s *sqlGen) kw(w string) string {
	switch s.g.Intn(6) {
	case 0:
		return strings.ToUpper(w)
	case 1:
		return strings.Title(w)
	}
	return w
}

var c30Idents = []string{"a", "b", "c", "d", "x1", "tbl", "t", "u", "w", "Foo", "col_2", "user_id", "ts", "second", "day"}
var c30Quoted = []string{"`my col`", "`select`", "`from`", "`a``b`", "`1x`", "\"dq id\"", "`order`", "`Time`", "`offset`", "`x.y`"}
var c30NonReserved = []string{"time", "date", "status", "year", "text", "int", "view", "comment", "bool", "TIMESTAMP", "Json", "session"}
var c30Structural = []string{"offset", "after", "delay", "counting", "watermark", "end", "of"}
var c30Funcs = []string{"count", "sum", "f", "coalesce", "max", "lower", "now", "time_from_unix", "Upper"}
var c30Types = []string{"int", "float", "text", "string", "boolean", "time", "duration", "bool", "Int", "[]", "{}"}
var c30Units = []string{"second", "seconds", "minute", "hour", "day", "month", "year", "Day"}

func (s *sqlGen) ident() string {
	g := s.g
	switch r := g.Intn(100); {
	case r < 72:
		return Pick(g, c30Idents)
	case r < 87:
		return Pick(g, c30Quoted)
	case r < 99:
		return Pick(g, c30NonReserved)
	default:
		return Pick(g, c30Structural)
	}
}

func (s *sqlGen) sp() string {
	if s.g.Chance(1, 5) {
		return ""
	}
	if s.g.Chance(1, 12) {
		return "  "
	}
	return " "
}

func (s *sqlGen) strLit() string {
	g := s.g
	pool := []string{"'x'", "'it''s'", "'a\\'b'", "'a\"b'", "'%a_'", "'\\\\d+'", "'a\\nb'", "''", "'tab\there'", "'back\\\\slash'", "'uni\xc3\xa9'", "'q\\tz'", "'semi;colon'", "'-- no comment'", "'end\\\\'", "'\\\\'", "'C:\\\\dir\\\\'", "'\\\\\\''"}
	return Pick(g, pool)
}

func (s *sqlGen) literal() string {
	g := s.g
	switch g.Intn(12) {
	case 0, 1, 2, 3:
		return strconv.Itoa(g.Intn(120))
	case 4:
		return Pick(g, []string{"1.5", "0.25", "1e10", "2.5E-3", ".5", "10."})
	case 5, 6:
		return s.strLit()
	case 7:
		return Pick(g, []string{"0x1F", "0xab", "x'0aff'", "X'AB'", "b'0101'", "B'1'"})
	case 8:
		return s.kw("null")
	case 9:
		return s.kw(Pick(g, []string{"true", "false"}))
	default:
		return strconv.Itoa(g.Intn(5))
	}
}

func (s *sqlGen) colRef() string {
	g := s.g
	switch g.Intn(10) {
	case 0, 1:
		return s.ident() + "." + s.ident()
	case 2:
		if g.Chance(1, 3) {
			return s.ident() + "." + s.ident() + "." + s.ident()
		}
	}
	return s.ident()
}

func (s *sqlGen) typeName() string { return Pick(s.g, c30Types) }

func (s *sqlGen) selectItems(d int, inFunc bool) string {
	g := s.g
	n := 1 + g.Intn(3)
	var items []string
	for i := 0; i < n; i++ {
		switch r := g.Intn(20); {
		case r == 0:
			items = append(items, "*")
		case r == 1:
			items = append(items, s.ident()+".*")
		case r == 2 && !inFunc:
			items = append(items, s.ident()+"."+s.ident()+".*")
		case r == 3:
			items = append(items, s.val(d-1, 6)+s.sp()+"->*")
		case r < 8:
			it := s.expr(d - 1)
			switch g.Intn(4) {
			case 0:
				it += " " + s.kw("as") + " " + s.ident()
			case 1:
				it += " " + s.ident()
			case 2:
				it += " " + s.kw("as") + " 'str alias'"
			default:
				it += " " + s.kw("as") + " " + Pick(g, c30Idents)
			}
			items = append(items, it)
		default:
			items = append(items, s.expr(d-1))
		}
	}
	return strings.Join(items, ","+s.sp())
}

// val generates a value expression; `lvl` is the loosest binary level it may use unparenthesised at the top
// (6 '|' … 11 '^', 12 unary, 13 postfix/atom).  With s.wild the discipline is ignored.
func (s *sqlGen) val(d int, lvl int) string {
	g := s.g
	if d <= 0 {
		if g.Chance(1, 2) {
			return s.colRef()
		}
		return s.literal()
	}
	if s.wild {
		lvl = 6
	}
	type binop struct {
		op  string
		lvl int
	}
	bins := []binop{{"|", 6}, {"&", 7}, {"<<", 8}, {">>", 8}, {"+", 9}, {"-", 9}, {"*", 10}, {"/", 10}, {"div", 10}, {"%", 10}, {"mod", 10}, {"^", 11}}
	switch r := g.Intn(30); {
	case r < 9:
		b := Pick(g, bins)
		if b.lvl < lvl {
			return "(" + s.val(d-1, 6) + " " + b.op + " " + s.val(d-1, 6) + ")"
		}
		// left operand may be of the same level (left assoc), right must be tighter — or anything, the parser decides
		l, rr := s.val(d-1, b.lvl), s.val(d-1, b.lvl+1)
		if g.Chance(1, 4) {
			rr = s.val(d-1, 6) // unparenthesised looser operand on the right: regrouped by the parser
		}
		sp := " "
		if b.op != "div" && b.op != "mod" && b.op != "/" && b.op != "-" && g.Chance(1, 4) {
			sp = ""
		}
		op := b.op
		if op == "div" || op == "mod" {
			op = s.kw(op)
		}
		return l + sp + op + sp + rr
	case r < 12:
		u := Pick(g, []string{"-", "+", "!", "~", "- ", "-", "+ "})
		return u + s.val(d-1, 12)
	case r < 14:
		return s.val(d-1, 13) + s.sp() + "->" + s.sp() + s.ident()
	case r < 16:
		return s.val(d-1, 13) + "::" + s.typeName()
	case r == 16:
		return s.val(d-1, 13) + "[" + s.val(d-1, 6) + "]"
	case r == 17:
		return "(" + s.expr(d-1) + ")"
	case r == 18:
		return "(" + s.expr(d-1) + ", " + s.expr(d-1) + ")"
	case r == 19:
		if d >= 2 && g.Chance(1, 2) {
			return "(" + s.selectStmt(d-2) + ")"
		}
		return s.kw("interval") + " " + s.val(d-1, 6) + " " + Pick(g, c30Units)
	case r == 20 || r == 21:
		fn := Pick(g, c30Funcs)
		if g.Chance(1, 8) {
			fn = s.ident()
		}
		if g.Chance(1, 10) {
			fn = s.ident() + "." + fn
		}
		switch g.Intn(6) {
		case 0:
			return fn + "()"
		case 1:
			return fn + "(" + s.kw("distinct") + " " + s.selectItems(d-1, true) + ")"
		case 2:
			return fn + "(*)"
		}
		return fn + s.sp() + "(" + s.selectItems(d-1, true) + ")"
	case r == 22:
		if g.Chance(1, 2) {
			return s.kw("convert") + "(" + s.expr(d-1) + ", " + s.typeName() + ")"
		}
		return s.kw("cast") + "(" + s.expr(d-1) + " " + s.kw("as") + " " + s.typeName() + ")"
	case r == 23:
		return s.kw("interval") + " " + s.val(d-1, 6) + " " + Pick(g, c30Units)
	case r < 27:
		return s.colRef()
	default:
		return s.literal()
	}
}

// cond generates something of the grammar's `condition` / IS level
func (s *sqlGen) cond(d int) string {
	g := s.g
	switch r := g.Intn(16); {
	case r < 6:
		op := Pick(g, []string{"=", "<", ">", "<=", ">=", "!=", "<>", "<=>"})
		sp := s.sp()
		return s.val(d-1, 6) + sp + op + sp + s.val(d-1, 6)
	case r < 8:
		neg := ""
		if g.Chance(1, 2) {
			neg = s.kw("not") + " "
		}
		if d >= 2 && g.Chance(1, 4) {
			return s.val(d-1, 6) + " " + neg + s.kw("in") + " (" + s.selectStmt(d-2) + ")"
		}
		n := 1 + g.Intn(3)
		var es []string
		for i := 0; i < n; i++ {
			es = append(es, s.expr(d-1))
		}
		return s.val(d-1, 6) + " " + neg + s.kw("in") + " (" + strings.Join(es, ", ") + ")"
	case r < 10:
		neg := ""
		if g.Chance(1, 2) {
			neg = s.kw("not") + " "
		}
		op := Pick(g, []string{"like", "like", "regexp"})
		return s.val(d-1, 6) + " " + neg + s.kw(op) + " " + s.val(d-1, 6)
	case r < 13:
		suf := Pick(g, []string{"null", "not null", "true", "not true", "false", "not false"})
		return s.expr1(d-1, 5) + " " + s.kw("is") + " " + s.kw(suf)
	case r == 13 && d >= 2:
		return s.kw("exists") + " (" + s.selectStmt(d-2) + ")"
	default:
		return s.val(d-1, 6)
	}
}

// expr1: boolean expression whose loosest unparenthesised operator is at least `lvl` (1 or, 2 and, 3 not, 5 cond)
func (s *sqlGen) expr1(d int, lvl int) string {
	g := s.g
	if d <= 0 {
		return s.val(0, 6)
	}
	if s.wild {
		lvl = 1
	}
	switch r := g.Intn(20); {
	case r < 3:
		e := s.expr1(d-1, 1) + " " + s.kw(Pick(g, []string{"or", "or", "||"})) + " " + s.expr1(d-1, 2)
		if lvl > 1 {
			return "(" + e + ")"
		}
		return e
	case r < 6:
		e := s.expr1(d-1, 2) + " " + s.kw(Pick(g, []string{"and", "and", "&&"})) + " " + s.expr1(d-1, 3)
		if lvl > 2 {
			return "(" + e + ")"
		}
		return e
	case r < 8:
		e := s.kw("not") + " " + s.expr1(d-1, 3)
		if lvl > 3 {
			return "(" + e + ")"
		}
		return e
	case r < 14:
		return s.cond(d)
	default:
		return s.val(d, 6)
	}
}

func (s *sqlGen) expr(d int) string { return s.expr1(d, 1) }

func (s *sqlGen) alias(must bool) string {
	g := s.g
	if !must && g.Chance(1, 2) {
		return ""
	}
	switch g.Intn(6) {
	case 0, 2:
		return " " + s.kw("as") + " " + s.ident()
	case 1:
		if !must {
			return " " + s.kw("as") + " 'sa'"
		}
		return " " + s.ident()
	default:
		return " " + Pick(g, c30Idents)
	}
}

func (s *sqlGen) tableFactor(d int) string {
	g := s.g
	switch r := g.Intn(14); {
	case r == 0 && d >= 2:
		if g.Chance(1, 25) {
			return "(" + s.selectStmt(d-2) + ")"
		}
		return "(" + s.selectStmt(d-2) + ")" + s.alias(true)
	case r == 1 && d >= 1:
		n := 1 + g.Intn(2)
		var ts []string
		for i := 0; i < n; i++ {
			ts = append(ts, s.tableRef(d-1))
		}
		return "(" + strings.Join(ts, ", ") + ")"
	case r <= 3 && d >= 1:
		n := g.Intn(4)
		var as []string
		for i := 0; i < n; i++ {
			name := s.ident()
			switch g.Intn(4) {
			case 0:
				as = append(as, name+" => "+s.kw("table")+"("+s.tableRef(d-1)+")")
			case 1:
				as = append(as, name+"=>"+s.kw("descriptor")+"("+s.colRef()+")")
			default:
				as = append(as, name+" => "+s.expr(d-1))
			}
		}
		fn := Pick(g, []string{"range", "tumble", "max_diff_watermark", "poll", "`select`", "f"})
		if g.Chance(1, 25) {
			return fn + "(" + strings.Join(as, ", ") + ")"
		}
		return fn + "(" + strings.Join(as, ", ") + ")" + s.alias(true)
	case r == 4:
		return s.ident() + "." + s.ident() + s.alias(false)
	default:
		return s.ident() + s.alias(false)
	}
}

func (s *sqlGen) joinCond(d int, must bool) string {
	g := s.g
	if !must && g.Chance(1, 3) {
		return ""
	}
	if g.Chance(1, 5) {
		n := 1 + g.Intn(2)
		var cs []string
		for i := 0; i < n; i++ {
			cs = append(cs, s.ident())
		}
		return " " + s.kw("using") + " (" + strings.Join(cs, ", ") + ")"
	}
	return " " + s.kw("on") + " " + s.expr(d)
}

func (s *sqlGen) tableRef(d int) string {
	g := s.g
	l := s.tableFactor(d)
	for d > 0 && g.Chance(2, 5) {
		d--
		switch g.Intn(10) {
		case 0, 1, 2, 3:
			strat := Pick(g, []string{"", "", "lookup ", "stream "})
			j := Pick(g, []string{"join", "join", "inner join", "cross join"})
			l += " " + s.kw(strat) + s.kw(j) + " " + s.tableFactor(d) + s.joinCond(d, false)
		case 4, 5, 6:
			j := Pick(g, []string{"left join", "left outer join", "right join", "right outer join", "outer join"})
			r := s.tableFactor(d)
			if g.Chance(1, 3) {
				r = s.tableRef(d)
			}
			l += " " + s.kw(j) + " " + r + s.joinCond(d, !s.wild)
		case 7:
			j := Pick(g, []string{"natural join", "natural left join", "natural right outer join", "natural left outer join"})
			l += " " + s.kw(j) + " " + s.tableFactor(d)
		case 8:
			if g.Chance(1, 4) {
				l += " " + s.kw("straight_join") + " " + s.tableFactor(d) + " " + s.kw("on") + " " + s.expr(d)
			} else {
				l += " " + s.kw("join") + " " + s.tableFactor(d) + s.joinCond(d, false)
			}
		default:
			l += " " + s.kw("join") + " " + s.tableFactor(d) + s.joinCond(d, false)
		}
	}
	return l
}

func (s *sqlGen) selectStmt(d int) string {
	g := s.g
	var sb strings.Builder
	if d >= 2 && g.Chance(1, 8) {
		n := 1 + g.Intn(2)
		var cs []string
		for i := 0; i < n; i++ {
			cs = append(cs, s.ident()+" "+s.kw("as")+" ("+s.selectStmt(d-2)+")")
		}
		sb.WriteString(s.kw("with") + " " + strings.Join(cs, ", "))
		if g.Chance(1, 10) {
			sb.WriteString(",")
		}
		sb.WriteString(" ")
	}
	sb.WriteString(s.kw("select") + " ")
	if g.Chance(1, 6) {
		sb.WriteString(s.kw("distinct") + " ")
	}
	sb.WriteString(s.selectItems(d, false))
	if !g.Chance(1, 12) {
		n := 1
		if g.Chance(1, 5) {
			n = 2
		}
		var ts []string
		for i := 0; i < n; i++ {
			ts = append(ts, s.tableRef(d))
		}
		sb.WriteString(" " + s.kw("from") + " " + strings.Join(ts, ", "))
	}
	if g.Chance(1, 3) {
		sb.WriteString(" " + s.kw("where") + " " + s.expr(d))
	}
	if g.Chance(1, 5) {
		n := 1 + g.Intn(2)
		var es []string
		for i := 0; i < n; i++ {
			es = append(es, s.expr(d-1))
		}
		sb.WriteString(" " + s.kw("group by") + " " + strings.Join(es, ", "))
	}
	if g.Chance(1, 8) {
		sb.WriteString(" " + s.kw("having") + " " + s.expr(d))
	}
	if g.Chance(1, 4) {
		n := 1 + g.Intn(3)
		var ts []string
		for i := 0; i < n; i++ {
			switch g.Intn(4) {
			case 0:
				ts = append(ts, s.kw("counting")+" "+s.expr(d-1))
			case 1:
				ts = append(ts, s.kw("on watermark"))
			case 2:
				ts = append(ts, s.kw("on end of stream"))
			default:
				ts = append(ts, s.kw("after delay")+" "+s.expr(d-1))
			}
		}
		sb.WriteString(" " + s.kw("trigger") + " " + strings.Join(ts, ", "))
	}
	if g.Chance(1, 5) {
		n := 1 + g.Intn(2)
		var es []string
		for i := 0; i < n; i++ {
			e := s.expr(d - 1)
			if g.Chance(1, 6) {
				e = Pick(g, []string{"null", "rand()", "RAND()"})
			}
			e += Pick(g, []string{"", " asc", " desc", " DESC"})
			es = append(es, e)
		}
		sb.WriteString(" " + s.kw("order by") + " " + strings.Join(es, ", "))
	}
	if g.Chance(1, 5) {
		switch g.Intn(3) {
		case 0:
			sb.WriteString(" " + s.kw("limit") + " " + s.expr(d-1))
		case 1:
			sb.WriteString(" " + s.kw("limit") + " " + s.val(d-1, 6) + ", " + s.expr(d-1))
		default:
			sb.WriteString(" " + s.kw("limit") + " " + s.val(d-1, 6) + " " + s.kw("offset") + " " + s.expr(d-1))
		}
	}
	return sb.String()
}

// mutateWords: a crude word-level mutation (delete / duplicate / swap / replace one word)
func c30MutateWords(g *Gen, sql string) string {
	ws := strings.Fields(sql)
	if len(ws) < 2 {
		return sql
	}
	pool := []string{"(", ")", ",", "and", "or", "not", "is", "null", "as", "join", "on", "left", "lookup", "->", "->*", "::int", "-",
		"+", "*", "=", "in", "like", "trigger", "counting", "watermark", "after", "delay", "end", "of", "stream", "table(t)",
		"descriptor(a)", "=>", "interval", "desc", "limit", "offset", "1", "'s'", "x", "`y z`", "distinct", "from", "where",
		"group", "by", "having", "order", "with", "select", "[1]", "!", "~", "<=>", "<<", "div", "mod", "convert(a, int)", ";"}
	i := g.Intn(len(ws))
	switch g.Intn(5) {
	case 0:
		ws = append(ws[:i], ws[i+1:]...)
	case 1:
		ws = append(ws[:i+1], ws[i:]...)
	case 2:
		j := g.Intn(len(ws))
		ws[i], ws[j] = ws[j], ws[i]
	case 3:
		ws[i] = Pick(g, pool)
	default:
		ws = append(ws[:i+1], append([]string{Pick(g, pool)}, ws[i+1:]...)...)
	}
	return strings.Join(ws, " ")
}

// the vendored parser tests' SQL texts: string literals of the *_test.go files that sqlparser.Parse accepts
func c30VendoredCorpus() []string {
	dir := sqlparserDir()
	files, _ := filepath.Glob(filepath.Join(dir, "*_test.go"))
	sort.Strings(files)
	seen := map[string]bool{}
	var out []string
	for _, fn := range files {
		fset := token.NewFileSet()
		f, err := parser.ParseFile(fset, fn, nil, 0)
		if err != nil {
			continue
		}
		ast.Inspect(f, func(n ast.Node) bool {
			lit, ok := n.(*ast.BasicLit)
			if !ok || lit.Kind != token.STRING {
				return true
			}
			s, err := strconv.Unquote(lit.Value)
			if err != nil || len(s) < 8 || len(s) > 400 || seen[s] || strings.ContainsAny(s, "\n\t") {
				return true
			}
			low := strings.ToLower(strings.TrimSpace(s))
			if !(strings.HasPrefix(low, "select") || strings.HasPrefix(low, "with") || strings.HasPrefix(low, "(select")) {
				return true
			}
			seen[s] = true
			out = append(out, s)
			return true
		})
	}
	return out
}

func c30Emit(w *bufio.Writer, sql string) {
	if strings.ContainsAny(sql, "\n\r") {
		sql = strings.NewReplacer("\n", " ", "\r", " ").Replace(sql)
	}
	ts, _ := sqlTokenize(sql)
	fmt.Fprintf(w, "q %s %s\n", hex.EncodeToString([]byte(sql)), wireToks(ts))
}

// a fixed list of statements that exercise every construct of the fragment and every defect found so far
var c30Fixed = []string{
	"select a from t",
	"select a from t trigger counting 3, on watermark",
	"select a from t trigger on end of stream",
	"select a from t trigger after delay interval 3 second",
	"select a from t group by a having b > 1 trigger counting 2 order by a limit 1",
	"select a from t lookup join u on t.a = u.b",
	"select a from t stream join u on t.a = u.b",
	"select a from f(x => 1, t => table(tt), d => descriptor(tt.c)) q",
	"select a from f() q",
	"select a->b, c->* from t",
	"select a->b->c, (a->b)->c, a + b->c, -a->b from t",
	"select a::int, b::text, c::[], d::{} from t",
	"select cast(a as int), convert(b, float) from t",
	"select interval 3 second, interval a + 1 day from t",
	"select a from t where a is not null and b in (1,2) or c like 'x%'",
	"select -a, - 3, +3, - -3, !a, ~a, - -a, -(-a), !-3, -+3, +-3 from t",
	"select (a+b)*c, a+b*c, a-(b-c), a-b-c, a^b^c, a|b&c<<1 from t",
	"select not a = b, not (a and b), not a is null, (not a) is null from t",
	"select a from (select b from u) v",
	"select a from t, u",
	"select a from t join u on a=b join w on c=d",
	"select a from t left join (u join w) on c=d",
	"select a from t left join u join w on c=d on e=f",
	"select a from t left join u left join w on c=d on e=f",
	"select a from t natural join u natural left join w",
	"select a from t join u using (a, b)",
	"select a from t order by a desc, b limit 3",
	"select a from t order by null desc, rand() desc, null, rand()",
	"select a from t limit 3 offset 4",
	"select a from t limit 3, 4",
	"select distinct a as b, c d from t as tt",
	"select a from t where x is true or y is not false",
	"select count(*), f(distinct a), g(), h(t.*), i(a as b) from t",
	"select a[1], a[1][2], (a+b)[c] from t",
	"select a from `t x`",
	"select `select`, `a``b` from t",
	"select a from t where a = 'it''s' and b = 'a\"b' and c = 'tab\there'",
	"select 1.5, 1e10, 0x1f, x'aa', b'01' from t",
	"select t.a, t.*, *, s.t.a from t",
	"select a from a.b c",
	"select true, false, null from t",
	"select a from t where exists (select 1 from u)",
	"select a from t where a = (select 1 from u)",
	"select a from t where (a, b) in ((1,2),(3,4)) and c in (select d from u) and e not in (1)",
	"select a from t where a <=> b and a != b and a <> b and a <= b and a >= b",
	"select a from t where a not like 'x' and a regexp 'y' and a not regexp 'z'",
	"select a | b & c ^ d << 2 >> 3 div 4 % 5 mod 6 from t",
	"with x as (select a from t) select * from x",
	"with x as (select a from t), y as (select b from x), select * from y",
	"with x as (select a from t) with y as (select b from x) select * from y",
	"select 1",
	"select a from t;",
	"select time(a), date(b), `select`(c), `a b`(d), `Time`(e) from t",
	"select a from t as 'x'",
	"select a 'x' from t",
	"select a from t where a = b = c",
	"select a from t where a and b is null is not null",
	"select a, (select b from u limit 1) from t where c = (d, e)",
	"select a from (t, u)",
	"select a from (t)",
	"select 'back\\\\slash', 'q\\tz', 'nl\\n', 'x\\'y' from t",
	"select - -a, -(-a), - - -3, !-a, -!a, ~-a from t",
	"select a from t where not not a and not (not b)",
	"select a from t as u, (select 1) v, f(a => 1, b => table(u), c => descriptor(u.a)) w",
	"select a from t where a in ((select 1)) and (b) in (1)",
}

func genC30(g *Gen, tier string, w *bufio.Writer) {
	if err := loadSQLNames().err; err != nil {
		fmt.Fprintln(os.Stderr, "C30 gen:", err)
		os.Exit(1)
	}
	if src := os.Getenv("C30_SQL_FILE"); src != "" {
		b, err := os.ReadFile(src)
		if err != nil {
			fmt.Fprintln(os.Stderr, "C30 gen:", err)
			os.Exit(1)
		}
		for _, l := range strings.Split(string(b), "\n") {
			if strings.TrimSpace(l) != "" {
				c30Emit(w, l)
			}
		}
		return
	}
	for _, s := range c30Fixed {
		c30Emit(w, s)
	}
	vend := c30VendoredCorpus()
	for _, s := range vend {
		c30Emit(w, s)
	}
	nGen, nMut := 4000, 1500
	if tier == "thorough" {
		nGen, nMut = 120000, 40000
	}
	sg := &sqlGen{g: g}
	var pool []string
	for i := 0; i < nGen; i++ {
		sg.wild = g.Chance(1, 12)
		d := Pick(g, []int{1, 1, 2, 2, 2, 3, 3, 4})
		s := sg.selectStmt(d)
		if g.Chance(1, 25) {
			s = c30MutateWords(g, s)
		}
		if g.Chance(1, 40) {
			s += ";"
		}
		c30Emit(w, s)
		if len(pool) < 500 {
			pool = append(pool, s)
		}
	}
	base := append(append([]string{}, vend...), c30Fixed...)
	for i := 0; i < nMut; i++ {
		var s string
		if g.Chance(3, 4) || len(pool) == 0 {
			s = Pick(g, base)
		} else {
			s = Pick(g, pool)
		}
		k := 1 + g.Intn(2)
		for j := 0; j < k; j++ {
			s = c30MutateWords(g, s)
		}
		c30Emit(w, s)
	}
}
