package main

// C26, second part: predicate transport (encoding/json over physical.Expression, then
// RepopulatePhysicalExpressionFunctions), JSON trips of constants and types, decoding of arbitrary proto values.

import (
	"bufio"
	"context"
	"encoding/hex"
	"encoding/json"
	"fmt"
	"math"
	"reflect"
	"sort"
	"strconv"
	"strings"
	"time"

	"google.golang.org/protobuf/types/known/durationpb"
	"google.golang.org/protobuf/types/known/timestamppb"

	"github.com/cube2222/octosql/functions"
	"github.com/cube2222/octosql/logical"
	"github.com/cube2222/octosql/octosql"
	"github.com/cube2222/octosql/physical"
	"github.com/cube2222/octosql/plugins"
)

var fm26 map[string]physical.FunctionDetails

func funcs26() map[string]physical.FunctionDetails {
	if fm26 == nil {
		fm26 = functions.FunctionMap()
	}
	return fm26
}

// an argument expression of a given static type: variable v<i>
type typedArg26 struct {
	name string
	t    octosql.Type
}

func (a *typedArg26) Typecheck(ctx context.Context, env physical.Environment, logicalEnv logical.Environment) physical.Expression {
	return physical.Expression{Type: a.t, ExpressionType: physical.ExpressionTypeVariable, Variable: &physical.Variable{Name: a.name, IsLevel0: true}}
}

func typecheck26(name string, ts []octosql.Type) physical.Expression {
	args := make([]logical.Expression, len(ts))
	fields := make([]physical.SchemaField, len(ts))
	for i := range ts {
		n := "v" + strconv.Itoa(i)
		args[i] = &typedArg26{name: n, t: ts[i]}
		fields[i] = physical.SchemaField{Name: n, Type: ts[i]}
	}
	env := physical.Environment{Functions: funcs26(), VariableContext: &physical.VariableContext{Fields: fields}}
	return logical.NewFunctionExpression(name, args).Typecheck(context.Background(), env, logical.Environment{})
}

func descIndex26(name string, d physical.FunctionDescriptor) string {
	if d.Function == nil {
		return "none"
	}
	p := reflect.ValueOf(d.Function).Pointer()
	for i, c := range funcs26()[name].Descriptors {
		if reflect.ValueOf(c.Function).Pointer() == p {
			return strconv.Itoa(i)
		}
	}
	return "none"
}

// jsonTripExpr is what happens to a predicate between octosql and a plugin: encoding/json there (the function
// pointers are dropped), encoding/json back, RepopulatePhysicalExpressionFunctions.
func jsonTripExpr(e physical.Expression) (physical.Expression, bool, error) {
	b, err := json.Marshal(&e)
	if err != nil {
		return physical.Expression{}, false, err
	}
	var e2 physical.Expression
	if err := json.Unmarshal(b, &e2); err != nil {
		return physical.Expression{}, false, err
	}
	out, ok := plugins.VerifRepopulatePhysicalExpressionFunctions(e2)
	return out, ok, nil
}

func jsonErrClass(err error) string {
	msg := err.Error()
	switch {
	case strings.Contains(msg, "unsupported value"):
		return "err:nonfinite"
	case strings.Contains(msg, "year outside of range"):
		return "err:year"
	}
	return "err:other"
}

func parsePVDump(toks []string) (*plugins.VerifValue, []string) {
	tok, rest := toks[0], toks[1:]
	if tok == "Pnil" {
		return nil, rest
	}
	f := strings.Split(tok[1:], ":")
	if len(f) != 10 {
		panic("c26: bad PV head " + tok)
	}
	atoi := func(s string) int64 {
		x, err := strconv.ParseInt(s, 10, 64)
		if err != nil {
			panic(err)
		}
		return x
	}
	p := &plugins.VerifValue{TypeId: int32(atoi(f[0])), Int: atoi(f[1]), Boolean: f[3] == "1"}
	bits, err := strconv.ParseUint(f[2], 16, 64)
	if err != nil {
		panic(err)
	}
	p.Float = math.Float64frombits(bits)
	s, err := hex.DecodeString(f[4][1:])
	if err != nil {
		panic(err)
	}
	p.Str = string(s)
	if f[5] != "-" {
		sn := strings.Split(f[5], "/")
		p.Time = &timestamppb.Timestamp{Seconds: atoi(sn[0]), Nanos: int32(atoi(sn[1]))}
	}
	if f[6] != "-" {
		sn := strings.Split(f[6], "/")
		p.Duration = &durationpb.Duration{Seconds: atoi(sn[0]), Nanos: int32(atoi(sn[1]))}
	}
	for i, dst := range []*[]*plugins.VerifValue{&p.List, &p.Struct, &p.Tuple} {
		n := int(atoi(f[7+i]))
		for j := 0; j < n; j++ {
			var c *plugins.VerifValue
			c, rest = parsePVDump(rest)
			*dst = append(*dst, c)
		}
	}
	return p, rest
}

func dumpGV(sb *strings.Builder, v octosql.Value) {
	fmt.Fprintf(sb, "G%d:%d:%016x:%s:s%s:%s@%d:%d:%d:%d:%d", int64(v.TypeID), v.Int, math.Float64bits(v.Float), b01(v.Boolean),
		hex.EncodeToString([]byte(v.Str)), bigNsOfTime(v.Time), locID(v.Time.Location()), int64(v.Duration), len(v.List), len(v.Struct), len(v.Tuple))
	for _, xs := range [][]octosql.Value{v.List, v.Struct, v.Tuple} {
		for _, x := range xs {
			sb.WriteByte(' ')
			dumpGV(sb, x)
		}
	}
}

func driveC26b(toks []string) string {
	switch toks[0] {
	case "rawval":
		p, _ := parsePVDump(toks[1:])
		v := p.ToNativeValue()
		return str26(func(sb *strings.Builder) { dumpGV(sb, v) })
	case "repop":
		nameb, err := hex.DecodeString(toks[1])
		if err != nil {
			panic(err)
		}
		name := string(nameb)
		k, _ := strconv.Atoi(toks[2])
		ts := make([]octosql.Type, k)
		r := toks[3:]
		for i := 0; i < k; i++ {
			ts[i], r = ParseType(r)
		}
		var e physical.Expression
		tc := safe(func() string {
			e = typecheck26(name, ts)
			return descIndex26(name, e.FunctionCall.FunctionDescriptor)
		})
		if tc == "panic" {
			return "tc=panic"
		}
		out, ok, err := jsonTripExpr(e)
		if err != nil {
			return "tc=" + tc + " " + jsonErrClass(err)
		}
		return "tc=" + tc + " rp=" + descIndex26(name, out.FunctionCall.FunctionDescriptor) + " ok=" + b01(ok)
	case "json":
		v, _ := p26Value(toks[1:])
		b, err := json.Marshal(&physical.Constant{Value: v})
		if err != nil {
			return jsonErrClass(err)
		}
		var c physical.Constant
		if err := json.Unmarshal(b, &c); err != nil {
			return "err:unmarshal"
		}
		return enc26Value(utcValue(c.Value))
	case "jsonty":
		t, _ := ParseType(toks[1:])
		b, err := json.Marshal(&t)
		if err != nil {
			return "err:other"
		}
		var t2 octosql.Type
		if err := json.Unmarshal(b, &t2); err != nil {
			return "err:unmarshal"
		}
		return EncodeType(t2)
	case "pred":
		return driveC26pred(toks)
	case "tree":
		return driveC26tree(toks)
	}
	return "bad-op"
}

// utcValue puts every time of v into UTC (encoding/json yields UTC, Local or an anonymous fixed zone).
func utcValue(v octosql.Value) octosql.Value {
	mapAll := func(xs []octosql.Value) []octosql.Value {
		out := make([]octosql.Value, len(xs))
		for i := range xs {
			out[i] = utcValue(xs[i])
		}
		return out
	}
	switch v.TypeID {
	case octosql.TypeIDTime:
		return octosql.NewTime(v.Time.UTC())
	case octosql.TypeIDList:
		return octosql.NewList(mapAll(v.List))
	case octosql.TypeIDStruct:
		return octosql.NewStruct(mapAll(v.Struct))
	case octosql.TypeIDTuple:
		return octosql.NewTuple(mapAll(v.Tuple))
	}
	return v
}

// ---------- generator, second part

func c26FunctionNames() []string {
	var names []string
	for n := range funcs26() {
		names = append(names, n)
	}
	sort.Strings(names)
	return names
}

var c26ArgPool = []string{"Null", "Int", "Float", "Bool", "Str", "Time", "Dur", "Any", "ListNil", "List Int", "List Str", "List Union2 Null Int",
	"Struct1 x61 Int", "Struct0", "Tuple2 Int Int", "Tuple0", "Tuple1 Str", "Union2 Null Int", "Union2 Null Str", "Union2 Int Str",
	"Union2 Null List Int", "Union2 Null Tuple1 Int", "Union3 Null Int Float", "Union2 Null Float", "Union2 Null Time", "Union2 Null Dur",
	"Union2 Null Bool", "Union2 Null Struct1 x61 Int", "List Any", "Union2 List Int Tuple1 Int"}

// second-argument pool of the quick tier (all pairs): one representative per TypeID, plus nullable and mixed unions
var c26ArgPoolQuick = []string{"Null", "Int", "Float", "Bool", "Str", "Time", "Dur", "Any", "ListNil", "List Int", "Struct1 x61 Int",
	"Tuple2 Int Int", "Union2 Null Int", "Union2 Null Str", "Union2 Null List Int", "Union2 Null Tuple1 Int", "Union2 Int Str"}

func repopLine(name string, ts []string) string {
	return strings.TrimSpace(fmt.Sprintf("repop %s %d %s", hex.EncodeToString([]byte(name)), len(ts), strings.Join(ts, " ")))
}

// emitRepop writes the line; argument lists the real typechecker refuses (nothing is transported then) are thinned out
func emitRepop(g *Gen, w *bufio.Writer, name string, ts []string) {
	tys := make([]octosql.Type, len(ts))
	for i := range ts {
		tys[i], _ = ParseType(strings.Fields(ts[i]))
	}
	if safe(func() string { typecheck26(name, tys); return "ok" }) == "panic" && !g.Chance(1, 12) {
		return
	}
	fmt.Fprintln(w, repopLine(name, ts))
}

func genC26b(g *Gen, tier string, w *bufio.Writer) {
	scale := 1
	if tier == "thorough" {
		scale = 20
	}
	// every descriptor of FunctionMap(): its own argument types, and each argument made nullable
	for _, name := range c26FunctionNames() {
		for _, d := range funcs26()[name].Descriptors {
			if d.TypeFn != nil {
				continue
			}
			ts := make([]string, len(d.ArgumentTypes))
			for i := range ts {
				ts[i] = EncodeType(d.ArgumentTypes[i])
			}
			fmt.Fprintln(w, repopLine(name, ts))
			for i := range ts {
				if d.ArgumentTypes[i].TypeID == octosql.TypeIDUnion || d.ArgumentTypes[i].TypeID == octosql.TypeIDAny || d.ArgumentTypes[i].TypeID == octosql.TypeIDNull {
					continue
				}
				us := append([]string(nil), ts...)
				us[i] = "Union2 Null " + ts[i]
				fmt.Fprintln(w, repopLine(name, us))
			}
		}
		// all argument lists of length <= 2 over the pool (TypeFn overloads are found this way), a sample of length 3
		fmt.Fprintln(w, repopLine(name, nil))
		pool2 := c26ArgPool
		if tier != "thorough" {
			pool2 = c26ArgPoolQuick
		}
		for _, a := range c26ArgPool {
			emitRepop(g, w, name, []string{a})
		}
		for _, a := range pool2 {
			for _, b := range pool2 {
				emitRepop(g, w, name, []string{a, b})
			}
		}
		for i := 0; i < 30*scale; i++ {
			n := 1 + g.Intn(3)
			ts := make([]string, n)
			for j := range ts {
				ts[j] = EncodeType(c26RandType(g, 2))
				if g.Chance(2, 3) {
					ts[j] = Pick(g, c26ArgPool)
				}
			}
			emitRepop(g, w, name, ts)
		}
	}
	fmt.Fprintln(w, repopLine("no_such_function", []string{"Int"}))
	// JSON trips of constants and types
	for _, v := range smallUniverse() {
		fmt.Fprintf(w, "json %s\n", enc26Value(v))
	}
	for _, ns := range c26Times {
		for _, loc := range []int{0, 103} {
			fmt.Fprintf(w, "json t%s:%d\n", ns, loc)
		}
	}
	for _, s := range c26Strings {
		fmt.Fprintf(w, "json s%s\n", hex.EncodeToString([]byte(s)))
	}
	for i := 0; i < 1000*scale; i++ {
		fmt.Fprintf(w, "json %s\n", enc26Value(c26RandValue(g, 3)))
		fmt.Fprintf(w, "jsonty %s\n", EncodeType(c26RandType(g, 3)))
	}
	// arbitrary proto values through ToNativeValue
	for i := 0; i < 1000*scale; i++ {
		fmt.Fprintf(w, "rawval %s\n", c26RandPV(g, 3))
	}
	genC26pred(g, tier, w)
}

func c26RandTsDump(g *Gen, nanosRange int64) string {
	if g.Chance(1, 4) {
		return "-"
	}
	secs := Pick(g, []int64{0, 1, -1, 9223372036, -9223372036, 9223372037, -9223372037, math.MaxInt64, math.MinInt64, 1500000000, -62135596800})
	if g.Chance(1, 3) {
		secs = int64(g.U64()) >> uint(g.Intn(50))
	}
	nanos := Pick(g, []int64{0, 1, -1, 999999999, -999999999, 854775807, -854775808, 854775808, math.MaxInt32, math.MinInt32, 1000000000})
	if g.Chance(1, 3) {
		nanos = int64(int32(g.U64()))
	}
	_ = nanosRange
	return fmt.Sprintf("%d/%d", secs, nanos)
}

func c26RandPV(g *Gen, depth int) string {
	tid := g.Intn(10)
	if g.Chance(1, 12) {
		tid = Pick(g, []int{-1, 10, 11, 12, math.MaxInt32, math.MinInt32})
	}
	var nl, ns, nt int
	if depth > 0 && g.Chance(1, 2) {
		nl, ns, nt = g.Intn(3), g.Intn(2), g.Intn(2)
	}
	str := Pick(g, c26Strings)
	ts := c26RandTsDump(g, 0)
	// keep the timestamp inside what time.Unix can represent without wrapping (|seconds| < 2^62)
	if ts != "-" {
		secs, _ := strconv.ParseInt(strings.Split(ts, "/")[0], 10, 64)
		if secs > 1<<61 || secs < -(1<<61) {
			ts = "-62135596800/0"
		}
	}
	head := fmt.Sprintf("P%d:%d:%016x:%s:s%s:%s:%s:%d:%d:%d", tid, int64(g.Intn(5))-2, Pick(g, edgeFloats), b01(g.Bool()), hex.EncodeToString([]byte(str)),
		ts, c26RandTsDump(g, 0), nl, ns, nt)
	parts := []string{head}
	for i := 0; i < nl+ns+nt; i++ {
		parts = append(parts, c26RandPV(g, depth-1))
	}
	return strings.Join(parts, " ")
}

var _ = time.Second
