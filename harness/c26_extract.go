package main

// Translator piece for C26 (DESIGN §2.2a): `vh extract wire` writes
//
//   lean/Octo/Gen/Wire.lean           from the AST of plugins/internal/plugins/plugins.go: for NativeValueToProto,
//                                     (*Value).ToNativeValue, NativeTypeToProto, (*Type).ToNativeType the conversion of the
//                                     TypeID, and per `case` of the switch the TypeIDs and the assignments
//                                     `out.<dst> = <conv>(x.<src>)`; whether `default:` panics;
//   lean/Octo/Gen/WireFunctions.lean  functions.FunctionMap() as RepopulatePhysicalExpressionFunctions sees it: per
//                                     descriptor ArgumentTypes, OutputType, Strict (by reflection over the linked
//                                     package) and the guards of its TypeFn (from the AST of functions/functions.go).
//
// Fails closed: any statement / expression shape that is not one of the few the code has today is an error.

import (
	"fmt"
	"go/ast"
	"go/parser"
	"go/token"
	"os"
	"path/filepath"
	"strconv"
	"strings"

	"github.com/cube2222/octosql/octosql"
)

func init() {
	registerExtractor("wire", extractWire)
}

// selPath flattens a.b.c into ["a","b","c"]; ok=false for anything else.
func selPath(e ast.Expr) ([]string, bool) {
	switch x := e.(type) {
	case *ast.Ident:
		return []string{x.Name}, true
	case *ast.SelectorExpr:
		p, ok := selPath(x.X)
		if !ok {
			return nil, false
		}
		return append(p, x.Sel.Name), true
	case *ast.ParenExpr:
		return selPath(x.X)
	}
	return nil, false
}

func pathIs(e ast.Expr, want ...string) bool {
	p, ok := selPath(e)
	if !ok || len(p) != len(want) {
		return false
	}
	for i := range p {
		if p[i] != want[i] {
			return false
		}
	}
	return true
}

type wireFn struct {
	name     string // Go function / method name
	leanName string
	isType   bool
	toProto  bool
	recv     string // name of the source variable
	recFn    string // how the function calls itself
}

type wireCtx struct {
	fn      wireFn
	typeIDs map[string]int
	fset    *token.FileSet
}

func (c *wireCtx) errf(n ast.Node, format string, args ...interface{}) error {
	return fmt.Errorf("%s: %s: %s", c.fn.name, c.fset.Position(n.Pos()), fmt.Sprintf(format, args...))
}

var vfNames = map[string]string{"Int": "int", "Float": "float", "Boolean": "boolean", "Str": "str", "Time": "time", "Duration": "duration",
	"List": "list", "Struct": "struct", "Tuple": "tuple"}

// field of the source / destination, for values: recv.<Field>
func (c *wireCtx) vField(e ast.Expr, recv string) (string, error) {
	p, ok := selPath(e)
	if !ok || len(p) != 2 || p[0] != recv {
		return "", c.errf(e, "expected %s.<Field>", recv)
	}
	f, ok := vfNames[p[1]]
	if !ok {
		return "", c.errf(e, "unknown value field %s", p[1])
	}
	return f, nil
}

// type-valued field for types. native side: List.Element, Struct.Fields, Tuple.Elements, Union.Alternatives; proto side: List, Struct, Tuple, Union
func (c *wireCtx) tField(e ast.Expr, recv string, native bool) (string, error) {
	p, ok := selPath(e)
	if !ok || len(p) < 2 || p[0] != recv {
		return "", c.errf(e, "expected %s.<Field>", recv)
	}
	nat := map[string]string{"List.Element": "list", "Struct.Fields": "struct", "Tuple.Elements": "tuple", "Union.Alternatives": "union"}
	pro := map[string]string{"List": "list", "Struct": "struct", "Tuple": "tuple", "Union": "union"}
	key := strings.Join(p[1:], ".")
	m := pro
	if native {
		m = nat
	}
	f, ok := m[key]
	if !ok {
		return "", c.errf(e, "unknown type field %s (native=%v)", key, native)
	}
	return f, nil
}

// isSelfCall: is `e` the function applied to `arg`?  toProto: F(arg); toNative: arg.M()
func (c *wireCtx) selfCallArg(e ast.Expr) (ast.Expr, bool) {
	call, ok := e.(*ast.CallExpr)
	if !ok {
		return nil, false
	}
	if c.fn.toProto {
		id, ok := call.Fun.(*ast.Ident)
		if !ok || id.Name != c.fn.name || len(call.Args) != 1 {
			return nil, false
		}
		return call.Args[0], true
	}
	sel, ok := call.Fun.(*ast.SelectorExpr)
	if !ok || sel.Sel.Name != c.fn.name || len(call.Args) != 0 {
		return nil, false
	}
	return sel.X, true
}

// the element loop:  elements := make([]T, len(SRC)); for i := range SRC { elements[i] = ELEM }; DST = elements
// returns SRC, DST and the element expression with the index variable name
func (c *wireCtx) loopPattern(stmts []ast.Stmt) (src, dst ast.Expr, elem ast.Expr, idx string, err error) {
	if len(stmts) != 3 {
		return nil, nil, nil, "", c.errf(stmts[0], "expected the three-statement element loop, got %d statements", len(stmts))
	}
	a0, ok := stmts[0].(*ast.AssignStmt)
	if !ok || a0.Tok != token.DEFINE || len(a0.Lhs) != 1 || len(a0.Rhs) != 1 {
		return nil, nil, nil, "", c.errf(stmts[0], "expected elements := make(...)")
	}
	elName, ok := a0.Lhs[0].(*ast.Ident)
	mk, ok2 := a0.Rhs[0].(*ast.CallExpr)
	if !ok || !ok2 || len(mk.Args) != 2 {
		return nil, nil, nil, "", c.errf(stmts[0], "expected elements := make([]T, len(x))")
	}
	if id, ok := mk.Fun.(*ast.Ident); !ok || id.Name != "make" {
		return nil, nil, nil, "", c.errf(stmts[0], "expected make")
	}
	if _, ok := mk.Args[0].(*ast.ArrayType); !ok {
		return nil, nil, nil, "", c.errf(stmts[0], "expected make of a slice")
	}
	ln, ok := mk.Args[1].(*ast.CallExpr)
	if !ok || len(ln.Args) != 1 {
		return nil, nil, nil, "", c.errf(stmts[0], "expected len(x)")
	}
	if id, ok := ln.Fun.(*ast.Ident); !ok || id.Name != "len" {
		return nil, nil, nil, "", c.errf(stmts[0], "expected len(x)")
	}
	src = ln.Args[0]
	rs, ok := stmts[1].(*ast.RangeStmt)
	if !ok || rs.Tok != token.DEFINE || rs.Value != nil || len(rs.Body.List) != 1 {
		return nil, nil, nil, "", c.errf(stmts[1], "expected for i := range x { one statement }")
	}
	iv, ok := rs.Key.(*ast.Ident)
	if !ok {
		return nil, nil, nil, "", c.errf(stmts[1], "expected an index variable")
	}
	sp, ok1 := selPath(src)
	rp, ok2 := selPath(rs.X)
	if !ok1 || !ok2 || strings.Join(sp, ".") != strings.Join(rp, ".") {
		return nil, nil, nil, "", c.errf(stmts[1], "the loop ranges over something else than len() was taken of")
	}
	as, ok := rs.Body.List[0].(*ast.AssignStmt)
	if !ok || as.Tok != token.ASSIGN || len(as.Lhs) != 1 || len(as.Rhs) != 1 {
		return nil, nil, nil, "", c.errf(stmts[1], "expected elements[i] = …")
	}
	lhs, ok := as.Lhs[0].(*ast.IndexExpr)
	if !ok {
		return nil, nil, nil, "", c.errf(as, "expected elements[i] = …")
	}
	if id, ok := lhs.X.(*ast.Ident); !ok || id.Name != elName.Name {
		return nil, nil, nil, "", c.errf(as, "expected elements[i] = …")
	}
	if id, ok := lhs.Index.(*ast.Ident); !ok || id.Name != iv.Name {
		return nil, nil, nil, "", c.errf(as, "expected elements[i] = …")
	}
	a2, ok := stmts[2].(*ast.AssignStmt)
	if !ok || a2.Tok != token.ASSIGN || len(a2.Lhs) != 1 || len(a2.Rhs) != 1 {
		return nil, nil, nil, "", c.errf(stmts[2], "expected out.F = elements")
	}
	if id, ok := a2.Rhs[0].(*ast.Ident); !ok || id.Name != elName.Name {
		return nil, nil, nil, "", c.errf(stmts[2], "expected out.F = elements")
	}
	return src, a2.Lhs[0], as.Rhs[0], iv.Name, nil
}

// indexed: is e == SRC[idx] (+ optional trailing selector)? returns the trailing selector names
func indexedOf(e ast.Expr, src ast.Expr, idx string) ([]string, bool) {
	var trail []string
	for {
		if s, ok := e.(*ast.SelectorExpr); ok {
			trail = append([]string{s.Sel.Name}, trail...)
			e = s.X
			continue
		}
		break
	}
	ix, ok := e.(*ast.IndexExpr)
	if !ok {
		return nil, false
	}
	if id, ok := ix.Index.(*ast.Ident); !ok || id.Name != idx {
		return nil, false
	}
	a, ok1 := selPath(ix.X)
	b, ok2 := selPath(src)
	if !ok1 || !ok2 || strings.Join(a, ".") != strings.Join(b, ".") {
		return nil, false
	}
	return trail, true
}

func (c *wireCtx) valueCase(body []ast.Stmt) ([]string, error) {
	recv := c.fn.recv
	if len(body) == 0 {
		return nil, nil
	}
	if len(body) == 1 {
		as, ok := body[0].(*ast.AssignStmt)
		if !ok || as.Tok != token.ASSIGN || len(as.Lhs) != 1 || len(as.Rhs) != 1 {
			return nil, c.errf(body[0], "expected out.F = …")
		}
		dst, err := c.vField(as.Lhs[0], "out")
		if err != nil {
			return nil, err
		}
		switch rhs := as.Rhs[0].(type) {
		case *ast.SelectorExpr:
			src, err := c.vField(rhs, recv)
			if err != nil {
				return nil, err
			}
			return []string{fmt.Sprintf("⟨.%s, .%s, .copy⟩", dst, src)}, nil
		case *ast.CallExpr:
			if id, ok := rhs.Fun.(*ast.Ident); ok && id.Name == "int64" && len(rhs.Args) == 1 {
				src, err := c.vField(rhs.Args[0], recv)
				if err != nil {
					return nil, err
				}
				return []string{fmt.Sprintf("⟨.%s, .%s, .int64⟩", dst, src)}, nil
			}
			if len(rhs.Args) == 1 {
				conv := ""
				if pathIs(rhs.Fun, "timestamppb", "New") {
					conv = "tsNew"
				} else if pathIs(rhs.Fun, "durationpb", "New") {
					conv = "durNew"
				}
				if conv != "" {
					src, err := c.vField(rhs.Args[0], recv)
					if err != nil {
						return nil, err
					}
					return []string{fmt.Sprintf("⟨.%s, .%s, .%s⟩", dst, src, conv)}, nil
				}
			}
			if sel, ok := rhs.Fun.(*ast.SelectorExpr); ok && len(rhs.Args) == 0 {
				conv := map[string]string{"AsTime": "tsAsTime", "AsDuration": "durAsDuration"}[sel.Sel.Name]
				if conv != "" {
					src, err := c.vField(sel.X, recv)
					if err != nil {
						return nil, err
					}
					return []string{fmt.Sprintf("⟨.%s, .%s, .%s⟩", dst, src, conv)}, nil
				}
			}
		}
		return nil, c.errf(as, "unrecognised right-hand side")
	}
	src, dstE, elem, idx, err := c.loopPattern(body)
	if err != nil {
		return nil, err
	}
	srcF, err := c.vField(src, recv)
	if err != nil {
		return nil, err
	}
	dstF, err := c.vField(dstE, "out")
	if err != nil {
		return nil, err
	}
	arg, ok := c.selfCallArg(elem)
	if !ok {
		return nil, c.errf(elem, "the loop body does not apply %s to the element", c.fn.name)
	}
	if trail, ok := indexedOf(arg, src, idx); !ok || len(trail) != 0 {
		return nil, c.errf(elem, "the loop body converts something else than the i-th element")
	}
	return []string{fmt.Sprintf("⟨.%s, .%s, .mapSelf⟩", dstF, srcF)}, nil
}

func (c *wireCtx) typeCase(body []ast.Stmt) ([]string, error) {
	recv := c.fn.recv
	srcNative := c.fn.toProto
	if len(body) == 0 {
		return nil, nil
	}
	if len(body) == 1 {
		// if x.G != nil { out.F = self(*x.G) }      /      if x.G != nil { t := x.G.self(); out.F = &t }
		is, ok := body[0].(*ast.IfStmt)
		if !ok || is.Init != nil || is.Else != nil {
			return nil, c.errf(body[0], "expected if x.G != nil { … }")
		}
		cond, ok := is.Cond.(*ast.BinaryExpr)
		if !ok || cond.Op != token.NEQ {
			return nil, c.errf(is, "expected x.G != nil")
		}
		if id, ok := cond.Y.(*ast.Ident); !ok || id.Name != "nil" {
			return nil, c.errf(is, "expected x.G != nil")
		}
		srcF, err := c.tField(cond.X, recv, srcNative)
		if err != nil {
			return nil, err
		}
		same := func(e ast.Expr) bool {
			a, ok1 := selPath(e)
			b, ok2 := selPath(cond.X)
			return ok1 && ok2 && strings.Join(a, ".") == strings.Join(b, ".")
		}
		if c.fn.toProto {
			if len(is.Body.List) != 1 {
				return nil, c.errf(is, "expected one assignment")
			}
			as, ok := is.Body.List[0].(*ast.AssignStmt)
			if !ok || as.Tok != token.ASSIGN || len(as.Lhs) != 1 || len(as.Rhs) != 1 {
				return nil, c.errf(is, "expected out.F = self(*x.G)")
			}
			dstF, err := c.tField(as.Lhs[0], "out", !srcNative)
			if err != nil {
				return nil, err
			}
			arg, ok := c.selfCallArg(as.Rhs[0])
			if !ok {
				return nil, c.errf(as, "expected %s(*x.G)", c.fn.name)
			}
			st, ok := arg.(*ast.StarExpr)
			if !ok || !same(st.X) {
				return nil, c.errf(as, "expected %s(*x.G) of the tested pointer", c.fn.name)
			}
			return []string{fmt.Sprintf("⟨.%s, .%s, .optSelf⟩", dstF, srcF)}, nil
		}
		if len(is.Body.List) != 2 {
			return nil, c.errf(is, "expected t := x.G.self(); out.F = &t")
		}
		a0, ok := is.Body.List[0].(*ast.AssignStmt)
		if !ok || a0.Tok != token.DEFINE || len(a0.Lhs) != 1 || len(a0.Rhs) != 1 {
			return nil, c.errf(is, "expected t := x.G.self()")
		}
		tv, ok := a0.Lhs[0].(*ast.Ident)
		arg, ok2 := c.selfCallArg(a0.Rhs[0])
		if !ok || !ok2 || !same(arg) {
			return nil, c.errf(a0, "expected t := x.G.%s() of the tested field", c.fn.name)
		}
		a1, ok := is.Body.List[1].(*ast.AssignStmt)
		if !ok || a1.Tok != token.ASSIGN || len(a1.Lhs) != 1 || len(a1.Rhs) != 1 {
			return nil, c.errf(is, "expected out.F = &t")
		}
		u, ok := a1.Rhs[0].(*ast.UnaryExpr)
		if !ok || u.Op != token.AND {
			return nil, c.errf(a1, "expected out.F = &t")
		}
		if id, ok := u.X.(*ast.Ident); !ok || id.Name != tv.Name {
			return nil, c.errf(a1, "expected out.F = &t")
		}
		dstF, err := c.tField(a1.Lhs[0], "out", !srcNative)
		if err != nil {
			return nil, err
		}
		return []string{fmt.Sprintf("⟨.%s, .%s, .optSelf⟩", dstF, srcF)}, nil
	}
	src, dstE, elem, idx, err := c.loopPattern(body)
	if err != nil {
		return nil, err
	}
	srcF, err := c.tField(src, recv, srcNative)
	if err != nil {
		return nil, err
	}
	dstF, err := c.tField(dstE, "out", !srcNative)
	if err != nil {
		return nil, err
	}
	if arg, ok := c.selfCallArg(elem); ok {
		if trail, ok := indexedOf(arg, src, idx); !ok || len(trail) != 0 {
			return nil, c.errf(elem, "the loop body converts something else than the i-th element")
		}
		return []string{fmt.Sprintf("⟨.%s, .%s, .mapSelf⟩", dstF, srcF)}, nil
	}
	// StructField{Name: x.G[i].Name, Type: self(x.G[i].Type)}
	var lit *ast.CompositeLit
	switch e := elem.(type) {
	case *ast.UnaryExpr:
		if e.Op == token.AND {
			lit, _ = e.X.(*ast.CompositeLit)
		}
	case *ast.CompositeLit:
		lit = e
	}
	if lit == nil || len(lit.Elts) != 2 {
		return nil, c.errf(elem, "expected StructField{Name: …, Type: …}")
	}
	if p, ok := selPath(lit.Type); !ok || p[len(p)-1] != "StructField" {
		return nil, c.errf(elem, "expected a StructField literal")
	}
	seen := map[string]bool{}
	for _, el := range lit.Elts {
		kv, ok := el.(*ast.KeyValueExpr)
		if !ok {
			return nil, c.errf(el, "expected key: value")
		}
		k, ok := kv.Key.(*ast.Ident)
		if !ok {
			return nil, c.errf(el, "expected key: value")
		}
		switch k.Name {
		case "Name":
			if trail, ok := indexedOf(kv.Value, src, idx); !ok || len(trail) != 1 || trail[0] != "Name" {
				return nil, c.errf(el, "expected Name: x.G[i].Name")
			}
		case "Type":
			arg, ok := c.selfCallArg(kv.Value)
			if !ok {
				return nil, c.errf(el, "expected Type: %s of x.G[i].Type", c.fn.name)
			}
			if trail, ok := indexedOf(arg, src, idx); !ok || len(trail) != 1 || trail[0] != "Type" {
				return nil, c.errf(el, "expected Type: %s of x.G[i].Type", c.fn.name)
			}
		default:
			return nil, c.errf(el, "unexpected key %s", k.Name)
		}
		seen[k.Name] = true
	}
	if !seen["Name"] || !seen["Type"] {
		return nil, c.errf(elem, "expected both Name and Type")
	}
	return []string{fmt.Sprintf("⟨.%s, .%s, .mapFields⟩", dstF, srcF)}, nil
}

func (c *wireCtx) table(fd *ast.FuncDecl) (string, error) {
	if fd.Body == nil || len(fd.Body.List) != 3 {
		return "", c.errf(fd, "expected three statements: out := …; switch …; return out")
	}
	// out := &T{TypeId: conv(x.TypeID)}
	a0, ok := fd.Body.List[0].(*ast.AssignStmt)
	if !ok || a0.Tok != token.DEFINE || len(a0.Lhs) != 1 || len(a0.Rhs) != 1 {
		return "", c.errf(fd.Body.List[0], "expected out := …")
	}
	if id, ok := a0.Lhs[0].(*ast.Ident); !ok || id.Name != "out" {
		return "", c.errf(a0, "expected out := …")
	}
	rhs := a0.Rhs[0]
	if u, ok := rhs.(*ast.UnaryExpr); ok && u.Op == token.AND {
		rhs = u.X
	}
	lit, ok := rhs.(*ast.CompositeLit)
	if !ok || len(lit.Elts) != 1 {
		return "", c.errf(a0, "expected a composite literal with the TypeID only")
	}
	kv, ok := lit.Elts[0].(*ast.KeyValueExpr)
	if !ok {
		return "", c.errf(a0, "expected TypeId: …")
	}
	if k, ok := kv.Key.(*ast.Ident); !ok || (k.Name != "TypeId" && k.Name != "TypeID") {
		return "", c.errf(a0, "expected TypeId: …")
	}
	call, ok := kv.Value.(*ast.CallExpr)
	if !ok || len(call.Args) != 1 {
		return "", c.errf(a0, "expected a conversion of the TypeID")
	}
	tid := ""
	if id, ok := call.Fun.(*ast.Ident); ok && id.Name == "int32" {
		tid = "int32"
	} else if pathIs(call.Fun, "octosql", "TypeID") {
		tid = "typeID"
	} else {
		return "", c.errf(a0, "unknown TypeID conversion")
	}
	if !pathIs(call.Args[0], c.fn.recv, "TypeID") && !pathIs(call.Args[0], c.fn.recv, "TypeId") {
		return "", c.errf(a0, "the TypeID of something else than the argument")
	}
	// switch
	sw, ok := fd.Body.List[1].(*ast.SwitchStmt)
	if !ok || sw.Init != nil {
		return "", c.errf(fd.Body.List[1], "expected switch")
	}
	tag := sw.Tag
	if cl, ok := tag.(*ast.CallExpr); ok && pathIs(cl.Fun, "octosql", "TypeID") && len(cl.Args) == 1 {
		tag = cl.Args[0]
	}
	if !pathIs(tag, c.fn.recv, "TypeID") && !pathIs(tag, c.fn.recv, "TypeId") {
		return "", c.errf(sw, "the switch is not on the TypeID of the argument")
	}
	var cases []string
	defaultPanics := false
	for _, st := range sw.Body.List {
		cc := st.(*ast.CaseClause)
		if cc.List == nil {
			if len(cc.Body) != 1 {
				return "", c.errf(cc, "default: expected a single panic")
			}
			es, ok := cc.Body[0].(*ast.ExprStmt)
			if !ok {
				return "", c.errf(cc, "default: expected a single panic")
			}
			pc, ok := es.X.(*ast.CallExpr)
			if !ok {
				return "", c.errf(cc, "default: expected a single panic")
			}
			if id, ok := pc.Fun.(*ast.Ident); !ok || id.Name != "panic" {
				return "", c.errf(cc, "default: expected a single panic")
			}
			defaultPanics = true
			continue
		}
		var ids []string
		for _, e := range cc.List {
			p, ok := selPath(e)
			if !ok || len(p) != 2 || p[0] != "octosql" {
				return "", c.errf(e, "case label is not octosql.TypeID…")
			}
			n, ok := c.typeIDs[p[1]]
			if !ok {
				return "", c.errf(e, "unknown TypeID constant %s", p[1])
			}
			ids = append(ids, strconv.Itoa(n))
		}
		var body []string
		var err error
		if c.fn.isType {
			body, err = c.typeCase(cc.Body)
		} else {
			body, err = c.valueCase(cc.Body)
		}
		if err != nil {
			return "", err
		}
		cases = append(cases, fmt.Sprintf("    ⟨[%s], [%s]⟩", strings.Join(ids, ", "), strings.Join(body, ", ")))
	}
	// return out
	rt, ok := fd.Body.List[2].(*ast.ReturnStmt)
	if !ok || len(rt.Results) != 1 {
		return "", c.errf(fd.Body.List[2], "expected return out")
	}
	if id, ok := rt.Results[0].(*ast.Ident); !ok || id.Name != "out" {
		return "", c.errf(rt, "expected return out")
	}
	ty := "VTable"
	if c.fn.isType {
		ty = "TTable"
	}
	return fmt.Sprintf("/-- `%s` -/\ndef %s : %s := {\n  tid := .%s\n  cases := [\n%s\n  ]\n  defaultPanics := %v }\n",
		c.fn.name, c.fn.leanName, ty, tid, strings.Join(cases, ",\n"), defaultPanics), nil
}

func extractWireTables(repoDir string) (string, error) {
	fset := token.NewFileSet()
	tf, err := parser.ParseFile(fset, filepath.Join(repoDir, "octosql", "types.go"), nil, 0)
	if err != nil {
		return "", err
	}
	idNames, err := iotaBlock(tf, "TypeID")
	if err != nil {
		return "", err
	}
	typeIDs := map[string]int{}
	for i, n := range idNames {
		typeIDs[n] = i
	}
	f, err := parser.ParseFile(fset, filepath.Join(repoDir, "plugins", "internal", "plugins", "plugins.go"), nil, 0)
	if err != nil {
		return "", err
	}
	fns := []wireFn{
		{name: "NativeValueToProto", leanName: "nativeValueToProto", isType: false, toProto: true},
		{name: "ToNativeValue", leanName: "toNativeValue", isType: false, toProto: false},
		{name: "NativeTypeToProto", leanName: "nativeTypeToProto", isType: true, toProto: true},
		{name: "ToNativeType", leanName: "toNativeType", isType: true, toProto: false},
	}
	var sb strings.Builder
	sb.WriteString("import Octo.Model.WireTable\n/-! GENERATED by `vh extract wire` from plugins/internal/plugins/plugins.go — do not edit. -/\n")
	sb.WriteString("namespace Octo.Gen.Wire\nopen Octo.Wire\n\n")
	for _, fn := range fns {
		var fd *ast.FuncDecl
		for _, d := range f.Decls {
			if x, ok := d.(*ast.FuncDecl); ok && x.Name.Name == fn.name {
				if fd != nil {
					return "", fmt.Errorf("two declarations of %s", fn.name)
				}
				fd = x
			}
		}
		if fd == nil {
			return "", fmt.Errorf("function %s not found", fn.name)
		}
		if fn.toProto {
			if fd.Recv != nil || len(fd.Type.Params.List) != 1 || len(fd.Type.Params.List[0].Names) != 1 {
				return "", fmt.Errorf("%s: expected one parameter and no receiver", fn.name)
			}
			fn.recv = fd.Type.Params.List[0].Names[0].Name
		} else {
			if fd.Recv == nil || len(fd.Recv.List) != 1 || len(fd.Recv.List[0].Names) != 1 || len(fd.Type.Params.List) != 0 {
				return "", fmt.Errorf("%s: expected a receiver and no parameter", fn.name)
			}
			fn.recv = fd.Recv.List[0].Names[0].Name
		}
		c := &wireCtx{fn: fn, typeIDs: typeIDs, fset: fset}
		s, err := c.table(fd)
		if err != nil {
			return "", err
		}
		sb.WriteString(s + "\n")
	}
	sb.WriteString("end Octo.Gen.Wire\n")
	return sb.String(), nil
}

// ---------- the function table

func leanNat(xs []byte) string {
	parts := make([]string, len(xs))
	for i, b := range xs {
		parts[i] = strconv.Itoa(int(b))
	}
	return "[" + strings.Join(parts, ", ") + "]"
}

func leanTy26(t octosql.Type) (string, error) {
	many := func(ts []octosql.Type) (string, error) {
		parts := make([]string, len(ts))
		for i := range ts {
			s, err := leanTy26(ts[i])
			if err != nil {
				return "", err
			}
			parts[i] = s
		}
		return "[" + strings.Join(parts, ", ") + "]", nil
	}
	switch t.TypeID {
	case octosql.TypeIDNull:
		return ".null", nil
	case octosql.TypeIDInt:
		return ".int", nil
	case octosql.TypeIDFloat:
		return ".float", nil
	case octosql.TypeIDBoolean:
		return ".bool", nil
	case octosql.TypeIDString:
		return ".str", nil
	case octosql.TypeIDTime:
		return ".time", nil
	case octosql.TypeIDDuration:
		return ".dur", nil
	case octosql.TypeIDAny:
		return ".any", nil
	case octosql.TypeIDList:
		if t.List.Element == nil {
			return ".listNil", nil
		}
		e, err := leanTy26(*t.List.Element)
		if err != nil {
			return "", err
		}
		return "(.list " + e + ")", nil
	case octosql.TypeIDStruct:
		names := make([]string, len(t.Struct.Fields))
		tys := make([]octosql.Type, len(t.Struct.Fields))
		for i, f := range t.Struct.Fields {
			names[i] = leanNat([]byte(f.Name))
			tys[i] = f.Type
		}
		ts, err := many(tys)
		if err != nil {
			return "", err
		}
		return "(.struct [" + strings.Join(names, ", ") + "] " + ts + ")", nil
	case octosql.TypeIDTuple:
		ts, err := many(t.Tuple.Elements)
		if err != nil {
			return "", err
		}
		return "(.tuple " + ts + ")", nil
	case octosql.TypeIDUnion:
		ts, err := many(t.Union.Alternatives)
		if err != nil {
			return "", err
		}
		return "(.union " + ts + ")", nil
	}
	return "", fmt.Errorf("type with unknown TypeID %d", t.TypeID)
}

// typeFnGuards translates the body of a TypeFn literal: a sequence of `if <cond> { return …, false }` guards
// (other statements may not return), ended by `return …, true`.
func typeFnGuards(fset *token.FileSet, fl *ast.FuncLit, typeIDs map[string]int) ([]string, error) {
	errf := func(n ast.Node, format string, args ...interface{}) error {
		return fmt.Errorf("TypeFn at %s: %s", fset.Position(n.Pos()), fmt.Sprintf(format, args...))
	}
	if len(fl.Type.Params.List) != 1 || len(fl.Type.Params.List[0].Names) != 1 {
		return nil, errf(fl, "expected one parameter")
	}
	param := fl.Type.Params.List[0].Names[0].Name
	stmts := fl.Body.List
	if len(stmts) == 0 {
		return nil, errf(fl, "empty body")
	}
	isBool := func(e ast.Expr, want string) bool {
		id, ok := e.(*ast.Ident)
		return ok && id.Name == want
	}
	last, ok := stmts[len(stmts)-1].(*ast.ReturnStmt)
	if !ok || len(last.Results) != 2 || !isBool(last.Results[1], "true") {
		return nil, errf(stmts[len(stmts)-1], "the body must end with return …, true")
	}
	argIndex := func(e ast.Expr) (int, bool) {
		ix, ok := e.(*ast.IndexExpr)
		if !ok {
			return 0, false
		}
		if id, ok := ix.X.(*ast.Ident); !ok || id.Name != param {
			return 0, false
		}
		lit, ok := ix.Index.(*ast.BasicLit)
		if !ok || lit.Kind != token.INT {
			return 0, false
		}
		n, err := strconv.Atoi(lit.Value)
		return n, err == nil
	}
	var guards []string
	for _, st := range stmts[:len(stmts)-1] {
		is, ok := st.(*ast.IfStmt)
		isGuard := false
		if ok && is.Init == nil && is.Else == nil && len(is.Body.List) == 1 {
			if rt, ok := is.Body.List[0].(*ast.ReturnStmt); ok {
				if len(rt.Results) != 2 || !isBool(rt.Results[1], "false") {
					return nil, errf(rt, "a guard must return …, false")
				}
				isGuard = true
			}
		}
		if !isGuard {
			// any other statement: must not return
			bad := false
			ast.Inspect(st, func(n ast.Node) bool {
				if _, ok := n.(*ast.ReturnStmt); ok {
					bad = true
				}
				if _, ok := n.(*ast.FuncLit); ok {
					return false
				}
				return true
			})
			if bad {
				return nil, errf(st, "a return outside a plain guard")
			}
			continue
		}
		switch cond := is.Cond.(type) {
		case *ast.BinaryExpr:
			if cond.Op != token.NEQ {
				return nil, errf(cond, "unknown guard")
			}
			if call, ok := cond.X.(*ast.CallExpr); ok {
				id, ok1 := call.Fun.(*ast.Ident)
				lit, ok2 := cond.Y.(*ast.BasicLit)
				if !ok1 || id.Name != "len" || len(call.Args) != 1 || !isBool(call.Args[0], param) || !ok2 || lit.Kind != token.INT {
					return nil, errf(cond, "unknown guard")
				}
				guards = append(guards, ".lenNe "+lit.Value)
				continue
			}
			sel, ok := cond.X.(*ast.SelectorExpr)
			if !ok || sel.Sel.Name != "TypeID" {
				return nil, errf(cond, "unknown guard")
			}
			i, ok := argIndex(sel.X)
			if !ok {
				return nil, errf(cond, "unknown guard")
			}
			p, ok := selPath(cond.Y)
			if !ok || len(p) != 2 || p[0] != "octosql" {
				return nil, errf(cond, "unknown guard")
			}
			id, ok := typeIDs[p[1]]
			if !ok {
				return nil, errf(cond, "unknown TypeID constant %s", p[1])
			}
			guards = append(guards, fmt.Sprintf(".typeIdNe %d %d", i, id))
		case *ast.UnaryExpr:
			if cond.Op != token.NOT {
				return nil, errf(cond, "unknown guard")
			}
			call, ok := cond.X.(*ast.CallExpr)
			if !ok || len(call.Args) != 1 {
				return nil, errf(cond, "unknown guard")
			}
			sel, ok := call.Fun.(*ast.SelectorExpr)
			if !ok || sel.Sel.Name != "Equals" {
				return nil, errf(cond, "unknown guard")
			}
			i, ok1 := argIndex(sel.X)
			j, ok2 := argIndex(call.Args[0])
			if !ok1 || !ok2 {
				return nil, errf(cond, "unknown guard")
			}
			guards = append(guards, fmt.Sprintf(".notEquals %d %d", i, j))
		default:
			return nil, errf(is.Cond, "unknown guard")
		}
	}
	return guards, nil
}

// typeFnsOfSource: function name -> per descriptor index the TypeFn guards (nil entry: no TypeFn)
func typeFnsOfSource(repoDir string) (map[string][]*[]string, error) {
	fset := token.NewFileSet()
	tf, err := parser.ParseFile(fset, filepath.Join(repoDir, "octosql", "types.go"), nil, 0)
	if err != nil {
		return nil, err
	}
	idNames, err := iotaBlock(tf, "TypeID")
	if err != nil {
		return nil, err
	}
	typeIDs := map[string]int{}
	for i, n := range idNames {
		typeIDs[n] = i
	}
	f, err := parser.ParseFile(fset, filepath.Join(repoDir, "functions", "functions.go"), nil, 0)
	if err != nil {
		return nil, err
	}
	var fd *ast.FuncDecl
	for _, d := range f.Decls {
		if x, ok := d.(*ast.FuncDecl); ok && x.Name.Name == "FunctionMap" && x.Recv == nil {
			fd = x
		}
	}
	if fd == nil || len(fd.Body.List) != 1 {
		return nil, fmt.Errorf("FunctionMap: expected a single return statement")
	}
	rt, ok := fd.Body.List[0].(*ast.ReturnStmt)
	if !ok || len(rt.Results) != 1 {
		return nil, fmt.Errorf("FunctionMap: expected a single return statement")
	}
	m, ok := rt.Results[0].(*ast.CompositeLit)
	if !ok {
		return nil, fmt.Errorf("FunctionMap: expected a map literal")
	}
	out := map[string][]*[]string{}
	for _, el := range m.Elts {
		kv, ok := el.(*ast.KeyValueExpr)
		if !ok {
			return nil, fmt.Errorf("FunctionMap: expected key: value at %s", fset.Position(el.Pos()))
		}
		kl, ok := kv.Key.(*ast.BasicLit)
		if !ok || kl.Kind != token.STRING {
			return nil, fmt.Errorf("FunctionMap: key is not a string literal at %s", fset.Position(el.Pos()))
		}
		name, err := strconv.Unquote(kl.Value)
		if err != nil {
			return nil, err
		}
		det, ok := kv.Value.(*ast.CompositeLit)
		if !ok {
			return nil, fmt.Errorf("FunctionMap[%q]: expected a FunctionDetails literal", name)
		}
		var descs *ast.CompositeLit
		for _, de := range det.Elts {
			dkv, ok := de.(*ast.KeyValueExpr)
			if !ok {
				return nil, fmt.Errorf("FunctionMap[%q]: expected keyed fields", name)
			}
			if k, ok := dkv.Key.(*ast.Ident); ok && k.Name == "Descriptors" {
				descs, _ = dkv.Value.(*ast.CompositeLit)
			}
		}
		if descs == nil {
			return nil, fmt.Errorf("FunctionMap[%q]: no Descriptors literal", name)
		}
		if _, dup := out[name]; dup {
			return nil, fmt.Errorf("FunctionMap[%q]: duplicate key", name)
		}
		var list []*[]string
		for _, de := range descs.Elts {
			dl, ok := de.(*ast.CompositeLit)
			if !ok {
				return nil, fmt.Errorf("FunctionMap[%q]: descriptor is not a literal", name)
			}
			var guards *[]string
			for _, fe := range dl.Elts {
				fkv, ok := fe.(*ast.KeyValueExpr)
				if !ok {
					return nil, fmt.Errorf("FunctionMap[%q]: expected keyed descriptor fields", name)
				}
				if k, ok := fkv.Key.(*ast.Ident); ok && k.Name == "TypeFn" {
					fl, ok := fkv.Value.(*ast.FuncLit)
					if !ok {
						return nil, fmt.Errorf("FunctionMap[%q]: TypeFn is not a function literal", name)
					}
					g, err := typeFnGuards(fset, fl, typeIDs)
					if err != nil {
						return nil, fmt.Errorf("FunctionMap[%q]: %w", name, err)
					}
					if g == nil {
						g = []string{}
					}
					guards = &g
				}
			}
			list = append(list, guards)
		}
		out[name] = list
	}
	return out, nil
}

func extractWireFunctions(repoDir string) (string, error) {
	src, err := typeFnsOfSource(repoDir)
	if err != nil {
		return "", err
	}
	fm := funcs26()
	if len(src) != len(fm) {
		return "", fmt.Errorf("FunctionMap: %d functions in the source, %d in the linked package", len(src), len(fm))
	}
	var sb strings.Builder
	sb.WriteString("import Octo.Model.WireTable\n/-! GENERATED by `vh extract wire` from functions/functions.go (FunctionMap: reflection over the linked package for\n" +
		"    ArgumentTypes / OutputType / Strict, the source for the guards of each TypeFn) — do not edit. -/\n")
	sb.WriteString("namespace Octo.Gen.WireFunctions\nopen Octo Octo.Wire\n\ndef table : List FnEntry := [\n")
	names := c26FunctionNames()
	for ni, name := range names {
		ds := fm[name].Descriptors
		gs, ok := src[name]
		if !ok || len(gs) != len(ds) {
			return "", fmt.Errorf("FunctionMap[%q]: %d descriptors in the source, %d in the linked package", name, len(gs), len(ds))
		}
		fmt.Fprintf(&sb, "  { name := %s  -- %q\n    descs := [\n", leanNat([]byte(name)), name)
		for i, d := range ds {
			if (d.TypeFn != nil) != (gs[i] != nil) {
				return "", fmt.Errorf("FunctionMap[%q][%d]: TypeFn presence differs between source and linked package", name, i)
			}
			args := make([]string, len(d.ArgumentTypes))
			for j := range args {
				if args[j], err = leanTy26(d.ArgumentTypes[j]); err != nil {
					return "", err
				}
			}
			o, err := leanTy26(d.OutputType)
			if err != nil {
				return "", err
			}
			tf := "none"
			if gs[i] != nil {
				tf = "some [" + strings.Join(*gs[i], ", ") + "]"
			}
			sep := ","
			if i == len(ds)-1 {
				sep = ""
			}
			fmt.Fprintf(&sb, "      { args := [%s], out := %s, strict := %v, typeFn := %s }%s\n", strings.Join(args, ", "), o, d.Strict, tf, sep)
		}
		sep := ","
		if ni == len(names)-1 {
			sep = ""
		}
		sb.WriteString("    ] }" + sep + "\n")
	}
	sb.WriteString("]\n\nend Octo.Gen.WireFunctions\n")
	return sb.String(), nil
}

func extractWire(repoDir, outDir string) error {
	tables, err := extractWireTables(repoDir)
	if err != nil {
		return err
	}
	fns, err := extractWireFunctions(repoDir)
	if err != nil {
		return err
	}
	if err := os.MkdirAll(outDir, 0o755); err != nil {
		return err
	}
	if err := os.WriteFile(filepath.Join(outDir, "Wire.lean"), []byte(tables), 0o644); err != nil {
		return err
	}
	return os.WriteFile(filepath.Join(outDir, "WireFunctions.lean"), []byte(fns), 0o644)
}
