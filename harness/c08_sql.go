package main

// C08 at the level the property is worded: whole queries through the REAL `octosql` binary.
//
//   qry <ntables> (<file stem> <ncols> <col name>… <nrows> <cell>…)… SQL <hex of the query text>
//
// The tables are written as CSV files, the query is run twice: `--describe -o json` (the column types octosql REPORTS) and
// `-o json` (the rows it PRODUCES).  Output:
//
//   <ncols> (x<name hex> <type>)… | <row> ; <row> ; …      row = one JSON cell per column:
//                                                            n | b0 | b1 | i<dec> | f<16 hex> | s<hex> | L<k> cell… | J (an object)
//   <ncols> … | err        the query was typed but failed at run time;      err = it was refused
//
// The Lean oracle checks every cell against the reported column type (as far as JSON text allows: a number without a
// fraction may be an Int or a Float, a string may be a String, a Time or a Duration).  The Lean MODEL does not cover whole
// queries: these lines are oracle-only (the correspondence is skipped for them, see checks/props/C08.py).

import (
	"bytes"
	"encoding/hex"
	"encoding/json"
	"fmt"
	"math"
	"os"
	"path/filepath"
	"strconv"
	"strings"

	"github.com/cube2222/octosql/octosql"
)

// ---------- parser of Type.String()

type typeParser struct {
	s   string
	pos int
}

func (p *typeParser) peek(lit string) bool { return strings.HasPrefix(p.s[p.pos:], lit) }
func (p *typeParser) eat(lit string) bool {
	if p.peek(lit) {
		p.pos += len(lit)
		return true
	}
	return false
}

func (p *typeParser) union() (octosql.Type, error) {
	first, err := p.alt()
	if err != nil {
		return first, err
	}
	alts := []octosql.Type{first}
	for p.eat(" | ") {
		a, err := p.alt()
		if err != nil {
			return a, err
		}
		alts = append(alts, a)
	}
	if len(alts) == 1 {
		return first, nil
	}
	return octosql.Type{TypeID: octosql.TypeIDUnion, Union: struct{ Alternatives []octosql.Type }{Alternatives: alts}}, nil
}

func (p *typeParser) alt() (octosql.Type, error) {
	for _, c := range []struct {
		lit string
		t   octosql.Type
	}{{"NULL", octosql.Null}, {"Int", octosql.Int}, {"Float", octosql.Float}, {"Boolean", octosql.Boolean}, {"String", octosql.String},
		{"Time", octosql.Time}, {"Duration", octosql.Duration}, {"Any", octosql.Any}} {
		if p.eat(c.lit) {
			return c.t, nil
		}
	}
	switch {
	case p.eat("[]"):
		return octosql.Type{TypeID: octosql.TypeIDList}, nil
	case p.eat("["):
		e, err := p.union()
		if err != nil {
			return e, err
		}
		if !p.eat("]") {
			return e, fmt.Errorf("expected ] at %d", p.pos)
		}
		return octosql.Type{TypeID: octosql.TypeIDList, List: struct{ Element *octosql.Type }{Element: &e}}, nil
	case p.eat("{"):
		var fields []octosql.StructField
		if !p.eat("}") {
			for {
				i := strings.Index(p.s[p.pos:], ": ")
				if i < 0 {
					return octosql.Type{}, fmt.Errorf("expected field name at %d", p.pos)
				}
				name := p.s[p.pos : p.pos+i]
				p.pos += i + 2
				t, err := p.union()
				if err != nil {
					return t, err
				}
				fields = append(fields, octosql.StructField{Name: name, Type: t})
				if p.eat("}") {
					break
				}
				if !p.eat("; ") {
					return octosql.Type{}, fmt.Errorf("expected ; at %d", p.pos)
				}
			}
		}
		return octosql.Type{TypeID: octosql.TypeIDStruct, Struct: struct{ Fields []octosql.StructField }{Fields: fields}}, nil
	case p.eat("("):
		var elems []octosql.Type
		if !p.eat(")") {
			for {
				t, err := p.union()
				if err != nil {
					return t, err
				}
				elems = append(elems, t)
				if p.eat(")") {
					break
				}
				if !p.eat(", ") {
					return octosql.Type{}, fmt.Errorf("expected , at %d", p.pos)
				}
			}
		}
		return octosql.Type{TypeID: octosql.TypeIDTuple, Tuple: struct{ Elements []octosql.Type }{Elements: elems}}, nil
	}
	return octosql.Type{}, fmt.Errorf("unknown type at %d in %q", p.pos, p.s)
}

func parseTypeString(s string) (octosql.Type, error) {
	p := &typeParser{s: s}
	t, err := p.union()
	if err != nil {
		return t, err
	}
	if p.pos != len(s) {
		return t, fmt.Errorf("trailing text at %d in %q", p.pos, s)
	}
	return t, nil
}

// ---------- JSON cells

func c08JSONCell(sb *strings.Builder, v interface{}) {
	switch x := v.(type) {
	case nil:
		sb.WriteString("n")
	case bool:
		if x {
			sb.WriteString("b1")
		} else {
			sb.WriteString("b0")
		}
	case json.Number:
		s := string(x)
		if !strings.ContainsAny(s, ".eE") {
			if i, err := strconv.ParseInt(s, 10, 64); err == nil {
				sb.WriteString("i" + strconv.FormatInt(i, 10))
				return
			}
		}
		f, _ := strconv.ParseFloat(s, 64)
		sb.WriteString(fmt.Sprintf("f%016x", math.Float64bits(f)))
	case string:
		sb.WriteString("s" + hex.EncodeToString([]byte(x)))
	case []interface{}:
		sb.WriteString("L" + strconv.Itoa(len(x)))
		for _, e := range x {
			sb.WriteByte(' ')
			c08JSONCell(sb, e)
		}
	default:
		sb.WriteString("J")
	}
}

// ---------- the driver

type c08Table struct {
	stem  string
	names []string
	rows  [][]octosql.Value
}

func c08ParseQry(toks []string) (tables []c08Table, sql string) {
	n := c08Atoi(toks[1])
	rest := toks[2:]
	for i := 0; i < n; i++ {
		t := c08Table{stem: rest[0]}
		k := c08Atoi(rest[1])
		t.names = rest[2 : 2+k]
		m := c08Atoi(rest[2+k])
		rest = rest[3+k:]
		for r := 0; r < m; r++ {
			var row []octosql.Value
			row, rest = ParseValues(k, rest)
			t.rows = append(t.rows, row)
		}
		tables = append(tables, t)
	}
	if rest[0] != "SQL" {
		panic("qry: expected SQL")
	}
	b, err := hex.DecodeString(rest[1])
	if err != nil {
		panic(err)
	}
	return tables, string(b)
}

func driveC08Qry(toks []string) string {
	tables, sql := c08ParseQry(toks)
	dir := scratchDir("c08")
	defer os.RemoveAll(dir)
	for _, t := range tables {
		writeCSV(filepath.Join(dir, t.stem+".csv"), t.names, t.rows)
	}
	desc := runOctosql(dir, nil, sql, "--describe", "-o", "json")
	if desc.Exit != 0 {
		if desc.Panicked {
			return "panic"
		}
		return "err"
	}
	var names []string
	var head []string
	dec := json.NewDecoder(bytes.NewReader([]byte(desc.Stdout)))
	for dec.More() {
		var col struct {
			Name string `json:"name"`
			Type string `json:"type"`
		}
		if err := dec.Decode(&col); err != nil {
			return "err:describe-json"
		}
		t, err := parseTypeString(col.Type)
		if err != nil {
			return "err:type-parse " + hex.EncodeToString([]byte(col.Type))
		}
		names = append(names, col.Name)
		head = append(head, c08Hex(col.Name)+" "+EncodeType(t))
	}
	out := strconv.Itoa(len(names)) + " " + strings.Join(head, " ") + " | "
	run := runOctosql(dir, nil, sql, "-o", "json")
	if run.Exit != 0 {
		if run.Panicked {
			return out + "panic"
		}
		return out + "err"
	}
	var rows []string
	rdec := json.NewDecoder(bytes.NewReader([]byte(run.Stdout)))
	rdec.UseNumber()
	for rdec.More() {
		var rec map[string]interface{}
		if err := rdec.Decode(&rec); err != nil {
			return out + "err:row-json"
		}
		var sb strings.Builder
		for i, n := range names {
			if i > 0 {
				sb.WriteByte(' ')
			}
			v, ok := rec[n]
			if !ok {
				sb.WriteString("missing")
				continue
			}
			c08JSONCell(&sb, v)
		}
		rows = append(rows, sb.String())
	}
	if len(rows) == 0 {
		return out + "none"
	}
	return out + strings.Join(rows, " ; ")
}

// ---------- generator

type c08Col struct {
	name string
	kind byte // i f s m(ixed Int|String)
	null bool
}

var c08TabT = []c08Col{{"k", 'i', false}, {"a", 'i', true}, {"b", 's', true}, {"c", 'f', true}, {"d", 'm', true}}
var c08TabU = []c08Col{{"k", 'i', false}, {"e", 'i', true}, {"f", 's', true}, {"g", 'f', false}}

func c08GenCell(g *Gen, c c08Col) octosql.Value {
	if c.null && g.Chance(1, 3) {
		return octosql.NewNull()
	}
	switch c.kind {
	case 'i':
		return octosql.NewInt(int64(g.Intn(5)))
	case 'f':
		return octosql.NewFloat(Pick(g, []float64{0.5, 1.5, 2.25, -1.75, 100.125}))
	case 's':
		return octosql.NewString(Pick(g, []string{"x", "xa", "y", "12", "q z"}))
	default:
		if g.Bool() {
			return octosql.NewInt(int64(g.Intn(4)))
		}
		return octosql.NewString(Pick(g, []string{"x", "w", "7"}))
	}
}

func c08GenTable(g *Gen, stem string, cols []c08Col) (string, c08Table) {
	t := c08Table{stem: stem}
	for _, c := range cols {
		t.names = append(t.names, c.name)
	}
	n := 1 + g.Intn(5)
	var sb strings.Builder
	fmt.Fprintf(&sb, "%s %d %s %d", stem, len(cols), strings.Join(t.names, " "), n)
	for r := 0; r < n; r++ {
		for _, c := range cols {
			v := c08GenCell(g, c)
			if c.name == "k" {
				v = octosql.NewInt(int64(g.Intn(3)))
			}
			sb.WriteString(" " + EncodeValue(v))
		}
	}
	return sb.String(), t
}

// c08SQLExpr: a SQL expression over the columns of alias `al` (table t or u)
func c08SQLExpr(g *Gen, al string, cols []c08Col, depth int) string {
	col := func(kinds string) string {
		var cs []string
		for _, c := range cols {
			if strings.IndexByte(kinds, c.kind) >= 0 {
				cs = append(cs, al+"."+c.name)
			}
		}
		if len(cs) == 0 {
			return al + ".k"
		}
		return Pick(g, cs)
	}
	sub := func() string {
		if depth <= 0 {
			return col("ifsm")
		}
		return c08SQLExpr(g, al, cols, depth-1)
	}
	intE := func() string {
		switch g.Intn(9) {
		case 0:
			return col("i") + " + 1"
		case 1:
			return col("i") + " * " + col("i")
		case 2:
			return "len(" + col("s") + ")"
		case 3:
			return "COALESCE(" + col("i") + ", 0)"
		case 4:
			return col("m") + "::int"
		case 5:
			return "abs(" + col("i") + ")"
		case 6:
			return "int(" + col("sf") + ")"
		case 7:
			return "position(" + col("s") + ", 'x')"
		}
		return col("i")
	}
	boolE := func() string {
		switch g.Intn(8) {
		case 0:
			return col("i") + " > 1"
		case 1:
			return col("s") + " = 'x'"
		case 2:
			return col("ifsm") + " IS NULL"
		case 3:
			return col("ifsm") + " IS NOT NULL"
		case 4:
			return col("i") + " IN (1, 2)"
		case 5:
			return col("s") + " LIKE 'x%'"
		case 6:
			return col("f") + " < 1.0"
		}
		return col("i") + " <= " + col("i")
	}
	switch g.Intn(14) {
	case 0, 1:
		return intE()
	case 2, 3:
		return boolE()
	case 4:
		return "(" + boolE() + " AND " + boolE() + ")"
	case 5:
		return "(" + boolE() + " OR " + boolE() + ")"
	case 6:
		return "NOT (" + boolE() + ")"
	case 7:
		return Pick(g, []string{"upper(" + col("s") + ")", col("s") + " + 'x'", "COALESCE(" + col("s") + ", 'q')", col("m") + "::string",
			"substr(" + col("s") + ", 0, 1)", "string(" + col("ifsm") + ")"})
	case 8:
		return Pick(g, []string{col("f") + " * 2.0", "float(" + col("i") + ")", "COALESCE(" + col("f") + ", 0.5)", "floor(" + col("f") + ")",
			"float(" + col("s") + ")"})
	case 9:
		return "(" + sub() + ", " + col("ifsm") + ")"
	case 10:
		return "COALESCE(" + col("ifsm") + ", " + col("ifsm") + ")"
	case 11:
		return "COALESCE(" + sub() + ", NULL)"
	case 12:
		return col("m")
	}
	return col("ifsm")
}

func c08GenQuery(g *Gen) string {
	sel := func(al string, cols []c08Col, k int, first int) string {
		var parts []string
		for i := 0; i < k; i++ {
			parts = append(parts, c08SQLExpr(g, al, cols, 1)+" AS x"+strconv.Itoa(first+i))
		}
		return strings.Join(parts, ", ")
	}
	where := func(al string) string {
		if g.Chance(1, 3) {
			return " WHERE " + Pick(g, []string{al + ".k > 0", al + ".k < 2", al + ".k = 1"})
		}
		return ""
	}
	switch g.Intn(10) {
	case 0, 1, 2:
		return "SELECT " + sel("t", c08TabT, 1+g.Intn(4), 0) + " FROM t.csv t" + where("t")
	case 3, 4:
		aggs := []string{"SUM(t.a)", "COUNT(t.b)", "COUNT(t.d)", "MAX(t.c)", "MIN(t.a)", "AVG(t.a)", "AVG(t.c)", "array_agg(t.d)", "array_agg(t.b)",
			"SUM(t.c)", "MAX(t.a)", "SUM(DISTINCT t.a)", "COUNT(DISTINCT t.b)", "MIN(t.c)", "SUM(t.d)", "MAX(t.d)"}
		k := 1 + g.Intn(3)
		var parts []string
		for i := 0; i < k; i++ {
			parts = append(parts, Pick(g, aggs)+" AS x"+strconv.Itoa(i+1))
		}
		if g.Chance(1, 4) {
			return "SELECT " + strings.Join(parts, ", ") + " FROM t.csv t" + where("t")
		}
		return "SELECT t.k AS x0, " + strings.Join(parts, ", ") + " FROM t.csv t" + where("t") + " GROUP BY t.k"
	case 5, 6:
		kind := Pick(g, []string{"LEFT JOIN", "RIGHT JOIN", "OUTER JOIN", "JOIN", "OUTER JOIN"})
		// the never-NULL columns of both sides too (t.k, u.k, u.g) and strict functions of them: what an outer join pads
		// with NULL must be reported nullable, on either side, and functions of it must turn NULL
		pad := ""
		if g.Chance(2, 3) {
			pad = ", t.k AS x8, u.k AS x9, u.g AS x10, t.k + 1 AS x11, u.k * 2 AS x12, u.g + 0.5 AS x13"
		}
		on := Pick(g, []string{"t.k = u.k", "t.k = u.k", "t.k = u.k + 1", "t.k + 1 = u.k", "t.k = u.e"})
		q := "SELECT " + sel("t", c08TabT, 1+g.Intn(2), 0) + ", " + sel("u", c08TabU, 1+g.Intn(2), 4) + pad + " FROM t.csv t " + kind +
			" u.csv u ON " + on
		if g.Chance(1, 4) {
			// a join over an outer join: the padded columns keep their nullable types through the upper join
			kind2 := Pick(g, []string{"JOIN", "LEFT JOIN", "RIGHT JOIN", "OUTER JOIN"})
			q = "SELECT q.x8 AS x0, q.x9 AS x1, q.x8 + q.x9 AS x2, w.k AS x3, w.k - 1 AS x4 FROM (SELECT t.k AS x8, u.k AS x9 FROM t.csv t " + kind +
				" u.csv u ON " + on + ") q " + kind2 + " t.csv w ON w.k = COALESCE(q.x8, q.x9)"
		}
		return q
	case 7:
		return "SELECT t.k AS x0, (SELECT " + Pick(g, []string{"u.e", "u.f", "u.g", "u.e + 1"}) + " FROM u.csv u WHERE u.k = t.k) AS x1, " +
			sel("t", c08TabT, 1, 2) + " FROM t.csv t"
	case 8:
		return "SELECT " + sel("q", []c08Col{{"x0", 'i', true}, {"x1", 's', true}}, 1+g.Intn(2), 5) +
			" FROM (SELECT COALESCE(t.a, t.k) AS x0, t.b AS x1 FROM t.csv t" + where("t") + ") q"
	}
	return "SELECT DISTINCT " + sel("t", c08TabT, 1+g.Intn(2), 0) + " FROM t.csv t ORDER BY x0 LIMIT " + strconv.Itoa(1+g.Intn(3))
}

func c08GenQryLine(g *Gen) string {
	ts, _ := c08GenTable(g, "t", c08TabT)
	us, _ := c08GenTable(g, "u", c08TabU)
	return "qry 2 " + ts + " " + us + " SQL " + hex.EncodeToString([]byte(c08GenQuery(g)))
}
