package main

// C26, fourth part: end to end through a real plugin process.
//
//   e2e <kinds> <nrows> <cell>… <sql hex>     -> same <n lines> | diff <native hex> <plugin hex> | err-both | unavailable
//
// The table (columns c0…, kinds i f s b, NULL cells allowed) is written as t.csv; the SQL text contains `@T` where the
// source goes. The REAL octosql binary runs the query twice:
//   native : @T = t.csv            (the CSV datasource inside octosql)
//   plugin : @T = tp.t             (database `tp` = the test plugin below, a separate process spoken to over gRPC:
//                                   executor.PluginExecutor.RunPlugin -> plugins.Run; GetTable, PushDownPredicates,
//                                   Materialize, Run with the schema / predicates / variable contexts / records on the wire)
// and the sorted output lines are compared.
//
// The test plugin is this very binary: when started as `VERIF_C26_PLUGIN=1 vh <socket>` (what the wrapper script in the
// scratch plugin directory does) it calls plugins.Run with a database that serves `<name>.csv` of $VERIF_C26_DATA through
// octosql's own CSV datasource, accepts EVERY predicate pushed down to it and evaluates them itself, on its side of the boundary.

import (
	"bufio"
	"context"
	"encoding/hex"
	"fmt"
	"os"
	"path/filepath"
	"sort"
	"strconv"
	"strings"
	"time"

	"github.com/cube2222/octosql/config"
	"github.com/cube2222/octosql/datasources/csv"
	"github.com/cube2222/octosql/execution"
	"github.com/cube2222/octosql/octosql"
	"github.com/cube2222/octosql/physical"
	"github.com/cube2222/octosql/plugins"
)

func init() {
	if os.Getenv("VERIF_C26_PLUGIN") == "1" && len(os.Args) == 2 {
		runTestPlugin26()
		os.Exit(0)
	}
}

// ---------- the test plugin

type tpDB struct{}

// the file datasources read their buffer sizes from a configuration carried by the context (octosql's defaults)
func tpCtx(ctx context.Context) context.Context {
	return config.ContextWithConfig(ctx, &config.Config{Files: config.FilesConfig{
		JSON: config.JSONConfig{MaxLineSizeBytes: 1024 * 1024}, BufferSizeBytes: 4096 * 1024}})
}

func (tpDB) ListTables(ctx context.Context) ([]string, error) { return nil, nil }

func (tpDB) GetTable(ctx context.Context, name string, options map[string]string) (physical.DatasourceImplementation, physical.Schema, error) {
	path := filepath.Join(os.Getenv("VERIF_C26_DATA"), name+".csv")
	inner, schema, err := csv.Creator(',')(tpCtx(ctx), path, options)
	if err != nil {
		return nil, physical.Schema{}, err
	}
	return &tpImpl{inner: inner, full: schema}, schema, nil
}

type tpImpl struct {
	inner physical.DatasourceImplementation
	full  physical.Schema
}

func (t *tpImpl) PushDownPredicates(newPredicates, pushedDownPredicates []physical.Expression) (rejected, pushedDown []physical.Expression, changed bool) {
	return nil, append(append([]physical.Expression{}, pushedDownPredicates...), newPredicates...), len(newPredicates) > 0
}

func (t *tpImpl) Materialize(ctx context.Context, env physical.Environment, schema physical.Schema, pushedDownPredicates []physical.Expression) (execution.Node, error) {
	src, err := t.inner.Materialize(ctx, env, t.full, nil)
	if err != nil {
		return nil, err
	}
	recEnv := env.WithRecordSchema(t.full)
	preds := make([]execution.Expression, len(pushedDownPredicates))
	for i := range pushedDownPredicates {
		if preds[i], err = pushedDownPredicates[i].Materialize(ctx, recEnv); err != nil {
			return nil, err
		}
	}
	idx := make([]int, len(schema.Fields))
	for i, f := range schema.Fields {
		idx[i] = -1
		for j, g := range t.full.Fields {
			if g.Name == f.Name {
				idx[i] = j
			}
		}
		if idx[i] < 0 {
			return nil, fmt.Errorf("test plugin: unknown field %q", f.Name)
		}
	}
	return &tpNode{src: src, preds: preds, idx: idx}, nil
}

type tpNode struct {
	src   execution.Node
	preds []execution.Expression
	idx   []int
}

func (n *tpNode) Run(ctx execution.ExecutionContext, produce execution.ProduceFn, metaSend execution.MetaSendFn) error {
	ctx.Context = tpCtx(ctx.Context)
	return n.src.Run(ctx, func(pctx execution.ProduceContext, rec execution.Record) error {
		rctx := ctx.WithRecord(rec)
		for _, p := range n.preds {
			ok, err := p.Evaluate(rctx)
			if err != nil {
				return fmt.Errorf("couldn't evaluate condition: %w", err)
			}
			if !(ok.TypeID == octosql.TypeIDBoolean && ok.Boolean) {
				return nil
			}
		}
		vals := make([]octosql.Value, len(n.idx))
		for i, j := range n.idx {
			vals[i] = rec.Values[j]
		}
		return produce(pctx, execution.Record{Values: vals, Retraction: rec.Retraction, EventTime: rec.EventTime})
	}, metaSend)
}

func runTestPlugin26() {
	// never outlive the octosql process that started us
	ppid := os.Getppid()
	go func() {
		for {
			time.Sleep(200 * time.Millisecond)
			if os.Getppid() != ppid {
				os.Exit(0)
			}
		}
	}()
	plugins.Run(func(ctx context.Context, configDecoder plugins.ConfigDecoder) (physical.Database, error) {
		return tpDB{}, nil
	})
}

// ---------- the op

var e2ePluginDir string

// e2eSetup creates (once per driver process) a plugin directory holding the wrapper script of the test plugin.
func e2eSetup() (string, error) {
	if e2ePluginDir != "" {
		return e2ePluginDir, nil
	}
	self, err := os.Executable()
	if err != nil {
		return "", err
	}
	dir := filepath.Join(buildDir(), "run", "c26plugins", strconv.Itoa(os.Getpid()))
	bin := filepath.Join(dir, "verif", "octosql-plugin-tp", "0.1.0")
	if err := os.MkdirAll(bin, 0o755); err != nil {
		return "", err
	}
	script := "#!/bin/sh\nVERIF_C26_PLUGIN=1 exec \"" + self + "\" \"$@\"\n"
	if err := os.WriteFile(filepath.Join(bin, "octosql-plugin-tp"), []byte(script), 0o755); err != nil {
		return "", err
	}
	e2ePluginDir = dir
	return dir, nil
}

func sortedLines(s string) string {
	lines := strings.Split(strings.TrimRight(s, "\n"), "\n")
	sort.Strings(lines)
	return strings.Join(lines, "\n")
}

func driveC26e2e(toks []string) string {
	if _, err := os.Stat(octosqlBin()); err != nil {
		return "unavailable"
	}
	kinds := toks[1]
	nrows, err := strconv.Atoi(toks[2])
	if err != nil {
		panic(err)
	}
	r := toks[3:]
	names := make([]string, len(kinds))
	for i := range names {
		names[i] = "c" + strconv.Itoa(i)
	}
	rows := make([][]octosql.Value, nrows)
	for i := range rows {
		rows[i], r = ParseValues(len(kinds), r)
	}
	sqlb, err := hex.DecodeString(r[0])
	if err != nil {
		panic(err)
	}
	sql := string(sqlb)
	pdir, err := e2eSetup()
	if err != nil {
		return "unavailable"
	}
	dir := scratchDir("c26e2e")
	defer os.RemoveAll(dir)
	writeCSV(filepath.Join(dir, "t.csv"), names, rows)
	os.Setenv("OCTOSQL_PLUGIN_DIR", pdir)
	// unix socket paths are limited to ~100 bytes: the sockets live in a short directory of their own
	sock, err := os.MkdirTemp("", "c26p")
	if err != nil {
		return "unavailable"
	}
	defer os.RemoveAll(sock)
	os.Setenv("OCTOSQL_PLUGIN_TMP_DIR", sock)
	os.Setenv("VERIF_C26_DATA", dir)
	run := func(src string) (string, bool) {
		res := runOctosql(dir, nil, strings.ReplaceAll(sql, "@T", src), "--output", "json")
		if res.Panicked {
			return "panic", false
		}
		if res.TimedOut {
			return "timeout", false
		}
		if res.Exit != 0 {
			return "err", false
		}
		return sortedLines(res.Stdout), true
	}
	native, okN := run("t.csv")
	plugin, okP := run("tp.t")
	if !okN && !okP && native == plugin {
		return "err-both " + native
	}
	if native == plugin {
		return "same " + strconv.Itoa(strings.Count(native, "\n")+1)
	}
	return "diff " + hex.EncodeToString([]byte(native)) + " " + hex.EncodeToString([]byte(plugin))
}

// ---------- generator

func e2eLine(t qtable, sql string) string {
	var sb strings.Builder
	kinds := make([]byte, len(t.cols))
	for i, c := range t.cols {
		kinds[i] = c.kind
	}
	fmt.Fprintf(&sb, "e2e %s %d", string(kinds), len(t.rows))
	for _, row := range t.rows {
		for _, v := range row {
			sb.WriteString(" " + EncodeValue(v))
		}
	}
	sb.WriteString(" " + hex.EncodeToString([]byte(sql)))
	return sb.String()
}

// e2ePred: a WHERE clause over the columns (alias x), rich in what the plugin must evaluate itself
func e2ePred(g *Gen, cols []qcol, depth int) string {
	col := func(kind byte) (string, bool) {
		idx := colsOfKind(cols, kind)
		if len(idx) == 0 {
			return "", false
		}
		return "x." + cols[Pick(g, idx)].name, true
	}
	if depth > 0 && g.Chance(1, 3) {
		op := Pick(g, []string{" AND ", " OR "})
		return "(" + e2ePred(g, cols, depth-1) + op + e2ePred(g, cols, depth-1) + ")"
	}
	if depth > 0 && g.Chance(1, 8) {
		return "(NOT " + e2ePred(g, cols, depth-1) + ")"
	}
	for try := 0; try < 10; try++ {
		switch g.Intn(12) {
		case 0, 1:
			if c, ok := col('i'); ok {
				return "(" + c + Pick(g, []string{" IN ", " NOT IN "}) + Pick(g, []string{"(1, 2)", "(0, 1, 2, 3)", "(-1, 3)", "(2)", "(1, 1)"}) + ")"
			}
		case 2:
			if c, ok := col('s'); ok {
				return "(" + c + Pick(g, []string{" IN ", " NOT IN "}) + Pick(g, []string{"('x', 'xa')", "('q')", "('Xa', 'xb', 'zz')"}) + ")"
			}
		case 3:
			if c, ok := col('s'); ok {
				return "(len(" + c + ") " + Pick(g, []string{"=", ">", "<"}) + " " + strconv.Itoa(1+g.Intn(2)) + ")"
			}
		case 4:
			if c, ok := col('s'); ok {
				return "(" + c + " LIKE '" + Pick(g, []string{"x%", "%a", "_a", "x_", "%"}) + "')"
			}
		case 5:
			if c, ok := col('i'); ok {
				return "(" + c + " " + Pick(g, []string{"+", "-", "*"}) + " " + strconv.Itoa(g.Intn(3)) + " " + Pick(g, []string{"<", "<=", "=", "!=", ">", ">="}) + " " + strconv.Itoa(g.Intn(4)-1) + ")"
			}
		case 6:
			if c, ok := col('f'); ok {
				return "(" + c + " " + Pick(g, []string{"<", "<=", "=", "!=", ">", ">="}) + " " + Pick(g, []string{"0.25", "1.0", "-1.5", "2.5"}) + ")"
			}
		case 7:
			if c, ok := col('b'); ok {
				return c
			}
		case 8:
			c := "x." + cols[g.Intn(len(cols))].name
			return "(" + c + Pick(g, []string{" IS NULL", " IS NOT NULL"}) + ")"
		case 9:
			if c, ok := col('s'); ok {
				return "(upper(" + c + ") = '" + Pick(g, []string{"X", "XA", "Q"}) + "')"
			}
		case 10:
			if c, ok := col('i'); ok {
				if d, ok := col('i'); ok {
					return "(" + c + " " + Pick(g, []string{"<", "=", ">="}) + " " + d + ")"
				}
			}
		case 11:
			if c, ok := col('f'); ok {
				return "(" + c + Pick(g, []string{" IN ", " NOT IN "}) + "(0.25, 1.0))"
			}
		}
	}
	return "(x.c0 IS NOT NULL)"
}

func genC26e2e(g *Gen, tier string, w *bufio.Writer) {
	n := 10
	if tier == "thorough" {
		n = 500
	}
	o := sqlGenOpts{fileFmt: "csv", simpleStr: true, maxRows: 8}
	// the repaired defect, literally: IN over a tuple must keep selecting rows
	fixed := qtable{cols: []qcol{{name: "c0", kind: 'i'}, {name: "c1", kind: 's'}},
		rows: [][]octosql.Value{{octosql.NewInt(1), octosql.NewString("x")}, {octosql.NewInt(2), octosql.NewString("xa")}, {octosql.NewInt(5), octosql.NewString("q")}}}
	fmt.Fprintln(w, e2eLine(fixed, "SELECT * FROM @T x WHERE x.c0 IN (1, 2, 3)"))
	fmt.Fprintln(w, e2eLine(fixed, "SELECT * FROM @T x WHERE x.c0 NOT IN (1, 2, 3)"))
	fmt.Fprintln(w, e2eLine(fixed, "SELECT x.c1 FROM @T x WHERE x.c0 IN (1, 5) AND len(x.c1) = 1"))
	fmt.Fprintln(w, e2eLine(fixed, "SELECT * FROM @T x"))
	// predicates that mention variables of an outer record: the plugin receives the outer variable contexts
	fmt.Fprintln(w, e2eLine(fixed, "SELECT a.c0, (SELECT x.c1 FROM @T x WHERE x.c0 = a.c0) AS s FROM t.csv a"))
	fmt.Fprintln(w, e2eLine(fixed, "SELECT * FROM t.csv a LOOKUP JOIN @T x ON a.c0 = x.c0"))
	fmt.Fprintln(w, e2eLine(fixed, "SELECT a.c0 FROM t.csv a WHERE a.c0 IN (SELECT x.c0 FROM @T x WHERE x.c1 = a.c1)"))
	// a predicate with a subquery cannot be serialised: it must stay on the octosql side, not get lost
	fmt.Fprintln(w, e2eLine(fixed, "SELECT * FROM @T x WHERE x.c0 IN (SELECT y.c0 FROM t.csv y WHERE y.c1 = 'x') AND len(x.c1) = 1"))
	// a call the plugin cannot resolve (`len()` passes the typechecker's second loop): the predicate must come back as
	// rejected next to the one that is pushed down — here both runs then fail the same way, a lost predicate would not
	fmt.Fprintln(w, e2eLine(fixed, "SELECT * FROM @T x WHERE len() = 1 AND x.c0 = 1"))
	for i := 0; i < n; i++ {
		t := genQTable(g, o)
		p := e2ePred(g, t.cols, 2)
		sel := "*"
		if g.Chance(1, 3) {
			sel = "x." + t.cols[g.Intn(len(t.cols))].name
		}
		k := "c" + strconv.Itoa(g.Intn(len(t.cols)))
		switch g.Intn(7) {
		case 6:
			fmt.Fprintln(w, e2eLine(t, "SELECT * FROM @T x WHERE x."+k+" IN (SELECT y."+k+" FROM t.csv y WHERE "+strings.ReplaceAll(p, "x.", "y.")+") AND "+e2ePred(g, t.cols, 1)))
		case 0:
			fmt.Fprintln(w, e2eLine(t, "SELECT a.c0, (SELECT x.c0 FROM @T x WHERE x."+k+" = a."+k+" AND "+p+") AS s FROM t.csv a"))
		case 1:
			fmt.Fprintln(w, e2eLine(t, "SELECT * FROM t.csv a LOOKUP JOIN @T x ON a."+k+" = x."+k))
		case 2:
			fmt.Fprintln(w, e2eLine(t, "SELECT * FROM t.csv a JOIN @T x ON a."+k+" = x."+k+" WHERE "+p))
		default:
			fmt.Fprintln(w, e2eLine(t, "SELECT "+sel+" FROM @T x WHERE "+p))
		}
	}
}
