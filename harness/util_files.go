package main

// Shared pieces of the file-datasource checks (C23, C24): a JSON-lines / CSV document model that travels on
// the op line, renderers that turn it into file bytes (escapes, quoting, whitespace chosen from a render seed
// that is part of the op line), and an in-process runner of the REAL datasources
// (Creator -> Materialize -> Run) over a file written under $VERIF_BUILD.

import (
	"context"
	"encoding/hex"
	"fmt"
	"os"
	"path/filepath"
	"strconv"
	"strings"
	"unicode/utf8"

	"github.com/cube2222/octosql/config"
	"github.com/cube2222/octosql/datasources/csv"
	"github.com/cube2222/octosql/datasources/json"
	"github.com/cube2222/octosql/datasources/lines"
	"github.com/cube2222/octosql/execution"
	"github.com/cube2222/octosql/octosql"
	"github.com/cube2222/octosql/physical"
)

// ---------------------------------------------------------------------------------------------------------
// JSON document model.  Token encoding (prefix, one value = one or more tokens):
//   jn | jt | jf | jd<16 hex float bits>:<hex of the literal text> | js<hex bytes> | jT<unixnano>:<hex bytes>
//   ja<k> v1 … vk | jo<k> x<keyhex> v1 … x<keyhex> vk
// jd: the bits are what strconv.ParseFloat gives for the literal (the number the row contains).
// jT: a string that time.Parse(RFC3339Nano) accepts, with the instant it denotes (library oracle, computed by gen).

type jkind int

const (
	jNull jkind = iota
	jTrue
	jFalse
	jNum
	jStr
	jTime
	jArr
	jObj
)

type jv struct {
	k    jkind
	bits uint64 // jNum
	text string // jNum literal, jStr / jTime bytes
	ns   int64  // jTime
	keys []string
	vals []*jv
}

func (v *jv) encode(sb *strings.Builder) {
	switch v.k {
	case jNull:
		sb.WriteString("jn")
	case jTrue:
		sb.WriteString("jt")
	case jFalse:
		sb.WriteString("jf")
	case jNum:
		fmt.Fprintf(sb, "jd%016x:%s", v.bits, hex.EncodeToString([]byte(v.text)))
	case jStr:
		sb.WriteString("js" + hex.EncodeToString([]byte(v.text)))
	case jTime:
		fmt.Fprintf(sb, "jT%d:%s", v.ns, hex.EncodeToString([]byte(v.text)))
	case jArr:
		fmt.Fprintf(sb, "ja%d", len(v.vals))
		for _, x := range v.vals {
			sb.WriteByte(' ')
			x.encode(sb)
		}
	case jObj:
		fmt.Fprintf(sb, "jo%d", len(v.vals))
		for i, x := range v.vals {
			sb.WriteString(" x" + hex.EncodeToString([]byte(v.keys[i])) + " ")
			x.encode(sb)
		}
	}
}

func unhex(s string) string {
	b, err := hex.DecodeString(s)
	if err != nil {
		panic("codec: bad hex " + s)
	}
	return string(b)
}

func parseJ(toks []string) (*jv, []string) {
	tok, rest := toks[0], toks[1:]
	if len(tok) < 2 || tok[0] != 'j' {
		panic("codec: bad json token " + tok)
	}
	body := tok[2:]
	switch tok[1] {
	case 'n':
		return &jv{k: jNull}, rest
	case 't':
		return &jv{k: jTrue}, rest
	case 'f':
		return &jv{k: jFalse}, rest
	case 'd':
		p := strings.SplitN(body, ":", 2)
		bits, _ := strconv.ParseUint(p[0], 16, 64)
		return &jv{k: jNum, bits: bits, text: unhex(p[1])}, rest
	case 's':
		return &jv{k: jStr, text: unhex(body)}, rest
	case 'T':
		p := strings.SplitN(body, ":", 2)
		ns, _ := strconv.ParseInt(p[0], 10, 64)
		return &jv{k: jTime, ns: ns, text: unhex(p[1])}, rest
	case 'a':
		k, _ := strconv.Atoi(body)
		out := &jv{k: jArr}
		for i := 0; i < k; i++ {
			var x *jv
			x, rest = parseJ(rest)
			out.vals = append(out.vals, x)
		}
		return out, rest
	case 'o':
		k, _ := strconv.Atoi(body)
		out := &jv{k: jObj}
		for i := 0; i < k; i++ {
			out.keys = append(out.keys, unhex(rest[0][1:]))
			var x *jv
			x, rest = parseJ(rest[1:])
			out.vals = append(out.vals, x)
		}
		return out, rest
	}
	panic("codec: bad json token " + tok)
}

// renderer: all choices from r (seeded by the op line's render seed)
type jrender struct {
	r  *Gen
	sb strings.Builder
}

func (jr *jrender) ws() {
	if jr.r.Chance(1, 6) {
		jr.sb.WriteString([]string{" ", "  ", "\t", " \t "}[jr.r.Intn(4)])
	}
}

func (jr *jrender) str(s string) {
	jr.sb.WriteByte('"')
	for len(s) > 0 {
		c, size := utf8.DecodeRuneInString(s)
		if c == utf8.RuneError && size == 1 {
			// raw invalid byte: passed through (fastjson does not validate UTF-8)
			jr.sb.WriteByte(s[0])
			s = s[1:]
			continue
		}
		s = s[size:]
		switch {
		case c == '"':
			jr.sb.WriteString(`\"`)
		case c == '\\':
			jr.sb.WriteString(`\\`)
		case c == '\n':
			jr.sb.WriteString(`\n`)
		case c == '\r':
			jr.sb.WriteString(`\r`)
		case c == '\t':
			jr.sb.WriteString(`\t`)
		case c == '\b':
			jr.sb.WriteString(`\b`)
		case c == '\f':
			jr.sb.WriteString(`\f`)
		case c < 0x20:
			fmt.Fprintf(&jr.sb, `\u%04x`, c)
		case c == '/' && jr.r.Chance(1, 2):
			jr.sb.WriteString(`\/`)
		case jr.r.Chance(1, 8):
			// \u escape (surrogate pair above the BMP); upper or lower case hex
			f := `\u%04x`
			if jr.r.Bool() {
				f = `\u%04X`
			}
			if c >= 0x10000 {
				c2 := c - 0x10000
				fmt.Fprintf(&jr.sb, f+f, 0xD800+(c2>>10), 0xDC00+(c2&0x3FF))
			} else {
				fmt.Fprintf(&jr.sb, f, c)
			}
		default:
			jr.sb.WriteRune(c)
		}
	}
	jr.sb.WriteByte('"')
}

func (jr *jrender) val(v *jv) {
	switch v.k {
	case jNull:
		jr.sb.WriteString("null")
	case jTrue:
		jr.sb.WriteString("true")
	case jFalse:
		jr.sb.WriteString("false")
	case jNum:
		jr.sb.WriteString(v.text)
	case jStr, jTime:
		jr.str(v.text)
	case jArr:
		jr.sb.WriteByte('[')
		for i, x := range v.vals {
			if i > 0 {
				jr.sb.WriteByte(',')
			}
			jr.ws()
			jr.val(x)
			jr.ws()
		}
		jr.sb.WriteByte(']')
	case jObj:
		jr.sb.WriteByte('{')
		for i, x := range v.vals {
			if i > 0 {
				jr.sb.WriteByte(',')
			}
			jr.ws()
			jr.str(v.keys[i])
			jr.ws()
			jr.sb.WriteByte(':')
			jr.ws()
			jr.val(x)
			jr.ws()
		}
		jr.sb.WriteByte('}')
	}
}

// renderJSONLines: one object per line; line terminator \n or \r\n, last line with or without terminator.
func renderJSONLines(seed uint64, rows []*jv) []byte {
	jr := &jrender{r: NewGen(seed)}
	eol := "\n"
	if jr.r.Chance(1, 5) {
		eol = "\r\n"
	}
	lastEol := !jr.r.Chance(1, 4)
	for i, row := range rows {
		jr.val(row)
		if i+1 < len(rows) || lastEol {
			jr.sb.WriteString(eol)
		}
	}
	return []byte(jr.sb.String())
}

// ---------------------------------------------------------------------------------------------------------
// CSV document model.  A cell token is  c<hex>/<pf>/<ff>/<tm>  where
//   pf = 16 hex digits of strconv.ParseFloat(s, 64) or '-' when it returns an error,
//   ff = the same for fastfloat.Parse,  tm = UnixNano of time.Parse(RFC3339Nano, s) or '-'
// (library oracles computed by the generator; the drivers of the real code ignore them).

type cell struct {
	s          string
	pf, ff, tm string
}

func (c cell) token() string {
	return "c" + hex.EncodeToString([]byte(c.s)) + "/" + c.pf + "/" + c.ff + "/" + c.tm
}

func parseCell(tok string) cell {
	p := strings.Split(tok[1:], "/")
	return cell{s: unhex(p[0]), pf: p[1], ff: p[2], tm: p[3]}
}

func csvField(r *Gen, s string, sep rune, onlyCell bool) string {
	need := strings.ContainsRune(s, sep) || strings.ContainsAny(s, "\"\n\r") || (onlyCell && s == "") ||
		(s != "" && (s[0] == ' ' || s[0] == '\t')) || s == `\.`
	if need || r.Chance(1, 6) {
		return `"` + strings.ReplaceAll(s, `"`, `""`) + `"`
	}
	return s
}

func renderCSV(seed uint64, sep rune, header []string, rows [][]string) []byte {
	r := NewGen(seed)
	var sb strings.Builder
	eol := "\n"
	if r.Chance(1, 5) {
		eol = "\r\n"
	}
	lastEol := !r.Chance(1, 4)
	var all [][]string
	if header != nil {
		all = append(all, header)
	}
	all = append(all, rows...)
	for i, row := range all {
		for j, c := range row {
			if j > 0 {
				sb.WriteRune(sep)
			}
			sb.WriteString(csvField(r, c, sep, len(row) == 1))
		}
		if i+1 < len(all) || lastEol {
			sb.WriteString(eol)
		}
	}
	return []byte(sb.String())
}

// ---------------------------------------------------------------------------------------------------------
// running the real datasources in-process

func fileCtx() context.Context {
	cfg := &config.Config{}
	cfg.Files.BufferSizeBytes = 4096 * 1024
	cfg.Files.JSON.MaxLineSizeBytes = 1024 * 1024
	return config.ContextWithConfig(context.Background(), cfg)
}

type dsCreator func(ctx context.Context, name string, options map[string]string) (physical.DatasourceImplementation, physical.Schema, error)

func creatorFor(format string) dsCreator {
	switch format {
	case "json":
		return json.Creator
	case "csv":
		return csv.Creator(',')
	case "tsv":
		return csv.Creator('\t')
	case "lines":
		return lines.Creator
	}
	panic("unknown format " + format)
}

type dsResult struct {
	stage  string // "" ok, "create", "materialize", "run"
	err    error
	schema physical.Schema
	recs   [][]octosql.Value
}

// runDatasource: Creator (schema inference) -> Materialize with the full inferred schema -> Run.
func runDatasource(format, path string, options map[string]string, keep func(physical.Schema) physical.Schema) dsResult {
	ctx := fileCtx()
	impl, schema, err := creatorFor(format)(ctx, path, options)
	if err != nil {
		return dsResult{stage: "create", err: err}
	}
	if keep != nil {
		schema = keep(schema)
	}
	node, err := impl.Materialize(ctx, physical.Environment{}, schema, nil)
	if err != nil {
		return dsResult{stage: "materialize", err: err, schema: schema}
	}
	res := dsResult{schema: schema}
	err = node.Run(execution.ExecutionContext{Context: ctx, VariableContext: nil},
		func(_ execution.ProduceContext, r execution.Record) error {
			if r.Retraction || !r.EventTime.IsZero() {
				return fmt.Errorf("verif: file datasource produced a retraction or an event time")
			}
			res.recs = append(res.recs, append([]octosql.Value(nil), r.Values...))
			return nil
		},
		func(_ execution.ProduceContext, m execution.MetadataMessage) error { return nil })
	if err != nil {
		res.stage, res.err = "run", err
	}
	return res
}

func encodeSchema(s physical.Schema) string {
	var sb strings.Builder
	fmt.Fprintf(&sb, "F%d", len(s.Fields))
	for _, f := range s.Fields {
		sb.WriteString(" x" + hex.EncodeToString([]byte(f.Name)) + " " + EncodeType(f.Type))
	}
	return sb.String()
}

// canonical output line:  ok F<k> x<name> <ty> … ; v… ; v… …     or   err:<stage> [F<k> …]
// (an error at run time still reports the schema; the records produced before the error are not part of the contract)
func (r dsResult) line() string {
	if r.err != nil {
		if r.stage == "create" {
			return "err:create"
		}
		return "err:" + r.stage + " " + encodeSchema(r.schema)
	}
	var sb strings.Builder
	sb.WriteString("ok " + encodeSchema(r.schema))
	for _, rec := range r.recs {
		sb.WriteString(" ;")
		if len(rec) > 0 {
			sb.WriteString(" " + EncodeValues(rec))
		}
	}
	return sb.String()
}

func writeScratch(tag, name string, data []byte) (dir, path string) {
	dir = scratchDir(tag)
	path = filepath.Join(dir, name)
	if err := os.WriteFile(path, data, 0o644); err != nil {
		panic(err)
	}
	return dir, path
}

func physicalEnv() physical.Environment { return physical.Environment{} }

func execCtx(ctx context.Context) execution.ExecutionContext {
	return execution.ExecutionContext{Context: ctx}
}

func produceInto(f func(vals []octosql.Value)) execution.ProduceFn {
	return func(_ execution.ProduceContext, r execution.Record) error {
		f(r.Values)
		return nil
	}
}

func noMeta(_ execution.ProduceContext, _ execution.MetadataMessage) error { return nil }
