package main

import (
	"bufio"
	"fmt"
	"strings"

	"github.com/cube2222/octosql/octosql"
)

func init() {
	register("C05", &prop{gen: genC05, drive: driveSel})
}

// genC05: every n in 0..K × multisets with duplicates × five output modes × {top-level, nested} × {ORDER BY, none}.
func genC05(g *Gen, tier string, w *bufio.Writer) {
	K := 5
	tables := 6
	if tier == "thorough" {
		K = 8
		tables = 60
	}
	for ti := 0; ti < tables; ti++ {
		// one or two columns, heavy duplicates
		ncols := 1 + g.Intn(2)
		t := qtable{}
		for i := 0; i < ncols; i++ {
			t.cols = append(t.cols, qcol{name: fmt.Sprintf("c%d", i), kind: 'i', nullable: i == 1})
		}
		nrows := 1 + g.Intn(K)
		for r := 0; r < nrows; r++ {
			row := make([]octosql.Value, ncols)
			for i := range row {
				if i == 1 && r > 0 && g.Chance(1, 4) {
					row[i] = octosql.NewNull()
				} else {
					row[i] = octosql.NewInt(int64(g.Intn(3)))
				}
			}
			t.rows = append(t.rows, row)
		}
		for n := 0; n <= K+1; n++ {
			for _, mode := range allModes {
				for _, nested := range []bool{false, true} {
					for _, order := range []int{0, 1, 2} { // none, ASC, DESC on c0
						ordTok, ordSQL := "O0", ""
						if order == 1 {
							ordTok, ordSQL = "O1 c0 asc", " ORDER BY c0 ASC"
						} else if order == 2 {
							ordTok, ordSQL = "O1 c0 desc", " ORDER BY c0 DESC"
						}
						inner := fmt.Sprintf("sel tbl - * D0 %s L%d", ordTok, n)
						innerSQL := fmt.Sprintf("SELECT * FROM t.csv q1%s LIMIT %d", ordSQL, n)
						q := qblockOut{tok: inner, sql: innerSQL, cols: t.cols}
						if nested {
							// the limited block is a subquery; the outer block only re-sorts (so the result is well defined)
							q = qblockOut{tok: "sel " + inner + " - * D0 O0 -", sql: "SELECT * FROM (" + innerSQL + ") q2", cols: t.cols}
						}
						fmt.Fprintln(w, selLine(mode, true, "csv", t, q))
					}
				}
			}
		}
	}
	// plus random nested shapes where every block has a LIMIT
	n := 300
	if tier == "thorough" {
		n = 5000
	}
	for i := 0; i < n; i++ {
		mode := Pick(g, allModes)
		o := sqlGenOpts{fileFmt: "csv", simpleStr: mode != "json" && mode != "csv", maxRows: 8, maxDepth: 3, forceLimit: true}
		t := genQTable(g, o)
		q := genQuery(g, o, t, "t.csv")
		fmt.Fprintln(w, selLine(mode, true, "csv", t, q))
	}
	_ = strings.Join
}
