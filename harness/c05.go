package main

import (
	"sort"
	"strconv"
	"os"
	"bufio"
	"fmt"
	"strings"

	"github.com/cube2222/octosql/octosql"
)

func init() {
	register("C05", &prop{gen: genC05, drive: driveC05})
}

// genC05: every n in 0..K × multisets with duplicates × five output modes × {top-level, nested} × {ORDER BY, none}.
func genC05(g *Gen, tier string, w *bufio.Writer) {
	K := 5
	tables := 6
	if tier == "thorough" {
		K = 8
		tables = 60
	}
	for ti := 0; ti < tables; ti++ {
		// one or two columns, heavy duplicates
		ncols := 1 + g.Intn(2)
		t := qtable{}
		for i := 0; i < ncols; i++ {
			t.cols = append(t.cols, qcol{name: fmt.Sprintf("c%d", i), kind: 'i', nullable: i == 1})
		}
		nrows := 1 + g.Intn(K)
		for r := 0; r < nrows; r++ {
			row := make([]octosql.Value, ncols)
			for i := range row {
				if i == 1 && r > 0 && g.Chance(1, 4) {
					row[i] = octosql.NewNull()
				} else {
					row[i] = octosql.NewInt(int64(g.Intn(3)))
				}
			}
			t.rows = append(t.rows, row)
		}
		for n := 0; n <= K+1; n++ {
			for _, mode := range allModes {
				for _, nested := range []bool{false, true} {
					for _, order := range []int{0, 1, 2} { // none, ASC, DESC on c0
						ordTok, ordSQL := "O0", ""
						if order == 1 {
							ordTok, ordSQL = "O1 c0 asc", " ORDER BY c0 ASC"
						} else if order == 2 {
							ordTok, ordSQL = "O1 c0 desc", " ORDER BY c0 DESC"
						}
						inner := fmt.Sprintf("sel tbl - * D0 %s L%d", ordTok, n)
						innerSQL := fmt.Sprintf("SELECT * FROM t.csv q1%s LIMIT %d", ordSQL, n)
						q := qblockOut{tok: inner, sql: innerSQL, cols: t.cols}
						if nested {
							// the limited block is a subquery; the outer block only re-sorts (so the result is well defined)
							q = qblockOut{tok: "sel " + inner + " - * D0 O0 -", sql: "SELECT * FROM (" + innerSQL + ") q2", cols: t.cols}
						}
						fmt.Fprintln(w, selLine(mode, true, "csv", t, q))
					}
				}
			}
		}
	}
	// LIMIT / ORDER BY over a RETRACTING source (a group-by with an early-firing trigger), nested and at top level
	nl := 4
	if tier == "thorough" {
		nl = 40
	}
	for ti := 0; ti < nl; ti++ {
		nrows := 2 + g.Intn(7)
		var sb strings.Builder
		fmt.Fprintf(&sb, "T 2 %d", nrows)
		for r := 0; r < nrows; r++ {
			// arrival orders like a,b,c,a,b: counts keep changing, so earlier results are retracted
			fmt.Fprintf(&sb, " %s %s", EncodeValue(octosql.NewInt(int64(g.Intn(4)))), EncodeValue(octosql.NewInt(int64(g.Intn(3)))))
		}
		for n := 0; n <= 5; n++ {
			for _, mode := range []string{"json", "csv", "batch_table", "stream_native"} {
				for _, nested := range []int{0, 1, 2} {
					for order := 0; order <= 2; order++ {
						fmt.Fprintf(w, "lim2 %s %d %d %d %s\n", mode, nested, order, n, sb.String())
					}
				}
			}
		}
	}
	// LIMIT over a plan in which ANOTHER Limit node is run again and again (the joined side of a LOOKUP JOIN, a subquery
	// expression): every Limit stops its own source only, and counts from zero on every run
	for _, mode := range []string{"csv", "json", "batch_table", "stream_native"} {
		for variant := 0; variant <= 3; variant++ {
			ns := []int{0, 1, 3, 5, 100}
			if tier != "thorough" {
				ns = []int{0, 3, 100, 1 + g.Intn(12)}
			}
			for _, n := range ns {
				m := 1 + g.Intn(3)
				na := 2 + g.Intn(6)
				nb := 1 + g.Intn(8)
				fmt.Fprintf(w, "lim3 %s %d %d %d %d %d\n", mode, variant, n, m, na, nb)
			}
		}
	}
	// plus random nested shapes where every block has a LIMIT
	n := 300
	if tier == "thorough" {
		n = 5000
	}
	for i := 0; i < n; i++ {
		mode := Pick(g, allModes)
		o := sqlGenOpts{fileFmt: "csv", simpleStr: mode != "json" && mode != "csv", maxRows: 8, maxDepth: 3, forceLimit: true}
		t := genQTable(g, o)
		q := genQuery(g, o, t, "t.csv")
		fmt.Fprintln(w, selLine(mode, true, "csv", t, q))
	}
	_ = strings.Join
}


// lim3 <mode> <variant> <n> <m> <na> <nb>: rows sorted as strings (which rows a LIMIT without ORDER BY keeps is free)
func driveLim3(toks []string) string {
	mode, variant, n, m, na, nb := toks[1], toks[2], toks[3], toks[4], toks[5], toks[6]
	a := "range(start=>0, end=>" + na + ") a"
	sub := "(SELECT * FROM range(start=>0, end=>" + nb + ") r LIMIT " + m + ") b"
	var sql string
	switch variant {
	case "0":
		sql = "SELECT a.i AS x, b.i AS y FROM " + a + " LOOKUP JOIN " + sub + " LIMIT " + n
	case "1":
		sql = "SELECT * FROM (SELECT a.i AS x, b.i AS y FROM " + a + " LOOKUP JOIN " + sub + " LIMIT " + n + ") q"
	case "2":
		sql = "SELECT a.i AS x, (SELECT r.i FROM range(start=>0, end=>" + nb + ") r LIMIT 1)[0] AS y FROM " + a + " LIMIT " + n
	default:
		sql = "SELECT a.i AS x, b.i AS y FROM " + a + " LOOKUP JOIN " + sub + " ORDER BY x DESC, y ASC LIMIT " + n
	}
	dir := scratchDir("lim3")
	defer os.RemoveAll(dir)
	out := canonOutput(runOctosql(dir, nil, sql, "-o", mode), mode, "ii")
	parts := strings.Split(out, " | ")
	if len(parts) > 1 && strings.HasPrefix(parts[0], "rows ") {
		sort.Strings(parts[1:])
		out = strings.Join(parts, " | ")
	}
	return out
}

func driveC05(toks []string) string {
	if toks[0] == "lim3" {
		return driveLim3(toks)
	}
	if toks[0] != "lim2" {
		return driveSel(toks)
	}
	mode, nested, order, n := toks[1], toks[2], toks[3], toks[4]
	ncols, _ := strconv.Atoi(toks[6])
	nrows, _ := strconv.Atoi(toks[7])
	rest := toks[8:]
	var rows [][]octosql.Value
	for r := 0; r < nrows; r++ {
		var row []octosql.Value
		row, rest = ParseValues(ncols, rest)
		rows = append(rows, row)
	}
	dir := scratchDir("lim2")
	defer os.RemoveAll(dir)
	writeTable(dir, "csv", []string{"c0", "c1"}, rows)
	ord := ""
	if order == "1" {
		ord = " ORDER BY c ASC"
	} else if order == "2" {
		ord = " ORDER BY c DESC"
	}
	inner := "SELECT c0, COUNT(c1) AS c FROM t.csv t GROUP BY c0 TRIGGER COUNTING 1"
	sql := inner + ord + " LIMIT " + n
	if nested == "1" {
		sql = "SELECT * FROM (" + inner + ") q" + ord + " LIMIT " + n
	} else if nested == "2" {
		// the ORDER BY / LIMIT themselves sit inside a subquery (materialised by physical/nodes.go, not cmd/root.go)
		sql = "SELECT * FROM (SELECT * FROM (" + inner + ") q" + ord + " LIMIT " + n + ") q2"
	}
	return canonOutput(runOctosql(dir, nil, sql, "-o", mode), mode, "ii")
}
