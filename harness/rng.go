package main

// Gen: every random choice of a check derives from one splitmix64 state (VERIF_SEED).
type Gen struct{ s uint64 }

func NewGen(seed uint64) *Gen { return &Gen{s: seed*0x9E3779B97F4A7C15 + 0x1234567} }

func (g *Gen) U64() uint64 {
	g.s += 0x9E3779B97F4A7C15
	z := g.s
	z = (z ^ (z >> 30)) * 0xBF58476D1CE4E5B9
	z = (z ^ (z >> 27)) * 0x94D049BB133111EB
	return z ^ (z >> 31)
}

// Intn returns a value in [0, n).
func (g *Gen) Intn(n int) int {
	if n <= 0 {
		return 0
	}
	return int(g.U64() % uint64(n))
}

func (g *Gen) Bool() bool { return g.U64()&1 == 1 }

// Chance returns true with probability num/den.
func (g *Gen) Chance(num, den int) bool { return g.Intn(den) < num }

func Pick[T any](g *Gen, xs []T) T { return xs[g.Intn(len(xs))] }
