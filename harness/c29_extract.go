package main

// Translator piece for C29 (DESIGN §2.2a): the parts of the JSON pipeline model that are plain facts of the source
// text are regenerated from /repo on every run:
//   - the channel capacities and batch sizes (`make(chan T, N)`, `batchSize := N`);
//   - the *communication skeleton* of DatasourceExecuting.Run (reader goroutine + consumer loop) and of the pool
//     worker: every channel operation, select, case, return / break / continue, go and defer statement, in source
//     order, with the names of the channels. lean/Octo/Model/JsonPipeSkeleton.lean states the skeleton the model was
//     written for, and a theorem in Props/C29.lean says the two are equal: a change of the protocol in the Go code
//     (a case removed from a select, a send moved, a capacity changed so that tokens > outChan, …) breaks the proof.
//   - the capacity of the join's message channels.
// Fails closed: an unexpected shape is an error.

import (
	"fmt"
	"go/ast"
	"go/parser"
	"go/printer"
	"go/token"
	"os"
	"path/filepath"
	"strings"
)

func init() {
	registerExtractor("jsonpipe", extractJSONPipe)
}

func c29ExprString(fset *token.FileSet, e ast.Expr) string {
	var sb strings.Builder
	printer.Fprint(&sb, fset, e)
	return strings.Join(strings.Fields(sb.String()), "")
}

// makeChanCap finds `name := make(chan …, N)` (exactly once) below root and returns N as text.
func c29MakeChanCap(fset *token.FileSet, root ast.Node, name string) (string, error) {
	var found []string
	ast.Inspect(root, func(n ast.Node) bool {
		as, ok := n.(*ast.AssignStmt)
		if !ok || len(as.Lhs) != 1 || len(as.Rhs) != 1 {
			return true
		}
		id, ok := as.Lhs[0].(*ast.Ident)
		if !ok || id.Name != name {
			return true
		}
		call, ok := as.Rhs[0].(*ast.CallExpr)
		if !ok {
			return true
		}
		fn, ok := call.Fun.(*ast.Ident)
		if !ok || fn.Name != "make" || len(call.Args) != 2 {
			return true
		}
		if _, ok := call.Args[0].(*ast.ChanType); !ok {
			return true
		}
		lit, ok := call.Args[1].(*ast.BasicLit)
		if !ok || lit.Kind != token.INT {
			return true
		}
		found = append(found, lit.Value)
		return true
	})
	if len(found) != 1 {
		return "", fmt.Errorf("expected exactly one `%s := make(chan …, N)`, found %d", name, len(found))
	}
	return found[0], nil
}

// intAssigns returns the integer literals assigned to name (`:=` or `=`), in source order.
func c29IntAssigns(root ast.Node, name string) []string {
	var out []string
	ast.Inspect(root, func(n ast.Node) bool {
		as, ok := n.(*ast.AssignStmt)
		if !ok || len(as.Lhs) != 1 || len(as.Rhs) != 1 {
			return true
		}
		id, ok := as.Lhs[0].(*ast.Ident)
		if !ok || id.Name != name {
			return true
		}
		if lit, ok := as.Rhs[0].(*ast.BasicLit); ok && lit.Kind == token.INT {
			out = append(out, lit.Value)
		}
		return true
	})
	return out
}

type c29Skel struct {
	fset *token.FileSet
	out  []string
	err  error
}

func (k *c29Skel) emit(s string) { k.out = append(k.out, s) }

func (k *c29Skel) comm(prefix string, s ast.Stmt) {
	switch c := s.(type) {
	case *ast.SendStmt:
		k.emit(prefix + "send " + c29ExprString(k.fset, c.Chan))
	case *ast.ExprStmt:
		if u, ok := c.X.(*ast.UnaryExpr); ok && u.Op == token.ARROW {
			k.emit(prefix + "recv " + c29ExprString(k.fset, u.X))
			return
		}
		k.err = fmt.Errorf("unexpected comm clause expression")
	case *ast.AssignStmt:
		if len(c.Rhs) == 1 {
			if u, ok := c.Rhs[0].(*ast.UnaryExpr); ok && u.Op == token.ARROW {
				k.emit(prefix + "recv " + c29ExprString(k.fset, u.X))
				return
			}
		}
		k.err = fmt.Errorf("unexpected comm clause assignment")
	default:
		k.err = fmt.Errorf("unexpected comm clause %T", s)
	}
}

func isVerifHook(call *ast.CallExpr) bool {
	if id, ok := call.Fun.(*ast.Ident); ok {
		return strings.HasPrefix(id.Name, "verif")
	}
	return false
}

// walk emits the communication skeleton of a statement list.
func (k *c29Skel) walk(stmts []ast.Stmt) {
	for _, st := range stmts {
		k.stmt(st)
	}
}

func (k *c29Skel) exprRecvs(e ast.Expr) {
	// receive expressions nested in other expressions, and function literals started elsewhere are not expected
	ast.Inspect(e, func(n ast.Node) bool {
		switch x := n.(type) {
		case *ast.UnaryExpr:
			if x.Op == token.ARROW {
				k.emit("recv " + c29ExprString(k.fset, x.X))
			}
		case *ast.CallExpr:
			// the join's `send(channel, msg)` helper (a select over the channel and ctx.Done)
			if id, ok := x.Fun.(*ast.Ident); ok && id.Name == "send" && len(x.Args) > 0 {
				k.emit("call send " + c29ExprString(k.fset, x.Args[0]))
			}
		case *ast.SendStmt:
			// a send inside a closure passed as an argument (the join's produce / metaSend callbacks before the fix)
			k.emit("send " + c29ExprString(k.fset, x.Chan))
		}
		return true
	})
}

func (k *c29Skel) stmt(st ast.Stmt) {
	switch s := st.(type) {
	case nil:
	case *ast.SelectStmt:
		k.emit("select{")
		for _, c := range s.Body.List {
			cc := c.(*ast.CommClause)
			if cc.Comm == nil {
				k.emit("default:")
			} else {
				k.comm("case ", cc.Comm)
			}
			k.walk(cc.Body)
		}
		k.emit("}")
	case *ast.SendStmt:
		k.emit("send " + c29ExprString(k.fset, s.Chan))
	case *ast.ExprStmt:
		if call, ok := s.X.(*ast.CallExpr); ok && isVerifHook(call) {
			return
		}
		if call, ok := s.X.(*ast.CallExpr); ok {
			if id, ok := call.Fun.(*ast.Ident); ok && id.Name == "close" {
				k.emit("close " + c29ExprString(k.fset, call.Args[0]))
				return
			}
		}
		k.exprRecvs(s.X)
	case *ast.AssignStmt:
		if len(s.Lhs) == 1 && len(s.Rhs) == 1 {
			if id, ok := s.Lhs[0].(*ast.Ident); ok {
				if fl, ok := s.Rhs[0].(*ast.FuncLit); ok && id.Name == "send" {
					k.emit("func send{")
					k.walk(fl.Body.List)
					k.emit("}")
					return
				}
				if _, ok := s.Rhs[0].(*ast.FuncLit); ok {
					return // other local closures (processRecordsUpTo, markOneStreamRemains): no channel operations expected
				}
			}
		}
		for _, r := range s.Rhs {
			k.exprRecvs(r)
		}
		// writes to the shared variable
		for _, l := range s.Lhs {
			if id, ok := l.(*ast.Ident); ok && id.Name == "linesRead" && s.Tok != token.DEFINE {
				k.emit("write linesRead")
			}
			if id, ok := l.(*ast.Ident); ok && id.Name == "done" && s.Tok == token.ASSIGN {
				k.emit("assign done " + c29ExprString(k.fset, s.Rhs[0]))
			}
		}
	case *ast.GoStmt:
		if fl, ok := s.Call.Fun.(*ast.FuncLit); ok {
			k.emit("go{")
			k.walk(fl.Body.List)
			k.emit("}")
		} else {
			k.err = fmt.Errorf("go statement without function literal")
		}
	case *ast.DeferStmt:
		if isVerifHook(s.Call) {
			return
		}
		k.emit("defer " + c29ExprString(k.fset, s.Call.Fun))
	case *ast.ReturnStmt:
		for _, r := range s.Results {
			k.exprRecvs(r)
		}
		k.emit("return")
	case *ast.BranchStmt:
		l := ""
		if s.Label != nil {
			l = " " + s.Label.Name
		}
		k.emit(s.Tok.String() + l)
	case *ast.LabeledStmt:
		k.emit("label " + s.Label.Name)
		k.stmt(s.Stmt)
	case *ast.ForStmt:
		k.emit("for{")
		k.walk(s.Body.List)
		k.emit("}")
	case *ast.RangeStmt:
		if x := c29ExprString(k.fset, s.X); x == "inChan" || x == "openChannel" {
			k.emit("for-range-chan " + x + "{")
		} else {
			k.emit("for{")
		}
		k.walk(s.Body.List)
		k.emit("}")
	case *ast.IfStmt:
		// reads of the shared variable in conditions
		cond := c29ExprString(k.fset, s.Cond)
		k.stmt(s.Init)
		if strings.Contains(cond, "linesRead") {
			k.emit("if-reads-linesRead " + cond + "{")
		} else {
			k.emit("if{")
		}
		k.walk(s.Body.List)
		k.emit("}")
		if s.Else != nil {
			k.emit("else{")
			k.stmt(s.Else)
			k.emit("}")
		}
	case *ast.BlockStmt:
		k.walk(s.List)
	case *ast.DeclStmt, *ast.IncDecStmt, *ast.EmptyStmt:
	case *ast.SwitchStmt, *ast.TypeSwitchStmt:
		k.err = fmt.Errorf("unexpected switch in the pipeline code")
	default:
		k.err = fmt.Errorf("unexpected statement %T", st)
	}
}

// drop `if{ }` blocks that contain nothing of interest, to keep the skeleton readable
func c29Prune(xs []string) []string {
	for {
		changed := false
		var out []string
		for i := 0; i < len(xs); i++ {
			if xs[i] == "if{" && i+1 < len(xs) && xs[i+1] == "}" {
				i++
				changed = true
				continue
			}
			if xs[i] == "for{" && i+1 < len(xs) && xs[i+1] == "}" {
				i++
				changed = true
				continue
			}
			out = append(out, xs[i])
		}
		xs = out
		if !changed {
			return xs
		}
	}
}

func c29FindMethod(f *ast.File, recv, name string) *ast.FuncDecl {
	for _, d := range f.Decls {
		fd, ok := d.(*ast.FuncDecl)
		if !ok || fd.Name.Name != name || fd.Recv == nil || len(fd.Recv.List) != 1 {
			continue
		}
		t := fd.Recv.List[0].Type
		if st, ok := t.(*ast.StarExpr); ok {
			t = st.X
		}
		if id, ok := t.(*ast.Ident); ok && id.Name == recv {
			return fd
		}
	}
	return nil
}

func extractJSONPipe(repoDir, outDir string) error {
	fset := token.NewFileSet()
	ex, err := parser.ParseFile(fset, filepath.Join(repoDir, "datasources", "json", "execution.go"), nil, 0)
	if err != nil {
		return err
	}
	wk, err := parser.ParseFile(fset, filepath.Join(repoDir, "datasources", "json", "workers.go"), nil, 0)
	if err != nil {
		return err
	}
	run := c29FindMethod(ex, "DatasourceExecuting", "Run")
	if run == nil {
		return fmt.Errorf("DatasourceExecuting.Run not found")
	}
	outCap, err := c29MakeChanCap(fset, run, "outChan")
	if err != nil {
		return err
	}
	tokCap, err := c29MakeChanCap(fset, run, "outChanAvailableTokens")
	if err != nil {
		return err
	}
	doneCap, err := c29MakeChanCap(fset, run, "done")
	if err != nil {
		return err
	}
	jobCap, err := c29MakeChanCap(fset, wk, "inChan")
	if err != nil {
		return err
	}
	bs := c29IntAssigns(run, "batchSize")
	if len(bs) != 2 {
		return fmt.Errorf("expected `batchSize := N` and `batchSize = M` (tail), found %v", bs)
	}
	// skeletons
	k := &c29Skel{fset: fset}
	k.walk(run.Body.List)
	if k.err != nil {
		return fmt.Errorf("execution.go: %v", k.err)
	}
	runSkel := c29Prune(k.out)
	// the worker: the function literal started with `go` inside the initialiser of parserWorkReceiveChannel
	var workerBody *ast.BlockStmt
	nGo := 0
	ast.Inspect(wk, func(n ast.Node) bool {
		if g, ok := n.(*ast.GoStmt); ok {
			if fl, ok := g.Call.Fun.(*ast.FuncLit); ok {
				workerBody = fl.Body
				nGo++
			}
		}
		return true
	})
	if nGo != 1 {
		return fmt.Errorf("workers.go: expected exactly one go statement, found %d", nGo)
	}
	k2 := &c29Skel{fset: fset}
	k2.walk(workerBody.List)
	if k2.err != nil {
		return fmt.Errorf("workers.go: %v", k2.err)
	}
	wkSkel := c29Prune(k2.out)

	// join channel capacities and skeletons
	joinCap := ""
	joinSkel := map[string][]string{}
	for _, fn := range []string{"stream_join.go", "outer_join.go"} {
		jf, err := parser.ParseFile(fset, filepath.Join(repoDir, "execution", "nodes", fn), nil, 0)
		if err != nil {
			return err
		}
		recv := "StreamJoin"
		if fn == "outer_join.go" {
			recv = "OuterJoin"
		}
		jrun := c29FindMethod(jf, recv, "Run")
		if jrun == nil {
			return fmt.Errorf("%s.Run not found", recv)
		}
		kj := &c29Skel{fset: fset}
		kj.walk(jrun.Body.List)
		if kj.err != nil {
			return fmt.Errorf("%s: %v", fn, kj.err)
		}
		// keep only the lines that speak about goroutines and channels (the node's data processing is C19's subject)
		var flat []string
		for _, l := range c29Prune(kj.out) {
			switch l {
			case "if{", "else{", "}", "return", "continue", "for{":
				continue
			}
			flat = append(flat, l)
		}
		joinSkel[fn] = flat
		for _, name := range []string{"leftMessages", "rightMessages"} {
			c, err := c29MakeChanCap(fset, jf, name)
			if err != nil {
				return fmt.Errorf("%s: %v", fn, err)
			}
			if joinCap != "" && c != joinCap {
				return fmt.Errorf("%s: join channel capacities differ (%s vs %s)", fn, c, joinCap)
			}
			joinCap = c
		}
	}

	q := func(xs []string) string {
		qs := make([]string, len(xs))
		for i, x := range xs {
			qs[i] = fmt.Sprintf("%q", x)
		}
		return "[" + strings.Join(qs, ",\n   ") + "]"
	}
	var sb strings.Builder
	sb.WriteString("/-! GENERATED by `vh extract jsonpipe` from datasources/json/execution.go, workers.go, execution/nodes/stream_join.go, outer_join.go — do not edit. -/\n")
	sb.WriteString("namespace Octo.Gen.JsonPipe\n")
	fmt.Fprintf(&sb, "/-- `outChan := make(chan []jobOutRecord, N)` -/\ndef outCap : Nat := %s\n", outCap)
	fmt.Fprintf(&sb, "/-- `outChanAvailableTokens := make(chan struct{}, N)` -/\ndef tokCap : Nat := %s\n", tokCap)
	fmt.Fprintf(&sb, "/-- `done := make(chan error, N)` -/\ndef doneCap : Nat := %s\n", doneCap)
	fmt.Fprintf(&sb, "/-- `inChan := make(chan jobIn, N)` (the global job queue of the worker pool) -/\ndef jobCap : Nat := %s\n", jobCap)
	fmt.Fprintf(&sb, "/-- `batchSize := N` -/\ndef batchSize : Nat := %s\n", bs[0])
	fmt.Fprintf(&sb, "/-- `batchSize = N` in tail mode -/\ndef tailBatchSize : Nat := %s\n", bs[1])
	fmt.Fprintf(&sb, "/-- `leftMessages/rightMessages := make(chan chanMessage, N)` in StreamJoin.Run and OuterJoin.Run -/\ndef joinCap : Nat := %s\n", joinCap)
	fmt.Fprintf(&sb, "/-- communication skeleton of DatasourceExecuting.Run (consumer) with its reader goroutine -/\ndef runSkeleton : List String :=\n  %s\n", q(runSkel))
	fmt.Fprintf(&sb, "/-- communication skeleton of one pool worker -/\ndef workerSkeleton : List String :=\n  %s\n", q(wkSkel))
	fmt.Fprintf(&sb, "/-- communication skeleton of StreamJoin.Run -/\ndef streamJoinSkeleton : List String :=\n  %s\n", q(joinSkel["stream_join.go"]))
	fmt.Fprintf(&sb, "/-- communication skeleton of OuterJoin.Run -/\ndef outerJoinSkeleton : List String :=\n  %s\n", q(joinSkel["outer_join.go"]))
	sb.WriteString("end Octo.Gen.JsonPipe\n")
	return os.WriteFile(filepath.Join(outDir, "JsonPipe.lean"), []byte(sb.String()), 0o644)
}
