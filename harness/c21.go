package main

// C21 — tumble, range and poll produce their documented streams.
//
// All three nodes are obtained through the EXPORTED descriptors' Materialize
// (table_valued_functions.Tumble / Range / Poll .Descriptors[0].Materialize) over a scripted source, and run
// in-process.  Op lines (self-contained):
//
//	tumble <tf|im> <idx> <nfields> <len> <off> <failAt> <budget> | <stream>
//	    tf: time_field => DESCRIPTOR(f<idx>) over a schema with fields f0..f<nfields-1>;  im: Schema.TimeField = idx
//	    len, off: int64 ns (window_length, offset; off = "-" means the argument is omitted);
//	    failAt: ScriptNode.FailAt (-1 = never); budget: the consumer accepts that many messages and fails the next
//	    (-1 = unlimited)
//	range <startValue> <endValue> <budget>
//	poll <budget> | <failAt> <stream> | <failAt> <stream> …      one `|` section per round; the source fails (stop)
//	    on the first Run after the listed rounds
//	pollinterval <name>      Materialize with poll_interval => DESCRIPTOR(name), as the matcher table declares it
//
// Output: `<status> <stream>` with status ok | err:budget | err:source | err:other | panic.  Time *values* are printed
// exactly (big integers, ns since the Unix epoch) because window bounds may leave the int64 UnixNano range.  For
// poll, wall-clock readings (every instant >= 10^18 ns) are replaced by clockBase + rank (ascending), which is what
// the model's abstract clock `k ↦ clockBase + k` prints when the real clock is strictly increasing.

import (
	"bufio"
	"context"
	"errors"
	"fmt"
	"math/big"
	"sort"
	"strconv"
	"strings"
	"time"

	"github.com/cube2222/octosql/execution"
	"github.com/cube2222/octosql/logical"
	"github.com/cube2222/octosql/octosql"
	"github.com/cube2222/octosql/physical"
	tvf "github.com/cube2222/octosql/table_valued_functions"
)

func init() {
	register("C21", &prop{gen: genC21, drive: driveC21})
}

const c21ClockBase = int64(1_000_000_000_000_000) // 10^15: above every scripted instant, below every real reading
const c21RealClockMin = int64(1_000_000_000_000_000_000)

var errC21Budget = errors.New("verif: consumer budget exhausted")

// a node that produces more than this is cut off (status err:runaway): a mutated loop must not eat the machine
const c21Runaway = 100_000

var errC21Runaway = errors.New("verif: runaway producer")

// ---------- scripted datasource ----------

type c21Source struct {
	node execution.Node
}

func (s *c21Source) Materialize(ctx context.Context, env physical.Environment, schema physical.Schema, pushedDownPredicates []physical.Expression) (execution.Node, error) {
	return s.node, nil
}

func (s *c21Source) PushDownPredicates(newPredicates, pushedDownPredicates []physical.Expression) (rejected, pushedDown []physical.Expression, changed bool) {
	return newPredicates, pushedDownPredicates, false
}

func c21SourceNode(n execution.Node, nfields, timeField int) physical.Node {
	return c21TypedSourceNode(n, strings.Repeat("T", nfields), timeField, false)
}

// field types: T = Time, I = Int, U = Time | Null (a union: its TypeID is not TypeIDTime)
func c21TypedSourceNode(n execution.Node, types string, timeField int, noRetractions bool) physical.Node {
	fields := make([]physical.SchemaField, len(types))
	mapping := map[string]string{}
	for i := range fields {
		t := octosql.Time
		switch types[i] {
		case 'I':
			t = octosql.Int
		case 'U':
			t = octosql.TypeSum(octosql.Time, octosql.Null)
		}
		fields[i] = physical.SchemaField{Name: fmt.Sprintf("f%d", i), Type: t}
		mapping[fields[i].Name] = fields[i].Name
	}
	return physical.Node{
		Schema:   physical.NewSchema(fields, timeField, physical.WithNoRetractions(noRetractions)),
		NodeType: physical.NodeTypeDatasource,
		Datasource: &physical.Datasource{
			Name: "script", Alias: "script", DatasourceImplementation: &c21Source{node: n}, VariableMapping: mapping,
		},
	}
}

func c21ConstArg(v octosql.Value) physical.TableValuedFunctionArgument {
	return physical.TableValuedFunctionArgument{
		TableValuedFunctionArgumentType: physical.TableValuedFunctionArgumentTypeExpression,
		Expression: &physical.TableValuedFunctionArgumentExpression{Expression: physical.Expression{
			Type: v.Type(), ExpressionType: physical.ExpressionTypeConstant, Constant: &physical.Constant{Value: v},
		}},
	}
}

func c21TableArg(n physical.Node) physical.TableValuedFunctionArgument {
	return physical.TableValuedFunctionArgument{
		TableValuedFunctionArgumentType: physical.TableValuedFunctionArgumentTypeTable,
		Table:                           &physical.TableValuedFunctionArgumentTable{Table: n},
	}
}

// pollSource plays one script per Run; after the last script every Run fails at once (that is how the harness
// stops poll, which never terminates by itself).  Each Run ends only after the wall clock has advanced, so that
// consecutive time.Now() readings of poll are strictly increasing.
type c21PollSource struct {
	rounds []*ScriptNode
	next   int
}

func (s *c21PollSource) Run(ctx execution.ExecutionContext, produce execution.ProduceFn, metaSend execution.MetaSendFn) error {
	t0 := time.Now().UnixNano()
	defer func() {
		for time.Now().UnixNano() <= t0 {
		}
	}()
	if s.next >= len(s.rounds) {
		return ErrInjected
	}
	r := s.rounds[s.next]
	s.next++
	return r.Run(ctx, produce, metaSend)
}

// ---------- running with a consumer budget ----------

func c21Collect(n execution.Node, budget int) (out []Msg, status string) {
	return c21CollectCtx(n, budget, execution.ExecutionContext{Context: context.Background()})
}

func c21CollectCtx(n execution.Node, budget int, ctx execution.ExecutionContext) (out []Msg, status string) {
	defer func() {
		if r := recover(); r != nil {
			status = "panic"
		}
	}()
	err := n.Run(ctx,
		func(_ execution.ProduceContext, r execution.Record) error {
			if budget >= 0 && len(out) >= budget {
				return errC21Budget
			}
			if len(out) >= c21Runaway {
				return errC21Runaway
			}
			out = append(out, Msg{Rec: execution.Record{Values: append([]octosql.Value(nil), r.Values...), Retraction: r.Retraction, EventTime: r.EventTime}})
			return nil
		},
		func(_ execution.ProduceContext, m execution.MetadataMessage) error {
			if budget >= 0 && len(out) >= budget {
				return errC21Budget
			}
			if len(out) >= c21Runaway {
				return errC21Runaway
			}
			out = append(out, Msg{IsWM: true, WM: m.Watermark})
			return nil
		})
	switch {
	case err == nil:
		status = "ok"
	case errors.Is(err, errC21Runaway):
		return out[:8], "err:runaway"
	case errors.Is(err, errC21Budget):
		status = "err:budget"
	case errors.Is(err, ErrInjected):
		status = "err:source"
	default:
		status = "err:other"
	}
	return out, status
}

// ---------- exact printing ----------

var c21Billion = big.NewInt(1_000_000_000)

// exact Unix nanoseconds of t (not limited to the int64 range of Time.UnixNano)
func c21UnixNanoBig(t time.Time) *big.Int {
	x := new(big.Int).Mul(big.NewInt(t.Unix()), c21Billion)
	return x.Add(x, big.NewInt(int64(t.Nanosecond())))
}

func c21EncodeValue(v octosql.Value, clock map[int64]int64) string {
	if v.TypeID == octosql.TypeIDTime {
		ns := c21UnixNanoBig(v.Time)
		if clock != nil && ns.IsInt64() {
			if c, ok := clock[ns.Int64()]; ok {
				return fmt.Sprintf("t%d:0", c)
			}
		}
		return fmt.Sprintf("t%s:%d", ns.String(), locID(v.Time.Location()))
	}
	return EncodeValue(v)
}

func c21EncodeInstant(t time.Time, clock map[int64]int64) string {
	if t.IsZero() {
		return "z"
	}
	ns := t.UnixNano()
	if c, ok := clock[ns]; ok {
		return strconv.FormatInt(c, 10)
	}
	return strconv.FormatInt(ns, 10)
}

func c21EncodeMsgs(ms []Msg, clock map[int64]int64) string {
	parts := make([]string, len(ms))
	for i, m := range ms {
		if m.IsWM {
			parts[i] = "W" + c21EncodeInstant(m.WM, clock)
			continue
		}
		var sb strings.Builder
		fmt.Fprintf(&sb, "R%d", len(m.Rec.Values))
		for _, v := range m.Rec.Values {
			sb.WriteByte(' ')
			sb.WriteString(c21EncodeValue(v, clock))
		}
		if m.Rec.Retraction {
			sb.WriteString(" - ")
		} else {
			sb.WriteString(" + ")
		}
		sb.WriteString(c21EncodeInstant(m.Rec.EventTime, clock))
		parts[i] = sb.String()
	}
	return strings.Join(parts, " ; ")
}

// every wall-clock reading that is visible in poll's output, ranked ascending
func c21ClockRanks(ms []Msg) map[int64]int64 {
	seen := map[int64]bool{}
	add := func(t time.Time) {
		if t.IsZero() {
			return
		}
		if ns := t.UnixNano(); ns >= c21RealClockMin {
			seen[ns] = true
		}
	}
	for _, m := range ms {
		if m.IsWM {
			add(m.WM)
			continue
		}
		add(m.Rec.EventTime)
		for _, v := range m.Rec.Values {
			if v.TypeID == octosql.TypeIDTime {
				add(v.Time)
			}
		}
	}
	var all []int64
	for ns := range seen {
		all = append(all, ns)
	}
	sort.Slice(all, func(i, j int) bool { return all[i] < all[j] })
	out := map[int64]int64{}
	for i, ns := range all {
		out[ns] = c21ClockBase + int64(i)
	}
	return out
}

func c21Line(status string, body string) string {
	if body == "" {
		return status
	}
	return status + " " + body
}

// ---------- drive ----------

func c21Split(toks []string) [][]string {
	var out [][]string
	cur := []string{}
	for _, t := range toks {
		if t == "|" {
			out = append(out, cur)
			cur = []string{}
			continue
		}
		cur = append(cur, t)
	}
	return append(out, cur)
}

func c21Atoi(s string) int {
	i, err := strconv.Atoi(s)
	if err != nil {
		panic(err)
	}
	return i
}

func driveC21(toks []string) string {
	secs := c21Split(toks)
	head := secs[0]
	bg := context.Background()
	env := physical.Environment{}
	switch head[0] {
	case "tumble":
		mode, idx, nfields := head[1], c21Atoi(head[2]), c21Atoi(head[3])
		length, err := strconv.ParseInt(head[4], 10, 64)
		if err != nil {
			panic(err)
		}
		failAt, budget := c21Atoi(head[6]), c21Atoi(head[7])
		src := &ScriptNode{Msgs: c21ParseMsgs(secs[1]), FailAt: failAt}
		args := map[string]physical.TableValuedFunctionArgument{
			"window_length": c21ConstArg(octosql.NewDuration(time.Duration(length))),
		}
		if mode == "tf" {
			args["source"] = c21TableArg(c21SourceNode(src, nfields, -1))
			args["time_field"] = physical.TableValuedFunctionArgument{
				TableValuedFunctionArgumentType: physical.TableValuedFunctionArgumentTypeDescriptor,
				Descriptor:                      &physical.TableValuedFunctionArgumentDescriptor{Descriptor: fmt.Sprintf("f%d", idx)},
			}
		} else {
			args["source"] = c21TableArg(c21SourceNode(src, nfields, idx))
		}
		if head[5] != "-" {
			off, err := strconv.ParseInt(head[5], 10, 64)
			if err != nil {
				panic(err)
			}
			args["offset"] = c21ConstArg(octosql.NewDuration(time.Duration(off)))
		}
		node, err := tvf.Tumble.Descriptors[0].Materialize(bg, env, args)
		if err != nil {
			return "err:materialize"
		}
		out, status := c21Collect(node, budget)
		return c21Line(status, c21EncodeMsgs(out, nil))
	case "range":
		start, rest := ParseValue(head[1:])
		end, rest := ParseValue(rest)
		budget := c21Atoi(rest[0])
		node, err := tvf.Range.Descriptors[0].Materialize(bg, env, map[string]physical.TableValuedFunctionArgument{
			"start": c21ConstArg(start), "end": c21ConstArg(end),
		})
		if err != nil {
			return "err:materialize"
		}
		out, status := c21Collect(node, budget)
		return c21Line(status, c21EncodeMsgs(out, nil))
	case "range2":
		// bounds = variables of the enclosing record; the node is run under (s1, e1), then again under (s2, e2)
		s1, rest := ParseValue(head[1:])
		e1, rest := ParseValue(rest)
		s2, rest := ParseValue(rest)
		e2, _ := ParseValue(rest)
		venv := physical.Environment{VariableContext: &physical.VariableContext{Fields: []physical.SchemaField{{Name: "s", Type: octosql.Int}, {Name: "e", Type: octosql.Int}}}}
		varArg := func(name string) physical.TableValuedFunctionArgument {
			return physical.TableValuedFunctionArgument{
				TableValuedFunctionArgumentType: physical.TableValuedFunctionArgumentTypeExpression,
				Expression: &physical.TableValuedFunctionArgumentExpression{Expression: physical.Expression{
					Type: octosql.Int, ExpressionType: physical.ExpressionTypeVariable, Variable: &physical.Variable{Name: name, IsLevel0: true},
				}},
			}
		}
		node, err := tvf.Range.Descriptors[0].Materialize(bg, venv, map[string]physical.TableValuedFunctionArgument{"start": varArg("s"), "end": varArg("e")})
		if err != nil {
			return "err:materialize"
		}
		c21CollectCtx(node, -1, execution.ExecutionContext{Context: context.Background()}.WithRecord(execution.Record{Values: []octosql.Value{s1, e1}}))
		out, status := c21CollectCtx(node, -1, execution.ExecutionContext{Context: context.Background()}.WithRecord(execution.Record{Values: []octosql.Value{s2, e2}}))
		return c21Line(status, c21EncodeMsgs(out, nil))
	case "schema":
		return c21DriveSchema(head[1:])
	case "pollinterval":
		// poll_interval passed the way the argument matcher declares it (a DESCRIPTOR): Materialize reads
		// `.Expression.Expression` of that argument — a nil pointer (C07 territory; recorded here as a witness)
		status := "ok"
		func() {
			defer func() {
				if r := recover(); r != nil {
					status = "panic"
				}
			}()
			_, err := tvf.Poll.Descriptors[0].Materialize(bg, env, map[string]physical.TableValuedFunctionArgument{
				"source": c21TableArg(c21SourceNode(&c21PollSource{}, 0, -1)),
				"poll_interval": {
					TableValuedFunctionArgumentType: physical.TableValuedFunctionArgumentTypeDescriptor,
					Descriptor:                      &physical.TableValuedFunctionArgumentDescriptor{Descriptor: head[1]},
				},
			})
			if err != nil {
				status = "err:materialize"
			}
		}()
		return status
	case "poll":
		budget := c21Atoi(head[1])
		ps := &c21PollSource{}
		for _, sec := range secs[1:] {
			ps.rounds = append(ps.rounds, &ScriptNode{Msgs: ParseMsgs(sec[1:]), FailAt: c21Atoi(sec[0])})
		}
		node, err := tvf.Poll.Descriptors[0].Materialize(bg, env, map[string]physical.TableValuedFunctionArgument{
			"source": c21TableArg(c21SourceNode(ps, 0, -1)),
			// Materialize reads this argument as an expression (the matcher table declares a descriptor); zero interval
			"poll_interval": c21ConstArg(octosql.NewDuration(0)),
		})
		if err != nil {
			return "err:materialize"
		}
		out, status := c21Collect(node, budget)
		return c21Line(status, c21EncodeMsgs(out, c21ClockRanks(out)))
	}
	return "bad-op"
}

// schema tumble <tf|im> <idx> <srcTimeField> <noRetr> <types>  |  schema poll <srcTimeField> <noRetr> <types>  |  schema range
// prints `ok <timeField> <noRetractions> <name>:<T|I|U|?> …` or err:schema — the exported descriptors' OutputSchema
func c21DriveSchema(a []string) string {
	bg := context.Background()
	lenv := logical.Environment{UniqueNameGenerator: map[string]int{}}
	var schema physical.Schema
	var err error
	targ := func(types string, timeField int, noRetr bool) logical.TableValuedFunctionTypecheckedArgument {
		n := c21TypedSourceNode(&ScriptNode{FailAt: -1}, types, timeField, noRetr)
		m := map[string]string{}
		for _, f := range n.Schema.Fields {
			m[f.Name] = f.Name
		}
		return logical.TableValuedFunctionTypecheckedArgument{Mapping: m, Argument: c21TableArg(n)}
	}
	types := func(s string) string {
		if s == "-" {
			return ""
		}
		return s
	}
	switch a[0] {
	case "tumble":
		args := map[string]logical.TableValuedFunctionTypecheckedArgument{
			"source":        targ(types(a[5]), c21Atoi(a[3]), a[4] == "1"),
			"window_length": {Argument: c21ConstArg(octosql.NewDuration(time.Second))},
		}
		if a[1] == "tf" {
			args["time_field"] = logical.TableValuedFunctionTypecheckedArgument{Argument: physical.TableValuedFunctionArgument{
				TableValuedFunctionArgumentType: physical.TableValuedFunctionArgumentTypeDescriptor,
				Descriptor:                      &physical.TableValuedFunctionArgumentDescriptor{Descriptor: "f" + a[2]},
			}}
		}
		schema, _, err = tvf.Tumble.Descriptors[0].OutputSchema(bg, physical.Environment{}, lenv, args)
	case "poll":
		schema, _, err = tvf.Poll.Descriptors[0].OutputSchema(bg, physical.Environment{}, lenv,
			map[string]logical.TableValuedFunctionTypecheckedArgument{"source": targ(types(a[3]), c21Atoi(a[1]), a[2] == "1")})
	case "range":
		schema, _, err = tvf.Range.Descriptors[0].OutputSchema(bg, physical.Environment{}, lenv, nil)
	default:
		return "bad-op"
	}
	if err != nil {
		return "err:schema"
	}
	var sb strings.Builder
	nr := 0
	if schema.NoRetractions {
		nr = 1
	}
	fmt.Fprintf(&sb, "ok %d %d", schema.TimeField, nr)
	for _, f := range schema.Fields {
		c := "?"
		switch {
		case f.Type.TypeID == octosql.TypeIDTime:
			c = "T"
		case f.Type.TypeID == octosql.TypeIDInt:
			c = "I"
		case f.Type.TypeID == octosql.TypeIDUnion:
			c = "U"
		}
		fmt.Fprintf(&sb, " %s:%s", f.Name, c)
	}
	return sb.String()
}

// ---------- streams with instants outside the int64 UnixNano range ----------

// c21ParseMsgs is ParseMsgs, except that a top-level time value `t<ns>:<loc>` may carry any integer (ns since the
// Unix epoch): times before 1678 / after 2262, before year 1 (the `neg` branch of time.div) …
func c21ParseMsgs(toks []string) []Msg {
	var out []Msg
	for len(toks) > 0 {
		if toks[0] == ";" {
			toks = toks[1:]
			continue
		}
		if toks[0][0] == 'W' {
			ms := ParseMsgs(toks[:1])
			out = append(out, ms[0])
			toks = toks[1:]
			continue
		}
		k := c21Atoi(toks[0][1:])
		toks = toks[1:]
		vals := make([]octosql.Value, k)
		for i := 0; i < k; i++ {
			if v, ok := c21BigTime(toks[0]); ok {
				vals[i] = v
				toks = toks[1:]
				continue
			}
			vals[i], toks = ParseValue(toks)
		}
		out = append(out, Msg{Rec: execution.Record{Values: vals, Retraction: toks[0] == "-", EventTime: parseEt(toks[1])}})
		toks = toks[2:]
	}
	return out
}

func c21BigTime(tok string) (octosql.Value, bool) {
	if tok[0] != 't' {
		return octosql.Value{}, false
	}
	parts := strings.Split(tok[1:], ":")
	ns, ok := new(big.Int).SetString(parts[0], 10)
	if !ok || ns.IsInt64() {
		return octosql.Value{}, false
	}
	sec, nsec := new(big.Int).DivMod(ns, c21Billion, new(big.Int)) // Euclidean: 0 <= nsec < 10^9
	return octosql.NewTime(time.Unix(sec.Int64(), nsec.Int64()).In(locOf(c21Atoi(parts[1])))), true
}

// ---------- generators ----------

const c21ZeroUnixSec = int64(-62135596800) // 0001-01-01T00:00:00Z

func c21Time(ns int64, loc int) octosql.Value {
	return octosql.NewTime(time.Unix(0, ns).In(locOf(loc)))
}

// a few non-time payload values
func c21Payload(g *Gen) octosql.Value {
	switch g.Intn(6) {
	case 0:
		return octosql.NewNull()
	case 1:
		return octosql.NewInt(int64(g.Intn(7)) - 3)
	case 2:
		return octosql.NewString(Pick(g, []string{"", "a", "bc"}))
	case 3:
		return octosql.NewBoolean(g.Bool())
	case 4:
		return octosql.NewList([]octosql.Value{octosql.NewInt(int64(g.Intn(3)))})
	default:
		return octosql.NewDuration(time.Duration(g.Intn(5)))
	}
}

var c21Lengths = []int64{
	1, 2, 3, 7, 10, 1000, 999, 250_000_000, 500_000_000, 333_333_333, 1_000_000_000, 1_500_000_000, 7_000_000_000,
	60_000_000_000, 3_600_000_000_000, 86_400_000_000_000, 7 * 86_400_000_000_000, 1 << 40, 1<<62 + 12345, 1<<63 - 1,
}

var c21BadLengths = []int64{0, -1, -1_000_000_000, -1 << 63}

var c21Offsets = []int64{
	0, 1, -1, 999, -999, 500_000_000, -500_000_000, 1_000_000_000, -1_000_000_000, 1_500_000_001, -1_500_000_001,
	3_600_000_000_000, -3_600_000_000_000, 86_400_000_000_000 * 3, -86_400_000_000_000 * 3, 1 << 61, -(1 << 61),
	1<<63 - 1, -(1<<63 - 1),
}

// instants (Unix ns) that are interesting for window arithmetic: around the Unix epoch, before 1970, around
// multiples of the window length counted from the ZERO time (what Truncate rounds against), ends of the range
func c21Instant(g *Gen, length, off int64) int64 {
	switch g.Intn(8) {
	case 0:
		return int64(g.Intn(7)) - 3
	case 1:
		return -int64(g.Intn(4_000_000_000)) - 1 // shortly before 1970
	case 2: // exactly on / next to a window boundary: boundary = zero + k*len + off
		if length > 0 {
			z := new(big.Int).Mul(big.NewInt(c21ZeroUnixSec), c21Billion)
			// choose k so that the boundary is near a random in-range instant
			base := big.NewInt(int64(g.U64()>>2) - (1 << 61))
			d := new(big.Int).Sub(base, z)
			d.Sub(d, big.NewInt(off))
			k := new(big.Int).Div(d, big.NewInt(length)) // floor
			b := new(big.Int).Mul(k, big.NewInt(length))
			b.Add(b, z)
			b.Add(b, big.NewInt(off))
			b.Add(b, big.NewInt(int64(g.Intn(3))-1))
			if b.IsInt64() {
				return b.Int64()
			}
		}
		return int64(g.Intn(1000))
	case 3:
		return -(1 << 63) + int64(g.Intn(3)) // 1677
	case 4:
		return 1<<63 - 1 - int64(g.Intn(3)) // 2262
	case 5:
		return int64(g.U64()>>1) - (1 << 62)
	case 6:
		return 1_600_000_000_000_000_000 + int64(g.Intn(2_000_000_000))
	default:
		return -1_500_000_000 + int64(g.Intn(3_000_000_000)) // the C20 witness region (−1.5 s)
	}
}

func c21GenTumble(g *Gen, w *bufio.Writer, edge bool) {
	length := Pick(g, c21Lengths)
	if g.Chance(1, 12) {
		length = Pick(g, c21BadLengths)
	}
	if g.Chance(1, 6) {
		length = int64(g.Intn(5_000_000_000)) + 1
	}
	offS := "-"
	off := int64(0)
	if g.Chance(4, 5) {
		off = Pick(g, c21Offsets)
		if g.Chance(1, 4) {
			off = int64(g.Intn(20_000_000_000)) - 10_000_000_000
		}
		if edge && g.Chance(1, 3) {
			off = -1 << 63
		}
		offS = strconv.FormatInt(off, 10)
	}
	nfields := 1 + g.Intn(3)
	idx := g.Intn(nfields)
	mode := Pick(g, []string{"tf", "im"})
	if g.Chance(1, 15) {
		idx = g.Intn(5) - 1 // may be out of range: tf falls back to 0, im panics on the first record
	}
	n := g.Intn(6)
	if g.Chance(1, 10) {
		n = 0
	}
	eff := idx
	if mode == "tf" && (idx < 0 || idx >= nfields) {
		eff = 0
	}
	var ms []Msg
	bigToks := map[string]string{} // marker token -> token with an instant outside the int64 UnixNano range
	for i := 0; i < n; i++ {
		if g.Chance(1, 4) {
			ms = append(ms, Msg{IsWM: true, WM: time.Unix(0, c21Instant(g, length, off)).UTC()})
			continue
		}
		ar := nfields
		if g.Chance(1, 20) {
			ar = g.Intn(4)
		}
		vals := make([]octosql.Value, ar)
		for j := range vals {
			if j == eff && !g.Chance(1, 25) {
				loc := 0
				if g.Chance(1, 3) {
					loc = Pick(g, []int{1, 2, 101, 103, 98})
				}
				vals[j] = c21Time(c21Instant(g, length, off), loc)
				if g.Chance(1, 6) {
					marker := int64(7_000_000_000_000_000_000) + int64(len(bigToks))
					vals[j] = c21Time(marker, loc)
					bigToks[fmt.Sprintf("t%d:%d", marker, loc)] = fmt.Sprintf("t%s:%d", c21BigInstant(g, length, off), loc)
				}
			} else if g.Chance(1, 3) {
				vals[j] = c21Time(c21Instant(g, length, off), 0)
			} else {
				vals[j] = c21Payload(g)
			}
		}
		et := time.Time{}
		if g.Chance(1, 2) {
			et = time.Unix(0, c21Instant(g, length, off)).UTC()
		}
		ms = append(ms, Msg{Rec: execution.Record{Values: vals, Retraction: g.Chance(1, 4), EventTime: et}})
	}
	failAt, budget := -1, -1
	if g.Chance(1, 8) {
		failAt = g.Intn(n + 2)
	}
	if g.Chance(1, 8) {
		budget = g.Intn(n + 1)
	}
	stream := EncodeMsgs(ms)
	for m, b := range bigToks {
		stream = strings.ReplaceAll(stream, m, b)
	}
	fmt.Fprintf(w, "tumble %s %d %d %d %s %d %d | %s\n", mode, idx, nfields, length, offS, failAt, budget, stream)
}

// instants that time.Time can hold but UnixNano cannot: around Go's zero time (year 1, where time.div switches to
// its `neg` branch), between year 1 and 1678, after 2262, far away; on / next to window boundaries
func c21BigInstant(g *Gen, length, off int64) string {
	z := new(big.Int).Mul(big.NewInt(c21ZeroUnixSec), c21Billion)
	var x *big.Int
	switch g.Intn(6) {
	case 0: // the zero time itself and its neighbours
		x = new(big.Int).Add(z, big.NewInt(int64(g.Intn(5))-2))
	case 1: // within a few seconds of year 1
		x = new(big.Int).Add(z, big.NewInt(int64(g.Intn(8_000_000_000))-4_000_000_000))
	case 2: // before year 1, on / next to a window boundary: zero + k*len + off + {-1,0,1}, k < 0
		if length > 0 {
			k := big.NewInt(-int64(g.Intn(1000)) - 1)
			x = new(big.Int).Mul(k, big.NewInt(length))
			x.Add(x, z)
			x.Add(x, big.NewInt(off))
			x.Add(x, big.NewInt(int64(g.Intn(3))-1))
		} else {
			x = new(big.Int).Sub(z, big.NewInt(int64(g.Intn(1_000_000))))
		}
	case 3: // between year 1 and 1678
		x = new(big.Int).Add(z, new(big.Int).Mul(big.NewInt(int64(g.Intn(1_600))), big.NewInt(31_556_952_000_000_000)))
		x.Add(x, big.NewInt(int64(g.Intn(1_000_000_000))))
	case 4: // after 2262
		x = new(big.Int).Mul(big.NewInt(int64(g.Intn(1_000_000))+9_300_000_000), c21Billion)
		x.Add(x, big.NewInt(int64(g.Intn(1_000_000_000))))
	default: // tens of thousands of years before year 1
		x = new(big.Int).Mul(big.NewInt(-int64(g.Intn(1_000_000_000_000))-70_000_000_000), c21Billion)
		x.Sub(x, big.NewInt(int64(g.Intn(1_000_000_000))))
	}
	if x.IsInt64() {
		x = new(big.Int).Sub(z, big.NewInt(12345))
	}
	return x.String()
}

func c21Snapshot(g *Gen, retractions bool) []Msg {
	n := g.Intn(4)
	var ms []Msg
	for i := 0; i < n; i++ {
		if g.Chance(1, 12) {
			ms = append(ms, Msg{IsWM: true, WM: time.Unix(0, int64(g.Intn(1000))).UTC()})
			continue
		}
		ar := g.Intn(3)
		vals := make([]octosql.Value, ar)
		for j := range vals {
			vals[j] = octosql.NewInt(int64(g.Intn(3)))
			if g.Chance(1, 5) {
				vals[j] = c21Payload(g)
			}
		}
		et := time.Time{}
		if g.Chance(1, 3) {
			et = time.Unix(0, int64(g.Intn(1000))).UTC()
		}
		ms = append(ms, Msg{Rec: execution.Record{Values: vals, Retraction: retractions && g.Chance(1, 3), EventTime: et}})
	}
	return ms
}

func c21GenPoll(g *Gen, w *bufio.Writer, maxRounds int) {
	k := g.Intn(maxRounds + 1)
	retr := g.Chance(1, 3)
	total := 0
	var secs []string
	for i := 0; i < k; i++ {
		ms := c21Snapshot(g, retr)
		failAt := -1
		if i == k-1 && g.Chance(1, 10) {
			failAt = g.Intn(len(ms) + 1)
		}
		total += 2*len(ms) + 1
		secs = append(secs, strings.TrimSpace(fmt.Sprintf("%d %s", failAt, EncodeMsgs(ms))))
	}
	budget := -1
	if g.Chance(1, 6) {
		budget = g.Intn(total + 1)
	}
	line := fmt.Sprintf("poll %d", budget)
	for _, s := range secs {
		line += " | " + s
	}
	fmt.Fprintln(w, line)
}

func genC21(g *Gen, tier string, w *bufio.Writer) {
	thorough := tier == "thorough"
	// range: every (start, end) in [-20, 20]^2, plus budgets, NULL arguments and the ends of the int64 range
	for s := -20; s <= 20; s++ {
		for e := -20; e <= 20; e++ {
			fmt.Fprintf(w, "range i%d i%d -1\n", s, e)
		}
	}
	for i := 0; i < 200; i++ {
		s := g.Intn(41) - 20
		e := s + g.Intn(12)
		fmt.Fprintf(w, "range i%d i%d %d\n", s, e, g.Intn(e-s+2))
		fmt.Fprintf(w, "range2 i%d i%d i%d i%d\n", g.Intn(9)-4, g.Intn(9)-2, s, e)
	}
	for _, l := range []string{
		"range n i3 -1", "range i-2 n -1", "range n n -1", "range i9223372036854775800 i9223372036854775807 -1",
		"range i-9223372036854775808 i-9223372036854775805 -1", "range i9223372036854775807 i-9223372036854775808 -1",
		"range i9223372036854775806 i9223372036854775807 0", "range i0 i2000 -1", "range i5 i5 0", "range b1 s61 -1",
	} {
		fmt.Fprintln(w, l)
	}
	// declared schemas: every combination over a small universe
	var typeStrs []string
	for n := 0; n <= 3; n++ {
		var rec func(prefix string)
		rec = func(prefix string) {
			if len(prefix) == n {
				if n == 0 {
					prefix = "-"
				}
				typeStrs = append(typeStrs, prefix)
				return
			}
			for _, c := range "TIU" {
				rec(prefix + string(c))
			}
		}
		rec("")
	}
	for _, ts := range typeStrs {
		for tf := -1; tf <= 2; tf++ {
			for nr := 0; nr <= 1; nr++ {
				fmt.Fprintf(w, "schema poll %d %d %s\n", tf, nr, ts)
				for _, mode := range []string{"tf", "im"} {
					for idx := -1; idx <= 3; idx++ {
						fmt.Fprintf(w, "schema tumble %s %d %d %d %s\n", mode, idx, tf, nr, ts)
					}
				}
			}
		}
	}
	fmt.Fprintln(w, "schema range")
	// tumble
	nt := 6000
	if thorough {
		nt = 150000
	}
	for i := 0; i < nt; i++ {
		c21GenTumble(g, w, i%40 == 0)
	}
	// poll
	np, maxRounds := 1500, 4
	if thorough {
		np, maxRounds = 30000, 6
	}
	for i := 0; i < np; i++ {
		c21GenPoll(g, w, maxRounds)
	}
}
