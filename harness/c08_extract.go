package main

// Translator piece for C08 (DESIGN §2.2a): `vh extract functable` writes lean/Octo/Gen/FuncTable.lean
//
//   - by REFLECTION over the linked packages: every descriptor of functions.FunctionMap() (name, index, ArgumentTypes,
//     OutputType, Strict, has TypeFn) and of aggregates.Aggregates (name, index, ArgumentType, OutputType, has TypeFn,
//     the Go type that implements it, wrapped by Distinct or not);
//   - by a go/ast pass over functions/functions.go: for every descriptor's `Function` body the set of RESULT KINDS of its
//     return statements (`octosql.NewInt(…)` → ctor Int, `octosql.NewNull()` → null, `values[i]` → arg i,
//     `values[i].List[…]` → elem i, `ZeroValue, fmt.Errorf(…)` → err, a call of a package-level helper → the helper's kinds);
//   - by a go/ast pass over aggregates/*.go: the result kind of every `Trigger()` method;
//   - by CALLING the real TypeFn closures on a probe universe of argument type vectors: (arguments → result) pairs that the
//     hand-written Lean models of the TypeFns are proved to reproduce (`decide`).
//
// Fails closed: an AST shape that is not recognised is an error.

import (
	"fmt"
	"go/ast"
	"go/parser"
	"go/token"
	"os"
	"path/filepath"
	"reflect"
	"sort"
	"strconv"
	"strings"

	"github.com/cube2222/octosql/aggregates"
	"github.com/cube2222/octosql/octosql"
)

func init() {
	registerExtractor("functable", extractFuncTable)
}

// ---------- Lean literals

func leanName(s string) string {
	bs := make([]string, len(s))
	for i := 0; i < len(s); i++ {
		bs[i] = strconv.Itoa(int(s[i]))
	}
	return "[" + strings.Join(bs, ", ") + "]"
}

func leanTy(t octosql.Type) string {
	switch t.TypeID {
	case octosql.TypeIDNull:
		return ".null"
	case octosql.TypeIDInt:
		return ".int"
	case octosql.TypeIDFloat:
		return ".float"
	case octosql.TypeIDBoolean:
		return ".bool"
	case octosql.TypeIDString:
		return ".str"
	case octosql.TypeIDTime:
		return ".time"
	case octosql.TypeIDDuration:
		return ".dur"
	case octosql.TypeIDAny:
		return ".any"
	case octosql.TypeIDList:
		if t.List.Element == nil {
			return ".listNil"
		}
		return "(.list " + leanTy(*t.List.Element) + ")"
	case octosql.TypeIDStruct:
		ns := make([]string, len(t.Struct.Fields))
		ts := make([]string, len(t.Struct.Fields))
		for i, f := range t.Struct.Fields {
			ns[i] = leanName(f.Name)
			ts[i] = leanTy(f.Type)
		}
		return "(.struct [" + strings.Join(ns, ", ") + "] [" + strings.Join(ts, ", ") + "])"
	case octosql.TypeIDTuple:
		return "(.tuple " + leanTys(t.Tuple.Elements) + ")"
	case octosql.TypeIDUnion:
		return "(.union " + leanTys(t.Union.Alternatives) + ")"
	}
	panic(fmt.Sprintf("functable: unknown TypeID %d", t.TypeID))
}

func leanTys(ts []octosql.Type) string {
	ss := make([]string, len(ts))
	for i, t := range ts {
		ss[i] = leanTy(t)
	}
	return "[" + strings.Join(ss, ", ") + "]"
}

func leanBool(b bool) string {
	if b {
		return "true"
	}
	return "false"
}

// ---------- result kinds of function bodies (go/ast)

var c08Ctors = map[string]int{
	"NewInt": 1, "NewFloat": 2, "NewBoolean": 3, "NewString": 4, "NewTime": 5, "NewDuration": 6,
	"NewList": 7, "NewStruct": 8, "NewTuple": 9,
}

type kindSet map[string]bool

func (k kindSet) list() []string {
	var out []string
	for s := range k {
		out = append(out, s)
	}
	sort.Strings(out)
	return out
}

// returnsOf collects the return statements of a function body, not descending into nested function literals.
func returnsOf(body *ast.BlockStmt) []*ast.ReturnStmt {
	var out []*ast.ReturnStmt
	ast.Inspect(body, func(n ast.Node) bool {
		switch x := n.(type) {
		case *ast.FuncLit:
			return false
		case *ast.ReturnStmt:
			out = append(out, x)
		}
		return true
	})
	return out
}

func isValuesIndex(e ast.Expr) (int, bool) {
	ix, ok := e.(*ast.IndexExpr)
	if !ok {
		return 0, false
	}
	id, ok := ix.X.(*ast.Ident)
	if !ok || id.Name != "values" {
		return 0, false
	}
	lit, ok := ix.Index.(*ast.BasicLit)
	if !ok || lit.Kind != token.INT {
		return 0, false
	}
	n, err := strconv.Atoi(lit.Value)
	if err != nil {
		return 0, false
	}
	return n, true
}

func isOctosqlSel(e ast.Expr, name string) bool {
	sel, ok := e.(*ast.SelectorExpr)
	if !ok {
		return false
	}
	id, ok := sel.X.(*ast.Ident)
	return ok && id.Name == "octosql" && sel.Sel.Name == name
}

type kindExtractor struct {
	fset    *token.FileSet
	helpers map[string]*ast.FuncDecl
	depth   int
}

// isValueFuncType: func(values []octosql.Value) (octosql.Value, error)
func isValueFuncType(ft *ast.FuncType) bool {
	if ft.Params == nil || len(ft.Params.List) != 1 || ft.Results == nil || len(ft.Results.List) != 2 {
		return false
	}
	return isOctosqlSel(ft.Results.List[0].Type, "Value")
}

// errIsNonNil: the error expression of a return statement is certainly non-nil
func errIsNonNil(e ast.Expr) bool {
	call, ok := e.(*ast.CallExpr)
	if !ok {
		return false
	}
	sel, ok := call.Fun.(*ast.SelectorExpr)
	if !ok {
		return false
	}
	id, ok := sel.X.(*ast.Ident)
	return ok && id.Name == "fmt" && sel.Sel.Name == "Errorf"
}

func (x *kindExtractor) kindsOfBody(body *ast.BlockStmt, where string, out kindSet) error {
	rets := returnsOf(body)
	if len(rets) == 0 {
		return fmt.Errorf("%s: body without return statement", where)
	}
	for _, r := range rets {
		pos := x.fset.Position(r.Pos())
		if len(r.Results) == 1 {
			// return helper(...)
			call, ok := r.Results[0].(*ast.CallExpr)
			if !ok {
				return fmt.Errorf("%s (%v): single-result return is not a call", where, pos)
			}
			id, ok := call.Fun.(*ast.Ident)
			if !ok {
				return fmt.Errorf("%s (%v): single-result return does not call a package-level helper", where, pos)
			}
			h, ok := x.helpers[id.Name]
			if !ok || h.Body == nil || !isValueResult(h.Type) {
				return fmt.Errorf("%s (%v): unknown helper %s", where, pos, id.Name)
			}
			if x.depth > 4 {
				return fmt.Errorf("%s: helper recursion too deep", where)
			}
			x.depth++
			err := x.kindsOfBody(h.Body, where+"→"+id.Name, out)
			x.depth--
			if err != nil {
				return err
			}
			continue
		}
		if len(r.Results) != 2 {
			return fmt.Errorf("%s (%v): return with %d results", where, pos, len(r.Results))
		}
		val, errE := r.Results[0], r.Results[1]
		errNil := false
		if id, ok := errE.(*ast.Ident); ok && id.Name == "nil" {
			errNil = true
		} else if !errIsNonNil(errE) {
			return fmt.Errorf("%s (%v): error result is neither nil nor fmt.Errorf(…)", where, pos)
		}
		if !errNil {
			// the value is discarded by FunctionCall.Evaluate
			out["err"] = true
			continue
		}
		switch v := val.(type) {
		case *ast.CallExpr:
			sel, ok := v.Fun.(*ast.SelectorExpr)
			if !ok {
				return fmt.Errorf("%s (%v): returned call is not octosql.NewX(…)", where, pos)
			}
			id, ok := sel.X.(*ast.Ident)
			if !ok || id.Name != "octosql" {
				return fmt.Errorf("%s (%v): returned call is not octosql.NewX(…)", where, pos)
			}
			if sel.Sel.Name == "NewNull" {
				out["null"] = true
			} else if tid, ok := c08Ctors[sel.Sel.Name]; ok {
				out[fmt.Sprintf("ctor %d", tid)] = true
			} else {
				return fmt.Errorf("%s (%v): unknown constructor octosql.%s", where, pos, sel.Sel.Name)
			}
		case *ast.IndexExpr:
			if i, ok := isValuesIndex(v); ok {
				out[fmt.Sprintf("arg %d", i)] = true
				break
			}
			// values[i].List[…]
			sel, ok := v.X.(*ast.SelectorExpr)
			if ok && sel.Sel.Name == "List" {
				if i, ok := isValuesIndex(sel.X); ok {
					out[fmt.Sprintf("elem %d", i)] = true
					break
				}
			}
			return fmt.Errorf("%s (%v): unrecognised indexed result", where, pos)
		case *ast.SelectorExpr:
			if isOctosqlSel(v, "ZeroValue") {
				out["null"] = true // the zero Value is a NULL
				break
			}
			return fmt.Errorf("%s (%v): unrecognised selector result", where, pos)
		case *ast.CompositeLit:
			if isOctosqlSel(v.Type, "Value") && len(v.Elts) == 0 {
				out["null"] = true
				break
			}
			return fmt.Errorf("%s (%v): unrecognised composite result", where, pos)
		default:
			return fmt.Errorf("%s (%v): unrecognised result expression %T", where, pos, val)
		}
	}
	return nil
}

func isValueResult(ft *ast.FuncType) bool {
	return ft.Results != nil && len(ft.Results.List) == 2 && isOctosqlSel(ft.Results.List[0].Type, "Value")
}

// valueFuncOf: the function literal that is called with the argument values: the `Function:` field itself, or the
// single function literal returned by an immediately invoked factory `func() func(...) (...) { …; return func(values …) {…} }()`.
func valueFuncOf(e ast.Expr, where string) (*ast.FuncLit, error) {
	switch v := e.(type) {
	case *ast.FuncLit:
		if !isValueFuncType(v.Type) {
			return nil, fmt.Errorf("%s: Function has an unexpected signature", where)
		}
		return v, nil
	case *ast.CallExpr:
		fl, ok := v.Fun.(*ast.FuncLit)
		if !ok || len(v.Args) != 0 {
			return nil, fmt.Errorf("%s: Function is a call of something else than a parameterless function literal", where)
		}
		var found []*ast.FuncLit
		for _, r := range returnsOf(fl.Body) {
			if len(r.Results) != 1 {
				return nil, fmt.Errorf("%s: factory returns %d results", where, len(r.Results))
			}
			inner, ok := r.Results[0].(*ast.FuncLit)
			if !ok || !isValueFuncType(inner.Type) {
				return nil, fmt.Errorf("%s: factory does not return a value function literal", where)
			}
			found = append(found, inner)
		}
		if len(found) != 1 {
			return nil, fmt.Errorf("%s: factory has %d return statements", where, len(found))
		}
		return found[0], nil
	}
	return nil, fmt.Errorf("%s: Function is neither a function literal nor a factory call", where)
}

// functionKinds: (name, idx) -> sorted result kinds, from the FunctionMap literal of functions/functions.go
func functionKinds(repoDir string) (map[string][]string, error) {
	path := filepath.Join(repoDir, "functions", "functions.go")
	fset := token.NewFileSet()
	f, err := parser.ParseFile(fset, path, nil, 0)
	if err != nil {
		return nil, err
	}
	x := &kindExtractor{fset: fset, helpers: map[string]*ast.FuncDecl{}}
	var fm *ast.FuncDecl
	for _, d := range f.Decls {
		if fd, ok := d.(*ast.FuncDecl); ok && fd.Recv == nil {
			if fd.Name.Name == "FunctionMap" {
				fm = fd
			} else {
				x.helpers[fd.Name.Name] = fd
			}
		}
	}
	if fm == nil || fm.Body == nil || len(fm.Body.List) != 1 {
		return nil, fmt.Errorf("functions.go: FunctionMap is not a single return statement")
	}
	ret, ok := fm.Body.List[0].(*ast.ReturnStmt)
	if !ok || len(ret.Results) != 1 {
		return nil, fmt.Errorf("functions.go: FunctionMap body is not `return <map literal>`")
	}
	lit, ok := ret.Results[0].(*ast.CompositeLit)
	if !ok {
		return nil, fmt.Errorf("functions.go: FunctionMap does not return a composite literal")
	}
	out := map[string][]string{}
	for _, el := range lit.Elts {
		kv, ok := el.(*ast.KeyValueExpr)
		if !ok {
			return nil, fmt.Errorf("functions.go: map element is not key: value")
		}
		kl, ok := kv.Key.(*ast.BasicLit)
		if !ok || kl.Kind != token.STRING {
			return nil, fmt.Errorf("functions.go: function name is not a string literal")
		}
		name, err := strconv.Unquote(kl.Value)
		if err != nil {
			return nil, err
		}
		det, ok := kv.Value.(*ast.CompositeLit)
		if !ok {
			return nil, fmt.Errorf("functions.go: %q: details are not a composite literal", name)
		}
		var descs *ast.CompositeLit
		for _, del := range det.Elts {
			dkv, ok := del.(*ast.KeyValueExpr)
			if !ok {
				return nil, fmt.Errorf("functions.go: %q: unkeyed details field", name)
			}
			if id, ok := dkv.Key.(*ast.Ident); ok && id.Name == "Descriptors" {
				descs, ok = dkv.Value.(*ast.CompositeLit)
				if !ok {
					return nil, fmt.Errorf("functions.go: %q: Descriptors is not a composite literal", name)
				}
			}
		}
		if descs == nil {
			return nil, fmt.Errorf("functions.go: %q has no Descriptors", name)
		}
		for idx, de := range descs.Elts {
			dl, ok := de.(*ast.CompositeLit)
			if !ok {
				return nil, fmt.Errorf("functions.go: %q/%d: descriptor is not a composite literal", name, idx)
			}
			where := fmt.Sprintf("functions.go: %q/%d", name, idx)
			var fn ast.Expr
			for _, fe := range dl.Elts {
				fkv, ok := fe.(*ast.KeyValueExpr)
				if !ok {
					return nil, fmt.Errorf("%s: unkeyed descriptor field", where)
				}
				if id, ok := fkv.Key.(*ast.Ident); ok && id.Name == "Function" {
					fn = fkv.Value
				}
			}
			if fn == nil {
				return nil, fmt.Errorf("%s: descriptor without Function", where)
			}
			fl, err := valueFuncOf(fn, where)
			if err != nil {
				return nil, err
			}
			ks := kindSet{}
			if err := x.kindsOfBody(fl.Body, where, ks); err != nil {
				return nil, err
			}
			out[fmt.Sprintf("%s/%d", name, idx)] = ks.list()
		}
	}
	return out, nil
}

// ---------- result kinds of aggregates' Trigger methods

// triggerKinds: receiver type name -> kind ("ctor <tid>" | "input" | "inputs" | "wrapped")
func triggerKinds(repoDir string) (map[string]string, error) {
	fset := token.NewFileSet()
	pkgs, err := parser.ParseDir(fset, filepath.Join(repoDir, "aggregates"), nil, 0)
	if err != nil {
		return nil, err
	}
	out := map[string]string{}
	for _, pkg := range pkgs {
		for fname, f := range pkg.Files {
			for _, d := range f.Decls {
				fd, ok := d.(*ast.FuncDecl)
				if !ok || fd.Recv == nil || fd.Name.Name != "Trigger" || fd.Body == nil {
					continue
				}
				star, ok := fd.Recv.List[0].Type.(*ast.StarExpr)
				if !ok {
					return nil, fmt.Errorf("%s: Trigger with a non-pointer receiver", fname)
				}
				recv := star.X.(*ast.Ident).Name
				rets := returnsOf(fd.Body)
				if len(rets) != 1 || len(rets[0].Results) != 1 {
					return nil, fmt.Errorf("%s: (*%s).Trigger does not have exactly one single-result return", fname, recv)
				}
				k, err := triggerKind(rets[0].Results[0], fd.Body)
				if err != nil {
					return nil, fmt.Errorf("%s: (*%s).Trigger: %v", fname, recv, err)
				}
				out[recv] = k
			}
		}
	}
	return out, nil
}

func triggerKind(e ast.Expr, body *ast.BlockStmt) (string, error) {
	switch v := e.(type) {
	case *ast.CallExpr:
		if sel, ok := v.Fun.(*ast.SelectorExpr); ok {
			if id, ok := sel.X.(*ast.Ident); ok && id.Name == "octosql" {
				if sel.Sel.Name == "NewList" {
					// the list is built by appending `itemTyped.value` (inputs) only
					okBuild := false
					ast.Inspect(body, func(n ast.Node) bool {
						if c, ok := n.(*ast.CallExpr); ok {
							if f, ok := c.Fun.(*ast.Ident); ok && f.Name == "append" && len(c.Args) == 2 {
								if s, ok := c.Args[1].(*ast.SelectorExpr); ok && s.Sel.Name == "value" {
									okBuild = true
								} else {
									okBuild = false
									return false
								}
							}
						}
						return true
					})
					if !okBuild {
						return "", fmt.Errorf("NewList of something else than appended inputs")
					}
					return "inputs", nil
				}
				if tid, ok := c08Ctors[sel.Sel.Name]; ok && tid <= 6 {
					return fmt.Sprintf("ctor %d", tid), nil
				}
				return "", fmt.Errorf("unknown constructor octosql.%s", sel.Sel.Name)
			}
			// c.wrapped.Trigger()
			if sel.Sel.Name == "Trigger" {
				if in, ok := sel.X.(*ast.SelectorExpr); ok && in.Sel.Name == "wrapped" {
					return "wrapped", nil
				}
			}
		}
		return "", fmt.Errorf("unrecognised call result")
	case *ast.SelectorExpr:
		// c.items.Max().(*maxKey).value
		if v.Sel.Name == "value" {
			if ta, ok := v.X.(*ast.TypeAssertExpr); ok {
				if c, ok := ta.X.(*ast.CallExpr); ok {
					if s, ok := c.Fun.(*ast.SelectorExpr); ok && (s.Sel.Name == "Max" || s.Sel.Name == "Min") {
						return "input", nil
					}
				}
			}
		}
		return "", fmt.Errorf("unrecognised selector result")
	}
	return "", fmt.Errorf("unrecognised result expression %T", e)
}

// ---------- TypeFn probes

func c08ProbeTypes() []octosql.Type {
	li := octosql.Type{TypeID: octosql.TypeIDList, List: struct{ Element *octosql.Type }{Element: &octosql.Int}}
	ni := octosql.TypeSum(octosql.Null, octosql.Int)
	lni := octosql.Type{TypeID: octosql.TypeIDList, List: struct{ Element *octosql.Type }{Element: &ni}}
	st := octosql.Type{TypeID: octosql.TypeIDStruct, Struct: struct{ Fields []octosql.StructField }{Fields: []octosql.StructField{{Name: "a", Type: octosql.Int}}}}
	tu := octosql.Type{TypeID: octosql.TypeIDTuple, Tuple: struct{ Elements []octosql.Type }{Elements: []octosql.Type{octosql.Int, octosql.String}}}
	return []octosql.Type{
		octosql.Null, octosql.Int, octosql.String, octosql.Float,
		{TypeID: octosql.TypeIDList}, li, lni, st, tu,
		octosql.TypeSum(octosql.Int, octosql.String), ni, octosql.Any,
	}
}

func c08ProbeVectors() [][]octosql.Type {
	u := c08ProbeTypes()
	out := [][]octosql.Type{{}}
	for _, a := range u {
		out = append(out, []octosql.Type{a})
	}
	for _, a := range u {
		for _, b := range u {
			out = append(out, []octosql.Type{a, b})
		}
	}
	out = append(out, []octosql.Type{octosql.Int, octosql.Int, octosql.Int}, []octosql.Type{u[5], octosql.Int, octosql.Int})
	return out
}

// ---------- the extractor

func extractFuncTable(repoDir, outDir string) error {
	kinds, err := functionKinds(repoDir)
	if err != nil {
		return err
	}
	tkinds, err := triggerKinds(repoDir)
	if err != nil {
		return err
	}
	fm := c08Funcs()
	var names []string
	for n := range fm {
		names = append(names, n)
	}
	sort.Strings(names)

	var sb strings.Builder
	sb.WriteString("import Octo.Model.Ty\n")
	sb.WriteString("/-! GENERATED by `vh extract functable` — do not edit.\n")
	sb.WriteString("    `table`: every descriptor of functions.FunctionMap() (reflection: name, index, ArgumentTypes, OutputType, Strict,\n")
	sb.WriteString("    has TypeFn) with the result kinds of its `Function` body (go/ast over functions/functions.go).\n")
	sb.WriteString("    `aggTable`: every descriptor of aggregates.Aggregates with the result kind of its `Trigger` method.\n")
	sb.WriteString("    `probes` / `aggProbes`: what the real TypeFn closures answered on a probe universe of argument types. -/\n")
	sb.WriteString("namespace Octo.Gen.FuncTable\nopen Octo\n\n")
	sb.WriteString("/-- what a `return` statement of a function body yields -/\n")
	sb.WriteString("inductive Kind where\n  | ctor (tid : Nat)\n  | null\n  | arg (i : Nat)\n  | elem (i : Nat)\n  | err\n  deriving Repr, DecidableEq\n\n")
	sb.WriteString("structure Entry where\n  name : List Nat\n  idx : Nat\n  args : List Ty\n  out : Ty\n  strict : Bool\n  hasTypeFn : Bool\n  returnsNull : Bool\n  kinds : List Kind\n\n")
	sb.WriteString("def table : List Entry := [\n")
	type probe struct {
		name string
		idx  int
		args []octosql.Type
		res  string
	}
	var probes []probe
	seenKinds := map[string]bool{}
	first := true
	for _, n := range names {
		for idx, d := range fm[n].Descriptors {
			key := fmt.Sprintf("%s/%d", n, idx)
			ks, ok := kinds[key]
			if !ok {
				return fmt.Errorf("functable: descriptor %s is in FunctionMap() but not in the source text", key)
			}
			seenKinds[key] = true
			retNull := false
			lk := make([]string, len(ks))
			for i, k := range ks {
				lk[i] = "." + k
				if k == "null" {
					retNull = true
				}
			}
			if !first {
				sb.WriteString(",\n")
			}
			first = false
			fmt.Fprintf(&sb, "  ⟨%s, %d, %s, %s, %s, %s, %s, [%s]⟩  /- %q -/", leanName(n), idx, leanTys(d.ArgumentTypes), leanTy(d.OutputType),
				leanBool(d.Strict), leanBool(d.TypeFn != nil), leanBool(retNull), strings.Join(lk, ", "), n)
			if d.TypeFn != nil {
				for _, v := range c08ProbeVectors() {
					res := "none"
					var o octosql.Type
					var ok bool
					func() {
						defer func() {
							if r := recover(); r != nil {
								res = "PANIC"
							}
						}()
						o, ok = d.TypeFn(v)
					}()
					if res == "PANIC" {
						return fmt.Errorf("functable: TypeFn of %s panicked on a probe", key)
					}
					if ok {
						res = "(some " + leanTy(o) + ")"
					}
					probes = append(probes, probe{n, idx, v, res})
				}
			}
		}
	}
	for k := range kinds {
		if !seenKinds[k] {
			return fmt.Errorf("functable: descriptor %s is in the source text but not in FunctionMap()", k)
		}
	}
	sb.WriteString("\n]\n\n")

	sb.WriteString("/-- a TypeFn probe: the real closure, called on `args`, answered `result` (`none` = `(_, false)`) -/\n")
	sb.WriteString("structure Probe where\n  name : List Nat\n  idx : Nat\n  args : List Ty\n  result : Option Ty\n\n")
	sb.WriteString("def probes : List Probe := [\n")
	for i, p := range probes {
		sep := ","
		if i == len(probes)-1 {
			sep = ""
		}
		fmt.Fprintf(&sb, "  ⟨%s, %d, %s, %s⟩%s\n", leanName(p.name), p.idx, leanTys(p.args), p.res, sep)
	}
	sb.WriteString("]\n\n")

	// aggregates
	sb.WriteString("/-- what `Trigger()` yields: a constructed scalar, one of the inputs, the list of the inputs -/\n")
	sb.WriteString("inductive AggKind where\n  | ctor (tid : Nat)\n  | input\n  | inputs\n  deriving Repr, DecidableEq\n\n")
	sb.WriteString("structure AggEntry where\n  name : List Nat\n  idx : Nat\n  arg : Ty\n  out : Ty\n  hasTypeFn : Bool\n  distinct : Bool\n  kind : AggKind\n\n")
	sb.WriteString("def aggTable : List AggEntry := [\n")
	var anames []string
	for n := range aggregates.Aggregates {
		anames = append(anames, n)
	}
	sort.Strings(anames)
	type aprobe struct {
		name string
		idx  int
		arg  octosql.Type
		res  string
	}
	var aprobes []aprobe
	first = true
	for _, n := range anames {
		for idx, d := range aggregates.Aggregates[n].Descriptors {
			agg := d.Prototype()
			rt := reflect.TypeOf(agg)
			if rt.Kind() != reflect.Ptr {
				return fmt.Errorf("functable: aggregate %s/%d is not a pointer type", n, idx)
			}
			tn := rt.Elem().Name()
			distinct := false
			k, ok := tkinds[tn]
			if !ok {
				return fmt.Errorf("functable: no Trigger method found for aggregate type %s", tn)
			}
			if k == "wrapped" {
				distinct = true
				w := reflect.ValueOf(agg).Elem().FieldByName("wrapped")
				if !w.IsValid() || w.Kind() != reflect.Interface || w.IsNil() {
					return fmt.Errorf("functable: aggregate %s/%d: cannot see the wrapped aggregate", n, idx)
				}
				wt := w.Elem().Type()
				if wt.Kind() != reflect.Ptr {
					return fmt.Errorf("functable: aggregate %s/%d: wrapped aggregate is not a pointer", n, idx)
				}
				k, ok = tkinds[wt.Elem().Name()]
				if !ok || k == "wrapped" {
					return fmt.Errorf("functable: aggregate %s/%d: no Trigger kind for wrapped type %s", n, idx, wt.Elem().Name())
				}
			}
			if !first {
				sb.WriteString(",\n")
			}
			first = false
			fmt.Fprintf(&sb, "  ⟨%s, %d, %s, %s, %s, %s, .%s⟩  /- %q %s -/", leanName(n), idx, leanTy(d.ArgumentType), leanTy(d.OutputType),
				leanBool(d.TypeFn != nil), leanBool(distinct), k, n, tn)
			if d.TypeFn != nil {
				for _, t := range c08ProbeTypes() {
					res := "none"
					if o, ok := d.TypeFn(t); ok {
						res = "(some " + leanTy(o) + ")"
					}
					aprobes = append(aprobes, aprobe{n, idx, t, res})
				}
			}
		}
	}
	sb.WriteString("\n]\n\n")
	sb.WriteString("structure AggProbe where\n  name : List Nat\n  idx : Nat\n  arg : Ty\n  result : Option Ty\n\n")
	sb.WriteString("def aggProbes : List AggProbe := [\n")
	for i, p := range aprobes {
		sep := ","
		if i == len(aprobes)-1 {
			sep = ""
		}
		fmt.Fprintf(&sb, "  ⟨%s, %d, %s, %s⟩%s\n", leanName(p.name), p.idx, leanTy(p.arg), p.res, sep)
	}
	sb.WriteString("]\n\nend Octo.Gen.FuncTable\n")
	return os.WriteFile(filepath.Join(outDir, "FuncTable.lean"), []byte(sb.String()), 0o644)
}
