package main

// Generators of JSON-lines / CSV / lines documents for the file-datasource checks (C23, C24).
// Every random choice comes from the *Gen handed in.

import (
	"encoding/hex"
	"fmt"
	"math"
	"strconv"
	"strings"
	"time"

	"github.com/valyala/fastjson/fastfloat"
)

// ---------------------------------------------------------------------------------------------------------
// JSON

var jsonStrings = []string{
	"", "a", "abc", "hello world", "with \"quotes\"", "back\\slash", "new\nline", "tab\there", "cr\rhere", "\x01ctl\x1f",
	"é", "żółć", "日本語", "😀", "a😀b", "slash/es", " sep", "true", "null", "123", "1.5", "{\"x\":1}", "[1]",
	"2020-01-02", "2020-01-02T03:04:05", " 2020-01-02T03:04:05Z", "\xff\xfe", "caf\xc3", "\u0000nul",
}

var jsonTimes = []string{
	"2020-01-02T03:04:05Z", "1999-12-31T23:59:59.999999999Z", "2021-06-15T12:00:00+02:00", "2021-06-15T12:00:00.5-07:30",
	"0001-01-01T00:00:00Z", "2038-01-19T03:14:08Z", "1969-12-31T23:59:59Z",
}

var jsonNumbers = []string{
	"0", "-0", "1", "-1", "7", "42", "-17", "100", "123456789", "9007199254740993", "1.5", "-0.25", "3.14159", "0.1", "2.50",
	"1e3", "2E-2", "1.5e+10", "-4.25E3", "12345678901234567890", "0.000001", "1e-7", "123.456e2", "1E0",
}

func jString(s string) *jv {
	if t, err := time.Parse(time.RFC3339Nano, s); err == nil {
		return &jv{k: jTime, text: s, ns: t.UnixNano()}
	}
	return &jv{k: jStr, text: s}
}

func jNumOf(lit string) *jv {
	f, err := strconv.ParseFloat(lit, 64)
	if err != nil {
		panic("gen: bad number literal " + lit)
	}
	return &jv{k: jNum, bits: math.Float64bits(f), text: lit}
}

// kinds a column may hold
const (
	kNull = 1 << iota
	kNum
	kBool
	kStr
	kTime
	kArr
	kObj
)

type jcol struct {
	name    string
	kinds   int     // bit set
	present int     // probability (percent) that a row has the key
	elem    *jcol   // element profile of arrays
	fields  []*jcol // field profiles of objects
}

var jsonKeys = []string{"a", "b", "c", "id", "name", "x", "y", "ключ", "k\"q", "sp ace", "é", "n\nl", "Z", "aa", "", "t/s"}

func genJCol(g *Gen, name string, depth int) *jcol {
	c := &jcol{name: name, present: 100}
	switch g.Intn(10) {
	case 0, 1:
		c.present = 50 + g.Intn(50)
	case 2:
		c.present = 10
	}
	prim := []int{kNum, kStr, kBool, kTime, kNull}
	switch g.Intn(12) {
	case 0, 1, 2, 3:
		c.kinds = Pick(g, prim)
	case 4, 5:
		c.kinds = Pick(g, prim) | kNull
	case 6:
		c.kinds = Pick(g, prim) | Pick(g, prim)
	case 7:
		c.kinds = kStr | kTime
	case 8, 9:
		if depth > 0 {
			c.kinds = kArr
		} else {
			c.kinds = kNum
		}
	case 10:
		if depth > 0 {
			c.kinds = kObj
		} else {
			c.kinds = kStr
		}
	default:
		c.kinds = Pick(g, prim) | Pick(g, prim) | kNull
		if depth > 0 && g.Bool() {
			c.kinds |= Pick(g, []int{kArr, kObj})
		}
	}
	if c.kinds&kArr != 0 {
		c.elem = genJCol(g, "", depth-1)
		c.elem.present = 100
	}
	if c.kinds&kObj != 0 {
		n := 1 + g.Intn(3)
		seen := map[string]bool{}
		for i := 0; i < n; i++ {
			k := Pick(g, jsonKeys)
			if seen[k] {
				continue
			}
			seen[k] = true
			c.fields = append(c.fields, genJCol(g, k, depth-1))
		}
	}
	return c
}

func pickKind(g *Gen, kinds int) int {
	var ks []int
	for k := kNull; k <= kObj; k <<= 1 {
		if kinds&k != 0 {
			ks = append(ks, k)
		}
	}
	return Pick(g, ks)
}

func (c *jcol) value(g *Gen) *jv {
	switch pickKind(g, c.kinds) {
	case kNull:
		return &jv{k: jNull}
	case kNum:
		return jNumOf(Pick(g, jsonNumbers))
	case kBool:
		if g.Bool() {
			return &jv{k: jTrue}
		}
		return &jv{k: jFalse}
	case kStr:
		return jString(Pick(g, jsonStrings))
	case kTime:
		return jString(Pick(g, jsonTimes))
	case kArr:
		n := g.Intn(4)
		out := &jv{k: jArr}
		for i := 0; i < n; i++ {
			out.vals = append(out.vals, c.elem.value(g))
		}
		return out
	default:
		return c.object(g, c.fields)
	}
}

func (c *jcol) object(g *Gen, fields []*jcol) *jv {
	out := &jv{k: jObj}
	// key order varies from row to row
	order := make([]int, len(fields))
	for i := range order {
		order[i] = i
	}
	if g.Chance(1, 3) {
		for i := len(order) - 1; i > 0; i-- {
			j := g.Intn(i + 1)
			order[i], order[j] = order[j], order[i]
		}
	}
	for _, i := range order {
		f := fields[i]
		if g.Intn(100) < f.present {
			out.keys = append(out.keys, f.name)
			out.vals = append(out.vals, f.value(g))
		}
	}
	return out
}

// a foreign value: a kind the column profile does not contain (what rows beyond the preview may bring)
func foreignValue(g *Gen, c *jcol) *jv {
	all := kNull | kNum | kBool | kStr | kTime | kArr | kObj
	other := all &^ c.kinds
	if other == 0 {
		return c.value(g)
	}
	tmp := &jcol{kinds: pickKind(g, other), present: 100}
	if tmp.kinds == kArr {
		tmp.elem = &jcol{kinds: kNum, present: 100}
	}
	if tmp.kinds == kObj {
		tmp.fields = []*jcol{{name: "q", kinds: kNum, present: 100}}
	}
	return tmp.value(g)
}

var rowCounts = []int{0, 1, 2, 3, 5, 63, 64, 65, 99, 100, 101, 127, 128, 129, 130, 200, 257}

// genJSONDoc: a file of n rows over a random column profile.  strict = every row beyond the preview keeps to the
// profile (the file must be readable); otherwise a few late rows bring foreign kinds, missing or extra keys.
func genJSONDoc(g *Gen, n int, strict bool) []*jv {
	ncols := 1 + g.Intn(4)
	root := &jcol{}
	seen := map[string]bool{}
	for i := 0; i < ncols; i++ {
		k := Pick(g, jsonKeys)
		if seen[k] {
			continue
		}
		seen[k] = true
		root.fields = append(root.fields, genJCol(g, k, 2))
	}
	// regime change inside the preview: from row `sw` on some columns disappear, appear or change their kinds
	after := &jcol{fields: append([]*jcol(nil), root.fields...)}
	sw := n + 1
	if g.Chance(1, 2) && n > 1 {
		sw = 1 + g.Intn(min(n, 100)-1)
		for i := range after.fields {
			switch g.Intn(4) {
			case 0:
				c := *after.fields[i]
				c.present = 0
				after.fields[i] = &c
			case 1:
				after.fields[i] = genJCol(g, after.fields[i].name, 2)
			}
		}
		if g.Chance(1, 3) {
			after.fields = append(after.fields, genJCol(g, "late", 1))
		}
	}
	rows := make([]*jv, n)
	for i := range rows {
		if i < sw {
			rows[i] = root.object(g, root.fields)
		} else {
			rows[i] = after.object(g, after.fields)
		}
		if !strict && i >= 100 && g.Chance(1, 8) && len(root.fields) > 0 {
			row := rows[i]
			switch g.Intn(3) {
			case 0: // a foreign kind in one column
				f := Pick(g, root.fields)
				for j, k := range row.keys {
					if k == f.name {
						row.vals[j] = foreignValue(g, f)
					}
				}
			case 1: // an extra key
				row.keys = append(row.keys, "extra_key")
				row.vals = append(row.vals, jNumOf("1"))
			default: // a key goes missing
				if len(row.keys) > 0 {
					j := g.Intn(len(row.keys))
					row.keys = append(row.keys[:j:j], row.keys[j+1:]...)
					row.vals = append(row.vals[:j:j], row.vals[j+1:]...)
				}
			}
		}
	}
	return rows
}

func jsonOp(seed uint64, rows []*jv) string {
	var sb strings.Builder
	fmt.Fprintf(&sb, "json %d %d", seed, len(rows))
	for _, r := range rows {
		sb.WriteByte(' ')
		r.encode(&sb)
	}
	return sb.String()
}

// ---------------------------------------------------------------------------------------------------------
// CSV

func mkCell(s string) cell {
	c := cell{s: s, pf: "-", ff: "-", tm: "-"}
	if f, err := strconv.ParseFloat(s, 64); err == nil {
		c.pf = fmt.Sprintf("%016x", math.Float64bits(f))
	}
	if f, err := fastfloat.Parse(s); err == nil {
		c.ff = fmt.Sprintf("%016x", math.Float64bits(f))
	}
	if t, err := time.Parse(time.RFC3339Nano, s); err == nil {
		c.tm = strconv.FormatInt(t.UnixNano(), 10)
	}
	return c
}

var csvInts = []string{"0", "1", "-1", "+5", "007", "-0", "+0", "42", "9223372036854775807", "-9223372036854775808",
	"123456789012345678", "1234567890123456789", "-123456789012345678", "-1234567890123456789", "+123456789012345678"}
var csvFloats = []string{"1.5", "-2.5e3", ".5", "5.", "+1.5", "0x1p3", "1e5", "1E5", "inf", "-Inf", "+inf", "Infinity", "nan", "NaN",
	"9223372036854775808", "0.1", "3.141592653589793", "1.e5", "1e-320", "0x1.8p1", "-.5e1", "1_0", "12345678901234567890.5"}
var csvOdd = []string{"+nan", "-+inf", "1e400", "-1e400", "1e", "e5", "--1", "0x", "1.5.5", "١٢٣", "1 ", " 1", "+", "-", "."}
var csvBools = []string{"t", "T", "true", "TRUE", "True", "f", "F", "false", "FALSE", "False"}
var csvTimes = []string{"2020-01-02T03:04:05Z", "1999-12-31T23:59:59.999999999Z", "2021-06-15T12:00:00+02:00", "2038-01-19T03:14:08Z"}
var csvStrs = []string{"abc", "a,b", "a\"b", "line\nbreak", " lead", "trail ", "é😀", "tab\tin", "tRuE", "2020-01-02", "x", "N/A", "null",
	"\"", "\"\"", ",", "a;b", "#c", "żółć", "\\.", "日本"}

const (
	cEmpty = 1 << iota
	cInt
	cFloat
	cBool
	cTime
	cStr
	cOdd
)

func csvCellOf(g *Gen, kinds int) string {
	var ks []int
	for k := cEmpty; k <= cOdd; k <<= 1 {
		if kinds&k != 0 {
			ks = append(ks, k)
		}
	}
	switch Pick(g, ks) {
	case cEmpty:
		return ""
	case cInt:
		if g.Chance(1, 3) {
			return strconv.FormatInt(int64(g.U64()>>uint(g.Intn(64))), 10)
		}
		return Pick(g, csvInts)
	case cFloat:
		return Pick(g, csvFloats)
	case cBool:
		return Pick(g, csvBools)
	case cTime:
		return Pick(g, csvTimes)
	case cOdd:
		return Pick(g, csvOdd)
	default:
		return Pick(g, csvStrs)
	}
}

func genCsvKinds(g *Gen) int {
	prim := []int{cInt, cFloat, cBool, cTime, cStr}
	switch g.Intn(10) {
	case 0, 1, 2:
		return Pick(g, prim)
	case 3, 4:
		return Pick(g, prim) | cEmpty
	case 5:
		return cInt | cFloat
	case 6:
		return Pick(g, prim) | Pick(g, prim)
	case 7:
		return cEmpty
	case 8:
		return Pick(g, prim) | cOdd
	default:
		return Pick(g, prim) | Pick(g, prim) | Pick(g, []int{cEmpty, cOdd, cStr})
	}
}

var csvNames = []string{"a", "b", "id", "name", "col,comma", "col\"quote", "é", "", "x y", "a"}

type csvDoc struct {
	sep    byte // 'c' or 't'
	header bool
	names  []string
	rows   [][]string
	ragged map[int]bool
}

// genCSVDoc: n rows; late = rows beyond the preview may bring kinds the column has not shown before
func genCSVDoc(g *Gen, n int, late bool) *csvDoc {
	d := &csvDoc{sep: 'c', header: !g.Chance(1, 5), ragged: map[int]bool{}}
	if g.Chance(1, 4) {
		d.sep = 't'
	}
	ncols := 1 + g.Intn(4)
	kinds := make([]int, ncols)
	used := map[string]bool{}
	for i := range kinds {
		kinds[i] = genCsvKinds(g)
		name := Pick(g, csvNames)
		// a repeated column name is an error at schema time: keep it rare
		for used[name] && !g.Chance(1, 12) {
			name = Pick(g, csvNames) + strconv.Itoa(g.Intn(50))
		}
		used[name] = true
		d.names = append(d.names, name)
	}
	// regime change inside the preview: from row `sw` on some columns change their kinds (widening rules late in the preview)
	sw := n + 1
	kindsAfter := append([]int(nil), kinds...)
	if g.Chance(1, 2) && n > 1 {
		sw = 1 + g.Intn(min(n, 100)-1)
		for i := range kindsAfter {
			if g.Chance(1, 2) {
				kindsAfter[i] = genCsvKinds(g)
			}
		}
	}
	for r := 0; r < n; r++ {
		row := make([]string, ncols)
		for i := range row {
			k := kinds[i]
			if r >= sw {
				k = kindsAfter[i]
			}
			if late && r >= 100 && g.Chance(1, 10) {
				k = Pick(g, []int{cEmpty, cInt, cFloat, cBool, cTime, cStr, cOdd})
			}
			row[i] = csvCellOf(g, k)
		}
		d.rows = append(d.rows, row)
	}
	return d
}

func (d *csvDoc) op(seed uint64) string {
	var sb strings.Builder
	h := "n"
	if d.header {
		h = "h"
	}
	ncols := len(d.names)
	fmt.Fprintf(&sb, "csv %d %c %s %d", seed, d.sep, h, ncols)
	for _, n := range d.names {
		sb.WriteString(" x" + hex.EncodeToString([]byte(n)))
	}
	fmt.Fprintf(&sb, " %d", len(d.rows))
	for _, r := range d.rows {
		if len(r) != ncols {
			fmt.Fprintf(&sb, " r%d", len(r))
		}
		for _, c := range r {
			sb.WriteString(" " + mkCell(c).token())
		}
	}
	return sb.String()
}

// ---------------------------------------------------------------------------------------------------------
// lines

var lineSeps = []string{",", "XY", "aa", "aba", "\r\n", "é", "abc", "||", "\x00", "ab", " "}

func genLinesContent(g *Gen, sep string, big bool) string {
	pieces := []string{"", "a", "b", "ab", "X", "Y", "XYX", "aXa", "hello", "é", "ż😀", "\r", "x\r", "line", " ", "aaa", "abab", "c", "|", "a|"}
	// partial separators make overlapping / straddling occurrences
	for i := 1; i < len(sep); i++ {
		pieces = append(pieces, sep[:i], sep[i:])
	}
	var sb strings.Builder
	n := g.Intn(8)
	if big {
		n = 200 + g.Intn(2000)
	}
	for i := 0; i < n; i++ {
		if big && g.Chance(1, 50) {
			sb.WriteString(strings.Repeat(Pick(g, []string{"z", "é", "ab"}), 500+g.Intn(3000)))
		}
		sb.WriteString(Pick(g, pieces))
		if g.Chance(3, 4) {
			sb.WriteString(sep)
		}
	}
	if g.Chance(1, 3) {
		sb.WriteString(sep)
	}
	return sb.String()
}

// a separator placed exactly across a buffer boundary (bufio.Scanner starts with 4096 bytes and doubles)
func genStraddle(g *Gen, sep string) string {
	boundary := Pick(g, []int{4096, 4096, 8192, 16384, 32768})
	off := g.Intn(len(sep) + 1)
	var sb strings.Builder
	sb.WriteString("h" + sep)
	fill := boundary - off - sb.Len()
	sb.WriteString(strings.Repeat("f", fill))
	sb.WriteString(sep)
	sb.WriteString("tail")
	if g.Bool() {
		sb.WriteString(sep)
	}
	return sb.String()
}

func linesOp(sep *string, content string) string {
	st := "-"
	if sep != nil {
		st = "s" + hex.EncodeToString([]byte(*sep))
	}
	return "lines " + st + " c" + hex.EncodeToString([]byte(content))
}

// ---------------------------------------------------------------------------------------------------------
// positional late rows: 100 previewed rows fix the column type, then ONE row beyond the preview carries a nested
// value in which exactly one element / field is replaced — at the first, a middle and the last position — by a
// value of another kind (the row cannot be represented: an error is expected), or is left conforming (the row must be
// read back unchanged).  Catches conversions that let one position decide for the whole list / object / union.

func jArrOf(vs ...*jv) *jv { return &jv{k: jArr, vals: vs} }
func jObjOf(kv ...interface{}) *jv {
	o := &jv{k: jObj}
	for i := 0; i+1 < len(kv); i += 2 {
		o.keys = append(o.keys, kv[i].(string))
		o.vals = append(o.vals, kv[i+1].(*jv))
	}
	return o
}

func jClone(v *jv) *jv {
	c := *v
	c.keys = append([]string(nil), v.keys...)
	c.vals = make([]*jv, len(v.vals))
	for i, x := range v.vals {
		c.vals[i] = jClone(x)
	}
	return &c
}

// jReplace returns a copy of v with the node at path (indices into vals) replaced by repl
func jReplace(v *jv, path []int, repl *jv) *jv {
	if len(path) == 0 {
		return jClone(repl)
	}
	c := jClone(v)
	c.vals[path[0]] = jReplace(v.vals[path[0]], path[1:], repl)
	return c
}

type posShape struct {
	preview []*jv   // values of column "c" in the previewed rows (cycled)
	late    *jv     // a conforming late value
	paths   [][]int // positions inside `late` at which an element / field is replaced
	bad     []*jv   // replacements that do not fit the element / field type there
	good    []*jv   // replacements that do fit
}

func positionalShapes() []posShape {
	n := jNumOf
	s := jString
	null := &jv{k: jNull}
	obj := func(p, q *jv) *jv { return jObjOf("p", p, "q", q) }
	return []posShape{
		{ // [Float]
			preview: []*jv{jArrOf(n("1"), n("2.5"), n("3")), jArrOf(n("7"))},
			late:    jArrOf(n("1"), n("2"), n("3"), n("4"), n("5")),
			paths:   [][]int{{0}, {2}, {4}},
			bad:     []*jv{s("x"), null, jArrOf(n("1")), jObjOf("k", n("1")), {k: jTrue}},
			good:    []*jv{n("9.5")},
		},
		{ // [String | Null]
			preview: []*jv{jArrOf(s("a"), null), jArrOf(s("b"))},
			late:    jArrOf(s("u"), s("v"), s("w"), s("x")),
			paths:   [][]int{{0}, {1}, {3}},
			bad:     []*jv{n("1"), jArrOf(s("y")), {k: jFalse}},
			good:    []*jv{null, s("")},
		},
		{ // [[Float]]
			preview: []*jv{jArrOf(jArrOf(n("1")), jArrOf(n("2"), n("3"))), jArrOf(jArrOf(n("4")))},
			late:    jArrOf(jArrOf(n("1"), n("2"), n("3")), jArrOf(n("4"), n("5"), n("6")), jArrOf(n("7"), n("8"), n("9"))),
			paths:   [][]int{{0}, {1}, {2}, {0, 0}, {0, 2}, {1, 1}, {2, 0}, {2, 2}},
			bad:     []*jv{s("x"), null, jObjOf("k", n("1"))},
			good:    nil,
		},
		{ // [{p: Float, q: String}]
			preview: []*jv{jArrOf(obj(n("1"), s("a")), obj(n("2"), s("b"))), jArrOf(obj(n("3"), s("c")))},
			late:    jArrOf(obj(n("1"), s("a")), obj(n("2"), s("b")), obj(n("3"), s("c"))),
			paths:   [][]int{{0}, {1}, {2}, {0, 0}, {0, 1}, {1, 0}, {1, 1}, {2, 0}, {2, 1}},
			bad:     []*jv{{k: jTrue}, null, jArrOf(n("1"))},
			good:    nil,
		},
		{ // {a: Float, b: String, c: Bool, l: [Float]}
			preview: []*jv{jObjOf("a", n("1"), "b", s("x"), "c", &jv{k: jTrue}, "l", jArrOf(n("1"), n("2")))},
			late:    jObjOf("a", n("2"), "b", s("y"), "c", &jv{k: jFalse}, "l", jArrOf(n("3"), n("4"), n("5"))),
			paths:   [][]int{{0}, {1}, {2}, {3}, {3, 0}, {3, 1}, {3, 2}},
			bad:     []*jv{null, jObjOf("z", n("1")), jArrOf(s("q"))},
			good:    nil,
		},
		{ // [Float] | String   (a union column: the alternative is chosen per value)
			preview: []*jv{jArrOf(n("1"), n("2")), s("text")},
			late:    jArrOf(n("1"), n("2"), n("3")),
			paths:   [][]int{{0}, {1}, {2}},
			bad:     []*jv{s("x"), null, {k: jTrue}},
			good:    []*jv{n("0")},
		},
		{ // {k: Float} | String | Null
			preview: []*jv{jObjOf("k", n("1"), "m", s("a")), s("text"), null},
			late:    jObjOf("k", n("2"), "m", s("b")),
			paths:   [][]int{{0}, {1}},
			bad:     []*jv{jArrOf(n("1")), {k: jTrue}, null},
			good:    nil,
		},
	}
}

// genPositional writes the positional files; every = 1 writes all of them, a larger value every n-th bad case
func genPositional(g *Gen, every int, emit func(op string)) {
	count := 0
	file := func(sh posShape, late *jv, extraBefore int) {
		var rows []*jv
		for r := 0; r < 100; r++ {
			rows = append(rows, jObjOf("c", sh.preview[r%len(sh.preview)]))
		}
		// conforming rows beyond the preview before (and after) the interesting one
		for r := 0; r < extraBefore; r++ {
			rows = append(rows, jObjOf("c", sh.late))
		}
		rows = append(rows, jObjOf("c", late))
		if extraBefore > 0 {
			rows = append(rows, jObjOf("c", sh.late))
		}
		emit(jsonOp(g.U64()>>1, rows))
	}
	for _, sh := range positionalShapes() {
		file(sh, sh.late, 0) // the conforming direction
		for _, p := range sh.paths {
			for _, good := range sh.good {
				file(sh, jReplace(sh.late, p, good), g.Intn(2))
			}
			for _, bad := range sh.bad {
				count++
				if count%every != 0 {
					continue
				}
				file(sh, jReplace(sh.late, p, bad), g.Intn(3))
			}
		}
	}
}
