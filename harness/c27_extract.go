package main

// Translator piece for C27/C28 (DESIGN §2.2a): `vh extract installsteps` reads the CURRENT sources of
//
//	plugins/manager/manager.go       Install, GetPluginBinaryPath, ListInstalledPlugins
//	plugins/manager/extensions.go    saveFileExtensionHandlers
//	plugins/repository/repository.go AddRepository
//
// and writes lean/Octo/Gen/InstallSteps.lean:
//   - for Install / saveFileExtensionHandlers / AddRepository the ordered list of filesystem calls, each with the
//     crash point (`verifhook.CrashPoint("…")`) that precedes it and the source text of its path arguments;
//   - the source text of the expressions that define those paths;
//   - the string literals ListInstalledPlugins strips / skips and the format string Install builds directory names with.
//
// The Lean side proves (`Octo.C27.steps_tie`, `paths_tie`, `Octo.C28.literals_tie`) that the hand-written model
// (`installPrims`, `addRepoPrims`, the path functions, `pluginPrefix`) is exactly what these facts say.
// Fails closed: a filesystem-modifying call without a crash point, a crash point without a call, an `os.` function
// it does not know, a missing function or literal are all errors.

import (
	"bytes"
	"fmt"
	"go/ast"
	"go/parser"
	"go/printer"
	"go/token"
	"os"
	"path/filepath"
	"sort"
	"strings"
)

func init() {
	registerExtractor("installsteps", extractInstallSteps)
}

type fsStep struct {
	point string
	call  string
	args  []string
}

type stepWalker struct {
	fset    *token.FileSet
	pending string
	steps   []fsStep
	files   map[string]string // file variable -> path expression it was created from
	paths   map[string]string // path variable -> defining expression
	err     error
}

func (w *stepWalker) text(n ast.Node) string {
	var b bytes.Buffer
	printer.Fprint(&b, w.fset, n)
	return strings.Join(strings.Fields(b.String()), " ")
}

func (w *stepWalker) fail(pos token.Pos, format string, a ...interface{}) {
	if w.err == nil {
		w.err = fmt.Errorf("%s: %s", w.fset.Position(pos), fmt.Sprintf(format, a...))
	}
}

// calls that only read, or do not touch the file system
var harmlessOS = map[string]bool{"ReadFile": true, "ReadDir": true, "IsNotExist": true, "LookupEnv": true, "ModePerm": true, "Stat": true}

func selName(e ast.Expr) (pkg, name string, ok bool) {
	s, ok := e.(*ast.SelectorExpr)
	if !ok {
		return "", "", false
	}
	if id, ok := s.X.(*ast.Ident); ok {
		return id.Name, s.Sel.Name, true
	}
	return "", s.Sel.Name, true
}

func (w *stepWalker) emit(pos token.Pos, call string, args ...string) {
	if w.pending == "" {
		w.fail(pos, "filesystem call %s without a preceding verifhook.CrashPoint", call)
		return
	}
	w.steps = append(w.steps, fsStep{w.pending, call, args})
	w.pending = ""
}

// statOf: `if _, err := os.Stat(X); err == nil { … os.Rename(X, Y) … }` → (X, Y)
func (w *stepWalker) statRename(s *ast.IfStmt) (string, string, bool) {
	as, ok := s.Init.(*ast.AssignStmt)
	if !ok || len(as.Rhs) != 1 {
		return "", "", false
	}
	call, ok := as.Rhs[0].(*ast.CallExpr)
	if !ok {
		return "", "", false
	}
	if p, n, ok := selName(call.Fun); !ok || p != "os" || n != "Stat" || len(call.Args) != 1 {
		return "", "", false
	}
	if w.text(s.Cond) != "err == nil" || s.Else != nil {
		w.fail(s.Pos(), "os.Stat guard of unknown shape: %s", w.text(s.Cond))
		return "", "", false
	}
	x := w.text(call.Args[0])
	var renames [][]string
	ast.Inspect(s.Body, func(n ast.Node) bool {
		if c, ok := n.(*ast.CallExpr); ok {
			if p, nm, ok := selName(c.Fun); ok && p == "os" {
				if nm == "Rename" && len(c.Args) == 2 {
					renames = append(renames, []string{w.text(c.Args[0]), w.text(c.Args[1])})
				} else if !harmlessOS[nm] {
					w.fail(c.Pos(), "unexpected os.%s under an os.Stat guard", nm)
				}
			}
		}
		return true
	})
	if len(renames) != 1 || renames[0][0] != x {
		w.fail(s.Pos(), "os.Stat guard does not contain exactly one os.Rename of the stat'ed path")
		return "", "", false
	}
	return x, renames[0][1], true
}

func (w *stepWalker) walk(n ast.Node) {
	ast.Inspect(n, func(n ast.Node) bool {
		if w.err != nil {
			return false
		}
		switch s := n.(type) {
		case *ast.IfStmt:
			if x, y, ok := w.statRename(s); ok {
				w.emit(s.Pos(), "os.Stat?os.Rename", x, y)
				return false
			}
		case *ast.AssignStmt:
			// remember what path variables and file variables stand for
			if len(s.Lhs) >= 1 && len(s.Rhs) == 1 {
				if id, ok := s.Lhs[0].(*ast.Ident); ok {
					if c, ok := s.Rhs[0].(*ast.CallExpr); ok {
						if p, nm, ok := selName(c.Fun); ok && p == "os" && nm == "Create" && len(c.Args) == 1 {
							w.files[id.Name] = w.text(c.Args[0])
						}
						if p, nm, ok := selName(c.Fun); ok && ((p == "filepath" && nm == "Join") || (p == "fmt" && nm == "Sprintf")) {
							w.paths[id.Name] = w.text(s.Rhs[0])
						}
					}
					if b, ok := s.Rhs[0].(*ast.BinaryExpr); ok && b.Op == token.ADD && s.Tok == token.DEFINE {
						w.paths[id.Name] = w.text(s.Rhs[0])
					}
				}
			}
		case *ast.CallExpr:
			p, nm, ok := selName(s.Fun)
			if !ok {
				return true
			}
			switch {
			case p == "verifhook" && nm == "CrashPoint":
				lit, ok := s.Args[0].(*ast.BasicLit)
				if !ok {
					w.fail(s.Pos(), "CrashPoint argument is not a literal")
					return false
				}
				if w.pending != "" {
					w.fail(s.Pos(), "crash point %s is not followed by a filesystem call", w.pending)
					return false
				}
				w.pending = strings.Trim(lit.Value, `"`)
				return false
			case p == "os" && (nm == "RemoveAll" || nm == "MkdirAll" || nm == "Create" || nm == "Remove"):
				w.emit(s.Pos(), "os."+nm, w.text(s.Args[0]))
			case p == "os" && nm == "Rename":
				w.emit(s.Pos(), "os.Rename", w.text(s.Args[0]), w.text(s.Args[1]))
			case p == "os" && nm == "WriteFile":
				w.emit(s.Pos(), "os.WriteFile", w.text(s.Args[0]))
			case p == "io" && nm == "Copy":
				f := w.text(s.Args[0])
				path, ok := w.files[f]
				if !ok {
					w.fail(s.Pos(), "io.Copy into %s, which is not a file created with os.Create in this function", f)
					return false
				}
				w.emit(s.Pos(), "io.Copy", path)
			case nm == "Unarchive" && len(s.Args) == 2:
				w.emit(s.Pos(), "Unarchive", w.text(s.Args[0]), w.text(s.Args[1]))
			case p == "os" && !harmlessOS[nm]:
				w.fail(s.Pos(), "unknown os.%s: teach the extractor (and the model) about it", nm)
			case p == "ioutil" || (p == "os" && nm == "OpenFile"):
				w.fail(s.Pos(), "unknown filesystem call %s.%s", p, nm)
			}
		}
		return true
	})
	if w.err == nil && w.pending != "" {
		w.err = fmt.Errorf("crash point %s is not followed by a filesystem call", w.pending)
	}
}

func findFunc(f *ast.File, name string) *ast.FuncDecl {
	for _, d := range f.Decls {
		if fd, ok := d.(*ast.FuncDecl); ok && fd.Name.Name == name {
			return fd
		}
	}
	return nil
}

// packageVarInit: `var name = func() string { return EXPR }()` → text of EXPR (the last return)
func packageVarInit(fset *token.FileSet, f *ast.File, name string) (string, error) {
	for _, d := range f.Decls {
		gd, ok := d.(*ast.GenDecl)
		if !ok || gd.Tok != token.VAR {
			continue
		}
		for _, s := range gd.Specs {
			vs := s.(*ast.ValueSpec)
			if len(vs.Names) == 1 && vs.Names[0].Name == name && len(vs.Values) == 1 {
				var last string
				ast.Inspect(vs.Values[0], func(n ast.Node) bool {
					if r, ok := n.(*ast.ReturnStmt); ok && len(r.Results) == 1 {
						var b bytes.Buffer
						printer.Fprint(&b, fset, r.Results[0])
						last = strings.Join(strings.Fields(b.String()), " ")
					}
					return true
				})
				if last == "" {
					return "", fmt.Errorf("package variable %s: no return expression found", name)
				}
				return last, nil
			}
		}
	}
	return "", fmt.Errorf("package variable %s not found", name)
}

// literalArg: the string literal passed as argument #idx of the only call pkg.fn(...) inside fd whose first
// argument prints as firstArg
func literalArg(w *stepWalker, fd *ast.FuncDecl, pkg, fn, firstArg string, idx int) (string, error) {
	var found []string
	ast.Inspect(fd, func(n ast.Node) bool {
		if c, ok := n.(*ast.CallExpr); ok {
			if p, nm, ok := selName(c.Fun); ok && p == pkg && nm == fn && len(c.Args) > idx && (firstArg == "" || w.text(c.Args[0]) == firstArg) {
				if lit, ok := c.Args[idx].(*ast.BasicLit); ok && lit.Kind == token.STRING {
					found = append(found, strings.Trim(lit.Value, `"`))
				}
			}
		}
		return true
	})
	if len(found) != 1 {
		return "", fmt.Errorf("%s: expected exactly one %s.%s(%s, …) with a literal, found %d", fd.Name.Name, pkg, fn, firstArg, len(found))
	}
	return found[0], nil
}

func leanStr27(s string) string {
	return `"` + strings.NewReplacer(`\`, `\\`, `"`, `\"`).Replace(s) + `"`
}

func leanSteps(name string, steps []fsStep) string {
	var sb strings.Builder
	fmt.Fprintf(&sb, "def %s : List (String × String × List String) := [", name)
	for i, s := range steps {
		if i > 0 {
			sb.WriteString(",")
		}
		args := make([]string, len(s.args))
		for k, a := range s.args {
			args[k] = leanStr27(a)
		}
		fmt.Fprintf(&sb, "\n  (%s, %s, [%s])", leanStr27(s.point), leanStr27(s.call), strings.Join(args, ", "))
	}
	sb.WriteString("]\n")
	return sb.String()
}

func extractInstallSteps(repoDir, outDir string) error {
	fset := token.NewFileSet()
	parse := func(rel string) (*ast.File, error) {
		return parser.ParseFile(fset, filepath.Join(repoDir, filepath.FromSlash(rel)), nil, 0)
	}
	mgr, err := parse("plugins/manager/manager.go")
	if err != nil {
		return err
	}
	ext, err := parse("plugins/manager/extensions.go")
	if err != nil {
		return err
	}
	rep, err := parse("plugins/repository/repository.go")
	if err != nil {
		return err
	}
	type target struct {
		file *ast.File
		fn   string
		lean string
	}
	var sb strings.Builder
	sb.WriteString("/-! GENERATED by `vh extract installsteps` from plugins/manager/manager.go, plugins/manager/extensions.go,\n")
	sb.WriteString("    plugins/repository/repository.go — do not edit. -/\n")
	sb.WriteString("namespace Octo.Gen.InstallSteps\n")
	allPaths := map[string]string{}
	for _, t := range []target{{mgr, "Install", "install"}, {ext, "saveFileExtensionHandlers", "saveFileExtensionHandlers"}, {rep, "AddRepository", "addRepository"}} {
		fd := findFunc(t.file, t.fn)
		if fd == nil {
			return fmt.Errorf("function %s not found", t.fn)
		}
		w := &stepWalker{fset: fset, files: map[string]string{}, paths: map[string]string{}}
		w.walk(fd.Body)
		if w.err != nil {
			return w.err
		}
		if len(w.steps) == 0 {
			return fmt.Errorf("%s: no filesystem steps found", t.fn)
		}
		fmt.Fprintf(&sb, "/-- the filesystem calls of `%s` in program order: (crash point before the call, call, path arguments) -/\n", t.fn)
		sb.WriteString(leanSteps(t.lean, w.steps))
		used := map[string]bool{}
		for _, s := range w.steps {
			for _, a := range s.args {
				used[a] = true
			}
		}
		// path variables the steps mention, and the variables those are built from
		for changed := true; changed; {
			changed = false
			for v, e := range w.paths {
				if used[v] {
					for u := range w.paths {
						if !used[u] && strings.Contains(e, u) {
							used[u] = true
							changed = true
						}
					}
				}
			}
		}
		for v, e := range w.paths {
			if used[v] {
				allPaths[t.fn+"."+v] = e
			}
		}
	}
	// GetPluginBinaryPath
	{
		fd := findFunc(mgr, "GetPluginBinaryPath")
		if fd == nil {
			return fmt.Errorf("function GetPluginBinaryPath not found")
		}
		w := &stepWalker{fset: fset, files: map[string]string{}, paths: map[string]string{}}
		ast.Inspect(fd.Body, func(n ast.Node) bool {
			if s, ok := n.(*ast.AssignStmt); ok && len(s.Lhs) == 1 && len(s.Rhs) == 1 && s.Tok == token.DEFINE {
				if id, ok := s.Lhs[0].(*ast.Ident); ok && (id.Name == "fullName" || id.Name == "binaryPath") {
					allPaths["GetPluginBinaryPath."+id.Name] = w.text(s.Rhs[0])
				}
			}
			return true
		})
		if allPaths["GetPluginBinaryPath.fullName"] == "" || allPaths["GetPluginBinaryPath.binaryPath"] == "" {
			return fmt.Errorf("GetPluginBinaryPath: fullName / binaryPath definitions not found")
		}
	}
	for _, pv := range []struct {
		f    *ast.File
		name string
	}{{ext, "octosqlFileExtensionHandlersFile"}, {rep, "repositoriesDir"}} {
		e, err := packageVarInit(fset, pv.f, pv.name)
		if err != nil {
			return err
		}
		allPaths[pv.name] = e
	}
	keys := make([]string, 0, len(allPaths))
	for k := range allPaths {
		keys = append(keys, k)
	}
	sort.Strings(keys)
	sb.WriteString("/-- how the paths above are built: (function.variable, source text of the defining expression) -/\n")
	sb.WriteString("def paths : List (String × String) := [")
	for i, k := range keys {
		if i > 0 {
			sb.WriteString(",")
		}
		fmt.Fprintf(&sb, "\n  (%s, %s)", leanStr27(k), leanStr27(allPaths[k]))
	}
	sb.WriteString("]\n")
	// ListInstalledPlugins literals
	lf := findFunc(mgr, "ListInstalledPlugins")
	if lf == nil {
		return fmt.Errorf("function ListInstalledPlugins not found")
	}
	w := &stepWalker{fset: fset}
	trim, err := literalArg(w, lf, "strings", "TrimPrefix", "dir.Name()", 1)
	if err != nil {
		return err
	}
	skip, err := literalArg(w, lf, "strings", "HasPrefix", "version.Name()", 1)
	if err != nil {
		return err
	}
	sb.WriteString("/-- ListInstalledPlugins: `strings.TrimPrefix(dir.Name(), …)` -/\n")
	fmt.Fprintf(&sb, "def listTrimPrefix : String := %s\n", leanStr27(trim))
	sb.WriteString("/-- ListInstalledPlugins: entries with `strings.HasPrefix(version.Name(), …)` are skipped -/\n")
	fmt.Fprintf(&sb, "def listSkipPrefix : String := %s\n", leanStr27(skip))
	sb.WriteString("end Octo.Gen.InstallSteps\n")
	if err := os.MkdirAll(outDir, 0o755); err != nil {
		return err
	}
	return os.WriteFile(filepath.Join(outDir, "InstallSteps.lean"), []byte(sb.String()), 0o644)
}
