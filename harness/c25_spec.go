package main

// C25, second half of the tie: the *readers* the Lean specification uses (RFC 8259 parser, exact
// decimal→binary64 conversion, RFC 3339 and duration readers) are themselves compared with Go's parsers.
//   jvalid <hex>  encoding/json.Valid      pf <hex>  strconv.ParseFloat
//   ptime <hex>   time.Parse(RFC3339Nano)  pdur <hex> time.ParseDuration

import (
	"bufio"
	"bytes"
	"encoding/hex"
	"encoding/json"
	"fmt"
	"math"
	"math/big"
	"strconv"
	"strings"
	"time"

	"github.com/cube2222/octosql/octosql"
	"github.com/cube2222/octosql/outputs/formats"
	"github.com/cube2222/octosql/physical"
)

func c25SpecDrive(toks []string) (string, bool) {
	arg := []byte{}
	if len(toks) > 1 {
		arg, _ = hex.DecodeString(toks[1])
	}
	switch toks[0] {
	case "jvalid":
		if json.Valid(arg) {
			return "1", true
		}
		return "0", true
	case "pf":
		f, err := strconv.ParseFloat(string(arg), 64)
		if err != nil && !strings.Contains(err.Error(), "value out of range") {
			return "invalid", true
		}
		return fmt.Sprintf("%016x", math.Float64bits(f)), true
	case "ptime":
		t, err := time.Parse(time.RFC3339Nano, string(arg))
		if err != nil {
			return "none", true
		}
		return strconv.FormatInt(t.UnixNano(), 10), true
	case "pdur":
		d, err := time.ParseDuration(string(arg))
		if err != nil {
			return "none", true
		}
		return strconv.FormatInt(int64(d), 10), true
	}
	return "", false
}

var c25JsonTexts = []string{
	"", " ", "null", " null ", "nul", "nulll", "true", "truee", "false", "fals", "[]", "[ ]", "{}", "{ }", "[] []", "[],", "[1,]", "[,1]", "[1 2]", "[1,2]", "{,}",
	`{"a"}`, `{"a":}`, `{"a":1,}`, `{"a":1,"a":2}`, `{a:1}`, `{"a" : [ 1 , { "b" : null } ] }`, "[[[[[[[[]]]]]]]]", "[[[[", "]", "}", "[}", "{]",
	"0", "-0", "00", "01", "-01", "1.", ".5", "-.5", "1.5", "-", "+1", "1e", "1e+", "1e-", "1e5", "1E5", "1e+5", "1e-5", "1.5e10", "0e0", "-0.0e-0", "1e05", "0x10", "1_0",
	"--1", "1-2", "1+2", "1.2.3", "1e2e3", "Infinity", "NaN", "-Infinity", "1 ", "\t1\n", "\r\n1", "\v1", "\f1", "1\x00",
	`""`, `"a"`, `"a`, `a"`, `"\""`, `"\\"`, `"\/"`, `"\b\f\n\r\t"`, `"\a"`, `"\v"`, `"\x00"`, `"\0"`, `"\u0000"`, `"\u12"`, `"\u123g"`, `"\u00e9"`, `"\U0001f600"`, `"\u0041\u0042"`,
	"\"\x00\"", "\"\x1f\"", "\"\x7f\"", "\"\t\"", "\"\n\"", "\"\xff\"", "\"\xc3\xa9\"", "\"\xe2\x82\"", `"\`, `"\u`, `"\u0`, `'a'`, `"a" "b"`, `"a",`, `["a":1]`, `{"a":1:2}`, `{"a",1}`,
	"\ufeff1", "1\ufeff", "/*c*/1", "1//c", "[1,\n2]", "{\"a\"\n:\n1\n}",
}

func c25Mutate(g *Gen, b []byte) []byte {
	out := append([]byte{}, b...)
	for k := 1 + g.Intn(2); k > 0; k-- {
		if len(out) == 0 {
			return []byte{Pick(g, []byte("[]{}\",:0-1e.nulltrfas\\ \n"))}
		}
		i := g.Intn(len(out))
		c := Pick(g, []byte("[]{}\",:0-1e.+Eu\\/ntf \n\t\x00\x1f\x7f\xff"))
		switch g.Intn(4) {
		case 0:
			out = append(out[:i], out[i+1:]...)
		case 1:
			out = append(out[:i], append([]byte{c}, out[i:]...)...)
		case 2:
			out[i] = c
		default:
			out = out[:i]
		}
	}
	return out
}

func c25HasSurrogateEscape(b []byte) bool {
	l := bytes.ToLower(b)
	return bytes.Contains(l, []byte(`\ud`))
}

func c25RandLiteral(g *Gen) string {
	var sb strings.Builder
	if g.Chance(1, 3) {
		sb.WriteByte('-')
	}
	digits := func(n int) {
		for i := 0; i < n; i++ {
			sb.WriteByte(byte('0' + g.Intn(10)))
		}
	}
	if g.Chance(1, 4) {
		sb.WriteByte('0')
	} else {
		sb.WriteByte(byte('1' + g.Intn(9)))
		digits(g.Intn(Pick(g, []int{1, 3, 17, 25, 40})))
	}
	if g.Chance(1, 2) {
		sb.WriteByte('.')
		digits(1 + g.Intn(Pick(g, []int{1, 3, 17, 25, 40})))
	}
	if g.Chance(1, 2) {
		sb.WriteByte(Pick(g, []byte("eE")))
		if g.Chance(1, 2) {
			sb.WriteByte(Pick(g, []byte("+-")))
		}
		sb.WriteString(strconv.Itoa(g.Intn(Pick(g, []int{5, 30, 330, 400}))))
	}
	return sb.String()
}

// c25Halfway returns the exact decimal text of the midpoint between a random double and its successor
// (the hardest input of a correctly rounding reader), possibly nudged up or down in the last place.
func c25Halfway(g *Gen) string {
	e := g.Intn(140) - 60
	x := math.Ldexp(1+float64(g.U64()>>12)/float64(1<<52), e)
	y := math.Nextafter(x, math.Inf(1))
	a, b := new(big.Rat).SetFloat64(x), new(big.Rat).SetFloat64(y)
	mid := new(big.Rat).Add(a, b)
	mid.Quo(mid, big.NewRat(2, 1))
	s := strings.TrimRight(mid.FloatString(130), "0")
	if strings.HasSuffix(s, ".") {
		s += "0"
	}
	switch g.Intn(3) {
	case 0:
		return s + "1" // just above the tie
	case 1:
		// just below: decrement the last non-zero digit and append 9s
		bs := []byte(s)
		i := len(bs) - 1
		for i > 0 && (bs[i] == '0' || bs[i] == '.') {
			i--
		}
		if bs[i] >= '1' && bs[i] <= '9' {
			bs[i]--
			return string(bs) + "999"
		}
	}
	return s
}

func c25SpecGen(g *Gen, tier string, w *bufio.Writer) {
	thorough := tier == "thorough"
	emit := func(op string, text []byte) {
		if len(text) == 0 {
			fmt.Fprintf(w, "%s -\n", op) // "-" stands for the empty text
			return
		}
		fmt.Fprintf(w, "%s %s\n", op, hex.EncodeToString(text))
	}
	// --- RFC 8259 validity
	for _, s := range c25JsonTexts {
		emit("jvalid", []byte(s))
	}
	for _, d := range []int{1, 2, 50, 300} {
		emit("jvalid", []byte(strings.Repeat("[", d)+strings.Repeat("]", d)))
		emit("jvalid", []byte(strings.Repeat("[", d)+strings.Repeat("]", d-1)))
		emit("jvalid", []byte(strings.Repeat(`{"a":`, d)+"1"+strings.Repeat("}", d)))
		emit("jvalid", []byte(strings.Repeat(`[{"a":`, d)+"[]"+strings.Repeat("}]", d)))
		emit("jvalid", []byte("["+strings.Repeat("1,", d)+"1]"))
	}
	all := c25AllStrings()
	n := 1500
	if thorough {
		n = 40000
	}
	for i := 0; i < n; i++ {
		k := 1 + g.Intn(3)
		fields := make([]physical.SchemaField, k)
		row := make([]octosql.Value, k)
		for j := range fields {
			fields[j] = physical.SchemaField{Name: Pick(g, c25Names), Type: c25RandType(g, 3)}
			row[j] = c25ValueOf(g, fields[j].Type, all)
		}
		var buf bytes.Buffer
		f := formats.NewJSONFormatter(&buf)
		f.SetSchema(physical.Schema{Fields: fields, TimeField: -1})
		f.Write(row)
		doc := buf.Bytes()
		if !c25HasSurrogateEscape(doc) {
			emit("jvalid", doc)
		}
		for m := 0; m < 3; m++ {
			mut := c25Mutate(g, doc)
			if !c25HasSurrogateEscape(mut) {
				emit("jvalid", mut)
			}
		}
		mut := c25Mutate(g, []byte(Pick(g, c25JsonTexts)))
		if !c25HasSurrogateEscape(mut) {
			emit("jvalid", mut)
		}
	}
	// --- number literal ↦ binary64
	for _, s := range []string{"0", "-0", "1", "0.1", "0.2", "0.3", "1e21", "1e22", "1e23", "5e-324", "2.5e-324", "2.4e-324", "2.6e-324", "4.9406564584124654e-324", "2.2250738585072014e-308",
		"2.2250738585072011e-308", "1.7976931348623157e308", "1.7976931348623158e308", "1.7976931348623159e308", "1.8e308", "1e309", "1e-400", "9007199254740993", "9007199254740992", "9007199254740991",
		"9007199254740992.5", "9007199254740993.5", "123456789012345678901234567890", "0.000000000000000000000000000001", "1e0", "1E+0", "1e-0", "100e-2", "0.5e1"} {
		emit("pf", []byte(s))
	}
	n = 1500
	if thorough {
		n = 60000
	}
	for i := 0; i < n; i++ {
		emit("pf", []byte(c25RandLiteral(g)))
		emit("pf", []byte(c25Halfway(g)))
		v := c25RandFloat(g)
		if !math.IsNaN(v.Float) && !math.IsInf(v.Float, 0) {
			emit("pf", strconv.AppendFloat(nil, v.Float, 'g', -1, 64))
			emit("pf", []byte(strconv.FormatFloat(v.Float, 'f', -1, 64)))
			emit("pf", strconv.AppendFloat(nil, v.Float, 'e', 16+g.Intn(4), 64))
		}
	}
	// --- RFC 3339 and durations
	for _, s := range []string{"1970-01-01T00:00:00Z", "1970-01-01T00:00:00+00:00", "1970-01-01T00:00:00-00:00", "2000-02-29T12:00:00Z", "2001-02-29T12:00:00Z", "2100-02-29T00:00:00Z",
		"2000-13-01T00:00:00Z", "2000-00-01T00:00:00Z", "2000-01-32T00:00:00Z", "2000-04-31T00:00:00Z", "2000-01-01T24:00:00Z", "2000-01-01T00:60:00Z", "2000-01-01T00:00:60Z",
		"2000-01-01T00:00:00", "2000-01-01 00:00:00Z", "2000-01-01T00:00:00.Z", "2000-01-01T00:00:00.1Z", "2000-01-01T00:00:00.123456789Z", "2000-01-01T00:00:00+0100", "2000-01-01T00:00:00+01",
		"2000-1-01T00:00:00Z", "20000-01-01T00:00:00Z", "2000-01-01T00:00:00+01:30x", "", "T", "2000-01-01t00:00:00z"} {
		emit("ptime", []byte(s))
	}
	for _, s := range []string{"0", "0s", "-0s", "+0s", "1ns", "1us", "1µs", "1μs", "1ms", "1s", "1m", "1h", "1h1m1s", "1.5s", "1.5h", ".5s", "1.s", "-1.5s", "+1.5s", "1", "s", "1x", "1 s", "1s ", "",
		"-", "1h-1m", "1.0005ms", "100000h", "2562047h47m16.854775807s", "-2562047h47m16.854775808s", "1m1h", "1s1s", "0.000000001s", "1e3s"} {
		emit("pdur", []byte(s))
	}
	n = 1000
	if thorough {
		n = 30000
	}
	for i := 0; i < n; i++ {
		t := c25RandTime(g).Time
		emit("ptime", []byte(t.Format(time.RFC3339Nano)))
		if t.UnixNano() > math.MinInt64+1000000000 { // (below that the whole second is outside the int64 nanosecond range)
			emit("ptime", []byte(t.Format(time.RFC3339)))
		}
		emit("pdur", []byte(c25RandDuration(g).Duration.String()))
	}
}
