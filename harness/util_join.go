package main

// Scheduled two-input runs (C19 / node-level C02): run the REAL StreamJoin / OuterJoin on two scripted sources
// under an exactly chosen interleaving. The `verifJoinRecv` hook (build tag verif) in the join's receive loops
// reports every message taken from an input channel and every observed close; the scripted sources block on a
// gate per message, and the controller opens the gate for the next event of the schedule only after the join
// has reported the previous one. At any moment at most one input channel is ready, so Go's `select` has no choice.

import (
	"context"
	"fmt"
	"strconv"
	"strings"
	"time"

	"github.com/cube2222/octosql/execution"
	"github.com/cube2222/octosql/execution/nodes"
)

type gatedSource struct {
	msgs []Msg
	gate chan struct{}
	quit chan struct{}
}

func (s *gatedSource) wait() bool {
	select {
	case <-s.gate:
		return true
	case <-s.quit:
		return false
	}
}

func (s *gatedSource) Run(ctx execution.ExecutionContext, produce execution.ProduceFn, metaSend execution.MetaSendFn) error {
	pctx := execution.ProduceFromExecutionContext(ctx)
	for _, m := range s.msgs {
		if !s.wait() {
			return nil
		}
		if m.IsWM {
			if err := metaSend(pctx, execution.MetadataMessage{Type: execution.MetadataMessageTypeWatermark, Watermark: m.WM}); err != nil {
				return err
			}
		} else {
			vals := append([]execution_Value(nil), m.Rec.Values...)
			if err := produce(pctx, execution.Record{Values: vals, Retraction: m.Rec.Retraction, EventTime: m.Rec.EventTime}); err != nil {
				return err
			}
		}
	}
	s.wait() // the close event
	return nil
}

type joinSpecOp struct {
	outer          bool
	outerL, outerR bool
	nL, nR         int
	keysL, keysR   []int
	sched          string
	left, right    []Msg
}

func parseIdxList(s string) []int {
	if s == "-" || s == "" {
		return nil
	}
	var out []int
	for _, p := range strings.Split(s, ",") {
		n, err := strconv.Atoi(p)
		if err != nil {
			panic(err)
		}
		out = append(out, n)
	}
	return out
}

func encodeIdxList(xs []int) string {
	if len(xs) == 0 {
		return "-"
	}
	parts := make([]string, len(xs))
	for i, x := range xs {
		parts[i] = strconv.Itoa(x)
	}
	return strings.Join(parts, ",")
}

// op line:  (sj|oj) <outerL 0|1> <outerR 0|1> <nL> <nR> <keysL> <keysR> <sched> | <left stream> | <right stream>
func parseJoinOp(toks []string) joinSpecOp {
	var op joinSpecOp
	op.outer = toks[0] == "oj"
	op.outerL = toks[1] == "1"
	op.outerR = toks[2] == "1"
	op.nL, _ = strconv.Atoi(toks[3])
	op.nR, _ = strconv.Atoi(toks[4])
	op.keysL = parseIdxList(toks[5])
	op.keysR = parseIdxList(toks[6])
	op.sched = toks[7]
	rest := toks[8:]
	// rest = | left | right
	var parts [][]string
	cur := []string{}
	for _, t := range rest {
		if t == "|" {
			parts = append(parts, cur)
			cur = []string{}
			continue
		}
		cur = append(cur, t)
	}
	parts = append(parts, cur)
	// parts[0] is empty (before first |)
	if len(parts) != 3 {
		panic("bad join op")
	}
	op.left = ParseMsgs(parts[1])
	op.right = ParseMsgs(parts[2])
	return op
}

func (op joinSpecOp) encode() string {
	kind := "sj"
	if op.outer {
		kind = "oj"
	}
	b := func(x bool) string {
		if x {
			return "1"
		}
		return "0"
	}
	return fmt.Sprintf("%s %s %s %d %d %s %s %s | %s | %s", kind, b(op.outerL), b(op.outerR), op.nL, op.nR,
		encodeIdxList(op.keysL), encodeIdxList(op.keysR), op.sched, EncodeMsgs(op.left), EncodeMsgs(op.right))
}

func keyExprs(idx []int) []execution.Expression {
	out := make([]execution.Expression, len(idx))
	for i, k := range idx {
		out[i] = execution.NewVariable(0, k)
	}
	return out
}

// runScheduledJoin runs the real node under exactly the schedule op.sched and returns the canonical output line.
func runScheduledJoin(op joinSpecOp) string {
	quit := make(chan struct{})
	ls := &gatedSource{msgs: op.left, gate: make(chan struct{}), quit: quit}
	rs := &gatedSource{msgs: op.right, gate: make(chan struct{}), quit: quit}
	var node execution.Node
	if op.outer {
		node = nodes.NewOuterJoin(ls, rs, op.nL, op.nR, keyExprs(op.keysL), keyExprs(op.keysR), op.outerL, op.outerR)
	} else {
		node = nodes.NewStreamJoin(ls, rs, keyExprs(op.keysL), keyExprs(op.keysR))
	}
	type ev struct{ left, closed bool }
	acks := make(chan ev, 4)
	nodes.VerifJoinRecv = func(left bool, closed bool) { acks <- ev{left, closed} }
	defer func() { nodes.VerifJoinRecv = nil }()

	type result struct {
		out      []Msg
		err      error
		panicked bool
	}
	done := make(chan result, 1)
	go func() {
		var res result
		defer func() {
			if r := recover(); r != nil {
				res.panicked = true
			}
			done <- res
		}()
		ctx := execution.ExecutionContext{Context: context.Background()}
		res.err = node.Run(ctx,
			func(_ execution.ProduceContext, r execution.Record) error {
				res.out = append(res.out, Msg{Rec: execution.Record{Values: append([]execution_Value(nil), r.Values...), Retraction: r.Retraction, EventTime: r.EventTime}})
				return nil
			},
			func(_ execution.ProduceContext, m execution.MetadataMessage) error {
				res.out = append(res.out, Msg{IsWM: true, WM: m.Watermark})
				return nil
			})
	}()
	finish := func(res result) string {
		close(quit)
		status := "ok"
		if res.panicked {
			status = "panic"
		} else if res.err != nil {
			status = ErrClass(res.err)
		}
		if len(res.out) == 0 {
			return status
		}
		return status + " " + EncodeMsgs(res.out)
	}
	li, ri := 0, 0
	for _, c := range op.sched {
		var src *gatedSource
		var want ev
		if c == 'L' {
			src, want = ls, ev{true, li == len(op.left)}
			li++
		} else {
			src, want = rs, ev{false, ri == len(op.right)}
			ri++
		}
		select {
		case src.gate <- struct{}{}:
		case res := <-done:
			return finish(res)
		case <-time.After(20 * time.Second):
			close(quit)
			return "hang-gate"
		}
		select {
		case got := <-acks:
			if got != want {
				close(quit)
				return fmt.Sprintf("sched-mismatch want=%v got=%v", want, got)
			}
		case res := <-done:
			return finish(res)
		case <-time.After(20 * time.Second):
			close(quit)
			return "hang-ack"
		}
	}
	select {
	case res := <-done:
		return finish(res)
	case <-time.After(20 * time.Second):
		close(quit)
		return "hang-end"
	}
}
