module verifharness

go 1.22

require github.com/cube2222/octosql v0.0.0

require (
	github.com/google/btree v1.1.2 // indirect
	github.com/segmentio/fasthash v1.0.3 // indirect
)

replace github.com/cube2222/octosql => /repo
