module verifharness

go 1.22

require (
	github.com/cube2222/octosql v0.0.0
	github.com/valyala/fastjson v1.6.3
	github.com/segmentio/parquet-go v0.0.0-20220421002521-93f8e5ed3407
	google.golang.org/protobuf v1.30.0
)

require (
	github.com/Masterminds/semver v1.5.0 // indirect
	github.com/adrg/xdg v0.4.0 // indirect
	github.com/awalterschulze/gographviz v2.0.3+incompatible // indirect
	github.com/cespare/xxhash v1.1.0 // indirect
	github.com/dgraph-io/ristretto v0.0.3 // indirect
	github.com/fsnotify/fsnotify v1.4.9 // indirect
	github.com/golang/protobuf v1.5.3 // indirect
	github.com/google/btree v1.1.2 // indirect
	github.com/gosuri/uilive v0.0.4 // indirect
	github.com/mattn/go-runewidth v0.0.13 // indirect
	github.com/mitchellh/go-homedir v1.1.0 // indirect
	github.com/nxadm/tail v1.4.8 // indirect
	github.com/oklog/ulid/v2 v2.0.2 // indirect
	github.com/olekukonko/tablewriter v0.0.5 // indirect
	github.com/pkg/errors v0.9.1 // indirect
	github.com/rivo/uniseg v0.2.0 // indirect
	github.com/segmentio/fasthash v1.0.3 // indirect
	github.com/tidwall/btree v1.3.1 // indirect
	github.com/zyedidia/generic v1.1.0 // indirect
	golang.org/x/exp v0.0.0-20220414153411-bcd21879b8fd // indirect
	golang.org/x/net v0.10.0 // indirect
	golang.org/x/sys v0.8.0 // indirect
	golang.org/x/text v0.9.0 // indirect
	google.golang.org/genproto v0.0.0-20230306155012-7f2fa6fef1f4 // indirect
	google.golang.org/grpc v1.55.0 // indirect
	gopkg.in/tomb.v1 v1.0.0-20141024135613-dd632973f1e7 // indirect
	gopkg.in/yaml.v3 v3.0.1 // indirect
)

replace github.com/cube2222/octosql => /repo
replace github.com/segmentio/parquet-go v0.0.0-20220421002521-93f8e5ed3407 => github.com/cube2222/parquet-go v0.0.0-20220512155810-0e06eee50261
