package main

// C08 — static types are sound.  Logical expressions go through the REAL
//   logical.*.Typecheck  ->  physical.Expression.Materialize  ->  execution.Expression.Evaluate
// and the harness prints the typed physical tree (the static type of EVERY node, the chosen descriptor, the inserted
// type assertions) and, for every row of the environment, the value of every node.
//
// Untyped (logical) tree, prefix:
//   c <value> | v <n> | f x<namehex> <k> arg… | a l r | o l r | q <k> arg… | t <k> arg… | k <typeid> e | g x<fieldhex> e
// Typed (physical) tree, prefix, every node `<tag> <type> …`:
//   C ty value | V ty n | F ty x<namehex> <descriptor idx> <k> arg… | A ty <k> arg… | O ty <k> arg… | Q ty <k> arg…
//   | T ty <k> arg… | S ty <target ty> e | K ty <typeid> e | G ty x<fieldhex> e
//
// Ops:
//   ev <L> ctx_0 … ctx_(L-1) <m> row_1 … row_m <utree>
//        ctx = <k> (<var n> <type>)*k, innermost first;  row = the values of all fields of all contexts, in that order
//        -> <typed tree> | <row 1: value of every node, preorder> ; <row 2> ; …      value = codec | err | panic
//        -> tc-reject (Typecheck panicked with a message) | tc-crash (Typecheck died of a runtime error)
//   agg x<aggname hex> <type of the aggregated expression> <m> v_1 … v_m
//        one group, the aggregated column holds v_1…v_m; the REAL logical.GroupBy.Typecheck -> Materialize -> Run
//        -> <idx of the chosen descriptor> <static type of the (possibly asserted) argument> <declared output type> | <value> | err | panic
//        -> tc-reject | tc-crash

import (
	"bufio"
	"context"
	"encoding/hex"
	"fmt"
	"io"
	"log"
	"reflect"
	"runtime"
	"strconv"
	"strings"
	"time"

	"github.com/cube2222/octosql/aggregates"
	"github.com/cube2222/octosql/execution"
	"github.com/cube2222/octosql/functions"
	"github.com/cube2222/octosql/logical"
	"github.com/cube2222/octosql/octosql"
	"github.com/cube2222/octosql/physical"
)

func init() {
	register("C08", &prop{gen: genC08, drive: driveC08})
}

var c08fm map[string]physical.FunctionDetails

func c08Funcs() map[string]physical.FunctionDetails {
	if c08fm == nil {
		log.SetOutput(io.Discard) // int('x') logs every failed parse
		c08fm = functions.FunctionMap()
	}
	return c08fm
}

func c08Hex(s string) string { return "x" + hex.EncodeToString([]byte(s)) }
func c08Unhex(tok string) string {
	b, err := hex.DecodeString(tok[1:])
	if err != nil {
		panic("c08: bad hex token " + tok)
	}
	return string(b)
}

func c08Atoi(s string) int {
	n, err := strconv.Atoi(s)
	if err != nil {
		panic("c08: bad number " + s)
	}
	return n
}

// ---------- logical tree

func c08ParseU(toks []string) (logical.Expression, []string) {
	switch toks[0] {
	case "c":
		v, r := ParseValue(toks[1:])
		return logical.NewConstant(v), r
	case "v":
		return logical.NewVariable("c" + toks[1]), toks[2:]
	case "f", "q", "t":
		var name string
		rest := toks[1:]
		if toks[0] == "f" {
			name = c08Unhex(rest[0])
			rest = rest[1:]
		}
		k := c08Atoi(rest[0])
		rest = rest[1:]
		args := make([]logical.Expression, k)
		for i := 0; i < k; i++ {
			args[i], rest = c08ParseU(rest)
		}
		switch toks[0] {
		case "f":
			return logical.NewFunctionExpression(name, args), rest
		case "q":
			return logical.NewCoalesce(args), rest
		}
		return logical.NewTuple(args), rest
	case "a", "o":
		l, r := c08ParseU(toks[1:])
		rr, r := c08ParseU(r)
		if toks[0] == "a" {
			return logical.NewAnd(l, rr), r
		}
		return logical.NewOr(l, rr), r
	case "k":
		e, r := c08ParseU(toks[2:])
		return logical.NewTypeCast(e, octosql.TypeID(c08Atoi(toks[1]))), r
	case "g":
		e, r := c08ParseU(toks[2:])
		return logical.NewObjectFieldAccess(e, c08Unhex(toks[1])), r
	}
	panic("c08: bad utree token " + toks[0])
}

// ---------- environment

type c08Env struct {
	ctxs [][]physical.SchemaField // innermost first
	rows [][][]octosql.Value      // rows[r][level] = values
}

func c08ParseEnv(toks []string) (*c08Env, []string) {
	e := &c08Env{}
	L := c08Atoi(toks[0])
	toks = toks[1:]
	for l := 0; l < L; l++ {
		k := c08Atoi(toks[0])
		toks = toks[1:]
		fields := make([]physical.SchemaField, k)
		for i := 0; i < k; i++ {
			fields[i].Name = "c" + toks[0]
			fields[i].Type, toks = ParseType(toks[1:])
		}
		e.ctxs = append(e.ctxs, fields)
	}
	m := c08Atoi(toks[0])
	toks = toks[1:]
	for r := 0; r < m; r++ {
		row := make([][]octosql.Value, L)
		for l := 0; l < L; l++ {
			row[l], toks = ParseValues(len(e.ctxs[l]), toks)
		}
		e.rows = append(e.rows, row)
	}
	return e, toks
}

func (e *c08Env) physical() physical.Environment {
	var vc *physical.VariableContext
	for l := len(e.ctxs) - 1; l >= 0; l-- {
		vc = &physical.VariableContext{Parent: vc, Fields: e.ctxs[l]}
	}
	return physical.Environment{Functions: c08Funcs(), Aggregates: aggregates.Aggregates, VariableContext: vc}
}

func (e *c08Env) logical() logical.Environment {
	mapping := map[string]string{}
	for _, c := range e.ctxs {
		for _, f := range c {
			mapping[f.Name] = f.Name
		}
	}
	return logical.Environment{
		UniqueVariableNames: (&logical.VariableMapping{}).WithRecordMapping(mapping),
		UniqueNameGenerator: map[string]int{},
	}
}

func (e *c08Env) execCtx(r int) execution.ExecutionContext {
	var vc *execution.VariableContext
	for l := len(e.ctxs) - 1; l >= 0; l-- {
		vc = &execution.VariableContext{Parent: vc, Values: e.rows[r][l]}
	}
	return execution.ExecutionContext{Context: context.Background(), VariableContext: vc}
}

// c08Typecheck runs the real typechecker; a panic with a message is a rejection, a runtime error is a crash.
func c08Typecheck(f func()) (status string) {
	defer func() {
		if r := recover(); r != nil {
			if _, isRuntime := r.(runtime.Error); isRuntime {
				status = "tc-crash"
			} else {
				status = "tc-reject"
			}
		}
	}()
	f()
	return ""
}

// ---------- physical tree

func c08DescIndex(name string, d physical.FunctionDescriptor) int {
	p := reflect.ValueOf(d.Function).Pointer()
	for i, c := range c08Funcs()[name].Descriptors {
		if reflect.ValueOf(c.Function).Pointer() == p {
			return i
		}
	}
	panic("c08: descriptor not found for " + name)
}

func c08Children(e physical.Expression) []physical.Expression {
	switch e.ExpressionType {
	case physical.ExpressionTypeFunctionCall:
		return e.FunctionCall.Arguments
	case physical.ExpressionTypeAnd:
		return e.And.Arguments
	case physical.ExpressionTypeOr:
		return e.Or.Arguments
	case physical.ExpressionTypeCoalesce:
		return e.Coalesce.Arguments
	case physical.ExpressionTypeTuple:
		return e.Tuple.Arguments
	case physical.ExpressionTypeTypeAssertion:
		return []physical.Expression{e.TypeAssertion.Expression}
	case physical.ExpressionTypeTypeCast:
		return []physical.Expression{e.TypeCast.Expression}
	case physical.ExpressionTypeObjectFieldAccess:
		return []physical.Expression{e.ObjectFieldAccess.Object}
	}
	return nil
}

func c08EncodeP(e physical.Expression, out []string) []string {
	ty := strings.Fields(EncodeType(e.Type))
	tag := ""
	var extra []string
	switch e.ExpressionType {
	case physical.ExpressionTypeConstant:
		return append(append(append(out, "C"), ty...), strings.Fields(EncodeValue(e.Constant.Value))...)
	case physical.ExpressionTypeVariable:
		if !strings.HasPrefix(e.Variable.Name, "c") {
			panic("c08: unexpected variable name " + e.Variable.Name)
		}
		return append(append(append(out, "V"), ty...), e.Variable.Name[1:])
	case physical.ExpressionTypeFunctionCall:
		tag = "F"
		extra = []string{c08Hex(e.FunctionCall.Name), strconv.Itoa(c08DescIndex(e.FunctionCall.Name, e.FunctionCall.FunctionDescriptor)),
			strconv.Itoa(len(e.FunctionCall.Arguments))}
	case physical.ExpressionTypeAnd:
		tag, extra = "A", []string{strconv.Itoa(len(e.And.Arguments))}
	case physical.ExpressionTypeOr:
		tag, extra = "O", []string{strconv.Itoa(len(e.Or.Arguments))}
	case physical.ExpressionTypeCoalesce:
		tag, extra = "Q", []string{strconv.Itoa(len(e.Coalesce.Arguments))}
	case physical.ExpressionTypeTuple:
		tag, extra = "T", []string{strconv.Itoa(len(e.Tuple.Arguments))}
	case physical.ExpressionTypeTypeAssertion:
		tag, extra = "S", strings.Fields(EncodeType(e.TypeAssertion.TargetType))
	case physical.ExpressionTypeTypeCast:
		tag, extra = "K", []string{strconv.Itoa(int(e.TypeCast.TargetTypeID))}
	case physical.ExpressionTypeObjectFieldAccess:
		tag, extra = "G", []string{c08Hex(e.ObjectFieldAccess.Field)}
	default:
		panic("c08: unsupported physical expression kind " + e.ExpressionType.String())
	}
	out = append(append(append(out, tag), ty...), extra...)
	for _, c := range c08Children(e) {
		out = c08EncodeP(c, out)
	}
	return out
}

func c08Preorder(e physical.Expression, out []physical.Expression) []physical.Expression {
	out = append(out, e)
	for _, c := range c08Children(e) {
		out = c08Preorder(c, out)
	}
	return out
}

// c08Materialize: nil + status on error/panic
func c08Materialize(e physical.Expression, env physical.Environment) (x execution.Expression, status string) {
	defer func() {
		if r := recover(); r != nil {
			x, status = nil, "panic"
		}
	}()
	x, err := e.Materialize(context.Background(), env)
	if err != nil {
		return nil, "err"
	}
	return x, ""
}

func c08Eval(x execution.Expression, ctx execution.ExecutionContext) (out string) {
	defer func() {
		if r := recover(); r != nil {
			out = "panic"
		}
	}()
	v, err := x.Evaluate(ctx)
	if err != nil {
		return "err"
	}
	return EncodeValue(v)
}

func driveC08Ev(toks []string) string {
	env, rest := c08ParseEnv(toks[1:])
	u, _ := c08ParseU(rest)
	penv := env.physical()
	var e physical.Expression
	if st := c08Typecheck(func() { e = u.Typecheck(context.Background(), penv, env.logical()) }); st != "" {
		return st
	}
	typed := strings.Join(c08EncodeP(e, nil), " ")
	nodes := c08Preorder(e, nil)
	xs := make([]execution.Expression, len(nodes))
	sts := make([]string, len(nodes))
	for i := range nodes {
		xs[i], sts[i] = c08Materialize(nodes[i], penv)
	}
	rows := make([]string, len(env.rows))
	for r := range env.rows {
		vals := make([]string, len(nodes))
		for i := range nodes {
			if xs[i] == nil {
				vals[i] = sts[i]
			} else {
				vals[i] = c08Eval(xs[i], env.execCtx(r))
			}
		}
		rows[r] = strings.Join(vals, " ")
	}
	return typed + " | " + strings.Join(rows, " ; ")
}

// ---------- aggregates: one group over an in-memory source

type c08Source struct {
	t    octosql.Type
	vals []octosql.Value
}

func (s *c08Source) Typecheck(ctx context.Context, env physical.Environment, logicalEnv logical.Environment) (physical.Node, map[string]string) {
	recs := make([]execution.Record, len(s.vals))
	for i, v := range s.vals {
		recs[i] = execution.NewRecord([]octosql.Value{v}, false, time.Time{})
	}
	return physical.Node{
		Schema:          physical.NewSchema([]physical.SchemaField{{Name: "c0", Type: s.t}}, -1),
		NodeType:        physical.NodeTypeInMemoryRecords,
		InMemoryRecords: &physical.InMemoryRecords{Records: recs},
	}, map[string]string{"c0": "c0"}
}

func c08AggIndex(name string, d physical.AggregateDescriptor) int {
	p := reflect.ValueOf(d.Prototype).Pointer()
	for i, c := range aggregates.Aggregates[name].Descriptors {
		if reflect.ValueOf(c.Prototype).Pointer() == p && reflect.DeepEqual(c.ArgumentType, d.ArgumentType) && reflect.DeepEqual(c.OutputType, d.OutputType) {
			return i
		}
	}
	// prototypes are closures created by one constructor per overload family: fall back to the declared types
	for i, c := range aggregates.Aggregates[name].Descriptors {
		if (c.TypeFn == nil) == (d.TypeFn == nil) && reflect.DeepEqual(c.ArgumentType, d.ArgumentType) && reflect.DeepEqual(c.OutputType, d.OutputType) {
			return i
		}
	}
	panic("c08: aggregate descriptor not found for " + name)
}

func driveC08Agg(toks []string) string {
	name := c08Unhex(toks[1])
	t, rest := ParseType(toks[2:])
	m := c08Atoi(rest[0])
	vals, _ := ParseValues(m, rest[1:])
	src := &c08Source{t: t, vals: vals}
	gb := logical.NewGroupBy(src, nil, nil, []logical.Expression{logical.NewVariable("c0")}, []string{name}, []string{"agg"}, nil)
	penv := physical.Environment{Functions: c08Funcs(), Aggregates: aggregates.Aggregates}
	lenv := logical.Environment{UniqueNameGenerator: map[string]int{}}
	var node physical.Node
	if st := c08Typecheck(func() { node, _ = gb.Typecheck(context.Background(), penv, lenv) }); st != "" {
		return st
	}
	g := node.GroupBy
	head := fmt.Sprintf("%d %s %s", c08AggIndex(name, g.Aggregates[0].AggregateDescriptor), EncodeType(g.AggregateExpressions[0].Type),
		EncodeType(node.Schema.Fields[0].Type))
	return head + " | " + c08RunNode(node, penv)
}

func c08RunNode(node physical.Node, penv physical.Environment) (out string) {
	defer func() {
		if r := recover(); r != nil {
			out = "panic"
		}
	}()
	x, err := node.Materialize(context.Background(), penv)
	if err != nil {
		return "err"
	}
	var got []string
	err = x.Run(execution.ExecutionContext{Context: context.Background()},
		func(ctx execution.ProduceContext, rec execution.Record) error {
			got = append(got, EncodeValues(rec.Values))
			return nil
		},
		func(ctx execution.ProduceContext, msg execution.MetadataMessage) error { return nil })
	if err != nil {
		return "err"
	}
	if len(got) == 0 {
		return "none"
	}
	return strings.Join(got, " , ")
}

func driveC08(toks []string) string {
	switch toks[0] {
	case "ev":
		return driveC08Ev(toks)
	case "agg":
		return driveC08Agg(toks)
	case "qry":
		return driveC08Qry(toks)
	}
	return "bad-op"
}

func genC08(g *Gen, tier string, w *bufio.Writer) {
	c08Gen(g, tier, w)
}
