package main

// C28 — installed plugins are discovered under their exact name, databases resolve to the highest installed
// version passing their constraint, install picks the highest qualifying manifest version.
//
//   list    VT… FS…           real PluginManager.ListInstalledPlugins on the tree (in-process)
//   resolve VT… CT… FS… CFG…  real octosql binary start-up (cmd/root.go dbLoop) on tree + configuration
//   pick    VT… CT… JOB…      real PluginManager.Install against a loopback repository; which version got installed
//   semver  VT… CT…           the real library's GreaterThan on all pairs, and NewVersion(v.String()) = v

import (
	"bufio"
	"fmt"
	"os"
	"path/filepath"
	"sort"
	"strings"

	"github.com/Masterminds/semver"

	"github.com/cube2222/octosql/plugins/manager"
)

func init() {
	register("C28", &prop{gen: genC28, drive: driveC28})
}

var (
	plNames    = []string{"csv2", "my-plugin", "a-b-c", "x", "plugin", "postgres", "octosql-plugin-x", "a--b", "trail-", "-lead", "my_db", "s3"}
	plRepos    = []string{"core", "my-repo", "r2"}
	plVersions = []string{"0.0.1", "0.1.0", "0.2.0", "0.10.0", "1.0.0", "1.0.1", "1.2.3", "1.2.10", "1.10.0", "2.0.0", "3.1.4", "10.0.0",
		"2.0.0-beta.1", "2.0.0-rc.1", "1.0.0-alpha", "3.2.0-beta", "0.3.0-rc.2", "11.0.0-pre"}
	plConstraints = []string{"*", ">=1.0.0", "<2.0.0", "^1.0.0", "~1.2.0", "1.x", ">=1.0.0, <2.0.0", "=1.2.3", ">=2.0.0-0", "!=1.0.0", ">0.1.0",
		"<=1.2.3", "^0.1.0", ">=0.0.0-0", "~2", ">=3.0.0 || <0.2.0"}
	plJunkVersions = []string{"latest", "tmp", "1.x.y", "v", "not-a-version"}
)

// treeGen builds random plugin trees and keeps the version strings it used.
type treeGen struct {
	g      *Gen
	origs  []string
	origIx map[string]int
}

func newTreeGen(g *Gen) *treeGen { return &treeGen{g: g, origIx: map[string]int{}} }

func (t *treeGen) ver(s string) int {
	if i, ok := t.origIx[s]; ok {
		return i
	}
	t.origIx[s] = len(t.origs)
	t.origs = append(t.origs, s)
	return len(t.origs) - 1
}

func binaryContent(repo, plugin, version string) []byte {
	return []byte("#!/bin/sh\n# " + repo + "/" + plugin + "@" + version + "\nexit 0\n" + plSentinel)
}

// pluginTree: repos × plugins × versions. healthy=false allows files in place of directories and junk version names.
// Returns the entries (parents first) and the installed (repo, plugin, versions) triples.
type plInstalled struct {
	repo, plugin string
	versions     []string
}

func (t *treeGen) pluginTree(healthy bool, withBinaries bool) ([]plEntry, []plInstalled) {
	g := t.g
	var fs []plEntry
	var inst []plInstalled
	if g.Chance(1, 12) {
		return fs, inst // no plugins directory at all
	}
	fs = append(fs, plEntry{path: "plugins", dir: true})
	smallPool := g.Chance(1, 2) // the same plugin name in several repositories becomes likely
	nrepos := g.Intn(3) + 1
	if g.Chance(1, 10) {
		nrepos = 0
	}
	repos := append([]string{}, plRepos...)
	for i := len(repos) - 1; i > 0; i-- {
		k := g.Intn(i + 1)
		repos[i], repos[k] = repos[k], repos[i]
	}
	for i := 0; i < nrepos; i++ {
		r := repos[i]
		if !healthy && g.Chance(1, 15) {
			fs = append(fs, plEntry{path: "plugins/" + r, content: []byte("stray")})
			continue
		}
		fs = append(fs, plEntry{path: "plugins/" + r, dir: true})
		if !healthy && g.Chance(1, 3) {
			// a directory that is not a plugin (hidden cache directory, stray folder) next to the plugin directories: it is
			// listed like any other entry, and must not shift anybody else's versions
			fs = append(fs, plEntry{path: "plugins/" + r + "/" + Pick(g, []string{".cache", ".git", "zz-other", "aaa"}), dir: true})
		}
		nplug := g.Intn(4)
		used := map[string]bool{}
		for j := 0; j < nplug; j++ {
			n := Pick(g, plNames)
			if smallPool {
				n = Pick(g, plNames[:3])
			}
			if used[n] {
				continue
			}
			used[n] = true
			d := "plugins/" + r + "/octosql-plugin-" + n
			if !healthy && g.Chance(1, 15) {
				fs = append(fs, plEntry{path: d, content: []byte("stray")})
				continue
			}
			fs = append(fs, plEntry{path: d, dir: true})
			nver := g.Intn(5)
			if nver == 0 && g.Chance(2, 3) {
				nver = 1 + g.Intn(3)
			}
			usedV := map[string]bool{}
			var vs []string
			for k := 0; k < nver; k++ {
				v := Pick(g, plVersions)
				if usedV[v] {
					continue
				}
				usedV[v] = true
				t.ver(v)
				vs = append(vs, v)
				fs = append(fs, plEntry{path: d + "/" + v, dir: true})
				if withBinaries {
					fs = append(fs, plEntry{path: d + "/" + v + "/octosql-plugin-" + n, content: binaryContent(r, n, v)})
				}
			}
			if g.Chance(1, 6) {
				// leftovers of interrupted installations: ignored by the listing
				v := Pick(g, plVersions)
				fs = append(fs, plEntry{path: d + "/.installing-" + v, dir: true})
				if g.Bool() {
					fs = append(fs, plEntry{path: d + "/.installing-" + v + "/archive.tar.gz", content: []byte{0x1f, 0x8b}})
				}
			}
			if g.Chance(1, 12) {
				fs = append(fs, plEntry{path: d + "/.old-" + Pick(g, plVersions), dir: true})
			}
			if !healthy && g.Chance(1, 10) {
				v := Pick(g, plJunkVersions)
				t.ver(v)
				fs = append(fs, plEntry{path: d + "/" + v, dir: true})
			}
			inst = append(inst, plInstalled{r, n, vs})
		}
	}
	return fs, inst
}

func genC28(g *Gen, tier string, w *bufio.Writer) {
	scale := 1
	if tier == "thorough" {
		scale = 10
	}
	// ---- list
	for i := 0; i < 160*scale; i++ {
		t := newTreeGen(g)
		fs, _ := t.pluginTree(g.Chance(3, 4), false)
		fmt.Fprintf(w, "list %s %s\n", encVT(buildVT(t.origs)), encFS("FS", fs))
	}
	// ---- resolve
	for i := 0; i < 120*scale; i++ {
		t := newTreeGen(g)
		fs, inst := t.pluginTree(g.Chance(9, 10), false)
		ncfg := g.Intn(3) + 1
		var cfg []plDb
		conIx := map[string]int{"*": 0}
		cons := []string{"*"}
		for k := 0; k < ncfg; k++ {
			d := plDb{name: fmt.Sprintf("db%d", k), cidx: -1}
			if len(inst) > 0 && g.Chance(5, 6) {
				p := Pick(g, inst)
				d.repo, d.plugin = p.repo, p.plugin
			} else {
				d.repo, d.plugin = Pick(g, plRepos), Pick(g, plNames)
			}
			if g.Chance(3, 4) {
				c := Pick(g, plConstraints)
				// mostly a constraint that some installed version of this plugin passes
				for _, p := range inst {
					if p.repo == d.repo && p.plugin == d.plugin && len(p.versions) > 0 && g.Chance(3, 4) {
						pvt := buildVT(p.versions)
						var ok []string
						for _, cc := range plConstraints {
							for _, b := range buildCT([]string{cc}, pvt)[0].bits {
								if b {
									ok = append(ok, cc)
									break
								}
							}
						}
						if len(ok) > 0 {
							c = Pick(g, ok)
						}
					}
				}
				if _, ok := conIx[c]; !ok {
					conIx[c] = len(cons)
					cons = append(cons, c)
				}
				d.cidx = conIx[c]
			}
			cfg = append(cfg, d)
		}
		vt := buildVT(t.origs)
		fmt.Fprintf(w, "resolve %s %s %s %s\n", encVT(vt), encCT(buildCT(cons, vt)), encFS("FS", fs), encCFG(cfg))
	}
	// ---- pick
	for i := 0; i < 80*scale; i++ {
		t := newTreeGen(g)
		n := g.Intn(7)
		if g.Chance(1, 3) {
			n = g.Intn(3)
		}
		var man []int
		used := map[string]bool{}
		for k := 0; k < n; k++ {
			v := Pick(g, plVersions)
			if g.Chance(1, 8) {
				v = "v" + v
			}
			if used[strings.TrimPrefix(v, "v")] {
				continue
			}
			used[strings.TrimPrefix(v, "v")] = true
			man = append(man, t.ver(v))
		}
		cons := []string{"*"}
		cidx := -1
		if g.Chance(2, 3) {
			cons = append(cons, Pick(g, plConstraints))
			cidx = 1
		}
		vt := buildVT(t.origs)
		name := Pick(g, plNames)
		entries := []plEntry{{path: "octosql-plugin-" + name, content: binaryContent("core", name, "new")}}
		j := plJob{repo: Pick(g, plRepos), plugin: name, cidx: cidx, manifest: man, archive: makeTarGz(entries), entries: entries}
		fmt.Fprintf(w, "pick %s %s %s\n", encVT(vt), encCT(buildCT(cons, vt)), encJob(j))
	}
	// ---- semver: the order laws the theorems assume, on the real library
	for i := 0; i < 40*scale; i++ {
		var origs []string
		used := map[string]bool{}
		for k := 0; k < 7; k++ {
			v := Pick(g, plVersions)
			if g.Chance(1, 5) {
				v = fmt.Sprintf("%d.%d.%d", g.Intn(3), g.Intn(12), g.Intn(12))
				if g.Chance(1, 3) {
					v += "-" + Pick(g, []string{"alpha", "beta.2", "rc.1", "1", "alpha.10", "alpha.9"})
				}
			}
			if !used[v] {
				used[v] = true
				origs = append(origs, v)
			}
		}
		vt := buildVT(origs)
		fmt.Fprintf(w, "semver %s %s\n", encVT(vt), encCT(buildCT([]string{"*"}, vt)))
	}
}

func driveC28(toks []string) string {
	p := &plParser{toks: toks[1:]}
	switch toks[0] {
	case "list":
		p.vt()
		fs := p.fs("FS")
		w := newWorld("c28", fs)
		defer w.close()
		return listInstalledLine()
	case "resolve":
		p.vt()
		ct := p.ct()
		fs := p.fs("FS")
		cfg := p.cfg()
		w := newWorld("c28", fs)
		defer w.close()
		return w.startup(ct, cfg)
	case "pick":
		vt := p.vt()
		ct := p.ct()
		j := p.job()
		w := newWorld("c28", nil)
		defer w.close()
		_, err := w.install(vt, ct, j, -1, -1)
		if err != nil {
			if strings.Contains(err.Error(), "version not found") {
				return "err:notfound"
			}
			return "err:other"
		}
		ents, _ := os.ReadDir(filepath.Join(w.root, "plugins", j.repo, "octosql-plugin-"+j.plugin))
		var got []string
		for _, e := range ents {
			got = append(got, e.Name())
		}
		if len(got) != 1 {
			return "err:tree " + strings.Join(got, ",")
		}
		return "ok " + hx(got[0])
	case "semver":
		vt := p.vt()
		var vs []*semver.Version
		for _, v := range vt {
			if v.rank < 0 {
				continue
			}
			sv, err := semver.NewVersion(v.orig)
			if err != nil {
				return "err:parse"
			}
			vs = append(vs, sv)
		}
		rows := make([]string, len(vs))
		rt := make([]byte, len(vs))
		for i, a := range vs {
			var sb strings.Builder
			for _, b := range vs {
				if a.GreaterThan(b) {
					sb.WriteByte('1')
				} else {
					sb.WriteByte('0')
				}
			}
			rows[i] = sb.String()
			rt[i] = '0'
			if b, err := semver.NewVersion(a.String()); err == nil && b.Equal(a) && !b.GreaterThan(a) && !a.GreaterThan(b) && b.String() == a.String() {
				rt[i] = '1'
			}
		}
		return strings.Join(rows, ",") + " " + string(rt)
	}
	return "bad-op"
}

// listInstalledLine runs the real ListInstalledPlugins on the world the in-process plugin code points at.
func listInstalledLine() string {
	pm := &manager.PluginManager{}
	ms, err := pm.ListInstalledPlugins()
	if err != nil {
		if strings.Contains(err.Error(), "couldn't parse plugin") {
			return "err:version"
		}
		return "err:list"
	}
	var sb strings.Builder
	fmt.Fprintf(&sb, "ok %d", len(ms))
	for _, m := range ms {
		vs := make([]string, len(m.Versions))
		for i, v := range m.Versions {
			vs[i] = hx(v.Number.Original())
		}
		fmt.Fprintf(&sb, " %s/%s=%s", hx(m.Reference.Repository), hx(m.Reference.Name), strings.Join(vs, ","))
	}
	return sb.String()
}

var _ = sort.Strings
