package main

// C11, the "Maybe" pass of logical.FunctionExpression.Typecheck: functions applied to columns whose static type is a
// flat union (NULL | matching type | one or two non-matching types), through the REAL Typecheck -> Materialize -> Evaluate.
//
// Op:  lcall <namehex> <k> (<ids> <value>)*k
//      column c<i> has static type = TypeSum over the TypeIDs in <ids> (comma separated, increasing; 0 NULL 1 Int 2 Float
//      3 Boolean 4 String 5 Time 6 Duration) and holds <value>.
// Output:  D<idx> <arg_0> … <arg_k-1> | <outcome>     or  typecheck-panic
//      arg = `V <ty> <i>`  or  `T <assertion static type> <target type> V <ty> <i>`
//      outcome = value | err:… | panic | `body` (the call reached the function body and returned exactly what
//      descriptor.Function returns on these values — used for bodies the Lean model does not have)

import (
	"encoding/hex"
	"fmt"
	"reflect"
	"sort"
	"strconv"
	"strings"

	"github.com/cube2222/octosql/logical"
	"github.com/cube2222/octosql/octosql"
	"github.com/cube2222/octosql/physical"
)

var c11PrimByID = map[int]octosql.Type{0: octosql.Null, 1: octosql.Int, 2: octosql.Float, 3: octosql.Boolean,
	4: octosql.String, 5: octosql.Time, 6: octosql.Duration}

func c11FlatType(ids string) octosql.Type {
	var t octosql.Type
	for i, s := range strings.Split(ids, ",") {
		p, ok := c11PrimByID[c11Nat(s)]
		if !ok {
			panic("c11: bad type id " + s)
		}
		if i == 0 {
			t = p
		} else {
			t = octosql.TypeSum(t, p)
		}
	}
	return t
}

func c11EncodeArg(e physical.Expression) string {
	ty := EncodeType(e.Type)
	switch e.ExpressionType {
	case physical.ExpressionTypeVariable:
		return "V " + ty + " " + e.Variable.Name[1:]
	case physical.ExpressionTypeTypeAssertion:
		return "T " + ty + " " + EncodeType(e.TypeAssertion.TargetType) + " " + c11EncodeArg(e.TypeAssertion.Expression)
	}
	panic("c11: unexpected argument expression " + e.ExpressionType.String())
}

func driveC11Call(toks []string) string {
	nameb, err := hex.DecodeString(toks[1])
	if err != nil {
		panic(err)
	}
	name := string(nameb)
	k := c11Nat(toks[2])
	colTypes := make([]octosql.Type, k)
	vals := make([]octosql.Value, k)
	args := make([]logical.Expression, k)
	fields := make([]string, k)
	r := toks[3:]
	for i := 0; i < k; i++ {
		colTypes[i] = c11FlatType(r[0])
		vals[i], r = ParseValue(r[1:])
		args[i] = logical.NewVariable("c" + strconv.Itoa(i))
		fields[i] = strconv.Itoa(i)
	}
	e, ok := c11Typecheck(logical.NewFunctionExpression(name, args), colTypes)
	if !ok {
		return "typecheck-panic"
	}
	if e.ExpressionType != physical.ExpressionTypeFunctionCall {
		panic("c11: typecheck of a function expression is not a function call")
	}
	idx := -1
	for i, d := range c11Funcs()[name].Descriptors {
		if reflect.ValueOf(d.Function).Pointer() == reflect.ValueOf(e.FunctionCall.FunctionDescriptor.Function).Pointer() &&
			d.Strict == e.FunctionCall.FunctionDescriptor.Strict && reflect.DeepEqual(d.ArgumentTypes, e.FunctionCall.FunctionDescriptor.ArgumentTypes) {
			idx = i
			break
		}
	}
	if idx < 0 {
		panic("c11: descriptor not found for " + name)
	}
	parts := []string{"D" + strconv.Itoa(idx)}
	for _, a := range e.FunctionCall.Arguments {
		parts = append(parts, c11EncodeArg(a))
	}
	out := c11Eval(c11Materialize(e, fields), vals)
	if !c11Modelled[name] && !strings.HasPrefix(out, "err:") && out != "panic" {
		// did the call reach the body? compare with the body applied directly
		direct := safe(func() string {
			v, err := e.FunctionCall.FunctionDescriptor.Function(vals)
			if err != nil {
				return "direct-error"
			}
			return EncodeValue(v)
		})
		anyNull := false
		for _, v := range vals {
			anyNull = anyNull || v.TypeID == octosql.TypeIDNull
		}
		if direct == out && !(anyNull && e.FunctionCall.FunctionDescriptor.Strict && out == "n") {
			out = "body"
		}
	}
	return strings.Join(parts, " ") + " | " + out
}

// functions left out of the lcall ops: `now` (no arguments), `panic` / `string` / `is null` … take Any (never a Maybe fit)
// but are kept (exact pass); nothing is skipped except zero-argument descriptors.
func genC11Call(emit func(string)) {
	fm := c11Funcs()
	names := make([]string, 0, len(fm))
	for n := range fm {
		names = append(names, n)
	}
	sort.Strings(names)
	sampleOf := func(id int) string {
		for tid, s := range c11Sample {
			if int(tid) == id {
				return s[1]
			}
		}
		panic("c11: no sample for type id " + strconv.Itoa(id))
	}
	union := func(ids ...int) string {
		m := map[int]bool{}
		for _, i := range ids {
			m[i] = true
		}
		var s []int
		for i := range m {
			s = append(s, i)
		}
		sort.Ints(s)
		parts := make([]string, len(s))
		for i, x := range s {
			parts[i] = strconv.Itoa(x)
		}
		return strings.Join(parts, ",")
	}
	seen := map[string]bool{}
	for _, name := range names {
		hexname := hex.EncodeToString([]byte(name))
		for _, d := range fm[name].Descriptors {
			if d.TypeFn != nil {
				// the comparisons: equal flat types on both sides, and a mixed union on one side (no overload)
				if name == "<" || name == "<=" || name == ">=" || name == ">" {
					for _, tys := range [][2]string{{"0,1", "1"}, {"0,1", "0,1"}, {"0,1,4", "1"}, {"0,1,4", "0,1,4"}, {"1,4", "0,1,4"}} {
						for _, v0 := range []string{"n", "i1", "s6162"} {
							for _, v1 := range []string{"n", "i2", "s61"} {
								if (v0 == "n" && !strings.HasPrefix(tys[0], "0")) || (v1 == "n" && !strings.HasPrefix(tys[1], "0")) ||
									(v0[0] == 's' && !strings.Contains(tys[0], "4")) || (v1[0] == 's' && !strings.Contains(tys[1], "4")) {
									continue
								}
								emit(fmt.Sprintf("lcall %s 2 %s %s %s %s", hexname, tys[0], v0, tys[1], v1))
							}
						}
					}
				}
				continue
			}
			k := len(d.ArgumentTypes)
			if k == 0 {
				continue
			}
			ps := make([]int, k)
			anyParam := false
			for i, t := range d.ArgumentTypes {
				ps[i] = int(t.TypeID)
				if t.TypeID == octosql.TypeIDAny {
					ps[i] = 1
					anyParam = true
				}
			}
			_ = anyParam
			// non-matching companions of a parameter type
			others := func(p int) [2]int {
				o := [2]int{4, 1}
				if p == 4 {
					o = [2]int{3, 1}
				} else if p == 1 {
					o = [2]int{4, 3}
				}
				return o
			}
			for pos := 0; pos < k; pos++ {
				o := others(ps[pos])
				colVariants := []string{union(0, ps[pos], o[0]), union(0, ps[pos], o[0], o[1]), union(ps[pos], o[0]), union(0, ps[pos])}
				for _, cv := range colVariants {
					for _, restNullable := range []bool{false, true} {
						vals := []string{sampleOf(ps[pos]), sampleOf(o[0])}
						if strings.HasPrefix(cv, "0") {
							vals = append(vals, "n")
						}
						if !strings.Contains(","+cv+",", ","+strconv.Itoa(o[0])+",") {
							vals = vals[:1]
							if strings.HasPrefix(cv, "0") {
								vals = append(vals, "n")
							}
						}
						for _, v := range vals {
							parts := make([]string, k)
							for i := 0; i < k; i++ {
								if i == pos {
									parts[i] = cv + " " + v
								} else if restNullable {
									parts[i] = union(0, ps[i], others(ps[i])[0]) + " " + sampleOf(ps[i])
								} else {
									parts[i] = strconv.Itoa(ps[i]) + " " + sampleOf(ps[i])
								}
							}
							l := fmt.Sprintf("lcall %s %d %s", hexname, k, strings.Join(parts, " "))
							if !seen[l] {
								seen[l] = true
								emit(l)
							}
						}
					}
				}
			}
		}
	}
}
