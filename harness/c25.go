package main

// C25 — CSV and JSON output faithfully encode results.
//
// drive: the real formatters (outputs/formats.JSONFormatter / CSVFormatter) writing into a bytes.Buffer, and
// the real eager.OutputPrinter (outputs/eager) with os.Stdout redirected to a file, fed by a tiny Node.
// gen: rows of edge-case strings (every byte 0–255 alone and next to a quote / backslash / separator, CR/LF,
// leading spaces of every Unicode kind, invalid UTF-8, non-printable runes), extreme ints, edge and random
// floats, times, durations, typed nested values, odd column / field names, ill-typed rows.
//
// Op lines: see lean/Octo/Drv/C25.lean.

import (
	"bufio"
	"bytes"
	"context"
	"encoding/hex"
	"fmt"
	"io"
	"log"
	"math"
	"os"
	"strconv"
	"strings"
	"time"

	"github.com/cube2222/octosql/execution"
	"github.com/cube2222/octosql/octosql"
	"github.com/cube2222/octosql/outputs/eager"
	"github.com/cube2222/octosql/outputs/formats"
	"github.com/cube2222/octosql/physical"
)

func init() {
	register("C25", &prop{gen: genC25, drive: driveC25})
}

// ---------------------------------------------------------------- drive

type c25Op struct {
	kind   string
	fields []physical.SchemaField
	rows   [][]octosql.Value
	retr   []bool
}

func c25Parse(toks []string) c25Op {
	op := c25Op{kind: toks[0]}
	k, _ := strconv.Atoi(toks[1][1:])
	rest := toks[2:]
	op.fields = make([]physical.SchemaField, k)
	for i := 0; i < k; i++ {
		nm, err := hex.DecodeString(rest[0][1:])
		if err != nil {
			panic(err)
		}
		op.fields[i].Name = string(nm)
		op.fields[i].Type, rest = ParseType(rest[1:])
	}
	m, _ := strconv.Atoi(rest[0][1:])
	rest = rest[1:]
	signed := strings.HasPrefix(op.kind, "e")
	for i := 0; i < m; i++ {
		j, _ := strconv.Atoi(rest[0][1:])
		var vs []octosql.Value
		vs, rest = ParseValues(j, rest[1:])
		op.rows = append(op.rows, vs)
		if signed {
			op.retr = append(op.retr, rest[0] == "-")
			rest = rest[1:]
		}
	}
	return op
}

type c25Source struct {
	rows [][]octosql.Value
	retr []bool
}

func (s *c25Source) Run(ctx execution.ExecutionContext, produce execution.ProduceFn, metaSend execution.MetaSendFn) error {
	for i := range s.rows {
		if i == len(s.rows)/2 {
			// a watermark in the middle of the stream: the eager printer must ignore it
			if err := metaSend(execution.ProduceFromExecutionContext(ctx), execution.MetadataMessage{Type: execution.MetadataMessageTypeWatermark, Watermark: time.Unix(int64(i), 0)}); err != nil {
				return err
			}
		}
		if err := produce(execution.ProduceFromExecutionContext(ctx), execution.NewRecord(s.rows[i], s.retr[i], time.Time{})); err != nil {
			return err
		}
	}
	return nil
}

func c25Hex(b []byte) string {
	if len(b) == 0 {
		return "-"
	}
	return hex.EncodeToString(b)
}

func driveC25(toks []string) string {
	log.SetOutput(io.Discard)
	if out, ok := c25SpecDrive(toks); ok {
		return out
	}
	op := c25Parse(toks)
	schema := physical.Schema{Fields: op.fields, TimeField: -1}
	var buf bytes.Buffer
	switch op.kind {
	case "json":
		f := formats.NewJSONFormatter(&buf)
		f.SetSchema(schema)
		for _, r := range op.rows {
			if err := f.Write(r); err != nil {
				return "err"
			}
		}
		if err := f.Close(); err != nil {
			return "err"
		}
		return c25Hex(buf.Bytes())
	case "csv":
		f := formats.NewCSVFormatter(&buf)
		f.SetSchema(schema)
		for _, r := range op.rows {
			if err := f.Write(r); err != nil {
				return "err"
			}
		}
		if err := f.Close(); err != nil {
			return "err"
		}
		return c25Hex(buf.Bytes())
	case "ejson", "ecsv":
		mk := func(w io.Writer) eager.Format { return formats.NewJSONFormatter(w) }
		if op.kind == "ecsv" {
			// (eager.OutputPrinter never calls Close; csv.NewWriter adopts the printer's 4 MiB bufio.Writer, which Run flushes)
			mk = func(w io.Writer) eager.Format { return formats.NewCSVFormatter(w) }
		}
		return c25Eager(op, schema, mk)
	}
	return "bad-op"
}

// c25Eager runs eager.OutputPrinter, which writes to os.Stdout, with os.Stdout pointing at a scratch file.
func c25Eager(op c25Op, schema physical.Schema, mk func(io.Writer) eager.Format) (out string) {
	dir := os.Getenv("VERIF_BUILD")
	if dir == "" {
		dir = os.TempDir()
	}
	f, err := os.CreateTemp(dir, "c25-stdout-*")
	if err != nil {
		return "err:tempfile"
	}
	defer os.Remove(f.Name())
	defer f.Close()
	old := os.Stdout
	os.Stdout = f
	defer func() { os.Stdout = old }()
	p := eager.NewOutputPrinter(&c25Source{rows: op.rows, retr: op.retr}, schema, mk)
	if err := p.Run(execution.ExecutionContext{Context: context.Background(), VariableContext: nil}); err != nil {
		return "err"
	}
	os.Stdout = old
	b, err := os.ReadFile(f.Name())
	if err != nil {
		return "err:readback"
	}
	return c25Hex(b)
}

// ---------------------------------------------------------------- gen

type c25Lib struct {
	seen map[string]bool
	toks []string
}

func (l *c25Lib) add(key, text string) {
	if l.seen[key] {
		return
	}
	l.seen[key] = true
	l.toks = append(l.toks, key+"="+hex.EncodeToString([]byte(text)))
}

func (l *c25Lib) walk(v octosql.Value) {
	switch v.TypeID {
	case octosql.TypeIDFloat:
		bits := fmt.Sprintf("%016x", math.Float64bits(v.Float))
		l.add("g"+bits, string(strconv.AppendFloat(nil, v.Float, 'g', -1, 64)))
		l.add("f"+bits, strconv.FormatFloat(v.Float, 'f', -1, 64))
	case octosql.TypeIDTime:
		l.add(fmt.Sprintf("t%d:%d", v.Time.UnixNano(), locID(v.Time.Location())), v.Time.Format(time.RFC3339Nano))
	case octosql.TypeIDDuration:
		l.add("d"+strconv.FormatInt(int64(v.Duration), 10), v.Duration.String())
	case octosql.TypeIDList:
		for _, x := range v.List {
			l.walk(x)
		}
	case octosql.TypeIDStruct:
		for _, x := range v.Struct {
			l.walk(x)
		}
	case octosql.TypeIDTuple:
		for _, x := range v.Tuple {
			l.walk(x)
		}
	}
}

func c25Emit(w *bufio.Writer, kind string, fields []physical.SchemaField, rows [][]octosql.Value, retr []bool) {
	var sb strings.Builder
	sb.WriteString(kind)
	fmt.Fprintf(&sb, " F%d", len(fields))
	for _, f := range fields {
		sb.WriteString(" x" + hex.EncodeToString([]byte(f.Name)) + " " + EncodeType(f.Type))
	}
	fmt.Fprintf(&sb, " N%d", len(rows))
	lib := &c25Lib{seen: map[string]bool{}}
	for i, r := range rows {
		fmt.Fprintf(&sb, " R%d", len(r))
		if len(r) > 0 {
			sb.WriteString(" " + EncodeValues(r))
		}
		if strings.HasPrefix(kind, "e") {
			if retr != nil && retr[i] {
				sb.WriteString(" -")
			} else {
				sb.WriteString(" +")
			}
		}
		for _, v := range r {
			lib.walk(v)
		}
	}
	sb.WriteString(" LIB")
	for _, t := range lib.toks {
		sb.WriteString(" " + t)
	}
	sb.WriteByte('\n')
	w.WriteString(sb.String())
}

func c25Both(w *bufio.Writer, fields []physical.SchemaField, rows [][]octosql.Value) {
	c25Emit(w, "json", fields, rows, nil)
	c25Emit(w, "csv", fields, rows, nil)
}

// strings that matter to a JSON / CSV writer
var c25EdgeStrings = []string{
	"", " ", "  x", "x ", "a,b", "a\"b", "\"", "\"\"", "a\nb", "a\rb", "a\r\nb", "\n", "\r", ",", `\.`, `\.x`, `\`, `\\`, `\"`, `a\nb`, `A`,
	"/", "</script>", "'", "\t", "\tx", "\v", "\vx", "\f", "\fx", "\x00", "\x1f", "\x7f", "x\x7f\"", "\a\"", "null", "NaN", "true", "1", "-0", "1e5",
	"\u00e9", "\u017c\u00f3\u0142w", "\u65e5\u672c\u8a9e", "\U0001f600", "\U0001f600\"",
	// every Unicode space as the first rune (csv quotes such fields), and near misses
	"\u0085x", "\u00a0x", "\u1680x", "\u2000x", "\u2005x", "\u200ax", "\u200bx", "\u2028x", "\u2029x", "\u202fx", "\u205fx", "\u3000x", "\u3001x", "\u180ex", "x\u00a0", "\u0084x", "\u00a1x", "\u1681x", "\u2027x",
	// runes strconv.Quote does not consider printable, with and without a character that needs escaping
	"\ufeffx", "\ufeff\"", "\u00ad\"", "\u00ad", "\ufffd", "\ufffd\"", "\U000e0001\"", "\U000e0001", "\U0010ffff\\", "\u0378\"", "\ud7ff\"", "\u2028\"", "\u200b\"",
	// invalid UTF-8: lone continuation, truncated sequences, overlong forms, surrogates, out of range
	"\x80", "\xbf\"", "\xc2", "\xc2\"", "\xc0\xa0", "\xc0\xa0x", "\xc1\xbf", "\xe0\x80\xa0", "\xe2\x80", "\xe2\x80\"", "\xe2", "\xed\xa0\x80", "\xed\xa0\x80\"", "\xed\xbf\xbf",
	"\xf0\x80\x80\x80", "\xf0\x9f\x98", "\xf4\x90\x80\x80", "\xf5\x80\x80\x80", "\xff", "\xfe\xff", "a\xffb\"c", "\xc2\x85", "\xc2\xa0", "\xc2\x20", "\xe1\x9a\x80", "\xe1\x9a", "\xe3\x80\x80", "\xe2\x81\x9f", "\xe2\x80\xa8",
	"{\"a\":1}", "[1,2]", "a:b", "a;b", "a|b", "x.y", "x.y.z", ".", ".x", "x.",
}

func c25AllStrings() []string {
	out := append([]string{}, c25EdgeStrings...)
	for b := 0; b < 256; b++ {
		c := string([]byte{byte(b)})
		out = append(out, c, c+"x", "x"+c, c+"\"", "\\"+c, "x"+c+",")
	}
	return out
}

var c25Names = []string{"a", "b", "c", "t.a", "u.a", "t.b", "x.y.z", "", ".", "a b", "a\"b", "a\\b", "a\nb", "a\x01b", "a\x7fb", "\u00e9", "\xff", "a,b", " a", "\u65e5\u672c", "a\x00", "\u00a0", "\U000e0001\""}

var c25NiceFloats = []float64{0.1, 0.2, 0.3, 1.5, -2.5, 1e21, 1e20, 123456789012345680000, 1e-7, 1e-6, 0.000001, 1e22, 1e23, 1e100, 1e-100, 1e308, 1.7976931348623157e308,
	5e-324, 2.2250738585072014e-308, 2.225073858507201e-308, 4.9406564584124654e-324, 9007199254740993, 9007199254740992, 3.141592653589793, 2.718281828459045, 100, 1e5, 123.456, -0.0, 0.5, 1.0 / 3.0, 2.0 / 3.0, 1e15, 1e16, 1e17, 123456.789e3, 8.41e21, 5e-5, 33e-5}

func c25RandFloat(g *Gen) octosql.Value {
	switch g.Intn(6) {
	case 0:
		return f64(Pick(g, edgeFloats))
	case 1:
		return octosql.NewFloat(Pick(g, c25NiceFloats))
	case 2:
		// a short decimal
		m := float64(int64(g.U64()%2000001) - 1000000)
		return octosql.NewFloat(m / math.Pow(10, float64(g.Intn(8))))
	case 3:
		// a power of two or ten, possibly negative
		if g.Bool() {
			return octosql.NewFloat(math.Ldexp(1, g.Intn(2100)-1075))
		}
		return octosql.NewFloat(math.Pow(10, float64(g.Intn(640)-325)))
	case 4:
		// around the subnormal / overflow boundaries
		return f64(Pick(g, []uint64{0x0010000000000000, 0x000fffffffffffff, 0x7fefffffffffffff, 0x0000000000000002, 0x7fe0000000000000}) + uint64(g.Intn(3)) - 1 | uint64(g.Intn(2))<<63)
	}
	return f64(g.U64())
}

func c25RandInt(g *Gen) octosql.Value {
	switch g.Intn(4) {
	case 0:
		return octosql.NewInt(Pick(g, edgeInts))
	case 1:
		return octosql.NewInt(int64(g.U64()))
	case 2:
		return octosql.NewInt(int64(g.Intn(2001)) - 1000)
	}
	// powers of ten and their neighbours
	p := int64(1)
	for i := g.Intn(19); i > 0; i-- {
		p *= 10
	}
	p += int64(g.Intn(3)) - 1
	if g.Bool() {
		p = -p
	}
	return octosql.NewInt(p)
}

func c25RandString(g *Gen, all []string) string {
	switch g.Intn(4) {
	case 0:
		return Pick(g, all)
	case 1:
		return Pick(g, all) + Pick(g, all)
	case 2:
		n := g.Intn(12)
		b := make([]byte, n)
		for i := range b {
			b[i] = Pick(g, []byte{0, 1, 9, 10, 13, 31, ' ', '"', ',', '\\', '.', 'a', 'u', '0', 0x7f, 0x80, 0xa0, 0xc2, 0xe2, 0xed, 0xf0, 0xff})
		}
		return string(b)
	}
	n := g.Intn(6)
	b := make([]byte, n)
	for i := range b {
		b[i] = byte(g.Intn(256))
	}
	return string(b)
}

func c25RandTime(g *Gen) octosql.Value {
	ns := Pick(g, []int64{0, 1, -1, 999999999, 1000000000, 1600000000123456789, -2208988800000000000, math.MaxInt64, math.MinInt64, 951782400000000000, 4102444799999999999})
	if g.Bool() {
		ns = int64(g.U64())
	}
	return octosql.NewTime(time.Unix(0, ns).In(locOf(Pick(g, []int{0, 1, 2, 100, 101, 103, 111, 125, 147}))))
}

func c25RandDuration(g *Gen) octosql.Value {
	d := Pick(g, []int64{0, 1, -1, 999, 1000, 1001, 1500000, 1000000000, 90 * 1000000000, 3600 * 1000000000, 3661 * 1000000000, 1500 * 1000000, math.MaxInt64, math.MinInt64, 123456789012})
	if g.Bool() {
		d = int64(g.U64()) >> uint(g.Intn(60))
	}
	return octosql.NewDuration(time.Duration(d))
}

func c25ListOf(e octosql.Type) octosql.Type {
	return octosql.Type{TypeID: octosql.TypeIDList, List: struct{ Element *octosql.Type }{Element: &e}}
}

var c25Scalars = []octosql.Type{octosql.Null, octosql.Int, octosql.Float, octosql.Boolean, octosql.String, octosql.Time, octosql.Duration}

func c25RandType(g *Gen, depth int) octosql.Type {
	k := g.Intn(16)
	if depth <= 0 && k >= 9 {
		k = g.Intn(9)
	}
	switch {
	case k < 7:
		return c25Scalars[k]
	case k == 7:
		return octosql.Any
	case k == 8:
		// nullable scalar
		return octosql.Type{TypeID: octosql.TypeIDUnion, Union: struct{ Alternatives []octosql.Type }{Alternatives: []octosql.Type{octosql.Null, c25Scalars[1+g.Intn(6)]}}}
	case k == 9 || k == 10:
		if g.Chance(1, 8) {
			return octosql.Type{TypeID: octosql.TypeIDList}
		}
		return c25ListOf(c25RandType(g, depth-1))
	case k == 11 || k == 12:
		n := g.Intn(4)
		fs := make([]octosql.StructField, n)
		for i := range fs {
			fs[i] = octosql.StructField{Name: Pick(g, c25Names), Type: c25RandType(g, depth-1)}
		}
		return octosql.Type{TypeID: octosql.TypeIDStruct, Struct: struct{ Fields []octosql.StructField }{Fields: fs}}
	case k == 13:
		n := g.Intn(4)
		es := make([]octosql.Type, n)
		for i := range es {
			es[i] = c25RandType(g, depth-1)
		}
		return octosql.Type{TypeID: octosql.TypeIDTuple, Tuple: struct{ Elements []octosql.Type }{Elements: es}}
	default:
		n := 1 + g.Intn(3)
		es := make([]octosql.Type, n)
		for i := range es {
			es[i] = c25RandType(g, depth-1)
			for es[i].TypeID == octosql.TypeIDUnion || es[i].TypeID == octosql.TypeIDAny {
				es[i] = c25RandType(g, depth-1)
			}
		}
		return octosql.Type{TypeID: octosql.TypeIDUnion, Union: struct{ Alternatives []octosql.Type }{Alternatives: es}}
	}
}

func c25ScalarOf(g *Gen, id octosql.TypeID, all []string) octosql.Value {
	switch id {
	case octosql.TypeIDInt:
		return c25RandInt(g)
	case octosql.TypeIDFloat:
		return c25RandFloat(g)
	case octosql.TypeIDBoolean:
		return octosql.NewBoolean(g.Bool())
	case octosql.TypeIDString:
		return octosql.NewString(c25RandString(g, all))
	case octosql.TypeIDTime:
		return c25RandTime(g)
	case octosql.TypeIDDuration:
		return c25RandDuration(g)
	}
	return octosql.NewNull()
}

// c25ValueOf draws a value of type t.
func c25ValueOf(g *Gen, t octosql.Type, all []string) octosql.Value {
	switch t.TypeID {
	case octosql.TypeIDAny:
		return c25ScalarOf(g, octosql.TypeID(g.Intn(7)), all)
	case octosql.TypeIDUnion:
		// the first alternative of each TypeID is the one the formatter uses
		alt := Pick(g, t.Union.Alternatives)
		for _, a := range t.Union.Alternatives {
			if a.TypeID == alt.TypeID {
				alt = a
				break
			}
		}
		return c25ValueOf(g, alt, all)
	case octosql.TypeIDList:
		if t.List.Element == nil {
			return octosql.NewList(nil)
		}
		n := g.Intn(4)
		xs := make([]octosql.Value, n)
		for i := range xs {
			xs[i] = c25ValueOf(g, *t.List.Element, all)
		}
		return octosql.NewList(xs)
	case octosql.TypeIDStruct:
		xs := make([]octosql.Value, len(t.Struct.Fields))
		for i := range xs {
			xs[i] = c25ValueOf(g, t.Struct.Fields[i].Type, all)
		}
		return octosql.NewStruct(xs)
	case octosql.TypeIDTuple:
		xs := make([]octosql.Value, len(t.Tuple.Elements))
		for i := range xs {
			xs[i] = c25ValueOf(g, t.Tuple.Elements[i], all)
		}
		return octosql.NewTuple(xs)
	}
	return c25ScalarOf(g, t.TypeID, all)
}

func c25Field(name string, t octosql.Type) []physical.SchemaField {
	return []physical.SchemaField{{Name: name, Type: t}}
}

func genC25(g *Gen, tier string, w *bufio.Writer) {
	thorough := tier == "thorough"
	all := c25AllStrings()
	c25SpecGen(g, tier, w)

	// 1. every edge string as the only cell of a row, as a cell between two others, and as a column name
	for _, s := range all {
		c25Both(w, c25Field("s", octosql.String), [][]octosql.Value{{octosql.NewString(s)}})
	}
	for _, s := range c25EdgeStrings {
		c25Both(w, []physical.SchemaField{{Name: "i", Type: octosql.Int}, {Name: "s", Type: octosql.String}, {Name: "n", Type: octosql.Null}},
			[][]octosql.Value{{octosql.NewInt(1), octosql.NewString(s), octosql.NewNull()}})
		c25Both(w, c25Field(s, octosql.Int), [][]octosql.Value{{octosql.NewInt(7)}})
		st := octosql.Type{TypeID: octosql.TypeIDStruct, Struct: struct{ Fields []octosql.StructField }{Fields: []octosql.StructField{{Name: s, Type: octosql.String}}}}
		c25Both(w, c25Field("o", st), [][]octosql.Value{{octosql.NewStruct([]octosql.Value{octosql.NewString(s)})}})
		c25Both(w, c25Field("l", c25ListOf(octosql.String)), [][]octosql.Value{{octosql.NewList([]octosql.Value{octosql.NewString(s), octosql.NewString(s)})}})
	}
	for b := 0; b < 256; b++ {
		c25Both(w, c25Field(string([]byte{'k', byte(b)}), octosql.Int), [][]octosql.Value{{octosql.NewInt(int64(b))}})
	}
	// 2. numbers, times, durations, NULL, booleans
	for _, i := range edgeInts {
		c25Both(w, c25Field("i", octosql.Int), [][]octosql.Value{{octosql.NewInt(i)}})
	}
	for _, b := range edgeFloats {
		c25Both(w, c25Field("f", octosql.Float), [][]octosql.Value{{f64(b)}})
	}
	for _, f := range c25NiceFloats {
		c25Both(w, c25Field("f", octosql.Float), [][]octosql.Value{{octosql.NewFloat(f)}, {octosql.NewFloat(-f)}})
	}
	c25Both(w, c25Field("n", octosql.Null), [][]octosql.Value{{octosql.NewNull()}})
	c25Both(w, []physical.SchemaField{{Name: "a", Type: octosql.Null}, {Name: "b", Type: octosql.String}}, [][]octosql.Value{{octosql.NewNull(), octosql.NewString("")}, {octosql.NewNull(), octosql.NewNull()}})
	c25Both(w, c25Field("b", octosql.Boolean), [][]octosql.Value{{octosql.NewBoolean(true)}, {octosql.NewBoolean(false)}})
	c25Both(w, nil, [][]octosql.Value{{}, {}})
	c25Both(w, c25Field("a", octosql.Int), nil)
	n := 1500
	if thorough {
		n = 60000
	}
	for i := 0; i < n; i++ {
		c25Both(w, []physical.SchemaField{{Name: "i", Type: octosql.Int}, {Name: "f", Type: octosql.Float}, {Name: "t", Type: octosql.Time}, {Name: "d", Type: octosql.Duration}},
			[][]octosql.Value{{c25RandInt(g), c25RandFloat(g), c25RandTime(g), c25RandDuration(g)}})
	}
	// 3. typed random schemas and rows (several rows through one formatter)
	n = 4000
	if thorough {
		n = 150000
	}
	for i := 0; i < n; i++ {
		k := 1 + g.Intn(4)
		fields := make([]physical.SchemaField, k)
		for j := range fields {
			fields[j] = physical.SchemaField{Name: Pick(g, c25Names), Type: c25RandType(g, 3)}
			if g.Chance(1, 3) {
				fields[j].Name = c25RandString(g, all)
			}
		}
		m := 1 + g.Intn(3)
		rows := make([][]octosql.Value, m)
		for r := range rows {
			rows[r] = make([]octosql.Value, k)
			for j := range fields {
				rows[r][j] = c25ValueOf(g, fields[j].Type, all)
			}
		}
		c25Both(w, fields, rows)
	}
	// 4. ill-typed rows: a random value against a random type, wrong number of values
	n = 1500
	if thorough {
		n = 30000
	}
	for i := 0; i < n; i++ {
		k := 1 + g.Intn(3)
		fields := make([]physical.SchemaField, k)
		for j := range fields {
			fields[j] = physical.SchemaField{Name: Pick(g, c25Names), Type: c25RandType(g, 2)}
		}
		row := make([]octosql.Value, k)
		for j := range row {
			if g.Chance(1, 2) {
				row[j] = RandValue(g, 3)
			} else {
				row[j] = c25ValueOf(g, fields[j].Type, all)
			}
		}
		if g.Chance(1, 6) {
			row = row[:k-1]
		} else if g.Chance(1, 6) {
			row = append(row, c25RandInt(g))
		}
		c25Both(w, fields, [][]octosql.Value{row})
	}
	// 5. through eager.OutputPrinter (records with retraction flags, a watermark in between)
	n = 40
	if thorough {
		n = 1000
	}
	for i := 0; i < n; i++ {
		k := 1 + g.Intn(3)
		fields := make([]physical.SchemaField, k)
		for j := range fields {
			fields[j] = physical.SchemaField{Name: Pick(g, c25Names), Type: c25RandType(g, 2)}
		}
		m := g.Intn(5)
		rows := make([][]octosql.Value, m)
		retr := make([]bool, m)
		for r := range rows {
			rows[r] = make([]octosql.Value, k)
			for j := range fields {
				rows[r][j] = c25ValueOf(g, fields[j].Type, all)
			}
			retr[r] = g.Chance(1, 4)
		}
		c25Emit(w, "ejson", fields, rows, retr)
		c25Emit(w, "ecsv", fields, rows, retr)
	}
}
