package main

// Shared by the operator checks (C15, C18): builds the REAL execution nodes of /repo over a scripted
// source with real execution.Expression values and returns the exact message sequence they emit.
//
// Line protocol: see lean/Octo/Drv/OpsCodec.lean.

import (
	"context"
	"io"
	"sort"
	"strconv"
	"strings"

	"github.com/cube2222/octosql/aggregates"
	"github.com/cube2222/octosql/execution"
	"github.com/cube2222/octosql/execution/nodes"
	"github.com/cube2222/octosql/functions"
	"github.com/cube2222/octosql/octosql"
	"github.com/cube2222/octosql/outputs/batch"
	"github.com/cube2222/octosql/physical"
)

var opsFunctionMap = functions.FunctionMap()

func opsFn(name string, idx int) func([]octosql.Value) (octosql.Value, error) {
	return opsFunctionMap[name].Descriptors[idx].Function
}

// parseOpExpr: V<level>.<index> | K <value> | EQ e e | LT e e | ADD e e | AND e e | OR e e | AI e
func parseOpExpr(toks []string) (execution.Expression, []string) {
	tok, rest := toks[0], toks[1:]
	bin := func() (execution.Expression, execution.Expression, []string) {
		a, r := parseOpExpr(rest)
		b, r := parseOpExpr(r)
		return a, b, r
	}
	switch {
	case tok == "K":
		v, r := ParseValue(rest)
		return execution.NewConstant(v), r
	case tok == "EQ":
		a, b, r := bin()
		return execution.NewFunctionCall(opsFn("=", 0), []execution.Expression{a, b}, []int{0, 1}), r
	case tok == "LT":
		a, b, r := bin()
		return execution.NewFunctionCall(opsFn("<", 0), []execution.Expression{a, b}, []int{0, 1}), r
	case tok == "ADD":
		a, b, r := bin()
		return execution.NewFunctionCall(opsFn("+", 0), []execution.Expression{a, b}, []int{0, 1}), r
	case tok == "AND":
		a, b, r := bin()
		return execution.NewAnd([]execution.Expression{a, b}), r
	case tok == "OR":
		a, b, r := bin()
		return execution.NewOr([]execution.Expression{a, b}), r
	case tok == "AI":
		e, r := parseOpExpr(rest)
		return execution.NewTypeAssertion([]octosql.TypeID{octosql.TypeIDInt}, e, "Int"), r
	case tok[0] == 'V':
		parts := strings.Split(tok[1:], ".")
		l, _ := strconv.Atoi(parts[0])
		i, _ := strconv.Atoi(parts[1])
		return execution.NewVariable(l, i), rest
	}
	panic("bad expr token " + tok)
}

func parseOpExprs(k int, toks []string) ([]execution.Expression, []string) {
	out := make([]execution.Expression, k)
	for i := 0; i < k; i++ {
		out[i], toks = parseOpExpr(toks)
	}
	return out, toks
}

func opsAggPrototype(name string) func() nodes.Aggregate {
	switch name {
	case "count":
		return aggregates.CountOverloads[0].Prototype
	case "sum":
		return aggregates.SumOverloads[0].Prototype // Int
	case "max":
		return aggregates.MaxOverloads[0].Prototype
	}
	panic("bad aggregate " + name)
}

func parseOpGroup(toks []string) (keys []execution.Expression, protos []func() nodes.Aggregate, aggExprs []execution.Expression, rest []string) {
	nk, _ := strconv.Atoi(toks[0])
	keys, toks = parseOpExprs(nk, toks[1:])
	na, _ := strconv.Atoi(toks[0])
	toks = toks[1:]
	for i := 0; i < na; i++ {
		protos = append(protos, opsAggPrototype(toks[0]))
		var e execution.Expression
		e, toks = parseOpExpr(toks[1:])
		aggExprs = append(aggExprs, e)
	}
	return keys, protos, aggExprs, toks
}

type opsOrd struct {
	keys    []execution.Expression
	dirs    []int
	limit   *int64
	noRetr  bool
	limExpr *execution.Expression
}

func parseOpOrd(toks []string) (opsOrd, []string) {
	var o opsOrd
	nk, _ := strconv.Atoi(toks[0])
	toks = toks[1:]
	for i := 0; i < nk; i++ {
		var e execution.Expression
		e, toks = parseOpExpr(toks)
		d, _ := strconv.Atoi(toks[0])
		toks = toks[1:]
		o.keys = append(o.keys, e)
		o.dirs = append(o.dirs, d)
	}
	if toks[0] != "none" {
		n, _ := strconv.ParseInt(toks[0], 10, 64)
		o.limit = &n
		var e execution.Expression = execution.NewConstant(octosql.NewInt(n))
		o.limExpr = &e
	}
	o.noRetr = toks[1] == "1"
	return o, toks[2:]
}

// captureFormat records the rows the batch printer writes.
type captureFormat struct{ rows *[][]octosql.Value }

func (c captureFormat) SetSchema(physical.Schema) {}
func (c captureFormat) Write(vs []octosql.Value) error {
	*c.rows = append(*c.rows, append([]octosql.Value(nil), vs...))
	return nil
}
func (c captureFormat) Close() error { return nil }

// printerNode adapts batch.OutputPrinter (which has no produce callback) to execution.Node: the rows of
// the final table are produced as addition records.
type printerNode struct {
	source execution.Node
	ord    opsOrd
}

func (p *printerNode) Run(ctx execution.ExecutionContext, produce execution.ProduceFn, metaSend execution.MetaSendFn) error {
	var rows [][]octosql.Value
	pr := batch.NewOutputPrinter(p.source, p.ord.keys, p.ord.dirs, p.ord.limit, p.ord.noRetr, physical.Schema{},
		func(io.Writer) batch.Format { return captureFormat{&rows} }, false)
	if err := pr.Run(ctx); err != nil {
		return err
	}
	for _, r := range rows {
		if err := produce(execution.ProduceFromExecutionContext(ctx), execution.NewRecord(r, false, parseEt("z"))); err != nil {
			return err
		}
	}
	return nil
}

// parseOpNode builds one real node over `source`; returns the node, its kind and the remaining tokens.
func parseOpNode(toks []string, source execution.Node) (execution.Node, string, []string) {
	kind, r := toks[0], toks[1:]
	switch kind {
	case "filter":
		e, r := parseOpExpr(r)
		return nodes.NewFilter(source, e), kind, r
	case "map":
		n, _ := strconv.Atoi(r[0])
		es, r := parseOpExprs(n, r[1:])
		return nodes.NewMap(source, es), kind, r
	case "distinct":
		return nodes.NewDistinct(source), kind, r
	case "unnest":
		i, _ := strconv.Atoi(r[0])
		return nodes.NewUnnest(source, i), kind, r[1:]
	case "limit":
		n, _ := strconv.ParseInt(r[0], 10, 64)
		return nodes.NewLimit(source, execution.NewConstant(octosql.NewInt(n))), kind, r[1:]
	case "etbuf":
		return nodes.NewEventTimeBuffer(source), kind, r
	case "sgroup":
		keys, protos, aggExprs, r := parseOpGroup(r)
		return nodes.NewSimpleGroupBy(protos, aggExprs, keys, source), kind, r
	case "cgroup":
		idx, _ := strconv.Atoi(r[0])
		keys, protos, aggExprs, r := parseOpGroup(r[1:])
		return nodes.NewCustomTriggerGroupBy(protos, aggExprs, keys, idx, source, execution.NewEndOfStreamTriggerPrototype()), kind, r
	case "lookup":
		e, r := parseOpExpr(r)
		end := 0
		for r[end] != "]" {
			end++
		}
		jm, jf := parseOpSrc(r[:end])
		joined := nodes.NewFilter(&ScriptNode{Msgs: jm, FailAt: jf}, e)
		return nodes.NewLookupJoin(source, joined), kind, r[end+1:]
	case "orderby":
		o, r := parseOpOrd(r)
		return nodes.NewOrderSensitiveTransform(source, o.keys, o.dirs, o.limExpr, o.noRetr), kind, r
	case "printer":
		o, r := parseOpOrd(r)
		return &printerNode{source: source, ord: o}, kind, r
	}
	panic("bad node kind " + kind)
}

// parseOpSrc: <N|F> <stream>  →  messages and FailAt (-1 = never)
func parseOpSrc(toks []string) ([]Msg, int) {
	ms := ParseMsgs(toks[1:])
	if toks[0] == "F" {
		return ms, len(ms)
	}
	return ms, -1
}

func driveOps(toks []string) string {
	sep := 0
	for toks[sep] != "|" {
		sep++
	}
	cfg := toks[:sep]
	ms, failAt := parseOpSrc(toks[sep+1:])
	var node execution.Node = &ScriptNode{Msgs: ms, FailAt: failAt}
	k := 1
	if cfg[0] == "pipe" {
		k, _ = strconv.Atoi(cfg[1])
		cfg = cfg[2:]
	}
	lastKind := ""
	for i := 0; i < k; i++ {
		node, lastKind, cfg = parseOpNode(cfg, node)
	}
	out, err := Collect(execution.ExecutionContext{Context: context.Background()}, node)
	cls := ErrClass(err)
	if len(out) == 0 {
		return cls
	}
	parts := make([]string, 0, len(out))
	if lastKind == "sgroup" {
		// hash-map iteration order: watermarks (all emitted before the flush) first, then the records sorted
		var recs []string
		for _, m := range out {
			if m.IsWM {
				parts = append(parts, EncodeMsg(m))
			} else {
				recs = append(recs, EncodeMsg(m))
			}
		}
		sort.Strings(recs)
		parts = append(parts, recs...)
	} else {
		for _, m := range out {
			parts = append(parts, EncodeMsg(m))
		}
	}
	return cls + " | " + strings.Join(parts, " ; ")
}
