package main

// C27 — plugin installation / repository registration survive a crash at any point.
//
//   crash install VT… CT… FS… CFG… JOB… AT <step> <tear|->
//   crash addrepo VT… CT… FS… CFG… REPO <slughex> <urlhex> AT <step> <tear|->
//   start VT… CT… FS… CFG…
//
// drive: materialise the tree, run the REAL PluginManager.Install / repository.AddRepository in-process against a
// loopback repository with a crash injected before filesystem step <step> (torn write: <tear> bytes), dump the tree,
// then start the REAL octosql binary on it (which version does every configured database resolve to?), ask the real
// GetPluginBinaryPath for the resolved versions' binaries and the real GetRepositories to read the repositories directory.

import (
	"bufio"
	"encoding/json"
	"fmt"
	"sort"
	"strings"
)

func init() {
	register("C27", &prop{gen: genC27, drive: driveC27})
}

// number of crash points of Install (without / with the registry write) and AddRepository, in program order;
// the generator only needs the counts (the names and their order are extracted from the source for the Lean side)
const (
	c27InstallSteps = 12
	c27AddRepoSteps = 3
)

func observeWorld(w *plWorld, ct []plCon, cfg []plDb) string {
	st := w.startup(ct, cfg)
	bits := "-"
	if strings.HasPrefix(st, "ok") && len(cfg) > 0 {
		f := strings.Fields(st)[1:]
		resolved := make([]string, len(cfg))
		for i := range cfg {
			if i < len(f) {
				kv := strings.SplitN(f[i], "=", 2)
				resolved[i] = unhx(kv[1])
			}
		}
		bits = w.runnable(cfg, resolved)
	}
	return fmt.Sprintf("S %s R %s P %s", st, bits, w.reposOK())
}

func treeLine(w *plWorld) string {
	return encFS("T", dumpTree(w.root))
}

func driveC27(toks []string) string {
	switch toks[0] {
	case "start":
		p := &plParser{toks: toks[1:]}
		p.vt()
		ct := p.ct()
		fs := p.fs("FS")
		cfg := p.cfg()
		w := newWorld("c27", fs)
		defer w.close()
		return observeWorld(w, ct, cfg)
	case "crash":
		p := &plParser{toks: toks[2:]}
		vt := p.vt()
		ct := p.ct()
		fs := p.fs("FS")
		cfg := p.cfg()
		w := newWorld("c27", fs)
		defer w.close()
		switch toks[1] {
		case "install":
			j := p.job()
			step, tear, trunc := p.at()
			w.installTrunc(vt, ct, j, step, tear, trunc)
		case "addrepo":
			p.expect("REPO")
			slug, url := unhx(p.next()), unhx(p.next())
			step, tear, _ := p.at()
			w.addRepoURL(slug, url, step, tear)
		default:
			return "bad-op"
		}
		tree := treeLine(w)
		return tree + " " + observeWorld(w, ct, cfg)
	}
	return "bad-op"
}

// ---- generator

type c27Scenario struct {
	t     *treeGen
	fs    []plEntry
	inst  []plInstalled
	cfg   []plDb
	cons  []string
	conIx map[string]int
}

func (s *c27Scenario) con(c string) int {
	if i, ok := s.conIx[c]; ok {
		return i
	}
	s.conIx[c] = len(s.cons)
	s.cons = append(s.cons, c)
	return len(s.cons) - 1
}

func handlersJSON(m map[string]string) []byte {
	b, _ := json.Marshal(m)
	return b
}

func repoEntryJSON(url string) []byte {
	b, _ := json.Marshal(map[string]string{"url": url})
	return b
}

// healthyWorld: a tree with binaries, maybe an extension registry, maybe repository entries, and a configuration
// whose databases all resolve.
func healthyWorld(g *Gen) *c27Scenario {
	s := &c27Scenario{t: newTreeGen(g), conIx: map[string]int{"*": 0}, cons: []string{"*"}}
	s.fs, s.inst = s.t.pluginTree(true, true)
	if g.Chance(1, 2) {
		m := map[string]string{}
		for _, e := range []string{"xlsx", "avro", "log", "db"} {
			if g.Chance(1, 3) {
				m[e] = Pick(g, plNames)
			}
		}
		s.fs = append(s.fs, plEntry{path: "file_extension_handlers.json", content: handlersJSON(m)})
	}
	// leftovers of operations killed earlier (such a tree is Healthy, theorem C27_healthy_again): the temporary files of
	// the two atomic JSON writes, complete or torn, longer than anything the next operation writes
	if g.Chance(1, 2) {
		stale := handlersJSON(map[string]string{"xlsx": "excel-spreadsheets-plugin", "xls": "excel-spreadsheets-plugin", "ods": "excel-spreadsheets-plugin",
			"avro": "avro", "parquet2": "parquet-next", "sqlite": "sqlite", "db": "sqlite"})
		if g.Bool() {
			stale = stale[:len(stale)-1-g.Intn(40)]
		}
		s.fs = append(s.fs, plEntry{path: "file_extension_handlers.json.tmp", content: stale})
	}
	if g.Chance(1, 3) {
		for _, r := range []string{"my-repo", "r2", "fresh", "third-party"} {
			if g.Chance(1, 2) {
				stale := repoEntryJSON("http://plugins.test/a/very/long/path/to/a/repository/that/was/never/registered/" + hx(r) + ".json")
				if g.Bool() {
					stale = stale[:len(stale)-1-g.Intn(30)]
				}
				s.fs = append(s.fs, plEntry{path: "repositories-" + r + ".tmp", content: stale})
			}
		}
	}
	if g.Chance(1, 3) {
		s.fs = append(s.fs, plEntry{path: "repositories", dir: true})
		for _, r := range []string{"my-repo", "r2"} {
			if g.Chance(1, 2) {
				s.fs = append(s.fs, plEntry{path: "repositories/" + r, content: repoEntryJSON("http://plugins.test/repo/" + hx(r) + ".json")})
			}
		}
	}
	return s
}

// configure adds up to n databases that resolve in the current tree (constraint chosen among those some installed
// version passes), preferring the plugin `prefer` if it is installed.
func (s *c27Scenario) configure(g *Gen, n int, preferRepo, preferPlugin string) {
	for k := 0; k < n; k++ {
		var cands []plInstalled
		for _, p := range s.inst {
			if len(p.versions) > 0 {
				cands = append(cands, p)
			}
		}
		if len(cands) == 0 {
			return
		}
		p := Pick(g, cands)
		if k == 0 {
			for _, c := range cands {
				if c.repo == preferRepo && c.plugin == preferPlugin {
					p = c
				}
			}
		}
		d := plDb{name: fmt.Sprintf("db%d", k), repo: p.repo, plugin: p.plugin, cidx: -1}
		if g.Chance(3, 4) {
			// a constraint at least one installed version passes
			var ok []string
			vt := buildVT(p.versions)
			for _, c := range plConstraints {
				ct := buildCT([]string{c}, vt)
				for _, b := range ct[0].bits {
					if b {
						ok = append(ok, c)
						break
					}
				}
			}
			if len(ok) > 0 {
				d.cidx = s.con(Pick(g, ok))
			}
		}
		if d.cidx < 0 {
			// no constraint = `*`, which prereleases do not pass
			vt := buildVT(p.versions)
			ct := buildCT([]string{"*"}, vt)
			any := false
			for _, b := range ct[0].bits {
				any = any || b
			}
			if !any {
				continue
			}
		}
		s.cfg = append(s.cfg, d)
	}
}

func (s *c27Scenario) header() string {
	vt := buildVT(s.t.origs)
	return fmt.Sprintf("%s %s %s %s", encVT(vt), encCT(buildCT(s.cons, vt)), encFS("FS", s.fs), encCFG(s.cfg))
}

func genC27(g *Gen, tier string, w *bufio.Writer) {
	rounds := 8
	if tier == "thorough" {
		rounds = 120
	}
	for r := 0; r < rounds; r++ {
		// ---- install scenarios: every crash point × tear lengths
		s := healthyWorld(g)
		kind := g.Intn(4) // 0 fresh plugin, 1 new version of an installed plugin, 2 same version again, 3 whatever
		repo, name := Pick(g, plRepos), Pick(g, plNames)
		var have []string
		if kind != 0 && len(s.inst) > 0 {
			p := Pick(g, s.inst)
			repo, name, have = p.repo, p.plugin, p.versions
		} else {
			for _, p := range s.inst {
				if p.repo == repo && p.plugin == name {
					have = p.versions
				}
			}
		}
		// the manifest: a few versions; for kind 2 it offers exactly an installed one
		var man []int
		usedV := map[string]bool{}
		if kind == 2 && len(have) > 0 {
			v := Pick(g, have)
			man = append(man, s.t.ver(v))
			usedV[v] = true
		} else {
			for k := 0; k < g.Intn(4)+1; k++ {
				v := Pick(g, plVersions)
				if !usedV[v] {
					usedV[v] = true
					man = append(man, s.t.ver(v))
				}
			}
		}
		s.configure(g, g.Intn(3)+1, repo, name)
		cidx := -1
		if g.Chance(1, 2) {
			cidx = s.con(Pick(g, []string{"*", ">=0.0.0-0", ">=0.1.0", "<10.0.0"}))
		}
		entries := []plEntry{{path: "octosql-plugin-" + name, content: binaryContent(repo, name, "new")}}
		if g.Chance(1, 2) {
			entries = append(entries, plEntry{path: "README.md", content: []byte("readme")})
		}
		if g.Chance(1, 3) {
			entries = append(entries, plEntry{path: "lib/helper.so", content: []byte("helper")})
		}
		var exts []string
		for _, e := range []string{"xlsx", "avro", "ods"} {
			if g.Chance(1, 3) {
				exts = append(exts, e)
			}
		}
		j := plJob{repo: repo, plugin: name, cidx: cidx, manifest: man, archive: makeTarGz(entries), entries: entries, exts: exts}
		head := s.header()
		job := encJob(j)
		for step := 0; step <= c27InstallSteps; step++ {
			fmt.Fprintf(w, "crash install %s %s AT %d -\n", head, job, step)
		}
		// torn writes: the archive download (step 3) and the registry temp file (step 10)
		for _, tw := range []struct{ step, n int }{{3, len(j.archive)}, {10, 40}} {
			for _, t := range []int{0, 1, tw.n / 2, tw.n - 1} {
				if t >= 0 {
					fmt.Fprintf(w, "crash install %s %s AT %d %d\n", head, job, tw.step, t)
				}
			}
		}
		// Unarchive stopping by itself on a truncated archive: what a kill inside Unarchive leaves behind
		// (cuts well inside the compressed data; cutting only the gzip trailer lets the tar reader finish)
		for _, t := range []int{len(j.archive) / 3, len(j.archive) / 2, 2 * len(j.archive) / 3} {
			if t > 0 {
				fmt.Fprintf(w, "crash install %s %s AT 4 u%d\n", head, job, t)
			}
		}
		// ---- repository add
		s2 := healthyWorld(g)
		s2.configure(g, g.Intn(3), "", "")
		slug := Pick(g, []string{"my-repo", "r2", "fresh", "third-party"})
		url := "http://plugins.test/repo/" + hx(slug) + ".json"
		n := len(repoEntryJSON(url))
		head2 := s2.header()
		for step := 0; step <= c27AddRepoSteps; step++ {
			fmt.Fprintf(w, "crash addrepo %s REPO %s %s AT %d -\n", head2, hx(slug), hx(url), step)
		}
		for _, t := range []int{0, 1, n / 2, n - 1} {
			fmt.Fprintf(w, "crash addrepo %s REPO %s %s AT 1 %d\n", head2, hx(slug), hx(url), t)
		}
		// ---- start-up on damaged trees (what the pre-repair code left behind): torn registry, torn repository
		// entry, version directory without binary — the model must agree with the real start-up on those too
		s3 := healthyWorld(g)
		s3.configure(g, g.Intn(3)+1, "", "")
		switch g.Intn(4) {
		case 0:
			full := handlersJSON(map[string]string{"xlsx": "excel", "avro": "avro"})
			s3.fs = dropPath(s3.fs, "file_extension_handlers.json")
			s3.fs = append(s3.fs, plEntry{path: "file_extension_handlers.json", content: full[:g.Intn(len(full))]})
		case 1:
			full := repoEntryJSON("http://plugins.test/repo/x.json")
			if !hasPath(s3.fs, "repositories") {
				s3.fs = append(s3.fs, plEntry{path: "repositories", dir: true})
			}
			s3.fs = append(s3.fs, plEntry{path: "repositories/torn", content: full[:g.Intn(len(full))]})
		case 2:
			// a listed version without its binary
			for i, e := range s3.fs {
				if !e.dir && strings.HasPrefix(e.path, "plugins/") && g.Chance(1, 2) {
					s3.fs = append(s3.fs[:i:i], s3.fs[i+1:]...)
					break
				}
			}
		}
		fmt.Fprintf(w, "start %s\n", s3.header())
	}
}

func hasPath(fs []plEntry, p string) bool {
	for _, e := range fs {
		if e.path == p {
			return true
		}
	}
	return false
}

func dropPath(fs []plEntry, p string) []plEntry {
	var out []plEntry
	for _, e := range fs {
		if e.path != p {
			out = append(out, e)
		}
	}
	return out
}

var _ = sort.Strings
