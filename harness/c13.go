package main

// C13 — numeric, time and conversion functions, IN / NOT IN, list indexing, COALESCE (+ ObjectLayoutFixer),
// TypeAssertion, TypeCast.  `drive` calls the REAL descriptors of functions.FunctionMap() and the real
// execution.Coalesce / ObjectLayoutFixer / TypeAssertion / TypeCast in-process.
//
// op lines (see lean/Octo/Drv/C13.lean for the other half):
//   fn   <sym> <idx> <declared type> <k> <arg>…      -> v <value> | err | panic
//   fnty <sym> <idx> <declared type> <k> <arg>…      -> ty <TypeID> | err | panic      (runtime/library arithmetic: not modelled)
//   rt <int>                                          -> v <value>   time_to_unix(time_from_unix(x))
//   itos <int>                                        -> v <value>   int(string(x))
//   coalesce <target type> <k> (<source type> <value>)…  -> v <value> | panic
//   tassert <k> <TypeID>… <value>                     -> v <value> | err
//   tcast <TypeID> <value>                            -> v <value>
// values: the shared codec, except that a time is  U<unix seconds>:<nanoseconds>:<loc>  (time.Unix(sec, nsec)), because
// time_from_unix reaches instants far outside the UnixNano range of the shared `t` token.

import (
	"bufio"
	"context"
	"fmt"
	"io"
	"log"
	"math"
	"strconv"
	"strings"
	"time"

	"github.com/cube2222/octosql/execution"
	"github.com/cube2222/octosql/functions"
	"github.com/cube2222/octosql/octosql"
	"github.com/cube2222/octosql/physical"
)

func init() {
	register("C13", &prop{gen: genC13, drive: driveC13})
}

// symbolic (token-safe) names of the descriptors under check
var sym13 = map[string]string{
	"add": "+", "sub": "-", "mul": "*", "div": "/", "abs": "abs", "sqrt": "sqrt", "ceil": "ceil", "floor": "floor",
	"log2": "log2", "log": "log", "log10": "log10", "pow": "pow", "len": "len", "tfu": "time_from_unix",
	"ttu": "time_to_unix", "int": "int", "float": "float", "string": "string", "idx": "[]", "in": "in", "notin": "not in",
}

var fmap13 map[string]physical.FunctionDetails

func fmap() map[string]physical.FunctionDetails {
	if fmap13 == nil {
		log.SetOutput(io.Discard) // int('x') logs every failed parse
		fmap13 = functions.FunctionMap()
	}
	return fmap13
}

func desc13(sym string, idx int) physical.FunctionDescriptor {
	name, ok := sym13[sym]
	if !ok {
		panic("c13: unknown function symbol " + sym)
	}
	ds := fmap()[name].Descriptors
	if idx >= len(ds) {
		panic("c13: no such overload")
	}
	return ds[idx]
}

// ---------- value codec with U-times ----------

func enc13(sb *strings.Builder, v octosql.Value) {
	switch v.TypeID {
	case octosql.TypeIDTime:
		fmt.Fprintf(sb, "U%d:%d:%d", v.Time.Unix(), v.Time.Nanosecond(), locID(v.Time.Location()))
	case octosql.TypeIDList:
		enc13seq(sb, "L", v.List)
	case octosql.TypeIDStruct:
		enc13seq(sb, "S", v.Struct)
	case octosql.TypeIDTuple:
		enc13seq(sb, "T", v.Tuple)
	default:
		encodeValue(sb, v)
	}
}

func enc13seq(sb *strings.Builder, tag string, xs []octosql.Value) {
	sb.WriteString(tag + strconv.Itoa(len(xs)))
	for _, x := range xs {
		sb.WriteByte(' ')
		enc13(sb, x)
	}
}

func Enc13(v octosql.Value) string {
	var sb strings.Builder
	enc13(&sb, v)
	return sb.String()
}

func Enc13s(vs []octosql.Value) string {
	parts := make([]string, len(vs))
	for i := range vs {
		parts[i] = Enc13(vs[i])
	}
	return strings.Join(parts, " ")
}

func parse13(toks []string) (octosql.Value, []string) {
	tok, rest := toks[0], toks[1:]
	switch tok[0] {
	case 'U':
		p := strings.Split(tok[1:], ":")
		sec, err := strconv.ParseInt(p[0], 10, 64)
		if err != nil {
			panic(err)
		}
		nsec, _ := strconv.ParseInt(p[1], 10, 64)
		loc, _ := strconv.Atoi(p[2])
		return octosql.NewTime(time.Unix(sec, nsec).In(locOf(loc))), rest
	case 'L', 'S', 'T':
		k, _ := strconv.Atoi(tok[1:])
		xs := make([]octosql.Value, k)
		for i := 0; i < k; i++ {
			xs[i], rest = parse13(rest)
		}
		switch tok[0] {
		case 'L':
			return octosql.NewList(xs), rest
		case 'S':
			return octosql.NewStruct(xs), rest
		default:
			return octosql.NewTuple(xs), rest
		}
	}
	return ParseValue(toks)
}

func parse13s(k int, toks []string) ([]octosql.Value, []string) {
	xs := make([]octosql.Value, k)
	for i := 0; i < k; i++ {
		xs[i], toks = parse13(toks)
	}
	return xs, toks
}

// ---------- drive ----------

func outcome13(v octosql.Value, err error) string {
	if err != nil {
		return "err"
	}
	return "v " + Enc13(v)
}

func driveC13(toks []string) string {
	switch toks[0] {
	case "fn", "fnty":
		idx, _ := strconv.Atoi(toks[2])
		d := desc13(toks[1], idx)
		_, r := ParseType(toks[3:])
		k, _ := strconv.Atoi(r[0])
		args, _ := parse13s(k, r[1:])
		v, err := d.Function(args)
		if err != nil {
			return "err"
		}
		if toks[0] == "fnty" {
			return "ty " + strconv.Itoa(int(v.TypeID))
		}
		return "v " + Enc13(v)
	case "rt":
		x, _ := parse13(toks[1:])
		t, err := desc13("tfu", 0).Function([]octosql.Value{x})
		if err != nil {
			return "err"
		}
		return outcome13(desc13("ttu", 0).Function([]octosql.Value{t}))
	case "rtf":
		// time_to_unix(time_from_unix(float64(x) + q/4)) through the Float overload; exact for |x| < 2^51
		x, r := parse13(toks[1:])
		q, _ := strconv.Atoi(r[0])
		t, err := desc13("tfu", 1).Function([]octosql.Value{octosql.NewFloat(float64(x.Int) + float64(q)*0.25)})
		if err != nil {
			return "err"
		}
		return outcome13(desc13("ttu", 0).Function([]octosql.Value{t}))
	case "itos":
		x, _ := parse13(toks[1:])
		s, err := desc13("string", 0).Function([]octosql.Value{x})
		if err != nil {
			return "err"
		}
		return outcome13(desc13("int", 3).Function([]octosql.Value{s}))
	case "coalesce":
		target, r := ParseType(toks[1:])
		k, _ := strconv.Atoi(r[0])
		r = r[1:]
		srcs := make([]octosql.Type, k)
		exprs := make([]execution.Expression, k)
		for i := 0; i < k; i++ {
			srcs[i], r = ParseType(r)
			var v octosql.Value
			v, r = parse13(r)
			exprs[i] = execution.NewConstant(v)
		}
		c := execution.NewCoalesce(exprs, execution.NewObjectLayoutFixer(target, srcs))
		return outcome13(c.Evaluate(execution.ExecutionContext{Context: context.Background()}))
	case "tassert":
		k, _ := strconv.Atoi(toks[1])
		ids := make([]octosql.TypeID, k)
		for i := 0; i < k; i++ {
			n, _ := strconv.Atoi(toks[2+i])
			ids[i] = octosql.TypeID(n)
		}
		v, _ := parse13(toks[2+k:])
		e := execution.NewTypeAssertion(ids, execution.NewConstant(v), "x")
		return outcome13(e.Evaluate(execution.ExecutionContext{Context: context.Background()}))
	case "tcast":
		n, _ := strconv.Atoi(toks[1])
		v, _ := parse13(toks[2:])
		e := execution.NewTypeCast(octosql.TypeID(n), execution.NewConstant(v))
		return outcome13(e.Evaluate(execution.ExecutionContext{Context: context.Background()}))
	}
	return driveC13resolve(toks)
}

// ---------- generators ----------

var i64edge = []int64{math.MinInt64, math.MinInt64 + 1, -(1 << 62), -(1 << 32), -3037000500, -1000000000, -10, -3, -2, -1, 0, 1, 2, 3, 7, 10,
	1000000000, 3037000499, 3037000500, 1 << 31, 1 << 32, 1 << 62, math.MaxInt64 - 1, math.MaxInt64,
	-62135596800, -62135596801, 62135596800, 9223372036854775807 - 62135596800, 9223372036854775807 - 62135596799}

func randI64(g *Gen) int64 {
	switch g.Intn(6) {
	case 0, 1:
		return Pick(g, i64edge)
	case 2:
		return int64(g.Intn(41)) - 20
	case 3:
		return int64(g.U64())
	case 4:
		return Pick(g, i64edge) + int64(g.Intn(5)) - 2
	default:
		sh := uint(g.Intn(64))
		return int64(g.U64()) >> sh
	}
}

func randF64(g *Gen) octosql.Value {
	if g.Chance(1, 2) {
		return f64(Pick(g, edgeFloats))
	}
	if g.Chance(1, 2) {
		return octosql.NewFloat(float64(int64(g.Intn(2001))-1000) / 8)
	}
	return f64(g.U64())
}

func randTime13(g *Gen) octosql.Value {
	var sec int64
	switch g.Intn(4) {
	case 0:
		sec = int64(g.Intn(200001)) - 100000
	case 1:
		sec = Pick(g, i64edge)
	case 2:
		sec = int64(g.U64())
	default:
		sec = int64(g.U64()) >> uint(g.Intn(40))
	}
	nsec := int64(0)
	switch g.Intn(4) {
	case 0:
		nsec = 999999999
	case 1:
		nsec = 1
	case 2:
		nsec = int64(g.Intn(1000000000))
	}
	return octosql.NewTime(time.Unix(sec, nsec).In(locOf(Pick(g, []int{0, 0, 1, 103}))))
}

var strEdge13 = []string{"", "0", "-0", "+0", "1", "-1", "+1", "007", "-007", "9223372036854775807", "9223372036854775808",
	"-9223372036854775808", "-9223372036854775809", "18446744073709551615", "18446744073709551616", "18446744073709551617",
	"99999999999999999999", "184467440737095516150", "1844674407370955162", "1844674407370955161", "-", "+", "--1", "+-1", " 1", "1 ", "1_000", "0x10", "1e3", "1.0", "١", "a", "12a", "a12", "\x0012",
	"-18446744073709551615", "00000000000000000000000000001", "-00000000000000000000009223372036854775808", "1a99999999999999999999"}

func randIntString(g *Gen) string {
	switch g.Intn(5) {
	case 0, 1:
		return Pick(g, strEdge13)
	case 2:
		return strconv.FormatInt(randI64(g), 10)
	case 3:
		// a digit string near the int64 / uint64 boundaries
		s := Pick(g, []string{"9223372036854775807", "9223372036854775808", "18446744073709551615", "18446744073709551616", "922337203685477580", "1844674407370955161"})
		b := []byte(s)
		if len(b) > 0 && g.Chance(2, 3) {
			b[g.Intn(len(b))] = byte('0' + g.Intn(10))
		}
		if g.Chance(1, 3) {
			b = append(b, byte('0'+g.Intn(10)))
		}
		pre := Pick(g, []string{"", "", "-", "+", "0", "-0"})
		return pre + string(b)
	default:
		n := g.Intn(6)
		b := make([]byte, n)
		for i := range b {
			b[i] = Pick(g, []byte("0123456789+-_ a.eE\x00\xff/:"))
		}
		return string(b)
	}
}

func randStr13(g *Gen) string {
	if g.Chance(1, 2) {
		return Pick(g, edgeStrings)
	}
	return randIntString(g)
}

// a value whose String() is modelled (no float / time / duration leaves)
func randPlain(g *Gen, depth int) octosql.Value {
	k := g.Intn(8)
	if depth <= 0 && k >= 5 {
		k = g.Intn(5)
	}
	switch k {
	case 0:
		return octosql.NewNull()
	case 1, 2:
		return octosql.NewInt(randI64(g))
	case 3:
		return octosql.NewBoolean(g.Bool())
	case 4:
		return octosql.NewString(randStr13(g))
	default:
		n := g.Intn(4)
		xs := make([]octosql.Value, n)
		for i := range xs {
			xs[i] = randPlain(g, depth-1)
		}
		switch k {
		case 5:
			return octosql.NewList(xs)
		case 6:
			return octosql.NewStruct(xs)
		default:
			return octosql.NewTuple(xs)
		}
	}
}

func hasOpaqueLeaf(v octosql.Value) bool {
	switch v.TypeID {
	case octosql.TypeIDFloat, octosql.TypeIDTime, octosql.TypeIDDuration:
		return true
	case octosql.TypeIDList:
		for _, x := range v.List {
			if hasOpaqueLeaf(x) {
				return true
			}
		}
	case octosql.TypeIDStruct:
		for _, x := range v.Struct {
			if hasOpaqueLeaf(x) {
				return true
			}
		}
	case octosql.TypeIDTuple:
		for _, x := range v.Tuple {
			if hasOpaqueLeaf(x) {
				return true
			}
		}
	}
	return false
}

// the static type of a generated value (Value.Type() is not usable: it leaves struct fields unnamed and untyped)
func typeOf13(v octosql.Value) octosql.Type {
	switch v.TypeID {
	case octosql.TypeIDList:
		var el *octosql.Type
		for _, x := range v.List {
			t := typeOf13(x)
			if el == nil {
				el = &t
			} else {
				s := octosql.TypeSum(*el, t)
				el = &s
			}
		}
		return octosql.Type{TypeID: octosql.TypeIDList, List: struct{ Element *octosql.Type }{Element: el}}
	case octosql.TypeIDStruct:
		fs := make([]octosql.StructField, len(v.Struct))
		for i, x := range v.Struct {
			fs[i] = octosql.StructField{Name: "f" + strconv.Itoa(i), Type: typeOf13(x)}
		}
		return octosql.Type{TypeID: octosql.TypeIDStruct, Struct: struct{ Fields []octosql.StructField }{Fields: fs}}
	case octosql.TypeIDTuple:
		es := make([]octosql.Type, len(v.Tuple))
		for i, x := range v.Tuple {
			es[i] = typeOf13(x)
		}
		return octosql.Type{TypeID: octosql.TypeIDTuple, Tuple: struct{ Elements []octosql.Type }{Elements: es}}
	}
	return octosql.Type{TypeID: v.TypeID}
}

// declared output type of a descriptor for the given arguments
func declared13(sym string, idx int, args []octosql.Value) octosql.Type {
	d := desc13(sym, idx)
	if d.TypeFn == nil {
		return d.OutputType
	}
	ts := make([]octosql.Type, len(args))
	for i := range args {
		ts[i] = typeOf13(args[i])
	}
	t, ok := d.TypeFn(ts)
	if !ok {
		panic(fmt.Sprintf("c13: TypeFn of %s/%d rejects generated arguments", sym, idx))
	}
	return t
}

func emitFn(w *bufio.Writer, kind, sym string, idx int, args ...octosql.Value) {
	fmt.Fprintf(w, "%s %s %d %s %d %s\n", kind, sym, idx, EncodeType(declared13(sym, idx, args)), len(args), Enc13s(args))
}

// emitFnT: like emitFn for a TypeFn descriptor, with the static argument types given (not reconstructed from the values)
func emitFnT(w *bufio.Writer, kind, sym string, idx int, ts []octosql.Type, args ...octosql.Value) {
	t, ok := desc13(sym, idx).TypeFn(ts)
	if !ok {
		panic(fmt.Sprintf("c13: TypeFn of %s/%d rejects generated argument types", sym, idx))
	}
	fmt.Fprintf(w, "%s %s %d %s %d %s\n", kind, sym, idx, EncodeType(t), len(args), Enc13s(args))
}

func vi(i int64) octosql.Value { return octosql.NewInt(i) }
func vd(i int64) octosql.Value { return octosql.NewDuration(time.Duration(i)) }
func vs(s string) octosql.Value { return octosql.NewString(s) }

// bounded repeat counts: never ask the real code to allocate much
func randRepeat(g *Gen, s string) int64 {
	switch g.Intn(6) {
	case 0:
		return -int64(g.Intn(5)) - 1
	case 1:
		return Pick(g, []int64{math.MinInt64, -1, 0, math.MaxInt64, 1 << 62, 1 << 40, 1<<30 + 1, 1 << 31})
	case 2:
		return randI64(g) | (1 << 41) // far too large (or negative)
	default:
		return int64(g.Intn(40))
	}
}

// result sizes the harness is willing to ask the real code for
func repeatOK(s string, n int64) bool {
	if n <= 0 || len(s) == 0 {
		return true
	}
	// either small, or so large that the runtime refuses the allocation outright (a recoverable panic on the unrepaired
	// code, an error on the repaired code); never anything in between, which the unrepaired code would try to allocate
	if n >= (1<<50)/int64(len(s))+1 {
		return true
	}
	return int64(len(s))*n <= 1<<16
}

func genC13(g *Gen, tier string, w *bufio.Writer) {
	scale := 1
	if tier == "thorough" {
		scale = 12
	}
	// ---- the Float overload of time_from_unix on exactly representable arguments (x + q/4, |x| < 2^51)
	for _, x := range []int64{0, 1, -1, 2, -2, 59, 1 << 31, -(1 << 31), 1<<32 - 1, 1 << 32, -(1 << 32), 9223372035, 9223372036, 9223372037,
		-9223372036, -9223372037, 10000000000, -10000000000, 253402300800, 1 << 40, -(1 << 40), 1 << 50, -(1 << 50)} {
		for q := 0; q < 4; q++ {
			fmt.Fprintf(w, "rtf %s %d\n", Enc13(vi(x)), q)
		}
	}
	// ---- exhaustive over the integer edge universe: binary Int / Duration operators, unary ones, conversions
	for _, a := range i64edge {
		emitFn(w, "fn", "sub", 1, vi(a))
		emitFn(w, "fn", "sub", 5, vd(a))
		emitFn(w, "fn", "abs", 0, vi(a))
		emitFn(w, "fn", "tfu", 0, vi(a))
		emitFn(w, "fn", "int", 0, vi(a))
		emitFn(w, "fn", "int", 4, vd(a))
		emitFn(w, "fn", "string", 0, vi(a))
		emitFn(w, "fnty", "float", 1, vi(a))
		emitFn(w, "fnty", "float", 3, vd(a))
		emitFn(w, "fnty", "string", 0, vd(a))
		fmt.Fprintf(w, "rt %s\n", Enc13(vi(a)))
		fmt.Fprintf(w, "itos %s\n", Enc13(vi(a)))
		for _, b := range i64edge {
			emitFn(w, "fn", "add", 0, vi(a), vi(b))
			emitFn(w, "fn", "sub", 0, vi(a), vi(b))
			emitFn(w, "fn", "mul", 0, vi(a), vi(b))
			emitFn(w, "fn", "div", 0, vi(a), vi(b))
			emitFn(w, "fn", "add", 2, vd(a), vd(b))
			emitFn(w, "fn", "sub", 4, vd(a), vd(b))
			emitFn(w, "fn", "mul", 2, vd(a), vi(b))
			emitFn(w, "fn", "mul", 3, vi(a), vd(b))
			emitFn(w, "fn", "div", 2, vd(a), vi(b))
			emitFn(w, "fnty", "div", 3, vd(a), vd(b))
		}
	}
	emitFn(w, "fn", "int", 1, octosql.NewBoolean(false))
	emitFn(w, "fn", "int", 1, octosql.NewBoolean(true))
	for _, s := range strEdge13 {
		emitFn(w, "fn", "int", 3, vs(s))
		emitFn(w, "fnty", "float", 2, vs(s))
		emitFn(w, "fn", "len", 0, vs(s))
		emitFn(w, "fn", "string", 0, vs(s))
	}
	for _, fb := range edgeFloats {
		f := f64(fb)
		emitFn(w, "fn", "sub", 3, f)
		emitFn(w, "fn", "abs", 1, f)
		emitFn(w, "fn", "float", 0, f)
		for _, s := range []string{"sqrt", "ceil", "floor", "log2", "log", "log10"} {
			emitFn(w, "fnty", s, 0, f)
		}
		emitFn(w, "fnty", "int", 2, f)
		emitFn(w, "fnty", "tfu", 1, f)
		emitFn(w, "fnty", "string", 0, f)
		for _, fb2 := range edgeFloats {
			f2 := f64(fb2)
			emitFn(w, "fnty", "add", 1, f, f2)
			emitFn(w, "fnty", "sub", 2, f, f2)
			emitFn(w, "fnty", "mul", 1, f, f2)
			emitFn(w, "fnty", "div", 1, f, f2)
			emitFn(w, "fnty", "pow", 0, f, f2)
		}
	}
	// ---- overload resolution and evaluation of resolved calls
	genResolve13(g, w, 2500*scale)
	// ---- random
	n := 1500 * scale
	for i := 0; i < n; i++ {
		a, b := randI64(g), randI64(g)
		if g.Chance(1, 4) {
			b = a
		}
		if g.Chance(1, 8) {
			b = -a
		}
		emitFn(w, "fn", Pick(g, []string{"add", "sub", "mul", "div"}), 0, vi(a), vi(b))
		switch g.Intn(6) {
		case 0:
			emitFn(w, "fn", "add", 2, vd(a), vd(b))
		case 1:
			emitFn(w, "fn", "sub", 4, vd(a), vd(b))
		case 2:
			emitFn(w, "fn", "mul", 2, vd(a), vi(b))
		case 3:
			emitFn(w, "fn", "mul", 3, vi(a), vd(b))
		case 4:
			emitFn(w, "fn", "div", 2, vd(a), vi(b))
		default:
			emitFn(w, "fnty", "div", 3, vd(a), vd(b))
		}
		emitFn(w, "fn", Pick(g, []string{"abs", "tfu", "int"}), 0, vi(a))
		fmt.Fprintf(w, "rt %s\n", Enc13(vi(a)))
		fmt.Fprintf(w, "itos %s\n", Enc13(vi(b)))
		// time ± duration, time_to_unix
		t := randTime13(g)
		d := vd(randI64(g))
		switch g.Intn(4) {
		case 0:
			emitFn(w, "fn", "add", 3, t, d)
		case 1:
			emitFn(w, "fn", "add", 4, d, t)
		case 2:
			emitFn(w, "fn", "sub", 6, t, d)
		default:
			emitFn(w, "fn", "ttu", 0, t)
		}
		// strings: concat, repeat, int(), len, string()
		s := randStr13(g)
		emitFn(w, "fn", "int", 3, vs(randIntString(g)))
		emitFn(w, "fnty", "float", 2, vs(randIntString(g)))
		if i%3 == 0 {
			emitFn(w, "fn", "add", 5, vs(s), vs(randStr13(g)))
			emitFn(w, "fn", "len", 0, vs(s))
			c := randRepeat(g, s)
			if repeatOK(s, c) {
				if g.Bool() {
					emitFn(w, "fn", "mul", 4, vs(s), vi(c))
				} else {
					emitFn(w, "fn", "mul", 5, vi(c), vs(s))
				}
			}
		}
		// floats (typeid only, except negation / abs / identity which are bit operations)
		f, f2 := randF64(g), randF64(g)
		switch g.Intn(8) {
		case 0:
			emitFn(w, "fn", "sub", 3, f)
		case 1:
			emitFn(w, "fn", "abs", 1, f)
		case 2:
			emitFn(w, "fnty", Pick(g, []string{"sqrt", "ceil", "floor", "log2", "log", "log10"}), 0, f)
		case 3:
			emitFn(w, "fnty", "pow", 0, f, f2)
		case 4:
			emitFn(w, "fnty", Pick(g, []string{"add", "mul", "div"}), 1, f, f2)
		case 5:
			emitFn(w, "fnty", "sub", 2, f, f2)
		case 6:
			emitFn(w, "fnty", "int", 2, f)
		default:
			emitFn(w, "fnty", "tfu", 1, f)
		}
		// collections: in / not in, index, len, string()
		genCollections13(g, w)
		if i%2 == 0 {
			genCoalesce13(g, w)
		}
		if i%5 == 0 {
			v := RandValue(g, 2)
			k := g.Intn(4)
			ids := make([]string, k)
			for j := range ids {
				ids[j] = strconv.Itoa(g.Intn(10))
			}
			if g.Chance(1, 2) && k > 0 {
				ids[g.Intn(k)] = strconv.Itoa(int(v.TypeID))
			}
			fmt.Fprintf(w, "tassert %d %s %s\n", k, strings.Join(ids, " "), Enc13(v))
			id := g.Intn(10)
			if g.Chance(1, 2) {
				id = int(v.TypeID)
			}
			fmt.Fprintf(w, "tcast %d %s\n", id, Enc13(v))
		}
	}
}

func genCollections13(g *Gen, w *bufio.Writer) {
	n := g.Intn(5)
	xs := make([]octosql.Value, n)
	for i := range xs {
		xs[i] = RandValue(g, 1)
	}
	var x octosql.Value
	if n > 0 && g.Chance(1, 2) {
		x = Mutate(g, xs[g.Intn(n)])
	} else {
		x = RandValue(g, 1)
	}
	switch g.Intn(4) {
	case 0:
		emitFn(w, "fn", "in", 0, x, octosql.NewList(xs))
	case 1:
		emitFn(w, "fn", "in", 1, x, octosql.NewTuple(xs))
	case 2:
		emitFn(w, "fn", "notin", 0, x, octosql.NewList(xs))
	default:
		emitFn(w, "fn", "notin", 1, x, octosql.NewTuple(xs))
	}
	// index: boundary-heavy
	var i int64
	switch g.Intn(5) {
	case 0:
		i = int64(n)
	case 1:
		i = int64(n) - 1
	case 2:
		i = -int64(g.Intn(3)) - 1
	case 3:
		i = Pick(g, []int64{math.MinInt64, math.MaxInt64, 1 << 32, -(1 << 32), 0})
	default:
		i = int64(g.Intn(n + 1))
	}
	if g.Bool() {
		// a list of a declared element type (objects / tuples / unions included)
		et := randType13(g, 1)
		ys := make([]octosql.Value, n)
		for j := range ys {
			ys[j] = randValueOf(g, et)
		}
		lt := octosql.Type{TypeID: octosql.TypeIDList, List: struct{ Element *octosql.Type }{Element: &et}}
		emitFnT(w, "fn", "idx", 0, []octosql.Type{lt, octosql.Int}, octosql.NewList(ys), vi(i))
	} else {
		ys := make([]octosql.Value, n)
		for j := range ys {
			ys[j] = RandValue(g, 0)
		}
		emitFn(w, "fn", "idx", 0, octosql.NewList(ys), vi(i))
	}
	switch g.Intn(3) {
	case 0:
		emitFn(w, "fn", "len", 1, octosql.NewList(xs))
	case 1:
		emitFn(w, "fn", "len", 2, octosql.NewStruct(xs))
	default:
		emitFn(w, "fn", "len", 3, octosql.NewTuple(xs))
	}
	p := randPlain(g, 3)
	emitFn(w, "fn", "string", 0, p)
	q := RandValue(g, 2)
	if hasOpaqueLeaf(q) {
		emitFn(w, "fnty", "string", 0, q)
	} else {
		emitFn(w, "fn", "string", 0, q)
	}
}

// ---- COALESCE: typed values; the target type is what logical.Coalesce.Typecheck computes: the TypeSum fold of the
// argument types (computed here by the real octosql.TypeSum).

var fieldNames13 = []string{"a", "b", "c", "d", "aa", ""}

func randType13(g *Gen, depth int) octosql.Type {
	k := g.Intn(12)
	if depth <= 0 && k >= 7 {
		k = g.Intn(7)
	}
	switch k {
	case 0:
		return octosql.Null
	case 1:
		return octosql.Int
	case 2:
		return octosql.Float
	case 3:
		return octosql.Boolean
	case 4:
		return octosql.String
	case 5:
		return octosql.Time
	case 6:
		return octosql.Duration
	case 7:
		if g.Chance(1, 5) {
			return octosql.Type{TypeID: octosql.TypeIDList}
		}
		e := randType13(g, depth-1)
		return octosql.Type{TypeID: octosql.TypeIDList, List: struct{ Element *octosql.Type }{Element: &e}}
	case 8, 9:
		n := g.Intn(4)
		perm := append([]string(nil), fieldNames13...)
		for i := len(perm) - 1; i > 0; i-- {
			j := g.Intn(i + 1)
			perm[i], perm[j] = perm[j], perm[i]
		}
		fs := make([]octosql.StructField, n)
		for i := range fs {
			fs[i] = octosql.StructField{Name: perm[i], Type: randType13(g, depth-1)}
		}
		return octosql.Type{TypeID: octosql.TypeIDStruct, Struct: struct{ Fields []octosql.StructField }{Fields: fs}}
	case 10:
		n := g.Intn(4)
		es := make([]octosql.Type, n)
		for i := range es {
			es[i] = randType13(g, depth-1)
		}
		return octosql.Type{TypeID: octosql.TypeIDTuple, Tuple: struct{ Elements []octosql.Type }{Elements: es}}
	default:
		// a union, built the way the engine builds them
		t := randType13(g, depth-1)
		for i := g.Intn(3); i >= 0; i-- {
			t = octosql.TypeSum(t, randType13(g, depth-1))
		}
		return t
	}
}

// a value of the given type
func randValueOf(g *Gen, t octosql.Type) octosql.Value {
	switch t.TypeID {
	case octosql.TypeIDNull:
		return octosql.NewNull()
	case octosql.TypeIDInt:
		return vi(int64(g.Intn(7)) - 3)
	case octosql.TypeIDFloat:
		return f64(Pick(g, edgeFloats))
	case octosql.TypeIDBoolean:
		return octosql.NewBoolean(g.Bool())
	case octosql.TypeIDString:
		return vs(Pick(g, edgeStrings))
	case octosql.TypeIDTime:
		return octosql.NewTime(time.Unix(int64(g.Intn(5)), 0).In(locOf(0)))
	case octosql.TypeIDDuration:
		return vd(int64(g.Intn(5)))
	case octosql.TypeIDList:
		if t.List.Element == nil {
			return octosql.NewList([]octosql.Value{})
		}
		n := g.Intn(3)
		xs := make([]octosql.Value, n)
		for i := range xs {
			xs[i] = randValueOf(g, *t.List.Element)
		}
		return octosql.NewList(xs)
	case octosql.TypeIDStruct:
		xs := make([]octosql.Value, len(t.Struct.Fields))
		for i := range xs {
			xs[i] = randValueOf(g, t.Struct.Fields[i].Type)
		}
		return octosql.NewStruct(xs)
	case octosql.TypeIDTuple:
		xs := make([]octosql.Value, len(t.Tuple.Elements))
		for i := range xs {
			xs[i] = randValueOf(g, t.Tuple.Elements[i])
		}
		return octosql.NewTuple(xs)
	case octosql.TypeIDUnion:
		return randValueOf(g, Pick(g, t.Union.Alternatives))
	}
	return octosql.NewNull()
}

func genCoalesce13(g *Gen, w *bufio.Writer) {
	if g.Chance(1, 6) {
		// a concrete object / tuple target with a nullable source of the same shape: the mappings of ALL alternatives of
		// the source union set the Struct / Tuple pointer here, so the merge order of mergeMappings decides
		// (not what TypeSum would give as the result type, but within the contract of NewObjectLayoutFixer: target hosts source)
		var t octosql.Type
		for i := 0; i < 20; i++ {
			t = randType13(g, 2)
			if t.TypeID == octosql.TypeIDStruct || t.TypeID == octosql.TypeIDTuple {
				break
			}
		}
		if t.TypeID == octosql.TypeIDStruct || t.TypeID == octosql.TypeIDTuple {
			src := octosql.TypeSum(t, octosql.Null)
			if g.Bool() {
				src = octosql.TypeSum(src, Pick(g, scalarTypes13))
			}
			fmt.Fprintf(w, "coalesce %s 1 %s %s\n", EncodeType(t), EncodeType(src), Enc13(randValueOf(g, t)))
			return
		}
	}
	k := 1 + g.Intn(3)
	srcs := make([]octosql.Type, k)
	base := randType13(g, 2)
	for i := range srcs {
		switch g.Intn(4) {
		case 0:
			srcs[i] = base
		case 1:
			srcs[i] = octosql.TypeSum(base, octosql.Null)
		case 2:
			srcs[i] = perturbType13(g, base)
		default:
			srcs[i] = randType13(g, 2)
		}
	}
	target := srcs[0]
	for _, s := range srcs[1:] {
		target = octosql.TypeSum(target, s)
	}
	var sb strings.Builder
	fmt.Fprintf(&sb, "coalesce %s %d", EncodeType(target), k)
	for i := range srcs {
		v := randValueOf(g, srcs[i])
		if g.Chance(1, 3) && octosql.Null.Is(srcs[i]) == octosql.TypeRelationIs {
			v = octosql.NewNull()
		}
		fmt.Fprintf(&sb, " %s %s", EncodeType(srcs[i]), Enc13(v))
	}
	fmt.Fprintln(w, sb.String())
}

// a type of the same outer shape with permuted / dropped / added struct fields (what COALESCE over two differently
// shaped objects sees)
func perturbType13(g *Gen, t octosql.Type) octosql.Type {
	switch t.TypeID {
	case octosql.TypeIDStruct:
		fs := append([]octosql.StructField(nil), t.Struct.Fields...)
		for i := range fs {
			fs[i].Type = perturbType13(g, fs[i].Type)
		}
		for i := len(fs) - 1; i > 0; i-- {
			j := g.Intn(i + 1)
			fs[i], fs[j] = fs[j], fs[i]
		}
		if len(fs) > 0 && g.Chance(1, 3) {
			fs = fs[:len(fs)-1]
		}
		if g.Chance(1, 3) {
			nm := Pick(g, []string{"x", "y", "z"})
			fs = append(fs, octosql.StructField{Name: nm, Type: randType13(g, 1)})
		}
		return octosql.Type{TypeID: octosql.TypeIDStruct, Struct: struct{ Fields []octosql.StructField }{Fields: fs}}
	case octosql.TypeIDList:
		if t.List.Element == nil {
			return t
		}
		e := perturbType13(g, *t.List.Element)
		return octosql.Type{TypeID: octosql.TypeIDList, List: struct{ Element *octosql.Type }{Element: &e}}
	case octosql.TypeIDTuple:
		es := append([]octosql.Type(nil), t.Tuple.Elements...)
		for i := range es {
			es[i] = perturbType13(g, es[i])
		}
		if g.Chance(1, 4) && len(es) > 0 {
			es = es[:len(es)-1]
		}
		return octosql.Type{TypeID: octosql.TypeIDTuple, Tuple: struct{ Elements []octosql.Type }{Elements: es}}
	case octosql.TypeIDUnion:
		alts := append([]octosql.Type(nil), t.Union.Alternatives...)
		for i := range alts {
			alts[i] = perturbType13(g, alts[i])
		}
		return octosql.Type{TypeID: octosql.TypeIDUnion, Union: struct{ Alternatives []octosql.Type }{Alternatives: alts}}
	}
	return t
}
