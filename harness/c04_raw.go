package main

// C04, `raw` ops: physical plans generated directly (not through SQL), so that optimizer.Optimize also sees shapes the
// planner does not build for file sources — above all datasources that ACCEPT pushed-down predicates, as plugin
// datasources do.  The op line is the plan dump; `drive` parses it back into a physical.Node (parsePlanTokens), runs
// optimizer.Optimize and dumps the result.

import (
	"context"
	"fmt"
	"sort"
	"strconv"
	"strings"

	"github.com/cube2222/octosql/execution"
	"github.com/cube2222/octosql/octosql"
	"github.com/cube2222/octosql/physical"
)

// c04Mock answers PushDownPredicates the way its policy says:
//   none    — like the built-in file formats: everything is rejected;
//   eqconst — `<level-0 variable> = <constant>` conjuncts are accepted (what a typical plugin does).
type c04Mock struct{ policy string }

func (m *c04Mock) Materialize(ctx context.Context, env physical.Environment, schema physical.Schema, pushedDownPredicates []physical.Expression) (execution.Node, error) {
	return nil, fmt.Errorf("c04Mock cannot be materialized")
}

func c04IsEqConst(e physical.Expression) bool {
	return e.ExpressionType == physical.ExpressionTypeFunctionCall && e.FunctionCall.Name == "=" && len(e.FunctionCall.Arguments) == 2 &&
		e.FunctionCall.Arguments[0].ExpressionType == physical.ExpressionTypeVariable && e.FunctionCall.Arguments[0].Variable.IsLevel0 &&
		e.FunctionCall.Arguments[1].ExpressionType == physical.ExpressionTypeConstant
}

func (m *c04Mock) PushDownPredicates(newPredicates, pushedDownPredicates []physical.Expression) (rejected, pushedDown []physical.Expression, changed bool) {
	if m.policy != "eqconst" {
		return newPredicates, []physical.Expression{}, false
	}
	pushedDown = append(pushedDown, pushedDownPredicates...)
	for _, p := range newPredicates {
		if c04IsEqConst(p) {
			pushedDown = append(pushedDown, p)
			changed = true
		} else {
			rejected = append(rejected, p)
		}
	}
	return rejected, pushedDown, changed
}

func c04Policy(impl physical.DatasourceImplementation) string {
	if m, ok := impl.(*c04Mock); ok {
		return m.policy
	}
	return "none"
}

// ---- token parser (the inverse of planDumper)

type planParser struct {
	toks []string
	pos  int
}

func (p *planParser) next() string {
	if p.pos >= len(p.toks) {
		panic("c04: plan tokens exhausted")
	}
	t := p.toks[p.pos]
	p.pos++
	return t
}

func (p *planParser) int() int {
	n, err := strconv.Atoi(p.next())
	if err != nil {
		panic(err)
	}
	return n
}

func (p *planParser) schema() physical.Schema {
	t := p.next()
	if !strings.HasPrefix(t, "S") {
		panic("c04: expected schema, got " + t)
	}
	k, _ := strconv.Atoi(t[1:])
	fields := make([]physical.SchemaField, k)
	for i := range fields {
		fields[i] = physical.SchemaField{Name: decName(p.next()), Type: octosql.Int}
	}
	tf := p.int()
	nr := p.next() == "1"
	return physical.Schema{Fields: fields, TimeField: tf, NoRetractions: nr}
}

func (p *planParser) exprs() []physical.Expression {
	n := p.int()
	out := make([]physical.Expression, n)
	for i := range out {
		out[i] = p.expr()
	}
	return out
}

func (p *planParser) expr() physical.Expression {
	switch t := p.next(); t {
	case "var":
		name := decName(p.next())
		return physical.Expression{Type: octosql.Int, ExpressionType: physical.ExpressionTypeVariable, Variable: &physical.Variable{Name: name, IsLevel0: p.next() == "1"}}
	case "const":
		v, rest := ParseValue(p.toks[p.pos:])
		p.pos = len(p.toks) - len(rest)
		return physical.Expression{Type: v.Type(), ExpressionType: physical.ExpressionTypeConstant, Constant: &physical.Constant{Value: v}}
	case "call":
		name := decName(p.next())
		return physical.Expression{Type: octosql.Boolean, ExpressionType: physical.ExpressionTypeFunctionCall, FunctionCall: &physical.FunctionCall{Name: name, Arguments: p.exprs()}}
	case "and":
		return physical.Expression{Type: octosql.Boolean, ExpressionType: physical.ExpressionTypeAnd, And: &physical.And{Arguments: p.exprs()}}
	case "or":
		return physical.Expression{Type: octosql.Boolean, ExpressionType: physical.ExpressionTypeOr, Or: &physical.Or{Arguments: p.exprs()}}
	case "coalesce":
		return physical.Expression{Type: octosql.Int, ExpressionType: physical.ExpressionTypeCoalesce, Coalesce: &physical.Coalesce{Arguments: p.exprs()}}
	case "tuple":
		return physical.Expression{Type: octosql.Int, ExpressionType: physical.ExpressionTypeTuple, Tuple: &physical.Tuple{Arguments: p.exprs()}}
	case "assert":
		k := p.int()
		alts := make([]octosql.Type, k)
		for i := range alts {
			alts[i] = octosql.Type{TypeID: octosql.TypeID(p.int())}
		}
		target := alts[0]
		if k != 1 {
			target = octosql.Type{TypeID: octosql.TypeIDUnion}
			target.Union.Alternatives = alts
		}
		e := p.expr()
		return physical.Expression{Type: target, ExpressionType: physical.ExpressionTypeTypeAssertion, TypeAssertion: &physical.TypeAssertion{Expression: e, TargetType: target}}
	case "cast":
		id := octosql.TypeID(p.int())
		e := p.expr()
		return physical.Expression{Type: octosql.Type{TypeID: id}, ExpressionType: physical.ExpressionTypeTypeCast, TypeCast: &physical.TypeCast{Expression: e, TargetTypeID: id}}
	default:
		panic("c04: raw plans do not use expression kind " + t)
	}
}

func (p *planParser) node() physical.Node {
	kind := p.next()
	s := p.schema()
	switch kind {
	case "ds":
		name, alias, pol := decName(p.next()), decName(p.next()), p.next()
		preds := p.exprs()
		n := p.int()
		mapping := map[string]string{}
		for i := 0; i < n; i++ {
			u, c := decName(p.next()), decName(p.next())
			mapping[alias+"."+c] = u
		}
		return physical.Node{Schema: s, NodeType: physical.NodeTypeDatasource, Datasource: &physical.Datasource{
			Name: name, Alias: alias, DatasourceImplementation: &c04Mock{policy: pol}, VariableMapping: mapping, Predicates: preds}}
	case "distinct":
		return physical.Node{Schema: s, NodeType: physical.NodeTypeDistinct, Distinct: &physical.Distinct{Source: p.node()}}
	case "filter":
		e := p.expr()
		return physical.Node{Schema: s, NodeType: physical.NodeTypeFilter, Filter: &physical.Filter{Predicate: e, Source: p.node()}}
	case "groupby":
		na := p.int()
		aggs := make([]physical.Aggregate, na)
		for i := range aggs {
			aggs[i] = physical.Aggregate{Name: decName(p.next()), OutputType: octosql.Int}
		}
		aggExprs := p.exprs()
		key := p.exprs()
		kti := p.int()
		if p.next() != "eos" {
			panic("c04: raw plans use the end-of-stream trigger only")
		}
		return physical.Node{Schema: s, NodeType: physical.NodeTypeGroupBy, GroupBy: &physical.GroupBy{
			Aggregates: aggs, AggregateExpressions: aggExprs, Key: key, KeyEventTimeIndex: kti,
			Trigger: physical.Trigger{TriggerType: physical.TriggerTypeEndOfStream, EndOfStreamTrigger: &physical.EndOfStreamTrigger{}},
			Source:  p.node()}}
	case "sjoin":
		lk, rk := p.exprs(), p.exprs()
		l := p.node()
		r := p.node()
		return physical.Node{Schema: s, NodeType: physical.NodeTypeStreamJoin, StreamJoin: &physical.StreamJoin{Left: l, Right: r, LeftKey: lk, RightKey: rk}}
	case "ljoin":
		l := p.node()
		r := p.node()
		return physical.Node{Schema: s, NodeType: physical.NodeTypeLookupJoin, LookupJoin: &physical.LookupJoin{Source: l, Joined: r}}
	case "map":
		es := p.exprs()
		return physical.Node{Schema: s, NodeType: physical.NodeTypeMap, Map: &physical.Map{Expressions: es, Source: p.node()}}
	case "unnest":
		f := decName(p.next())
		return physical.Node{Schema: s, NodeType: physical.NodeTypeUnnest, Unnest: &physical.Unnest{Field: f, Source: p.node()}}
	case "ojoin":
		il, ir := p.next() == "1", p.next() == "1"
		lk, rk := p.exprs(), p.exprs()
		l := p.node()
		r := p.node()
		return physical.Node{Schema: s, NodeType: physical.NodeTypeOuterJoin, OuterJoin: &physical.OuterJoin{Left: l, Right: r, LeftKey: lk, RightKey: rk, IsLeft: il, IsRight: ir}}
	case "ost":
		keys := p.exprs()
		n := p.int()
		mults := make([]int, n)
		for i := range mults {
			mults[i] = p.int()
		}
		var limit *physical.Expression
		if p.next() == "L" {
			e := p.expr()
			limit = &e
		}
		return physical.Node{Schema: s, NodeType: physical.NodeTypeOrderSensitiveTransform, OrderSensitiveTransform: &physical.OrderSensitiveTransform{
			OrderByKey: keys, OrderByDirectionMultipliers: mults, Limit: limit, Source: p.node()}}
	}
	panic("c04: raw plans do not use node kind " + kind)
}

// ---- generator

type rawGen struct {
	g *Gen
	n int
}

func (r *rawGen) fresh(base string) string {
	r.n++
	return fmt.Sprintf("%s_%d", base, r.n)
}

func vexpr(name string) physical.Expression {
	return physical.Expression{Type: octosql.Int, ExpressionType: physical.ExpressionTypeVariable, Variable: &physical.Variable{Name: name, IsLevel0: true}}
}

func cexpr(i int64) physical.Expression {
	v := octosql.NewInt(i)
	return physical.Expression{Type: octosql.Int, ExpressionType: physical.ExpressionTypeConstant, Constant: &physical.Constant{Value: v}}
}

func callExpr(name string, args ...physical.Expression) physical.Expression {
	return physical.Expression{Type: octosql.Boolean, ExpressionType: physical.ExpressionTypeFunctionCall, FunctionCall: &physical.FunctionCall{Name: name, Arguments: args}}
}

func fieldNames(s physical.Schema) []string {
	out := make([]string, len(s.Fields))
	for i, f := range s.Fields {
		out[i] = f.Name
	}
	return out
}

// scalar: a value expression over the given fields
func (r *rawGen) scalar(fields []string, depth int) physical.Expression {
	g := r.g
	if len(fields) == 0 || g.Chance(1, 4) {
		return cexpr(int64(g.Intn(3)))
	}
	if depth > 0 && g.Chance(1, 4) {
		switch g.Intn(4) {
		case 0:
			return physical.Expression{Type: octosql.Int, ExpressionType: physical.ExpressionTypeFunctionCall, FunctionCall: &physical.FunctionCall{
				Name: Pick(g, []string{"+", "-", "*"}), Arguments: []physical.Expression{r.scalar(fields, depth-1), r.scalar(fields, depth-1)}}}
		case 1:
			return physical.Expression{Type: octosql.Int, ExpressionType: physical.ExpressionTypeCoalesce, Coalesce: &physical.Coalesce{
				Arguments: []physical.Expression{r.scalar(fields, depth-1), r.scalar(fields, depth-1)}}}
		case 2:
			return physical.Expression{Type: octosql.Int, ExpressionType: physical.ExpressionTypeTypeCast, TypeCast: &physical.TypeCast{
				Expression: r.scalar(fields, depth-1), TargetTypeID: octosql.TypeIDInt}}
		default:
			t := octosql.Int
			return physical.Expression{Type: t, ExpressionType: physical.ExpressionTypeTypeAssertion, TypeAssertion: &physical.TypeAssertion{
				Expression: r.scalar(fields, depth-1), TargetType: t}}
		}
	}
	return vexpr(Pick(g, fields))
}

// conjunct: a boolean expression; `groups` are the field groups (join sides) it may draw from
func (r *rawGen) conjunct(groups [][]string, depth int) physical.Expression {
	g := r.g
	var all []string
	for _, gr := range groups {
		all = append(all, gr...)
	}
	side := func() []string {
		if len(groups) == 0 {
			return nil
		}
		return Pick(g, groups)
	}
	switch k := g.Intn(12); {
	case k < 3: // the shape a datasource may accept
		s := side()
		if len(s) == 0 {
			return callExpr("=", cexpr(1), cexpr(1))
		}
		return callExpr("=", vexpr(Pick(g, s)), cexpr(int64(g.Intn(3))))
	case k < 6: // equality between two groups (a join key candidate), either way round
		a, b := r.scalar(side(), 1), r.scalar(side(), 1)
		return callExpr("=", a, b)
	case k < 8:
		return callExpr(Pick(g, []string{"<", "<=", "!=", ">"}), r.scalar(side(), 1), r.scalar(all, 1))
	case k < 9 && depth > 0:
		return physical.Expression{Type: octosql.Boolean, ExpressionType: physical.ExpressionTypeOr, Or: &physical.Or{
			Arguments: []physical.Expression{r.conjunct(groups, depth-1), r.conjunct(groups, depth-1)}}}
	case k < 10 && depth > 0:
		return physical.Expression{Type: octosql.Boolean, ExpressionType: physical.ExpressionTypeAnd, And: &physical.And{
			Arguments: []physical.Expression{r.conjunct(groups, depth-1), r.conjunct(groups, depth-1)}}}
	case k < 11:
		return callExpr("is null", r.scalar(side(), 0))
	default:
		return callExpr("=", cexpr(int64(g.Intn(2))), cexpr(1))
	}
}

func (r *rawGen) predicate(groups [][]string) physical.Expression {
	n := 1 + r.g.Intn(4)
	if n == 1 && r.g.Bool() {
		return r.conjunct(groups, 1)
	}
	args := make([]physical.Expression, n)
	for i := range args {
		args[i] = r.conjunct(groups, 1)
	}
	return physical.Expression{Type: octosql.Boolean, ExpressionType: physical.ExpressionTypeAnd, And: &physical.And{Arguments: args}}
}

func (r *rawGen) ds() physical.Node {
	g := r.g
	alias := r.fresh("t")
	ncols := 1 + g.Intn(3)
	fields := make([]physical.SchemaField, ncols)
	mapping := map[string]string{}
	for i := range fields {
		col := string(rune('a' + i))
		u := r.fresh(alias + "." + col)
		fields[i] = physical.SchemaField{Name: u, Type: octosql.Int}
		mapping[alias+"."+col] = u
	}
	var preds []physical.Expression
	pol := Pick(g, []string{"eqconst", "eqconst", "none"})
	if pol == "eqconst" && g.Chance(1, 4) {
		preds = append(preds, callExpr("=", vexpr(fields[0].Name), cexpr(1)))
	}
	return physical.Node{Schema: physical.NewSchema(fields, -1, physical.WithNoRetractions(true)), NodeType: physical.NodeTypeDatasource,
		Datasource: &physical.Datasource{Name: alias + ".mock", Alias: alias, DatasourceImplementation: &c04Mock{policy: pol}, VariableMapping: mapping, Predicates: preds}}
}

func copySchema(s physical.Schema) physical.Schema {
	f := make([]physical.SchemaField, len(s.Fields))
	copy(f, s.Fields)
	return physical.Schema{Fields: f, TimeField: s.TimeField, NoRetractions: s.NoRetractions}
}

func joinSchema(l, r physical.Schema) physical.Schema {
	f := append(append([]physical.SchemaField{}, l.Fields...), r.Fields...)
	return physical.Schema{Fields: f, TimeField: l.TimeField, NoRetractions: l.NoRetractions && r.NoRetractions}
}

// node: a plan of the given depth; `outer` are the fields of enclosing lookup-join sources
func (r *rawGen) node(depth int, outer []string) physical.Node {
	g := r.g
	if depth <= 0 {
		return r.ds()
	}
	switch k := g.Intn(20); {
	case k < 5: // filter (often stacked, often over a join)
		src := r.node(depth-1, outer)
		groups := [][]string{fieldNames(src.Schema)}
		switch src.NodeType {
		case physical.NodeTypeStreamJoin:
			groups = [][]string{fieldNames(src.StreamJoin.Left.Schema), fieldNames(src.StreamJoin.Right.Schema)}
		case physical.NodeTypeLookupJoin:
			groups = [][]string{fieldNames(src.LookupJoin.Source.Schema), fieldNames(src.LookupJoin.Joined.Schema)}
		}
		if len(outer) > 0 && g.Chance(1, 3) {
			groups = append(groups, outer)
		}
		return physical.Node{Schema: copySchema(src.Schema), NodeType: physical.NodeTypeFilter, Filter: &physical.Filter{Predicate: r.predicate(groups), Source: src}}
	case k < 9: // map
		src := r.node(depth-1, outer)
		in := fieldNames(src.Schema)
		n := 1 + g.Intn(3)
		es := make([]physical.Expression, n)
		fields := make([]physical.SchemaField, n)
		for i := range es {
			es[i] = r.scalar(in, 1)
			fields[i] = physical.SchemaField{Name: r.fresh("m"), Type: octosql.Int}
		}
		return physical.Node{Schema: physical.NewSchema(fields, -1, physical.WithNoRetractions(src.Schema.NoRetractions)), NodeType: physical.NodeTypeMap,
			Map: &physical.Map{Expressions: es, Source: src}}
	case k < 13: // stream join, sometimes with keys already
		l, rr := r.node(depth-1, outer), r.node(depth-1, outer)
		var lk, rk []physical.Expression
		if g.Chance(1, 3) {
			lk = append(lk, r.scalar(fieldNames(l.Schema), 0))
			rk = append(rk, r.scalar(fieldNames(rr.Schema), 0))
		}
		return physical.Node{Schema: joinSchema(l.Schema, rr.Schema), NodeType: physical.NodeTypeStreamJoin,
			StreamJoin: &physical.StreamJoin{Left: l, Right: rr, LeftKey: lk, RightKey: rk}}
	case k < 15: // lookup join
		l := r.node(depth-1, outer)
		rr := r.node(depth-1, append(append([]string{}, fieldNames(l.Schema)...), outer...))
		s := joinSchema(l.Schema, rr.Schema)
		s.NoRetractions = false
		return physical.Node{Schema: s, NodeType: physical.NodeTypeLookupJoin, LookupJoin: &physical.LookupJoin{Source: l, Joined: rr}}
	case k < 16:
		src := r.node(depth-1, outer)
		return physical.Node{Schema: copySchema(src.Schema), NodeType: physical.NodeTypeDistinct, Distinct: &physical.Distinct{Source: src}}
	case k < 17: // order by / limit
		src := r.node(depth-1, outer)
		in := fieldNames(src.Schema)
		var keys []physical.Expression
		var mults []int
		for i := 0; i < g.Intn(3); i++ {
			keys = append(keys, r.scalar(in, 0))
			mults = append(mults, Pick(g, []int{1, -1}))
		}
		var limit *physical.Expression
		if g.Bool() || len(keys) == 0 {
			e := cexpr(int64(g.Intn(4)))
			limit = &e
		}
		s := copySchema(src.Schema)
		s.NoRetractions = true
		return physical.Node{Schema: s, NodeType: physical.NodeTypeOrderSensitiveTransform, OrderSensitiveTransform: &physical.OrderSensitiveTransform{
			Source: src, OrderByKey: keys, OrderByDirectionMultipliers: mults, Limit: limit}}
	case k < 18: // group by
		src := r.node(depth-1, outer)
		in := fieldNames(src.Schema)
		nk, na := g.Intn(3), 1+g.Intn(3)
		var key, aggExprs []physical.Expression
		var aggs []physical.Aggregate
		var fields []physical.SchemaField
		for i := 0; i < nk; i++ {
			key = append(key, r.scalar(in, 0))
			fields = append(fields, physical.SchemaField{Name: r.fresh("key"), Type: octosql.Int})
		}
		for i := 0; i < na; i++ {
			aggExprs = append(aggExprs, r.scalar(in, 1))
			aggs = append(aggs, physical.Aggregate{Name: Pick(g, []string{"count", "sum", "max"}), OutputType: octosql.Int})
			fields = append(fields, physical.SchemaField{Name: r.fresh("agg"), Type: octosql.Int})
		}
		return physical.Node{Schema: physical.NewSchema(fields, -1, physical.WithNoRetractions(true)), NodeType: physical.NodeTypeGroupBy, GroupBy: &physical.GroupBy{
			Source: src, Aggregates: aggs, AggregateExpressions: aggExprs, Key: key, KeyEventTimeIndex: -1,
			Trigger: physical.Trigger{TriggerType: physical.TriggerTypeEndOfStream, EndOfStreamTrigger: &physical.EndOfStreamTrigger{}}}}
	case k < 19: // unnest of one of the source's fields
		src := r.node(depth-1, outer)
		in := fieldNames(src.Schema)
		s := copySchema(src.Schema)
		s.NoRetractions = false
		return physical.Node{Schema: s, NodeType: physical.NodeTypeUnnest, Unnest: &physical.Unnest{Source: src, Field: Pick(g, in)}}
	default: // outer join
		l, rr := r.node(depth-1, outer), r.node(depth-1, outer)
		s := joinSchema(l.Schema, rr.Schema)
		s.NoRetractions = false
		return physical.Node{Schema: s, NodeType: physical.NodeTypeOuterJoin, OuterJoin: &physical.OuterJoin{Left: l, Right: rr,
			LeftKey: []physical.Expression{r.scalar(fieldNames(l.Schema), 0)}, RightKey: []physical.Expression{r.scalar(fieldNames(rr.Schema), 0)},
			IsLeft: g.Bool(), IsRight: g.Bool()}}
	}
}

// rawPlanLine: one `raw` op
func rawPlanLine(g *Gen) string {
	r := &rawGen{g: g}
	n := r.node(1+g.Intn(4), nil)
	// a projection on top makes some fields unused
	if g.Chance(2, 3) {
		in := fieldNames(n.Schema)
		k := 1 + g.Intn(2)
		es := make([]physical.Expression, k)
		fields := make([]physical.SchemaField, k)
		for i := range es {
			es[i] = vexpr(Pick(g, in))
			fields[i] = physical.SchemaField{Name: r.fresh("out"), Type: octosql.Int}
		}
		n = physical.Node{Schema: physical.NewSchema(fields, -1, physical.WithNoRetractions(n.Schema.NoRetractions)), NodeType: physical.NodeTypeMap,
			Map: &physical.Map{Expressions: es, Source: n}}
	}
	s, ok := c04Dump(n, c04Policy)
	if !ok {
		return ""
	}
	return "raw " + s
}

var _ = sort.Strings
