package main

// C18 (single-input half) — watermarks never go backwards and operators do not create late data.
// gen: watermarked streams (monotone watermarks, no late records, zero and non-zero event times) through every
// single-input node kind and small pipelines; drive: the real nodes (util_ops.go).

import (
	"bytes"
	"bufio"
	"fmt"
	"strings"
	"time"

	"github.com/cube2222/octosql/execution"
	"github.com/cube2222/octosql/octosql"
)

func init() {
	register("C18", &prop{gen: genC18WithJoins, drive: driveC18})
}

// genTimed: a valid changelog with MONOTONE watermarks and NO late records; event times are zero or above the
// last watermark; ties in event time are frequent (buffer stability), and so are watermarks equal to an event time.
func genTimed(g *Gen, cols []int, n int, retractions bool, wmEvery int) opsStream {
	var s opsStream
	var present [][]octosql.Value
	lastWm := int64(-1)
	hasWm := false
	newRow := func() []octosql.Value {
		row := make([]octosql.Value, len(cols))
		for j, k := range cols {
			row[j] = opsCell(g, k)
		}
		return row
	}
	et := func() time.Time {
		if g.Chance(1, 5) {
			return time.Time{}
		}
		base := lastWm
		if !hasWm {
			base = -1
		}
		return time.Unix(0, base+1+int64(g.Intn(12))).UTC()
	}
	for len(s.msgs) < n {
		switch {
		case g.Chance(1, wmEvery):
			if hasWm && g.Chance(1, 6) {
				// repeated watermark
			} else {
				lastWm += int64(g.Intn(8))
				if !hasWm && lastWm < 0 {
					lastWm = 0
				}
			}
			hasWm = true
			s.msgs = append(s.msgs, Msg{IsWM: true, WM: time.Unix(0, lastWm).UTC()})
		case retractions && len(present) > 0 && g.Chance(1, 4):
			i := g.Intn(len(present))
			row := present[i]
			present = append(present[:i:i], present[i+1:]...)
			s.hasRetr = true
			s.msgs = append(s.msgs, Msg{Rec: execution.Record{Values: row, Retraction: true, EventTime: et()}})
		default:
			var row []octosql.Value
			if len(present) > 0 && g.Chance(1, 3) {
				row = Pick(g, present)
			} else {
				row = newRow()
			}
			present = append(present, row)
			s.msgs = append(s.msgs, Msg{Rec: execution.Record{Values: row, Retraction: false, EventTime: et()}})
		}
	}
	return s
}

func genC18(g *Gen, tier string, w *bufio.Writer) {
	per := 200
	maxLen := 16
	if tier == "thorough" {
		per = 25000
		maxLen = 50
	}
	for i := 0; i < per; i++ {
		n := 1 + g.Intn(maxLen)
		if tier == "thorough" && g.Chance(1, 40) {
			n = 100 + g.Intn(300)
		}
		wmEvery := 2 + g.Intn(6)
		cols := Pick(g, [][]int{{0, 0}, {0, 0, 2}, {1, 0}})
		width := len(cols)
		mk := func(cols []int, retr bool) opsStream { return genTimed(g, cols, n, retr, wmEvery) }

		// instants outside the int64 range of Time.UnixNano (before 1677 / after 2262) are legal event times: the buffer's
		// order and its release test must agree on them too
		if i%10 == 0 {
			early := []string{"-14830000000000000000", "-9300000000000000000", "-9223372036854775809"}
			late := []string{"16700000000000000000", "9223372036854775808"}
			fmt.Fprintf(w, "etbuf | N R2 i1 i2 + %s ; R2 i3 i4 + %d ; W%d ; R2 i5 i6 + %d ; R2 i7 i8 + %s ; W%d ; R2 i9 i0 + %d\n",
				Pick(g, early), 1000+g.Intn(500), 500+g.Intn(400), 2000+g.Intn(500), Pick(g, late), 3000+g.Intn(100), 4000+g.Intn(100))
			fmt.Fprintf(w, "etbuf | N R2 i1 i2 + %d ; R2 i3 i4 + %s ; R2 i5 i6 + %s ; W%s ; R2 i7 i8 + %d ; W%d\n",
				5+g.Intn(5), early[0], early[1], early[2], 20+g.Intn(5), 10+g.Intn(5))
		}
		// the buffer itself: most of the budget
		for k := 0; k < 3; k++ {
			fmt.Fprintf(w, "etbuf | %s\n", srcTokens(g, mk(cols, g.Bool()), k == 2))
		}
		fmt.Fprintf(w, "filter %s | %s\n", genPred(g, width, 2), srcTokens(g, mk(cols, true), true))
		fmt.Fprintf(w, "map %s | %s\n", genMapExprs(g, width), srcTokens(g, mk(cols, true), true))
		fmt.Fprintf(w, "distinct | %s\n", srcTokens(g, mk(cols, true), true))
		fmt.Fprintf(w, "unnest 1 | %s\n", srcTokens(g, mk([]int{0, 3}, true), true))
		fmt.Fprintf(w, "limit %d | %s\n", g.Intn(n+3), srcTokens(g, mk(cols, true), true))
		fmt.Fprintf(w, "sgroup %s | %s\n", genGroupCfg(g, []string{"V0.0", "V0.1"}), srcTokens(g, mk(cols, true), true))
		fmt.Fprintf(w, "cgroup -1 %s | %s\n", genGroupCfg(g, []string{"V0.0", "V0.1"}), srcTokens(g, mk(cols, true), true))
		if i%4 == 0 {
			// keyed by an event-time column: the end-of-stream flush stamps rows with the key's time
			fmt.Fprintf(w, "cgroup 0 1 V0.0 1 count V0.1 | %s\n", srcTokens(g, mk([]int{4, 0}, true), true))
		}
		{
			s := mk(cols, true)
			js := genChangelog(g, []int{0, 0}, g.Intn(4), 0, false, i%5 == 0)
			jpred := Pick(g, []string{"EQ V0.0 V1.0", kv(octosql.NewBoolean(true)), "LT V1.0 V0.0"})
			fmt.Fprintf(w, "lookup %s %s ] | %s\n", jpred, srcTokens(g, js, false), srcTokens(g, s, true))
		}
		s := mk(cols, g.Bool())
		fmt.Fprintf(w, "orderby %s | %s\n", genOrdCfg(g, s.hasRetr, width), srcTokens(g, s, true))
		// pipelines
		for k := 0; k < 2; k++ {
			s := mk([]int{0, 0}, true)
			np := 2 + g.Intn(3)
			var parts []string
			for j := 0; j < np; j++ {
				c := g.Intn(8)
				if c == 4 && j < np-1 {
					parts = append(parts, "sgroup 1 V0.0 1 "+Pick(g, []string{"count", "sum", "max"})+" V0.1", "orderby 2 V0.0 1 V0.1 -1 none 0")
					np = j + 2
					break
				}
				switch c {
				case 0:
					parts = append(parts, "filter "+genPred(g, 2, 1))
				case 1:
					parts = append(parts, "map "+Pick(g, []string{"2 V0.1 V0.0", "2 V0.0 "+kv(octosql.NewInt(1)), "2 ADD V0.0 V0.1 V0.0", "2 V0.0 V0.0"}))
				case 2:
					parts = append(parts, "distinct")
				case 3:
					parts = append(parts, fmt.Sprintf("limit %d", 1+g.Intn(6)))
				case 4:
					parts = append(parts, "sgroup 1 V0.0 1 "+Pick(g, []string{"count", "sum", "max"})+" V0.1")
				case 5:
					parts = append(parts, "cgroup -1 1 V0.0 1 count V0.1")
				default:
					parts = append(parts, "etbuf")
				}
			}
			fmt.Fprintf(w, "pipe %d %s | %s\n", np, strings.Join(parts, " "), srcTokens(g, s, true))
		}
	}
}


// The join half of C18 (watermarks of a stream / outer join never go backwards, no late records in its output):
// a sample of the C19 generator's (scripts, schedule) lines is run through the real join nodes under the chosen
// interleaving (hook verifJoinRecv) and judged by C18's oracle on the emitted message sequence.
func genC18WithJoins(g *Gen, tier string, w *bufio.Writer) {
	genC18(g, tier, w)
	var buf bytes.Buffer
	bw := bufio.NewWriter(&buf)
	genC19(g, tier, bw)
	bw.Flush()
	every := 6
	for i, line := range strings.Split(buf.String(), "\n") {
		if line != "" && i%every == 0 {
			w.WriteString(line)
			w.WriteByte('\n')
		}
	}
	// the group-by node under early-firing triggers: every key may fire many times, each firing retracts what the
	// previous one sent — a sample of C16's streams, judged for watermark monotonicity and late records
	buf.Reset()
	bw = bufio.NewWriter(&buf)
	genC16(g, tier, bw)
	bw.Flush()
	for i, line := range strings.Split(buf.String(), "\n") {
		if strings.HasPrefix(line, "gb ") && i%5 == 2 {
			w.WriteString(line)
			w.WriteByte('\n')
		}
	}
}

func driveC18(toks []string) string {
	if toks[0] == "sj" || toks[0] == "oj" {
		return driveC19(toks)
	}
	if toks[0] == "gb" {
		return driveTrigProps(toks)
	}
	return driveOps(toks)
}
