package main

// Generator of C08: type-directed logical expressions over NULL-heavy environments.
//
// An environment is 1–2 variable contexts with 4–8 variables drawn from a fixed list of types (scalars, nullable
// scalars, multi-alternative unions, lists, objects, nullable objects, unions containing objects, tuples, Any) and a few
// rows of values that conform to those types.  Expressions are grown bottom-up from a pool (variables, constants): an
// operator is chosen (every function descriptor of the real table, AND/OR, COALESCE, tuple, `::`, `->`), its arguments are
// picked from the pool preferably so that they fit (exactly, or only "maybe" through a union, which makes the typechecker
// insert a run-time assertion), and the REAL typechecker says whether the candidate is well typed and what its type is.
// Well-typed candidates join the pool (depth ≤ 4); a fraction of the rejected ones is emitted too, so that the model has to
// agree on rejections.  All randomness comes from the Gen.

import (
	"bufio"
	"context"
	"sort"
	"strconv"
	"strings"
	"time"

	"github.com/cube2222/octosql/aggregates"
	"github.com/cube2222/octosql/octosql"
	"github.com/cube2222/octosql/physical"
)

func c08List(e octosql.Type) octosql.Type {
	return octosql.Type{TypeID: octosql.TypeIDList, List: struct{ Element *octosql.Type }{Element: &e}}
}

func c08Struct(names []string, ts []octosql.Type) octosql.Type {
	fs := make([]octosql.StructField, len(names))
	for i := range names {
		fs[i] = octosql.StructField{Name: names[i], Type: ts[i]}
	}
	return octosql.Type{TypeID: octosql.TypeIDStruct, Struct: struct{ Fields []octosql.StructField }{Fields: fs}}
}

func c08Tuple(ts ...octosql.Type) octosql.Type {
	return octosql.Type{TypeID: octosql.TypeIDTuple, Tuple: struct{ Elements []octosql.Type }{Elements: ts}}
}

func c08Sum(ts ...octosql.Type) octosql.Type {
	out := ts[0]
	for _, t := range ts[1:] {
		out = octosql.TypeSum(out, t)
	}
	return out
}

func c08VarTypes() []octosql.Type {
	N, I, F, S, B, T, D := octosql.Null, octosql.Int, octosql.Float, octosql.String, octosql.Boolean, octosql.Time, octosql.Duration
	sxy := c08Struct([]string{"x", "y"}, []octosql.Type{I, S})
	syz := c08Struct([]string{"y", "z"}, []octosql.Type{S, c08Sum(N, F)})
	snest := c08Struct([]string{"o", "n"}, []octosql.Type{sxy, c08Sum(N, I)})
	syx := c08Struct([]string{"y", "x"}, []octosql.Type{S, I})
	sxyz := c08Struct([]string{"z", "x", "y"}, []octosql.Type{F, c08Sum(N, I), S})
	return []octosql.Type{
		syx, sxyz, c08Sum(N, syx), c08List(syx), c08Tuple(I), c08Tuple(S, I, F), c08Sum(N, c08Tuple(I, I, I)), c08List(c08Tuple(I, S)),
		I, I, c08Sum(N, I), c08Sum(N, I), F, c08Sum(N, F), S, S, c08Sum(N, S), B, c08Sum(N, B), c08Sum(N, B), N,
		c08Sum(I, S), c08Sum(N, F, S), c08Sum(N, I, S), c08Sum(I, F), c08Sum(B, I), c08Sum(N, B, S), c08Sum(I, D), c08Sum(N, I, F, S),
		T, c08Sum(N, T), D, c08Sum(N, D),
		c08List(I), c08List(c08Sum(N, I)), c08Sum(N, c08List(I)), c08List(S), {TypeID: octosql.TypeIDList}, c08Sum(S, c08List(I)),
		sxy, c08Sum(N, sxy), c08Sum(S, sxy), c08Sum(N, S, sxy), c08Sum(I, sxy), syz, c08Sum(N, syz), snest, c08Sum(N, I, snest),
		c08Tuple(I, S), c08Tuple(I, I, I), c08Sum(N, c08Tuple(I, S)), c08Tuple(),
		octosql.Any, c08List(sxy), c08Sum(c08List(I), c08Tuple(I, S)),
	}
}

// c08Composite: the variable types whose non-NULL part is (or contains) an object, a tuple or a list of those
func c08Composite(types []octosql.Type) []octosql.Type {
	var out []octosql.Type
	for _, t := range types {
		nn := octosql.NonNullable(t)
		if nn.TypeID == octosql.TypeIDStruct || nn.TypeID == octosql.TypeIDTuple ||
			(nn.TypeID == octosql.TypeIDList && nn.List.Element != nil && (nn.List.Element.TypeID == octosql.TypeIDStruct || nn.List.Element.TypeID == octosql.TypeIDTuple)) {
			out = append(out, t)
		}
	}
	return out
}

var c08GenInts = []int64{0, 1, -1, 2, 3, 7, -5, 12, 9223372036854775807, -9223372036854775808}
var c08GenStrs = []string{"", "a", "ab", "12", "-7", "x1", "1.5", "é", "A b", "%a_"}

// c08GenValue draws a value that conforms to t (NULL-heavy).
func c08GenValue(g *Gen, t octosql.Type, depth int) octosql.Value {
	switch t.TypeID {
	case octosql.TypeIDNull:
		return octosql.NewNull()
	case octosql.TypeIDInt:
		if g.Chance(1, 4) {
			return octosql.NewInt(Pick(g, c08GenInts))
		}
		return octosql.NewInt(int64(g.Intn(7)) - 2)
	case octosql.TypeIDFloat:
		return f64(Pick(g, []uint64{0, 0x8000000000000000, 0x3FF0000000000000, 0xBFF8000000000000, 0x4004000000000000, 0x7FF8000000000001, 0x7FF0000000000000, 0x4059000000000000}))
	case octosql.TypeIDBoolean:
		return octosql.NewBoolean(g.Bool())
	case octosql.TypeIDString:
		return octosql.NewString(Pick(g, c08GenStrs))
	case octosql.TypeIDTime:
		return octosql.NewTime(time.Unix(int64(g.Intn(5))-1, int64(g.Intn(3))).In(locOf(Pick(g, []int{0, 1, 103}))))
	case octosql.TypeIDDuration:
		return octosql.NewDuration(time.Duration(Pick(g, []int64{0, 1, -1, 1000000000, 90000000000, -3})))
	case octosql.TypeIDList:
		if t.List.Element == nil {
			return octosql.NewList(nil)
		}
		n := g.Intn(4)
		if depth <= 0 {
			n = g.Intn(2)
		}
		xs := make([]octosql.Value, n)
		for i := range xs {
			xs[i] = c08GenValue(g, *t.List.Element, depth-1)
		}
		return octosql.NewList(xs)
	case octosql.TypeIDStruct:
		xs := make([]octosql.Value, len(t.Struct.Fields))
		for i := range xs {
			xs[i] = c08GenValue(g, t.Struct.Fields[i].Type, depth-1)
		}
		return octosql.NewStruct(xs)
	case octosql.TypeIDTuple:
		xs := make([]octosql.Value, len(t.Tuple.Elements))
		for i := range xs {
			xs[i] = c08GenValue(g, t.Tuple.Elements[i], depth-1)
		}
		return octosql.NewTuple(xs)
	case octosql.TypeIDUnion:
		alts := t.Union.Alternatives
		for _, a := range alts {
			if a.TypeID == octosql.TypeIDNull && g.Chance(2, 5) {
				return octosql.NewNull()
			}
		}
		return c08GenValue(g, Pick(g, alts), depth)
	case octosql.TypeIDAny:
		return c08GenValue(g, Pick(g, []octosql.Type{octosql.Null, octosql.Int, octosql.String, octosql.Boolean, octosql.Float}), depth)
	}
	return octosql.NewNull()
}

type c08Item struct {
	toks  string
	t     octosql.Type
	depth int
}

type c08Pool struct {
	g     *Gen
	env   *c08Env
	items []c08Item
	names []string // function names, sorted
}

func (p *c08Pool) typecheck(toks string) (physical.Expression, string) {
	u, _ := c08ParseU(strings.Fields(toks))
	var e physical.Expression
	st := c08Typecheck(func() { e = u.Typecheck(context.Background(), p.env.physical(), p.env.logical()) })
	return e, st
}

func (p *c08Pool) pick() c08Item {
	// bias towards recently added (deeper) items
	n := len(p.items)
	if p.g.Chance(1, 3) && n > 8 {
		return p.items[n-1-p.g.Intn(n/3+1)]
	}
	return p.items[p.g.Intn(n)]
}

// pickWhere: an item satisfying pred, or any item if none of a sample does
func (p *c08Pool) pickWhere(pred func(octosql.Type) bool) c08Item {
	var cands []int
	for i, it := range p.items {
		if pred(it.t) {
			cands = append(cands, i)
		}
	}
	if len(cands) == 0 {
		return p.pick()
	}
	return p.items[cands[p.g.Intn(len(cands))]]
}

func c08FitsParam(strict bool, param octosql.Type, want octosql.TypeRelation) func(octosql.Type) bool {
	return func(t octosql.Type) bool {
		if strict {
			t = octosql.NonNullable(t)
		}
		return t.Is(param) == want
	}
}

func c08HasStruct(t octosql.Type) (octosql.Type, bool) {
	nn := octosql.NonNullable(t)
	if nn.TypeID == octosql.TypeIDStruct {
		return nn, true
	}
	if nn.TypeID == octosql.TypeIDUnion {
		for _, a := range nn.Union.Alternatives {
			if a.TypeID == octosql.TypeIDStruct {
				return a, true
			}
		}
	}
	return octosql.Type{}, false
}

func (p *c08Pool) candidate() (string, int) {
	g := p.g
	join := func(head string, args []c08Item) (string, int) {
		d := 0
		parts := []string{head}
		for _, a := range args {
			parts = append(parts, a.toks)
			if a.depth > d {
				d = a.depth
			}
		}
		return strings.Join(parts, " "), d + 1
	}
	switch k := g.Intn(100); {
	case k < 58: // function call
		name := Pick(g, p.names)
		descs := c08Funcs()[name].Descriptors
		idx := g.Intn(len(descs))
		d := descs[idx]
		var args []c08Item
		if d.TypeFn == nil {
			for _, param := range d.ArgumentTypes {
				switch r := g.Intn(10); {
				case r < 6:
					args = append(args, p.pickWhere(c08FitsParam(d.Strict, param, octosql.TypeRelationIs)))
				case r < 9:
					args = append(args, p.pickWhere(c08FitsParam(d.Strict, param, octosql.TypeRelationMaybe)))
				default:
					args = append(args, p.pick())
				}
			}
			if g.Chance(1, 40) && len(args) > 0 {
				args = args[:len(args)-1]
			}
		} else {
			switch name {
			case "<", "<=", ">=", ">":
				a := p.pick()
				nn := octosql.NonNullable(a.t)
				b := p.pickWhere(func(t octosql.Type) bool { return octosql.NonNullable(t).Equals(nn) })
				if g.Chance(1, 8) {
					b = p.pick()
				}
				args = []c08Item{a, b}
			case "len":
				want := []octosql.TypeID{octosql.TypeIDString, octosql.TypeIDList, octosql.TypeIDStruct, octosql.TypeIDTuple}[idx]
				args = []c08Item{p.pickWhere(func(t octosql.Type) bool { return octosql.NonNullable(t).TypeID == want })}
			case "[]":
				args = []c08Item{p.pickWhere(func(t octosql.Type) bool { return octosql.NonNullable(t).TypeID == octosql.TypeIDList }),
					p.pickWhere(func(t octosql.Type) bool { return octosql.NonNullable(t).TypeID == octosql.TypeIDInt })}
			default: // in, not in
				want := []octosql.TypeID{octosql.TypeIDList, octosql.TypeIDTuple}[idx]
				args = []c08Item{p.pick(), p.pickWhere(func(t octosql.Type) bool { return octosql.NonNullable(t).TypeID == want })}
			}
			if g.Chance(1, 30) {
				args = args[:g.Intn(len(args))]
			}
		}
		return join("f "+c08Hex(name)+" "+strconv.Itoa(len(args)), args)
	case k < 70: // and / or
		boolish := func(t octosql.Type) bool { return t.Is(octosql.TypeSum(octosql.Boolean, octosql.Null)) >= octosql.TypeRelationMaybe }
		a, b := p.pickWhere(boolish), p.pickWhere(boolish)
		if g.Chance(1, 8) {
			b = p.pick()
		}
		return join(Pick(g, []string{"a", "o"}), []c08Item{a, b})
	case k < 80: // coalesce
		n := 1 + g.Intn(3)
		first := p.pick()
		sameFamily := g.Chance(1, 3)
		if sameFamily {
			// objects / tuples / lists of different shapes: exercises ObjectLayoutFixer (fields by name, padding)
			first = p.pickWhere(func(t octosql.Type) bool { return octosql.NonNullable(t).TypeID >= octosql.TypeIDList && octosql.NonNullable(t).TypeID <= octosql.TypeIDTuple })
			n = 2 + g.Intn(2)
		}
		args := []c08Item{first}
		nn := octosql.NonNullable(first.t)
		for i := 1; i < n; i++ {
			if sameFamily {
				args = append(args, p.pickWhere(func(t octosql.Type) bool { return octosql.NonNullable(t).TypeID == nn.TypeID }))
			} else if g.Chance(2, 3) {
				args = append(args, p.pickWhere(func(t octosql.Type) bool { return octosql.NonNullable(t).Equals(nn) }))
			} else {
				args = append(args, p.pick())
			}
		}
		if g.Chance(1, 50) {
			args = nil
		}
		return join("q "+strconv.Itoa(len(args)), args)
	case k < 85: // tuple
		n := g.Intn(4)
		var args []c08Item
		for i := 0; i < n; i++ {
			args = append(args, p.pick())
		}
		return join("t "+strconv.Itoa(len(args)), args)
	case k < 92: // cast
		a := p.pickWhere(func(t octosql.Type) bool { return t.TypeID == octosql.TypeIDUnion })
		tid := g.Intn(10)
		if a.t.TypeID == octosql.TypeIDUnion && g.Chance(5, 6) {
			tid = int(Pick(g, a.t.Union.Alternatives).TypeID)
		}
		return join("k "+strconv.Itoa(tid), []c08Item{a})
	default: // field access
		a := p.pickWhere(func(t octosql.Type) bool { _, ok := c08HasStruct(t); return ok })
		field := Pick(g, []string{"x", "y", "z", "o", "n", "w", ""})
		if st, ok := c08HasStruct(a.t); ok && len(st.Struct.Fields) > 0 && g.Chance(5, 6) {
			field = Pick(g, st.Struct.Fields).Name
		}
		return join("g "+c08Hex(field), []c08Item{a})
	}
}

func c08EnvLine(env *c08Env) string {
	var sb strings.Builder
	sb.WriteString(strconv.Itoa(len(env.ctxs)))
	for _, c := range env.ctxs {
		sb.WriteString(" " + strconv.Itoa(len(c)))
		for _, f := range c {
			sb.WriteString(" " + f.Name[1:] + " " + EncodeType(f.Type))
		}
	}
	sb.WriteString(" " + strconv.Itoa(len(env.rows)))
	for _, r := range env.rows {
		for _, vs := range r {
			for _, v := range vs {
				sb.WriteString(" " + EncodeValue(v))
			}
		}
	}
	return sb.String()
}

func c08GenEnv(g *Gen, nrows int) *c08Env {
	types := c08VarTypes()
	env := &c08Env{}
	levels := 1
	if g.Chance(1, 4) {
		levels = 2
	}
	id := 0
	for l := 0; l < levels; l++ {
		k := 4 + g.Intn(5)
		if levels == 2 {
			k = 2 + g.Intn(4)
		}
		var fields []physical.SchemaField
		for i := 0; i < k; i++ {
			name := id
			if l == 1 && i == 0 && g.Chance(1, 2) {
				name = 0 // shadowed by the inner context
			} else {
				id++
			}
			t := Pick(g, types)
			if g.Chance(1, 4) {
				t = Pick(g, c08Composite(types))
			}
			fields = append(fields, physical.SchemaField{Name: "c" + strconv.Itoa(name), Type: t})
		}
		env.ctxs = append(env.ctxs, fields)
	}
	for r := 0; r < nrows; r++ {
		row := make([][]octosql.Value, levels)
		for l := range env.ctxs {
			for _, f := range env.ctxs[l] {
				row[l] = append(row[l], c08GenValue(g, f.Type, 2))
			}
		}
		env.rows = append(env.rows, row)
	}
	return env
}

func c08Constants() []octosql.Value {
	one, two, null := octosql.NewInt(1), octosql.NewInt(2), octosql.NewNull()
	return []octosql.Value{
		null, octosql.NewInt(0), one, octosql.NewInt(-3), octosql.NewBoolean(true), octosql.NewBoolean(false),
		octosql.NewString("a"), octosql.NewString("12"), octosql.NewString("x"), octosql.NewString(""), f64(0x3FF8000000000000),
		octosql.NewDuration(time.Second), octosql.NewList([]octosql.Value{one, two}), octosql.NewList([]octosql.Value{one, null}),
		octosql.NewList(nil), octosql.NewTuple([]octosql.Value{one, octosql.NewString("a")}),
	}
}

func c08Gen(g *Gen, tier string, out *bufio.Writer) {
	// the lines are collected first: the (slow) whole-query lines are spread evenly over the output so that bin/check's
	// contiguous chunks each get their share
	var lines []string
	w := &c08Lines{lines: &lines}
	nenv, perEnv, nrows, nagg, nqry := 36, 70, 4, 500, 90
	if tier == "thorough" {
		nenv, perEnv, nrows, nagg, nqry = 260, 110, 6, 6000, 1000
	}
	var names []string
	for n := range c08Funcs() {
		if n == "now" { // the clock
			continue
		}
		names = append(names, n)
	}
	sort.Strings(names)
	consts := c08Constants()
	for e := 0; e < nenv; e++ {
		env := c08GenEnv(g, nrows)
		head := "ev " + c08EnvLine(env) + " "
		p := &c08Pool{g: g, env: env, names: names}
		seen := map[string]bool{}
		for l := range env.ctxs {
			for _, f := range env.ctxs[l] {
				toks := "v " + f.Name[1:]
				if seen[toks] {
					continue
				}
				seen[toks] = true
				ex, st := p.typecheck(toks)
				if st == "" {
					p.items = append(p.items, c08Item{toks, ex.Type, 0})
				}
			}
		}
		for i := 0; i < 4; i++ {
			c := Pick(g, consts)
			if i == 0 && g.Chance(1, 12) {
				// not denotable in SQL: Value.Type() of a list of differently shaped structs (known finding const-typeof-shape-mismatch)
				one, two, null := octosql.NewInt(1), octosql.NewInt(2), octosql.NewNull()
				c = octosql.NewList([]octosql.Value{octosql.NewStruct([]octosql.Value{one, two}), octosql.NewStruct([]octosql.Value{null, one})})
			}
			toks := "c " + EncodeValue(c)
			ex, st := p.typecheck(toks)
			if st == "" {
				p.items = append(p.items, c08Item{toks, ex.Type, 0})
			}
		}
		emitted := 0
		for tries := 0; emitted < perEnv && tries < perEnv*6; tries++ {
			toks, depth := p.candidate()
			if depth > 4 || seen[toks] {
				continue
			}
			seen[toks] = true
			ex, st := p.typecheck(toks)
			if st != "" {
				if g.Chance(1, 6) {
					w.WriteString(head + toks + "\n")
					emitted++
				}
				continue
			}
			p.items = append(p.items, c08Item{toks, ex.Type, depth})
			w.WriteString(head + toks + "\n")
			emitted++
		}
	}
	// aggregates
	var anames []string
	for n := range aggregates.Aggregates {
		anames = append(anames, n)
	}
	sort.Strings(anames)
	types := c08VarTypes()
	for i := 0; i < nagg; i++ {
		name := Pick(g, anames)
		t := Pick(g, types)
		m := g.Intn(5)
		var sb strings.Builder
		sb.WriteString("agg " + c08Hex(name) + " " + EncodeType(t) + " " + strconv.Itoa(m))
		for j := 0; j < m; j++ {
			sb.WriteString(" " + EncodeValue(c08GenValue(g, t, 2)))
		}
		w.WriteString(sb.String() + "\n")
	}
	// whole queries through the CLI (oracle only)
	every := len(lines)/nqry + 1
	q := 0
	for i, l := range lines {
		out.WriteString(l)
		if i%every == every-1 && q < nqry {
			out.WriteString(c08GenQryLine(g) + "\n")
			q++
		}
	}
	for ; q < nqry; q++ {
		out.WriteString(c08GenQryLine(g) + "\n")
	}
}

type c08Lines struct{ lines *[]string }

func (c *c08Lines) WriteString(s string) { *c.lines = append(*c.lines, s) }
