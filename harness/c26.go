package main

// C26 — the plugin protocol carries data and predicates without change.
//
// The real conversion functions of plugins/internal/plugins (re-exported under the `verif` build tag by
// plugins/verif_export.go) are called in-process; each op prints the proto message they build (all fields), what
// comes back after the inverse conversion, and whether the message survives protobuf marshalling.
//
//   val <v>                                  -> <PV dump> | <v'> | <wire>
//   ty <t>                                   -> <RT dump> | <t'> | <wire>
//   schema <tf> <nr> <k> (x<name> <t>)…      -> <tf32> <nr> <k> (x<name> <RT dump>)… | <tf> <nr> <k> (x<name> <t>)… | <wire>
//   rec <k> <v>… <+|-> <et ns>               -> <k> <PV dump>… <+|-> <sec>/<nanos> | <k> <v>… <+|-> <ns> | <wire>
//   meta <type> <wm ns>                      -> <type32> <sec>/<nanos> | <type> <ns> | <wire>
//   pctx <n> (<k> (x<name> <t>)…)…           -> <n> (<k> (x<name> <RT dump>)…)… | <n> (<k> (x<name> <t>)…)… | <wire>
//   ectx <n> (<k> <v>…)…                     -> <n> (<k> <PV dump>…)… | <n> (<k> <v>…)… | <wire>
//   rawval <PV dump>                         -> <GV dump> | panic          ((*Value).ToNativeValue on an arbitrary message)
//   repop <namehex> <k> <argty>…             -> tc=<i|panic> rp=<j|none> ok=<0|1>
//   json <v>                                 -> <v'> | err:<class>         (encoding/json trip of a Constant's value)
//   jsonty <t>                               -> <t'> | err
//   pred …                                   see c26_pred.go
//   e2e …                                    see c26_e2e.go
//
// <wire> = same | diff | err:utf8 | err:other   (proto.Marshal, proto.Unmarshal, dump again)
// Values use the shared token codec, except that times may lie outside the int64 UnixNano range
// (t<ns as a big integer>:<loc>); <PV dump> / <RT dump> print every field of the message.

import (
	"bufio"
	"bytes"
	"encoding/hex"
	"fmt"
	"math"
	"math/big"
	"runtime/debug"
	"strconv"
	"strings"
	"time"

	"google.golang.org/protobuf/proto"
	"google.golang.org/protobuf/types/known/durationpb"
	"google.golang.org/protobuf/types/known/timestamppb"

	"github.com/cube2222/octosql/execution"
	"github.com/cube2222/octosql/octosql"
	"github.com/cube2222/octosql/physical"
	"github.com/cube2222/octosql/plugins"
)

func init() {
	register("C26", &prop{gen: genC26, drive: driveC26})
}

// ---------- wide-time value codec

var big1e9 = big.NewInt(1000000000)

func timeOfBigNs(s string) time.Time {
	ns, ok := new(big.Int).SetString(s, 10)
	if !ok {
		panic("c26: bad time " + s)
	}
	sec, nsec := new(big.Int).DivMod(ns, big1e9, new(big.Int)) // Euclidean: nsec in [0, 1e9)
	if !sec.IsInt64() {
		panic("c26: time out of range " + s)
	}
	return time.Unix(sec.Int64(), nsec.Int64())
}

func bigNsOfTime(t time.Time) string {
	ns := new(big.Int).Mul(big.NewInt(t.Unix()), big1e9)
	ns.Add(ns, big.NewInt(int64(t.Nanosecond())))
	return ns.String()
}

func p26Value(toks []string) (octosql.Value, []string) {
	if len(toks) == 0 {
		panic("c26: no tokens")
	}
	tok, rest := toks[0], toks[1:]
	switch tok[0] {
	case 't':
		parts := strings.Split(tok[1:], ":")
		loc, _ := strconv.Atoi(parts[1])
		return octosql.NewTime(timeOfBigNs(parts[0]).In(locOf(loc))), rest
	case 'L', 'S', 'T':
		k, _ := strconv.Atoi(tok[1:])
		xs := make([]octosql.Value, k)
		for i := 0; i < k; i++ {
			xs[i], rest = p26Value(rest)
		}
		switch tok[0] {
		case 'L':
			return octosql.NewList(xs), rest
		case 'S':
			return octosql.NewStruct(xs), rest
		default:
			return octosql.NewTuple(xs), rest
		}
	}
	return ParseValue(toks)
}

func p26Values(k int, toks []string) ([]octosql.Value, []string) {
	xs := make([]octosql.Value, k)
	for i := 0; i < k; i++ {
		xs[i], toks = p26Value(toks)
	}
	return xs, toks
}

func e26Value(sb *strings.Builder, v octosql.Value) {
	switch v.TypeID {
	case octosql.TypeIDTime:
		fmt.Fprintf(sb, "t%s:%d", bigNsOfTime(v.Time), locID(v.Time.Location()))
	case octosql.TypeIDList:
		e26Seq(sb, "L", v.List)
	case octosql.TypeIDStruct:
		e26Seq(sb, "S", v.Struct)
	case octosql.TypeIDTuple:
		e26Seq(sb, "T", v.Tuple)
	default:
		encodeValue(sb, v)
	}
}

func e26Seq(sb *strings.Builder, tag string, xs []octosql.Value) {
	sb.WriteString(tag + strconv.Itoa(len(xs)))
	for _, x := range xs {
		sb.WriteByte(' ')
		e26Value(sb, x)
	}
}

func enc26Value(v octosql.Value) string {
	var sb strings.Builder
	e26Value(&sb, v)
	return sb.String()
}

func enc26Values(vs []octosql.Value) string {
	parts := make([]string, len(vs)+1)
	parts[0] = strconv.Itoa(len(vs))
	for i := range vs {
		parts[i+1] = enc26Value(vs[i])
	}
	return strings.Join(parts, " ")
}

// ---------- dumps of the proto messages (every field)

func dumpTs(t *timestamppb.Timestamp) string {
	if t == nil {
		return "-"
	}
	return fmt.Sprintf("%d/%d", t.Seconds, t.Nanos)
}

func dumpDs(d *durationpb.Duration) string {
	if d == nil {
		return "-"
	}
	return fmt.Sprintf("%d/%d", d.Seconds, d.Nanos)
}

func b01(b bool) string {
	if b {
		return "1"
	}
	return "0"
}

func dumpPV(sb *strings.Builder, p *plugins.VerifValue) {
	if p == nil {
		sb.WriteString("Pnil")
		return
	}
	fmt.Fprintf(sb, "P%d:%d:%016x:%s:s%s:%s:%s:%d:%d:%d", p.TypeId, p.Int, math.Float64bits(p.Float), b01(p.Boolean),
		hex.EncodeToString([]byte(p.Str)), dumpTs(p.Time), dumpDs(p.Duration), len(p.List), len(p.Struct), len(p.Tuple))
	for _, xs := range [][]*plugins.VerifValue{p.List, p.Struct, p.Tuple} {
		for _, x := range xs {
			sb.WriteByte(' ')
			dumpPV(sb, x)
		}
	}
}

func dumpPVs(sb *strings.Builder, ps []*plugins.VerifValue) {
	sb.WriteString(strconv.Itoa(len(ps)))
	for _, p := range ps {
		sb.WriteByte(' ')
		dumpPV(sb, p)
	}
}

func dumpRT(sb *strings.Builder, t *plugins.VerifType) {
	if t == nil {
		sb.WriteString("Qnil")
		return
	}
	fmt.Fprintf(sb, "Q%d:%s:%d:%d:%d", t.TypeId, b01(t.List != nil), len(t.Struct), len(t.Tuple), len(t.Union))
	if t.List != nil {
		sb.WriteByte(' ')
		dumpRT(sb, t.List)
	}
	for _, f := range t.Struct {
		sb.WriteString(" x" + hex.EncodeToString([]byte(f.Name)) + " ")
		dumpRT(sb, f.Type)
	}
	for _, xs := range [][]*plugins.VerifType{t.Tuple, t.Union} {
		for _, x := range xs {
			sb.WriteByte(' ')
			dumpRT(sb, x)
		}
	}
}

func dumpSchemaFields(sb *strings.Builder, fs []*plugins.VerifSchemaField) {
	sb.WriteString(strconv.Itoa(len(fs)))
	for _, f := range fs {
		sb.WriteString(" x" + hex.EncodeToString([]byte(f.Name)) + " ")
		dumpRT(sb, f.Type)
	}
}

func enc26Fields(sb *strings.Builder, fs []physical.SchemaField) {
	sb.WriteString(strconv.Itoa(len(fs)))
	for _, f := range fs {
		sb.WriteString(" x" + hex.EncodeToString([]byte(f.Name)) + " " + EncodeType(f.Type))
	}
}

func p26Fields(toks []string) ([]physical.SchemaField, []string) {
	k, err := strconv.Atoi(toks[0])
	if err != nil {
		panic(err)
	}
	toks = toks[1:]
	fs := make([]physical.SchemaField, k)
	for i := 0; i < k; i++ {
		nm, err := hex.DecodeString(toks[0][1:])
		if err != nil {
			panic(err)
		}
		fs[i].Name = string(nm)
		fs[i].Type, toks = ParseType(toks[1:])
	}
	return fs, toks
}

// wireTrip marshals m, unmarshals into fresh and compares the dumps.
func wireTrip(m proto.Message, fresh proto.Message, dump func(proto.Message) string) string {
	b, err := proto.Marshal(m)
	if err != nil {
		if strings.Contains(err.Error(), "invalid UTF-8") {
			return "err:utf8"
		}
		return "err:other"
	}
	if err := proto.Unmarshal(b, fresh); err != nil {
		if strings.Contains(err.Error(), "invalid UTF-8") {
			return "err:utf8"
		}
		return "err:other"
	}
	if dump(m) == dump(fresh) {
		return "same"
	}
	return "diff"
}

func str26(f func(sb *strings.Builder)) string {
	var sb strings.Builder
	f(&sb)
	return sb.String()
}

// ---------- ops

var gcTuned26 bool

func driveC26(toks []string) string {
	c11QuietLog()
	if !gcTuned26 {
		// functions.FunctionMap() (called by every RepopulatePhysicalExpressionFunctions) allocates a fresh ristretto
		// cache each time; with the default GC target most of the run time is spent scanning those
		debug.SetGCPercent(1000)
		gcTuned26 = true
	}
	switch toks[0] {
	case "val":
		v, _ := p26Value(toks[1:])
		p := plugins.VerifNativeValueToProto(v)
		dump := func(m proto.Message) string {
			return str26(func(sb *strings.Builder) { dumpPV(sb, m.(*plugins.VerifValue)) })
		}
		return dump(p) + " | " + enc26Value(p.ToNativeValue()) + " | " + wireTrip(p, &plugins.VerifValue{}, dump)
	case "ty":
		t, _ := ParseType(toks[1:])
		p := plugins.VerifNativeTypeToProto(t)
		dump := func(m proto.Message) string {
			return str26(func(sb *strings.Builder) { dumpRT(sb, m.(*plugins.VerifType)) })
		}
		return dump(p) + " | " + EncodeType(p.ToNativeType()) + " | " + wireTrip(p, &plugins.VerifType{}, dump)
	case "schema":
		tf, err := strconv.ParseInt(toks[1], 10, 64)
		if err != nil {
			panic(err)
		}
		fs, _ := p26Fields(toks[3:])
		s := physical.Schema{Fields: fs, TimeField: int(tf), NoRetractions: toks[2] == "1"}
		p := plugins.VerifNativeSchemaToProto(s)
		dump := func(m proto.Message) string {
			q := m.(*plugins.VerifSchema)
			return str26(func(sb *strings.Builder) {
				fmt.Fprintf(sb, "%d %s ", q.TimeField, b01(q.NoRetractions))
				dumpSchemaFields(sb, q.Fields)
			})
		}
		d := p.ToNativeSchema()
		return dump(p) + " | " + str26(func(sb *strings.Builder) {
			fmt.Fprintf(sb, "%d %s ", d.TimeField, b01(d.NoRetractions))
			enc26Fields(sb, d.Fields)
		}) + " | " + wireTrip(p, &plugins.VerifSchema{}, dump)
	case "rec":
		k, _ := strconv.Atoi(toks[1])
		vs, r := p26Values(k, toks[2:])
		rec := execution.Record{Values: vs, Retraction: r[0] == "-", EventTime: timeOfBigNs(r[1]).UTC()}
		p := plugins.VerifNativeRecordToProto(rec)
		sign := func(b bool) string {
			if b {
				return "-"
			}
			return "+"
		}
		dump := func(m proto.Message) string {
			q := m.(*plugins.VerifRecord)
			return str26(func(sb *strings.Builder) {
				dumpPVs(sb, q.Values)
				sb.WriteString(" " + sign(q.Retraction) + " " + dumpTs(q.EventTime))
			})
		}
		d := p.ToNativeRecord()
		return dump(p) + " | " + enc26Values(d.Values) + " " + sign(d.Retraction) + " " + bigNsOfTime(d.EventTime) + " | " +
			wireTrip(p, &plugins.VerifRecord{}, dump)
	case "meta":
		ty, err := strconv.ParseInt(toks[1], 10, 64)
		if err != nil {
			panic(err)
		}
		msg := execution.MetadataMessage{Type: execution.MetadataMessageType(ty), Watermark: timeOfBigNs(toks[2]).UTC()}
		p := plugins.VerifNativeMetadataMessageToProto(msg)
		dump := func(m proto.Message) string {
			q := m.(*plugins.VerifMetadataMessage)
			return fmt.Sprintf("%d %s", q.MessageType, dumpTs(q.Watermark))
		}
		d := p.ToNativeMetadataMessage()
		return dump(p) + " | " + fmt.Sprintf("%d %s", int64(d.Type), bigNsOfTime(d.Watermark)) + " | " +
			wireTrip(p, &plugins.VerifMetadataMessage{}, dump)
	case "pctx":
		n, _ := strconv.Atoi(toks[1])
		r := toks[2:]
		frames := make([][]physical.SchemaField, n)
		for i := 0; i < n; i++ {
			frames[i], r = p26Fields(r)
		}
		var c *physical.VariableContext
		for i := n - 1; i >= 0; i-- {
			c = &physical.VariableContext{Fields: frames[i], Parent: c}
		}
		p := plugins.VerifNativePhysicalVariableContextToProto(c)
		dump := func(m proto.Message) string {
			q := m.(*plugins.VerifPhysicalVariableContext)
			return str26(func(sb *strings.Builder) {
				sb.WriteString(strconv.Itoa(len(q.Frames)))
				for _, f := range q.Frames {
					sb.WriteByte(' ')
					dumpSchemaFields(sb, f.Fields)
				}
			})
		}
		d := p.ToNativePhysicalVariableContext()
		return dump(p) + " | " + str26(func(sb *strings.Builder) {
			cnt := 0
			for x := d; x != nil; x = x.Parent {
				cnt++
			}
			sb.WriteString(strconv.Itoa(cnt))
			for x := d; x != nil; x = x.Parent {
				sb.WriteByte(' ')
				enc26Fields(sb, x.Fields)
			}
		}) + " | " + wireTrip(p, &plugins.VerifPhysicalVariableContext{}, dump)
	case "ectx":
		n, _ := strconv.Atoi(toks[1])
		r := toks[2:]
		frames := make([][]octosql.Value, n)
		for i := 0; i < n; i++ {
			k, _ := strconv.Atoi(r[0])
			frames[i], r = p26Values(k, r[1:])
		}
		var c *execution.VariableContext
		for i := n - 1; i >= 0; i-- {
			c = &execution.VariableContext{Values: frames[i], Parent: c}
		}
		p := plugins.VerifNativeExecutionVariableContextToProto(c)
		dump := func(m proto.Message) string {
			q := m.(*plugins.VerifExecutionVariableContext)
			return str26(func(sb *strings.Builder) {
				sb.WriteString(strconv.Itoa(len(q.Frames)))
				for _, f := range q.Frames {
					sb.WriteByte(' ')
					dumpPVs(sb, f.Values)
				}
			})
		}
		d := p.ToNativeExecutionVariableContext()
		return dump(p) + " | " + str26(func(sb *strings.Builder) {
			cnt := 0
			for x := d; x != nil; x = x.Parent {
				cnt++
			}
			sb.WriteString(strconv.Itoa(cnt))
			for x := d; x != nil; x = x.Parent {
				sb.WriteString(" " + enc26Values(x.Values))
			}
		}) + " | " + wireTrip(p, &plugins.VerifExecutionVariableContext{}, dump)
	case "repop", "json", "jsonty", "pred", "rawval", "tree":
		return driveC26b(toks)
	case "e2e":
		return driveC26e2e(toks)
	}
	return "bad-op"
}

// ---------- generator

var c26Strings = []string{"", "a", "é", "\xff", "a\xc3", "\xed\xa0\x80", "日本", "\x00", "\xef\xbf\xbd", "a\x80b"}
var c26Durs = []int64{0, 1, -1, 999999999, 1000000000, 1000000001, -999999999, -1000000000, -1000000001, -1500000001,
	math.MaxInt64, math.MinInt64, math.MaxInt64 - 1, math.MinInt64 + 1, 9223372036000000000, -9223372036000000000, 9223372035999999999}

// instants as ns since the Unix epoch (decimal strings: some lie outside int64)
var c26Times = []string{"0", "1", "-1", "999999999", "1000000000", "-999999999", "-1000000000", "-1000000001", "1500000000123456789",
	"-62135596800000000000", "-62135596799999999999", "-62135596800000000001", "253402300799999999999", "253402300800000000000",
	"9223372036854775807", "-9223372036854775808", "9223372036854775808", "-9223372036854775809", "-62167219200000000000", "-62167219200000000001",
	"4102444800000000000", "-2208988800000000001"}

func c26RandTimeNs(g *Gen) string {
	if g.Chance(2, 3) {
		return Pick(g, c26Times)
	}
	// uniformly-ish over a wide range, sign included
	x := new(big.Int).SetUint64(g.U64())
	x.Rsh(x, uint(g.Intn(40)))
	if g.Bool() {
		x.Neg(x)
	}
	return x.String()
}

func c26RandValue(g *Gen, depth int) octosql.Value {
	switch k := g.Intn(16); {
	case k < 3:
		return octosql.NewTime(timeOfBigNs(c26RandTimeNs(g)).In(locOf(Pick(g, []int{0, 1, 2, 103, 97}))))
	case k < 5:
		if g.Chance(2, 3) {
			return octosql.NewDuration(time.Duration(Pick(g, c26Durs)))
		}
		return octosql.NewDuration(time.Duration(int64(g.U64()) >> uint(g.Intn(40))))
	case k < 7:
		return octosql.NewString(Pick(g, c26Strings))
	case k < 10 && depth > 0:
		n := g.Intn(4)
		xs := make([]octosql.Value, n)
		for i := range xs {
			xs[i] = c26RandValue(g, depth-1)
		}
		return []func([]octosql.Value) octosql.Value{octosql.NewList, octosql.NewStruct, octosql.NewTuple}[g.Intn(3)](xs)
	case k == 10:
		return octosql.NewInt(int64(g.U64()))
	}
	return RandValue(g, depth)
}

var c26Names = []string{"", "a", "b", "t.a", "é", "\xff", "time", "a b"}

func c26RandType(g *Gen, depth int) octosql.Type {
	k := g.Intn(14)
	if depth <= 0 && k >= 9 {
		k = g.Intn(9)
	}
	switch k {
	case 0:
		return octosql.Null
	case 1:
		return octosql.Int
	case 2:
		return octosql.Float
	case 3:
		return octosql.Boolean
	case 4:
		return octosql.String
	case 5:
		return octosql.Time
	case 6:
		return octosql.Duration
	case 7:
		return octosql.Any
	case 8:
		return octosql.Type{TypeID: octosql.TypeIDList}
	case 9:
		e := c26RandType(g, depth-1)
		return octosql.Type{TypeID: octosql.TypeIDList, List: struct{ Element *octosql.Type }{Element: &e}}
	case 10:
		n := g.Intn(4)
		fs := make([]octosql.StructField, n)
		for i := range fs {
			fs[i] = octosql.StructField{Name: Pick(g, c26Names), Type: c26RandType(g, depth-1)}
		}
		return octosql.Type{TypeID: octosql.TypeIDStruct, Struct: struct{ Fields []octosql.StructField }{Fields: fs}}
	default:
		n := g.Intn(4)
		es := make([]octosql.Type, n)
		for i := range es {
			es[i] = c26RandType(g, depth-1)
		}
		if k == 11 {
			return octosql.Type{TypeID: octosql.TypeIDTuple, Tuple: struct{ Elements []octosql.Type }{Elements: es}}
		}
		return octosql.Type{TypeID: octosql.TypeIDUnion, Union: struct{ Alternatives []octosql.Type }{Alternatives: es}}
	}
}

func c26RandFields(g *Gen, depth int) string {
	n := g.Intn(4)
	fs := make([]physical.SchemaField, n)
	for i := range fs {
		fs[i] = physical.SchemaField{Name: Pick(g, c26Names), Type: c26RandType(g, depth)}
	}
	return str26(func(sb *strings.Builder) { enc26Fields(sb, fs) })
}

func c26RandValues(g *Gen, depth int) string {
	n := g.Intn(4)
	vs := make([]octosql.Value, n)
	for i := range vs {
		vs[i] = c26RandValue(g, depth)
	}
	return enc26Values(vs)
}

// genC26 spreads the (slow) end-to-end lines evenly over the other lines, so that bin/check's contiguous chunks
// each get a share of them.
func genC26(g *Gen, tier string, out *bufio.Writer) {
	var a, b bytes.Buffer
	wa, wb := bufio.NewWriter(&a), bufio.NewWriter(&b)
	genC26codec(g, tier, wa)
	genC26e2e(g, tier, wb)
	wa.Flush()
	wb.Flush()
	la := strings.Split(strings.TrimRight(a.String(), "\n"), "\n")
	lb := strings.Split(strings.TrimRight(b.String(), "\n"), "\n")
	step := len(la)/len(lb) + 1
	j := 0
	for i, l := range la {
		if i%step == 0 && j < len(lb) {
			fmt.Fprintln(out, lb[j])
			j++
		}
		fmt.Fprintln(out, l)
	}
	for ; j < len(lb); j++ {
		fmt.Fprintln(out, lb[j])
	}
}

func genC26codec(g *Gen, tier string, w *bufio.Writer) {
	scale := 1
	if tier == "thorough" {
		scale = 20
	}
	// every value of the shared edge universe, every edge time x location, every edge duration, every edge string
	for _, v := range smallUniverse() {
		fmt.Fprintf(w, "val %s\n", enc26Value(v))
	}
	for _, ns := range c26Times {
		for _, loc := range []int{0, 1, 103, 97} {
			fmt.Fprintf(w, "val t%s:%d\n", ns, loc)
		}
		fmt.Fprintf(w, "meta 0 %s\n", ns)
		fmt.Fprintf(w, "rec 1 t%s:1 + %s\n", ns, ns)
	}
	for _, d := range c26Durs {
		fmt.Fprintf(w, "val d%d\n", d)
	}
	for _, s := range c26Strings {
		fmt.Fprintf(w, "val s%s\n", hex.EncodeToString([]byte(s)))
	}
	for i := 0; i < 3000*scale; i++ {
		fmt.Fprintf(w, "val %s\n", enc26Value(c26RandValue(g, 4)))
	}
	for i := 0; i < 1500*scale; i++ {
		fmt.Fprintf(w, "ty %s\n", EncodeType(c26RandType(g, 4)))
	}
	for i := 0; i < 500*scale; i++ {
		tf := int64(g.Intn(5)) - 1
		if g.Chance(1, 10) {
			tf = Pick(g, []int64{math.MaxInt32, math.MinInt32, math.MaxInt32 + 1, 1 << 32, -1 << 40})
		}
		fmt.Fprintf(w, "schema %d %s %s\n", tf, b01(g.Bool()), c26RandFields(g, 3))
		sign := "+"
		if g.Bool() {
			sign = "-"
		}
		fmt.Fprintf(w, "rec %s %s %s\n", c26RandValues(g, 3), sign, c26RandTimeNs(g))
		mt := int64(g.Intn(3))
		if g.Chance(1, 10) {
			mt = Pick(g, []int64{math.MaxInt32, math.MaxInt32 + 1, -1, 1 << 33})
		}
		fmt.Fprintf(w, "meta %d %s\n", mt, c26RandTimeNs(g))
		n := g.Intn(4)
		var sb strings.Builder
		fmt.Fprintf(&sb, "pctx %d", n)
		for j := 0; j < n; j++ {
			sb.WriteString(" " + c26RandFields(g, 2))
		}
		fmt.Fprintln(w, sb.String())
		sb.Reset()
		n = g.Intn(4)
		fmt.Fprintf(&sb, "ectx %d", n)
		for j := 0; j < n; j++ {
			sb.WriteString(" " + c26RandValues(g, 2))
		}
		fmt.Fprintln(w, sb.String())
	}
	genC26b(g, tier, w)
}
