package main

import (
	"bufio"
	"context"
	"fmt"
	"math"
	"math/big"
	"strconv"
	"strings"
	"time"

	"github.com/cube2222/octosql/execution"
	"github.com/cube2222/octosql/logical"
	"github.com/cube2222/octosql/octosql"
	"github.com/cube2222/octosql/physical"
	"github.com/cube2222/octosql/table_valued_functions"
)

// C20 — max_diff_watermark.
//
//	run <maxDiff ns> <resolution ns | -> <time field index> <stream>
//
// The node is obtained through the exported descriptor's Materialize over a ScriptNode playing <stream>;
// `-` = no resolution argument (the default of one second applies). Output: `ok <emitted stream>`
// (watermarks printed as exact decimal nanoseconds, they may leave the Int64 range), `err:runtime`, `panic`.

func init() {
	register("C20", &prop{gen: genC20, drive: driveC20})
}

// scriptDatasource plugs a ScriptNode in as a physical datasource.
type scriptDatasource struct{ node execution.Node }

func (s *scriptDatasource) Materialize(ctx context.Context, env physical.Environment, schema physical.Schema, pushedDownPredicates []physical.Expression) (execution.Node, error) {
	return s.node, nil
}
func (s *scriptDatasource) PushDownPredicates(newPredicates, pushedDownPredicates []physical.Expression) (rejected, pushedDown []physical.Expression, changed bool) {
	return newPredicates, nil, false
}

func scriptPhysicalNode(n execution.Node, arity, timeIdx int) physical.Node {
	fields := make([]physical.SchemaField, arity)
	mapping := map[string]string{}
	for i := range fields {
		name := fmt.Sprintf("c%d", i)
		t := octosql.Any
		if i == timeIdx {
			t = octosql.Time
		}
		fields[i] = physical.SchemaField{Name: name, Type: t}
		mapping[name] = name
	}
	return physical.Node{
		Schema:   physical.NewSchema(fields, -1),
		NodeType: physical.NodeTypeDatasource,
		Datasource: &physical.Datasource{
			Name: "script", Alias: "script", DatasourceImplementation: &scriptDatasource{node: n}, VariableMapping: mapping,
		},
	}
}

func durConst(ns int64) physical.Expression {
	return physical.Expression{
		Type:           octosql.Duration,
		ExpressionType: physical.ExpressionTypeConstant,
		Constant:       &physical.Constant{Value: octosql.NewDuration(time.Duration(ns))},
	}
}

// exactNanos: the instant as an exact integer number of ns since the Unix epoch (no Int64 wrap-around).
func exactNanos(t time.Time) string {
	v := new(big.Int).Mul(big.NewInt(t.Unix()), big.NewInt(1000000000))
	v.Add(v, big.NewInt(int64(t.Nanosecond())))
	return v.String()
}

func encodeMsgsExact(ms []Msg) string {
	parts := make([]string, len(ms))
	for i := range ms {
		if ms[i].IsWM {
			parts[i] = "W" + exactNanos(ms[i].WM)
		} else {
			parts[i] = EncodeRecord(ms[i].Rec)
		}
	}
	return strings.Join(parts, " ; ")
}

// schema <want> <noRetractions 0|1> <k> (<name> <T|I|S|N|A>)*k
// OutputSchema on a source with these fields (T = Time, N = Null|Time, I Int, S String, A Any), time_field => <want>;
// then Materialize + Run over one record whose column i holds the instant 1000+i: the event time of the
// forwarded record tells which column the running node uses. Output: `ok <TimeField> <used column> <#fields> <noRetractions>`
// or `err:typecheck`.
func driveC20Schema(toks []string) string {
	want := toks[1]
	noRetr := toks[2] == "1"
	k, _ := strconv.Atoi(toks[3])
	fields := make([]physical.SchemaField, k)
	mapping := map[string]string{}
	vals := make([]octosql.Value, k)
	for i := 0; i < k; i++ {
		name, ty := toks[4+2*i], toks[5+2*i]
		var t octosql.Type
		switch ty {
		case "T":
			t = octosql.Time
		case "N":
			t = octosql.TypeSum(octosql.Null, octosql.Time)
		case "I":
			t = octosql.Int
		case "S":
			t = octosql.String
		default:
			t = octosql.Any
		}
		fields[i] = physical.SchemaField{Name: name, Type: t}
		mapping[name] = name
		vals[i] = octosql.NewTime(time.Unix(0, int64(1000+i)).UTC())
	}
	src := physical.Node{
		Schema:   physical.NewSchema(fields, -1, physical.WithNoRetractions(noRetr)),
		NodeType: physical.NodeTypeDatasource,
		Datasource: &physical.Datasource{Name: "script", Alias: "script", VariableMapping: mapping,
			DatasourceImplementation: &scriptDatasource{node: &ScriptNode{Msgs: []Msg{{Rec: execution.Record{Values: vals}}}, FailAt: -1}}},
	}
	args := map[string]physical.TableValuedFunctionArgument{
		"source": {TableValuedFunctionArgumentType: physical.TableValuedFunctionArgumentTypeTable,
			Table: &physical.TableValuedFunctionArgumentTable{Table: src}},
		"max_diff": {TableValuedFunctionArgumentType: physical.TableValuedFunctionArgumentTypeExpression,
			Expression: &physical.TableValuedFunctionArgumentExpression{Expression: durConst(0)}},
		"time_field": {TableValuedFunctionArgumentType: physical.TableValuedFunctionArgumentTypeDescriptor,
			Descriptor: &physical.TableValuedFunctionArgumentDescriptor{Descriptor: want}},
	}
	targs := map[string]logical.TableValuedFunctionTypecheckedArgument{}
	for name, a := range args {
		targs[name] = logical.TableValuedFunctionTypecheckedArgument{Argument: a}
	}
	targs["source"] = logical.TableValuedFunctionTypecheckedArgument{Mapping: mapping, Argument: args["source"]}
	ctx := context.Background()
	d := table_valued_functions.MaxDiffWatermark.Descriptors[0]
	schema, _, err := d.OutputSchema(ctx, physical.Environment{}, logical.Environment{}, targs)
	if err != nil {
		return "err:typecheck"
	}
	node, err := d.Materialize(ctx, physical.Environment{}, args)
	if err != nil {
		return ErrClass(err)
	}
	out, err := Collect(execution.ExecutionContext{Context: ctx}, node)
	if err != nil {
		return ErrClass(err)
	}
	used := int64(-1)
	if len(out) > 0 && !out[0].IsWM {
		used = out[0].Rec.EventTime.UnixNano() - 1000
	}
	nr := 0
	if schema.NoRetractions {
		nr = 1
	}
	return fmt.Sprintf("ok %d %d %d %d", schema.TimeField, used, len(schema.Fields), nr)
}

func driveC20(toks []string) string {
	if toks[0] == "schema" {
		return driveC20Schema(toks)
	}
	failAt := -1
	if toks[0] == "fail" {
		// fail <k> <maxDiff> <res> <idx> <stream>: the source fails instead of delivering message k
		k, err := strconv.Atoi(toks[1])
		if err != nil {
			return "bad-op"
		}
		failAt = k
		toks = append([]string{"run"}, toks[2:]...)
	}
	if toks[0] != "run" {
		return "bad-op"
	}
	md, err := strconv.ParseInt(toks[1], 10, 64)
	if err != nil {
		return "bad-op"
	}
	idx, _ := strconv.Atoi(toks[3])
	msgs := ParseMsgs(toks[4:])
	arity := idx + 1
	for _, m := range msgs {
		if !m.IsWM && len(m.Rec.Values) > arity {
			arity = len(m.Rec.Values)
		}
	}
	src := scriptPhysicalNode(&ScriptNode{Msgs: msgs, FailAt: failAt}, arity, idx)
	args := map[string]physical.TableValuedFunctionArgument{
		"source": {TableValuedFunctionArgumentType: physical.TableValuedFunctionArgumentTypeTable,
			Table: &physical.TableValuedFunctionArgumentTable{Table: src}},
		"max_diff": {TableValuedFunctionArgumentType: physical.TableValuedFunctionArgumentTypeExpression,
			Expression: &physical.TableValuedFunctionArgumentExpression{Expression: durConst(md)}},
		"time_field": {TableValuedFunctionArgumentType: physical.TableValuedFunctionArgumentTypeDescriptor,
			Descriptor: &physical.TableValuedFunctionArgumentDescriptor{Descriptor: fmt.Sprintf("c%d", idx)}},
	}
	if toks[2] != "-" {
		res, err := strconv.ParseInt(toks[2], 10, 64)
		if err != nil {
			return "bad-op"
		}
		args["resolution"] = physical.TableValuedFunctionArgument{TableValuedFunctionArgumentType: physical.TableValuedFunctionArgumentTypeExpression,
			Expression: &physical.TableValuedFunctionArgumentExpression{Expression: durConst(res)}}
	}
	ctx := context.Background()
	env := physical.Environment{VariableContext: nil}
	node, err := table_valued_functions.MaxDiffWatermark.Descriptors[0].Materialize(ctx, env, args)
	if err != nil {
		return ErrClass(err)
	}
	out, err := Collect(execution.ExecutionContext{Context: ctx, VariableContext: nil}, node)
	if err != nil && failAt < 0 {
		return ErrClass(err)
	}
	tag := ErrClass(err)
	if failAt >= 0 && err != nil && tag == "err:runtime" {
		return tag // not the injected error: e.g. the resolution was rejected
	}
	if len(out) == 0 {
		return tag
	}
	return tag + " " + encodeMsgsExact(out)
}

// ---- generator

var c20Resolutions = []int64{1, 1000000000, 7000000000, 3600000000000, 1000, 86400000000000, 999999937}

func c20Time(ns int64, g *Gen) octosql.Value {
	loc := 0
	if g.Chance(1, 6) {
		loc = 1 + g.Intn(3)
	} else if g.Chance(1, 10) {
		loc = 100 + g.Intn(5)
	}
	return octosql.NewTime(time.Unix(0, ns).In(locOf(loc)))
}

func clampAdd(a, b int64) int64 {
	if b > 0 && a > math.MaxInt64-b {
		return math.MaxInt64
	}
	if b < 0 && a < math.MinInt64-b {
		return math.MinInt64
	}
	return a + b
}

// one generated scenario
func c20Case(g *Gen, w *bufio.Writer, maxLen int) {
	res := Pick(g, c20Resolutions)
	if g.Chance(1, 8) {
		res = 1 + int64(g.U64()%uint64(5000000000))
	}
	useDefault := g.Chance(1, 10)
	if useDefault {
		res = 1000000000
	}
	// base instant: around the epoch (both sides), around a far multiple of the resolution, far past, extremes
	var base int64
	switch g.Intn(8) {
	case 0, 1:
		base = 0
	case 2:
		base = -res * int64(1+g.Intn(50))
	case 3:
		base = res * int64(1+g.Intn(50))
	case 4:
		base = -1500000000000000000 + int64(g.U64()%1000000007) // 1922
	case 5:
		base = 1600000000000000000 + int64(g.U64()%1000000007) // 2020
	case 6:
		base = math.MinInt64 + int64(g.U64()%uint64(3*res+5))
	default:
		base = math.MaxInt64 - int64(g.U64()%uint64(3*res+5))
	}
	var md int64
	switch g.Intn(6) {
	case 0:
		md = 0
	case 1:
		md = res
	case 2:
		md = int64(g.U64() % uint64(4*res+1))
	case 3:
		md = -int64(g.U64() % uint64(2*res+1))
	case 4:
		md = res/2 + 1
	default:
		md = 3*res + int64(g.Intn(7))
	}
	n := g.Intn(maxLen + 1)
	arity := 1 + g.Intn(3)
	idx := g.Intn(arity)
	var msgs []Msg
	cur := base
	var seen []int64
	for i := 0; i < n; i++ {
		if g.Chance(1, 9) {
			// an upstream watermark (must be swallowed)
			msgs = append(msgs, Msg{IsWM: true, WM: time.Unix(0, clampAdd(cur, int64(g.Intn(5))-2))})
			continue
		}
		var t int64
		switch g.Intn(10) {
		case 0, 1, 2: // move forward by a fraction or a few multiples of the resolution
			cur = clampAdd(cur, int64(g.U64()%uint64(2*res+1)))
			t = cur
		case 3: // exactly on a multiple of the resolution near cur
			t = cur - cur%res
		case 4: // just below / above a multiple
			t = clampAdd(cur-cur%res, int64(g.Intn(3))-1)
		case 5: // duplicate of an earlier time
			if len(seen) > 0 {
				t = Pick(g, seen)
			} else {
				t = cur
			}
		case 6, 7: // out of order: go back by up to a few resolutions (late or not depending on maxDiff)
			t = clampAdd(cur, -int64(g.U64()%uint64(5*res+1)))
		case 8: // tiny step
			cur = clampAdd(cur, int64(g.Intn(3)))
			t = cur
		default: // jump
			cur = clampAdd(cur, res*int64(g.Intn(6)))
			t = cur
		}
		seen = append(seen, t)
		vals := make([]octosql.Value, arity)
		for k := range vals {
			if k == idx {
				vals[k] = c20Time(t, g)
			} else {
				vals[k] = Pick(g, scalarUniverse())
			}
		}
		var et time.Time
		if g.Chance(1, 3) {
			et = time.Unix(0, int64(g.Intn(100))).UTC()
		}
		msgs = append(msgs, Msg{Rec: execution.Record{Values: vals, Retraction: g.Chance(1, 5), EventTime: et}})
	}
	rs := strconv.FormatInt(res, 10)
	if useDefault {
		rs = "-"
	}
	if g.Chance(1, 12) {
		fmt.Fprintf(w, "fail %d %d %s %d %s\n", g.Intn(len(msgs)+1), md, rs, idx, EncodeMsgs(msgs))
		return
	}
	fmt.Fprintf(w, "run %d %s %d %s\n", md, rs, idx, EncodeMsgs(msgs))
}

// schema ops: all field lists of length <= 3 over 2 names x 3 types, for both wanted names (exhaustive), plus
// longer random ones
func genC20Schema(g *Gen, tier string, w *bufio.Writer) {
	names := []string{"a", "b"}
	types := []string{"T", "I", "N"}
	var rec func(prefix []string, depth int)
	rec = func(prefix []string, depth int) {
		for _, want := range []string{"a", "b", "zz"} {
			fmt.Fprintf(w, "schema %s %d %d %s\n", want, depth%2, depth, strings.Join(prefix, " "))
		}
		if depth == 3 {
			return
		}
		for _, n := range names {
			for _, t := range types {
				rec(append(append([]string(nil), prefix...), n, t), depth+1)
			}
		}
	}
	rec(nil, 0)
	n := 300
	if tier == "thorough" {
		n = 5000
	}
	allNames := []string{"a", "b", "c", "d", "time", "t"}
	allTypes := []string{"T", "I", "S", "N", "A", "T"}
	for i := 0; i < n; i++ {
		k := g.Intn(7)
		var parts []string
		for j := 0; j < k; j++ {
			parts = append(parts, Pick(g, allNames), Pick(g, allTypes))
		}
		fmt.Fprintf(w, "schema %s %d %d %s\n", Pick(g, allNames), g.Intn(2), k, strings.Join(parts, " "))
	}
}

func genC20(g *Gen, tier string, w *bufio.Writer) {
	// fixed witnesses first: the pre-1970 rounding case of DESIGN §3 C20, and non-positive resolutions
	t := func(ns int64) string { return fmt.Sprintf("R1 t%d:0 + z", ns) }
	fmt.Fprintf(w, "run 0 1000000000 0 %s ; %s ; %s\n", t(-1500000000), t(-1200000000), t(-100000000))
	fmt.Fprintf(w, "run 0 0 0 %s\n", t(5))
	fmt.Fprintf(w, "run 0 0 0\n")
	fmt.Fprintf(w, "run 5 -1000000000 0 %s ; %s\n", t(1500000000), t(2500000000))
	fmt.Fprintf(w, "run 0 - 0 %s ; %s ; %s\n", t(-1500000000), t(-1200000000), t(-100000000))
	fmt.Fprintf(w, "run 0 10 0 %s ; W99 ; %s\n", t(5), t(7)) // an upstream watermark must be swallowed
	fmt.Fprintf(w, "fail 2 0 10 0 %s ; %s ; %s\n", t(5), t(17), t(29))
	genC20Schema(g, tier, w)
	// small exhaustive universe: resolution 10, times in [-25,25] step 5 plus off-grid, sequences of length <= 3
	grid := []int64{-21, -20, -19, -10, -5, -1, 0, 1, 5, 10, 19, 20, 21}
	mds := []int64{0, 3, 10, -4}
	if tier == "thorough" {
		for _, md := range mds {
			for _, a := range grid {
				for _, b := range grid {
					for _, c := range grid {
						fmt.Fprintf(w, "run %d 10 0 %s ; %s ; %s\n", md, t(a), t(b), t(c))
					}
				}
			}
		}
	} else {
		for _, md := range mds {
			for _, a := range grid {
				for _, b := range grid {
					fmt.Fprintf(w, "run %d 10 0 %s ; %s\n", md, t(a), t(b))
				}
			}
		}
	}
	n, maxLen := 20000, 14
	if tier == "thorough" {
		n, maxLen = 200000, 40
	}
	for i := 0; i < n; i++ {
		c20Case(g, w, maxLen)
	}
}
