package main

import (
	"bufio"
	"encoding/hex"
	"fmt"
	"math"
	"regexp"
	"strconv"
	"strings"
	"sync"

	"github.com/cube2222/octosql/functions"
	"github.com/cube2222/octosql/octosql"
	"github.com/cube2222/octosql/physical"
)

// C12 — string and pattern functions. The real descriptors of functions.FunctionMap() are called in-process.
func init() {
	register("C12", &prop{gen: genC12, drive: driveC12})
}

var (
	c12once sync.Once
	c12fm   map[string]physical.FunctionDetails
	c12rx   = map[string]string{} // LIKE pattern -> regexp text, as reported by the verif hook
	c12last string
	c12seen bool
)

func c12init() {
	c12once.Do(func() {
		c12fm = functions.FunctionMap()
		functions.VerifLikeRegexpObserver = func(pattern, regexpText string) {
			c12rx[pattern] = regexpText
			c12last = regexpText
			c12seen = true
		}
	})
}

// c12call calls descriptor idx of function name; "err" for a returned error (a panic is caught by `safe`).
func c12call(name string, idx int, args ...octosql.Value) (octosql.Value, bool) {
	v, err := c12fm[name].Descriptors[idx].Function(args)
	return v, err == nil
}

func c12s(tok string) string {
	if len(tok) == 0 || tok[0] != 's' {
		panic("c12: not a string token: " + tok)
	}
	b, err := hex.DecodeString(tok[1:])
	if err != nil {
		panic(err)
	}
	return string(b)
}

func c12i(tok string) int64 {
	if len(tok) == 0 || tok[0] != 'i' {
		panic("c12: not an int token: " + tok)
	}
	i, err := strconv.ParseInt(tok[1:], 10, 64)
	if err != nil {
		panic(err)
	}
	return i
}

func c12es(s string) string { return "s" + hex.EncodeToString([]byte(s)) }

func c12eb(v octosql.Value, ok bool) string {
	if !ok {
		return "err"
	}
	if v.TypeID != octosql.TypeIDBoolean {
		return "notbool"
	}
	if v.Boolean {
		return "b1"
	}
	return "b0"
}

func c12str(v octosql.Value, ok bool) string {
	if !ok {
		return "err"
	}
	if v.TypeID != octosql.TypeIDString {
		return "notstring"
	}
	return c12es(v.Str)
}

func c12ref(pattern, s string) string {
	re, err := regexp.Compile(pattern)
	if err != nil {
		return "err"
	}
	if re.MatchString(s) {
		return "b1"
	}
	return "b0"
}

func driveC12(toks []string) string {
	c12init()
	S := octosql.NewString
	switch toks[0] {
	case "upper", "lower":
		s := c12s(toks[1])
		v, ok := c12call(toks[0], 0, S(s))
		ref := strings.ToUpper(s)
		if toks[0] == "lower" {
			ref = strings.ToLower(s)
		}
		flag := "0"
		if ok && v.TypeID == octosql.TypeIDString && v.Str == ref {
			flag = "1"
		}
		return c12str(v, ok) + " " + flag
	case "reverse":
		return c12str(c12call("reverse", 0, S(c12s(toks[1]))))
	case "substr2":
		return c12str(c12call("substr", 0, S(c12s(toks[1])), octosql.NewInt(c12i(toks[2]))))
	case "substr3":
		return c12str(c12call("substr", 1, S(c12s(toks[1])), octosql.NewInt(c12i(toks[2])), octosql.NewInt(c12i(toks[3]))))
	case "replace":
		return c12str(c12call("replace", 0, S(c12s(toks[1])), S(c12s(toks[2])), S(c12s(toks[3]))))
	case "position":
		v, ok := c12call("position", 0, S(c12s(toks[1])), S(c12s(toks[2])))
		if !ok {
			return "err"
		}
		return EncodeValue(v)
	case "len":
		v, ok := c12call("len", 0, S(c12s(toks[1])))
		if !ok {
			return "err"
		}
		return EncodeValue(v)
	case "like":
		s, p := c12s(toks[1]), c12s(toks[2])
		c12seen = false
		v, ok := c12call("like", 0, S(s), S(p))
		rx, have := c12last, c12seen
		if !have { // regexp came from the function's cache: the text observed when it was built
			rx, have = c12rx[p]
		}
		if !have {
			if !ok {
				return "err"
			}
			return "rx? " + c12eb(v, ok)
		}
		return "rx" + hex.EncodeToString([]byte(rx)) + " " + c12eb(v, ok)
	case "tilde":
		s, p := c12s(toks[1]), c12s(toks[2])
		return c12eb(c12call("~", 0, S(s), S(p))) + " " + c12ref(p, s)
	case "tildei":
		s, p := c12s(toks[1]), c12s(toks[2])
		return c12eb(c12call("~*", 0, S(s), S(p))) + " " + c12ref("(?i)"+p, s)
	}
	return "bad-op"
}

// ---------------------------------------------------------------- generators

// the alphabet of the property: regexp metacharacters, LIKE specials, newline, multibyte runes, an invalid byte
var c12alpha = []string{"a", "A", "b", "%", "_", "\\", ".", "*", "+", "?", "|", "(", ")", "[", "]", "{", "}", "^", "$", "\n", "é", "ż", "😀", "\xff"}

// pieces that make malformed / borderline UTF-8 when concatenated
var c12nasty = []string{"\xc3", "\xa9", "\xed\xa0\x80", "\xf4\x90\x80\x80", "\xe0\x80\x80", "\xc0\x80", "\xf0\x9f\x98", "\xe2\x82", "\x00", "\xef\xbf\xbd",
	"\u07ff", "\u0800", "\uffff", "\U00010000", "\U0010ffff", "\xf4\x8f\xbf\xbf", "\xed\x9f\xbf", "\xee\x80\x80", "\x7f", "\x80", "\xc2\x80", "\xdf\xbf", "\xf8", "k", "K", "s", "S", "K", "ſ", "z", "Z", "@", "[", "`", "{"}

// all strings over alpha of length <= n
func c12words(alpha []string, n int) []string {
	out := []string{""}
	level := []string{""}
	for i := 0; i < n; i++ {
		var next []string
		for _, w := range level {
			for _, a := range alpha {
				next = append(next, w+a)
			}
		}
		out = append(out, next...)
		level = next
	}
	return out
}

func c12rand(g *Gen, alpha []string, minLen, maxLen int) string {
	n := minLen + g.Intn(maxLen-minLen+1)
	var sb strings.Builder
	for i := 0; i < n; i++ {
		sb.WriteString(Pick(g, alpha))
	}
	return sb.String()
}

// a random LIKE pattern (mostly well formed) and a string that is likely to match it or to just miss it
func c12likePair(g *Gen) (string, string) {
	n := 1 + g.Intn(7)
	var p, s strings.Builder
	for i := 0; i < n; i++ {
		switch g.Intn(8) {
		case 0:
			p.WriteString("_")
			s.WriteString(Pick(g, c12alpha))
		case 1:
			p.WriteString("%")
			s.WriteString(c12rand(g, c12alpha, 0, 3))
		case 2:
			e := Pick(g, []string{"_", "%", "\\"})
			p.WriteString("\\" + e)
			s.WriteString(e)
		case 3:
			if g.Chance(1, 6) { // malformed escape
				p.WriteString("\\" + Pick(g, c12alpha))
			} else {
				a := Pick(g, c12nasty)
				p.WriteString(a)
				s.WriteString(a)
			}
		default:
			a := Pick(g, c12alpha)
			if a == "\\" || a == "_" || a == "%" {
				a = "*"
			}
			p.WriteString(a)
			s.WriteString(a)
		}
	}
	str := s.String()
	switch g.Intn(6) {
	case 0: // drop a byte
		if len(str) > 0 {
			k := g.Intn(len(str))
			str = str[:k] + str[k+1:]
		}
	case 1: // insert
		k := g.Intn(len(str) + 1)
		str = str[:k] + Pick(g, c12alpha) + str[k:]
	case 2: // repeat (what an unescaped * or + would accept)
		str = str + str
	}
	return str, p.String()
}

var c12rxAtoms = []string{"a", "A", "b", ".", "\\.", "\\*", "\\S", "\\s", "\\d", "\\D", "\\w", "\\W", "\\\\", "é", "ż", "\n", "1", " ", "_", "\\|", "\\+", "\\?", "\\(", "\\[", "\\^", "\\$", "-", "z", "Z"}

func c12regex(g *Gen) string {
	var sb strings.Builder
	if g.Chance(1, 8) {
		sb.WriteString(Pick(g, []string{"(?s)", "(?i)", "(?is)", "(?si)"}))
	}
	nb := 1 + g.Intn(2)
	for b := 0; b < nb; b++ {
		if b > 0 {
			sb.WriteString("|")
		}
		if g.Chance(1, 3) {
			sb.WriteString("^")
		}
		n := g.Intn(4)
		for i := 0; i < n; i++ {
			sb.WriteString(Pick(g, c12rxAtoms))
			if g.Chance(1, 3) {
				sb.WriteString(Pick(g, []string{"*", "+", "?"}))
			}
		}
		if g.Chance(1, 3) {
			sb.WriteString("$")
		}
	}
	return sb.String()
}

var c12subjAlpha = []string{"a", "A", "b", "B", " ", "1", "\n", "é", "É", "ż", ".", "*", "\\", "_", "\xff", "\t", "z", "Z", "-", "|"}

func genC12(g *Gen, tier string, w *bufio.Writer) {
	thorough := tier == "thorough"
	op := func(name string, args ...string) {
		w.WriteString(name)
		for _, a := range args {
			w.WriteByte(' ')
			w.WriteString(a)
		}
		w.WriteByte('\n')
	}
	I := func(i int64) string { return "i" + strconv.FormatInt(i, 10) }

	// ---- like: exhaustive small pairs: ALL (p, s) with |p| <= 2 and |s| <= 2 symbols of the alphabet (361 201 pairs)
	pats := c12words(c12alpha, 2)
	subs := c12words(c12alpha, 2)
	for _, p := range pats {
		for _, s := range subs {
			op("like", c12es(s), c12es(p))
		}
	}
	if thorough {
		// a seeded half of |p| = 3 x |s| <= 1, and a seeded 48th of |p| = 3 x (|s| <= 3 over a reduced subject alphabet)
		// (bin/check's chunking is quadratic in the number of lines; the thorough tier is sized to ~1.3M lines)
		red := c12words([]string{"a", "b", "*", "\n", "é", "%", "\\", "\xff"}, 3)
		for _, p := range c12words(c12alpha, 3) {
			if len([]rune(p)) != 3 {
				continue
			}
			for _, s := range c12words(c12alpha, 1) {
				if g.Bool() {
					op("like", c12es(s), c12es(p))
				}
			}
			for _, s := range red {
				if g.Intn(48) == 0 {
					op("like", c12es(s), c12es(p))
				}
			}
		}
	}
	// every ASCII character as a one-symbol pattern against itself and a few probes (a character that is wrongly
	// escaped becomes a class like \d, \s, \w or an error; one that is wrongly left alone is a metacharacter)
	for c := 0; c < 128; c++ {
		ch := string(rune(c))
		for _, s := range []string{ch, "", "1", " ", "a", "_", "\n", ch + ch, "Z", "x" + ch} {
			op("like", c12es(s), c12es(ch))
			op("like", c12es(s), c12es("x"+ch))
		}
		op("like", c12es(ch), c12es("\\"+ch))
	}
	n := 20000
	if thorough {
		n = 100000
	}
	for i := 0; i < n; i++ {
		s, p := c12likePair(g)
		op("like", c12es(s), c12es(p))
	}

	// ---- ~ and ~*
	rxs := c12words(c12alpha, 2)
	rxs = append(rxs, "\\S", "\\s", "\\W", "\\w", "\\D", "\\d", "\\B", "\\b", "\\PL", "\\pL", "[A-Z]", "[^a]", "k", "K", "s", "S", "(?i)a", "a{2}", "\\Qa.b\\E", "(a|b)*", "É", "é")
	tsub := []string{"", "a", "A", "b", "ab", "AB", " ", "1", "\n", "é", "É", "aa", "a\nb", "\xff", "k", "K", "s", "ſ", ".", "*", "a*", "a|b", "Ab"}
	for _, p := range rxs {
		for _, s := range tsub {
			if !thorough && len([]rune(p)) == 2 && g.Intn(3) != 0 {
				continue
			}
			op("tilde", c12es(s), c12es(p))
			op("tildei", c12es(s), c12es(p))
		}
	}
	n = 10000
	if thorough {
		n = 80000
	}
	for i := 0; i < n; i++ {
		p := c12regex(g)
		s := c12rand(g, c12subjAlpha, 0, 5)
		if g.Bool() {
			op("tilde", c12es(s), c12es(p))
		} else {
			op("tildei", c12es(s), c12es(p))
		}
	}

	// ---- unary functions: all short strings, then random ones rich in malformed UTF-8
	un := c12words(c12alpha, 2)
	if thorough {
		un = c12words(c12alpha, 3)
	}
	for _, s := range un {
		op("reverse", c12es(s))
		op("len", c12es(s))
	}
	for _, s := range c12words(c12alpha, 1) {
		op("upper", c12es(s))
		op("lower", c12es(s))
	}
	mixed := append(append([]string{}, c12alpha...), c12nasty...)
	n = 6000
	if thorough {
		n = 60000
	}
	for i := 0; i < n; i++ {
		s := c12rand(g, mixed, 0, 8)
		op("reverse", c12es(s))
		switch i % 4 {
		case 0:
			op("upper", c12es(s))
		case 1:
			op("lower", c12es(s))
		case 2:
			op("len", c12es(s))
		default:
			a := c12rand(g, []string{"a", "b", "Z", "z", "@", "[", "`", "{", "A", " ", "~", "\x7f", "\x00", "m", "M"}, 0, 10)
			op("upper", c12es(a))
			op("lower", c12es(a))
		}
	}
	// every single byte, and every byte after a 3-byte lead (decoder tables)
	for b := 0; b < 256; b++ {
		op("reverse", c12es(string([]byte{byte(b)})))
		op("upper", c12es(string([]byte{byte(b)})))
		op("lower", c12es(string([]byte{byte(b)})))
		for _, l := range []byte{0xc2, 0xdf, 0xe0, 0xe1, 0xed, 0xee, 0xf0, 0xf1, 0xf4, 0xf5} {
			op("reverse", c12es(string([]byte{l, byte(b), 0x80, 0xbf, 'x'})))
			op("reverse", c12es(string([]byte{l, 0x90, byte(b), 0x80})))
		}
	}

	// ---- substr
	edge := []int64{math.MinInt64, math.MinInt64 + 1, -3, -2, -1, 0, 1, 2, 3, 4, 5, 6, math.MaxInt64 - 1, math.MaxInt64}
	for _, s := range []string{"", "a", "ab", "żółw", "a\xffb", "abcde"} {
		for _, i := range edge {
			op("substr2", c12es(s), I(i))
			for _, l := range edge {
				op("substr3", c12es(s), I(i), I(l))
			}
		}
		for i := -2; i <= len(s)+2; i++ {
			op("substr2", c12es(s), I(int64(i)))
			for l := -2; l <= len(s)+2; l++ {
				op("substr3", c12es(s), I(int64(i)), I(int64(l)))
			}
		}
	}
	n = 3000
	if thorough {
		n = 20000
	}
	for i := 0; i < n; i++ {
		s := c12rand(g, mixed, 0, 8)
		st := int64(g.Intn(len(s)+4)) - 2
		ln := int64(g.Intn(len(s)+4)) - 2
		if g.Chance(1, 10) {
			st = Pick(g, edge)
		}
		if g.Chance(1, 10) {
			ln = Pick(g, edge)
		}
		op("substr2", c12es(s), I(st))
		op("substr3", c12es(s), I(st), I(ln))
	}

	// ---- replace / position: exhaustive over a small alphabet, then random
	small := []string{"a", "b", "é", "\xff"}
	hay := c12words(small, 3)
	ned := c12words(small, 2)
	if thorough {
		hay = c12words(small, 4)
	}
	for _, s := range hay {
		for _, o := range ned {
			op("position", c12es(s), c12es(o))
			op("replace", c12es(s), c12es(o), c12es("X"))
		}
	}
	for _, s := range c12words([]string{"a", "b"}, 6) {
		for _, o := range []string{"aa", "ab", "aba", "a", "", "bab", "abab"} {
			for _, nw := range []string{"", "a", "ab", "aa", "ba"} {
				op("replace", c12es(s), c12es(o), c12es(nw))
			}
			op("position", c12es(s), c12es(o))
		}
	}
	n = 5000
	if thorough {
		n = 40000
	}
	for i := 0; i < n; i++ {
		al := mixed
		if g.Bool() {
			al = []string{"a", "b", "ab", "é", "\xc3", "\xa9"}
		}
		s := c12rand(g, al, 0, 10)
		o := c12rand(g, al, 0, 3)
		if len(s) > 0 && g.Bool() { // a needle that does occur
			a := g.Intn(len(s))
			b := a + g.Intn(len(s)-a+1)
			if b-a > 4 {
				b = a + 4
			}
			o = s[a:b]
		}
		nw := c12rand(g, al, 0, 3)
		op("replace", c12es(s), c12es(o), c12es(nw))
		op("position", c12es(s), c12es(o))
	}
	_ = fmt.Sprint
}
