package main

import (
	"math"
	"time"

	"github.com/cube2222/octosql/octosql"
)

// Edge-heavy value universe (DESIGN §C09 "Bounds").
func f64(bits uint64) octosql.Value { return octosql.NewFloat(math.Float64frombits(bits)) }

var edgeFloats = []uint64{
	0x7FF8000000000001, 0xFFF8000000000123, 0x7FF0000000000000, 0xFFF0000000000000,
	0x0000000000000000, 0x8000000000000000, 0x3FF0000000000000, 0xBFF0000000000000,
	0x4000000000000000, 0x0000000000000001, 0x8000000000000001, 0x7FEFFFFFFFFFFFFF, 0xFFEFFFFFFFFFFFFF,
}
var edgeInts = []int64{math.MinInt64, -1, 0, 1, 2, math.MaxInt64}
var edgeStrings = []string{"", "a", "A", "ab", "b", "\x00", "\xff", "é"}

func scalarUniverse() []octosql.Value {
	var u []octosql.Value
	u = append(u, octosql.NewNull())
	for _, i := range edgeInts {
		u = append(u, octosql.NewInt(i))
	}
	for _, b := range edgeFloats {
		u = append(u, f64(b))
	}
	u = append(u, octosql.NewBoolean(false), octosql.NewBoolean(true))
	for _, s := range edgeStrings {
		u = append(u, octosql.NewString(s))
	}
	u = append(u,
		octosql.NewTime(time.Unix(0, 0).In(locOf(0))), octosql.NewTime(time.Unix(0, 0).In(locOf(1))),
		octosql.NewTime(time.Unix(0, 1).In(locOf(0))), octosql.NewTime(time.Unix(0, -1).In(locOf(103))),
		octosql.NewTime(time.Unix(0, 1).In(locOf(103))),
	)
	u = append(u, octosql.NewDuration(0), octosql.NewDuration(-1), octosql.NewDuration(time.Second))
	return u
}

func smallUniverse() []octosql.Value {
	u := scalarUniverse()
	one, two, null := octosql.NewInt(1), octosql.NewInt(2), octosql.NewNull()
	nan1, nan2 := f64(edgeFloats[0]), f64(edgeFloats[1])
	pz, nz := f64(0), f64(0x8000000000000000)
	seqs := [][]octosql.Value{{}, {null}, {one}, {one, two}, {one, null}, {nan1}, {nan2}, {pz}, {nz}, {nan1, one}, {octosql.NewList(nil)}, {octosql.NewList([]octosql.Value{nz})}}
	for _, s := range seqs {
		u = append(u, octosql.NewList(s), octosql.NewStruct(s), octosql.NewTuple(s))
	}
	return u
}

// RandValue draws a random value, depth-bounded, edge-heavy.
func RandValue(g *Gen, depth int) octosql.Value {
	k := g.Intn(13)
	if depth <= 0 && k >= 10 {
		k = g.Intn(10)
	}
	switch k {
	case 0:
		return octosql.NewNull()
	case 1:
		if g.Chance(1, 2) {
			return octosql.NewInt(Pick(g, edgeInts))
		}
		return octosql.NewInt(int64(g.Intn(7)) - 3)
	case 2, 3:
		if g.Chance(2, 3) {
			return f64(Pick(g, edgeFloats))
		}
		return f64(g.U64())
	case 4:
		return octosql.NewBoolean(g.Bool())
	case 5, 6:
		if g.Chance(1, 2) {
			return octosql.NewString(Pick(g, edgeStrings))
		}
		n := g.Intn(4)
		b := make([]byte, n)
		for i := range b {
			b[i] = Pick(g, []byte{0, 'a', 'b', 'A', 0xff, 0xc3, 0xa9})
		}
		return octosql.NewString(string(b))
	case 7:
		return octosql.NewTime(time.Unix(0, int64(g.Intn(5))-2).In(locOf(Pick(g, []int{0, 1, 2, 103}))))
	case 8, 9:
		return octosql.NewDuration(time.Duration(int64(g.Intn(5)) - 2))
	default:
		n := g.Intn(4)
		xs := make([]octosql.Value, n)
		for i := range xs {
			xs[i] = RandValue(g, depth-1)
		}
		switch k {
		case 10:
			return octosql.NewList(xs)
		case 11:
			return octosql.NewStruct(xs)
		default:
			return octosql.NewTuple(xs)
		}
	}
}

// Mutate returns a value that is likely to compare equal or close to v.
func Mutate(g *Gen, v octosql.Value) octosql.Value {
	switch v.TypeID {
	case octosql.TypeIDFloat:
		if v.Float != v.Float {
			return f64(Pick(g, []uint64{0x7FF8000000000001, 0xFFF8000000000123, 0x7FF0000000000001}))
		}
		if v.Float == 0 {
			return f64(Pick(g, []uint64{0, 0x8000000000000000}))
		}
		return v
	case octosql.TypeIDTime:
		return octosql.NewTime(v.Time.In(locOf(Pick(g, []int{0, 1, 2, 103}))))
	case octosql.TypeIDList, octosql.TypeIDStruct, octosql.TypeIDTuple:
		src := v.List
		if v.TypeID == octosql.TypeIDStruct {
			src = v.Struct
		} else if v.TypeID == octosql.TypeIDTuple {
			src = v.Tuple
		}
		xs := make([]octosql.Value, len(src))
		for i := range xs {
			xs[i] = Mutate(g, src[i])
		}
		if g.Chance(1, 6) && len(xs) > 0 {
			xs = xs[:len(xs)-1]
		}
		switch v.TypeID {
		case octosql.TypeIDList:
			return octosql.NewList(xs)
		case octosql.TypeIDStruct:
			return octosql.NewStruct(xs)
		default:
			return octosql.NewTuple(xs)
		}
	}
	return v
}
