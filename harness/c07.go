package main

// C07 — no query or input crashes the process. Grammar-based + edge-value + token-mutation fuzzing of the
// real binary; the only thing observed is whether the process died with a Go runtime panic / fatal error or hung.
//   fuzz <mode> <optimize 0|1> <describe 0|1> SQL <hex>        -> nopanic | panic | timeout

import (
	"bufio"
	"encoding/hex"
	"fmt"
	"os"
	"path/filepath"
	"regexp"
	"sort"
	"strings"

	"github.com/cube2222/octosql/functions"
	"github.com/cube2222/octosql/octosql"
)

func init() {
	register("C07", &prop{gen: genC07, drive: driveFuzz})
}

const c07CSV = "i,s,f,b,n,k\n" +
	"0,,0.0,true,,1\n" +
	"-1,a,-1.5,false,3,1\n" +
	"9223372036854775807,żółw,2.5,true,-2,2\n" +
	"-9223372036854775808,%_\\,1e308,false,0,2\n" +
	"7,a*b|c,0.25,true,7,3\n"

const c07JSON = `{"id": 1, "l": [1, 2, 3], "o": {"x": 1, "y": "a"}, "t": "2020-01-01T00:00:00Z", "m": [[1], []]}
{"id": 2, "l": [], "o": {"x": null, "y": "b"}, "t": "1969-12-31T23:59:58.5Z", "m": []}
{"id": -3, "l": [0], "o": {"x": 3, "y": null}, "t": "2020-01-01T00:00:01+01:30", "m": [[]]}
{"id": 4, "l": null, "o": null, "t": "2262-01-01T00:00:00Z", "m": null}
`

var c07Known = []string{
	// crashers recorded in DESIGN.md §5 (all repaired on the current tree) and near misses
	"SELECT substr(s, -1) FROM t.csv t", "SELECT substr(s, 0, -1) FROM t.csv t", "SELECT substr(s, 9223372036854775807, 9223372036854775807) FROM t.csv t",
	"SELECT s * -1 FROM t.csv t", "SELECT s * n FROM t.csv t", "SELECT s * 9223372036854775807 FROM t.csv t",
	"SELECT i / 0 FROM t.csv t", "SELECT i / n FROM t.csv t", "SELECT (INTERVAL 1 SECOND) / 0 FROM t.csv t",
	"SELECT l[-1] FROM j.json t", "SELECT l[9223372036854775807] FROM j.json t", "SELECT l[id] FROM j.json t",
	"SELECT COALESCE((1, 2), (3, 4)) FROM t.csv t", "SELECT COALESCE((1, 2), (1, 2, 3)) FROM t.csv t",
	"SELECT t.i, u.i FROM t.csv t JOIN t.csv u ON COALESCE(t.n, u.n) = 1", "SELECT t.i FROM t.csv t LEFT JOIN t.csv u ON COALESCE(t.n, u.n) = 1",
	"SELECT t.i FROM t.csv t JOIN t.csv u ON (t.k, t.n) = (u.k, u.n)", "SELECT t.i FROM t.csv t JOIN t.csv u ON t.k = u.k AND t.n IN (SELECT n FROM t.csv z WHERE z.k = u.k)",
	"SELECT t.id FROM j.json t JOIN j.json u ON t.o->x = u.o->x",
	// join predicates whose operands mix the two inputs (key extraction / branch push-down must leave them alone)
	"SELECT t.i FROM t.csv t JOIN t.csv u ON t.k = t.n + u.n", "SELECT t.i FROM t.csv t JOIN t.csv u ON t.n + u.n = t.k", "SELECT t.i FROM t.csv t JOIN t.csv u ON t.k = u.k WHERE t.n = t.k + u.k",
	"SELECT t.i FROM t.csv t, t.csv u WHERE t.k = u.k + t.n AND u.n = 3", "SELECT t.i FROM t.csv t LEFT JOIN t.csv u ON t.k = t.n + u.n", "SELECT t.i FROM t.csv t LOOKUP JOIN t.csv u ON t.k = t.n + u.n",
	"SELECT t.i FROM t.csv t JOIN t.csv u ON t.k = u.k AND t.k = u.n WHERE t.n = u.n AND u.k = t.n + 1", "SELECT t.i FROM t.csv t JOIN t.csv u ON (t.k = u.k) = (t.n = u.n)",
	"SELECT t.i FROM t.csv t JOIN t.csv u ON t.k = u.k JOIN t.csv w ON w.k = t.n + u.n", "SELECT t.i FROM t.csv t JOIN (SELECT k, count(n) AS c FROM t.csv x GROUP BY k) u ON t.k = u.c + t.n",
	"SELECT count() FROM t.csv t", "SELECT count(*) FROM t.csv t", "SELECT sum() FROM t.csv t GROUP BY k",
	"SELECT l FROM j.json t", "SELECT o FROM j.json t", "SELECT m FROM j.json t", "SELECT (1, 'a') AS tup FROM t.csv t",
	"SELECT id FROM (SELECT id, unnest(l) AS u FROM j.json t) q", "SELECT u FROM (SELECT id, unnest(l) AS u FROM j.json t) q", "SELECT unnest(m) FROM j.json t",
	"SELECT * FROM max_diff_watermark(source => TABLE(j.json), max_diff => INTERVAL 0 SECONDS, time_field => DESCRIPTOR(t), resolution => INTERVAL 0 SECONDS) q",
	"SELECT * FROM max_diff_watermark(source => TABLE(j.json), max_diff => INTERVAL 1 SECOND, time_field => DESCRIPTOR(t), resolution => INTERVAL -1 SECONDS) q",
	"SELECT * FROM tumble(source => TABLE(j.json), window_length => INTERVAL 0 SECONDS, time_field => DESCRIPTOR(t)) q",
	"SELECT * FROM range(range_start => 5, range_end => 0) r", "SELECT * FROM range(range_start => 0, range_end => 3) r LIMIT 0",
	// (poll never terminates by design; only its typecheck is exercised)
	"SELECT * FROM poll(source => TABLE(j.json), poll_interval => DESCRIPTOR(t)) q", "SELECT * FROM poll(source => TABLE(j.json), poll_interval => 5) q",
	"SELECT int(s), float(s), int(f), int(b) FROM t.csv t", "SELECT time_from_unix(i), time_from_unix(f) FROM t.csv t", "SELECT abs(i), -i, i * i, i + i FROM t.csv t",
	"SELECT s LIKE s, s LIKE '%\\\\', s ~ s, s ~* '(' FROM t.csv t", "SELECT reverse(s), upper(s), len(s), position(s, '') FROM t.csv t",
	"SELECT o->x, o->zz FROM j.json t", "SELECT t.o->* FROM j.json t", "SELECT id::int, t::time, l::string FROM j.json t",
	"SELECT * FROM t.csv q ORDER BY i LIMIT k", "SELECT q.k AS k FROM t.csv q LIMIT k", "SELECT q.k AS k FROM t.csv q ORDER BY k DESC LIMIT k + 1", "SELECT * FROM t.csv q LIMIT i",
	"SELECT i FROM t.csv t ORDER BY i LIMIT -1", "SELECT i FROM t.csv t LIMIT -1", "SELECT i FROM t.csv t LIMIT 0", "SELECT i FROM t.csv t LIMIT n",
	"SELECT k, array_agg(s), min(s), max(f), avg(i), sum(i), count(DISTINCT n) FROM t.csv t GROUP BY k",
	"SELECT k, avg(n), sum(n) FROM t.csv t WHERE n IS NULL GROUP BY k", "SELECT avg(i) FROM t.csv t WHERE i > 9223372036854775807 - 1",
	"SELECT k, count(i) FROM t.csv t GROUP BY k TRIGGER COUNTING 0", "SELECT k, count(i) FROM t.csv t GROUP BY k TRIGGER COUNTING -1, ON WATERMARK",
	"SELECT * FROM nosuch.csv t", "SELECT * FROM t.csv t WHERE", "SELECT", "", "SELECT * FROM t.csv t t2", "SELECT 1", "WITH a AS (SELECT * FROM t.csv t) SELECT * FROM a a",
	"SELECT * FROM dup.csv d", "SELECT a FROM dup.csv d", "SELECT * FROM ragged.csv r", "SELECT * FROM empty.csv e", "SELECT * FROM empty.json e", "SELECT * FROM bad.json b",
	"SELECT * FROM l.lines x", "SELECT text FROM `l.lines?separator=ab` x", "SELECT number FROM `l.lines?separator=` x",
}

// files whose rows change shape AFTER the 100-row schema preview: the executing datasources meet values the inferred
// schema has no place for, in the parser workers' own goroutines (a panic there has no recover)
var c07DriftJSON = []string{
	`{"id": 200, "tags": ["late"], "o": {}, "v": 1, "n": null, "l": [1], "nest": {"a": []}, "s": "x"}`,
	`{"id": 200, "tags": [[]], "o": {}, "v": 1, "n": null, "l": [1], "nest": {"a": []}, "s": "x"}`,
	`{"id": 200, "tags": [], "o": {"k": 1}, "v": 1, "n": null, "l": [1], "nest": {"a": []}, "s": "x"}`,
	`{"id": 200, "tags": [], "o": {}, "v": "str", "n": null, "l": [1], "nest": {"a": []}, "s": "x"}`,
	`{"id": 200, "tags": [], "o": {}, "v": 1.5, "n": 5, "l": ["s"], "nest": {"a": []}, "s": "x"}`,
	`{"id": 200, "tags": [], "o": {}, "v": 1, "n": {"z": 1}, "l": [[1]], "nest": {"a": []}, "s": "x"}`,
	`{"id": 200, "tags": [], "o": {}, "v": 1, "n": [1], "l": [1], "nest": {"a": [1]}, "s": "x"}`,
	`{"id": 200, "tags": [], "o": {}, "v": 1, "n": null, "l": [1], "nest": {"a": {"b": 1}}, "s": "x"}`,
	`{"id": 200, "tags": [], "o": {}, "v": 1, "n": null, "l": [1], "nest": null, "s": null}`,
	`{"id": 200}`,
	`{}`,
	`{"id": null, "tags": null, "o": null, "v": null, "n": null, "l": null, "nest": null, "s": null, "extra": [1, {"q": []}]}`,
	`{"id": 200, "tags": {}, "o": [], "v": [], "n": null, "l": {}, "nest": [], "s": 7}`,
	`{"id": 9223372036854775808, "tags": [], "o": {}, "v": -9223372036854775809, "n": 1e400, "l": [1e19], "nest": {"a": []}, "s": "x"}`,
	`[1, 2]`,
	`"str"`,
}

var c07DriftCSV = []string{"200,1.5,x,true", "200,x,x,x", "200,1", "200,1,x,true,extra", ",,,", "9223372036854775808,1,x,true", "200,1,\"q\nr\",true", "200,NaN,x,tRuE", "\"200"}

func c07DriftFiles() map[string]string {
	files := map[string]string{}
	var base strings.Builder
	for i := 0; i < 101; i++ {
		fmt.Fprintf(&base, `{"id": %d, "tags": [], "o": {}, "v": 1, "n": null, "l": [1], "nest": {"a": []}, "s": "x"}`+"\n", i)
	}
	for k, late := range c07DriftJSON {
		files[fmt.Sprintf("drift%d.json", k)] = base.String() + late + "\n" + `{"id": 201, "tags": [], "o": {}, "v": 1, "n": null, "l": [1], "nest": {"a": []}, "s": "x"}` + "\n"
	}
	var cb strings.Builder
	cb.WriteString("id,a,s,b\n")
	for i := 0; i < 101; i++ {
		fmt.Fprintf(&cb, "%d,1,x,true\n", i)
	}
	for k, late := range c07DriftCSV {
		files[fmt.Sprintf("drift%d.csv", k)] = cb.String() + late + "\n201,1,x,true\n"
	}
	return files
}

var identRe = regexp.MustCompile(`^[a-z_][a-z0-9_]*$`)

func genC07(g *Gen, tier string, w *bufio.Writer) {
	emit := func(sql string) {
		mode := Pick(g, allModes)
		opt, desc := "1", "0"
		if g.Chance(1, 5) {
			opt = "0"
		}
		if g.Chance(1, 12) {
			desc = "1"
		}
		fmt.Fprintf(w, "fuzz %s %s %s SQL %s\n", mode, opt, desc, hex.EncodeToString([]byte(sql)))
	}
	for _, q := range c07Known {
		emit(q)
		for _, m := range []string{"csv", "json", "batch_table"} {
			fmt.Fprintf(w, "fuzz %s 1 0 SQL %s\n", m, hex.EncodeToString([]byte(q)))
		}
	}
	// interval arguments of the table valued functions in every unit and around the unit boundaries (sub-millisecond,
	// sub-microsecond): rounding code divides by them
	for _, unit := range []string{"NANOSECOND", "NANOSECONDS", "MICROSECOND", "MICROSECONDS", "MILLISECOND", "MILLISECONDS", "SECOND", "MINUTE", "HOUR", "DAY"} {
		for _, n := range []string{"1", "500", "999", "1000", "1001", "-1", "0"} {
			iv := "INTERVAL " + n + " " + unit
			for _, q := range []string{
				"SELECT id FROM max_diff_watermark(source => TABLE(j.json), max_diff => INTERVAL 1 SECOND, time_field => DESCRIPTOR(t), resolution => " + iv + ") q",
				"SELECT id FROM max_diff_watermark(source => TABLE(j.json), max_diff => " + iv + ", time_field => DESCRIPTOR(t)) q",
				"SELECT id FROM tumble(source => TABLE(j.json), window_length => " + iv + ", time_field => DESCRIPTOR(t)) q",
				"SELECT id FROM tumble(source => TABLE(j.json), window_length => INTERVAL 1 SECOND, time_field => DESCRIPTOR(t), offset => " + iv + ") q",
			} {
				if tier == "thorough" || g.Chance(1, 3) {
					fmt.Fprintf(w, "fuzz %s 1 0 SQL %s\n", Pick(g, []string{"csv", "json"}), hex.EncodeToString([]byte(q)))
				}
			}
		}
	}
	for k := range c07DriftJSON {
		for _, q := range []string{"SELECT * FROM drift%d.json d", "SELECT id, tags, o, v, n, l, nest, s FROM drift%d.json d", "SELECT COUNT(*) FROM drift%d.json d",
			"SELECT tags[0], o->k, v + 1, l[0], nest->a, upper(s) FROM drift%d.json d", "SELECT id FROM drift%d.json d ORDER BY id DESC LIMIT 2"} {
			for _, m := range []string{"csv", "json"} {
				fmt.Fprintf(w, "fuzz %s 1 0 SQL %s\n", m, hex.EncodeToString([]byte(fmt.Sprintf(q, k))))
			}
		}
	}
	for k := range c07DriftCSV {
		for _, q := range []string{"SELECT * FROM drift%d.csv d", "SELECT a + 1, upper(s), NOT b FROM drift%d.csv d", "SELECT COUNT(*) FROM drift%d.csv d"} {
			fmt.Fprintf(w, "fuzz %s 1 0 SQL %s\n", Pick(g, []string{"csv", "json"}), hex.EncodeToString([]byte(fmt.Sprintf(q, k))))
		}
	}
	// every named function × edge arguments (columns carry the edge values at run time; literals too)
	fm := functions.FunctionMap()
	var names []string
	for n := range fm {
		if identRe.MatchString(n) {
			names = append(names, n)
		}
	}
	sort.Strings(names)
	args := []string{"i", "s", "f", "b", "n", "k", "0", "-1", "1", "9223372036854775807", "''", "'a'", "'%'", "'('", "0.5", "NULL", "true",
		"INTERVAL 0 SECONDS", "INTERVAL 1 HOUR", "time_from_unix(0)", "(1, 2)", "(i, s)"}
	per := 6
	if tier == "thorough" {
		per = 120
	}
	for _, n := range names {
		emit(fmt.Sprintf("SELECT %s() FROM t.csv t", n))
		for arity := 1; arity <= 3; arity++ {
			for c := 0; c < per; c++ {
				var as []string
				for a := 0; a < arity; a++ {
					as = append(as, Pick(g, args))
				}
				emit(fmt.Sprintf("SELECT %s(%s) AS r FROM t.csv t", n, strings.Join(as, ", ")))
			}
		}
	}
	// typed descriptors: the cross product of edge literals over the declared parameter types (capped per descriptor)
	edgeByType := map[octosql.TypeID][]string{
		octosql.TypeIDInt:      {"0", "1", "-1", "9223372036854775807", "(0 - 9223372036854775807 - 1)", "i"},
		octosql.TypeIDString:   {"''", "'abc'", "'żółw'", "s"},
		octosql.TypeIDFloat:    {"0.0", "-1.5", "f"},
		octosql.TypeIDBoolean:  {"true", "b"},
		octosql.TypeIDDuration: {"INTERVAL 0 SECONDS", "INTERVAL 1 HOUR"},
		octosql.TypeIDTime:     {"time_from_unix(0)", "time_from_unix(i)"},
	}
	capPer := 150
	if tier == "thorough" {
		capPer = 400
	}
	for _, n := range names {
		for _, d := range fm[n].Descriptors {
			if d.TypeFn != nil || len(d.ArgumentTypes) == 0 || len(d.ArgumentTypes) > 3 {
				continue
			}
			var pools [][]string
			for _, at := range d.ArgumentTypes {
				pool, ok := edgeByType[at.TypeID]
				if !ok {
					pool = []string{"s", "i", "NULL"}
				}
				pools = append(pools, pool)
			}
			total := 1
			for _, pl := range pools {
				total *= len(pl)
			}
			for c := 0; c < total && c < capPer; c++ {
				idx := c
				if total > capPer {
					idx = g.Intn(total)
				}
				var as []string
				for _, pl := range pools {
					as = append(as, pl[idx%len(pl)])
					idx /= len(pl)
				}
				emit(fmt.Sprintf("SELECT %s(%s) AS r FROM t.csv t", n, strings.Join(as, ", ")))
			}
		}
	}
	jargs := []string{"l", "o", "m", "t", "id", "l[0]", "o->x", "o->y", "m[0]", "m[0][0]"}
	for _, n := range names {
		for c := 0; c < per/2+1; c++ {
			emit(fmt.Sprintf("SELECT %s(%s) AS r FROM j.json t", n, Pick(g, jargs)))
			emit(fmt.Sprintf("SELECT %s(%s, %s) AS r FROM j.json t", n, Pick(g, jargs), Pick(g, append(jargs, "0", "-1", "'a'"))))
		}
	}
	// operators
	ops := []string{"+", "-", "*", " / ", "=", "!=", "<", "<=", ">", ">=", "AND", "OR", "LIKE", "~", "~*", "IN", "NOT IN", "||"}
	nops := 100
	if tier == "thorough" {
		nops = 3000
	}
	for c := 0; c < nops; c++ {
		a, b := Pick(g, args), Pick(g, args)
		op := Pick(g, ops)
		if strings.Contains(op, "IN") {
			b = "(" + b + ", " + Pick(g, args) + ")"
		}
		emit(fmt.Sprintf("SELECT (%s %s %s) AS r FROM t.csv t", a, op, b))
		emit(fmt.Sprintf("SELECT i FROM t.csv t WHERE %s %s %s", a, op, b))
	}
	// well-formed random queries and token mutations of everything above
	nq := 100
	if tier == "thorough" {
		nq = 4000
	}
	var pool []string
	pool = append(pool, c07Known...)
	for c := 0; c < nq; c++ {
		o := sqlGenOpts{fileFmt: "csv", simpleStr: true, maxRows: 3, maxDepth: 3, bigInts: true}
		t := genQTable(g, o)
		q := genQuery(g, o, t, "t.csv")
		// the generated query refers to columns c0.. of its own table; run it against t.csv's columns by renaming
		sql := q.sql
		for i, n := range []string{"i", "n", "k", "i"} {
			sql = strings.ReplaceAll(sql, fmt.Sprintf("c%d", i), n)
		}
		pool = append(pool, sql)
		emit(sql)
	}
	toks := []string{"SELECT", "FROM", "WHERE", "GROUP", "BY", "ORDER", "LIMIT", "JOIN", "ON", "LEFT", "LOOKUP", "(", ")", ",", "*", "NULL", "0", "-1", "''", "AS", "DISTINCT",
		"TRIGGER", "COUNTING", "->", "::", "[", "]", "=>", "TABLE", "DESCRIPTOR", "INTERVAL", "IN", "NOT", "AND", "count", "t.csv", "j.json", ".", "`", "'", "--", ";"}
	for c := 0; c < nq*2; c++ {
		parts := strings.Fields(Pick(g, pool))
		if len(parts) == 0 {
			continue
		}
		for m := 0; m <= g.Intn(3); m++ {
			i := g.Intn(len(parts))
			switch g.Intn(4) {
			case 0:
				parts = append(parts[:i], parts[i+1:]...)
			case 1:
				parts = append(parts[:i+1], parts[i:]...)
			case 2:
				parts[i] = Pick(g, toks)
			default:
				j := g.Intn(len(parts))
				parts[i], parts[j] = parts[j], parts[i]
			}
			if len(parts) == 0 {
				break
			}
		}
		emit(strings.Join(parts, " "))
	}
}

func driveFuzz(toks []string) string {
	mode, opt, desc := toks[1], toks[2], toks[3]
	sql := ""
	if len(toks) > 5 { // an empty query has an empty hex token
		b, _ := hex.DecodeString(toks[5])
		sql = string(b)
	}
	dir := scratchDir("fuzz")
	defer os.RemoveAll(dir)
	files := map[string]string{
		"t.csv": c07CSV, "j.json": c07JSON, "l.lines": "ab\ncabd\n\nxaby\n", "dup.csv": "a,a,b\n1,2,3\n", "ragged.csv": "a,b\n1\n1,2,3\n",
		"empty.csv": "", "empty.json": "", "bad.json": "{\"a\": 1}\n[1,2]\n{\"a\": {\"b\": 2}}\nnull\n",
	}
	if strings.Contains(sql, "drift") {
		for n, c := range c07DriftFiles() {
			files[n] = c
		}
	}
	for n, c := range files {
		os.WriteFile(filepath.Join(dir, n), []byte(c), 0o644)
	}
	args := []string{sql, "-o", mode}
	if opt == "0" {
		args = append(args, "--optimize=false")
	}
	if desc == "1" {
		args = append(args, "--describe")
	}
	res := runOctosql(dir, nil, args...)
	switch {
	case res.Panicked || res.Exit == 2:
		return "panic"
	case res.TimedOut:
		return "timeout"
	default:
		return "nopanic"
	}
}
