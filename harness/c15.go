package main

// C15 — operators keep a valid changelog and compute incrementally what batch computes.
// gen: valid changelogs (random interleavings of inserts and retractions of a generated multiset, with
// watermarks and event times) for every single-input node kind; drive: the real nodes (util_ops.go).

import (
	"bytes"
	"bufio"
	"fmt"
	"strings"
	"time"

	"github.com/cube2222/octosql/execution"
	"github.com/cube2222/octosql/octosql"
)

func init() {
	register("C15", &prop{gen: genC15WithTriggers, drive: driveC15})
}

// ---- row universes --------------------------------------------------------------------------------------------

// opsCol draws one cell. Classes that compare equal but are different representatives (+0/-0, NaNs, the same
// instant in two locations) are included on purpose: the nodes identify rows by Compare == 0.
func opsCell(g *Gen, kind int) octosql.Value {
	switch kind {
	case 0: // small ints and NULL
		if g.Chance(1, 6) {
			return octosql.NewNull()
		}
		return octosql.NewInt(int64(g.Intn(4)))
	case 1: // mixed scalars with equal-but-different representatives
		switch g.Intn(9) {
		case 0:
			return octosql.NewNull()
		case 1:
			return f64(0)
		case 2:
			return f64(0x8000000000000000)
		case 3:
			return f64(0x7FF8000000000001)
		case 4:
			return f64(0xFFF8000000000123)
		case 5:
			return octosql.NewString(Pick(g, []string{"", "a", "b"}))
		case 6:
			return octosql.NewBoolean(g.Bool())
		case 7:
			return octosql.NewTime(time.Unix(0, int64(g.Intn(3))).In(locOf(g.Intn(2))))
		default:
			return octosql.NewInt(int64(g.Intn(3)))
		}
	case 2: // booleans and NULL (predicate columns)
		if g.Chance(1, 5) {
			return octosql.NewNull()
		}
		return octosql.NewBoolean(g.Bool())
	case 3: // lists (unnest)
		if g.Chance(1, 8) {
			return octosql.NewInt(7) // not a list: `.List` is nil
		}
		n := g.Intn(4)
		xs := make([]octosql.Value, n)
		for i := range xs {
			xs[i] = octosql.NewInt(int64(g.Intn(3)))
		}
		return octosql.NewList(xs)
	case 4: // times (event-time keys)
		return octosql.NewTime(time.Unix(0, int64(1+g.Intn(6))*10).In(locOf(g.Intn(2))))
	}
	return octosql.NewNull()
}

// variant returns a value that compares equal to v, sometimes a different representative.
func opsVariant(g *Gen, v octosql.Value) octosql.Value {
	if !g.Chance(1, 3) {
		return v
	}
	switch v.TypeID {
	case octosql.TypeIDFloat:
		if v.Float != v.Float { // NaN
			return Pick(g, []octosql.Value{f64(0x7FF8000000000001), f64(0xFFF8000000000123)})
		}
		if v.Float == 0 {
			return Pick(g, []octosql.Value{f64(0), f64(0x8000000000000000)})
		}
	case octosql.TypeIDTime:
		return octosql.NewTime(v.Time.In(locOf(g.Intn(2))))
	}
	return v
}

type opsStream struct {
	msgs    []Msg
	hasRetr bool
}

// etMode: 0 = all zero event times, 1 = event time is a function of the row, 2 = arbitrary non-late event times
// genChangelog produces a VALID changelog over rows with the given column kinds.
func genChangelog(g *Gen, cols []int, n int, etMode int, retractions bool, wms bool) opsStream {
	var s opsStream
	var present [][]octosql.Value
	var pool [][]octosql.Value
	np := 1 + g.Intn(4)
	for i := 0; i < np; i++ {
		row := make([]octosql.Value, len(cols))
		for j, k := range cols {
			row[j] = opsCell(g, k)
		}
		pool = append(pool, row)
	}
	lastWm := int64(0)
	etOf := func(row []octosql.Value) time.Time {
		switch etMode {
		case 0:
			return time.Time{}
		case 1:
			// a function of the row's identity (Compare-equal rows get the same event time)
			h := int64(0)
			for _, v := range row {
				switch v.TypeID {
				case octosql.TypeIDInt:
					h = h*7 + v.Int + 1
				case octosql.TypeIDTime:
					h = h*7 + v.Time.UnixNano()
				case octosql.TypeIDNull:
					h = h * 7
				case octosql.TypeIDBoolean:
					if v.Boolean {
						h = h*7 + 2
					} else {
						h = h*7 + 1
					}
				case octosql.TypeIDString:
					h = h*7 + int64(len(v.Str)) + 3
				default:
					h = h*7 + 5
				}
			}
			if h%5 == 0 {
				return time.Time{}
			}
			return time.Unix(0, 1000+(h%13)*10).UTC()
		default:
			if g.Chance(1, 4) {
				return time.Time{}
			}
			return time.Unix(0, lastWm+1+int64(g.Intn(30))).UTC()
		}
	}
	for len(s.msgs) < n {
		switch {
		case wms && g.Chance(1, 6):
			if etMode == 1 {
				lastWm = 1000 + int64(g.Intn(140))
				// keep watermarks monotone
				for _, m := range s.msgs {
					if m.IsWM && m.WM.UnixNano() > lastWm {
						lastWm = m.WM.UnixNano()
					}
				}
			} else {
				lastWm += int64(g.Intn(20))
			}
			s.msgs = append(s.msgs, Msg{IsWM: true, WM: time.Unix(0, lastWm).UTC()})
		case retractions && len(present) > 0 && g.Chance(2, 5):
			i := g.Intn(len(present))
			row := present[i]
			present = append(present[:i:i], present[i+1:]...)
			v := make([]octosql.Value, len(row))
			for j := range row {
				v[j] = opsVariant(g, row[j])
			}
			s.hasRetr = true
			s.msgs = append(s.msgs, Msg{Rec: execution.Record{Values: v, Retraction: true, EventTime: etOf(row)}})
		default:
			var row []octosql.Value
			if g.Chance(3, 4) {
				row = Pick(g, pool)
			} else {
				row = make([]octosql.Value, len(cols))
				for j, k := range cols {
					row[j] = opsCell(g, k)
				}
				pool = append(pool, row)
			}
			v := make([]octosql.Value, len(row))
			for j := range row {
				v[j] = opsVariant(g, row[j])
			}
			present = append(present, row)
			s.msgs = append(s.msgs, Msg{Rec: execution.Record{Values: v, Retraction: false, EventTime: etOf(row)}})
		}
	}
	return s
}

func srcTokens(g *Gen, s opsStream, allowFail bool) string {
	f := "N"
	ms := s.msgs
	if allowFail && g.Chance(1, 12) {
		f = "F"
		ms = ms[:g.Intn(len(ms)+1)]
	}
	if len(ms) == 0 {
		return f
	}
	return f + " " + EncodeMsgs(ms)
}

func kv(v octosql.Value) string { return "K " + EncodeValue(v) }

// predicates over rows whose columns 0,1 are small ints / NULL and (if present) column 2 is boolean / NULL
func genPred(g *Gen, width int, depth int) string {
	c := func() string { return fmt.Sprintf("V0.%d", g.Intn(min(width, 2))) }
	k := g.Intn(9)
	if depth <= 0 && k >= 6 {
		k = g.Intn(6)
	}
	switch k {
	case 0:
		return "EQ " + c() + " " + kv(octosql.NewInt(int64(g.Intn(4))))
	case 1:
		return "LT " + c() + " " + kv(octosql.NewInt(int64(g.Intn(4))))
	case 2:
		return "LT V0.0 V0.1"
	case 3:
		return "EQ V0.0 V0.1"
	case 4:
		if width > 2 {
			return "V0.2"
		}
		return kv(octosql.NewBoolean(g.Bool()))
	case 5:
		return kv(Pick(g, []octosql.Value{octosql.NewBoolean(true), octosql.NewBoolean(false), octosql.NewNull(), octosql.NewInt(1)}))
	case 6:
		return "AND " + genPred(g, width, depth-1) + " " + genPred(g, width, depth-1)
	case 7:
		return "OR " + genPred(g, width, depth-1) + " " + genPred(g, width, depth-1)
	default:
		return "LT ADD V0.0 V0.1 " + kv(octosql.NewInt(int64(g.Intn(6))))
	}
}

func genMapExprs(g *Gen, width int) string {
	opts := []string{
		"1 V0.0", "1 V0.1", "2 V0.1 V0.0", "2 V0.0 " + kv(octosql.NewInt(5)), "2 ADD V0.0 V0.1 V0.0",
		"3 V0.0 V0.1 LT V0.0 V0.1", "2 V0.0 V0.1", "1 " + kv(octosql.NewNull()), "2 EQ V0.0 V0.1 V0.1",
		"0",
	}
	if width > 2 {
		opts = append(opts, "2 V0.2 V0.0", "3 V0.2 V0.1 V0.0", "2 AND V0.2 LT V0.0 V0.1 V0.1")
	}
	return Pick(g, opts)
}

func genGroupCfg(g *Gen, keyCols []string) string {
	nk := g.Intn(len(keyCols) + 1)
	if nk > 2 {
		nk = 2
	}
	var sb strings.Builder
	fmt.Fprintf(&sb, "%d", nk)
	perm := []int{0, 1}
	if g.Bool() {
		perm = []int{1, 0}
	}
	for i := 0; i < nk; i++ {
		sb.WriteString(" " + keyCols[perm[i]%len(keyCols)])
	}
	na := 1 + g.Intn(3)
	fmt.Fprintf(&sb, " %d", na)
	for i := 0; i < na; i++ {
		sb.WriteString(" " + Pick(g, []string{"count", "sum", "max"}) + " " + Pick(g, []string{"V0.0", "V0.1", "V0.1", "ADD V0.0 V0.1", kv(octosql.NewInt(1)), kv(octosql.NewNull())}))
	}
	return sb.String()
}

func genOrdCfg(g *Gen, hasRetr bool, width int) string {
	nk := g.Intn(3)
	var sb strings.Builder
	fmt.Fprintf(&sb, "%d", nk)
	for i := 0; i < nk; i++ {
		sb.WriteString(" " + Pick(g, []string{"V0.0", "V0.1", "ADD V0.0 V0.1", "V0." + fmt.Sprint(g.Intn(width))}) + " " + Pick(g, []string{"1", "-1"}))
	}
	lim := "none"
	if g.Chance(1, 2) {
		lim = fmt.Sprint(g.Intn(5))
	}
	noRetr := "0"
	if !hasRetr && g.Bool() {
		noRetr = "1"
	}
	return sb.String() + " " + lim + " " + noRetr
}

func genC15(g *Gen, tier string, w *bufio.Writer) {
	per := 220
	maxLen := 14
	if tier == "thorough" {
		per = 25000
		maxLen = 40
	}
	intCols := [][]int{{0, 0}, {0, 0, 2}, {0, 0}, {1, 0}, {1, 1}, {0, 1, 2}}
	for i := 0; i < per; i++ {
		n := 1 + g.Intn(maxLen)
		if g.Chance(1, 30) {
			n = 0
		}
		if tier == "thorough" && g.Chance(1, 40) {
			n = 100 + g.Intn(200)
		}
		cols := Pick(g, intCols)
		width := len(cols)
		etMode := g.Intn(3)
		mk := func(cols []int, etMode int, retr bool) opsStream {
			return genChangelog(g, cols, n, etMode, retr, g.Chance(2, 3))
		}
		s := mk(cols, etMode, true)

		// filter
		pred := genPred(g, width, 2)
		if g.Chance(1, 25) {
			pred = "LT AI V0.0 " + kv(octosql.NewInt(2)) // fails on a non-Int (NULL / float / string) cell
		}
		fmt.Fprintf(w, "filter %s | %s\n", pred, srcTokens(g, s, true))
		// map
		s = mk(cols, etMode, true)
		me := genMapExprs(g, width)
		if g.Chance(1, 25) {
			me = "2 V0.1 AI V0.0"
		}
		fmt.Fprintf(w, "map %s | %s\n", me, srcTokens(g, s, true))
		// distinct
		s = mk(cols, etMode, true)
		fmt.Fprintf(w, "distinct | %s\n", srcTokens(g, s, true))
		// unnest (list column at a random index)
		{
			ucols := []int{0, 0, 0}
			idx := g.Intn(3)
			ucols[idx] = 3
			ucols = ucols[:2+g.Intn(2)]
			if idx >= len(ucols) {
				idx = len(ucols) - 1
				ucols[idx] = 3
			}
			s = mk(ucols, etMode, true)
			fmt.Fprintf(w, "unnest %d | %s\n", idx, srcTokens(g, s, true))
		}
		// limit
		s = mk(cols, etMode, true)
		fmt.Fprintf(w, "limit %d | %s\n", g.Intn(n+3), srcTokens(g, s, true))
		// event time buffer (mode 1: event time is a function of the row; mode 2: arbitrary)
		etbMode := func() int {
			if g.Chance(1, 6) {
				return 2
			}
			return 1
		}
		s = mk(cols, etbMode(), true)
		fmt.Fprintf(w, "etbuf | %s\n", srcTokens(g, s, true))
		// simple group by
		s = mk(cols, etMode, true)
		gcfg := genGroupCfg(g, []string{"V0.0", "V0.1"})
		if g.Chance(1, 30) {
			gcfg = "1 AI V0.0 1 count V0.1"
		}
		fmt.Fprintf(w, "sgroup %s | %s\n", gcfg, srcTokens(g, s, true))
		// custom trigger group by with the end-of-stream trigger; sometimes keyed by an event-time column
		if g.Bool() {
			s = mk([]int{4, 0}, etbMode(), true)
			na := 1 + g.Intn(2)
			cfg := fmt.Sprintf("0 1 V0.0 %d", na)
			for j := 0; j < na; j++ {
				cfg += " " + Pick(g, []string{"count", "sum", "max"}) + " V0.1"
			}
			fmt.Fprintf(w, "cgroup %s | %s\n", cfg, srcTokens(g, s, true))
		} else {
			s = mk(cols, Pick(g, []int{0, 1, 1, 1, 2}), true)
			fmt.Fprintf(w, "cgroup -1 %s | %s\n", genGroupCfg(g, []string{"V0.0", "V0.1"}), srcTokens(g, s, true))
		}
		// lookup join: joined side = Filter over a scripted source, predicate sees the source record at level 1
		{
			s = mk(cols, etMode, true)
			jn := g.Intn(5)
			js := genChangelog(g, []int{0, 0}, jn, 0, g.Chance(1, 2), g.Chance(1, 10))
			jpred := Pick(g, []string{"EQ V0.0 V1.0", "EQ V0.0 V1.0", "EQ V0.1 V1.1", kv(octosql.NewBoolean(true)), "LT V1.0 V0.0", "AND EQ V0.0 V1.0 LT V0.1 V1.1"})
			fmt.Fprintf(w, "lookup %s %s ] | %s\n", jpred, srcTokens(g, js, true), srcTokens(g, s, true))
		}
		// order by (+ limit)
		s = mk(cols, etMode, g.Chance(2, 3))
		fmt.Fprintf(w, "orderby %s | %s\n", genOrdCfg(g, s.hasRetr, width), srcTokens(g, s, true))
		// the batch printer's bookkeeping; sometimes an INVALID changelog (one extra retraction) — it must panic
		s = mk(cols, etMode, g.Chance(2, 3))
		cfgp := genOrdCfg(g, s.hasRetr, width)
		if g.Chance(1, 8) && len(s.msgs) > 0 {
			bad := Pick(g, s.msgs)
			if !bad.IsWM {
				bad.Rec.Retraction = true
				at := g.Intn(len(s.msgs) + 1)
				ms := append(append(append([]Msg(nil), s.msgs[:at]...), bad), s.msgs[at:]...)
				s.msgs = ms
				s.hasRetr = true
				cfgp = cfgp[:len(cfgp)-1] + "0" // noRetractionsPossible must be false
			}
		}
		fmt.Fprintf(w, "printer %s | %s\n", cfgp, srcTokens(g, s, false))
		// small pipelines of error-free nodes
		if i%2 == 0 {
			s = mk([]int{0, 0}, etMode, true)
			k := 2 + g.Intn(2)
			var parts []string
			for j := 0; j < k; j++ {
				c := g.Intn(7)
				if c == 4 && j < k-1 {
					// hash-map iteration order: SimpleGroupBy only as the last node, or followed by a total ORDER BY
					parts = append(parts, "sgroup 1 V0.0 1 "+Pick(g, []string{"count", "sum", "max"})+" V0.1", "orderby 2 V0.0 1 V0.1 -1 none 0")
					k = j + 2
					break
				}
				switch c {
				case 0:
					parts = append(parts, "filter "+genPred(g, 2, 1))
				case 1:
					parts = append(parts, "map "+Pick(g, []string{"2 V0.1 V0.0", "2 V0.0 "+kv(octosql.NewInt(1)), "2 ADD V0.0 V0.1 V0.0", "2 V0.0 V0.0"}))
				case 2:
					parts = append(parts, "distinct")
				case 3:
					parts = append(parts, fmt.Sprintf("limit %d", 1+g.Intn(6)))
				case 4:
					parts = append(parts, "sgroup 1 V0.0 1 "+Pick(g, []string{"count", "sum", "max"})+" V0.1")
				case 5:
					parts = append(parts, "orderby 1 V0.0 "+Pick(g, []string{"1", "-1"})+" none 0")
				default:
					parts = append(parts, "etbuf")
				}
			}
			fmt.Fprintf(w, "pipe %d %s | %s\n", k, strings.Join(parts, " "), srcTokens(g, s, true))
		}
	}
}


// The group-by node under early-firing triggers (COUNTING n, ON WATERMARK, combinations) is part of C15's "group by"
// too: a sample of the C16 generator's streams is replayed here and judged by the same oracle (consolidated output =
// batch GROUP BY, for every trigger configuration).
func genC15WithTriggers(g *Gen, tier string, w *bufio.Writer) {
	genC15(g, tier, w)
	var buf bytes.Buffer
	bw := bufio.NewWriter(&buf)
	genC16(g, tier, bw)
	bw.Flush()
	every := 8
	for i, line := range strings.Split(buf.String(), "\n") {
		if line != "" && i%every == 0 {
			w.WriteString(line)
			w.WriteByte('\n')
		}
	}
	// stream join / outer join (also "operators" of C15): a sample of C19's (scripts, interleaving) lines, judged by
	// C19's oracle (consolidated output = join of the consolidated inputs)
	buf.Reset()
	bw = bufio.NewWriter(&buf)
	genC19(g, tier, bw)
	bw.Flush()
	for i, line := range strings.Split(buf.String(), "\n") {
		if line != "" && i%6 == 3 {
			w.WriteString(line)
			w.WriteByte('\n')
		}
	}
}

func driveC15(toks []string) string {
	if toks[0] == "gb" || toks[0] == "sgb" {
		return driveTrigProps(toks)
	}
	if toks[0] == "sj" || toks[0] == "oj" {
		return driveC19(toks)
	}
	return driveOps(toks)
}
