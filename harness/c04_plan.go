package main

// C04, planning half: SQL text -> real parser -> logical plan -> Typecheck -> physical plan, exactly the way
// cmd/root.go RunE does it (same environment: aggregates, functions, file handlers, table valued functions), and a
// dumper that prints a physical.Node as a prefix-token s-expression (grammar in lean/Octo/Drv/PlanCodec.lean).
//
//   plan   := ds <schema> <name> <alias> <policy> <npreds> expr* <nmap> (<unique> <col>)*
//           | distinct <schema> plan | filter <schema> expr plan
//           | groupby <schema> <naggs> name* <nexprs> expr* <nkey> expr* <keyEventTimeIndex> <trigger> plan
//           | sjoin <schema> <nl> expr* <nr> expr* plan plan | ljoin <schema> plan plan
//           | map <schema> <n> expr* plan | unnest <schema> <field> plan | mem <schema> <nrecords>
//           | tvf <schema> <name> <nargs> (<argname> (e expr | t plan | d <descriptor>))*        (sorted by argname)
//           | ojoin <schema> <isLeft> <isRight> <nl> expr* <nr> expr* plan plan
//           | ost <schema> <nkeys> expr* <nmults> int* (L expr | -) plan
//   schema := S<k> name*k <timeField> <noRetractions 0|1>
//   expr   := var <name> <isLevel0 0|1> | const <value> | call <fn> <k> expr* | and <k> expr* | or <k> expr*
//           | coalesce <k> expr* | tuple <k> expr* | assert <k> typeid*k expr | cast <typeid> expr
//           | field <name> <index> expr
//   name   := the text itself when it is non-empty and made of [A-Za-z0-9_.=<>!+*/%-] ; otherwise h:<hex>
// A QueryExpression (subquery in expression position) is outside the model: the dumper fails closed.

import (
	"context"
	"encoding/hex"
	"fmt"
	"sort"
	"strconv"
	"strings"

	"github.com/cube2222/octosql/aggregates"
	"github.com/cube2222/octosql/config"
	"github.com/cube2222/octosql/datasources/csv"
	"github.com/cube2222/octosql/datasources/json"
	"github.com/cube2222/octosql/functions"
	"github.com/cube2222/octosql/logical"
	"github.com/cube2222/octosql/octosql"
	"github.com/cube2222/octosql/parser"
	"github.com/cube2222/octosql/parser/sqlparser"
	"github.com/cube2222/octosql/physical"
	"github.com/cube2222/octosql/table_valued_functions"
)

func c04Ctx() context.Context {
	cfg := &config.Config{}
	cfg.Files.BufferSizeBytes = 4096
	cfg.Files.JSON.MaxLineSizeBytes = 1 << 20
	return config.ContextWithConfig(context.Background(), cfg)
}

var c04FunctionMap = functions.FunctionMap()

func c04PhysEnv() physical.Environment {
	fileHandlers := map[string]func(ctx context.Context, name string, options map[string]string) (physical.DatasourceImplementation, physical.Schema, error){
		"csv":  csv.Creator(','),
		"json": json.Creator,
		"tsv":  csv.Creator('\t'),
	}
	return physical.Environment{
		Aggregates: aggregates.Aggregates,
		Functions:  c04FunctionMap,
		Datasources: &physical.DatasourceRepository{
			Databases:    map[string]func() (physical.Database, error){},
			FileHandlers: fileHandlers,
		},
	}
}

type c04Planned struct {
	node    physical.Node
	mapping map[string]string
	// outermost ORDER BY / LIMIT (handled by cmd/root.go outside the physical plan)
	orderBy []physical.Expression
	dirs    []logical.OrderDirection
	limit   *physical.Expression
}

// c04PlanSQL mirrors cmd/root.go RunE from sqlparser.Parse to the typechecked physical plan. Files are resolved
// relative to the current directory (the caller chdir-s into the op's scratch directory).
func c04PlanSQL(sql string) (out c04Planned, err error) {
	defer func() {
		if r := recover(); r != nil {
			err = fmt.Errorf("typecheck error: %v", r)
		}
	}()
	ctx := c04Ctx()
	env := c04PhysEnv()
	statement, err := sqlparser.Parse(sql)
	if err != nil {
		return out, fmt.Errorf("couldn't parse query: %w", err)
	}
	selectStmt, ok := statement.(sqlparser.SelectStatement)
	if !ok {
		return out, fmt.Errorf("only SELECT statements are supported")
	}
	logicalPlan, outputOptions, err := parser.ParseNode(selectStmt)
	if err != nil {
		return out, fmt.Errorf("couldn't parse query: %w", err)
	}
	tvfs := map[string]logical.TableValuedFunctionDescription{
		"max_diff_watermark": table_valued_functions.MaxDiffWatermark,
		"tumble":             table_valued_functions.Tumble,
		"range":              table_valued_functions.Range,
		"poll":               table_valued_functions.Poll,
	}
	uniq := map[string]int{}
	node, mapping := logicalPlan.Typecheck(ctx, env, logical.Environment{
		CommonTableExpressions: map[string]logical.CommonTableExpression{},
		TableValuedFunctions:   tvfs,
		UniqueNameGenerator:    uniq,
	})
	out.node, out.mapping = node, mapping
	for i := range outputOptions.OrderByExpressions {
		e := outputOptions.OrderByExpressions[i].Typecheck(ctx, env.WithRecordSchema(node.Schema), logical.Environment{
			CommonTableExpressions: map[string]logical.CommonTableExpression{},
			TableValuedFunctions:   tvfs,
			UniqueVariableNames:    &logical.VariableMapping{Mapping: mapping},
			UniqueNameGenerator:    uniq,
		})
		out.orderBy = append(out.orderBy, e)
	}
	out.dirs = outputOptions.OrderByDirections
	if outputOptions.Limit != nil {
		e := (*outputOptions.Limit).Typecheck(ctx, env.WithRecordSchema(node.Schema), logical.Environment{
			CommonTableExpressions: map[string]logical.CommonTableExpression{},
			TableValuedFunctions:   tvfs,
			UniqueVariableNames:    &logical.VariableMapping{Mapping: mapping},
			UniqueNameGenerator:    uniq,
		})
		out.limit = &e
	}
	return out, nil
}

// ---- dumper

type c04Unsupported struct{ what string }

func encName(s string) string {
	ok := s != "" && !strings.HasPrefix(s, "h:")
	for i := 0; ok && i < len(s); i++ {
		c := s[i]
		switch {
		case c >= 'a' && c <= 'z', c >= 'A' && c <= 'Z', c >= '0' && c <= '9':
		case strings.IndexByte("_.=<>!+*/%-", c) >= 0:
		default:
			ok = false
		}
	}
	if ok {
		return s
	}
	return "h:" + hex.EncodeToString([]byte(s))
}

func decName(s string) string {
	if strings.HasPrefix(s, "h:") {
		b, err := hex.DecodeString(s[2:])
		if err != nil {
			panic(err)
		}
		return string(b)
	}
	return s
}

type planDumper struct {
	out []string
	// policy of a datasource implementation (how it answers PushDownPredicates)
	policy func(physical.DatasourceImplementation) string
}

func (d *planDumper) w(toks ...string) { d.out = append(d.out, toks...) }

func (d *planDumper) schema(s physical.Schema) {
	d.w("S" + strconv.Itoa(len(s.Fields)))
	for _, f := range s.Fields {
		d.w(encName(f.Name))
	}
	nr := "0"
	if s.NoRetractions {
		nr = "1"
	}
	d.w(strconv.Itoa(s.TimeField), nr)
}

func (d *planDumper) exprs(es []physical.Expression) {
	d.w(strconv.Itoa(len(es)))
	for i := range es {
		d.expr(es[i])
	}
}

func (d *planDumper) expr(e physical.Expression) {
	switch e.ExpressionType {
	case physical.ExpressionTypeVariable:
		l := "0"
		if e.Variable.IsLevel0 {
			l = "1"
		}
		d.w("var", encName(e.Variable.Name), l)
	case physical.ExpressionTypeConstant:
		d.w("const")
		d.w(strings.Fields(EncodeValue(e.Constant.Value))...)
	case physical.ExpressionTypeFunctionCall:
		d.w("call", encName(e.FunctionCall.Name))
		d.exprs(e.FunctionCall.Arguments)
	case physical.ExpressionTypeAnd:
		d.w("and")
		d.exprs(e.And.Arguments)
	case physical.ExpressionTypeOr:
		d.w("or")
		d.exprs(e.Or.Arguments)
	case physical.ExpressionTypeCoalesce:
		d.w("coalesce")
		d.exprs(e.Coalesce.Arguments)
	case physical.ExpressionTypeTuple:
		d.w("tuple")
		d.exprs(e.Tuple.Arguments)
	case physical.ExpressionTypeTypeAssertion:
		// the type ids Materialize hands to execution.NewTypeAssertion
		t := e.TypeAssertion.TargetType
		var ids []octosql.TypeID
		if t.TypeID != octosql.TypeIDUnion {
			ids = []octosql.TypeID{t.TypeID}
		} else {
			for _, a := range t.Union.Alternatives {
				ids = append(ids, a.TypeID)
			}
		}
		d.w("assert", strconv.Itoa(len(ids)))
		for _, id := range ids {
			d.w(strconv.Itoa(int(id)))
		}
		d.expr(e.TypeAssertion.Expression)
	case physical.ExpressionTypeTypeCast:
		d.w("cast", strconv.Itoa(int(e.TypeCast.TargetTypeID)))
		d.expr(e.TypeCast.Expression)
	case physical.ExpressionTypeObjectFieldAccess:
		// the field index Materialize computes
		ot := e.ObjectFieldAccess.Object.Type
		fields := ot.Struct.Fields
		if ot.TypeID == octosql.TypeIDUnion {
			fields = ot.Union.Alternatives[1].Struct.Fields
		}
		idx := 0
		for i, f := range fields {
			if f.Name == e.ObjectFieldAccess.Field {
				idx = i
				break
			}
		}
		d.w("field", encName(e.ObjectFieldAccess.Field), strconv.Itoa(idx))
		d.expr(e.ObjectFieldAccess.Object)
	default:
		panic(c04Unsupported{"expression " + e.ExpressionType.String()})
	}
}

func triggerName(t physical.Trigger) string {
	switch t.TriggerType {
	case physical.TriggerTypeEndOfStream:
		return "eos"
	case physical.TriggerTypeCounting:
		return "counting:" + strconv.Itoa(int(t.CountingTrigger.TriggerAfter))
	case physical.TriggerTypeWatermark:
		return "watermark:" + strconv.Itoa(t.WatermarkTrigger.TimeFieldIndex)
	case physical.TriggerTypeMulti:
		parts := make([]string, len(t.MultiTrigger.Triggers))
		for i := range t.MultiTrigger.Triggers {
			parts[i] = triggerName(t.MultiTrigger.Triggers[i])
		}
		return "multi(" + strings.Join(parts, ",") + ")"
	}
	return "trigger?"
}

func (d *planDumper) node(n physical.Node) {
	switch n.NodeType {
	case physical.NodeTypeDatasource:
		d.w("ds")
		d.schema(n.Schema)
		pol := "none"
		if d.policy != nil {
			pol = d.policy(n.Datasource.DatasourceImplementation)
		}
		d.w(encName(n.Datasource.Name), encName(n.Datasource.Alias), pol)
		d.exprs(n.Datasource.Predicates)
		// unique name -> column name, as Materialize derives it
		type kv struct{ u, c string }
		var m []kv
		for k, v := range n.Datasource.VariableMapping {
			m = append(m, kv{v, strings.TrimPrefix(k, n.Datasource.Alias+".")})
		}
		sort.Slice(m, func(i, j int) bool { return m[i].u < m[j].u })
		d.w(strconv.Itoa(len(m)))
		for _, e := range m {
			d.w(encName(e.u), encName(e.c))
		}
	case physical.NodeTypeDistinct:
		d.w("distinct")
		d.schema(n.Schema)
		d.node(n.Distinct.Source)
	case physical.NodeTypeFilter:
		d.w("filter")
		d.schema(n.Schema)
		d.expr(n.Filter.Predicate)
		d.node(n.Filter.Source)
	case physical.NodeTypeGroupBy:
		d.w("groupby")
		d.schema(n.Schema)
		d.w(strconv.Itoa(len(n.GroupBy.Aggregates)))
		for _, a := range n.GroupBy.Aggregates {
			d.w(encName(a.Name))
		}
		d.exprs(n.GroupBy.AggregateExpressions)
		d.exprs(n.GroupBy.Key)
		d.w(strconv.Itoa(n.GroupBy.KeyEventTimeIndex), triggerName(n.GroupBy.Trigger))
		d.node(n.GroupBy.Source)
	case physical.NodeTypeStreamJoin:
		d.w("sjoin")
		d.schema(n.Schema)
		d.exprs(n.StreamJoin.LeftKey)
		d.exprs(n.StreamJoin.RightKey)
		d.node(n.StreamJoin.Left)
		d.node(n.StreamJoin.Right)
	case physical.NodeTypeLookupJoin:
		d.w("ljoin")
		d.schema(n.Schema)
		d.node(n.LookupJoin.Source)
		d.node(n.LookupJoin.Joined)
	case physical.NodeTypeMap:
		d.w("map")
		d.schema(n.Schema)
		d.exprs(n.Map.Expressions)
		d.node(n.Map.Source)
	case physical.NodeTypeTableValuedFunction:
		d.w("tvf")
		d.schema(n.Schema)
		d.w(encName(n.TableValuedFunction.Name))
		var names []string
		for k := range n.TableValuedFunction.Arguments {
			names = append(names, k)
		}
		sort.Strings(names)
		d.w(strconv.Itoa(len(names)))
		for _, k := range names {
			a := n.TableValuedFunction.Arguments[k]
			d.w(encName(k))
			switch a.TableValuedFunctionArgumentType {
			case physical.TableValuedFunctionArgumentTypeExpression:
				d.w("e")
				d.expr(a.Expression.Expression)
			case physical.TableValuedFunctionArgumentTypeTable:
				d.w("t")
				d.node(a.Table.Table)
			case physical.TableValuedFunctionArgumentTypeDescriptor:
				d.w("d", encName(a.Descriptor.Descriptor))
			}
		}
	case physical.NodeTypeUnnest:
		d.w("unnest")
		d.schema(n.Schema)
		d.w(encName(n.Unnest.Field))
		d.node(n.Unnest.Source)
	case physical.NodeTypeInMemoryRecords:
		d.w("mem")
		d.schema(n.Schema)
		d.w(strconv.Itoa(len(n.InMemoryRecords.Records)))
	case physical.NodeTypeOuterJoin:
		d.w("ojoin")
		d.schema(n.Schema)
		b := func(x bool) string {
			if x {
				return "1"
			}
			return "0"
		}
		d.w(b(n.OuterJoin.IsLeft), b(n.OuterJoin.IsRight))
		d.exprs(n.OuterJoin.LeftKey)
		d.exprs(n.OuterJoin.RightKey)
		d.node(n.OuterJoin.Left)
		d.node(n.OuterJoin.Right)
	case physical.NodeTypeOrderSensitiveTransform:
		d.w("ost")
		d.schema(n.Schema)
		d.exprs(n.OrderSensitiveTransform.OrderByKey)
		d.w(strconv.Itoa(len(n.OrderSensitiveTransform.OrderByDirectionMultipliers)))
		for _, m := range n.OrderSensitiveTransform.OrderByDirectionMultipliers {
			d.w(strconv.Itoa(m))
		}
		if n.OrderSensitiveTransform.Limit != nil {
			d.w("L")
			d.expr(*n.OrderSensitiveTransform.Limit)
		} else {
			d.w("-")
		}
		d.node(n.OrderSensitiveTransform.Source)
	default:
		panic(c04Unsupported{"node " + n.NodeType.String()})
	}
}

// c04Dump returns the token dump of a plan, or ok=false when the plan contains a construct outside the model.
func c04Dump(n physical.Node, policy func(physical.DatasourceImplementation) string) (s string, ok bool) {
	defer func() {
		if r := recover(); r != nil {
			if _, is := r.(c04Unsupported); is {
				s, ok = "", false
				return
			}
			panic(r)
		}
	}()
	d := &planDumper{policy: policy}
	d.node(n)
	return strings.Join(d.out, " "), true
}
