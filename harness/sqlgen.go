package main

// Type-directed generator of single-source SELECT queries and tables (C01, C04, C05, C06, C07).
// Every query is produced twice in lock-step: as SQL text for the real binary and as the prefix
// token encoding that lean/Octo/Drv/SqlCodec.lean parses (see the grammar there).

import (
	"encoding/hex"
	"fmt"
	"math"
	"strconv"
	"strings"

	"github.com/cube2222/octosql/octosql"
)

type qcol struct {
	name     string
	kind     byte // i f b s
	nullable bool
}

type qexpr struct {
	kind     byte
	nullable bool
	tok, sql string
}

type qtable struct {
	cols []qcol
	rows [][]octosql.Value
}

var richStrings = []string{"x", "xa", "xb", "Xa", "x y", "x,y", "x\"q", "żółw", "x\ny", "x|y", "x'"}
var simpleStrings = []string{"x", "xa", "xb", "Xa", "xy", "q", "zz"}
var litStrings = []string{"x", "xa", "Xa", "q"}
var quarterFloats = []float64{-1.5, math.Copysign(0, -1), 0, 0.25, 1, 2.5, 1, 0.25}
var smallInts = []int64{-2, -1, 0, 1, 2, 3, 1, 2}

type sqlGenOpts struct {
	fileFmt      string // csv | json
	simpleStr    bool   // strings safe for table / stream_native parsing
	maxRows      int
	maxDepth     int
	bigInts      bool
	forceLimit   bool // every block gets LIMIT (C05)
	noProjection bool
}

func genQTable(g *Gen, o sqlGenOpts) qtable {
	ncols := 1 + g.Intn(4)
	kinds := []byte{'i', 'i', 'f', 's', 's', 'b'}
	if o.fileFmt == "json" {
		kinds = []byte{'f', 'f', 's', 's', 'b'}
	}
	t := qtable{}
	for i := 0; i < ncols; i++ {
		t.cols = append(t.cols, qcol{name: fmt.Sprintf("c%d", i), kind: Pick(g, kinds), nullable: g.Chance(1, 2)})
	}
	nrows := 1 + g.Intn(o.maxRows)
	pool := richStrings
	if o.simpleStr {
		pool = simpleStrings
	}
	for r := 0; r < nrows; r++ {
		row := make([]octosql.Value, ncols)
		for i, c := range t.cols {
			// row 0 is never NULL so that the inferred column type is the intended one
			if c.nullable && r > 0 && g.Chance(1, 3) {
				row[i] = octosql.NewNull()
				continue
			}
			switch c.kind {
			case 'i':
				if o.bigInts && g.Chance(1, 8) {
					row[i] = octosql.NewInt(Pick(g, []int64{math.MaxInt64, math.MinInt64, math.MaxInt64 - 1}))
				} else {
					row[i] = octosql.NewInt(Pick(g, smallInts))
				}
			case 'f':
				row[i] = octosql.NewFloat(Pick(g, quarterFloats))
			case 'b':
				row[i] = octosql.NewBoolean(g.Bool())
			default:
				row[i] = octosql.NewString(Pick(g, pool))
			}
		}
		// duplicates are frequent
		if r > 0 && g.Chance(1, 4) {
			copy(row, t.rows[g.Intn(r)])
		}
		t.rows = append(t.rows, row)
	}
	// a nullable column that drew no NULL is simply non-null in the file; fine.
	return t
}

func (t qtable) encode() string {
	var sb strings.Builder
	fmt.Fprintf(&sb, "T %d %d", len(t.cols), len(t.rows))
	for _, r := range t.rows {
		for _, v := range r {
			sb.WriteByte(' ')
			sb.WriteString(EncodeValue(v))
		}
	}
	return sb.String()
}

func colsOfKind(cols []qcol, kind byte) []int {
	var out []int
	for i, c := range cols {
		if c.kind == kind {
			out = append(out, i)
		}
	}
	return out
}

func genScalar(g *Gen, cols []qcol, kind byte, depth int) qexpr {
	idx := colsOfKind(cols, kind)
	useCol := len(idx) > 0 && g.Chance(3, 5)
	if kind == 'i' && depth > 0 && g.Chance(2, 5) {
		a, b := genScalar(g, cols, 'i', depth-1), genScalar(g, cols, 'i', depth-1)
		op := Pick(g, []string{"+", "-", "*"})
		return qexpr{kind: 'i', nullable: a.nullable || b.nullable, tok: op + " " + a.tok + " " + b.tok, sql: "(" + a.sql + " " + op + " " + b.sql + ")"}
	}
	if useCol {
		i := Pick(g, idx)
		return qexpr{kind: kind, nullable: cols[i].nullable, tok: fmt.Sprintf("c%d", i), sql: cols[i].name}
	}
	switch kind {
	case 'i':
		v := int64(g.Intn(4))
		if g.Chance(1, 10) {
			v = math.MaxInt64
		}
		return qexpr{kind: 'i', tok: "v " + EncodeValue(octosql.NewInt(v)), sql: strconv.FormatInt(v, 10)}
	case 'f':
		f := Pick(g, []float64{0.25, 1.5, 2.5})
		return qexpr{kind: 'f', tok: "v " + EncodeValue(octosql.NewFloat(f)), sql: strconv.FormatFloat(f, 'f', -1, 64)}
	case 's':
		s := Pick(g, litStrings)
		return qexpr{kind: 's', tok: "v " + EncodeValue(octosql.NewString(s)), sql: "'" + s + "'"}
	default:
		return genBool(g, cols, depth)
	}
}

func genBool(g *Gen, cols []qcol, depth int) qexpr {
	k := g.Intn(10)
	if depth <= 0 && k >= 6 {
		k = g.Intn(6)
	}
	switch {
	case k < 4: // comparison
		kind := Pick(g, []byte{'i', 'i', 'f', 's'})
		if len(colsOfKind(cols, kind)) == 0 {
			kind = cols[g.Intn(len(cols))].kind
			if kind == 'b' {
				kind = 'i'
			}
		}
		a, b := genScalar(g, cols, kind, depth-1), genScalar(g, cols, kind, depth-1)
		op := Pick(g, []string{"=", "!=", "<", "<=", ">", ">="})
		return qexpr{kind: 'b', nullable: a.nullable || b.nullable, tok: op + " " + a.tok + " " + b.tok, sql: "(" + a.sql + " " + op + " " + b.sql + ")"}
	case k < 5: // IS [NOT] NULL
		i := g.Intn(len(cols))
		if g.Bool() {
			return qexpr{kind: 'b', tok: fmt.Sprintf("isnull c%d", i), sql: "(" + cols[i].name + " IS NULL)"}
		}
		return qexpr{kind: 'b', tok: fmt.Sprintf("notnull c%d", i), sql: "(" + cols[i].name + " IS NOT NULL)"}
	case k < 6: // boolean column or literal
		idx := colsOfKind(cols, 'b')
		if len(idx) > 0 {
			i := Pick(g, idx)
			return qexpr{kind: 'b', nullable: cols[i].nullable, tok: fmt.Sprintf("c%d", i), sql: cols[i].name}
		}
		if g.Bool() {
			return qexpr{kind: 'b', tok: "v b1", sql: "true"}
		}
		return qexpr{kind: 'b', tok: "v b0", sql: "false"}
	case k < 8:
		a, b := genBool(g, cols, depth-1), genBool(g, cols, depth-1)
		if g.Bool() {
			return qexpr{kind: 'b', nullable: a.nullable || b.nullable, tok: "and " + a.tok + " " + b.tok, sql: "(" + a.sql + " AND " + b.sql + ")"}
		}
		return qexpr{kind: 'b', nullable: a.nullable || b.nullable, tok: "or " + a.tok + " " + b.tok, sql: "(" + a.sql + " OR " + b.sql + ")"}
	default:
		a := genBool(g, cols, depth-1)
		return qexpr{kind: 'b', nullable: a.nullable, tok: "not " + a.tok, sql: "(NOT " + a.sql + ")"}
	}
}

type qblockOut struct {
	tok, sql string
	cols     []qcol
	hasOrder bool
	hasLimit bool
}

var aliasCounter int

// genBlock generates `SELECT … FROM <src> …`; srcTok/srcSQL describe the source relation.
func genBlock(g *Gen, o sqlGenOpts, srcTok, srcSQL string, cols []qcol, level int, nrowsHint int) qblockOut {
	var whrTok, whrSQL = "-", ""
	if g.Chance(1, 2) {
		w := genBool(g, cols, 2)
		whrTok, whrSQL = w.tok, " WHERE "+w.sql
	}
	outCols := cols
	projTok, projSQL := "*", "*"
	if !o.noProjection && g.Chance(3, 5) {
		k := 1 + g.Intn(3)
		var toks, sqls []string
		outCols = nil
		for i := 0; i < k; i++ {
			kind := cols[g.Intn(len(cols))].kind
			if g.Chance(1, 4) {
				kind = 'b'
			}
			var e qexpr
			if kind == 'b' {
				e = genBool(g, cols, 2)
			} else {
				e = genScalar(g, cols, kind, 2)
			}
			name := fmt.Sprintf("a%d_%d", level, i)
			toks = append(toks, e.tok)
			sqls = append(sqls, e.sql+" AS "+name)
			outCols = append(outCols, qcol{name: name, kind: e.kind, nullable: e.nullable})
		}
		projTok = fmt.Sprintf("P%d %s", k, strings.Join(toks, " "))
		projSQL = strings.Join(sqls, ", ")
	}
	distinct := g.Chance(1, 4)
	dTok, dSQL := "D0", ""
	if distinct {
		dTok, dSQL = "D1", "DISTINCT "
	}
	ordTok, ordSQL := "O0", ""
	hasOrder := g.Chance(2, 5)
	if hasOrder {
		k := 1 + g.Intn(2)
		var toks, sqls []string
		for i := 0; i < k; i++ {
			ci := g.Intn(len(outCols))
			e := qexpr{kind: outCols[ci].kind, tok: fmt.Sprintf("c%d", ci), sql: outCols[ci].name}
			if outCols[ci].kind == 'i' && g.Chance(1, 4) {
				e = qexpr{kind: 'i', tok: fmt.Sprintf("* c%d c%d", ci, ci), sql: "(" + outCols[ci].name + " * " + outCols[ci].name + ")"}
			}
			dir := "asc"
			if g.Bool() {
				dir = "desc"
			}
			toks = append(toks, e.tok+" "+dir)
			sqls = append(sqls, e.sql+" "+strings.ToUpper(dir))
		}
		ordTok = fmt.Sprintf("O%d %s", k, strings.Join(toks, " "))
		ordSQL = " ORDER BY " + strings.Join(sqls, ", ")
	}
	limTok, limSQL := "-", ""
	hasLimit := o.forceLimit || g.Chance(1, 3)
	if hasLimit {
		n := g.Intn(nrowsHint + 2)
		limTok, limSQL = fmt.Sprintf("L%d", n), fmt.Sprintf(" LIMIT %d", n)
	}
	aliasCounter++
	tok := fmt.Sprintf("sel %s %s %s %s %s %s", srcTok, whrTok, projTok, dTok, ordTok, limTok)
	sql := fmt.Sprintf("SELECT %s%s FROM %s q%d%s%s%s", dSQL, projSQL, srcSQL, aliasCounter, whrSQL, ordSQL, limSQL)
	return qblockOut{tok: tok, sql: sql, cols: outCols, hasOrder: hasOrder, hasLimit: hasLimit}
}

// genQuery builds a query of nesting depth 1..maxDepth over table t stored in file `file`.
func genQuery(g *Gen, o sqlGenOpts, t qtable, file string) qblockOut {
	depth := 1 + g.Intn(o.maxDepth)
	cur := qblockOut{tok: "tbl", sql: file, cols: t.cols}
	for level := depth; level >= 1; level-- {
		srcSQL := cur.sql
		if cur.tok != "tbl" {
			srcSQL = "(" + cur.sql + ")"
		}
		cur = genBlock(g, o, cur.tok, srcSQL, cur.cols, level, len(t.rows))
	}
	return cur
}

func kindsOf(cols []qcol) string {
	b := make([]byte, len(cols))
	for i, c := range cols {
		b[i] = c.kind
	}
	return string(b)
}

func selLine(mode string, opt bool, fileFmt string, t qtable, q qblockOut) string {
	o := "1"
	if !opt {
		o = "0"
	}
	return fmt.Sprintf("sel %s %s %s %s %s Q %s SQL %s", mode, o, fileFmt, kindsOf(q.cols), t.encode(), q.tok, hex.EncodeToString([]byte(q.sql)))
}
