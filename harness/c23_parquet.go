package main

// C23, parquet: the file is WRITTEN with the repository's own parquet-go (rows spelled out value by value with their
// repetition / definition levels) and READ BACK through the real datasource (Creator -> Materialize -> Run).
//
//   pq <mask> <nrows> (<id i> <f f> <s s> <opt i|n> <nums L…> <tags L…>)×nrows
//
// mask: a 0/1 string, which of the six columns the plan keeps (column pruning). Output: `ok <records>` / err:<where>.
// reconstruct.go is NOT modelled in Lean: the model side is the identity on the rows of the op line, this is a
// differential test against what was written (trusted: the writer).

import (
	"bufio"
	"context"
	"fmt"
	"os"
	"path/filepath"
	"strconv"
	"strings"
	"time"

	pqds "github.com/cube2222/octosql/datasources/parquet"
	"github.com/cube2222/octosql/execution"
	"github.com/cube2222/octosql/octosql"
	"github.com/cube2222/octosql/physical"
	"github.com/segmentio/parquet-go"
)

type pqRow struct {
	A int64    `parquet:"a_id"`
	B float64  `parquet:"b_f"`
	C string   `parquet:"c_s"`
	D *int64   `parquet:"d_opt,optional"`
	E []int64  `parquet:"e_nums"`
	F []string `parquet:"f_tags"`
}

func genPqOps(g *Gen, tier string, w *bufio.Writer) {
	n := 12
	if tier == "thorough" {
		n = 300
	}
	lens := []int{0, 1, 2, 3, 9, 10, 11, 12, 19, 20, 21, 40, 45, 100}
	for i := 0; i < n; i++ {
		rows := 1 + g.Intn(12)
		if g.Chance(1, 6) {
			rows = 100 + g.Intn(200)
		}
		var sb strings.Builder
		for r := 0; r < rows; r++ {
			opt := "n"
			if g.Chance(2, 3) {
				opt = "i" + strconv.Itoa(g.Intn(7)-3)
			}
			ln, lt := Pick(g, lens), Pick(g, lens)
			if rows > 50 {
				ln, lt = g.Intn(13), g.Intn(4)
			}
			var nums, tags []octosql.Value
			for j := 0; j < ln; j++ {
				nums = append(nums, octosql.NewInt(int64(1000*r+j)))
			}
			for j := 0; j < lt; j++ {
				tags = append(tags, octosql.NewString(Pick(g, []string{"x", "é", "", "tag " + strconv.Itoa(j)})))
			}
			fmt.Fprintf(&sb, " %s %s %s %s %s %s", EncodeValue(octosql.NewInt(int64(r))), EncodeValue(octosql.NewFloat(Pick(g, []float64{0, 0.5, -1.25, 1e300, 3}))),
				EncodeValue(octosql.NewString(Pick(g, []string{"", "a", "żółw", "line\nbreak"}))), opt, EncodeValue(octosql.NewList(nums)), EncodeValue(octosql.NewList(tags)))
		}
		mask := Pick(g, []string{"111111", "111111", "100010", "000011", "010101", "000000", "001100", "100001"})
		fmt.Fprintf(w, "pq %s %d%s\n", mask, rows, sb.String())
	}
}

func drivePq(toks []string) (out string) {
	defer func() {
		if r := recover(); r != nil {
			out = "panic"
		}
	}()
	mask := toks[1]
	nrows, _ := strconv.Atoi(toks[2])
	rest := toks[3:]
	dir := scratchDir("pq")
	defer os.RemoveAll(dir)
	path := filepath.Join(dir, "data.parquet")
	f, err := os.Create(path)
	if err != nil {
		return "err:harness"
	}
	w := parquet.NewWriter(f, parquet.SchemaOf(pqRow{}))
	for r := 0; r < nrows; r++ {
		var vals []octosql.Value
		vals, rest = ParseValues(6, rest)
		row := parquet.Row{parquet.ValueOf(vals[0].Int).Level(0, 0, 0), parquet.ValueOf(vals[1].Float).Level(0, 0, 1), parquet.ValueOf(vals[2].Str).Level(0, 0, 2)}
		if vals[3].TypeID == octosql.TypeIDNull {
			row = append(row, parquet.Value{}.Level(0, 0, 3))
		} else {
			row = append(row, parquet.ValueOf(vals[3].Int).Level(0, 1, 3))
		}
		for col, l := range [][]octosql.Value{vals[4].List, vals[5].List} {
			if len(l) == 0 {
				row = append(row, parquet.Value{}.Level(0, 0, 4+col))
			}
			for j, e := range l {
				rep := 1
				if j == 0 {
					rep = 0
				}
				if col == 0 {
					row = append(row, parquet.ValueOf(e.Int).Level(rep, 1, 4+col))
				} else {
					row = append(row, parquet.ValueOf(e.Str).Level(rep, 1, 4+col))
				}
			}
		}
		if err := w.WriteRow(row); err != nil {
			return "err:harness-write"
		}
	}
	if w.Close() != nil || f.Close() != nil {
		return "err:harness-close"
	}
	ctx, cancel := context.WithTimeout(context.Background(), 60*time.Second)
	defer cancel()
	impl, schema, err := pqds.Creator(ctx, path, nil)
	if err != nil {
		return "err:create"
	}
	var fields []physical.SchemaField
	for i, fd := range schema.Fields {
		if i < len(mask) && mask[i] == '1' {
			fields = append(fields, fd)
		}
	}
	if len(schema.Fields) != 6 {
		return fmt.Sprintf("err:schema-%d-fields", len(schema.Fields))
	}
	node, err := impl.Materialize(ctx, physical.Environment{}, physical.NewSchema(fields, -1, physical.WithNoRetractions(true)), nil)
	if err != nil {
		return "err:materialize"
	}
	ms, err := collectOnce(execution.ExecutionContext{Context: ctx}, node)
	if err != nil {
		return "err:run"
	}
	if len(ms) == 0 {
		return "ok"
	}
	return "ok " + EncodeMsgs(ms)
}
