package main

import (
	"encoding/hex"
	"fmt"
	"math"
	"strconv"
	"strings"
	"time"

	"github.com/cube2222/octosql/octosql"
)

// Canonical token encoding of values, see lean/Octo/Drv/Codec.lean.
//   n | i<dec> | f<16 hex> | b0|b1 | s<hex> | t<unixnano>:<loc> | d<ns> | L<k> … | S<k> … | T<k> …

// locations: id 0 = UTC, id k>0 = a distinct *time.Location with offset 0 named "Zk"
// (same instant, different pointer), id 100+m = FixedZone with offset m*30 minutes.
var locCache = map[int]*time.Location{0: time.UTC}

func locOf(id int) *time.Location {
	if l, ok := locCache[id]; ok {
		return l
	}
	var l *time.Location
	if id >= 100 {
		l = time.FixedZone(fmt.Sprintf("F%d", id), (id-100)*1800)
	} else {
		l = time.FixedZone(fmt.Sprintf("Z%d", id), 0)
	}
	locCache[id] = l
	return l
}

func locID(l *time.Location) int {
	for id, c := range locCache {
		if c == l {
			return id
		}
	}
	return 0
}

func EncodeValue(v octosql.Value) string {
	var sb strings.Builder
	encodeValue(&sb, v)
	return sb.String()
}

func encodeValue(sb *strings.Builder, v octosql.Value) {
	switch v.TypeID {
	case octosql.TypeIDNull:
		sb.WriteString("n")
	case octosql.TypeIDInt:
		sb.WriteString("i" + strconv.FormatInt(v.Int, 10))
	case octosql.TypeIDFloat:
		sb.WriteString(fmt.Sprintf("f%016x", math.Float64bits(v.Float)))
	case octosql.TypeIDBoolean:
		if v.Boolean {
			sb.WriteString("b1")
		} else {
			sb.WriteString("b0")
		}
	case octosql.TypeIDString:
		sb.WriteString("s" + hex.EncodeToString([]byte(v.Str)))
	case octosql.TypeIDTime:
		sb.WriteString(fmt.Sprintf("t%d:%d", v.Time.UnixNano(), locID(v.Time.Location())))
	case octosql.TypeIDDuration:
		sb.WriteString("d" + strconv.FormatInt(int64(v.Duration), 10))
	case octosql.TypeIDList:
		encodeSeq(sb, "L", v.List)
	case octosql.TypeIDStruct:
		encodeSeq(sb, "S", v.Struct)
	case octosql.TypeIDTuple:
		encodeSeq(sb, "T", v.Tuple)
	default:
		sb.WriteString("?" + strconv.Itoa(int(v.TypeID)))
	}
}

func encodeSeq(sb *strings.Builder, tag string, xs []octosql.Value) {
	sb.WriteString(tag + strconv.Itoa(len(xs)))
	for _, x := range xs {
		sb.WriteByte(' ')
		encodeValue(sb, x)
	}
}

func EncodeValues(vs []octosql.Value) string {
	parts := make([]string, len(vs))
	for i := range vs {
		parts[i] = EncodeValue(vs[i])
	}
	return strings.Join(parts, " ")
}

// ParseValue consumes one value from toks.
func ParseValue(toks []string) (octosql.Value, []string) {
	if len(toks) == 0 {
		panic("codec: no tokens")
	}
	tok, rest := toks[0], toks[1:]
	body := tok[1:]
	switch tok[0] {
	case 'n':
		return octosql.NewNull(), rest
	case 'i':
		i, err := strconv.ParseInt(body, 10, 64)
		if err != nil {
			panic(err)
		}
		return octosql.NewInt(i), rest
	case 'f':
		u, err := strconv.ParseUint(body, 16, 64)
		if err != nil {
			panic(err)
		}
		return octosql.NewFloat(math.Float64frombits(u)), rest
	case 'b':
		return octosql.NewBoolean(body == "1"), rest
	case 's':
		b, err := hex.DecodeString(body)
		if err != nil {
			panic(err)
		}
		return octosql.NewString(string(b)), rest
	case 't':
		parts := strings.Split(body, ":")
		ns, err := strconv.ParseInt(parts[0], 10, 64)
		if err != nil {
			panic(err)
		}
		loc, _ := strconv.Atoi(parts[1])
		return octosql.NewTime(time.Unix(0, ns).In(locOf(loc))), rest
	case 'd':
		i, err := strconv.ParseInt(body, 10, 64)
		if err != nil {
			panic(err)
		}
		return octosql.NewDuration(time.Duration(i)), rest
	case 'L', 'S', 'T':
		k, _ := strconv.Atoi(body)
		xs := make([]octosql.Value, k)
		for i := 0; i < k; i++ {
			xs[i], rest = ParseValue(rest)
		}
		switch tok[0] {
		case 'L':
			return octosql.NewList(xs), rest
		case 'S':
			return octosql.NewStruct(xs), rest
		default:
			return octosql.NewTuple(xs), rest
		}
	}
	panic("codec: bad token " + tok)
}

func ParseValues(k int, toks []string) ([]octosql.Value, []string) {
	xs := make([]octosql.Value, k)
	for i := 0; i < k; i++ {
		xs[i], toks = ParseValue(toks)
	}
	return xs, toks
}
