package main

// Shared helpers for C30: the wire encoding of sqlparser tokens and the canonical dump of the modelled
// fragment of the sqlparser AST (the same tree the Lean model `Octo.Sql` builds).

import (
	"encoding/hex"
	"fmt"
	"go/ast"
	"go/parser"
	"go/token"
	"os"
	"path/filepath"
	"regexp"
	"strconv"
	"strings"
	"sync"

	"github.com/cube2222/octosql/parser/sqlparser"
)

// ---------------------------------------------------------------------------------------------------------
// token names (from the CURRENT sql.go / sql.y of the repository under check)

var sqlCharNames = map[int]string{
	'(': "LPAREN", ')': "RPAREN", ',': "COMMA", '.': "DOT", '*': "STAR", '+': "PLUS", '-': "MINUS", '/': "SLASH",
	'%': "PERCENT", '^': "CARET", '&': "AMP", '|': "PIPE", '~': "TILDE", '!': "BANG", '=': "EQ", '<': "LT", '>': "GT",
	'[': "LBRACK", ']': "RBRACK", '{': "LBRACE", '}': "RBRACE", ';': "SEMI", ':': "COLON",
}

// keyword tokens that the modelled grammar fragment uses as keywords although sql.y lists them as non-reserved:
// the Lean parser never treats them as identifiers (Octo.Sql.Kw has constructors for them).
var sqlStructuralNonReserved = map[string]bool{
	"AFTER": true, "COUNTING": true, "DELAY": true, "END": true, "OF": true, "OFFSET": true, "WATERMARK": true,
}

type sqlNames struct {
	tokName     map[int]string  // yacc token number -> NAME
	nonReserved map[string]bool // NAMEs listed under non_reserved_keyword in sql.y
	reserved    map[string]bool // NAMEs listed under reserved_keyword in sql.y
	err         error
}

var (
	sqlNamesOnce sync.Once
	sqlNamesVal  sqlNames
)

func sqlparserDir() string { return filepath.Join(repoDir(), "parser", "sqlparser") }

// yaccAlternatives returns the token names of a rule of the form `name: A | B | C` in sql.y
func yaccAlternatives(y string, rule string) ([]string, error) {
	re := regexp.MustCompile(`(?m)^` + rule + `:\s*$`)
	loc := re.FindStringIndex(y)
	if loc == nil {
		return nil, fmt.Errorf("sql.y: rule %s not found", rule)
	}
	rest := y[loc[1]:]
	end := regexp.MustCompile(`(?m)^[a-z_]+:\s*$`).FindStringIndex(rest)
	if end == nil {
		return nil, fmt.Errorf("sql.y: end of rule %s not found", rule)
	}
	body := rest[:end[0]]
	body = regexp.MustCompile(`(?s)/\*.*?\*/`).ReplaceAllString(body, " ")
	body = regexp.MustCompile(`//[^\n]*`).ReplaceAllString(body, " ")
	var out []string
	for _, alt := range strings.Split(body, "|") {
		alt = strings.TrimSpace(alt)
		if alt == "" {
			continue
		}
		if !regexp.MustCompile(`^[A-Z_0-9]+$`).MatchString(alt) {
			return nil, fmt.Errorf("sql.y: rule %s: unexpected alternative %q", rule, alt)
		}
		out = append(out, alt)
	}
	return out, nil
}

func loadSQLNames() *sqlNames {
	sqlNamesOnce.Do(func() {
		n := &sqlNamesVal
		n.tokName, n.nonReserved, n.reserved = map[int]string{}, map[string]bool{}, map[string]bool{}
		fset := token.NewFileSet()
		f, err := parser.ParseFile(fset, filepath.Join(sqlparserDir(), "sql.go"), nil, 0)
		if err != nil {
			n.err = err
			return
		}
		for _, d := range f.Decls {
			gd, ok := d.(*ast.GenDecl)
			if !ok || gd.Tok != token.CONST {
				continue
			}
			for _, sp := range gd.Specs {
				vs := sp.(*ast.ValueSpec)
				if len(vs.Names) != 1 || len(vs.Values) != 1 {
					continue
				}
				lit, ok := vs.Values[0].(*ast.BasicLit)
				name := vs.Names[0].Name
				if !ok || lit.Kind != token.INT || strings.HasPrefix(name, "yy") {
					continue
				}
				v, _ := strconv.Atoi(lit.Value)
				if v >= 57344 {
					n.tokName[v] = name
				}
			}
		}
		yb, err := os.ReadFile(filepath.Join(sqlparserDir(), "sql.y"))
		if err != nil {
			n.err = err
			return
		}
		nr, err := yaccAlternatives(string(yb), "non_reserved_keyword")
		if err != nil {
			n.err = err
			return
		}
		rs, err := yaccAlternatives(string(yb), "reserved_keyword")
		if err != nil {
			n.err = err
			return
		}
		for _, x := range nr {
			n.nonReserved[x] = true
		}
		for _, x := range rs {
			n.reserved[x] = true
		}
		if len(n.tokName) < 100 || len(nr) < 50 || len(rs) < 50 {
			n.err = fmt.Errorf("sql.go/sql.y: implausibly few tokens (%d) / keywords (%d, %d)", len(n.tokName), len(nr), len(rs))
		}
	})
	return &sqlNamesVal
}

// sqlTok is one token of the real tokenizer.
type sqlTok struct {
	typ  int
	name string // yacc NAME, or the name of a single-character token
	val  []byte
}

// plainNonReserved: a keyword token that sql.y allows as an identifier and that the modelled fragment does not use
// as a keyword
func (t sqlTok) plainNonReserved() bool {
	n := loadSQLNames()
	return n.nonReserved[t.name] && !sqlStructuralNonReserved[t.name]
}

func (t sqlTok) isKeywordWord() bool {
	n := loadSQLNames()
	return n.nonReserved[t.name] || n.reserved[t.name] || (t.typ >= 57344 && len(t.val) > 0 && !t.isValueTok())
}

func (t sqlTok) isValueTok() bool {
	switch t.typ {
	case sqlparser.ID, sqlparser.STRING, sqlparser.INTEGRAL, sqlparser.FLOAT, sqlparser.HEXNUM, sqlparser.HEX,
		sqlparser.BIT_LITERAL, sqlparser.VALUE_ARG, sqlparser.LEX_ERROR, sqlparser.COMMENT:
		return true
	}
	return false
}

func (t sqlTok) wire() string {
	h := hex.EncodeToString(t.val)
	switch t.typ {
	case sqlparser.ID:
		return "I" + h
	case sqlparser.STRING:
		return "S" + h
	case sqlparser.INTEGRAL:
		return "N" + h
	case sqlparser.FLOAT:
		return "F" + h
	case sqlparser.HEXNUM:
		return "H" + h
	case sqlparser.HEX:
		return "X" + h
	case sqlparser.BIT_LITERAL:
		return "B" + h
	case sqlparser.VALUE_ARG:
		return "A" + h
	case sqlparser.LEX_ERROR:
		return "E"
	}
	if t.name == "" {
		return "U" + strconv.Itoa(t.typ)
	}
	if t.plainNonReserved() {
		return "W" + h // a non-reserved keyword the fragment does not use as a keyword: only its text matters
	}
	return "K" + t.name
}

// sqlTokenize runs the real tokenizer over the text (comments are dropped, as Lex does outside comment_opt).
// The trailing ';' (if any) is kept as a token.
func sqlTokenize(sql string) ([]sqlTok, bool) {
	n := loadSQLNames()
	tkn := sqlparser.NewStringTokenizer(sql)
	var out []sqlTok
	hadComment := false
	for i := 0; i < 100000; i++ {
		typ, val := tkn.Scan()
		if typ == 0 {
			break
		}
		if typ == sqlparser.COMMENT {
			hadComment = true
			continue
		}
		t := sqlTok{typ: typ, val: append([]byte(nil), val...)}
		if typ < 256 {
			t.name = sqlCharNames[typ]
		} else {
			t.name = n.tokName[typ]
		}
		out = append(out, t)
		if typ == sqlparser.LEX_ERROR {
			break
		}
	}
	return out, hadComment
}

func wireToks(ts []sqlTok) string {
	var sb strings.Builder
	for i, t := range ts {
		if i > 0 {
			sb.WriteByte(' ')
		}
		sb.WriteString(t.wire())
	}
	return sb.String()
}

// ---------------------------------------------------------------------------------------------------------
// canonical dump of the modelled AST fragment.  errOutside = the tree uses something the Lean model does not have.

type outsideErr struct{ what string }

func (e outsideErr) Error() string { return "outside fragment: " + e.what }

type sqlDumper struct {
	sb     strings.Builder
	idents []string // every identifier-class string of the tree (for the keyword-as-identifier rule)
	raws   []string // names printed raw by Format (function names, interval units, convert types)
}

func (d *sqlDumper) outside(what string) { panic(outsideErr{what}) }

func (d *sqlDumper) str(s string) {
	d.sb.WriteByte('$')
	d.sb.WriteString(hex.EncodeToString([]byte(s)))
}

func (d *sqlDumper) ident(s string) {
	d.idents = append(d.idents, s)
	d.str(s)
}

func (d *sqlDumper) b(v bool) {
	if v {
		d.sb.WriteByte('1')
	} else {
		d.sb.WriteByte('0')
	}
}

func (d *sqlDumper) w(s string) { d.sb.WriteString(s) }

func (d *sqlDumper) optExpr(e sqlparser.Expr) {
	if e == nil {
		d.w("~")
		return
	}
	d.expr(e)
}

func (d *sqlDumper) exprs(es []sqlparser.Expr) {
	d.w("[")
	for i, e := range es {
		if i > 0 {
			d.w(",")
		}
		d.expr(e)
	}
	d.w("]")
}

func (d *sqlDumper) tableName(t sqlparser.TableName) (q, n string) {
	return t.Qualifier.String(), t.Name.String()
}

func (d *sqlDumper) expr(e sqlparser.Expr) {
	switch n := e.(type) {
	case *sqlparser.AndExpr:
		d.w("And(")
		d.expr(n.Left)
		d.w(",")
		d.expr(n.Right)
		d.w(")")
	case *sqlparser.OrExpr:
		d.w("Or(")
		d.expr(n.Left)
		d.w(",")
		d.expr(n.Right)
		d.w(")")
	case *sqlparser.NotExpr:
		d.w("Not(")
		d.expr(n.Expr)
		d.w(")")
	case *sqlparser.ParenExpr:
		d.w("Paren(")
		d.expr(n.Expr)
		d.w(")")
	case *sqlparser.ComparisonExpr:
		if n.Escape != nil {
			d.outside("like escape")
		}
		switch n.Operator {
		case sqlparser.EqualStr, sqlparser.LessThanStr, sqlparser.GreaterThanStr, sqlparser.LessEqualStr,
			sqlparser.GreaterEqualStr, sqlparser.NotEqualStr, sqlparser.NullSafeEqualStr, sqlparser.InStr,
			sqlparser.NotInStr, sqlparser.LikeStr, sqlparser.NotLikeStr, sqlparser.RegexpStr, sqlparser.NotRegexpStr:
		default:
			d.outside("comparison operator " + n.Operator)
		}
		d.w("Cmp(")
		d.str(n.Operator)
		d.w(",")
		d.expr(n.Left)
		d.w(",")
		d.expr(n.Right)
		d.w(")")
	case *sqlparser.IsExpr:
		d.w("Is(")
		d.str(n.Operator)
		d.w(",")
		d.expr(n.Expr)
		d.w(")")
	case *sqlparser.ExistsExpr:
		d.w("Exists(")
		d.selStmt(n.Subquery.Select)
		d.w(")")
	case *sqlparser.SQLVal:
		if n.Type == sqlparser.ValArg {
			d.outside("bind variable")
		}
		d.w("Val(" + strconv.Itoa(int(n.Type)) + ",")
		d.str(string(n.Val))
		d.w(")")
	case *sqlparser.NullVal:
		d.w("Null")
	case sqlparser.BoolVal:
		d.w("Bool(")
		d.b(bool(n))
		d.w(")")
	case *sqlparser.ColName:
		d.colName(n)
	case sqlparser.ValTuple:
		d.w("Tuple(")
		d.exprs([]sqlparser.Expr(n))
		d.w(")")
	case *sqlparser.Subquery:
		d.w("Subq(")
		d.selStmt(n.Select)
		d.w(")")
	case *sqlparser.BinaryExpr:
		switch n.Operator {
		case sqlparser.ArrayElement, sqlparser.BitAndStr, sqlparser.BitOrStr, sqlparser.BitXorStr, sqlparser.PlusStr,
			sqlparser.MinusStr, sqlparser.MultStr, sqlparser.DivStr, sqlparser.IntDivStr, sqlparser.ModStr,
			sqlparser.ShiftLeftStr, sqlparser.ShiftRightStr:
		default:
			d.outside("binary operator " + n.Operator)
		}
		d.w("Bin(")
		d.str(n.Operator)
		d.w(",")
		d.expr(n.Left)
		d.w(",")
		d.expr(n.Right)
		d.w(")")
	case *sqlparser.UnaryExpr:
		switch n.Operator {
		case sqlparser.UPlusStr, sqlparser.UMinusStr, sqlparser.TildaStr, sqlparser.BangStr:
		default:
			d.outside("unary operator " + n.Operator)
		}
		d.w("Un(")
		d.str(n.Operator)
		d.w(",")
		d.expr(n.Expr)
		d.w(")")
	case *sqlparser.IntervalExpr:
		d.w("Interval(")
		d.expr(n.Expr)
		d.w(",")
		d.raws = append(d.raws, n.Unit)
		d.ident(n.Unit)
		d.w(")")
	case *sqlparser.FuncExpr:
		d.w("Func(")
		d.ident(n.Qualifier.String())
		d.w(",")
		d.raws = append(d.raws, n.Name.String())
		d.ident(n.Name.String())
		d.w(",")
		d.b(n.Distinct)
		d.w(",")
		d.selectExprs(n.Exprs)
		d.w(")")
	case *sqlparser.ConvertExpr:
		d.w("Convert(")
		d.expr(n.Expr)
		d.w(",")
		switch t := n.Type.(type) {
		case *sqlparser.ConvertTypeSimple:
			d.w("TSimple(")
			d.raws = append(d.raws, t.Name)
			d.ident(t.Name)
			d.w(")")
		case *sqlparser.ConvertTypeList:
			d.w("TList")
		case *sqlparser.ConvertTypeObject:
			d.w("TObject")
		default:
			d.outside(fmt.Sprintf("convert type %T", n.Type))
		}
		d.w(")")
	case *sqlparser.ObjectFieldAccess:
		d.w("Field(")
		d.expr(n.Object)
		d.w(",")
		d.ident(n.Field.String())
		d.w(")")
	default:
		d.outside(fmt.Sprintf("expression %T", e))
	}
}

func (d *sqlDumper) colName(n *sqlparser.ColName) {
	d.w("Col(")
	d.ident(n.Qualifier.Qualifier.String())
	d.w(",")
	d.ident(n.Qualifier.Name.String())
	d.w(",")
	d.ident(n.Name.String())
	d.w(")")
}

func (d *sqlDumper) selectExprs(es sqlparser.SelectExprs) {
	d.w("[")
	for i, e := range es {
		if i > 0 {
			d.w(",")
		}
		switch n := e.(type) {
		case *sqlparser.StarExpr:
			d.w("Star(")
			d.ident(n.TableName.Qualifier.String())
			d.w(",")
			d.ident(n.TableName.Name.String())
			d.w(")")
		case *sqlparser.AliasedExpr:
			d.w("Aliased(")
			d.expr(n.Expr)
			d.w(",")
			d.ident(n.As.String())
			d.w(")")
		case *sqlparser.ObjectExplode:
			d.w("Explode(")
			d.expr(n.Object)
			d.w(")")
		default:
			d.outside(fmt.Sprintf("select expression %T", e))
		}
	}
	d.w("]")
}

func (d *sqlDumper) tableExprs(ts sqlparser.TableExprs) {
	d.w("[")
	for i, t := range ts {
		if i > 0 {
			d.w(",")
		}
		d.tableExpr(t)
	}
	d.w("]")
}

func (d *sqlDumper) tableExpr(t sqlparser.TableExpr) {
	switch n := t.(type) {
	case *sqlparser.AliasedTableExpr:
		if n.Hints != nil || len(n.Partitions) > 0 {
			d.outside("index hints / partitions")
		}
		switch e := n.Expr.(type) {
		case sqlparser.TableName:
			d.w("Table(")
			d.ident(e.Qualifier.String())
			d.w(",")
			d.ident(e.Name.String())
			d.w(",")
			d.ident(n.As.String())
			d.w(")")
		case *sqlparser.Subquery:
			d.w("TSub(")
			d.selStmt(e.Select)
			d.w(",")
			d.ident(n.As.String())
			d.w(")")
		default:
			d.outside(fmt.Sprintf("simple table expression %T", n.Expr))
		}
	case *sqlparser.ParenTableExpr:
		d.w("TParen(")
		d.tableExprs(n.Exprs)
		d.w(")")
	case *sqlparser.JoinTableExpr:
		switch n.Join {
		case sqlparser.JoinStr, sqlparser.LeftJoinStr, sqlparser.RightJoinStr, sqlparser.OuterJoinStr,
			sqlparser.NaturalJoinStr, sqlparser.NaturalLeftJoinStr, sqlparser.NaturalRightJoinStr:
		default:
			d.outside("join kind " + n.Join)
		}
		switch n.Strategy {
		case "", sqlparser.UndefinedJoinStrategy, sqlparser.LookupJoinStrategy, sqlparser.StreamJoinStrategy:
		default:
			d.outside("join strategy " + n.Strategy)
		}
		d.w("Join(")
		d.tableExpr(n.LeftExpr)
		d.w(",")
		d.str(n.Strategy)
		d.w(",")
		d.str(n.Join)
		d.w(",")
		d.tableExpr(n.RightExpr)
		d.w(",")
		d.optExpr(n.Condition.On)
		d.w(",[")
		for i, c := range n.Condition.Using {
			if i > 0 {
				d.w(",")
			}
			d.ident(c.String())
		}
		d.w("])")
	case *sqlparser.TableValuedFunction:
		d.w("Tvf(")
		d.ident(n.Name.String())
		d.w(",[")
		for i, a := range n.Args {
			if i > 0 {
				d.w(",")
			}
			switch v := a.Value.(type) {
			case *sqlparser.ExprTableValuedFunctionArgumentValue:
				d.w("ArgE(")
				d.ident(a.Name.String())
				d.w(",")
				d.expr(v.Expr)
				d.w(")")
			case *sqlparser.TableDescriptorTableValuedFunctionArgumentValue:
				d.w("ArgT(")
				d.ident(a.Name.String())
				d.w(",")
				d.tableExpr(v.Table)
				d.w(")")
			case *sqlparser.FieldDescriptorTableValuedFunctionArgumentValue:
				d.w("ArgD(")
				d.ident(a.Name.String())
				d.w(",")
				d.ident(v.Field.Qualifier.Qualifier.String())
				d.w(",")
				d.ident(v.Field.Qualifier.Name.String())
				d.w(",")
				d.ident(v.Field.Name.String())
				d.w(")")
			default:
				d.outside(fmt.Sprintf("tvf argument %T", a.Value))
			}
		}
		d.w("],")
		d.ident(n.As.String())
		d.w(")")
	default:
		d.outside(fmt.Sprintf("table expression %T", t))
	}
}

func (d *sqlDumper) selStmt(s sqlparser.SelectStatement) {
	switch n := s.(type) {
	case *sqlparser.Select:
		if len(n.Comments) > 0 || n.Cache != "" || n.Hints != "" || n.Lock != "" {
			d.outside("comments / cache / hints / lock")
		}
		if n.Distinct != "" && n.Distinct != sqlparser.DistinctStr {
			d.outside("distinct " + n.Distinct)
		}
		d.w("Select(")
		d.b(n.Distinct != "")
		d.w(",")
		d.selectExprs(n.SelectExprs)
		d.w(",")
		d.tableExprs(n.From)
		d.w(",")
		if n.Where == nil {
			d.w("~")
		} else {
			d.optExpr(n.Where.Expr)
		}
		d.w(",")
		d.exprs([]sqlparser.Expr(n.GroupBy))
		d.w(",")
		if n.Having == nil {
			d.w("~")
		} else {
			d.optExpr(n.Having.Expr)
		}
		d.w(",[")
		for i, t := range n.Trigger {
			if i > 0 {
				d.w(",")
			}
			switch tr := t.(type) {
			case *sqlparser.CountingTrigger:
				d.w("TCount(")
				d.expr(tr.Count)
				d.w(")")
			case *sqlparser.WatermarkTrigger:
				d.w("TWm")
			case *sqlparser.EndOfStreamTrigger:
				d.w("TEos")
			case *sqlparser.DelayTrigger:
				d.w("TDelay(")
				d.expr(tr.Delay)
				d.w(")")
			default:
				d.outside(fmt.Sprintf("trigger %T", t))
			}
		}
		d.w("],[")
		for i, o := range n.OrderBy {
			if i > 0 {
				d.w(",")
			}
			d.w("Ord(")
			d.expr(o.Expr)
			d.w(",")
			switch o.Direction {
			case sqlparser.AscScr:
				d.w("0")
			case sqlparser.DescScr:
				d.w("1")
			default:
				d.outside("order direction " + o.Direction)
			}
			d.w(")")
		}
		d.w("],")
		if n.Limit == nil {
			d.w("~")
		} else {
			d.w("Lim(")
			d.optExpr(n.Limit.Offset)
			d.w(",")
			d.optExpr(n.Limit.Rowcount)
			d.w(")")
		}
		d.w(")")
	case *sqlparser.With:
		d.w("With([")
		for i, c := range n.CommonTableExpressions {
			if i > 0 {
				d.w(",")
			}
			d.w("Cte(")
			d.ident(c.Name.String())
			d.w(",")
			d.selStmt(c.Select)
			d.w(")")
		}
		d.w("],")
		d.selStmt(n.Select)
		d.w(")")
	default:
		d.outside(fmt.Sprintf("select statement %T", s))
	}
}

// dumpStatement returns the canonical dump, or an outsideErr.
func dumpStatement(st sqlparser.Statement) (dump string, idents []string, raws []string, err error) {
	d := &sqlDumper{}
	defer func() {
		if r := recover(); r != nil {
			if oe, ok := r.(outsideErr); ok {
				err = oe
				return
			}
			panic(r)
		}
	}()
	ss, ok := st.(sqlparser.SelectStatement)
	if !ok {
		return "", nil, nil, outsideErr{fmt.Sprintf("statement %T", st)}
	}
	d.selStmt(ss)
	return d.sb.String(), d.idents, d.raws, nil
}
