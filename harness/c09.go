package main

import (
	"github.com/cube2222/octosql/physical"
	"github.com/cube2222/octosql/logical"
	"github.com/cube2222/octosql/functions"
	"context"
	"bufio"
	"fmt"
	"strconv"

	"github.com/cube2222/octosql/execution"
	"github.com/cube2222/octosql/octosql"
)

func init() {
	register("C09", &prop{gen: genC09, drive: driveC09})
}

func genC09(g *Gen, tier string, w *bufio.Writer) {
	u := smallUniverse()
	// all pairs: cmp, equal; every value: hash
	for _, a := range u {
		fmt.Fprintf(w, "hash %s\n", EncodeValue(a))
		for _, b := range u {
			fmt.Fprintf(w, "cmp %s %s\n", EncodeValue(a), EncodeValue(b))
			fmt.Fprintf(w, "equal %s %s\n", EncodeValue(a), EncodeValue(b))
			fmt.Fprintf(w, "less 1 %s %s\n", EncodeValue(a), EncodeValue(b))
		}
	}
	// the SQL comparison operators on all pairs of scalars of the universe
	sc := scalarUniverse()
	for _, a := range sc {
		for _, b := range sc {
			for _, op := range []string{"eq", "ne", "lt", "le", "gt", "ge"} {
				fmt.Fprintf(w, "opsql %s %s %s\n", op, EncodeValue(a), EncodeValue(b))
			}
		}
	}
	// triples of the universe: exhaustive on the thorough tier, sampled on quick
	if tier == "thorough" {
		for _, a := range u {
			for _, b := range u {
				for _, c := range u {
					fmt.Fprintf(w, "laws %s %s %s\n", EncodeValue(a), EncodeValue(b), EncodeValue(c))
				}
			}
		}
	} else {
		for i := 0; i < 20000; i++ {
			fmt.Fprintf(w, "laws %s %s %s\n", EncodeValue(Pick(g, u)), EncodeValue(Pick(g, u)), EncodeValue(Pick(g, u)))
		}
	}
	// random deep values; b and c are often near-copies of a so that equality and ties occur
	n := 5000
	if tier == "thorough" {
		n = 100000
	}
	for i := 0; i < n; i++ {
		a := RandValue(g, 4)
		b, c := RandValue(g, 4), RandValue(g, 4)
		if g.Chance(1, 2) {
			b = Mutate(g, a)
		}
		if g.Chance(1, 2) {
			c = Mutate(g, b)
		}
		fmt.Fprintf(w, "laws %s %s %s\n", EncodeValue(a), EncodeValue(b), EncodeValue(c))
		if i%2 == 0 {
			// rows sharing a prefix, so that the deciding position is a nested value
			fmt.Fprintf(w, "less 2 %s %s %s %s\n", EncodeValue(c), EncodeValue(a), EncodeValue(c), EncodeValue(b))
		}
		if i%4 == 0 {
			row := []octosql.Value{a, b, c}
			fmt.Fprintf(w, "hashmany %d %s\n", len(row), EncodeValues(row))
		}
	}
}

func driveC09(toks []string) string {
	switch toks[0] {
	case "cmp":
		a, r := ParseValue(toks[1:])
		b, _ := ParseValue(r)
		return strconv.Itoa(a.Compare(b))
	case "equal":
		a, r := ParseValue(toks[1:])
		b, _ := ParseValue(r)
		if a.Equal(b) {
			return "1"
		}
		return "0"
	case "hash":
		a, _ := ParseValue(toks[1:])
		return strconv.FormatUint(a.Hash(), 10)
	case "hashmany":
		k, _ := strconv.Atoi(toks[1])
		vs, _ := ParseValues(k, toks[2:])
		return strconv.FormatUint(octosql.HashManyValues(vs), 10)
	case "less":
		k, _ := strconv.Atoi(toks[1])
		a, r := ParseValues(k, toks[2:])
		b, _ := ParseValues(k, r)
		if execution.CompareValueSlices(a, b) {
			return "1"
		}
		return "0"
	case "opsql":
		// the SQL operators = != < <= > >= through the real overload resolution on the operands' own static types:
		// they must agree with Compare on which values are equal and how they order
		a, r := ParseValue(toks[2:])
		b, _ := ParseValue(r)
		return c09SQLOp(toks[1], a, b)
	case "laws":
		a, r := ParseValue(toks[1:])
		b, r := ParseValue(r)
		c, _ := ParseValue(r)
		return fmt.Sprintf("%d %d %d %d %d %d %d", a.Compare(a), a.Compare(b), b.Compare(a), b.Compare(c), a.Compare(c), a.Hash(), b.Hash())
	}
	return "bad-op"
}


var c09OpNames = map[string]string{"eq": "=", "ne": "!=", "lt": "<", "le": "<=", "gt": ">", "ge": ">="}

func c09SQLOp(sym string, a, b octosql.Value) string {
	ts := []octosql.Type{a.Type(), b.Type()}
	args := make([]logical.Expression, 2)
	fields := make([]physical.SchemaField, 2)
	for i := range ts {
		n := "v" + strconv.Itoa(i)
		args[i] = &typedArg13{name: n, t: ts[i]}
		fields[i] = physical.SchemaField{Name: n, Type: ts[i]}
	}
	env := physical.Environment{Functions: functions.FunctionMap(), VariableContext: &physical.VariableContext{Fields: fields}}
	var out physical.Expression
	ok := func() (ok bool) {
		defer func() {
			if recover() != nil {
				ok = false
			}
		}()
		out = logical.NewFunctionExpression(c09OpNames[sym], args).Typecheck(context.Background(), env, logical.Environment{})
		return true
	}()
	if !ok {
		return "untyped"
	}
	e, err := out.Materialize(context.Background(), env)
	if err != nil {
		return "err:materialize"
	}
	v, err := e.Evaluate(execution.ExecutionContext{Context: context.Background(), VariableContext: &execution.VariableContext{Values: []octosql.Value{a, b}}})
	if err != nil {
		return "err"
	}
	return EncodeValue(v)
}
