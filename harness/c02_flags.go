package main

// C02, two additions that tie `Schema.NoRetractions` of the join nodes to the Lean model (Plan.noRetr, proved sound by
// Octo.C02.noRetractions_sound) without depending on scheduling luck:
//
//   jf <mode> <opt> <fmt> <kinds> DB … Q <from> <whr> <proj> SQL <hex>        (same payload as a `jn` line)
//     drive: SQL text -> the REAL parser and logical Typecheck (c04PlanSQL, as cmd/root.go does it), optimizer.Optimize
//     when <opt> = 1, then the NoRetractions flag of the root and of every join node in pre-order:
//         flags <root> (s|o|l)<flag>…      s = StreamJoin, o = OuterJoin, l = LookupJoin        or   err
//     model: the same from planQ / optimize / Plan.noRetr;  judge: a node (or the root) that can retract — an outer
//     join with an outer side somewhere below it — must not claim NoRetractions.
//
//   genLateMatchOp: `jn` lines (csv / json sinks) with an outer join below another join where the partners of the
//     outer side's rows are the LAST rows of a long second file, so the outer side's rows are (almost) always processed
//     first, get NULL-padded, travel up, and are retracted later: a wrong flag anywhere above shows as extra rows.

import (
	"encoding/hex"
	"fmt"
	"os"
	"strings"

	"github.com/cube2222/octosql/octosql"
	"github.com/cube2222/octosql/optimizer"
	"github.com/cube2222/octosql/physical"
)

func flagBit(b bool) string {
	if b {
		return "1"
	}
	return "0"
}

// joinFlags appends the flags of the join nodes of n in pre-order; false = a node type outside the modelled fragment
func joinFlags(n physical.Node, out *[]string) bool {
	switch n.NodeType {
	case physical.NodeTypeDatasource:
		return true
	case physical.NodeTypeFilter:
		return joinFlags(n.Filter.Source, out)
	case physical.NodeTypeMap:
		return joinFlags(n.Map.Source, out)
	case physical.NodeTypeStreamJoin:
		*out = append(*out, "s"+flagBit(n.Schema.NoRetractions))
		return joinFlags(n.StreamJoin.Left, out) && joinFlags(n.StreamJoin.Right, out)
	case physical.NodeTypeOuterJoin:
		*out = append(*out, "o"+flagBit(n.Schema.NoRetractions))
		return joinFlags(n.OuterJoin.Left, out) && joinFlags(n.OuterJoin.Right, out)
	case physical.NodeTypeLookupJoin:
		*out = append(*out, "l"+flagBit(n.Schema.NoRetractions))
		return joinFlags(n.LookupJoin.Source, out) && joinFlags(n.LookupJoin.Joined, out)
	}
	return false
}

func driveJoinFlags(toks []string) string {
	dir := scratchDir("jf")
	defer os.RemoveAll(dir)
	sql := writeJoinTables(toks, dir)
	old, _ := os.Getwd()
	if err := os.Chdir(dir); err != nil {
		panic(err)
	}
	defer os.Chdir(old)
	p, err := c04PlanSQL(sql)
	if err != nil {
		return "err"
	}
	node := p.node
	if toks[2] == "1" {
		node = optimizer.Optimize(node)
	}
	out := []string{"flags", flagBit(node.Schema.NoRetractions)}
	if !joinFlags(node, &out) {
		return "unsupported-node"
	}
	return strings.Join(out, " ")
}

// genLateMatchOp: tables t (few rows), u (long; the partners of t's rows come last), v (few rows); all Int columns.
func genLateMatchOp(g *Gen, i int) string {
	mode := []string{"csv", "json"}[i%2]
	nt := 6 + g.Intn(6)
	nu := 1200 + g.Intn(600)
	mk := func(n int, key func(r int) octosql.Value) jtable {
		t := jtable{kinds: []byte{'i', 'i'}}
		for r := 0; r < n; r++ {
			t.rows = append(t.rows, []octosql.Value{key(r), octosql.NewInt(int64(r % 5))})
		}
		return t
	}
	t := mk(nt, func(r int) octosql.Value { return octosql.NewInt(int64(r)) })
	// u: nu rows that match nothing, then one partner for every row of t but the last (that one stays NULL-padded)
	u := mk(nu+nt-1, func(r int) octosql.Value {
		if r < nu {
			return octosql.NewInt(int64(1000 + r))
		}
		return octosql.NewInt(int64(r - nu))
	})
	v := mk(nt, func(r int) octosql.Value {
		if r%4 == 3 {
			return octosql.NewNull()
		}
		return octosql.NewInt(int64(r))
	})
	type shape struct{ tok, sql string }
	// positions: t = c0 c1, u = c2 c3, v = c4 c5 (left-deep); for the right-nested shapes u = c0 c1 …
	shapes := []shape{
		{"j inner j left t0 t1 = c0 c2 t2 = c0 c4", "t.%[1]s t LEFT JOIN u.%[1]s u ON t.tc0 = u.uc0 JOIN v.%[1]s v ON t.tc0 = v.vc0"},
		{"j inner j full t0 t1 = c0 c2 t2 = c0 c4", "t.%[1]s t OUTER JOIN u.%[1]s u ON t.tc0 = u.uc0 JOIN v.%[1]s v ON t.tc0 = v.vc0"},
		{"j left j left t0 t1 = c0 c2 t2 = c0 c4", "t.%[1]s t LEFT JOIN u.%[1]s u ON t.tc0 = u.uc0 LEFT JOIN v.%[1]s v ON t.tc0 = v.vc0"},
		{"j inner t2 j left t0 t1 = c0 c2 = c0 c2", "v.%[1]s v JOIN (t.%[1]s t LEFT JOIN u.%[1]s u ON t.tc0 = u.uc0) ON v.vc0 = t.tc0"},
		{"j lookup j left t0 t1 = c0 c2 t2 = c0 c4", "t.%[1]s t LEFT JOIN u.%[1]s u ON t.tc0 = u.uc0 LOOKUP JOIN v.%[1]s v ON t.tc0 = v.vc0"},
		{"j inner j right t1 t0 = c0 c2 t2 = c2 c4", "u.%[1]s u RIGHT JOIN t.%[1]s t ON u.uc0 = t.tc0 JOIN v.%[1]s v ON t.tc0 = v.vc0"},
	}
	sh := shapes[(i/2)%len(shapes)]
	ext := "csv"
	sql := "SELECT * FROM " + fmt.Sprintf(sh.sql, ext)
	db := fmt.Sprintf("DB 3 %s %s %s", t.encode(), u.encode(), v.encode())
	return fmt.Sprintf("jn %s 1 %s iiiiii %s Q %s - * SQL %s", mode, ext, db, sh.tok, hex.EncodeToString([]byte(sql)))
}
