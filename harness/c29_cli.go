package main

// C29, whole-engine traces: the real `octosql` binary (built by bin/check with -tags verif) runs a query over
// generated JSON files with VERIF_JSON_TRACE set, so that the hooks of the JSON pipeline write their event log to a
// file; the Lean judge replays it on the model (one pipe per DatasourceExecuting.Run of the process: a join of two
// JSON files = two pipes sharing the worker pool, cancelled by the join when it returns early). The input sizes,
// LIMITs and malformed lines are inferred from the log itself (see lean/Octo/Drv/C29.lean); because the process exits
// as soon as the query is answered, the log may stop anywhere: it must be a path, not necessarily a complete one.
//
//   op    cli <GOMAXPROCS> <query id> <rows> d<seed> x<expected exit code>
//   out   exit=<code> | <event>…        event = <kind>,<run-1>,<worker>,<n>

import (
	"bytes"
	"fmt"
	"os"
	"os/exec"
	"path/filepath"
	"strconv"
	"strings"
	"syscall"
	"time"
)

func c29RunCLI(toks []string) string {
	if len(toks) < 5 {
		return "bad-op"
	}
	gmp := toks[1]
	qid, err := strconv.Atoi(toks[2])
	if err != nil || qid < 0 || qid >= len(c29RaceQueries) {
		return "bad-op"
	}
	rows, _ := strconv.Atoi(toks[3])
	seed, _ := strconv.ParseUint(strings.TrimPrefix(toks[4], "d"), 10, 64)
	dir := scratchDir("c29cli")
	defer os.RemoveAll(dir)
	stdinData := c29WriteRaceFiles(dir, rows, seed)
	q := c29RaceQueries[qid]
	trace := filepath.Join(dir, "trace.txt")
	cmd := exec.Command(octosqlBin(), q.q, "-o", "csv")
	cmd.Dir = dir
	cmd.Env = append(os.Environ(), "HOME="+dir, "OCTOSQL_NO_TELEMETRY=1", "XDG_CONFIG_HOME="+dir, "XDG_CACHE_HOME="+dir,
		"XDG_DATA_HOME="+dir, "GOMAXPROCS="+gmp, "VERIF_JSON_TRACE="+trace)
	var so, se bytes.Buffer
	cmd.Stdout, cmd.Stderr = &so, &se
	if q.stdin {
		cmd.Stdin = bytes.NewReader(stdinData)
	}
	if err := cmd.Start(); err != nil {
		return "driver-error cannot-start-octosql"
	}
	done := make(chan error, 1)
	go func() { done <- cmd.Wait() }()
	exit := 0
	select {
	case err := <-done:
		if err != nil {
			if ee, ok := err.(*exec.ExitError); ok {
				exit = ee.ExitCode()
			} else {
				exit = 126
			}
		}
	case <-time.After(10 * time.Minute):
		cmd.Process.Signal(syscall.SIGQUIT)
		select {
		case <-done:
		case <-time.After(5 * time.Second):
			cmd.Process.Kill()
			<-done
		}
		d := filepath.Join(buildDir(), "run", "timeouts")
		os.MkdirAll(d, 0o755)
		os.WriteFile(filepath.Join(d, fmt.Sprintf("c29cli-%d-%d.txt", os.Getpid(), time.Now().UnixNano())),
			append([]byte(strings.Join(toks, " ")+"\n"), se.Bytes()...), 0o644)
		return "timeout"
	}
	if strings.Contains(se.String(), "panic:") || strings.Contains(se.String(), "fatal error:") {
		return "crash exit=" + strconv.Itoa(exit)
	}
	data, _ := os.ReadFile(trace)
	var sb strings.Builder
	fmt.Fprintf(&sb, "exit=%d |", exit)
	for _, l := range strings.Split(string(data), "\n") {
		f := strings.Split(l, ",")
		if len(f) != 4 {
			continue // (a last line cut off by the exit of the process)
		}
		run, err := strconv.Atoi(f[1])
		if err != nil || run < 1 {
			continue
		}
		if _, err := strconv.Atoi(f[3]); err != nil {
			continue
		}
		fmt.Fprintf(&sb, " %s,%d,%s,%s", f[0], run-1, f[2], f[3])
	}
	return sb.String()
}
