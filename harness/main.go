// vh — the Go half of the correspondence check (DESIGN.md §2.2b).
//
//	vh gen   <Cnn>   writes generated operation lines to stdout (VERIF_SEED, VERIF_TIER)
//	vh drive <Cnn>   reads operation lines on stdin, runs the real octosql code in-process,
//	                 prints one canonical output line per operation
package main

import (
	"bufio"
	"fmt"
	"hash/fnv"
	"os"
	"strconv"
	"strings"
	"time"
)

type prop struct {
	gen   func(g *Gen, tier string, w *bufio.Writer)
	drive func(toks []string) string
	// optional: whole-stream driver (for properties whose ops are not independent)
	driveAll func(r *bufio.Scanner, w *bufio.Writer)
}

var props = map[string]*prop{}

func register(id string, p *prop) { props[id] = p }

// extractors: the translator half of the tie (DESIGN §2.2a). An extractor reads /repo's CURRENT sources
// (go/parser over files under repoDir, or reflection over the linked packages) and writes generated Lean
// data files into outDir. It must fail closed: an AST shape it does not recognise is an error.
var extractors = map[string]func(repoDir, outDir string) error{}

func registerExtractor(name string, f func(repoDir, outDir string) error) { extractors[name] = f }

func repoDir() string {
	if d := os.Getenv("VERIF_REPO"); d != "" {
		return d
	}
	return "/repo"
}

func runExtract(args []string) {
	out := ""
	var names []string
	for i := 0; i < len(args); i++ {
		if args[i] == "--out" && i+1 < len(args) {
			out = args[i+1]
			i++
		} else {
			names = append(names, args[i])
		}
	}
	if out == "" {
		fmt.Fprintln(os.Stderr, "usage: vh extract <name>... --out <dir>")
		os.Exit(2)
	}
	for _, n := range names {
		f, ok := extractors[n]
		if !ok {
			fmt.Fprintln(os.Stderr, "unknown extractor", n)
			os.Exit(2)
		}
		if err := f(repoDir(), out); err != nil {
			fmt.Fprintf(os.Stderr, "extract %s: %v\n", n, err)
			os.Exit(1)
		}
	}
}

func seed() uint64 {
	s, err := strconv.ParseUint(os.Getenv("VERIF_SEED"), 10, 64)
	if err != nil {
		return 1
	}
	return s
}

func tier() string {
	t := os.Getenv("VERIF_TIER")
	if t == "" {
		return "quick"
	}
	return t
}

func opTimeout() time.Duration {
	if v, err := strconv.Atoi(os.Getenv("VERIF_OP_TIMEOUT")); err == nil && v > 0 {
		return time.Duration(v) * time.Second
	}
	return 600 * time.Second
}

// safe runs f and maps a Go panic to the canonical token "panic".
func safe(f func() string) (out string) {
	defer func() {
		if r := recover(); r != nil {
			out = "panic"
		}
	}()
	return f()
}

func main() {
	if len(os.Args) < 3 {
		fmt.Fprintln(os.Stderr, "usage: vh (gen|drive) <Cnn> | vh extract <name>... --out <dir>")
		os.Exit(2)
	}
	if os.Args[1] == "extract" {
		runExtract(os.Args[2:])
		return
	}
	p, ok := props[os.Args[2]]
	if !ok {
		fmt.Fprintln(os.Stderr, "unknown property", os.Args[2])
		os.Exit(2)
	}
	w := bufio.NewWriterSize(os.Stdout, 1<<20)
	defer w.Flush()
	switch os.Args[1] {
	case "gen":
		p.gen(NewGen(seed()), tier(), w)
	case "drive":
		sc := bufio.NewScanner(os.Stdin)
		sc.Buffer(make([]byte, 1<<20), 1<<28)
		if p.driveAll != nil {
			p.driveAll(sc, w)
			return
		}
		for sc.Scan() {
			line := sc.Text()
			toks := strings.Fields(line)
			h := fnv.New32a()
			h.Write([]byte(line))
			collectRerun = h.Sum32()%4 == 0
			// watchdog: real code that does not return (a deadlocked datasource, a join that never ends) must become a
			// reported outcome, not a check that hangs. The op line gets `timeout`; the goroutines of this process may be
			// wedged for good, so the remaining lines are not run here (`skipped-after-timeout`) and the process ends.
			done := make(chan string, 1)
			go func() { done <- safe(func() string { return p.drive(toks) }) }()
			var out string
			select {
			case out = <-done:
			case <-time.After(opTimeout()):
				w.WriteString("timeout\n")
				for sc.Scan() {
					w.WriteString("skipped-after-timeout\n")
				}
				w.Flush()
				os.Exit(0)
			}
			w.WriteString(out)
			w.WriteByte('\n')
		}
	default:
		fmt.Fprintln(os.Stderr, "usage: vh (gen|drive) <Cnn>")
		os.Exit(2)
	}
}
