// vh — the Go half of the correspondence check (DESIGN.md §2.2b).
//
//	vh gen   <Cnn>   writes generated operation lines to stdout (VERIF_SEED, VERIF_TIER)
//	vh drive <Cnn>   reads operation lines on stdin, runs the real octosql code in-process,
//	                 prints one canonical output line per operation
package main

import (
	"bufio"
	"fmt"
	"os"
	"strconv"
	"strings"
)

type prop struct {
	gen   func(g *Gen, tier string, w *bufio.Writer)
	drive func(toks []string) string
	// optional: whole-stream driver (for properties whose ops are not independent)
	driveAll func(r *bufio.Scanner, w *bufio.Writer)
}

var props = map[string]*prop{}

func register(id string, p *prop) { props[id] = p }

func seed() uint64 {
	s, err := strconv.ParseUint(os.Getenv("VERIF_SEED"), 10, 64)
	if err != nil {
		return 1
	}
	return s
}

func tier() string {
	t := os.Getenv("VERIF_TIER")
	if t == "" {
		return "quick"
	}
	return t
}

// safe runs f and maps a Go panic to the canonical token "panic".
func safe(f func() string) (out string) {
	defer func() {
		if r := recover(); r != nil {
			out = "panic"
		}
	}()
	return f()
}

func main() {
	if len(os.Args) < 3 {
		fmt.Fprintln(os.Stderr, "usage: vh (gen|drive) <Cnn>")
		os.Exit(2)
	}
	p, ok := props[os.Args[2]]
	if !ok {
		fmt.Fprintln(os.Stderr, "unknown property", os.Args[2])
		os.Exit(2)
	}
	w := bufio.NewWriterSize(os.Stdout, 1<<20)
	defer w.Flush()
	switch os.Args[1] {
	case "gen":
		p.gen(NewGen(seed()), tier(), w)
	case "drive":
		sc := bufio.NewScanner(os.Stdin)
		sc.Buffer(make([]byte, 1<<20), 1<<28)
		if p.driveAll != nil {
			p.driveAll(sc, w)
			return
		}
		for sc.Scan() {
			line := sc.Text()
			toks := strings.Fields(line)
			out := safe(func() string { return p.drive(toks) })
			w.WriteString(out)
			w.WriteByte('\n')
		}
	default:
		fmt.Fprintln(os.Stderr, "usage: vh (gen|drive) <Cnn>")
		os.Exit(2)
	}
}
