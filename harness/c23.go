package main

import (
	"bufio"
	"fmt"
	"os"
	"strconv"
	"strings"
	"sync"
	"time"

	"github.com/cube2222/octosql/datasources/json"
	"github.com/cube2222/octosql/execution/files"
	"github.com/cube2222/octosql/physical"
)

func init() {
	register("C23", &prop{gen: genC23, drive: driveFiles})
}

func genC23(g *Gen, tier string, w *bufio.Writer) {
	thorough := tier == "thorough"
	mul := 1
	if thorough {
		mul = 8
	}
	// --- JSON files: every row count around the 64-line batch boundaries and the 100-row preview
	for rep := 0; rep < 2*mul; rep++ {
		for _, n := range rowCounts {
			fmt.Fprintln(w, jsonOp(g.U64()>>1, genJSONDoc(g, n, true)))
		}
	}
	for i := 0; i < 60*mul; i++ {
		fmt.Fprintln(w, jsonOp(g.U64()>>1, genJSONDoc(g, g.Intn(12), true)))
	}
	// nested values beyond the preview with one element / field replaced at the first, a middle, the last position
	// (quick: every 4th of the non-fitting cases; C24 runs all of them)
	every := 4
	if thorough {
		every = 1
	}
	genPositional(g, every, func(op string) { fmt.Fprintln(w, op) })
	for i := 0; i < 10*mul; i++ { // late rows with foreign kinds / extra / missing keys
		fmt.Fprintln(w, jsonOp(g.U64()>>1, genJSONDoc(g, 100+g.Intn(60), false)))
	}
	fmt.Fprintln(w, jsonOp(g.U64()>>1, genJSONDoc(g, 1000, true)))
	// --- CSV / TSV
	for rep := 0; rep < 2*mul; rep++ {
		for _, n := range []int{0, 1, 2, 3, 64, 99, 100, 101, 129} {
			fmt.Fprintln(w, genCSVDoc(g, n, false).op(g.U64()>>1))
		}
	}
	for i := 0; i < 80*mul; i++ {
		fmt.Fprintln(w, genCSVDoc(g, g.Intn(10), false).op(g.U64()>>1))
	}
	for i := 0; i < 10*mul; i++ {
		fmt.Fprintln(w, genCSVDoc(g, 100+g.Intn(40), true).op(g.U64()>>1))
	}
	for i := 0; i < 6*mul; i++ { // ragged files: an error, never a shortened or padded record
		d := genCSVDoc(g, 2+g.Intn(120), false)
		if len(d.rows) > 0 {
			r := g.Intn(len(d.rows))
			if g.Bool() || len(d.rows[r]) == 1 {
				d.rows[r] = append(d.rows[r], "extra")
			} else {
				d.rows[r] = d.rows[r][:len(d.rows[r])-1]
			}
		}
		fmt.Fprintln(w, d.op(g.U64()>>1))
	}
	fmt.Fprintln(w, genCSVDoc(g, 1000, false).op(g.U64()>>1))
	// --- lines: custom separators (self-overlapping ones included), the default separator, big files with the
	//     separator straddling the scanner's buffer boundaries
	for _, sep := range lineSeps {
		sep := sep
		for i := 0; i < 12*mul; i++ {
			fmt.Fprintln(w, linesOp(&sep, genLinesContent(g, sep, false)))
		}
		fmt.Fprintln(w, linesOp(&sep, genLinesContent(g, sep, true)))
		for i := 0; i < 2*mul; i++ {
			fmt.Fprintln(w, linesOp(&sep, genStraddle(g, sep)))
		}
	}
	for _, c := range []string{"aXYbXYc", "aaa", "aaaa", "abababa", "XY", "XYXY", "X", ""} {
		for _, sep := range []string{"XY", "aa", "aba", "ab"} {
			sep := sep
			fmt.Fprintln(w, linesOp(&sep, c))
		}
	}
	// pieces around the scanner's 64 KiB buffer: piece + separator must fit, the last unterminated piece must
	// leave one byte free; longer ones are reported as an error, never truncated
	for _, sep := range []string{",", "XY"} {
		sep := sep
		for _, d := range []int{-2, -1, 0, 1} {
			fmt.Fprintln(w, linesOp(&sep, strings.Repeat("a", 65536-len(sep)+d)+sep+"tail"))
			fmt.Fprintln(w, linesOp(&sep, "h"+sep+strings.Repeat("a", 65536+d)))
		}
	}
	fmt.Fprintln(w, linesOp(nil, strings.Repeat("a", 65535)+"\ntail"))
	fmt.Fprintln(w, linesOp(nil, strings.Repeat("a", 65536)+"\ntail\n"))
	empty := ""
	fmt.Fprintln(w, linesOp(&empty, "abc"))
	for i := 0; i < 20*mul; i++ {
		fmt.Fprintln(w, linesOp(nil, genLinesContent(g, Pick(g, []string{"\n", "\r\n"}), false)))
	}
	fmt.Fprintln(w, linesOp(nil, genLinesContent(g, "\n", true)))
	fmt.Fprintln(w, linesOp(nil, genStraddle(g, "\n")))
	// --- the same kinds of files piped on stdin in chunks, with extra preview opens
	for i := 0; i < 12*mul; i++ {
		pre := fmt.Sprintf("stdin %d %d ", g.U64()>>1, g.Intn(3))
		switch g.Intn(3) {
		case 0:
			fmt.Fprintln(w, pre+jsonOp(g.U64()>>1, genJSONDoc(g, Pick(g, []int{0, 1, 5, 64, 100, 101, 300}), true)))
		case 1:
			fmt.Fprintln(w, pre+genCSVDoc(g, Pick(g, []int{0, 1, 5, 100, 101, 300}), false).op(g.U64()>>1))
		default:
			sep := Pick(g, lineSeps)
			fmt.Fprintln(w, pre+linesOp(&sep, genLinesContent(g, sep, g.Chance(1, 3))))
		}
	}
	for i := 0; i < 2*mul; i++ { // big inputs: more than the 4 KiB / 1 MiB reader buffers
		pre := fmt.Sprintf("stdin %d %d ", g.U64()>>1, g.Intn(3))
		fmt.Fprintln(w, pre+jsonOp(g.U64()>>1, genJSONDoc(g, 3000, true)))
	}
	// --- pruned schemas (the optimizer drops unused columns): the kept columns still carry their own cells
	for i := 0; i < 25*mul; i++ {
		mask := Pick(g, []string{"10", "01", "110", "011", "101", "1", "0", "100"})
		if g.Bool() {
			d := genCSVDoc(g, Pick(g, []int{1, 2, 5, 20, 101, 120}), g.Bool())
			if dupNames(d.names) {
				continue
			}
			fmt.Fprintln(w, "proj "+mask+" "+d.op(g.U64()>>1))
			// no column used at all (COUNT(*), SELECT 1): still one record per row of the file, not per physical line —
			// quoted cells with line breaks and empty lines in them
			for r := range d.rows {
				for c := range d.rows[r] {
					if g.Chance(1, 6) {
						d.rows[r][c] = Pick(g, []string{"line\nbreak", "\n", "a\n\nb", "x\n", "\ny", "q\"\n\"z", "1\n2\n3"})
					}
				}
			}
			fmt.Fprintln(w, "proj 0 "+d.op(g.U64()>>1))
			fmt.Fprintln(w, "proj "+Pick(g, []string{"1", "10", "01"})+" "+d.op(g.U64()>>1))
		} else {
			fmt.Fprintln(w, "proj "+mask+" "+jsonOp(g.U64()>>1, genJSONDoc(g, Pick(g, []int{1, 2, 5, 20, 101, 120}), g.Bool())))
		}
	}
	// --- parquet: written with the repository's parquet-go, read back through the real datasource
	genPqOps(g, tier, w)
	// --- the reorder queue under seeded worker delays
	for _, n := range []int{0, 1, 63, 64, 65, 127, 128, 129, 640, 1000, 2500} {
		for i := 0; i < 2*mul; i++ {
			fmt.Fprintf(w, "jsonq %d %d\n", g.U64()>>1, n)
		}
	}
}

// driveFiles: ops shared by C23 and C24
//
//	json <renderseed> <n> row…                          rows are jo… objects
//	csv <renderseed> <c|t> <h|n> <ncols> <name hex>… <nrows> cell…   (a row of another length is prefixed by r<k>)
//	lines <s<sephex>|-> c<contenthex>
//	stdin <chunkseed> <extra previews> <one of the above>
//	jsonq <delayseed> <n>
//	ints <hex> | bools <hex>                             the cell parsers (C24)
//	rawjson|rawcsv|rawtsv <contenthex>                  (probes)
func driveFiles(toks []string) string {
	switch toks[0] {
	case "json", "csv", "lines":
		format, name, data, opts := fileOf(toks)
		return runBytes(format, name, data, opts)
	case "proj":
		// the optimizer hands the executing datasource a pruned schema: keep the fields selected by a cyclic 0/1 mask
		mask := toks[1]
		format, name, data, opts := fileOf(toks[2:])
		dir, path := writeScratch("files", name, data)
		defer os.RemoveAll(dir)
		return runDatasource(format, path, opts, func(s physical.Schema) physical.Schema {
			var fields []physical.SchemaField
			for i, f := range s.Fields {
				if mask[i%len(mask)] == '1' {
					fields = append(fields, f)
				}
			}
			return physical.NewSchema(fields, -1, physical.WithNoRetractions(true))
		}).line()
	case "stdin":
		chunkSeed, _ := strconv.ParseUint(toks[1], 10, 64)
		previews, _ := strconv.Atoi(toks[2])
		format, name, data, opts := fileOf(toks[3:])
		return runStdin(chunkSeed, previews, format, name, data, opts)
	case "jsonq":
		seed, _ := strconv.ParseUint(toks[1], 10, 64)
		n, _ := strconv.Atoi(toks[2])
		return runQueue(seed, n)
	case "ints", "bools":
		return driveParsers(toks)
	case "pq":
		return drivePq(toks)
	case "rawjson":
		return runBytes("json", "t.json", []byte(unhex(toks[1])), nil)
	case "rawcsv":
		return runBytes("csv", "t.csv", []byte(unhex(toks[1])), nil)
	case "rawtsv":
		return runBytes("tsv", "t.tsv", []byte(unhex(toks[1])), nil)
	}
	return "bad-op"
}

// fileOf decodes a json / csv / lines op into the bytes of the file
func fileOf(toks []string) (format, name string, data []byte, opts map[string]string) {
	opts = map[string]string{}
	switch toks[0] {
	case "json":
		seed, _ := strconv.ParseUint(toks[1], 10, 64)
		n, _ := strconv.Atoi(toks[2])
		rest := toks[3:]
		rows := make([]*jv, n)
		for i := range rows {
			rows[i], rest = parseJ(rest)
		}
		return "json", "t.json", renderJSONLines(seed, rows), opts
	case "csv":
		seed, _ := strconv.ParseUint(toks[1], 10, 64)
		sep := ','
		format, name = "csv", "t.csv"
		if toks[2] == "t" {
			sep = '\t'
			format, name = "tsv", "t.tsv"
		}
		var header []string
		ncols, _ := strconv.Atoi(toks[4])
		rest := toks[5:]
		names := make([]string, ncols)
		for i := range names {
			names[i] = unhex(rest[i][1:])
		}
		rest = rest[ncols:]
		if toks[3] == "h" {
			header = names
		} else {
			opts["header"] = "false"
		}
		nrows, _ := strconv.Atoi(rest[0])
		rest = rest[1:]
		rows := make([][]string, nrows)
		for i := range rows {
			k := ncols
			if len(rest) > 0 && rest[0][0] == 'r' {
				k, _ = strconv.Atoi(rest[0][1:])
				rest = rest[1:]
			}
			rows[i] = make([]string, k)
			for j := range rows[i] {
				rows[i][j] = parseCell(rest[j]).s
			}
			rest = rest[k:]
		}
		return format, name, renderCSV(seed, sep, header, rows), opts
	case "lines":
		if toks[1] != "-" {
			opts["sep"] = unhex(toks[1][1:])
		}
		return "lines", "t.txt", []byte(unhex(toks[2][1:])), opts
	}
	panic("bad file op " + toks[0])
}

func runBytes(format, name string, data []byte, opts map[string]string) string {
	dir, path := writeScratch("files", name, data)
	defer os.RemoveAll(dir)
	if opts == nil {
		opts = map[string]string{}
	}
	return runDatasource(format, path, opts, nil).line()
}

// runStdin pipes data into a replaced os.Stdin in seeded chunks while the real datasource runs:
// 1 + previews preview opens (schema inference), then the executing open.
func runStdin(chunkSeed uint64, previews int, format, name string, data []byte, opts map[string]string) string {
	r, w, err := os.Pipe()
	if err != nil {
		panic(err)
	}
	old := os.Stdin
	os.Stdin = r
	files.VerifResetStdin()
	defer func() {
		os.Stdin = old
		r.Close()
	}()
	var wg sync.WaitGroup
	wg.Add(1)
	go func() {
		defer wg.Done()
		defer w.Close()
		g := NewGen(chunkSeed)
		sizes := []int{1, 2, 7, 100, 4095, 4096, 4097, 65536, 1 << 20}
		mode := g.Intn(4) // 0: one size, 1: mixed sizes, 2: everything at once, 3: tiny then rest
		one := Pick(g, sizes)
		rest := data
		for len(rest) > 0 {
			k := one
			switch mode {
			case 1:
				k = Pick(g, sizes)
			case 2:
				k = len(rest)
			case 3:
				if len(rest) < len(data) {
					k = len(rest)
				} else {
					k = 1 + g.Intn(200)
				}
			}
			if k > len(rest) {
				k = len(rest)
			}
			if _, err := w.Write(rest[:k]); err != nil {
				return
			}
			rest = rest[k:]
			if g.Chance(1, 4) {
				time.Sleep(time.Duration(g.Intn(300)) * time.Microsecond)
			}
		}
	}()
	path := "stdin." + strings.SplitN(name, ".", 2)[1]
	ctx := fileCtx()
	for i := 0; i < previews; i++ {
		// an additional schema inference (another reference to the same table)
		if _, _, err := creatorFor(format)(ctx, path, opts); err != nil {
			r.Close()
			wg.Wait()
			return "err:create"
		}
	}
	res := runDatasource(format, path, opts, nil)
	r.Close()
	wg.Wait()
	return res.line()
}

// runQueue: an n-line JSON file through the real datasource with seeded delays in the parser workers; prints the
// schedule the consumer observed.
func runQueue(seed uint64, n int) string {
	var sb strings.Builder
	for i := 0; i < n; i++ {
		fmt.Fprintf(&sb, "{\"i\": %d}\n", i)
	}
	dir, path := writeScratch("queue", "q.json", []byte(sb.String()))
	defer os.RemoveAll(dir)
	var mu sync.Mutex
	var log []string
	add := func(s string) {
		mu.Lock()
		log = append(log, s)
		mu.Unlock()
	}
	json.VerifArrival = func(first, count int) { add(fmt.Sprintf("A%d:%d", first, count)) }
	json.VerifReaderDone = func() { add("D") }
	json.VerifWorkerDelay = func(first int) {
		h := NewGen(seed ^ uint64(first)*0x9E3779B97F4A7C15)
		switch h.Intn(4) {
		case 0:
			time.Sleep(time.Duration(h.Intn(2000)) * time.Microsecond)
		case 1:
			time.Sleep(time.Duration(h.Intn(100)) * time.Microsecond)
		}
	}
	defer func() {
		json.VerifArrival, json.VerifReaderDone, json.VerifWorkerDelay = nil, nil, nil
	}()
	ctx := fileCtx()
	impl, schema, err := json.Creator(ctx, path, map[string]string{})
	if err != nil {
		return "err:create"
	}
	node, err := impl.Materialize(ctx, physicalEnv(), schema, nil)
	if err != nil {
		return "err:materialize"
	}
	err = node.Run(execCtx(ctx), produceInto(func(vals []execution_Value) {
		if len(vals) == 1 {
			add("P" + strconv.Itoa(int(vals[0].Float)))
		} else {
			add("P?")
		}
	}), noMeta)
	if err != nil {
		add("X")
	} else {
		add("E")
	}
	mu.Lock()
	defer mu.Unlock()
	return strings.Join(log, " ")
}

func dupNames(names []string) bool {
	seen := map[string]bool{}
	for _, n := range names {
		if seen[n] {
			return true
		}
		seen[n] = true
	}
	return false
}
