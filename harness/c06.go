package main

import (
	"bufio"
	"encoding/hex"
	"fmt"
	"os"
	"path/filepath"
	"strings"
)

func init() {
	register("C06", &prop{gen: genC06, drive: driveErrq})
}

// an input file of a generated query
type qfile struct{ name, content string }

type errShape struct {
	sql   string
	plan  string
	files []qfile
}

func errqLine(mode string, s errShape) string {
	sink := "eagerSink"
	if mode == "batch_table" || mode == "live_table" {
		sink = "batchSink"
	} else if mode == "stream_native" {
		sink = "streamSink"
	}
	var sb strings.Builder
	fmt.Fprintf(&sb, "errq %s %s PLAN %s SQL %s FILES %d", mode, sink, s.plan, hex.EncodeToString([]byte(s.sql)), len(s.files))
	for _, f := range s.files {
		fmt.Fprintf(&sb, " %s %s", hex.EncodeToString([]byte(f.name)), hex.EncodeToString([]byte(f.content)))
	}
	return sb.String()
}

func flag01(b bool) string {
	if b {
		return "1"
	}
	return "0"
}

// eTable: c0 int, m marker (1 on the row at position pos, if pos >= 0), c1 string
func eTable(g *Gen, n, pos int) string {
	var sb strings.Builder
	sb.WriteString("c0,m,c1\n")
	for i := 0; i < n; i++ {
		m := 0
		if i == pos {
			m = 1
		}
		fmt.Fprintf(&sb, "%d,%d,%s\n", g.Intn(4), m, Pick(g, []string{"x", "y", "z"}))
	}
	return sb.String()
}

func rTable() string { return "k,v\n0,a\n1,b\n2,c\n3,d\n" }

// genC06: every query shape × an error at any row position (or none) × several failure mechanisms × sinks.
func genC06(g *Gen, tier string, w *bufio.Writer) {
	n := 400
	if tier == "thorough" {
		n = 8000
	}
	for i := 0; i < n; i++ {
		mode := Pick(g, []string{"json", "csv", "stream_native", "batch_table"})
		eager := mode != "batch_table"
		rows := 1 + g.Intn(8)
		pos := g.Intn(rows + 1) // == rows: no failing row
		if pos == rows || g.Chance(1, 5) {
			pos = -1
		}
		fails := pos >= 0
		// two mechanisms that fail exactly on the marked row
		pred := "((m = 0) OR (panic(m) = 1))"
		if g.Bool() {
			pred = "((10 / (1 - m)) > 0)"
		}
		e := qfile{"e.csv", eTable(g, rows, pos)}
		r := qfile{"r.csv", rTable()}
		ord := func(child string) string { // ORDER BY above child: a node only in the eager sinks
			if eager {
				return "un orderBy 0 " + child
			}
			return child
		}
		var s errShape
		shapeNo := g.Intn(24)
		if shapeNo >= 22 {
			// a join whose one input is EMPTY and ends at once while the other, much longer input fails at its end:
			// the join must still report the failure of the input that is still running
			big := 4000 + g.Intn(2000)
			var sb strings.Builder
			sb.WriteString("c0,m,c1\n")
			for k := 0; k < big; k++ {
				m := 0
				if k == big-1 {
					m = 1
				}
				fmt.Fprintf(&sb, "%d,%d,x\n", k%4, m)
			}
			files := []qfile{{"e.csv", sb.String()}, r}
			side := "(SELECT c0 FROM e.csv t2 WHERE " + pred + ") t"
			empty := "(SELECT k FROM r.csv r2 WHERE k > 100) r"
			var s errShape
			if shapeNo == 22 {
				s = errShape{"SELECT t.c0 FROM " + side + " JOIN " + empty + " ON t.c0 = r.k", "un map 0 bin streamJoin 0 un map 0 un filter 1 src csvSource 0 un map 0 un filter 0 src csvSource 0", files}
			} else {
				s = errShape{"SELECT t.c0 FROM " + empty + " JOIN " + side + " ON t.c0 = r.k", "un map 0 bin streamJoin 0 un map 0 un filter 0 src csvSource 0 un map 0 un filter 1 src csvSource 0", files}
			}
			fmt.Fprintln(w, errqLine(mode, s))
			continue
		}
		if shapeNo >= 14 {
			// a failing expression ABOVE a node: the error is handed DOWN to the node's produce call and must come
			// back up through it. `boom` fails on every row it sees, so the query fails iff the inner query has a row.
			e2 := qfile{"e.csv", eTable(g, rows, -1)}
			boom := "(panic(c0) = 1)"
			var inner, plan string
			files := []qfile{e2}
			switch shapeNo {
			case 14:
				inner, plan = "SELECT DISTINCT c0 FROM e.csv t", "un distinct 0 un map 0 src csvSource 0"
			case 15:
				inner, plan = "SELECT c0 FROM e.csv t ORDER BY c0 LIMIT 100", "un orderBy 0 un map 0 src csvSource 0"
			case 16:
				inner, plan = "SELECT c1, COUNT(c0) AS c0 FROM e.csv t GROUP BY c1", "un map 0 un simpleGroupBy 0 src csvSource 0"
			case 17:
				inner, plan = "SELECT c1, COUNT(c0) AS c0 FROM e.csv t GROUP BY c1 TRIGGER COUNTING 1", "un map 0 un customGroupBy 0 src csvSource 0"
			case 18:
				inner, plan = "SELECT t.c0 AS c0 FROM e.csv t JOIN r.csv r ON t.c0 = r.k", "un map 0 bin streamJoin 0 src csvSource 0 src csvSource 0"
				files = append(files, r)
			case 19:
				inner, plan = "SELECT r.k AS c0 FROM r.csv r LEFT JOIN e.csv t ON t.c0 = r.k", "un map 0 bin outerJoin 0 src csvSource 0 src csvSource 0"
				files = append(files, r)
			case 20:
				inner, plan = "SELECT t.c0 AS c0 FROM e.csv t LOOKUP JOIN r.csv r ON t.c0 = r.k", "un map 0 bin lookupJoin 0 src csvSource 0 src csvSource 0"
				files = append(files, r)
			default:
				inner, plan = "SELECT c0 FROM e.csv t LIMIT 100", "un limit 0 un map 0 src csvSource 0"
			}
			if shapeNo == 21 && g.Bool() {
				// the failure happens ABOVE a Limit on exactly the record that fills the limit (or one before / after it): the
				// limit's own "stop" must not be confused with the error coming back down through it
				lim := rows
				failsHere := false
				if pos >= 0 {
					lim = pos + 1 + Pick(g, []int{0, 0, 0, 1, 100, -1})
					if lim < 1 {
						lim = 1
					}
					failsHere = lim >= pos+1
				}
				inner = fmt.Sprintf("SELECT c0, m FROM e.csv t LIMIT %d", lim)
				var s errShape
				if g.Bool() {
					s = errShape{"SELECT c0 FROM (" + inner + ") q WHERE " + pred, "un map 0 un filter " + flag01(failsHere) + " un limit 0 un map 0 src csvSource 0", []qfile{e}}
				} else {
					s = errShape{"SELECT " + pred + " AS b FROM (" + inner + ") q", "un map " + flag01(failsHere) + " un limit 0 un map 0 src csvSource 0", []qfile{e}}
				}
				fmt.Fprintln(w, errqLine(mode, s))
				continue
			}
			// every generated inner query returns at least one row (rows >= 1; r.csv covers keys 0..3; outer join keeps r's rows)
			where := g.Bool()
			var s errShape
			if where {
				s = errShape{"SELECT c0 FROM (" + inner + ") q WHERE " + boom, "un map 0 un filter 1 " + plan, files}
			} else {
				s = errShape{"SELECT " + boom + " AS b FROM (" + inner + ") q", "un map 1 " + plan, files}
			}
			fmt.Fprintln(w, errqLine(mode, s))
			continue
		}
		switch shapeNo {
		case 0: // WHERE
			s = errShape{"SELECT c0 FROM e.csv t WHERE " + pred, "un map 0 un filter " + flag01(fails) + " src csvSource 0", []qfile{e}}
		case 1: // projection
			s = errShape{"SELECT c0, " + pred + " AS p FROM e.csv t", "un map " + flag01(fails) + " src csvSource 0", []qfile{e}}
		case 2: // DISTINCT above a failing projection
			s = errShape{"SELECT DISTINCT c0, " + pred + " AS p FROM e.csv t", "un distinct 0 un map " + flag01(fails) + " src csvSource 0", []qfile{e}}
		case 3: // ORDER BY above a failing projection
			s = errShape{"SELECT c0, " + pred + " AS p FROM e.csv t ORDER BY c0", ord("un map " + flag01(fails) + " src csvSource 0"), []qfile{e}}
		case 4: // nested ORDER BY + LIMIT above a failing filter
			s = errShape{"SELECT * FROM (SELECT c0 FROM e.csv t WHERE " + pred + " ORDER BY c0 LIMIT 100) q", "un orderBy 0 un map 0 un filter " + flag01(fails) + " src csvSource 0", []qfile{e}}
		case 5: // GROUP BY with a failing aggregate argument
			s = errShape{"SELECT c1, COUNT(" + pred + ") AS c FROM e.csv t GROUP BY c1", "un map 0 un simpleGroupBy " + flag01(fails) + " src csvSource 0", []qfile{e}}
		case 6: // GROUP BY above a failing filter, counting trigger
			s = errShape{"SELECT c1, COUNT(c0) AS c FROM e.csv t WHERE " + pred + " GROUP BY c1 TRIGGER COUNTING 2", "un map 0 un customGroupBy 0 un filter " + flag01(fails) + " src csvSource 0", []qfile{e}}
		case 7: // stream join, failing filter above the join
			s = errShape{"SELECT t.c0, r.v FROM e.csv t JOIN r.csv r ON t.c0 = r.k WHERE " + strings.ReplaceAll(pred, "m", "t.m"), "un map 0 un filter " + flag01(fails) + " bin streamJoin 0 src csvSource 0 src csvSource 0", []qfile{e, r}}
		case 8: // outer join with a failing subquery on one side
			s = errShape{"SELECT t.c0, r.v FROM r.csv r LEFT JOIN (SELECT c0 FROM e.csv t2 WHERE " + pred + ") t ON t.c0 = r.k", "un map 0 bin outerJoin 0 src csvSource 0 un map 0 un filter " + flag01(fails) + " src csvSource 0", []qfile{e, r}}
		case 9: // lookup join
			s = errShape{"SELECT t.c0, r.v FROM e.csv t LOOKUP JOIN r.csv r ON t.c0 = r.k WHERE " + strings.ReplaceAll(pred, "m", "t.m"), "un map 0 un filter " + flag01(fails) + " bin lookupJoin 0 src csvSource 0 src csvSource 0", []qfile{e, r}}
		case 10: // subquery expression (single column)
			s = errShape{"SELECT r.v FROM r.csv r WHERE r.k IN (SELECT c0 FROM e.csv t WHERE " + pred + ")", "un map 0 sub filter 0 singleColQuery src csvSource 0 un map 0 un filter " + flag01(fails) + " src csvSource 0", []qfile{e, r}}
		case 11: // malformed JSON row at a position
			nj := 1 + g.Intn(130)
			bad := g.Intn(nj + 1)
			badRow := "{\"a\": 1, \"b\" \n"
			if g.Chance(1, 2) {
				// a well-formed row the inferred schema has no place for: the 100 previewed rows all carry an Int `a`, a later
				// row lacks it / holds a string, an object, a fraction
				nj = 101 + g.Intn(60)
				bad = 100 + g.Intn(nj-100+1)
				badRow = Pick(g, []string{"{\"b\": \"x\"}\n", "{\"a\": \"str\", \"b\": \"x\"}\n", "{\"a\": {\"z\": 1}, \"b\": \"x\"}\n", "{}\n", "{\"a\": [1], \"b\": \"x\"}\n"})
			}
			var sb strings.Builder
			nestedShape := ""
			if g.Chance(1, 4) {
				// the misfit sits INSIDE a list or an object (an element that is not the last one; a nested key that is absent)
				nj = 101 + g.Intn(60)
				bad = 100 + g.Intn(nj-100+1)
				if g.Bool() {
					nestedShape = "SELECT a, l FROM j.json t"
					badRow = Pick(g, []string{"{\"a\": 1, \"b\": \"x\", \"l\": [\"oops\", 5], \"o\": {\"x\": 1, \"y\": 2}}\n", "{\"a\": 1, \"b\": \"x\", \"l\": [1, {\"z\": 1}, 5], \"o\": {\"x\": 1, \"y\": 2}}\n"})
				} else {
					nestedShape = "SELECT a, o FROM j.json t"
					badRow = Pick(g, []string{"{\"a\": 1, \"b\": \"x\", \"l\": [1, 2], \"o\": {\"x\": 1}}\n", "{\"a\": 1, \"b\": \"x\", \"l\": [1, 2], \"o\": {\"x\": \"s\", \"y\": 2}}\n"})
				}
			}
			for k := 0; k < nj; k++ {
				if k == bad {
					sb.WriteString(badRow)
				} else if nestedShape != "" {
					fmt.Fprintf(&sb, "{\"a\": %d, \"b\": \"x\", \"l\": [1, 2], \"o\": {\"x\": 1, \"y\": 2}}\n", k%3)
				} else {
					fmt.Fprintf(&sb, "{\"a\": %d, \"b\": \"x\"}\n", k%3)
				}
			}
			shape := Pick(g, []string{"SELECT a FROM j.json t", "SELECT DISTINCT a FROM j.json t", "SELECT a FROM j.json t ORDER BY a", "SELECT a, COUNT(b) AS c FROM j.json t GROUP BY a"})
			if nestedShape != "" {
				shape = nestedShape
			}
			plan := "un map 0 src jsonSource " + flag01(bad < nj)
			switch {
			case strings.Contains(shape, "DISTINCT"):
				plan = "un distinct 0 " + plan
			case strings.Contains(shape, "ORDER BY"):
				plan = ord(plan)
			case strings.Contains(shape, "GROUP BY"):
				plan = "un map 0 un simpleGroupBy 0 src jsonSource " + flag01(bad < nj)
			}
			s = errShape{shape, plan, []qfile{{"j.json", sb.String()}}}
		case 12: // CSV row with the wrong number of fields
			nr := 1 + g.Intn(6)
			bad := g.Intn(nr + 1)
			badRow := "1,2,3\n"
			if g.Chance(1, 2) {
				// a cell the inferred column type has no place for, beyond the 100 previewed rows
				nr = 101 + g.Intn(40)
				bad = 100 + g.Intn(nr-100+1)
				badRow = Pick(g, []string{"x,x\n", "1.5,x\n", ",x\n", "true,x\n"})
			}
			var sb strings.Builder
			sb.WriteString("a,b\n")
			for k := 0; k < nr; k++ {
				if k == bad {
					sb.WriteString(badRow)
				} else {
					fmt.Fprintf(&sb, "%d,x\n", k)
				}
			}
			shape := Pick(g, []string{"SELECT a FROM w.csv t", "SELECT DISTINCT a FROM w.csv t", "SELECT a FROM w.csv t ORDER BY a"})
			plan := "un map 0 src csvSource " + flag01(bad < nr)
			if strings.Contains(shape, "DISTINCT") {
				plan = "un distinct 0 " + plan
			} else if strings.Contains(shape, "ORDER BY") {
				plan = ord(plan)
			}
			s = errShape{shape, plan, []qfile{{"w.csv", sb.String()}}}
		default: // lines source with an over-long line (bufio.Scanner: token too long)
			nr := 1 + g.Intn(5)
			bad := g.Intn(nr + 1)
			var sb strings.Builder
			for k := 0; k < nr; k++ {
				if k == bad {
					sb.WriteString(strings.Repeat("x", 70000) + "\n")
				} else {
					fmt.Fprintf(&sb, "line %d\n", k)
				}
			}
			shape := Pick(g, []string{"SELECT text FROM l.lines t", "SELECT DISTINCT text FROM l.lines t", "SELECT COUNT(text) AS c FROM l.lines t"})
			plan := "un map 0 src linesSource " + flag01(bad < nr)
			if strings.Contains(shape, "DISTINCT") {
				plan = "un distinct 0 " + plan
			} else if strings.Contains(shape, "COUNT") {
				plan = "un map 0 un simpleGroupBy 0 src linesSource " + flag01(bad < nr)
			}
			s = errShape{shape, plan, []qfile{{"l.lines", sb.String()}}}
		}
		fmt.Fprintln(w, errqLine(mode, s))
	}
}

func driveErrq(toks []string) string {
	mode := toks[1]
	var sql string
	var files []qfile
	for i := 0; i < len(toks); i++ {
		if toks[i] == "SQL" {
			b, _ := hex.DecodeString(toks[i+1])
			sql = string(b)
		}
		if toks[i] == "FILES" {
			rest := toks[i+2:]
			for len(rest) >= 2 {
				n, _ := hex.DecodeString(rest[0])
				c, _ := hex.DecodeString(rest[1])
				files = append(files, qfile{string(n), string(c)})
				rest = rest[2:]
			}
		}
	}
	dir := scratchDir("errq")
	defer os.RemoveAll(dir)
	for _, f := range files {
		if err := os.WriteFile(filepath.Join(dir, f.name), []byte(f.content), 0o644); err != nil {
			panic(err)
		}
	}
	res := runOctosql(dir, nil, sql, "-o", mode)
	switch {
	case res.Panicked:
		return "panic"
	case res.TimedOut:
		return "timeout"
	case res.Exit != 0:
		if strings.TrimSpace(res.Stderr) == "" {
			return "err-without-message"
		}
		return "err"
	default:
		return "ok"
	}
}
