package main

// C04 — query optimization never changes results.
//
//   plan @TABLES <n> table* @SQL <hex> @P0 <plan>
//       structural tie. drive: plan the SQL with the real parser / typechecker (it must give <plan> again), run
//       optimizer.Optimize, print the dump of the result.   model: the Lean `optimize` on <plan>.
//   raw <plan>
//       the same on a directly generated plan whose datasources are mocks that may accept pushed-down predicates.
//   optq <mode> <kinds> @TABLES <n> table* @SQL <hex> @TOP <order/limit> @P0 <plan>
//       behavioural tie + oracle: the real binary with --optimize=false (A) and with the default (B);
//       output `A <rows> B <rows>`, rows of each run sorted.   model: `denote` of <plan> and of the optimized plan.

import (
	"bufio"
	"encoding/hex"
	"fmt"
	"os"
	"sort"
	"strconv"
	"strings"
	"time"

	"github.com/cube2222/octosql/octosql"
	"github.com/cube2222/octosql/optimizer"
	"github.com/cube2222/octosql/physical"
)

func init() {
	register("C04", &prop{gen: genC04, drive: driveC04})
}

func kindOfType(t octosql.Type) byte {
	if t.TypeID == octosql.TypeIDUnion {
		var k byte = '?'
		for _, a := range t.Union.Alternatives {
			if a.TypeID == octosql.TypeIDNull {
				continue
			}
			if k != '?' {
				return '?'
			}
			k = kindOfType(a)
		}
		return k
	}
	switch t.TypeID {
	case octosql.TypeIDInt:
		return 'i'
	case octosql.TypeIDFloat:
		return 'f'
	case octosql.TypeIDBoolean:
		return 'b'
	case octosql.TypeIDString:
		return 's'
	case octosql.TypeIDNull:
		return 's'
	}
	return '?'
}

func dumpTop(p c04Planned) (string, bool) {
	d := &planDumper{}
	ok := true
	func() {
		defer func() {
			if r := recover(); r != nil {
				ok = false
			}
		}()
		d.exprs(p.orderBy)
		d.w(strconv.Itoa(len(p.dirs)))
		for _, dir := range p.dirs {
			if dir == "desc" {
				d.w("-1")
			} else {
				d.w("1")
			}
		}
		if p.limit != nil {
			d.w("L")
			d.expr(*p.limit)
		} else {
			d.w("-")
		}
	}()
	return strings.Join(d.out, " "), ok
}

// withTables writes the tables into a scratch directory, makes it the working directory and runs f.
func withTables(tables []jtable04, f func(dir string) string) string {
	dir := scratchDir("c04")
	defer os.RemoveAll(dir)
	for _, t := range tables {
		t.write(dir)
	}
	old, _ := os.Getwd()
	if err := os.Chdir(dir); err != nil {
		panic(err)
	}
	defer os.Chdir(old)
	return f(dir)
}

func encodeTables(tables []jtable04) string {
	parts := []string{strconv.Itoa(len(tables))}
	for _, t := range tables {
		parts = append(parts, t.encode())
	}
	return strings.Join(parts, " ")
}

type c04Case struct {
	tables []jtable04
	sql    string
	// structural only: the query is outside what `denote` models (outer joins print retractions, IN, tumble, …)
	planOnly bool
}

// c04Templates: fixed query shapes (random tables) that make sure every rule and every known defect is exercised
// in every run; t0/t1 are CSV (k Int, a Int, b String, c Float / k Int, a String, d Int), j0 is JSON with a list.
func c04Templates(g *Gen) []c04Case {
	t0 := genFixedTable(g, "t0.csv", []qcol{{name: "k", kind: 'i', nullable: true}, {name: "a", kind: 'i', nullable: true}, {name: "b", kind: 's'}, {name: "c", kind: 'f', nullable: true}}, 7)
	t1 := genFixedTable(g, "t1.csv", []qcol{{name: "k", kind: 'i', nullable: true}, {name: "a", kind: 's', nullable: true}, {name: "d", kind: 'i'}}, 7)
	j0 := genFixedTable(g, "j0.json", []qcol{{name: "k", kind: 'f', nullable: true}, {name: "a", kind: 's'}, {name: "l", kind: 'l'}}, 5)
	w0 := genFixedTable(g, "w0.csv", []qcol{{name: "k", kind: 'i'}, {name: "ts", kind: 'T'}, {name: "a", kind: 'i', nullable: true}}, 6)
	csv := []jtable04{t0, t1}
	n := strconv.Itoa(1 + g.Intn(3))
	lit := strconv.Itoa(g.Intn(3))
	tie := jtable04{file: "tie.csv", cols: []qcol{{name: "b", kind: 'i'}, {name: "a", kind: 'i'}, {name: "k", kind: 'i'}},
		rows: [][]octosql.Value{{octosql.NewInt(1), octosql.NewInt(2), octosql.NewInt(0)}, {octosql.NewInt(2), octosql.NewInt(1), octosql.NewInt(0)}}}
	cs := []c04Case{
		// the witness of Octo.C04.C04_refuted: the two rows tie on k, the unused column b decides which one LIMIT 1 keeps
		{tables: []jtable04{tie}, sql: "SELECT q.a FROM (SELECT t.b AS b, t.a AS a, t.k AS k FROM tie.csv t ORDER BY k LIMIT 1) q"},
		// the field an Unnest expands is not otherwise used (fixed defect: the optimizer removed it)
		{tables: []jtable04{j0}, sql: "SELECT q.x FROM (SELECT a.k AS x, unnest(a.l) AS u FROM j0.json a) q"},
		{tables: []jtable04{j0}, sql: "SELECT q.u, q.y FROM (SELECT a.k AS x, unnest(a.l) AS u, a.a AS y FROM j0.json a) q WHERE q.u > 1.5"},
		{tables: []jtable04{j0}, sql: "SELECT q.y FROM (SELECT unnest(a.l) AS u, a.a AS y, a.k AS x FROM j0.json a WHERE a.k IS NOT NULL) q"},
		// ORDER BY … LIMIT inside, tie-break columns unused outside (known finding when the cut is ambiguous)
		{tables: csv, sql: "SELECT q.x FROM (SELECT a.b AS y, a.k AS x, a.a AS z FROM t0.csv a ORDER BY x LIMIT " + n + ") q"},
		{tables: csv, sql: "SELECT q.x FROM (SELECT a.k AS x, a.a AS z, a.c AS w FROM t0.csv a ORDER BY x DESC, z LIMIT " + n + ") q"},
		{tables: csv, sql: "SELECT q.x, q.y FROM (SELECT a.b AS y, a.k AS x, a.a AS z FROM t0.csv a ORDER BY z) q"},
		// COALESCE / IN conjuncts above a join (fixed defect: VariablesUsed panicked)
		{tables: csv, sql: "SELECT a.k AS x, b.d AS y FROM t0.csv a JOIN t1.csv b ON COALESCE(a.k, b.k) = " + lit},
		{tables: csv, sql: "SELECT a.b AS x, b.d AS y FROM t0.csv a JOIN t1.csv b ON a.k = b.k WHERE COALESCE(a.a, 0) = b.d AND COALESCE(b.k, 1) = 1"},
		{tables: csv, sql: "SELECT a.b AS x, b.d AS y FROM t0.csv a JOIN t1.csv b ON a.k = b.k WHERE a.a IN (1, 2)", planOnly: true},
		// NULL join keys (fixed defect: keys matched NULL = NULL)
		{tables: csv, sql: "SELECT a.k AS x, b.k AS y, b.d AS z FROM t0.csv a JOIN t1.csv b ON a.k = b.k"},
		{tables: csv, sql: "SELECT a.k AS x, b.k AS y FROM t0.csv a, t1.csv b WHERE b.k = a.k AND a.a = b.d"},
		{tables: csv, sql: "SELECT a.k AS x, b.k AS y FROM t0.csv a, t1.csv b WHERE b.k + 1 = a.k AND a.b != 'q' AND b.d >= 0 AND 1 = 1"},
		// three stacked filters
		{tables: csv, sql: "SELECT * FROM (SELECT * FROM (SELECT * FROM t0.csv a WHERE a.k >= 1) q1 WHERE q1.a IS NOT NULL) q2 WHERE q2.b != 'q'"},
		// group by: unused aggregates, aggregates over a join
		{tables: csv, sql: "SELECT q.g FROM (SELECT a.k AS g, COUNT(*) AS c, SUM(a.a) AS s FROM t0.csv a GROUP BY a.k) q"},
		{tables: csv, sql: "SELECT q.s, q.g FROM (SELECT a.k AS g, COUNT(*) AS c, SUM(a.a) AS s, MAX(a.c) AS m FROM t0.csv a GROUP BY a.k) q WHERE q.c >= 1"},
		{tables: csv, sql: "SELECT a.k AS g, COUNT(*) AS c, MIN(b.d) AS m FROM t0.csv a JOIN t1.csv b ON a.k = b.k WHERE b.d >= 0 GROUP BY a.k"},
		// DISTINCT inside: its columns must survive
		{tables: csv, sql: "SELECT q.x FROM (SELECT DISTINCT a.k AS x, a.a AS y FROM t0.csv a) q"},
		// lookup joins, also with a correlated right side
		{tables: csv, sql: "SELECT a.k AS x, b.d AS y FROM t0.csv a LOOKUP JOIN t1.csv b ON a.k = b.k WHERE a.b != 'q' AND b.d >= 0"},
		{tables: csv, sql: "SELECT a.k AS x, q.y AS y FROM t0.csv a LOOKUP JOIN (SELECT b.d AS y, b.k AS z, b.a AS w FROM t1.csv b WHERE b.k = a.k) q WHERE q.y >= a.a"},
		// self join, three-way join
		{tables: csv, sql: "SELECT p.k AS x, r.a AS y FROM t0.csv p JOIN t0.csv r ON p.k = r.a WHERE p.b = r.b"},
		{tables: csv, sql: "SELECT a.k AS x, b.d AS y, e.c AS z FROM t0.csv a JOIN t1.csv b ON a.k = b.k JOIN t0.csv e ON b.d = e.a WHERE e.b != 'q' AND a.a >= 0"},
		// table valued functions (a time field in the schema); outer joins
		{tables: []jtable04{w0}, sql: "SELECT x.k AS y FROM max_diff_watermark(source=>TABLE(w0.csv), max_diff=>INTERVAL 1 SECOND, time_field=>DESCRIPTOR(ts)) x WHERE x.a IS NOT NULL"},
		{tables: []jtable04{w0}, sql: "SELECT q.y FROM (SELECT x.k AS y, x.ts AS t, x.a AS z FROM max_diff_watermark(source=>TABLE(w0.csv), max_diff=>INTERVAL 1 SECOND, time_field=>DESCRIPTOR(ts)) x) q", planOnly: true},
		{tables: []jtable04{w0}, sql: "WITH w AS (SELECT * FROM max_diff_watermark(source=>TABLE(w0.csv), max_diff=>INTERVAL 1 SECOND, time_field=>DESCRIPTOR(ts)) y) SELECT x.window_end AS e, COUNT(*) AS c FROM tumble(source=>TABLE(w), window_length=>INTERVAL 2 SECONDS, offset=>INTERVAL 0 SECONDS) x GROUP BY x.window_end", planOnly: true},
		{tables: csv, sql: "SELECT a.k AS x, b.d AS y FROM t0.csv a LEFT JOIN t1.csv b ON a.k = b.k WHERE a.a >= 0", planOnly: true},
		{tables: csv, sql: "SELECT q.x FROM (SELECT a.k AS x, b.d AS y, b.a AS z FROM t0.csv a OUTER JOIN t1.csv b ON a.k = b.k AND a.a = b.d) q", planOnly: true},
		{tables: csv, sql: "SELECT r.i AS x, a.k AS y FROM range(start=>0, end=>3) r JOIN t0.csv a ON r.i = a.k", planOnly: true},
		// a common table expression referenced more than once: the SAME physical node occurs several times in the plan,
		// each occurrence is pruned for its own consumer (a rule that edits a node in place would damage the other one)
		{tables: csv, sql: "WITH x AS (SELECT a.k AS g, COUNT(*) AS c, SUM(a.a) AS s, MAX(a.a) AS m FROM t0.csv a GROUP BY a.k) SELECT p.g1 AS g1, p.s1 AS s1, q.m2 AS m2 FROM (SELECT g AS g1, s AS s1 FROM x) p JOIN (SELECT g AS g2, m AS m2 FROM x) q ON p.g1 = q.g2"},
		{tables: csv, sql: "WITH x AS (SELECT a.k AS g, SUM(a.a) AS s, COUNT(*) AS c, MIN(a.c) AS lo, MAX(a.c) AS hi FROM t0.csv a GROUP BY a.k) SELECT p.g1 AS g1, p.c1 AS c1, q.h2 AS h2 FROM (SELECT g AS g1, c AS c1 FROM x) p JOIN (SELECT g AS g2, hi AS h2, c AS c2 FROM x) q ON p.g1 = q.g2 WHERE q.c2 >= 1"},
		{tables: csv, sql: "WITH x AS (SELECT a.k AS g, a.a AS u, a.b AS v, a.c AS w FROM t0.csv a WHERE a.k IS NOT NULL) SELECT p.u1 AS u1, q.w2 AS w2 FROM (SELECT g AS g1, u AS u1, v AS v1 FROM x) p JOIN (SELECT g AS g2, w AS w2 FROM x) q ON p.g1 = q.g2 WHERE p.v1 != 'q'"},
		{tables: csv, sql: "WITH x AS (SELECT a.k AS g, b.d AS d, a.a AS u, b.a AS v FROM t0.csv a JOIN t1.csv b ON a.k = b.k) SELECT p.u1 AS u1, q.d2 AS d2, r.v3 AS v3 FROM (SELECT g AS g1, u AS u1 FROM x) p JOIN (SELECT g AS g2, d AS d2 FROM x) q ON p.g1 = q.g2 JOIN (SELECT g AS g3, v AS v3 FROM x) r ON q.g2 = r.g3"},
		{tables: csv, sql: "WITH x AS (SELECT a.k AS g, COUNT(*) AS c, SUM(a.a) AS s, MAX(a.a) AS m FROM t0.csv a GROUP BY a.k) SELECT p.g1 AS g1, p.m1 AS m1, q.s2 AS s2 FROM (SELECT g AS g1, m AS m1 FROM x) p LOOKUP JOIN (SELECT g AS g2, s AS s2 FROM x) q ON p.g1 = q.g2"},
	}
	return cs
}

// c04Line plans the case with the real planner and renders the op line ("" when it does not typecheck or is outside the model)
func c04Line(g *Gen, cs c04Case, behavioural bool) string {
	return withTables(cs.tables, func(dir string) string {
		p, err := c04PlanSQL(cs.sql)
		if err != nil {
			if os.Getenv("VERIF_DEBUG") != "" {
				fmt.Fprintf(os.Stderr, "c04: does not plan: %s: %v\n", cs.sql, err)
			}
			return ""
		}
		p0, ok := c04Dump(p.node, nil)
		if !ok {
			return ""
		}
		hexSQL := hex.EncodeToString([]byte(cs.sql))
		if !behavioural {
			return fmt.Sprintf("plan @TABLES %s @SQL %s @P0 %s", encodeTables(cs.tables), hexSQL, p0)
		}
		kinds := make([]byte, len(p.node.Schema.Fields))
		for i, f := range p.node.Schema.Fields {
			kinds[i] = kindOfType(f.Type)
			if kinds[i] == '?' {
				return ""
			}
		}
		top, ok := dumpTop(p)
		if !ok {
			return ""
		}
		mode := Pick(g, []string{"json", "json", "csv"})
		return fmt.Sprintf("optq %s %s @TABLES %s @SQL %s @TOP %s @P0 %s", mode, string(kinds), encodeTables(cs.tables), hexSQL, top, p0)
	})
}

func genC04(g *Gen, tier string, w *bufio.Writer) {
	nplan, nq, nraw, rounds := 1000, 350, 2000, 2
	if tier == "thorough" {
		nplan, nq, nraw, rounds = 8000, 2000, 40000, 20
	}
	for i := 0; i < nraw; i++ {
		if l := rawPlanLine(g); l != "" {
			fmt.Fprintln(w, l)
		}
	}
	for r := 0; r < rounds; r++ {
		for _, cs := range c04Templates(g) {
			if l := c04Line(g, cs, false); l != "" {
				fmt.Fprintln(w, l)
			}
			if !cs.planOnly {
				if l := c04Line(g, cs, true); l != "" {
					fmt.Fprintln(w, l)
				}
			}
		}
	}
	// event-time queries (outside the Lean fragment): the optimized run against the unoptimized run of the real binary
	for r := 0; r < rounds; r++ {
		w1 := jtable04{file: "w1.csv", cols: []qcol{{name: "k", kind: 'i'}, {name: "ts", kind: 'T'}, {name: "seen", kind: 'T'}, {name: "a", kind: 'i', nullable: true}}}
		base := time.Date(2021, 1, 1, 0, 0, 0, 0, time.UTC)
		nrows := 3 + g.Intn(8)
		at := 0
		for i := 0; i < nrows; i++ {
			at += g.Intn(3)
			a := octosql.NewInt(int64(g.Intn(5)))
			if g.Chance(1, 4) {
				a = octosql.NewNull()
			}
			w1.rows = append(w1.rows, []octosql.Value{octosql.NewInt(int64(i + 1)), octosql.NewString(base.Add(time.Duration(at) * time.Second).Format(time.RFC3339)),
				octosql.NewString(base.Add(time.Duration(60*(nrows-i)+g.Intn(50)) * time.Second).Format(time.RFC3339)), a})
		}
		mdw := "max_diff_watermark(source=>TABLE(w1.csv), max_diff=>INTERVAL 1 SECOND, time_field=>DESCRIPTOR(ts))"
		for _, sql := range []string{
			"SELECT COUNT(*) AS c, SUM(x.a) AS s FROM tumble(source=>TABLE(" + mdw + " w), window_length=>INTERVAL 2 SECONDS) x GROUP BY x.window_end",
			"SELECT COUNT(*) AS c, SUM(x.k) AS s FROM tumble(source=>TABLE(" + mdw + " w), window_length=>INTERVAL 2 SECONDS) x GROUP BY x.window_end",
			"SELECT COUNT(*) AS c, SUM(x.a) AS s FROM tumble(source=>TABLE(" + mdw + " w), window_length=>INTERVAL 3 SECONDS, time_field=>DESCRIPTOR(ts)) x GROUP BY x.window_end",
			"SELECT COUNT(x.seen) AS c, SUM(x.a) AS s FROM tumble(source=>TABLE(" + mdw + " w), window_length=>INTERVAL 2 SECONDS) x GROUP BY x.window_end TRIGGER ON WATERMARK",
			"SELECT x.a AS c, x.k AS s FROM " + mdw + " x WHERE x.a IS NOT NULL",
			"SELECT x.a AS c, x.a AS s FROM " + mdw + " x",
		} {
			fmt.Fprintf(w, "optx %s ii @TABLES %s @SQL %s\n", Pick(g, []string{"json", "csv"}), encodeTables([]jtable04{w1}), hex.EncodeToString([]byte(sql)))
		}
	}
	emitted := 0
	every := (nplan + nq) / nq // the (slow) behavioural ops are spread evenly over the output
	for i := 0; emitted < nplan+nq && i < 20*(nplan+nq); i++ {
		behavioural := emitted%every == every-1
		fileFmt := Pick(g, []string{"csv", "csv", "json"})
		ntab := 1 + g.Intn(3)
		var tables []jtable04
		for ti := 0; ti < ntab; ti++ {
			tables = append(tables, genJTable04(g, fmt.Sprintf("t%d.%s", ti, fileFmt), 7, true))
		}
		c := &jgen{g: g, tables: tables, opts: jopts{maxDepth: 3, outer: !behavioural, lookup: true, groupBy: true, unnest: true}}
		sql, _, _ := c.block(1+g.Intn(3), true)
		if line := c04Line(g, c04Case{tables: tables, sql: sql}, behavioural); line != "" {
			fmt.Fprintln(w, line)
			emitted++
		}
	}
}

func afterMarker(toks []string, marker string) []string {
	for i, t := range toks {
		if t == marker {
			return toks[i+1:]
		}
	}
	return nil
}

func sortCanonRows(s string) string {
	if !strings.HasPrefix(s, "rows ") {
		return s
	}
	parts := strings.Split(s, " | ")
	rows := parts[1:]
	for i, r := range rows {
		// -0 and 0 are one value (Compare): which of them a DISTINCT / MIN / MAX keeps depends on arrival order
		cells := strings.Split(r, " ")
		for j, c := range cells {
			if c == "#-0" {
				cells[j] = "#0"
			}
		}
		rows[i] = strings.Join(cells, " ")
	}
	sort.Strings(rows)
	return strings.Join(append([]string{parts[0]}, rows...), " | ")
}

func driveC04(toks []string) string {
	switch toks[0] {
	case "plan":
		tables, rest := parseJTables(afterMarker(toks, "@TABLES"))
		sqlHex := afterMarker(rest, "@SQL")[0]
		want := strings.Join(afterMarker(rest, "@P0"), " ")
		b, _ := hex.DecodeString(sqlHex)
		return withTables(tables, func(dir string) string {
			p, err := c04PlanSQL(string(b))
			if err != nil {
				return "replan-error"
			}
			p0, ok := c04Dump(p.node, nil)
			if !ok || p0 != want {
				return "replan-mismatch " + p0
			}
			out, ok := c04Dump(optimizer.Optimize(p.node), nil)
			if !ok {
				return "undumpable"
			}
			return out
		})
	case "optq":
		mode, kinds := toks[1], toks[2]
		tables, rest := parseJTables(afterMarker(toks, "@TABLES"))
		b, _ := hex.DecodeString(afterMarker(rest, "@SQL")[0])
		dir := scratchDir("c04q")
		defer os.RemoveAll(dir)
		for _, t := range tables {
			t.write(dir)
		}
		a := canonOutput(runOctosql(dir, nil, string(b), "-o", mode, "--optimize=false"), mode, kinds)
		o := canonOutput(runOctosql(dir, nil, string(b), "-o", mode), mode, kinds)
		return "A " + sortCanonRows(a) + " B " + sortCanonRows(o)
	case "optx":
		mode, kinds := toks[1], toks[2]
		tables, rest := parseJTables(afterMarker(toks, "@TABLES"))
		b, _ := hex.DecodeString(afterMarker(rest, "@SQL")[0])
		dir := scratchDir("c04x")
		defer os.RemoveAll(dir)
		for _, t := range tables {
			t.write(dir)
		}
		a := sortCanonRows(canonOutput(runOctosql(dir, nil, string(b), "-o", mode, "--optimize=false"), mode, kinds))
		o := sortCanonRows(canonOutput(runOctosql(dir, nil, string(b), "-o", mode), mode, kinds))
		if a == o {
			return "same"
		}
		return "differ A " + a + " B " + o
	case "raw":
		p := &planParser{toks: toks[1:]}
		n := p.node()
		out, ok := c04Dump(optimizer.Optimize(n), c04Policy)
		if !ok {
			return "undumpable"
		}
		return out
	case "optqerr":
		// debugging aid: the stderr of both runs
		mode := toks[1]
		tables, rest := parseJTables(afterMarker(toks, "@TABLES"))
		b, _ := hex.DecodeString(afterMarker(rest, "@SQL")[0])
		dir := scratchDir("c04q")
		defer os.RemoveAll(dir)
		for _, t := range tables {
			t.write(dir)
		}
		r1 := runOctosql(dir, nil, string(b), "-o", mode, "--optimize=false")
		r2 := runOctosql(dir, nil, string(b), "-o", mode)
		return strings.ReplaceAll(string(b)+" ## "+r1.Stderr+" ## "+r2.Stderr, "\n", " ")
	case "dbg":
		b, _ := hex.DecodeString(toks[1])
		p, err := c04PlanSQL(string(b))
		if err != nil {
			return "err " + err.Error()
		}
		s0, _ := c04Dump(p.node, nil)
		s1, _ := c04Dump(optimizer.Optimize(p.node), nil)
		return s0 + "\n  => " + s1
	}
	return "bad-op"
}

var _ = physical.NodeTypeMap
