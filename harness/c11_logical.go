package main

// C11, logical layer: boolean expressions built as logical.Expression, typed by the REAL typechecker
// (logical.And/Or/Constant/Variable/FunctionExpression.Typecheck), then Materialize + Evaluate.
//
// Untyped tree (prefix):  c <b1|b0|n>  |  v <n>  |  a l r  |  o l r  |  ! a  |  z a (is null)  |  Z a (is not null)
// Op:  ltreeall <k> <B|BN|N>*k <utree>
//      columns c0…c(k-1) of static type Boolean / NULL|Boolean / NULL; every record that conforms to those types
//      (first column slowest, TRUE < FALSE < NULL).  Output:  <typed tree as the typechecker produced it> | r1 r2 …
//      or `typecheck-panic`.

import (
	"context"
	"encoding/hex"
	"fmt"
	"reflect"
	"strconv"
	"strings"

	"github.com/cube2222/octosql/logical"
	"github.com/cube2222/octosql/octosql"
	"github.com/cube2222/octosql/physical"
)

func c11ParseUTree(toks []string) (logical.Expression, []string) {
	switch toks[0] {
	case "c":
		v, r := ParseValue(toks[1:])
		return logical.NewConstant(v), r
	case "v":
		return logical.NewVariable("c" + toks[1]), toks[2:]
	case "a", "o":
		l, r := c11ParseUTree(toks[1:])
		rr, r := c11ParseUTree(r)
		if toks[0] == "a" {
			return logical.NewAnd(l, rr), r
		}
		return logical.NewOr(l, rr), r
	case "!", "z", "Z":
		a, r := c11ParseUTree(toks[1:])
		name := map[string]string{"!": "not", "z": "is null", "Z": "is not null"}[toks[0]]
		return logical.NewFunctionExpression(name, []logical.Expression{a}), r
	}
	panic("c11: bad utree token " + toks[0])
}

func c11ColType(s string) octosql.Type {
	switch s {
	case "B":
		return octosql.Boolean
	case "N":
		return octosql.Null
	case "BN":
		return octosql.TypeSum(octosql.Boolean, octosql.Null)
	}
	panic("c11: bad column type " + s)
}

// c11EncodePhysical prints a physical.Expression in the tree encoding of c11.go (fails closed on other node kinds).
func c11EncodePhysical(e physical.Expression, out []string) []string {
	ty := strings.Fields(EncodeType(e.Type))
	switch e.ExpressionType {
	case physical.ExpressionTypeConstant:
		return append(append(append(out, "C"), ty...), EncodeValue(e.Constant.Value))
	case physical.ExpressionTypeVariable:
		if !strings.HasPrefix(e.Variable.Name, "c") {
			panic("c11: unexpected variable name " + e.Variable.Name)
		}
		return append(append(append(out, "V"), ty...), e.Variable.Name[1:])
	case physical.ExpressionTypeAnd, physical.ExpressionTypeOr:
		tag, args := "A", []physical.Expression(nil)
		if e.ExpressionType == physical.ExpressionTypeAnd {
			args = e.And.Arguments
		} else {
			tag, args = "O", e.Or.Arguments
		}
		out = append(append(append(out, tag), ty...), strconv.Itoa(len(args)))
		for _, a := range args {
			out = c11EncodePhysical(a, out)
		}
		return out
	case physical.ExpressionTypeFunctionCall:
		idx := -1
		for i, d := range c11Funcs()[e.FunctionCall.Name].Descriptors {
			if reflect.ValueOf(d.Function).Pointer() == reflect.ValueOf(e.FunctionCall.FunctionDescriptor.Function).Pointer() &&
				d.Strict == e.FunctionCall.FunctionDescriptor.Strict {
				idx = i
				break
			}
		}
		if idx < 0 {
			panic("c11: descriptor not found for " + e.FunctionCall.Name)
		}
		out = append(append(append(out, "F"), ty...), hex.EncodeToString([]byte(e.FunctionCall.Name)), strconv.Itoa(idx),
			strconv.Itoa(len(e.FunctionCall.Arguments)))
		for _, a := range e.FunctionCall.Arguments {
			out = c11EncodePhysical(a, out)
		}
		return out
	}
	panic("c11: unsupported physical expression kind " + e.ExpressionType.String())
}

func c11Typecheck(u logical.Expression, colTypes []octosql.Type) (e physical.Expression, ok bool) {
	defer func() {
		if r := recover(); r != nil {
			ok = false
		}
	}()
	fields := make([]physical.SchemaField, len(colTypes))
	mapping := map[string]string{}
	for i, t := range colTypes {
		name := "c" + strconv.Itoa(i)
		fields[i] = physical.SchemaField{Name: name, Type: t}
		mapping[name] = name
	}
	env := physical.Environment{Functions: c11Funcs(), VariableContext: &physical.VariableContext{Fields: fields}}
	lenv := logical.Environment{
		UniqueVariableNames: (&logical.VariableMapping{}).WithRecordMapping(mapping),
		UniqueNameGenerator: map[string]int{},
	}
	return u.Typecheck(context.Background(), env, lenv), true
}

func c11ColDomain(s string) []octosql.Value {
	switch s {
	case "B":
		return c11Tri[:2]
	case "N":
		return c11Tri[2:]
	}
	return c11Tri
}

func driveC11Logical(toks []string) string {
	k := c11Nat(toks[1])
	cols := toks[2 : 2+k]
	u, _ := c11ParseUTree(toks[2+k:])
	colTypes := make([]octosql.Type, k)
	for i, c := range cols {
		colTypes[i] = c11ColType(c)
	}
	e, ok := c11Typecheck(u, colTypes)
	if !ok {
		return "typecheck-panic"
	}
	typed := strings.Join(c11EncodePhysical(e, nil), " ")
	fields := make([]string, k)
	for i := range fields {
		fields[i] = strconv.Itoa(i)
	}
	x := c11Materialize(e, fields)
	var outs []string
	vals := make([]octosql.Value, k)
	var rec func(i int)
	rec = func(i int) {
		if i == k {
			outs = append(outs, c11Eval(x, vals))
			return
		}
		for _, v := range c11ColDomain(cols[i]) {
			vals[i] = v
			rec(i + 1)
		}
	}
	rec(0)
	return typed + " | " + strings.Join(outs, " ")
}

// ---------- generator

type c11U struct {
	tok  string
	args []*c11U
}

func (u *c11U) line(out []string) []string {
	out = append(out, strings.Fields(u.tok)...)
	for _, a := range u.args {
		out = a.line(out)
	}
	return out
}

func c11AllUTrees(leaves []*c11U, d int) []*c11U {
	cur := leaves
	for i := 0; i < d; i++ {
		next := append([]*c11U(nil), leaves...)
		for _, a := range cur {
			next = append(next, &c11U{"!", []*c11U{a}}, &c11U{"z", []*c11U{a}}, &c11U{"Z", []*c11U{a}})
		}
		for _, a := range cur {
			for _, b := range cur {
				next = append(next, &c11U{"a", []*c11U{a, b}}, &c11U{"o", []*c11U{a, b}})
			}
		}
		cur = next
	}
	return cur
}

func c11RandUTree(g *Gen, depth, nvars int) *c11U {
	if depth == 0 || g.Chance(1, 6) {
		switch g.Intn(6) {
		case 0:
			return &c11U{tok: "c b1"}
		case 1:
			return &c11U{tok: "c b0"}
		case 2:
			return &c11U{tok: "c n"}
		default:
			return &c11U{tok: "v " + strconv.Itoa(g.Intn(nvars))}
		}
	}
	switch g.Intn(7) {
	case 0, 1:
		return &c11U{"!", []*c11U{c11RandUTree(g, depth-1, nvars)}}
	case 2:
		return &c11U{"z", []*c11U{c11RandUTree(g, depth-1, nvars)}}
	case 3:
		return &c11U{"Z", []*c11U{c11RandUTree(g, depth-1, nvars)}}
	case 4, 5:
		return &c11U{"a", []*c11U{c11RandUTree(g, depth-1, nvars), c11RandUTree(g, depth-1, nvars)}}
	default:
		return &c11U{"o", []*c11U{c11RandUTree(g, depth-1, nvars), c11RandUTree(g, depth-1, nvars)}}
	}
}

func genC11Logical(g *Gen, thorough bool, emit func(string)) {
	leaves := []*c11U{{tok: "v 0"}, {tok: "v 1"}, {tok: "c b1"}, {tok: "c b0"}, {tok: "c n"}}
	colChoices := [][]string{{"BN", "BN"}, {"B", "BN"}, {"BN", "B"}, {"B", "B"}, {"N", "BN"}, {"BN", "N"}}
	for i, u := range c11AllUTrees(leaves, 2) {
		cols := colChoices[0]
		if i%2 == 1 {
			cols = Pick(g, colChoices)
		}
		emit(fmt.Sprintf("ltreeall 2 %s %s", strings.Join(cols, " "), strings.Join(u.line(nil), " ")))
	}
	n, dmax := 3000, 4
	if thorough {
		n, dmax = 60000, 7
	}
	for i := 0; i < n; i++ {
		k := 1 + g.Intn(3)
		cols := make([]string, k)
		for j := range cols {
			cols[j] = Pick(g, []string{"B", "BN", "BN", "BN", "N"})
		}
		u := c11RandUTree(g, 3+g.Intn(dmax-2), k)
		emit(fmt.Sprintf("ltreeall %d %s %s", k, strings.Join(cols, " "), strings.Join(u.line(nil), " ")))
	}
}

// ---------- comparisons through the real typechecker
//
// Op:  lcmp <op hex> <t0> <t1> <a> <b> <val0> <val1>
//      columns c0, c1 of static type I (Int) / NI (NULL|Int) / N (NULL) holding val0, val1; operands a, b are
//      `c0`, `c1`, `k<int>` (integer literal) or `kn` (NULL literal).  Output: <typed tree> | <result>  or typecheck-panic.

func c11IntColType(s string) octosql.Type {
	switch s {
	case "I":
		return octosql.Int
	case "N":
		return octosql.Null
	case "NI":
		return octosql.TypeSum(octosql.Int, octosql.Null)
	}
	panic("c11: bad int column type " + s)
}

func c11Operand(s string) logical.Expression {
	switch {
	case s == "c0" || s == "c1":
		return logical.NewVariable(s)
	case s == "kn":
		return logical.NewConstant(octosql.NewNull())
	case s[0] == 'k':
		n, err := strconv.ParseInt(s[1:], 10, 64)
		if err != nil {
			panic(err)
		}
		return logical.NewConstant(octosql.NewInt(n))
	}
	panic("c11: bad operand " + s)
}

func driveC11Cmp(toks []string) string {
	nameb, err := hex.DecodeString(toks[1])
	if err != nil {
		panic(err)
	}
	colTypes := []octosql.Type{c11IntColType(toks[2]), c11IntColType(toks[3])}
	u := logical.NewFunctionExpression(string(nameb), []logical.Expression{c11Operand(toks[4]), c11Operand(toks[5])})
	vals, _ := ParseValues(2, toks[6:])
	e, ok := c11Typecheck(u, colTypes)
	if !ok {
		return "typecheck-panic"
	}
	typed := strings.Join(c11EncodePhysical(e, nil), " ")
	x := c11Materialize(e, []string{"0", "1"})
	return typed + " | " + c11Eval(x, vals)
}

func genC11Cmp(emit func(string)) {
	dom := map[string][]string{"I": {"i1", "i2"}, "NI": {"i1", "i2", "n"}, "N": {"n"}}
	operands := []string{"c0", "c1", "k1", "k2", "kn"}
	for _, op := range []string{"<", "<=", "=", "!=", ">=", ">"} {
		for _, t0 := range []string{"I", "NI", "N"} {
			for _, t1 := range []string{"I", "NI", "N"} {
				for _, a := range operands {
					for _, b := range operands {
						for _, v0 := range dom[t0] {
							for _, v1 := range dom[t1] {
								emit(fmt.Sprintf("lcmp %s %s %s %s %s %s %s", hex.EncodeToString([]byte(op)), t0, t1, a, b, v0, v1))
							}
						}
					}
				}
			}
		}
	}
}
