package main

import (
	"fmt"
	"go/ast"
	"go/parser"
	"go/token"
	"os"
	"path/filepath"
	"strconv"
	"strings"
)

// Translator piece of C12 (DESIGN §2.2a): the table-like parts of the LIKE translation are regenerated from
// functions/functions.go on every run — the set of characters `needsEscaping` answers true for, the three LIKE
// special characters, and the text written before / after the translation loop. Output: lean/Octo/Gen/LikeEscapes.lean.
// Fails closed: any AST shape other than the one the code has today is an error.
func init() {
	registerExtractor("likeescapes", extractLikeEscapes)
}

func charLit(e ast.Expr) (rune, error) {
	bl, ok := e.(*ast.BasicLit)
	if !ok || bl.Kind != token.CHAR {
		return 0, fmt.Errorf("expected a character literal, got %T", e)
	}
	s, err := strconv.Unquote(bl.Value)
	if err != nil {
		return 0, err
	}
	rs := []rune(s)
	if len(rs) != 1 {
		return 0, fmt.Errorf("character literal %s is not one rune", bl.Value)
	}
	return rs[0], nil
}

// flatten `a || b || c` into its operands
func orOperands(e ast.Expr) []ast.Expr {
	if be, ok := e.(*ast.BinaryExpr); ok && be.Op == token.LOR {
		return append(orOperands(be.X), orOperands(be.Y)...)
	}
	if pe, ok := e.(*ast.ParenExpr); ok {
		return orOperands(pe.X)
	}
	return []ast.Expr{e}
}

// text of `sb.WriteRune('x')` / `sb.WriteString("…")` with literal argument
func sbWriteText(st ast.Stmt) (string, bool, error) {
	es, ok := st.(*ast.ExprStmt)
	if !ok {
		return "", false, nil
	}
	call, ok := es.X.(*ast.CallExpr)
	if !ok {
		return "", false, nil
	}
	sel, ok := call.Fun.(*ast.SelectorExpr)
	if !ok {
		return "", false, nil
	}
	if id, ok := sel.X.(*ast.Ident); !ok || id.Name != "sb" {
		return "", false, nil
	}
	if len(call.Args) != 1 {
		return "", false, fmt.Errorf("sb.%s with %d arguments", sel.Sel.Name, len(call.Args))
	}
	switch sel.Sel.Name {
	case "WriteRune":
		r, err := charLit(call.Args[0])
		if err != nil {
			return "", false, err
		}
		return string(r), true, nil
	case "WriteString":
		bl, ok := call.Args[0].(*ast.BasicLit)
		if !ok || bl.Kind != token.STRING {
			return "", false, fmt.Errorf("sb.WriteString with a non-literal argument")
		}
		s, err := strconv.Unquote(bl.Value)
		if err != nil {
			return "", false, err
		}
		return s, true, nil
	}
	return "", false, fmt.Errorf("unexpected call sb.%s at top level of likePatternToRegexp", sel.Sel.Name)
}

func extractLikeEscapes(repoDir, outDir string) error {
	fset := token.NewFileSet()
	file, err := parser.ParseFile(fset, filepath.Join(repoDir, "functions", "functions.go"), nil, 0)
	if err != nil {
		return err
	}
	var needs []rune
	consts := map[string]rune{}
	var pre, post string
	foundNeeds, foundLoop := 0, 0
	var walkErr error
	fail := func(format string, a ...interface{}) {
		if walkErr == nil {
			walkErr = fmt.Errorf(format, a...)
		}
	}
	ast.Inspect(file, func(n ast.Node) bool {
		switch x := n.(type) {
		case *ast.GenDecl:
			if x.Tok != token.CONST {
				return true
			}
			for _, sp := range x.Specs {
				vs := sp.(*ast.ValueSpec)
				for i, nm := range vs.Names {
					if nm.Name == "likeEscape" || nm.Name == "likeAny" || nm.Name == "likeAll" {
						if i >= len(vs.Values) {
							fail("const %s without a value", nm.Name)
							return false
						}
						r, err := charLit(vs.Values[i])
						if err != nil {
							fail("const %s: %v", nm.Name, err)
							return false
						}
						if _, dup := consts[nm.Name]; dup {
							fail("const %s declared twice", nm.Name)
						}
						consts[nm.Name] = r
					}
				}
			}
		case *ast.AssignStmt:
			if len(x.Lhs) != 1 || len(x.Rhs) != 1 {
				return true
			}
			id, ok := x.Lhs[0].(*ast.Ident)
			if !ok {
				return true
			}
			fl, ok := x.Rhs[0].(*ast.FuncLit)
			if !ok {
				return true
			}
			switch id.Name {
			case "needsEscaping":
				foundNeeds++
				if fl.Type.Params == nil || len(fl.Type.Params.List) != 1 || len(fl.Type.Params.List[0].Names) != 1 {
					fail("needsEscaping: unexpected parameter list")
					return false
				}
				param := fl.Type.Params.List[0].Names[0].Name
				if len(fl.Body.List) != 1 {
					fail("needsEscaping: body is not a single return statement")
					return false
				}
				ret, ok := fl.Body.List[0].(*ast.ReturnStmt)
				if !ok || len(ret.Results) != 1 {
					fail("needsEscaping: body is not a single return statement")
					return false
				}
				for _, opnd := range orOperands(ret.Results[0]) {
					be, ok := opnd.(*ast.BinaryExpr)
					if !ok || be.Op != token.EQL {
						fail("needsEscaping: operand is not `%s == 'c'`", param)
						return false
					}
					if xi, ok := be.X.(*ast.Ident); !ok || xi.Name != param {
						fail("needsEscaping: operand is not `%s == 'c'`", param)
						return false
					}
					r, err := charLit(be.Y)
					if err != nil {
						fail("needsEscaping: %v", err)
						return false
					}
					needs = append(needs, r)
				}
				return false
			case "likePatternToRegexp":
				foundLoop++
				seenRange := false
				for _, st := range fl.Body.List {
					if _, ok := st.(*ast.RangeStmt); ok {
						if seenRange {
							fail("likePatternToRegexp: two range loops")
						}
						seenRange = true
						continue
					}
					txt, is, err := sbWriteText(st)
					if err != nil {
						fail("likePatternToRegexp: %v", err)
						return false
					}
					if is {
						if seenRange {
							post += txt
						} else {
							pre += txt
						}
					}
				}
				if !seenRange {
					fail("likePatternToRegexp: no range loop")
				}
				return true // needsEscaping is not nested here, but keep walking for safety
			}
		}
		return true
	})
	if walkErr != nil {
		return walkErr
	}
	if foundNeeds != 1 || foundLoop != 1 {
		return fmt.Errorf("expected exactly one needsEscaping and one likePatternToRegexp, found %d and %d", foundNeeds, foundLoop)
	}
	for _, k := range []string{"likeEscape", "likeAny", "likeAll"} {
		if _, ok := consts[k]; !ok {
			return fmt.Errorf("const %s not found", k)
		}
	}
	list := func(rs []rune) string {
		parts := make([]string, len(rs))
		for i, r := range rs {
			parts[i] = strconv.Itoa(int(r))
		}
		return "[" + strings.Join(parts, ", ") + "]"
	}
	var sb strings.Builder
	sb.WriteString("/-! GENERATED by `vh extract likeescapes` from functions/functions.go — do not edit. -/\n")
	sb.WriteString("namespace Octo.Gen.LikeEscapes\n\n")
	sb.WriteString("/-- the runes `needsEscaping` answers true for, in source order -/\n")
	sb.WriteString("def needsEscaping : List Nat := " + list(needs) + "\n\n")
	sb.WriteString("/-- text written to the builder before / after the translation loop -/\n")
	sb.WriteString("def prefixText : List Nat := " + list([]rune(pre)) + "\n")
	sb.WriteString("def suffixText : List Nat := " + list([]rune(post)) + "\n\n")
	sb.WriteString(fmt.Sprintf("def likeEscape : Nat := %d\ndef likeAny : Nat := %d\ndef likeAll : Nat := %d\n\n", consts["likeEscape"], consts["likeAny"], consts["likeAll"]))
	sb.WriteString("end Octo.Gen.LikeEscapes\n")
	if err := os.MkdirAll(outDir, 0o755); err != nil {
		return err
	}
	return os.WriteFile(filepath.Join(outDir, "LikeEscapes.lean"), []byte(sb.String()), 0o644)
}
