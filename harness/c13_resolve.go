package main

// C13, second part: overload resolution (logical/function.go) and the evaluation of a resolved call
// (physical.Expression.Materialize -> execution.FunctionCall / TypeAssertion), on the REAL code.
//
//   table <sym>                                  -> the descriptors of the function: `P<k> <argty>… > <outty> s|n` or `F s|n`, joined by ` ; `
//   resolve <sym> <k> <argty>…                   -> <idx> (a0 | a<n> <target ty>…)… [T <static type of the call>]   | panic
//   evalfn  <sym> <k> (<argty> <value>)…         -> v <value> | err | panic
//   evalfnty <sym> <k> (<argty> <value>)…        -> ty <TypeID> | err | panic      (chosen overload is not modelled)

import (
	"bufio"
	"context"
	"fmt"
	"reflect"
	"strconv"
	"strings"

	"github.com/cube2222/octosql/execution"
	"github.com/cube2222/octosql/logical"
	"github.com/cube2222/octosql/octosql"
	"github.com/cube2222/octosql/physical"
)

// an argument expression of a given static type: variable v<i> of the record
type typedArg13 struct {
	name string
	t    octosql.Type
}

func (a *typedArg13) Typecheck(ctx context.Context, env physical.Environment, logicalEnv logical.Environment) physical.Expression {
	return physical.Expression{
		Type:           a.t,
		ExpressionType: physical.ExpressionTypeVariable,
		Variable:       &physical.Variable{Name: a.name, IsLevel0: true},
	}
}

func typecheck13(sym string, ts []octosql.Type) (physical.Expression, physical.Environment) {
	name, ok := sym13[sym]
	if !ok {
		panic("c13: unknown function symbol " + sym)
	}
	args := make([]logical.Expression, len(ts))
	fields := make([]physical.SchemaField, len(ts))
	for i := range ts {
		n := "v" + strconv.Itoa(i)
		args[i] = &typedArg13{name: n, t: ts[i]}
		fields[i] = physical.SchemaField{Name: n, Type: ts[i]}
	}
	env := physical.Environment{Functions: fmap(), VariableContext: &physical.VariableContext{Fields: fields}}
	out := logical.NewFunctionExpression(name, args).Typecheck(context.Background(), env, logical.Environment{})
	return out, env
}

func descIndex13(sym string, d physical.FunctionDescriptor) int {
	p := reflect.ValueOf(d.Function).Pointer()
	for i, c := range fmap()[sym13[sym]].Descriptors {
		if reflect.ValueOf(c.Function).Pointer() == p {
			return i
		}
	}
	return -1
}

func resolveLine13(sym string, ts []octosql.Type) string {
	out, _ := typecheck13(sym, ts)
	var sb strings.Builder
	sb.WriteString(strconv.Itoa(descIndex13(sym, out.FunctionCall.FunctionDescriptor)))
	asserted := false
	for _, a := range out.FunctionCall.Arguments {
		var targets []octosql.Type
		for a.ExpressionType == physical.ExpressionTypeTypeAssertion {
			targets = append(targets, a.TypeAssertion.TargetType)
			a = a.TypeAssertion.Expression
		}
		fmt.Fprintf(&sb, " a%d", len(targets))
		for i := len(targets) - 1; i >= 0; i-- { // innermost first
			sb.WriteString(" " + EncodeType(targets[i]))
		}
		if len(targets) > 0 {
			asserted = true
		}
	}
	if !asserted {
		sb.WriteString(" T " + EncodeType(out.Type))
	}
	return sb.String()
}

func parseTyped13(toks []string) ([]octosql.Type, []octosql.Value) {
	k, _ := strconv.Atoi(toks[0])
	r := toks[1:]
	ts := make([]octosql.Type, k)
	vs := make([]octosql.Value, k)
	for i := 0; i < k; i++ {
		ts[i], r = ParseType(r)
		vs[i], r = parse13(r)
	}
	return ts, vs
}

func driveC13resolve(toks []string) string {
	switch toks[0] {
	case "table":
		var parts []string
		for _, d := range fmap()[sym13[toks[1]]].Descriptors {
			s := "n"
			if d.Strict {
				s = "s"
			}
			if d.TypeFn != nil {
				parts = append(parts, "F "+s)
				continue
			}
			p := "P" + strconv.Itoa(len(d.ArgumentTypes))
			for _, t := range d.ArgumentTypes {
				p += " " + EncodeType(t)
			}
			parts = append(parts, p+" > "+EncodeType(d.OutputType)+" "+s)
		}
		return strings.Join(parts, " ; ")
	case "resolve":
		k, _ := strconv.Atoi(toks[2])
		r := toks[3:]
		ts := make([]octosql.Type, k)
		for i := 0; i < k; i++ {
			ts[i], r = ParseType(r)
		}
		return resolveLine13(toks[1], ts)
	case "evalfn", "evalfnty":
		ts, vs := parseTyped13(toks[2:])
		out, env := typecheck13(toks[1], ts)
		e, err := out.Materialize(context.Background(), env)
		if err != nil {
			return "err:materialize"
		}
		v, err := e.Evaluate(execution.ExecutionContext{Context: context.Background(), VariableContext: &execution.VariableContext{Values: vs}})
		if err != nil {
			return "err"
		}
		if toks[0] == "evalfnty" {
			return "ty " + strconv.Itoa(int(v.TypeID))
		}
		return "v " + Enc13(v)
	}
	return "bad-op"
}

// is the result of this overload computed by unmodelled runtime / library code?
func opaque13(sym string, idx int, args []octosql.Value) bool {
	switch sym {
	case "add", "mul":
		return idx == 1
	case "sub":
		return idx == 2
	case "div":
		return idx == 1 || idx == 3
	case "sqrt", "ceil", "floor", "log2", "log", "log10", "pow":
		return true
	case "tfu":
		return idx == 1
	case "int":
		return idx == 2
	case "float":
		return idx != 0
	case "string":
		return hasOpaqueLeaf(args[0])
	}
	return false
}

var scalarTypes13 = []octosql.Type{octosql.Int, octosql.Float, octosql.Boolean, octosql.String, octosql.Time, octosql.Duration}

// an argument type the way columns have them: a primitive, a nullable primitive, a union of primitives, NULL, a list, a tuple
func randArgType13(g *Gen) octosql.Type {
	switch g.Intn(10) {
	case 0, 1, 2:
		return Pick(g, scalarTypes13)
	case 3, 4:
		return octosql.TypeSum(Pick(g, scalarTypes13), octosql.Null)
	case 5:
		return octosql.TypeSum(Pick(g, scalarTypes13), Pick(g, scalarTypes13))
	case 6:
		t := octosql.TypeSum(Pick(g, scalarTypes13), Pick(g, scalarTypes13))
		t = octosql.TypeSum(t, Pick(g, scalarTypes13))
		if g.Bool() {
			t = octosql.TypeSum(t, octosql.Null)
		}
		return t
	case 7:
		return octosql.Null
	case 8:
		if g.Chance(1, 4) {
			return octosql.Type{TypeID: octosql.TypeIDList}
		}
		e := randArgType13(g)
		if e.TypeID == octosql.TypeIDList || e.TypeID == octosql.TypeIDTuple {
			e = octosql.Int
		}
		l := octosql.Type{TypeID: octosql.TypeIDList, List: struct{ Element *octosql.Type }{Element: &e}}
		if g.Chance(1, 4) {
			return octosql.TypeSum(l, octosql.Null)
		}
		return l
	default:
		n := g.Intn(3)
		es := make([]octosql.Type, n)
		for i := range es {
			es[i] = Pick(g, scalarTypes13)
		}
		return octosql.Type{TypeID: octosql.TypeIDTuple, Tuple: struct{ Elements []octosql.Type }{Elements: es}}
	}
}

var syms13 []string

func genResolve13(g *Gen, w *bufio.Writer, n int) {
	if syms13 == nil {
		for s := range sym13 {
			syms13 = append(syms13, s)
		}
		// deterministic order
		for i := 1; i < len(syms13); i++ {
			for j := i; j > 0 && syms13[j] < syms13[j-1]; j-- {
				syms13[j], syms13[j-1] = syms13[j-1], syms13[j]
			}
		}
	}
	for _, s := range syms13 {
		fmt.Fprintf(w, "table %s\n", s)
	}
	for i := 0; i < n; i++ {
		sym := Pick(g, syms13)
		ds := fmap()[sym13[sym]].Descriptors
		// arity: that of a random descriptor (TypeFn descriptors: 1 for len, 2 otherwise), now and then off by one
		k := len(Pick(g, ds).ArgumentTypes)
		if k == 0 {
			k = 2
			if sym == "len" {
				k = 1
			}
		}
		if g.Chance(1, 12) {
			k += g.Intn(3) - 1
		}
		if k < 0 {
			k = 0
		}
		ts := make([]octosql.Type, k)
		for j := range ts {
			if g.Chance(1, 2) {
				// close to a declared parameter type
				d := Pick(g, ds)
				if j < len(d.ArgumentTypes) && d.ArgumentTypes[j].TypeID != octosql.TypeIDAny {
					ts[j] = d.ArgumentTypes[j]
					switch g.Intn(4) {
					case 0:
						ts[j] = octosql.TypeSum(ts[j], octosql.Null)
					case 1:
						ts[j] = octosql.TypeSum(ts[j], Pick(g, scalarTypes13))
					case 2:
						ts[j] = octosql.TypeSum(octosql.TypeSum(ts[j], Pick(g, scalarTypes13)), octosql.Null)
					}
					continue
				}
			}
			ts[j] = randArgType13(g)
		}
		var sb strings.Builder
		for _, t := range ts {
			sb.WriteString(" " + EncodeType(t))
		}
		fmt.Fprintf(w, "resolve %s %d%s\n", sym, k, sb.String())
		if k == 0 {
			continue
		}
		// evaluate the resolved call on values of the argument types (classification by the real resolution)
		res := safe(func() string { return resolveLine13(sym, ts) })
		if res == "panic" {
			continue
		}
		idx, _ := strconv.Atoi(strings.Fields(res)[0])
		for rep := 0; rep < 2; rep++ {
			vs := make([]octosql.Value, k)
			for j := range vs {
				vs[j] = randValueOf(g, ts[j])
				if vs[j].TypeID == octosql.TypeIDInt && g.Chance(1, 3) && sym != "mul" {
					vs[j] = vi(randI64(g))
				}
			}
			kind := "evalfn"
			if opaque13(sym, idx, vs) {
				kind = "evalfnty"
			}
			var sb2 strings.Builder
			for j := range vs {
				sb2.WriteString(" " + EncodeType(ts[j]) + " " + Enc13(vs[j]))
			}
			fmt.Fprintf(w, "%s %s %d%s\n", kind, sym, k, sb2.String())
		}
	}
}
