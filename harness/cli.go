package main

// Shared machinery of the CLI-level properties (C01, C03–C07): run the real `octosql` binary
// (built by bin/check from the repository's working tree, -tags verif) on generated tables and
// queries, and turn what it prints into canonical row lines.
//
//   output := rows <n> | <cell>… | <cell>…     or   err   or   panic
//   cell   := n | b0 | b1 | #<number text> | s<hex>

import (
	"bytes"
	"encoding/csv"
	"encoding/hex"
	"encoding/json"
	"fmt"
	"io"
	"os"
	"os/exec"
	"path/filepath"
	"regexp"
	"strconv"
	"strings"
	"sync/atomic"
	"syscall"
	"time"

	"github.com/cube2222/octosql/octosql"
)

func buildDir() string {
	if d := os.Getenv("VERIF_BUILD"); d != "" {
		return d
	}
	return "/verif/.build"
}

func octosqlBin() string { return filepath.Join(buildDir(), "octosql") }

var tmpCounter int64

// scratchDir creates a fresh directory for one op (removed by the caller).
func scratchDir(tag string) string {
	n := atomic.AddInt64(&tmpCounter, 1)
	d := filepath.Join(buildDir(), "run", "tmp", fmt.Sprintf("%s-%d-%d", tag, os.Getpid(), n))
	if err := os.MkdirAll(d, 0o755); err != nil {
		panic(err)
	}
	return d
}

type cliResult struct {
	Stdout, Stderr string
	Exit           int
	Panicked       bool
	TimedOut       bool
}

// runOctosql runs the binary in dir (HOME=dir so that no user configuration is read).
func runOctosql(dir string, stdin []byte, args ...string) cliResult {
	cmd := exec.Command(octosqlBin(), args...)
	cmd.Dir = dir
	cmd.Env = append(os.Environ(), "HOME="+dir, "OCTOSQL_NO_TELEMETRY=1", "XDG_CONFIG_HOME="+dir, "XDG_CACHE_HOME="+dir, "XDG_DATA_HOME="+dir)
	var so, se bytes.Buffer
	cmd.Stdout, cmd.Stderr = &so, &se
	if stdin != nil {
		cmd.Stdin = bytes.NewReader(stdin)
	}
	if err := cmd.Start(); err != nil {
		return cliResult{Stderr: err.Error(), Exit: 127}
	}
	done := make(chan error, 1)
	go func() { done <- cmd.Wait() }()
	var res cliResult
	select {
	case err := <-done:
		if err != nil {
			if ee, ok := err.(*exec.ExitError); ok {
				res.Exit = ee.ExitCode()
			} else {
				res.Exit = 126
			}
		}
	case <-time.After(60 * time.Second):
		// ask the Go runtime for a goroutine dump (kept in stderr), then make sure it is gone
		cmd.Process.Signal(syscall.SIGQUIT)
		select {
		case <-done:
		case <-time.After(5 * time.Second):
			cmd.Process.Kill()
			<-done
		}
		res.TimedOut = true
		res.Exit = 124
	}
	res.Stdout, res.Stderr = so.String(), se.String()
	if res.TimedOut {
		os.MkdirAll(filepath.Join(buildDir(), "run", "timeouts"), 0o755)
		os.WriteFile(filepath.Join(buildDir(), "run", "timeouts", fmt.Sprintf("%d-%d.txt", os.Getpid(), atomic.AddInt64(&tmpCounter, 1))),
			[]byte(strings.Join(args, " ")+"\n"+res.Stderr), 0o644)
		return res
	}
	// a Go runtime panic / fatal error: exit status 2 and a goroutine dump (the `panic()` SQL function and
	// cobra's error path print "Error: ... panic: ..." with exit status 1 and no dump)
	if strings.Contains(res.Stderr, "goroutine ") && (strings.Contains(res.Stderr, "panic:") || strings.Contains(res.Stderr, "fatal error:")) {
		res.Panicked = true
	}
	return res
}

// ---- tables

// A table cell is a scalar octosql.Value (NULL, Int, Float, Boolean, String).

func floatText(f float64) string {
	// quarters only (generator discipline); always with a decimal point so that CSV infers Float
	s := strconv.FormatFloat(f, 'f', -1, 64)
	if !strings.Contains(s, ".") {
		s += ".0"
	}
	return s
}

func writeCSV(path string, names []string, rows [][]octosql.Value) {
	var buf bytes.Buffer
	w := csv.NewWriter(&buf)
	w.Write(names)
	for _, r := range rows {
		rec := make([]string, len(r))
		for i, v := range r {
			switch v.TypeID {
			case octosql.TypeIDNull:
				rec[i] = ""
			case octosql.TypeIDInt:
				rec[i] = strconv.FormatInt(v.Int, 10)
			case octosql.TypeIDFloat:
				rec[i] = floatText(v.Float)
			case octosql.TypeIDBoolean:
				rec[i] = strconv.FormatBool(v.Boolean)
			case octosql.TypeIDString:
				rec[i] = v.Str
			default:
				panic("writeCSV: non-scalar cell")
			}
		}
		if len(rec) == 1 && rec[0] == "" {
			// a blank line would be skipped by CSV readers: a lone NULL cell is written as a quoted empty field
			w.Flush()
			buf.WriteString("\"\"\n")
			continue
		}
		w.Write(rec)
	}
	w.Flush()
	if err := os.WriteFile(path, buf.Bytes(), 0o644); err != nil {
		panic(err)
	}
}

func jsonScalar(v octosql.Value) interface{} {
	switch v.TypeID {
	case octosql.TypeIDNull:
		return nil
	case octosql.TypeIDInt:
		return v.Int
	case octosql.TypeIDFloat:
		return json.RawMessage(floatText(v.Float))
	case octosql.TypeIDBoolean:
		return v.Boolean
	case octosql.TypeIDString:
		return v.Str
	}
	panic("jsonScalar: non-scalar cell")
}

func writeJSONLines(path string, names []string, rows [][]octosql.Value) {
	var buf bytes.Buffer
	for _, r := range rows {
		buf.WriteByte('{')
		for i, v := range r {
			if i > 0 {
				buf.WriteByte(',')
			}
			k, _ := json.Marshal(names[i])
			buf.Write(k)
			buf.WriteByte(':')
			b, err := json.Marshal(jsonScalar(v))
			if err != nil {
				panic(err)
			}
			buf.Write(b)
		}
		buf.WriteString("}\n")
	}
	if err := os.WriteFile(path, buf.Bytes(), 0o644); err != nil {
		panic(err)
	}
}

// ---- output parsing; kinds: one byte per output column: i f b s (the static kind the generator derived)

func cellFromText(kind byte, text string, isNull bool) string {
	if isNull {
		return "n"
	}
	switch kind {
	case 'i', 'f':
		return "#" + text
	case 'b':
		if text == "true" {
			return "b1"
		}
		return "b0"
	default:
		return "s" + hex.EncodeToString([]byte(text))
	}
}

func formatRows(rows [][]string) string {
	parts := make([]string, 0, len(rows)+1)
	parts = append(parts, fmt.Sprintf("rows %d", len(rows)))
	for _, r := range rows {
		parts = append(parts, strings.Join(r, " "))
	}
	return strings.Join(parts, " | ")
}

func parseJSONOut(out string, kinds string) (string, error) {
	var rows [][]string
	for _, line := range strings.Split(out, "\n") {
		if strings.TrimSpace(line) == "" {
			continue
		}
		dec := json.NewDecoder(strings.NewReader(line))
		dec.UseNumber()
		tok, err := dec.Token()
		if err != nil || tok != json.Delim('{') {
			return "", fmt.Errorf("json line does not start an object: %q", line)
		}
		var row []string
		for dec.More() {
			if _, err := dec.Token(); err != nil { // key
				return "", err
			}
			var raw json.RawMessage
			if err := dec.Decode(&raw); err != nil {
				return "", fmt.Errorf("invalid json value in %q: %v", line, err)
			}
			s := strings.TrimSpace(string(raw))
			switch {
			case s == "null":
				row = append(row, "n")
			case s == "true":
				row = append(row, "b1")
			case s == "false":
				row = append(row, "b0")
			case len(s) > 0 && s[0] == '"':
				var str string
				if err := json.Unmarshal(raw, &str); err != nil {
					return "", err
				}
				row = append(row, "s"+hex.EncodeToString([]byte(str)))
			case len(s) > 0 && (s[0] == '{' || s[0] == '['):
				row = append(row, "j"+hex.EncodeToString([]byte(s)))
			default:
				row = append(row, "#"+s)
			}
		}
		rows = append(rows, row)
	}
	return formatRows(rows), nil
}

// csvRecords is an RFC 4180 record parser that, unlike encoding/csv, does not skip blank lines:
// an empty line is a record with one empty field (that is how a single NULL column is printed).
func csvRecords(s string) ([][]string, error) {
	var recs [][]string
	var rec []string
	var field strings.Builder
	inQuotes := false
	i := 0
	flushField := func() { rec = append(rec, field.String()); field.Reset() }
	for i < len(s) {
		c := s[i]
		switch {
		case inQuotes:
			if c == '"' {
				if i+1 < len(s) && s[i+1] == '"' {
					field.WriteByte('"')
					i++
				} else {
					inQuotes = false
				}
			} else {
				field.WriteByte(c)
			}
		case c == '"' && field.Len() == 0:
			inQuotes = true
		case c == ',':
			flushField()
		case c == '\n':
			flushField()
			recs = append(recs, rec)
			rec = nil
		case c == '\r' && i+1 < len(s) && s[i+1] == '\n':
			// CRLF line end
		default:
			field.WriteByte(c)
		}
		i++
	}
	if inQuotes {
		return nil, fmt.Errorf("unterminated quoted field")
	}
	if field.Len() > 0 || len(rec) > 0 {
		flushField()
		recs = append(recs, rec)
	}
	return recs, nil
}

func parseCSVOut(out string, kinds string) (string, error) {
	recs, err := csvRecords(out)
	if err != nil {
		return "", err
	}
	var rows [][]string
	for i, rec := range recs {
		if i == 0 {
			continue // header
		}
		row := make([]string, len(rec))
		for j, c := range rec {
			k := byte('s')
			if j < len(kinds) {
				k = kinds[j]
			}
			row[j] = cellFromText(k, c, c == "")
		}
		rows = append(rows, row)
	}
	return formatRows(rows), nil
}

func nativeCell(kind byte, c string) string {
	c = strings.TrimSpace(c)
	if c == "<null>" {
		return "n"
	}
	if kind == 's' {
		c = strings.TrimSuffix(strings.TrimPrefix(c, "'"), "'")
	}
	return cellFromText(kind, c, false)
}

func parseNativeOut(out string, kinds string) (string, error) {
	var rows [][]string
	for _, line := range strings.Split(out, "\n") {
		if strings.TrimSpace(line) == "" {
			continue
		}
		a := strings.Index(line, "| ")
		b := strings.LastIndex(line, " |}")
		if !strings.HasPrefix(line, "{") || a < 0 || b < a {
			return "", fmt.Errorf("unrecognised stream_native line %q", line)
		}
		body := line[a+2 : b]
		var row []string
		if len(kinds) > 0 {
			cells := strings.Split(body, ", ")
			for j, c := range cells {
				k := byte('s')
				if j < len(kinds) {
					k = kinds[j]
				}
				row = append(row, nativeCell(k, c))
			}
		}
		rows = append(rows, row)
	}
	return formatRows(rows), nil
}

// parseTableOut reads the LAST table of the output: live_table redraws the whole table whenever a
// refresh interval has passed, and without a terminal the redraws are simply appended.
func parseTableOut(out string, kinds string) (string, error) {
	out = ansiEscape.ReplaceAllString(out, "")
	var rows [][]string
	state := 0 // 0: before a table, 1: top border seen, 2: header seen, 3: in rows
	for _, line := range strings.Split(out, "\n") {
		switch {
		case strings.HasPrefix(line, "+"):
			switch state {
			case 0:
				state = 1
				rows = nil
			case 2:
				state = 3
			case 3:
				state = 0
			}
		case strings.HasPrefix(line, "|"):
			if state == 1 {
				state = 2 // header
				continue
			}
			if state != 3 {
				continue
			}
			cells := strings.Split(strings.Trim(line, "|"), "|")
			var row []string
			for j, c := range cells {
				k := byte('s')
				if j < len(kinds) {
					k = kinds[j]
				}
				row = append(row, nativeCell(k, c))
			}
			rows = append(rows, row)
		}
	}
	return formatRows(rows), nil
}

// canonOutput maps one CLI run to the canonical output line.
func canonOutput(res cliResult, mode, kinds string) string {
	if res.Panicked {
		return "panic"
	}
	if res.TimedOut {
		return "timeout"
	}
	if res.Exit != 0 {
		return "err"
	}
	var s string
	var err error
	switch mode {
	case "json":
		s, err = parseJSONOut(res.Stdout, kinds)
	case "csv":
		s, err = parseCSVOut(res.Stdout, kinds)
	case "stream_native":
		s, err = parseNativeOut(res.Stdout, kinds)
	default:
		s, err = parseTableOut(res.Stdout, kinds)
	}
	if err != nil {
		return "unparsable " + hex.EncodeToString([]byte(err.Error()))
	}
	return s
}

var ansiEscape = regexp.MustCompile("\x1b\\[[0-9;]*[A-Za-z]")

var _ = io.EOF
