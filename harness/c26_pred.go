package main

import "bufio"

func driveC26pred(toks []string) string { return "bad-op" }

func genC26pred(g *Gen, tier string, w *bufio.Writer) {}
