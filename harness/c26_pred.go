package main

// C26, third part: a pushed-down predicate evaluates the same on both sides of the plugin boundary.
//
//   pred <k> (<colty> <value>)*k <tree>     -> same <outcome> | diff <native outcome> <plugin outcome> | rejected <native outcome>
//                                              | untyped | jsonerr:<class>
//   tree := C <ty> <value> | V <idx> | A <n> tree… | O <n> tree… | U <n> tree… (tuple expression) | F <namehex> <n> tree…
//
// The tree is typed by the REAL typechecker (logical.FunctionExpression.Typecheck picks the descriptors), then
//   native side : Materialize in the record's variable context, Evaluate on the record;
//   plugin side : the expression goes through encoding/json and RepopulatePhysicalExpressionFunctions exactly as in
//                 executor.PhysicalDatasource.Materialize -> physicalServer.Materialize, the physical variable context and
//                 the execution variable context (the record) go through their proto conversions, then Materialize + Evaluate.
// outcome := <value> | err:<hex of the error text> | panic

import (
	"bufio"
	"context"
	"encoding/hex"
	"fmt"
	"strconv"
	"strings"
	"time"

	"github.com/cube2222/octosql/execution"
	"github.com/cube2222/octosql/logical"
	"github.com/cube2222/octosql/octosql"
	"github.com/cube2222/octosql/physical"
	"github.com/cube2222/octosql/plugins"
)

type physArg26 struct{ e physical.Expression }

func (a *physArg26) Typecheck(ctx context.Context, env physical.Environment, logicalEnv logical.Environment) physical.Expression {
	return a.e
}

func call26(name string, args []physical.Expression) physical.Expression {
	las := make([]logical.Expression, len(args))
	for i := range args {
		las[i] = &physArg26{e: args[i]}
	}
	env := physical.Environment{Functions: funcs26()}
	return logical.NewFunctionExpression(name, las).Typecheck(context.Background(), env, logical.Environment{})
}

func boolType26(args []physical.Expression) octosql.Type {
	t := octosql.Boolean
	for _, a := range args {
		if octosql.Null.Is(a.Type) == octosql.TypeRelationIs {
			return octosql.TypeSum(octosql.Boolean, octosql.Null)
		}
	}
	return t
}

func parsePredTree(toks []string, cols []octosql.Type) (physical.Expression, []string) {
	switch toks[0] {
	case "C":
		ty, r := ParseType(toks[1:])
		v, r := p26Value(r)
		return physical.Expression{Type: ty, ExpressionType: physical.ExpressionTypeConstant, Constant: &physical.Constant{Value: v}}, r
	case "V":
		i, err := strconv.Atoi(toks[1])
		if err != nil {
			panic(err)
		}
		return physical.Expression{Type: cols[i], ExpressionType: physical.ExpressionTypeVariable,
			Variable: &physical.Variable{Name: "c" + toks[1], IsLevel0: true}}, toks[2:]
	case "A", "O":
		k, err := strconv.Atoi(toks[1])
		if err != nil {
			panic(err)
		}
		r := toks[2:]
		args := make([]physical.Expression, k)
		for i := 0; i < k; i++ {
			args[i], r = parsePredTree(r, cols)
		}
		if toks[0] == "A" {
			return physical.Expression{Type: boolType26(args), ExpressionType: physical.ExpressionTypeAnd, And: &physical.And{Arguments: args}}, r
		}
		return physical.Expression{Type: boolType26(args), ExpressionType: physical.ExpressionTypeOr, Or: &physical.Or{Arguments: args}}, r
	case "U":
		k, err := strconv.Atoi(toks[1])
		if err != nil {
			panic(err)
		}
		r := toks[2:]
		args := make([]physical.Expression, k)
		ts := make([]octosql.Type, k)
		for i := 0; i < k; i++ {
			args[i], r = parsePredTree(r, cols)
			ts[i] = args[i].Type
		}
		return physical.Expression{Type: octosql.Type{TypeID: octosql.TypeIDTuple, Tuple: struct{ Elements []octosql.Type }{Elements: ts}},
			ExpressionType: physical.ExpressionTypeTuple, Tuple: &physical.Tuple{Arguments: args}}, r
	case "F":
		nameb, err := hex.DecodeString(toks[1])
		if err != nil {
			panic(err)
		}
		k, err := strconv.Atoi(toks[2])
		if err != nil {
			panic(err)
		}
		r := toks[3:]
		args := make([]physical.Expression, k)
		for i := 0; i < k; i++ {
			args[i], r = parsePredTree(r, cols)
		}
		return call26(string(nameb), args), r
	}
	panic("c26: bad tree token " + toks[0])
}

func evalOutcome(e physical.Expression, varCtx *physical.VariableContext, execCtx *execution.VariableContext) (out string) {
	defer func() {
		if r := recover(); r != nil {
			out = "panic"
		}
	}()
	x, err := e.Materialize(context.Background(), physical.Environment{Functions: funcs26(), VariableContext: varCtx})
	if err != nil {
		return "err:" + hex.EncodeToString([]byte("materialize: "+err.Error()))
	}
	v, err := x.Evaluate(execution.ExecutionContext{Context: context.Background(), VariableContext: execCtx})
	if err != nil {
		return "err:" + hex.EncodeToString([]byte(err.Error()))
	}
	return strings.ReplaceAll(enc26Value(utcValue(v)), " ", "_")
}

func driveC26pred(toks []string) string {
	k, err := strconv.Atoi(toks[1])
	if err != nil {
		panic(err)
	}
	r := toks[2:]
	cols := make([]octosql.Type, k)
	vals := make([]octosql.Value, k)
	fields := make([]physical.SchemaField, k)
	for i := 0; i < k; i++ {
		cols[i], r = ParseType(r)
		vals[i], r = p26Value(r)
		fields[i] = physical.SchemaField{Name: "c" + strconv.Itoa(i), Type: cols[i]}
	}
	var e physical.Expression
	if safe(func() string { e, _ = parsePredTree(r, cols); return "ok" }) == "panic" {
		return "untyped"
	}
	varCtx := &physical.VariableContext{Fields: fields}
	execCtx := &execution.VariableContext{Values: vals}
	native := evalOutcome(e, varCtx, execCtx)
	// the plugin side
	e2, ok, err := jsonTripExpr(e)
	if err != nil {
		return "jsonerr:" + jsonErrClass(err)[4:]
	}
	if !ok {
		return "rejected " + native
	}
	varCtx2 := plugins.VerifNativePhysicalVariableContextToProto(varCtx).ToNativePhysicalVariableContext()
	execCtx2 := plugins.VerifNativeExecutionVariableContextToProto(execCtx).ToNativeExecutionVariableContext()
	plugin := evalOutcome(e2, varCtx2, execCtx2)
	if native == plugin {
		return "same " + native
	}
	return "diff " + native + " " + plugin
}

// ---------- the `tree` op: which descriptor every call of a predicate has after the trip
//
//   tree <T>      -> fns <i|none>… ok=<0|1>          (calls in pre-order)
//   T := L <ty> | N <kind> <ty> <k> T… | F <ty> <namehex> <idx|-> <k> T…
//   kind: A and, O or, K coalesce, U tuple, S type assertion (target = ty), C cast (target TypeID = that of ty)
// The expression is built literally: call nodes get descriptor <idx> of FunctionMap()[name] (`-`: no such function, empty descriptor).

func treeTokens(e physical.Expression) []string {
	many := func(kind string, args []physical.Expression) []string {
		out := []string{"N", kind, EncodeType(e.Type), strconv.Itoa(len(args))}
		for _, a := range args {
			out = append(out, treeTokens(a)...)
		}
		return out
	}
	switch e.ExpressionType {
	case physical.ExpressionTypeVariable, physical.ExpressionTypeConstant:
		return []string{"L", EncodeType(e.Type)}
	case physical.ExpressionTypeAnd:
		return many("A", e.And.Arguments)
	case physical.ExpressionTypeOr:
		return many("O", e.Or.Arguments)
	case physical.ExpressionTypeCoalesce:
		return many("K", e.Coalesce.Arguments)
	case physical.ExpressionTypeTuple:
		return many("U", e.Tuple.Arguments)
	case physical.ExpressionTypeTypeAssertion:
		return append([]string{"N", "S", EncodeType(e.TypeAssertion.TargetType), "1"}, treeTokens(e.TypeAssertion.Expression)...)
	case physical.ExpressionTypeTypeCast:
		return many("C", []physical.Expression{e.TypeCast.Expression})
	case physical.ExpressionTypeFunctionCall:
		idx := descIndex26(e.FunctionCall.Name, e.FunctionCall.FunctionDescriptor)
		if idx == "none" {
			idx = "-"
		}
		out := []string{"F", EncodeType(e.Type), hex.EncodeToString([]byte(e.FunctionCall.Name)), idx, strconv.Itoa(len(e.FunctionCall.Arguments))}
		for _, a := range e.FunctionCall.Arguments {
			out = append(out, treeTokens(a)...)
		}
		return out
	}
	panic("c26: expression kind not supported in tree ops")
}

func parseTree26(toks []string) (physical.Expression, []string) {
	switch toks[0] {
	case "L":
		ty, r := ParseType(toks[1:])
		return physical.Expression{Type: ty, ExpressionType: physical.ExpressionTypeVariable, Variable: &physical.Variable{Name: "v", IsLevel0: true}}, r
	case "N":
		kind := toks[1]
		ty, r := ParseType(toks[2:])
		k, err := strconv.Atoi(r[0])
		if err != nil {
			panic(err)
		}
		r = r[1:]
		args := make([]physical.Expression, k)
		for i := 0; i < k; i++ {
			args[i], r = parseTree26(r)
		}
		switch kind {
		case "A":
			return physical.Expression{Type: ty, ExpressionType: physical.ExpressionTypeAnd, And: &physical.And{Arguments: args}}, r
		case "O":
			return physical.Expression{Type: ty, ExpressionType: physical.ExpressionTypeOr, Or: &physical.Or{Arguments: args}}, r
		case "K":
			return physical.Expression{Type: ty, ExpressionType: physical.ExpressionTypeCoalesce, Coalesce: &physical.Coalesce{Arguments: args}}, r
		case "U":
			return physical.Expression{Type: ty, ExpressionType: physical.ExpressionTypeTuple, Tuple: &physical.Tuple{Arguments: args}}, r
		case "S":
			return physical.Expression{Type: ty, ExpressionType: physical.ExpressionTypeTypeAssertion, TypeAssertion: &physical.TypeAssertion{Expression: args[0], TargetType: ty}}, r
		case "C":
			return physical.Expression{Type: ty, ExpressionType: physical.ExpressionTypeTypeCast, TypeCast: &physical.TypeCast{Expression: args[0], TargetTypeID: ty.TypeID}}, r
		}
		panic("c26: bad node kind " + kind)
	case "F":
		ty, r := ParseType(toks[1:])
		nameb, err := hex.DecodeString(r[0])
		if err != nil {
			panic(err)
		}
		var d physical.FunctionDescriptor
		if r[1] != "-" {
			idx, err := strconv.Atoi(r[1])
			if err != nil {
				panic(err)
			}
			d = funcs26()[string(nameb)].Descriptors[idx]
		}
		k, err := strconv.Atoi(r[2])
		if err != nil {
			panic(err)
		}
		r = r[3:]
		args := make([]physical.Expression, k)
		for i := 0; i < k; i++ {
			args[i], r = parseTree26(r)
		}
		return physical.Expression{Type: ty, ExpressionType: physical.ExpressionTypeFunctionCall,
			FunctionCall: &physical.FunctionCall{Name: string(nameb), Arguments: args, FunctionDescriptor: d}}, r
	}
	panic("c26: bad tree token " + toks[0])
}

func callFns26(e physical.Expression, out *[]string) {
	each := func(args []physical.Expression) {
		for _, a := range args {
			callFns26(a, out)
		}
	}
	switch e.ExpressionType {
	case physical.ExpressionTypeAnd:
		each(e.And.Arguments)
	case physical.ExpressionTypeOr:
		each(e.Or.Arguments)
	case physical.ExpressionTypeCoalesce:
		each(e.Coalesce.Arguments)
	case physical.ExpressionTypeTuple:
		each(e.Tuple.Arguments)
	case physical.ExpressionTypeTypeAssertion:
		callFns26(e.TypeAssertion.Expression, out)
	case physical.ExpressionTypeTypeCast:
		callFns26(e.TypeCast.Expression, out)
	case physical.ExpressionTypeFunctionCall:
		*out = append(*out, descIndex26(e.FunctionCall.Name, e.FunctionCall.FunctionDescriptor))
		each(e.FunctionCall.Arguments)
	}
}

func driveC26tree(toks []string) string {
	e, _ := parseTree26(toks[1:])
	out, ok, err := jsonTripExpr(e)
	if err != nil {
		return "jsonerr:" + jsonErrClass(err)[4:]
	}
	var fns []string
	callFns26(out, &fns)
	return strings.TrimSpace("fns " + strings.Join(fns, " ") + " ok=" + b01(ok))
}

// ---------- generator of well-typed predicates

type gexpr struct {
	toks []string
	e    physical.Expression
}

type predGen struct {
	g    *Gen
	cols []octosql.Type
}

var c26ColTypes = []string{"Int", "Float", "Str", "Bool", "Time", "Dur", "Union2 Null Int", "Union2 Null Str", "Union2 Null Float",
	"Union2 Null Bool", "Union2 Null Time", "List Int", "Tuple2 Int Str", "Struct2 x61 Int x62 Str", "Union2 Null Dur", "List Str"}

var c26SafeStrings = []string{"", "a", "b", "ab", "é", "日本", "A", "a%", "_b", "2021-01-02", "x\x00y", "\xef\xbf\xbd"}
var c26SafeFloats = []uint64{0, 0x8000000000000000, 0x3FF0000000000000, 0xBFF0000000000000, 0x4000000000000000, 0x3FE0000000000000, 0x7FEFFFFFFFFFFFFF, 0x0000000000000001, 0x4024000000000000}
var c26SafeTimes = []string{"0", "1", "-1", "1500000000123456789", "-62135596800000000000", "4102444800000000000", "-2208988800000000001", "999999999"}

func (p *predGen) constOf(t octosql.Type, depth int) octosql.Value {
	g := p.g
	switch t.TypeID {
	case octosql.TypeIDNull:
		return octosql.NewNull()
	case octosql.TypeIDInt:
		if g.Chance(1, 4) {
			return octosql.NewInt(Pick(g, edgeInts))
		}
		return octosql.NewInt(int64(g.Intn(7)) - 3)
	case octosql.TypeIDFloat:
		return f64(Pick(g, c26SafeFloats))
	case octosql.TypeIDBoolean:
		return octosql.NewBoolean(g.Bool())
	case octosql.TypeIDString:
		return octosql.NewString(Pick(g, c26SafeStrings))
	case octosql.TypeIDTime:
		return octosql.NewTime(timeOfBigNs(Pick(g, c26SafeTimes)).In(locOf(Pick(g, []int{0, 1, 103}))))
	case octosql.TypeIDDuration:
		return octosql.NewDuration(time.Duration(Pick(g, []int64{0, 1, -1, 1000000000, -1500000001, 3600000000000})))
	case octosql.TypeIDList:
		n := g.Intn(4)
		xs := make([]octosql.Value, n)
		for i := range xs {
			if t.List.Element == nil {
				xs = xs[:0]
				break
			}
			xs[i] = p.constOf(*t.List.Element, depth-1)
		}
		return octosql.NewList(xs)
	case octosql.TypeIDStruct:
		xs := make([]octosql.Value, len(t.Struct.Fields))
		for i := range xs {
			xs[i] = p.constOf(t.Struct.Fields[i].Type, depth-1)
		}
		return octosql.NewStruct(xs)
	case octosql.TypeIDTuple:
		xs := make([]octosql.Value, len(t.Tuple.Elements))
		for i := range xs {
			xs[i] = p.constOf(t.Tuple.Elements[i], depth-1)
		}
		return octosql.NewTuple(xs)
	case octosql.TypeIDUnion:
		return p.constOf(Pick(g, t.Union.Alternatives), depth)
	case octosql.TypeIDAny:
		ts, _ := ParseType(strings.Fields(Pick(g, []string{"Int", "Str", "Float", "Bool", "Null"})))
		return p.constOf(ts, depth)
	}
	return octosql.NewNull()
}

func (p *predGen) constant(t octosql.Type) gexpr {
	v := p.constOf(t, 2)
	return gexpr{toks: []string{"C", EncodeType(t), enc26Value(v)},
		e: physical.Expression{Type: t, ExpressionType: physical.ExpressionTypeConstant, Constant: &physical.Constant{Value: v}}}
}

func (p *predGen) variable(i int) gexpr {
	return gexpr{toks: []string{"V", strconv.Itoa(i)},
		e: physical.Expression{Type: p.cols[i], ExpressionType: physical.ExpressionTypeVariable, Variable: &physical.Variable{Name: "c" + strconv.Itoa(i), IsLevel0: true}}}
}

func (p *predGen) call(name string, args []gexpr) (gexpr, bool) {
	pargs := make([]physical.Expression, len(args))
	toks := []string{"F", hex.EncodeToString([]byte(name)), strconv.Itoa(len(args))}
	for i := range args {
		pargs[i] = args[i].e
		toks = append(toks, args[i].toks...)
	}
	var e physical.Expression
	if safe(func() string { e = call26(name, pargs); return "ok" }) == "panic" {
		return gexpr{}, false
	}
	return gexpr{toks: toks, e: e}, true
}

func (p *predGen) tupleExpr(elems []gexpr) gexpr {
	toks := []string{"U", strconv.Itoa(len(elems))}
	args := make([]physical.Expression, len(elems))
	ts := make([]octosql.Type, len(elems))
	for i := range elems {
		toks = append(toks, elems[i].toks...)
		args[i] = elems[i].e
		ts[i] = elems[i].e.Type
	}
	return gexpr{toks: toks, e: physical.Expression{Type: octosql.Type{TypeID: octosql.TypeIDTuple, Tuple: struct{ Elements []octosql.Type }{Elements: ts}},
		ExpressionType: physical.ExpressionTypeTuple, Tuple: &physical.Tuple{Arguments: args}}}
}

var c26ScalarTypes = []octosql.Type{octosql.Int, octosql.Float, octosql.String, octosql.Boolean, octosql.Time, octosql.Duration}

// ofType: an expression whose static type is (a subtype of) t
func (p *predGen) ofType(t octosql.Type, depth int) gexpr {
	g := p.g
	if t.TypeID == octosql.TypeIDAny {
		t = Pick(g, c26ScalarTypes)
	}
	// a column of that type?
	if g.Chance(2, 5) {
		var cand []int
		for i, c := range p.cols {
			if c.Is(t) == octosql.TypeRelationIs {
				cand = append(cand, i)
			}
		}
		if len(cand) > 0 {
			return p.variable(Pick(g, cand))
		}
	}
	// a call producing that type?
	if depth > 0 && g.Chance(1, 2) {
		names := c26FunctionNames()
		for try := 0; try < 6; try++ {
			name := Pick(g, names)
			if name == "now" || name == "panic" {
				continue
			}
			ds := funcs26()[name].Descriptors
			di := g.Intn(len(ds))
			if ds[di].TypeFn != nil || ds[di].OutputType.Is(t) != octosql.TypeRelationIs {
				continue
			}
			if x, ok := p.callDescriptor(name, di, depth-1); ok && x.e.Type.Is(t) == octosql.TypeRelationIs {
				return x
			}
		}
	}
	return p.constant(t)
}

// callDescriptor: a call of `name` whose arguments are made for descriptor di
func (p *predGen) callDescriptor(name string, di int, depth int) (gexpr, bool) {
	g := p.g
	d := funcs26()[name].Descriptors[di]
	if d.TypeFn == nil {
		args := make([]gexpr, len(d.ArgumentTypes))
		for i := range args {
			args[i] = p.ofType(d.ArgumentTypes[i], depth)
		}
		return p.call(name, args)
	}
	tupleOf := func(t octosql.Type, n int) octosql.Type {
		es := make([]octosql.Type, n)
		for i := range es {
			es[i] = t
		}
		return octosql.Type{TypeID: octosql.TypeIDTuple, Tuple: struct{ Elements []octosql.Type }{Elements: es}}
	}
	listOf := func(t octosql.Type) octosql.Type {
		return octosql.Type{TypeID: octosql.TypeIDList, List: struct{ Element *octosql.Type }{Element: &t}}
	}
	switch name {
	case "<", "<=", ">", ">=":
		t := Pick(g, c26ScalarTypes)
		return p.call(name, []gexpr{p.ofType(t, depth), p.ofType(t, depth)})
	case "in", "not in":
		t := Pick(g, []octosql.Type{octosql.Int, octosql.String, octosql.Float})
		var coll octosql.Type
		if di == 0 {
			coll = listOf(t)
		} else {
			n := 1 + g.Intn(3)
			if g.Chance(2, 3) {
				// the way SQL writes it: a tuple *expression* `(e1, e2, …)`
				elems := make([]gexpr, n)
				for i := range elems {
					elems[i] = p.ofType(t, depth-1)
				}
				return p.call(name, []gexpr{p.ofType(t, depth), p.tupleExpr(elems)})
			}
			coll = tupleOf(t, n)
		}
		return p.call(name, []gexpr{p.ofType(t, depth), p.ofType(coll, depth)})
	case "len":
		var coll octosql.Type
		switch di {
		case 1:
			coll = listOf(Pick(g, c26ScalarTypes))
		case 2:
			coll, _ = ParseType(strings.Fields("Struct2 x61 Int x62 Str"))
		default:
			coll = tupleOf(octosql.Int, g.Intn(4))
		}
		return p.call(name, []gexpr{p.ofType(coll, depth)})
	case "[]":
		return p.call(name, []gexpr{p.ofType(listOf(Pick(g, c26ScalarTypes)), depth), p.ofType(octosql.Int, depth)})
	}
	return gexpr{}, false
}

func (p *predGen) boolean(depth int) gexpr {
	g := p.g
	if depth > 0 && g.Chance(1, 4) {
		n := 2 + g.Intn(2)
		kind := Pick(g, []string{"A", "O"})
		toks := []string{kind, strconv.Itoa(n)}
		args := make([]physical.Expression, n)
		for i := 0; i < n; i++ {
			x := p.boolean(depth - 1)
			toks = append(toks, x.toks...)
			args[i] = x.e
		}
		if kind == "A" {
			return gexpr{toks: toks, e: physical.Expression{Type: boolType26(args), ExpressionType: physical.ExpressionTypeAnd, And: &physical.And{Arguments: args}}}
		}
		return gexpr{toks: toks, e: physical.Expression{Type: boolType26(args), ExpressionType: physical.ExpressionTypeOr, Or: &physical.Or{Arguments: args}}}
	}
	for try := 0; try < 20; try++ {
		name := Pick(g, []string{"=", "!=", "<", "<=", ">", ">=", "in", "not in", "like", "~", "~*", "is null", "is not null", "not", "in", "not in"})
		ds := funcs26()[name].Descriptors
		di := g.Intn(len(ds))
		if name == "=" || name == "!=" {
			t := Pick(g, c26ScalarTypes)
			if x, ok := p.call(name, []gexpr{p.ofType(t, depth), p.ofType(t, depth)}); ok {
				return x
			}
			continue
		}
		if x, ok := p.callDescriptor(name, di, depth); ok {
			return x
		}
	}
	return p.constant(octosql.Boolean)
}

func (p *predGen) line(root gexpr, g *Gen) string {
	var sb strings.Builder
	fmt.Fprintf(&sb, "pred %d", len(p.cols))
	for _, c := range p.cols {
		v := p.constOf(c, 2)
		sb.WriteString(" " + EncodeType(c) + " " + enc26Value(v))
	}
	sb.WriteString(" " + strings.Join(root.toks, " "))
	return sb.String()
}

func newPredGen(g *Gen) *predGen {
	n := 2 + g.Intn(4)
	cols := make([]octosql.Type, n)
	for i := range cols {
		cols[i], _ = ParseType(strings.Fields(Pick(g, c26ColTypes)))
	}
	return &predGen{g: g, cols: cols}
}

func genC26pred(g *Gen, tier string, w *bufio.Writer) {
	scale := 1
	if tier == "thorough" {
		scale = 20
	}
	// every descriptor of every function as the root call, several argument draws each
	for _, name := range c26FunctionNames() {
		if name == "now" {
			continue
		}
		for di := range funcs26()[name].Descriptors {
			for rep := 0; rep < 4*scale; rep++ {
				p := newPredGen(g)
				if x, ok := p.callDescriptor(name, di, 2); ok {
					fmt.Fprintln(w, p.line(x, g))
				}
			}
		}
	}
	// the witness of the repaired defect and its relatives, literally
	fmt.Fprintln(w, "pred 1 Int i1 F 696e 2 V 0 C Tuple2 Int Int T2 i1 i2")
	fmt.Fprintln(w, "pred 1 Int i3 F 696e 2 V 0 C Tuple2 Int Int T2 i1 i2")
	fmt.Fprintln(w, "pred 1 Int i1 F 6e6f7420696e 2 V 0 C Tuple3 Int Int Int T3 i1 i2 i3")
	fmt.Fprintln(w, "pred 1 Int i1 F 696e 2 V 0 C List Int L2 i1 i2")
	fmt.Fprintln(w, "pred 1 Int i2 F 3d 2 F 6c656e 1 C Tuple2 Int Int T2 i1 i2 V 0")
	fmt.Fprintln(w, "pred 1 Int i2 F 3d 2 F 6c656e 1 C Struct2 x61 Int x62 Str S2 i1 s61 V 0")
	// random boolean predicates
	for i := 0; i < 700*scale; i++ {
		p := newPredGen(g)
		x := p.boolean(3)
		fmt.Fprintln(w, p.line(x, g))
		if i%2 == 0 {
			fmt.Fprintln(w, "tree "+strings.Join(treeTokens(x.e), " "))
		}
	}
	// trees around calls the typechecker resolves only in its second pass (type assertions inserted), unknown functions, calls without arguments
	for i := 0; i < 200*scale; i++ {
		name := Pick(g, c26FunctionNames())
		n := g.Intn(3)
		ts := make([]octosql.Type, n)
		for j := range ts {
			ts[j], _ = ParseType(strings.Fields(Pick(g, c26ArgPool)))
		}
		var e physical.Expression
		if safe(func() string { e = typecheck26(name, ts); return "ok" }) == "panic" {
			continue
		}
		wrap := physical.Expression{Type: octosql.Boolean, ExpressionType: physical.ExpressionTypeOr, Or: &physical.Or{Arguments: []physical.Expression{
			{Type: octosql.Boolean, ExpressionType: physical.ExpressionTypeVariable, Variable: &physical.Variable{Name: "v", IsLevel0: true}}, e}}}
		fmt.Fprintln(w, "tree "+strings.Join(treeTokens(wrap), " "))
	}
	fmt.Fprintln(w, "tree N A Bool 2 F Bool 6e6f5f73756368 - 1 L Int F Bool 696e 1 2 L Int L Tuple2 Int Int")
	fmt.Fprintln(w, "tree F Bool 696e 1 2 L Int L Tuple2 Int Int")
}
