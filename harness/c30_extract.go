package main

// Translator for C30 (DESIGN §2.2a): `vh extract sqlformat --out lean/Octo/Gen` reads the CURRENT
// parser/sqlparser/ast.go (+ token.go, sql.y) and writes lean/Octo/Gen/SqlFormat.lean:
//
//   * for every modelled node type its Format method as a flat list of guarded steps
//     (Myprintf format string split into literal pieces — tokenised with the real tokenizer — and %v/%s arguments
//     named by their Go source text; `if` conditions by their Go source text; `return`; local string variables);
//   * for every list node type (for-loop with a prefix variable) the first / separator / last literal;
//   * the string constants of ast.go (operator names, join kinds, …) with their token sequences;
//   * the keyword table of token.go and the non-reserved keyword list of sql.y.
//
// The Lean printer `Octo.SqlSyn.print*` interprets these generated templates, so a changed format string changes the
// model and the round-trip theorem is re-proved against it.  Fail closed: any Go construct outside the shapes
// recognised here is an error.

import (
	"bytes"
	"fmt"
	"go/ast"
	"go/parser"
	"go/printer"
	"go/token"
	"os"
	"path/filepath"
	"sort"
	"strconv"
	"strings"

	"github.com/cube2222/octosql/parser/sqlparser"
)

func init() { registerExtractor("sqlformat", extractSQLFormat) }

// node types whose Format method is a sequence of guarded Myprintf calls
var sqlStepTypes = []string{
	"Select", "With", "CommonTableExpression", "StarExpr", "AliasedExpr", "ObjectExplode", "AliasedTableExpr", "TableName",
	"ParenTableExpr", "JoinCondition", "JoinTableExpr", "TableValuedFunction", "TableValuedFunctionArgument",
	"ExprTableValuedFunctionArgumentValue", "TableDescriptorTableValuedFunctionArgumentValue",
	"FieldDescriptorTableValuedFunctionArgumentValue", "Where", "AndExpr", "OrExpr", "NotExpr", "ParenExpr", "ComparisonExpr",
	"IsExpr", "ExistsExpr", "NullVal", "BoolVal", "ObjectFieldAccess", "ColName", "ValTuple", "Subquery", "BinaryExpr",
	"UnaryExpr", "IntervalExpr", "FuncExpr", "ConvertExpr", "ConvertTypeSimple", "ConvertTypeList", "ConvertTypeObject", "Order",
	"Limit", "WatermarkTrigger", "EndOfStreamTrigger", "DelayTrigger", "CountingTrigger",
}

// list node types: `prefix := <first>; for _, n := range node { buf.Myprintf("%s%v", prefix, n); prefix = <sep> }`
var sqlListTypes = []string{
	"CommonTableExpressions", "SelectExprs", "TableExprs", "TableValuedFunctionArguments", "Exprs", "GroupBy", "OrderBy",
	"Triggers", "Columns",
}

// Lean constructor names of Octo.SqlSyn.Kw (must match lean/Octo/Model/Sql.lean)
var sqlLeanKw = map[string]bool{}

func init() {
	for _, k := range strings.Fields(`SELECT FROM WHERE GROUP BY HAVING ORDER LIMIT OFFSET DISTINCT AS ASC DESC JOIN INNER CROSS LEFT RIGHT
		OUTER NATURAL ON USING LOOKUP STREAM TRIGGER COUNTING WATERMARK DELAY AFTER END OF TABLE DESCRIPTOR WITH AND OR NOT IS NULL
		TRUE FALSE IN LIKE REGEXP EXISTS INTERVAL DIV MOD CONVERT CAST
		LPAREN RPAREN COMMA DOT STAR PLUS MINUS SLASH PERCENT CARET AMP PIPE TILDE BANG EQ LT GT LE GE NE NULL_SAFE_EQUAL
		SHIFT_LEFT SHIFT_RIGHT JSON_EXTRACT_OP JSON_EXPLODE_OP RIGHTARROW LIST_ARG LIST_TYPE OBJECT_TYPE LBRACK RBRACK SEMI`) {
		sqlLeanKw[k] = true
	}
}

func leanStr(s string) string {
	var sb strings.Builder
	sb.WriteByte('"')
	for _, c := range []byte(s) {
		switch {
		case c == '"':
			sb.WriteString("\\\"")
		case c == '\\':
			sb.WriteString("\\\\")
		case c == '\n':
			sb.WriteString("\\n")
		case c == '\t':
			sb.WriteString("\\t")
		case c < 32 || c > 126:
			fmt.Fprintf(&sb, "\\x%02x", c)
		default:
			sb.WriteByte(c)
		}
	}
	sb.WriteByte('"')
	return sb.String()
}

// leanTok renders one real token as a Lean term of type Octo.SqlSyn.Tok
func leanTok(t sqlTok) (string, error) {
	switch t.typ {
	case sqlparser.ID:
		return ".id " + leanStr(string(t.val)), nil
	case sqlparser.STRING:
		return ".str " + leanStr(string(t.val)), nil
	case sqlparser.INTEGRAL:
		return ".int " + leanStr(string(t.val)), nil
	case sqlparser.FLOAT:
		return ".float " + leanStr(string(t.val)), nil
	case sqlparser.HEXNUM:
		return ".hexnum " + leanStr(string(t.val)), nil
	case sqlparser.HEX:
		return ".hex " + leanStr(string(t.val)), nil
	case sqlparser.BIT_LITERAL:
		return ".bit " + leanStr(string(t.val)), nil
	case sqlparser.LEX_ERROR, sqlparser.VALUE_ARG, sqlparser.COMMENT:
		return "", fmt.Errorf("literal lexes to an error / bind variable / comment token")
	}
	if t.name == "" {
		return "", fmt.Errorf("token %d has no name", t.typ)
	}
	if sqlLeanKw[t.name] {
		return ".kw ." + t.name, nil
	}
	if t.plainNonReserved() {
		return ".nrkw " + leanStr(string(t.val)), nil
	}
	return ".other " + leanStr(t.name), nil
}

func leanToks(text string) (string, error) {
	ts, hadComment := sqlTokenize(text)
	if hadComment {
		return "", fmt.Errorf("literal %q contains a comment", text)
	}
	var parts []string
	for _, t := range ts {
		s, err := leanTok(t)
		if err != nil {
			return "", fmt.Errorf("literal %q: %v", text, err)
		}
		parts = append(parts, s)
	}
	return "[" + strings.Join(parts, ", ") + "]", nil
}

func goSrc(fset *token.FileSet, n ast.Node) string {
	var b bytes.Buffer
	printer.Fprint(&b, fset, n)
	return strings.Join(strings.Fields(b.String()), " ")
}

type sqlStep struct {
	conds []string // Lean terms (cond, expected)
	act   string   // Lean term of type Act
}

type sqlExtractor struct {
	fset *token.FileSet
	errs []string
}

func (x *sqlExtractor) fail(pos token.Pos, format string, a ...interface{}) {
	x.errs = append(x.errs, fmt.Sprintf("%s: %s", x.fset.Position(pos), fmt.Sprintf(format, a...)))
}

// isBufCall reports buf.<name>(...)
func isBufCall(e ast.Expr, name string) (*ast.CallExpr, bool) {
	c, ok := e.(*ast.CallExpr)
	if !ok {
		return nil, false
	}
	sel, ok := c.Fun.(*ast.SelectorExpr)
	if !ok || sel.Sel.Name != name {
		return nil, false
	}
	id, ok := sel.X.(*ast.Ident)
	if !ok || id.Name != "buf" {
		return nil, false
	}
	return c, true
}

func strLit(e ast.Expr) (string, bool) {
	l, ok := e.(*ast.BasicLit)
	if !ok || l.Kind != token.STRING {
		return "", false
	}
	s, err := strconv.Unquote(l.Value)
	return s, err == nil
}

// pieces splits a Myprintf call into Lean pieces
func (x *sqlExtractor) pieces(c *ast.CallExpr) (string, bool) {
	if len(c.Args) < 1 {
		x.fail(c.Pos(), "Myprintf without format")
		return "", false
	}
	format, ok := strLit(c.Args[0])
	if !ok {
		x.fail(c.Pos(), "Myprintf format is not a string literal")
		return "", false
	}
	args := c.Args[1:]
	var out []string
	argi := 0
	lit := ""
	flush := func() bool {
		if lit == "" {
			return true
		}
		t, err := leanToks(lit)
		if err != nil {
			x.fail(c.Pos(), "%v", err)
			return false
		}
		if t != "[]" {
			out = append(out, ".lit "+t)
		}
		lit = ""
		return true
	}
	for i := 0; i < len(format); i++ {
		if format[i] != '%' {
			lit += string(format[i])
			continue
		}
		if i+1 >= len(format) {
			x.fail(c.Pos(), "dangling %% in format %q", format)
			return "", false
		}
		verb := format[i+1]
		i++
		if verb != 'v' && verb != 's' {
			x.fail(c.Pos(), "unsupported verb %%%c in format %q", verb, format)
			return "", false
		}
		if argi >= len(args) {
			x.fail(c.Pos(), "format %q has more verbs than arguments", format)
			return "", false
		}
		if !flush() {
			return "", false
		}
		out = append(out, fmt.Sprintf(".arg '%c' %s", verb, leanStr(goSrc(x.fset, args[argi]))))
		argi++
	}
	if argi != len(args) {
		x.fail(c.Pos(), "format %q has fewer verbs than arguments", format)
		return "", false
	}
	if !flush() {
		return "", false
	}
	return "[" + strings.Join(out, ", ") + "]", true
}

func (x *sqlExtractor) steps(body []ast.Stmt, conds []string, out *[]sqlStep) {
	for _, st := range body {
		switch s := st.(type) {
		case *ast.ExprStmt:
			if c, ok := isBufCall(s.X, "Myprintf"); ok {
				if p, ok := x.pieces(c); ok {
					*out = append(*out, sqlStep{conds, ".printf " + p})
				}
				continue
			}
			x.fail(s.Pos(), "unsupported expression statement %s", goSrc(x.fset, s))
		case *ast.ReturnStmt:
			if len(s.Results) != 0 {
				x.fail(s.Pos(), "return with results")
			}
			*out = append(*out, sqlStep{conds, ".ret"})
		case *ast.IfStmt:
			cond := goSrc(x.fset, s.Cond)
			if s.Init != nil {
				cond = goSrc(x.fset, s.Init) + "; " + cond
			}
			x.steps(s.Body.List, append(append([]string{}, conds...), fmt.Sprintf("(%s, true)", leanStr(cond))), out)
			switch e := s.Else.(type) {
			case nil:
			case *ast.BlockStmt:
				x.steps(e.List, append(append([]string{}, conds...), fmt.Sprintf("(%s, false)", leanStr(cond))), out)
			default:
				x.fail(s.Pos(), "else-if is not supported")
			}
		case *ast.DeclStmt:
			gd, ok := s.Decl.(*ast.GenDecl)
			if !ok || gd.Tok != token.VAR || len(gd.Specs) != 1 {
				x.fail(s.Pos(), "unsupported declaration")
				continue
			}
			vs := gd.Specs[0].(*ast.ValueSpec)
			if len(vs.Names) != 1 || len(vs.Values) != 0 || goSrc(x.fset, vs.Type) != "string" {
				x.fail(s.Pos(), "unsupported declaration %s", goSrc(x.fset, s))
				continue
			}
			*out = append(*out, sqlStep{conds, fmt.Sprintf(".assign %s []", leanStr(vs.Names[0].Name))})
		case *ast.AssignStmt:
			if len(s.Lhs) != 1 || len(s.Rhs) != 1 || s.Tok != token.ASSIGN {
				x.fail(s.Pos(), "unsupported assignment %s", goSrc(x.fset, s))
				continue
			}
			id, ok := s.Lhs[0].(*ast.Ident)
			v, ok2 := strLit(s.Rhs[0])
			if !ok || !ok2 {
				x.fail(s.Pos(), "unsupported assignment %s", goSrc(x.fset, s))
				continue
			}
			t, err := leanToks(v)
			if err != nil {
				x.fail(s.Pos(), "%v", err)
				continue
			}
			*out = append(*out, sqlStep{conds, fmt.Sprintf(".assign %s %s", leanStr(id.Name), t)})
		case *ast.EmptyStmt:
		default:
			x.fail(st.Pos(), "unsupported statement %s", goSrc(x.fset, st))
		}
	}
}

// listFmt recognises  [if node == nil { return }]  (var prefix string | prefix := "lit")
//                     for _, n := range node { buf.Myprintf("%s%v", prefix, n); prefix = "lit" }  [buf.WriteString("lit")]
func (x *sqlExtractor) listFmt(fd *ast.FuncDecl) (first, sep, last string, nilGuard bool, ok bool) {
	body := fd.Body.List
	bad := func(why string) (string, string, string, bool, bool) {
		x.fail(fd.Pos(), "list Format of unexpected shape: %s", why)
		return "", "", "", false, false
	}
	if len(body) > 0 {
		if is, isIf := body[0].(*ast.IfStmt); isIf {
			if is.Init != nil || is.Else != nil || goSrc(x.fset, is.Cond) != "node == nil" || len(is.Body.List) != 1 {
				return bad("leading if")
			}
			if r, isRet := is.Body.List[0].(*ast.ReturnStmt); !isRet || len(r.Results) != 0 {
				return bad("leading if body")
			}
			nilGuard = true
			body = body[1:]
		}
	}
	if len(body) < 2 || len(body) > 3 {
		return bad("statement count")
	}
	firstText := ""
	switch s := body[0].(type) {
	case *ast.DeclStmt:
		gd, isG := s.Decl.(*ast.GenDecl)
		if !isG || gd.Tok != token.VAR || len(gd.Specs) != 1 {
			return bad("prefix declaration")
		}
		vs := gd.Specs[0].(*ast.ValueSpec)
		if len(vs.Names) != 1 || vs.Names[0].Name != "prefix" || len(vs.Values) != 0 || goSrc(x.fset, vs.Type) != "string" {
			return bad("prefix declaration")
		}
	case *ast.AssignStmt:
		if s.Tok != token.DEFINE || len(s.Lhs) != 1 || len(s.Rhs) != 1 || goSrc(x.fset, s.Lhs[0]) != "prefix" {
			return bad("prefix definition")
		}
		v, isS := strLit(s.Rhs[0])
		if !isS {
			return bad("prefix definition value")
		}
		firstText = v
	default:
		return bad("first statement")
	}
	rs, isR := body[1].(*ast.RangeStmt)
	if !isR || goSrc(x.fset, rs.X) != "node" || goSrc(x.fset, rs.Key) != "_" || goSrc(x.fset, rs.Value) != "n" || len(rs.Body.List) != 2 {
		return bad("range loop")
	}
	es, isE := rs.Body.List[0].(*ast.ExprStmt)
	if !isE {
		return bad("loop body")
	}
	c, isC := isBufCall(es.X, "Myprintf")
	if !isC || len(c.Args) != 3 || goSrc(x.fset, c.Args[1]) != "prefix" || goSrc(x.fset, c.Args[2]) != "n" {
		return bad("loop Myprintf")
	}
	if f, isS := strLit(c.Args[0]); !isS || f != "%s%v" {
		return bad("loop format")
	}
	as, isA := rs.Body.List[1].(*ast.AssignStmt)
	if !isA || as.Tok != token.ASSIGN || len(as.Lhs) != 1 || goSrc(x.fset, as.Lhs[0]) != "prefix" || len(as.Rhs) != 1 {
		return bad("prefix update")
	}
	sepText, isS := strLit(as.Rhs[0])
	if !isS {
		return bad("prefix update value")
	}
	lastText := ""
	if len(body) == 3 {
		es, isE := body[2].(*ast.ExprStmt)
		if !isE {
			return bad("trailing statement")
		}
		c, isC := isBufCall(es.X, "WriteString")
		if !isC || len(c.Args) != 1 {
			return bad("trailing statement")
		}
		v, isS := strLit(c.Args[0])
		if !isS {
			return bad("trailing WriteString")
		}
		lastText = v
	}
	var err error
	if first, err = leanToks(firstText); err != nil {
		return bad(err.Error())
	}
	if sep, err = leanToks(sepText); err != nil {
		return bad(err.Error())
	}
	if last, err = leanToks(lastText); err != nil {
		return bad(err.Error())
	}
	return first, sep, last, nilGuard, true
}

func recvTypeName(fd *ast.FuncDecl) string {
	if fd.Recv == nil || len(fd.Recv.List) != 1 {
		return ""
	}
	t := fd.Recv.List[0].Type
	if st, ok := t.(*ast.StarExpr); ok {
		t = st.X
	}
	if id, ok := t.(*ast.Ident); ok {
		return id.Name
	}
	return ""
}

func extractSQLFormat(repo, outDir string) error {
	names := loadSQLNames()
	if names.err != nil {
		return names.err
	}
	dir := filepath.Join(repo, "parser", "sqlparser")
	fset := token.NewFileSet()
	f, err := parser.ParseFile(fset, filepath.Join(dir, "ast.go"), nil, 0)
	if err != nil {
		return err
	}
	x := &sqlExtractor{fset: fset}
	formats := map[string]*ast.FuncDecl{}
	type sconst struct{ name, val string }
	var consts []sconst
	for _, d := range f.Decls {
		switch n := d.(type) {
		case *ast.FuncDecl:
			if n.Name.Name == "Format" {
				if r := recvTypeName(n); r != "" {
					formats[r] = n
				}
			}
		case *ast.GenDecl:
			if n.Tok != token.CONST {
				continue
			}
			for _, sp := range n.Specs {
				vs := sp.(*ast.ValueSpec)
				if len(vs.Names) != 1 || len(vs.Values) != 1 {
					continue
				}
				if v, ok := strLit(vs.Values[0]); ok {
					consts = append(consts, sconst{vs.Names[0].Name, v})
				}
			}
		}
	}
	var sb strings.Builder
	sb.WriteString("import Octo.Model.SqlTok\n/-! GENERATED by `vh extract sqlformat` from parser/sqlparser/{ast.go,token.go,sql.y}. Do not edit. -/\n")
	sb.WriteString("namespace Octo.SqlSyn.Gen\nopen Octo.SqlSyn\n\n")

	for _, tn := range sqlStepTypes {
		fd, ok := formats[tn]
		if !ok {
			x.errs = append(x.errs, "no Format method for "+tn)
			continue
		}
		var steps []sqlStep
		x.steps(fd.Body.List, nil, &steps)
		fmt.Fprintf(&sb, "def fmt_%s : List Step := [\n", tn)
		for i, s := range steps {
			sep := ","
			if i == len(steps)-1 {
				sep = ""
			}
			fmt.Fprintf(&sb, "  ⟨[%s], %s⟩%s\n", strings.Join(s.conds, ", "), s.act, sep)
		}
		sb.WriteString("]\n\n")
	}
	for _, tn := range sqlListTypes {
		fd, ok := formats[tn]
		if !ok {
			x.errs = append(x.errs, "no Format method for "+tn)
			continue
		}
		first, sep, last, nilGuard, ok := x.listFmt(fd)
		if !ok {
			continue
		}
		fmt.Fprintf(&sb, "def list_%s : ListFmt := ⟨%s, %s, %s, %v⟩\n", tn, first, sep, last, nilGuard)
	}
	sb.WriteString("\n")
	// string constants: value and token sequence
	wantConst := map[string]bool{}
	for _, c := range strings.Fields(`DistinctStr WhereStr HavingStr JoinStr LeftJoinStr RightJoinStr OuterJoinStr NaturalJoinStr
		NaturalLeftJoinStr NaturalRightJoinStr UndefinedJoinStrategy LookupJoinStrategy StreamJoinStrategy
		EqualStr LessThanStr GreaterThanStr LessEqualStr GreaterEqualStr NotEqualStr NullSafeEqualStr InStr NotInStr LikeStr
		NotLikeStr RegexpStr NotRegexpStr IsNullStr IsNotNullStr IsTrueStr IsNotTrueStr IsFalseStr IsNotFalseStr
		ArrayElement BitAndStr BitOrStr BitXorStr PlusStr MinusStr MultStr DivStr IntDivStr ModStr ShiftLeftStr ShiftRightStr
		UPlusStr UMinusStr TildaStr BangStr AscScr DescScr`) {
		wantConst[c] = true
	}
	for _, c := range consts {
		if !wantConst[c.name] {
			continue
		}
		delete(wantConst, c.name)
		t, err := leanToks(c.val)
		if err != nil {
			x.errs = append(x.errs, fmt.Sprintf("const %s: %v", c.name, err))
			continue
		}
		fmt.Fprintf(&sb, "def v_%s : String := %s\ndef c_%s : List Tok := %s\n", c.name, leanStr(c.val), c.name, t)
	}
	for c := range wantConst {
		x.errs = append(x.errs, "string constant "+c+" not found in ast.go")
	}
	// keyword table of token.go: text -> how the tokenizer classifies it
	tf, err := parser.ParseFile(fset, filepath.Join(dir, "token.go"), nil, 0)
	if err != nil {
		return err
	}
	type kwe struct{ text, tok string }
	var kws []kwe
	for _, d := range tf.Decls {
		gd, ok := d.(*ast.GenDecl)
		if !ok || gd.Tok != token.VAR {
			continue
		}
		for _, sp := range gd.Specs {
			vs := sp.(*ast.ValueSpec)
			if len(vs.Names) != 1 || vs.Names[0].Name != "keywords" || len(vs.Values) != 1 {
				continue
			}
			cl, ok := vs.Values[0].(*ast.CompositeLit)
			if !ok {
				return fmt.Errorf("token.go: keywords is not a composite literal")
			}
			for _, el := range cl.Elts {
				kv, ok := el.(*ast.KeyValueExpr)
				if !ok {
					return fmt.Errorf("token.go: keywords entry of unexpected shape")
				}
				k, ok1 := strLit(kv.Key)
				id, ok2 := kv.Value.(*ast.Ident)
				if !ok1 || !ok2 {
					return fmt.Errorf("token.go: keywords entry of unexpected shape")
				}
				kws = append(kws, kwe{k, id.Name})
			}
		}
	}
	if len(kws) < 200 {
		return fmt.Errorf("token.go: keywords table not found (%d entries)", len(kws))
	}
	sort.Slice(kws, func(i, j int) bool { return kws[i].text < kws[j].text })
	sb.WriteString("\n/-- token.go `keywords`: lower-case text ↦ the token the tokenizer returns for it -/\ndef keywords : List (String × Tok) := [\n")
	for i, k := range kws {
		// classify through the real tokenizer (so that the table says what Scan really returns)
		ts, _ := sqlTokenize(k.text)
		if len(ts) != 1 || ts[0].name != k.tok {
			x.errs = append(x.errs, fmt.Sprintf("keyword %q does not lex to %s", k.text, k.tok))
			continue
		}
		t, err := leanTok(ts[0])
		if err != nil {
			x.errs = append(x.errs, err.Error())
			continue
		}
		sep := ","
		if i == len(kws)-1 {
			sep = ""
		}
		fmt.Fprintf(&sb, "  (%s, %s)%s\n", leanStr(k.text), t, sep)
	}
	sb.WriteString("]\n\nend Octo.SqlSyn.Gen\n")
	if len(x.errs) > 0 {
		return fmt.Errorf("sqlformat: %d problem(s):\n  %s", len(x.errs), strings.Join(x.errs, "\n  "))
	}
	if err := os.MkdirAll(outDir, 0o755); err != nil {
		return err
	}
	return os.WriteFile(filepath.Join(outDir, "SqlFormat.lean"), []byte(sb.String()), 0o644)
}
