package main

import "bufio"

// C16 — triggers change when results appear, never what the final result is.
// Ops: `gb …` (the real CustomTriggerGroupBy with real trigger objects and real count/sum aggregates over a
// scripted source).  See util_triggers.go.
func init() {
	register("C16", &prop{gen: genC16All, drive: driveC16})
}

func genC16(g *Gen, tier string, w *bufio.Writer) {
	genGbOps(g, tier, w, int(seed()), false)
}
