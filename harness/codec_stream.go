package main

import (
	"errors"
	"fmt"
	"math/big"
	"strconv"
	"strings"
	"time"

	"github.com/cube2222/octosql/execution"
)

// Records and messages:  `R<k> v1 … vk +|- <et>` with <et> = `z` (zero time) or unix ns;  `W<ns>` a watermark;
// a whole stream on one line is messages separated by ` ; `.

type Msg struct {
	IsWM bool
	WM   time.Time
	Rec  execution.Record
}

// exact nanoseconds since the Unix epoch as a decimal string — NOT limited to the int64 range of Time.UnixNano
// (instants before 1677-09-21 or after 2262-04-11 are legal event times and watermarks)
var bigE9 = big.NewInt(1000000000)

func nanosOf(t time.Time) string {
	n := big.NewInt(t.Unix())
	n.Mul(n, bigE9)
	n.Add(n, big.NewInt(int64(t.Nanosecond())))
	return n.String()
}

func timeOfNanos(s string) time.Time {
	n, ok := new(big.Int).SetString(s, 10)
	if !ok {
		panic("bad instant " + s)
	}
	q, r := new(big.Int).DivMod(n, bigE9, new(big.Int))
	return time.Unix(q.Int64(), r.Int64()).UTC()
}

func encodeEt(t time.Time) string {
	if t.IsZero() {
		return "z"
	}
	return nanosOf(t)
}

func parseEt(s string) time.Time {
	if s == "z" {
		return time.Time{}
	}
	return timeOfNanos(s)
}

func EncodeRecord(r execution.Record) string {
	sign := "+"
	if r.Retraction {
		sign = "-"
	}
	if len(r.Values) == 0 {
		return fmt.Sprintf("R0 %s %s", sign, encodeEt(r.EventTime))
	}
	return fmt.Sprintf("R%d %s %s %s", len(r.Values), EncodeValues(r.Values), sign, encodeEt(r.EventTime))
}

func ParseRecord(toks []string) (execution.Record, []string) {
	k, err := strconv.Atoi(toks[0][1:])
	if err != nil {
		panic(err)
	}
	vs, rest := ParseValues(k, toks[1:])
	return execution.Record{Values: vs, Retraction: rest[0] == "-", EventTime: parseEt(rest[1])}, rest[2:]
}

func EncodeMsg(m Msg) string {
	if m.IsWM {
		return "W" + nanosOf(m.WM)
	}
	return EncodeRecord(m.Rec)
}

func EncodeMsgs(ms []Msg) string {
	parts := make([]string, len(ms))
	for i := range ms {
		parts[i] = EncodeMsg(ms[i])
	}
	return strings.Join(parts, " ; ")
}

func ParseMsgs(toks []string) []Msg {
	var out []Msg
	for len(toks) > 0 {
		if toks[0] == ";" {
			toks = toks[1:]
			continue
		}
		if toks[0][0] == 'W' {
			out = append(out, Msg{IsWM: true, WM: timeOfNanos(toks[0][1:])})
			toks = toks[1:]
			continue
		}
		var r execution.Record
		r, toks = ParseRecord(toks)
		out = append(out, Msg{Rec: r})
	}
	return out
}

// ScriptNode is an execution.Node that plays a fixed message list; if FailAt >= 0 it returns an
// error instead of delivering message number FailAt.
type ScriptNode struct {
	Msgs   []Msg
	FailAt int
}

var ErrInjected = errors.New("verif: injected source error")

func (s *ScriptNode) Run(ctx execution.ExecutionContext, produce execution.ProduceFn, metaSend execution.MetaSendFn) error {
	pctx := execution.ProduceFromExecutionContext(ctx)
	for i, m := range s.Msgs {
		if s.FailAt >= 0 && i == s.FailAt {
			return ErrInjected
		}
		if m.IsWM {
			if err := metaSend(pctx, execution.MetadataMessage{Type: execution.MetadataMessageTypeWatermark, Watermark: m.WM}); err != nil {
				return err
			}
		} else {
			// hand out a copy: nodes may keep the slice
			vals := append([]execution_Value(nil), m.Rec.Values...)
			if err := produce(pctx, execution.Record{Values: vals, Retraction: m.Rec.Retraction, EventTime: m.Rec.EventTime}); err != nil {
				return err
			}
		}
	}
	if s.FailAt >= 0 && s.FailAt == len(s.Msgs) {
		return ErrInjected
	}
	return nil
}

// collectRerun: for a deterministic quarter of the op lines (chosen by main from a hash of the line) Collect runs the
// node TWICE and reports the second run. A materialised node is run repeatedly in real plans (the joined side of a
// LOOKUP JOIN, a subquery expression: once per outer record), so state that survives a Run is a defect the single-run
// drivers could not see. ScriptNode sources replay the same messages on every Run.
var collectRerun bool

// Collect runs a node and returns everything it emitted, in order, plus the error text class.
func Collect(ctx execution.ExecutionContext, n execution.Node) (out []Msg, err error) {
	if collectRerun {
		collectOnce(ctx, n)
	}
	return collectOnce(ctx, n)
}

func collectOnce(ctx execution.ExecutionContext, n execution.Node) (out []Msg, err error) {
	err = n.Run(ctx,
		func(_ execution.ProduceContext, r execution.Record) error {
			out = append(out, Msg{Rec: execution.Record{Values: append([]execution_Value(nil), r.Values...), Retraction: r.Retraction, EventTime: r.EventTime}})
			return nil
		},
		func(_ execution.ProduceContext, m execution.MetadataMessage) error {
			out = append(out, Msg{IsWM: true, WM: m.Watermark})
			return nil
		})
	return out, err
}

// ErrClass maps an error to the small canonical enum used on the wire.
func ErrClass(err error) string {
	if err == nil {
		return "ok"
	}
	if errors.Is(err, ErrInjected) || strings.Contains(err.Error(), ErrInjected.Error()) {
		return "err:injected"
	}
	return "err:runtime"
}
