package main

import (
	"bufio"
	"context"
	"fmt"
	"math"
	"strconv"
	"time"

	"github.com/cube2222/octosql/execution"
	"github.com/cube2222/octosql/octosql"
	"github.com/cube2222/octosql/outputs/stream"
)

// C22 — the internally-consistent output wrapper.
//
//	run <stream>        the exported struct InternallyConsistentOutputStreamWrapper{Source: ScriptNode} run in-process;
//	                    output `ok <exact emitted sequence>` | `panic`
//	fail <k> <stream>   the source fails instead of delivering message k (k = len: after the last one);
//	                    output `err:injected <emitted until then>`

func init() {
	register("C22", &prop{gen: genC22, drive: driveC22})
}

func driveC22(toks []string) string {
	failAt := -1
	rest := toks[1:]
	switch toks[0] {
	case "run":
	case "fail":
		k, err := strconv.Atoi(toks[1])
		if err != nil {
			return "bad-op"
		}
		failAt = k
		rest = toks[2:]
	default:
		return "bad-op"
	}
	msgs := ParseMsgs(rest)
	node := &stream.InternallyConsistentOutputStreamWrapper{Source: &ScriptNode{Msgs: msgs, FailAt: failAt}}
	out, err := Collect(execution.ExecutionContext{Context: context.Background()}, node)
	s := ErrClass(err)
	if len(out) > 0 {
		s += " " + EncodeMsgs(out)
	}
	return s
}

// ---- generator

type c22Row struct {
	vals  []octosql.Value
	count int
}

func c22Rows(g *Gen, arity int) []c22Row {
	pool := [][]octosql.Value{
		{octosql.NewInt(1), octosql.NewString("a")},
		{octosql.NewInt(2), octosql.NewString("b")},
		{octosql.NewInt(1), octosql.NewString("b")},
		{octosql.NewFloat(0), octosql.NewNull()},
		{octosql.NewFloat(math.Copysign(0, -1)), octosql.NewNull()}, // compares equal to the previous row, prints differently
		{octosql.NewFloat(math.NaN()), octosql.NewBoolean(true)},
		{octosql.NewNull(), octosql.NewNull()},
		{octosql.NewList([]octosql.Value{octosql.NewInt(1)}), octosql.NewTime(time.Unix(0, 5).UTC())},
	}
	n := 1 + g.Intn(3)
	rows := make([]c22Row, 0, n)
	for i := 0; i < n; i++ {
		var v []octosql.Value
		if g.Chance(1, 6) {
			v = make([]octosql.Value, arity)
			for k := range v {
				v[k] = RandValue(g, 2)
			}
		} else {
			v = append([]octosql.Value(nil), Pick(g, pool)[:arity]...)
		}
		rows = append(rows, c22Row{vals: v})
	}
	return rows
}

func c22Et(g *Gen, lo, span int64) time.Time {
	if g.Chance(1, 12) {
		return time.Time{}
	}
	return time.Unix(0, lo+int64(g.Intn(int(span)))).UTC()
}

// a random changelog with watermarks; validity/monotonicity/arity are violated only when asked
func c22Case(g *Gen, maxLen int, breakValid, breakMono, breakArity bool) []Msg {
	arity := 1 + g.Intn(2)
	rows := c22Rows(g, arity)
	n := g.Intn(maxLen + 1)
	var lo int64
	switch g.Intn(4) {
	case 0:
		lo = -5
	case 1:
		lo = 1600000000000000000
	case 2:
		lo = math.MaxInt64 - 12
	default:
		lo = 0
	}
	span := int64(3 + g.Intn(8))
	wm := lo - 1
	var msgs []Msg
	for i := 0; i < n; i++ {
		switch {
		case g.Chance(1, 4):
			// watermark: usually advance a little, sometimes repeat
			if breakMono && g.Chance(1, 3) {
				wm -= int64(1 + g.Intn(3))
			} else if !g.Chance(1, 5) {
				step := int64(g.Intn(4))
				if wm <= math.MaxInt64-step {
					wm += step
				}
			}
			msgs = append(msgs, Msg{IsWM: true, WM: time.Unix(0, wm).UTC()})
		default:
			ri := g.Intn(len(rows))
			retr := false
			if rows[ri].count > 0 && g.Chance(2, 5) {
				retr = true
			} else if breakValid && g.Chance(1, 4) {
				retr = true
			}
			if retr {
				rows[ri].count--
			} else {
				rows[ri].count++
			}
			vals := rows[ri].vals
			if breakArity && g.Chance(1, 4) {
				if g.Bool() && len(vals) > 0 {
					vals = vals[:len(vals)-1]
				} else {
					vals = append(append([]octosql.Value(nil), vals...), octosql.NewInt(7))
				}
			}
			var et time.Time
			if g.Chance(3, 4) {
				// on time: above the last watermark
				et = c22Et(g, wm+1, span)
				if wm >= math.MaxInt64-span {
					et = time.Unix(0, math.MaxInt64).UTC()
				}
			} else {
				// anywhere, possibly late
				et = c22Et(g, lo, span+4)
				if lo >= math.MaxInt64-span-4 {
					et = time.Unix(0, math.MaxInt64-int64(g.Intn(3))).UTC()
				}
			}
			msgs = append(msgs, Msg{Rec: execution.Record{Values: vals, Retraction: retr, EventTime: et}})
		}
	}
	return msgs
}

func genC22(g *Gen, tier string, w *bufio.Writer) {
	// witnesses of the three defects of the shipped code (DESIGN §3 C22)
	a := "R1 i1 + 9"
	fmt.Fprintf(w, "run %s ; W5 ; W10\n", a)                                 // zero records in front of newPending
	fmt.Fprintf(w, "run R1 i1 + 1 ; R1 i1 + 1 ; R1 i1 - 1 ; W5\n")           // one retraction cancels two additions
	fmt.Fprintf(w, "run R1 i1 + 1 ; R1 i1 - 9 ; W5 ; W10\n")                 // addition <= W cancelled against a retraction > W
	fmt.Fprintf(w, "run R1 i1 + 1 ; R1 i1 + 2 ; R1 i1 - 1 ; R1 i1 + 1 ; W5\n")
	fmt.Fprintf(w, "run\n")
	fmt.Fprintf(w, "run W3\n")
	fmt.Fprintf(w, "run R2 i1 s61 + z ; R2 i1 s61 - z\n")
	fmt.Fprintf(w, "run R2 i1 s61 + 1 ; R2 i1 s62 + 1 ; R2 i1 s62 - 1 ; W5\n") // rows that agree on the first column only
	fmt.Fprintf(w, "run R1 i1 + 1 ; R1 i1 + 5 ; W5 ; R1 i1 - 6 ; W5 ; R1 i1 + 2 ; W6\n") // et == W, repeated watermark, late record
	fmt.Fprintf(w, "fail 3 R1 i1 + 1 ; R1 i1 + 9 ; W5 ; R1 i2 + 2 ; W10\n")

	// exhaustive small universe: 2 rows x {+,-} x 3 event times, 3 watermark values
	var alphabet []string
	for _, row := range []string{"i1", "i2"} {
		for _, sign := range []string{"+", "-"} {
			for _, et := range []string{"1", "2", "3"} {
				alphabet = append(alphabet, fmt.Sprintf("R1 %s %s %s", row, sign, et))
			}
		}
	}
	alphabet = append(alphabet, "W1", "W2", "W3")
	maxLen := 3
	if tier == "thorough" {
		maxLen = 5
	}
	var rec func(prefix []string, depth int, net [2]int, lastWm int)
	rec = func(prefix []string, depth int, net [2]int, lastWm int) {
		if len(prefix) > 0 {
			line := "run"
			for i, p := range prefix {
				if i > 0 {
					line += " ;"
				}
				line += " " + p
			}
			fmt.Fprintln(w, line)
		}
		if depth == maxLen {
			return
		}
		for ai, sym := range alphabet {
			n2, lw := net, lastWm
			if ai < 12 {
				row := ai / 6
				if (ai/3)%2 == 1 {
					if n2[row] == 0 {
						continue // keep the changelog valid
					}
					n2[row]--
				} else {
					n2[row]++
				}
			} else {
				wv := ai - 11
				if wv < lw {
					continue // keep the watermarks monotone
				}
				lw = wv
			}
			rec(append(prefix, sym), depth+1, n2, lw)
		}
	}
	rec(nil, 0, [2]int{}, 0)

	n, ml := 6000, 30
	if tier == "thorough" {
		n, ml = 60000, 100
	}
	for i := 0; i < n; i++ {
		bv, bm, ba := g.Chance(1, 10), g.Chance(1, 10), g.Chance(1, 15)
		msgs := c22Case(g, ml, bv, bm, ba)
		if g.Chance(1, 10) {
			fmt.Fprintf(w, "fail %d %s\n", g.Intn(len(msgs)+1), EncodeMsgs(msgs))
		} else {
			fmt.Fprintf(w, "run %s\n", EncodeMsgs(msgs))
		}
	}
}
