package main

import (
	"bufio"
	"fmt"
	"strconv"

	"github.com/cube2222/octosql/octosql"
)

// C10 — type algebra laws (octosql/types.go: Is, Equals, TypeSum, TypeIntersection, NonNullable;
// octosql/values.go: Value.Type).  Every op is self-contained; `drive` calls the real functions.

func init() {
	register("C10", &prop{gen: genC10, drive: driveC10})
}

func listOf(e octosql.Type) octosql.Type {
	return octosql.Type{TypeID: octosql.TypeIDList, List: struct{ Element *octosql.Type }{Element: &e}}
}
func listNilT() octosql.Type { return octosql.Type{TypeID: octosql.TypeIDList} }
func structOf(fs ...octosql.StructField) octosql.Type {
	if fs == nil {
		fs = []octosql.StructField{}
	}
	return octosql.Type{TypeID: octosql.TypeIDStruct, Struct: struct{ Fields []octosql.StructField }{Fields: fs}}
}
func tupleOf(es ...octosql.Type) octosql.Type {
	if es == nil {
		es = []octosql.Type{}
	}
	return octosql.Type{TypeID: octosql.TypeIDTuple, Tuple: struct{ Elements []octosql.Type }{Elements: es}}
}
func unionOf(es ...octosql.Type) octosql.Type {
	if es == nil {
		es = []octosql.Type{}
	}
	return octosql.Type{TypeID: octosql.TypeIDUnion, Union: struct{ Alternatives []octosql.Type }{Alternatives: es}}
}
func fld(n string, t octosql.Type) octosql.StructField { return octosql.StructField{Name: n, Type: t} }

var c10Prims = []octosql.Type{octosql.Null, octosql.Int, octosql.Float, octosql.String, octosql.Any}
var c10AllPrims = []octosql.Type{octosql.Null, octosql.Int, octosql.Float, octosql.Boolean, octosql.String, octosql.Time, octosql.Duration, octosql.Any}

// c10Universe: every type of size <= 2 over {Null, Int, Float, Str, Any} with field names {x, y}
// (DESIGN §C10 "Bounds"): the primitives, lists, structs with 0..2 fields (names in both orders and
// duplicated), tuples with 0..2 elements, and unions with 0..2 alternatives (in both orders and duplicated,
// i.e. also the malformed ones).
func c10Universe() []octosql.Type {
	var u []octosql.Type
	u = append(u, c10Prims...)
	u = append(u, listNilT(), structOf(), tupleOf(), unionOf())
	for _, p := range c10Prims {
		u = append(u, listOf(p), structOf(fld("x", p)), structOf(fld("y", p)), tupleOf(p), unionOf(p))
	}
	for _, p := range c10Prims {
		for _, q := range c10Prims {
			u = append(u, structOf(fld("x", p), fld("y", q)), structOf(fld("y", p), fld("x", q)), structOf(fld("x", p), fld("x", q)),
				tupleOf(p, q), unionOf(p, q))
		}
	}
	return u
}

// c10Nested: hand-picked deeper shapes that the size-2 universe cannot reach (nested unions inside
// containers, nullable containers, three-alternative unions, the witnesses of the findings).
func c10Nested() []octosql.Type {
	I, S, F, N, A := octosql.Int, octosql.String, octosql.Float, octosql.Null, octosql.Any
	return []octosql.Type{
		unionOf(N, I, S), unionOf(I, F, S), unionOf(N, I, F, S), unionOf(N, listOf(I)), unionOf(N, listOf(S)),
		unionOf(I, listOf(unionOf(I, S))), listOf(unionOf(I, S)), listOf(unionOf(N, I)), listOf(listOf(I)), listOf(listNilT()),
		listOf(listOf(unionOf(N, S))), unionOf(listNilT(), I), unionOf(N, listNilT()),
		structOf(fld("x", unionOf(N, I))), structOf(fld("x", unionOf(N, I)), fld("y", unionOf(N, I))),
		structOf(fld("x", listOf(I))), structOf(fld("x", structOf(fld("x", I)))), structOf(fld("x", structOf(fld("y", S)))),
		unionOf(N, structOf(fld("x", I))), unionOf(I, structOf(fld("x", I)), tupleOf(I)), unionOf(structOf(fld("y", I)), tupleOf(I, S)),
		tupleOf(unionOf(N, I), S), tupleOf(I, unionOf(N, S)), tupleOf(tupleOf(I)), tupleOf(I, S, F), unionOf(N, tupleOf(I)),
		tupleOf(listOf(I), structOf(fld("x", S))), listOf(structOf(fld("x", I))), listOf(tupleOf(I, S)), listOf(A),
		unionOf(I, octosql.Boolean), unionOf(octosql.Boolean, octosql.Time), unionOf(octosql.Time, octosql.Duration), unionOf(I, octosql.Time),
		structOf(fld("", I), fld("", S)), structOf(fld("", I)), listOf(structOf(fld("", I), fld("", S))),
		// malformed on purpose (correspondence only: nested union, Any inside a union, repeated TypeID)
		unionOf(unionOf(I, S), F), unionOf(N, unionOf(N, I)), unionOf(I, A), unionOf(listOf(I), listOf(S)), unionOf(S, I, N),
		unionOf(N, N), unionOf(I, I, S),
	}
}

var c10Names = []string{"x", "y", "", "xy", "a"}

// RandType: an arbitrary (possibly malformed) type.
func RandType(g *Gen, depth int) octosql.Type {
	k := g.Intn(14)
	if depth <= 0 && k >= 9 {
		k = g.Intn(9)
	}
	switch {
	case k < 8:
		return c10AllPrims[k]
	case k == 8:
		return listNilT()
	case k == 9:
		return listOf(RandType(g, depth-1))
	case k == 10:
		n := g.Intn(4)
		fs := make([]octosql.StructField, n)
		for i := range fs {
			fs[i] = fld(Pick(g, c10Names), RandType(g, depth-1))
		}
		return structOf(fs...)
	case k == 11:
		n := g.Intn(4)
		es := make([]octosql.Type, n)
		for i := range es {
			es[i] = RandType(g, depth-1)
		}
		return tupleOf(es...)
	default:
		n := g.Intn(4)
		es := make([]octosql.Type, n)
		for i := range es {
			es[i] = RandType(g, depth-1)
		}
		return unionOf(es...)
	}
}

// RandWFType: a well-formed type — unions have >= 2 alternatives, strictly increasing TypeIDs, no nested
// union and no Any alternative; struct field names are strictly sorted. This is the shape TypeSum produces.
func RandWFType(g *Gen, depth int) octosql.Type {
	k := g.Intn(16)
	if depth <= 0 && k >= 9 {
		k = g.Intn(9)
	}
	switch {
	case k < 8:
		return c10AllPrims[k]
	case k == 8:
		return listNilT()
	case k == 9:
		return listOf(RandWFType(g, depth-1))
	case k == 10 || k == 11:
		return randWFStruct(g, depth)
	case k == 12:
		n := g.Intn(4)
		es := make([]octosql.Type, n)
		for i := range es {
			es[i] = RandWFType(g, depth-1)
		}
		return tupleOf(es...)
	default:
		return randWFUnion(g, depth)
	}
}

func randWFStruct(g *Gen, depth int) octosql.Type {
	names := []string{"", "a", "x", "xy", "y"} // sorted bytewise
	var fs []octosql.StructField
	for _, n := range names {
		if g.Chance(2, 5) {
			fs = append(fs, fld(n, RandWFType(g, depth-1)))
		}
	}
	return structOf(fs...)
}

// one non-union, non-Any alternative with the given TypeID
func randAltOfID(g *Gen, id octosql.TypeID, depth int) octosql.Type {
	switch id {
	case octosql.TypeIDList:
		if g.Chance(1, 5) {
			return listNilT()
		}
		return listOf(RandWFType(g, depth-1))
	case octosql.TypeIDStruct:
		return randWFStruct(g, depth)
	case octosql.TypeIDTuple:
		n := g.Intn(3)
		es := make([]octosql.Type, n)
		for i := range es {
			es[i] = RandWFType(g, depth-1)
		}
		return tupleOf(es...)
	}
	return octosql.Type{TypeID: id}
}

func randWFUnion(g *Gen, depth int) octosql.Type {
	var alts []octosql.Type
	for id := octosql.TypeIDNull; id <= octosql.TypeIDTuple; id++ {
		p := 1
		if id == octosql.TypeIDNull {
			p = 3
		}
		if depth <= 0 && id >= octosql.TypeIDList {
			continue
		}
		if g.Chance(p, 6) {
			alts = append(alts, randAltOfID(g, id, depth))
		}
	}
	if len(alts) < 2 {
		return unionOf(octosql.Null, octosql.Type{TypeID: octosql.TypeID(1 + g.Intn(6))})
	}
	return unionOf(alts...)
}

// near-copy of a type: change one leaf / drop or add a field / wrap in a nullable union — so that Is, the
// same-TypeID merge paths of TypeSum and the shape-mismatch cases are all exercised.
func MutateType(g *Gen, t octosql.Type, depth int) octosql.Type {
	switch t.TypeID {
	case octosql.TypeIDList:
		if t.List.Element == nil {
			if g.Chance(1, 2) {
				return listOf(RandWFType(g, 0))
			}
			return t
		}
		return listOf(MutateType(g, *t.List.Element, depth-1))
	case octosql.TypeIDStruct:
		fs := append([]octosql.StructField{}, t.Struct.Fields...)
		if len(fs) > 0 && g.Chance(1, 4) {
			i := g.Intn(len(fs))
			fs = append(fs[:i:i], fs[i+1:]...)
		}
		for i := range fs {
			if g.Chance(1, 2) {
				fs[i].Type = MutateType(g, fs[i].Type, depth-1)
			}
		}
		return structOf(fs...)
	case octosql.TypeIDTuple:
		es := append([]octosql.Type{}, t.Tuple.Elements...)
		if len(es) > 0 && g.Chance(1, 4) {
			es = es[:len(es)-1]
		}
		for i := range es {
			if g.Chance(1, 2) {
				es[i] = MutateType(g, es[i], depth-1)
			}
		}
		return tupleOf(es...)
	case octosql.TypeIDUnion:
		es := append([]octosql.Type{}, t.Union.Alternatives...)
		if len(es) > 2 && g.Chance(1, 3) {
			i := g.Intn(len(es))
			es = append(es[:i:i], es[i+1:]...)
		}
		for i := range es {
			if es[i].TypeID >= octosql.TypeIDList && g.Chance(1, 2) {
				es[i] = MutateType(g, es[i], depth-1)
			}
		}
		return unionOf(es...)
	}
	switch g.Intn(4) {
	case 0:
		return c10AllPrims[g.Intn(7)]
	case 1:
		if t.TypeID != octosql.TypeIDNull && t.TypeID != octosql.TypeIDAny {
			return unionOf(octosql.Null, t)
		}
	}
	return t
}

// Inhabit: a random value of type t (ok=false when t has no values, e.g. the empty union).
func Inhabit(g *Gen, t octosql.Type, depth int) (octosql.Value, bool) {
	switch t.TypeID {
	case octosql.TypeIDNull:
		return octosql.NewNull(), true
	case octosql.TypeIDInt:
		return octosql.NewInt(int64(g.Intn(5)) - 2), true
	case octosql.TypeIDFloat:
		return f64(Pick(g, edgeFloats)), true
	case octosql.TypeIDBoolean:
		return octosql.NewBoolean(g.Bool()), true
	case octosql.TypeIDString:
		return octosql.NewString(Pick(g, edgeStrings)), true
	case octosql.TypeIDTime, octosql.TypeIDDuration:
		for i := 0; i < 50; i++ {
			v := RandValue(g, 0)
			if v.TypeID == t.TypeID {
				return v, true
			}
		}
		return octosql.Value{}, false
	case octosql.TypeIDAny:
		return RandValue(g, depth), true
	case octosql.TypeIDList:
		if t.List.Element == nil {
			return octosql.NewList([]octosql.Value{}), true
		}
		n := g.Intn(3)
		xs := make([]octosql.Value, 0, n)
		for i := 0; i < n; i++ {
			v, ok := Inhabit(g, *t.List.Element, depth-1)
			if ok {
				xs = append(xs, v)
			}
		}
		return octosql.NewList(xs), true
	case octosql.TypeIDStruct:
		xs := make([]octosql.Value, len(t.Struct.Fields))
		for i := range xs {
			v, ok := Inhabit(g, t.Struct.Fields[i].Type, depth-1)
			if !ok {
				return v, false
			}
			xs[i] = v
		}
		return octosql.NewStruct(xs), true
	case octosql.TypeIDTuple:
		xs := make([]octosql.Value, len(t.Tuple.Elements))
		for i := range xs {
			v, ok := Inhabit(g, t.Tuple.Elements[i], depth-1)
			if !ok {
				return v, false
			}
			xs[i] = v
		}
		return octosql.NewTuple(xs), true
	case octosql.TypeIDUnion:
		n := len(t.Union.Alternatives)
		for i := 0; i < 2*n; i++ {
			v, ok := Inhabit(g, t.Union.Alternatives[g.Intn(n)], depth)
			if ok {
				return v, true
			}
		}
	}
	return octosql.Value{}, false
}

func genC10(g *Gen, tier string, w *bufio.Writer) {
	u := c10Universe()
	nested := c10Nested()
	thorough := tier == "thorough"
	// 1. exhaustive: every pair of the size<=2 universe, all laws; the single-op lines on a stride
	for i, a := range u {
		fmt.Fprintf(w, "nonnull %s\n", EncodeType(a))
		for j, b := range u {
			fmt.Fprintf(w, "laws %s %s\n", EncodeType(a), EncodeType(b))
			if thorough || (i*len(u)+j)%7 == 0 {
				fmt.Fprintf(w, "is %s %s\n", EncodeType(a), EncodeType(b))
				fmt.Fprintf(w, "sum %s %s\n", EncodeType(a), EncodeType(b))
				fmt.Fprintf(w, "inter %s %s\n", EncodeType(a), EncodeType(b))
				fmt.Fprintf(w, "equals %s %s\n", EncodeType(a), EncodeType(b))
			}
		}
	}
	// 2. the hand-picked nested shapes against themselves and against the universe
	for _, a := range nested {
		fmt.Fprintf(w, "nonnull %s\n", EncodeType(a))
		for _, b := range nested {
			fmt.Fprintf(w, "laws %s %s\n", EncodeType(a), EncodeType(b))
		}
		for _, b := range u {
			if thorough || g.Chance(1, 4) {
				fmt.Fprintf(w, "laws %s %s\n", EncodeType(a), EncodeType(b))
				fmt.Fprintf(w, "laws %s %s\n", EncodeType(b), EncodeType(a))
			}
		}
	}
	// 3. random nested well-formed types (depth <= 4), b often a near-copy of a; and arbitrary (malformed) types
	n := 6000
	if thorough {
		n = 200000
	}
	for i := 0; i < n; i++ {
		d := 1 + g.Intn(4)
		var a, b octosql.Type
		if i%5 == 4 {
			a, b = RandType(g, d), RandType(g, d)
		} else {
			a, b = RandWFType(g, d), RandWFType(g, d)
			if g.Chance(1, 2) {
				b = MutateType(g, a, d)
			}
		}
		fmt.Fprintf(w, "laws %s %s\n", EncodeType(a), EncodeType(b))
		// semantic check of Is / TypeSum against the Spec notion `conforms`, on an inhabitant of a
		if v, ok := Inhabit(g, a, 2); ok {
			fmt.Fprintf(w, "sound %s %s %s\n", EncodeType(a), EncodeType(b), EncodeValue(v))
		}
		if i%3 == 0 {
			c := RandWFType(g, d)
			fmt.Fprintf(w, "trans %s %s %s\n", EncodeType(a), EncodeType(b), EncodeType(c))
			// least upper bound: an upper bound t of a and b built by the code itself, widened by c
			t := octosql.TypeSum(octosql.TypeSum(a, b), c)
			if g.Chance(1, 3) {
				t = MutateType(g, t, d)
			}
			fmt.Fprintf(w, "lub %s %s %s\n", EncodeType(a), EncodeType(b), EncodeType(t))
			fmt.Fprintf(w, "sum %s %s\n", EncodeType(a), EncodeType(b))
			fmt.Fprintf(w, "inter %s %s\n", EncodeType(a), EncodeType(b))
		}
	}
	// 3b. reachable types: folds of TypeSum over random well-formed types and types reported by Value.Type()
	//     (exactly the types the engine itself can build); all laws, least upper bound against a third one
	nr := 1500
	if thorough {
		nr = 40000
	}
	reach := func() octosql.Type {
		if g.Chance(1, 4) {
			return RandValue(g, 1+g.Intn(3)).Type()
		}
		t := RandWFType(g, 1+g.Intn(3))
		for k := g.Intn(3); k > 0; k-- {
			t = octosql.TypeSum(t, RandWFType(g, 1+g.Intn(3)))
		}
		return t
	}
	for i := 0; i < nr; i++ {
		a, b, c := reach(), reach(), reach()
		fmt.Fprintf(w, "laws %s %s\n", EncodeType(a), EncodeType(b))
		fmt.Fprintf(w, "lub %s %s %s\n", EncodeType(a), EncodeType(b), EncodeType(octosql.TypeSum(octosql.TypeSum(b, c), a)))
		fmt.Fprintf(w, "trans %s %s %s\n", EncodeType(a), EncodeType(octosql.TypeSum(a, b)), EncodeType(octosql.TypeSum(octosql.TypeSum(a, b), c)))
		if v, ok := Inhabit(g, a, 2); ok {
			fmt.Fprintf(w, "sound %s %s %s\n", EncodeType(a), EncodeType(octosql.TypeSum(a, b)), EncodeValue(v))
		}
	}
	// 4. Value.Type: every value of the C09 edge universe, values inhabiting universe types, random deep values
	for _, v := range smallUniverse() {
		fmt.Fprintf(w, "typeof %s\n", EncodeValue(v))
	}
	for _, a := range append(append([]octosql.Type{}, u...), nested...) {
		for k := 0; k < 3; k++ {
			if v, ok := Inhabit(g, a, 2); ok {
				fmt.Fprintf(w, "typeof %s\n", EncodeValue(v))
				fmt.Fprintf(w, "sound %s %s %s\n", EncodeType(a), EncodeType(Pick(g, u)), EncodeValue(v))
			}
		}
	}
	m := 3000
	if thorough {
		m = 60000
	}
	for i := 0; i < m; i++ {
		fmt.Fprintf(w, "typeof %s\n", EncodeValue(RandValue(g, 1+g.Intn(4))))
		// homogeneous-ish lists: elements drawn from one type, so that the element TypeSum chain is exercised
		t := RandWFType(g, 2)
		k := g.Intn(4)
		xs := make([]octosql.Value, 0, k)
		for j := 0; j < k; j++ {
			if v, ok := Inhabit(g, t, 2); ok {
				xs = append(xs, v)
			}
		}
		fmt.Fprintf(w, "typeof %s\n", EncodeValue(octosql.NewList(xs)))
	}
}

func relStr(r octosql.TypeRelation) string { return strconv.Itoa(int(r)) }
func boolStr(b bool) string {
	if b {
		return "1"
	}
	return "0"
}
func optType(t *octosql.Type) string {
	if t == nil {
		return "nil"
	}
	return EncodeType(*t)
}

// Operands are rebuilt the way the engine builds its types — unions by folding TypeSum over the alternatives, so their
// slices have the spare capacity Go's append leaves — whenever that gives the very same type; after the operation every
// operand must still encode as it did before (an operation of the type algebra must not write into its arguments).
type c10Operand struct {
	t   octosql.Type
	enc string
}

var c10Operands []c10Operand

func c10Refold(t octosql.Type) octosql.Type {
	switch t.TypeID {
	case octosql.TypeIDList:
		if t.List.Element != nil {
			e := c10Refold(*t.List.Element)
			t.List.Element = &e
		}
	case octosql.TypeIDStruct:
		fs := make([]octosql.StructField, len(t.Struct.Fields))
		for i, f := range t.Struct.Fields {
			fs[i] = octosql.StructField{Name: f.Name, Type: c10Refold(f.Type)}
		}
		t.Struct.Fields = fs
	case octosql.TypeIDTuple:
		es := make([]octosql.Type, len(t.Tuple.Elements))
		for i, e := range t.Tuple.Elements {
			es[i] = c10Refold(e)
		}
		t.Tuple.Elements = es
	case octosql.TypeIDUnion:
		if len(t.Union.Alternatives) >= 2 {
			acc := c10Refold(t.Union.Alternatives[0])
			for _, a := range t.Union.Alternatives[1:] {
				acc = octosql.TypeSum(acc, c10Refold(a))
			}
			return acc
		}
	}
	return t
}

func c10Parse(toks []string) (octosql.Type, []string) {
	t, rest := ParseType(toks)
	enc := EncodeType(t)
	func() {
		defer func() { recover() }()
		if r := c10Refold(t); EncodeType(r) == enc {
			t = r
		}
	}()
	c10Operands = append(c10Operands, c10Operand{t, enc})
	return t, rest
}

func driveC10(toks []string) string {
	c10Operands = c10Operands[:0]
	out := driveC10Inner(toks)
	for _, o := range c10Operands {
		if EncodeType(o.t) != o.enc {
			return "operand-mutated " + out
		}
	}
	return out
}

func driveC10Inner(toks []string) string {
	switch toks[0] {
	case "is":
		a, r := c10Parse(toks[1:])
		b, _ := c10Parse(r)
		return relStr(a.Is(b))
	case "equals":
		a, r := c10Parse(toks[1:])
		b, _ := c10Parse(r)
		return boolStr(a.Equals(b))
	case "sum":
		a, r := c10Parse(toks[1:])
		b, _ := c10Parse(r)
		return EncodeType(octosql.TypeSum(a, b))
	case "inter":
		a, r := c10Parse(toks[1:])
		b, _ := c10Parse(r)
		return optType(octosql.TypeIntersection(a, b))
	case "nonnull":
		a, _ := c10Parse(toks[1:])
		n := octosql.NonNullable(a)
		return relStr(n.Is(a)) + " " + EncodeType(n)
	case "typeof":
		v, _ := ParseValue(toks[1:])
		return EncodeType(v.Type())
	case "sound":
		// Is(a,b), TypeSum(a,b), TypeSum(b,a); the oracle checks them against `conforms` on the given value
		a, r := c10Parse(toks[1:])
		b, _ := c10Parse(r)
		return relStr(a.Is(b)) + " " + EncodeType(octosql.TypeSum(a, b)) + " ; " + EncodeType(octosql.TypeSum(b, a))
	case "lub":
		a, r := c10Parse(toks[1:])
		b, r := c10Parse(r)
		t, _ := c10Parse(r)
		return relStr(a.Is(t)) + " " + relStr(b.Is(t)) + " " + relStr(octosql.TypeSum(a, b).Is(t))
	case "trans":
		a, r := c10Parse(toks[1:])
		b, r := c10Parse(r)
		c, _ := c10Parse(r)
		return relStr(a.Is(b)) + " " + relStr(b.Is(c)) + " " + relStr(a.Is(c))
	case "laws":
		a, r := c10Parse(toks[1:])
		b, _ := c10Parse(r)
		s := octosql.TypeSum(a, b)
		s2 := octosql.TypeSum(b, a)
		aa := octosql.TypeSum(a, a)
		in := octosql.TypeIntersection(a, b)
		ia, ib := "-", "-"
		if in != nil {
			ia, ib = relStr(in.Is(a)), relStr(in.Is(b))
		}
		nn := octosql.NonNullable(a)
		return fmt.Sprintf("%s %s %s %s %s %s %s %s %s %s ; %s ; %s ; %s ; %s ; %s",
			relStr(a.Is(a)), relStr(b.Is(b)), relStr(a.Is(s)), relStr(b.Is(s)), boolStr(s.Equals(s2)), boolStr(aa.Equals(a)),
			ia, ib, relStr(nn.Is(a)), relStr(a.Is(b)),
			EncodeType(s), EncodeType(s2), EncodeType(aa), optType(in), EncodeType(nn))
	}
	return "bad-op"
}
