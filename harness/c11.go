package main

// C11 — three-valued logic and NULL propagation.
//
// drive: builds REAL physical.Expression trees, runs Expression.Materialize and Expression.Evaluate in-process
// (functions.FunctionMap() descriptors, execution.And / Or / FunctionCall), and nodes.NewFilter over a ScriptNode.
//
// Tree encoding (prefix, self-delimiting; types and values in the shared codec):
//   C <ty> <value>                      constant
//   V <ty> <n>                          variable named "c<n>"
//   A <ty> <k> t1 … tk                  AND node            O <ty> <k> t1 … tk   OR node
//   F <ty> <namehex> <idx> <k> t1 … tk  call of functions.FunctionMap()[name].Descriptors[idx]
// Ops:
//   tree <nf> f1 … fnf <nv> v1 … vnv <tree>       schema fields c<f1>…, context values v1…; prints the outcome
//   treeall <k> <tree>                            fields c0…c(k-1), every assignment in {b1,b0,n}^k (first variable slowest)
//   and <k> l1 … lk | or <k> l1 … lk              leaves: a value token or E<hex> (a call of panic('<hex>'))
//   strict <namehex> <idx> <k> (<ty> <value>)*k   one call with constant arguments of the given static types
//   filter <failAt> <nf> f1 … fnf <tree> <stream> nodes.Filter over a ScriptNode
// Outcome: a value token | err:<path>:<payload hex> | panic ;  path = frames A<i> O<i> F<i> B joined by '.', '-' if empty.

import (
	"bufio"
	"context"
	"encoding/hex"
	"fmt"
	"go/ast"
	"go/parser"
	"go/token"
	"io"
	"log"
	"os"
	"path/filepath"
	"sort"
	"strconv"
	"strings"

	"github.com/cube2222/octosql/execution"
	"github.com/cube2222/octosql/execution/nodes"
	"github.com/cube2222/octosql/functions"
	"github.com/cube2222/octosql/octosql"
	"github.com/cube2222/octosql/physical"
)

func init() {
	register("C11", &prop{gen: genC11, drive: driveC11})
	registerExtractor("strict", extractStrict)
}

// some function bodies log.Printf on unparsable input (int('x'), parse_time); bin/check merges stderr into the
// driver's stdout, so a log line would shift every following output line: silence the standard logger while driving.
func c11QuietLog() { log.SetOutput(io.Discard) }

var c11fm map[string]physical.FunctionDetails

func c11Funcs() map[string]physical.FunctionDetails {
	if c11fm == nil {
		c11fm = functions.FunctionMap()
	}
	return c11fm
}

// ---------- tree parsing: tokens -> physical.Expression

func c11ParseTree(toks []string) (physical.Expression, []string) {
	switch toks[0] {
	case "C":
		ty, r := ParseType(toks[1:])
		v, r := ParseValue(r)
		return physical.Expression{Type: ty, ExpressionType: physical.ExpressionTypeConstant, Constant: &physical.Constant{Value: v}}, r
	case "V":
		ty, r := ParseType(toks[1:])
		return physical.Expression{Type: ty, ExpressionType: physical.ExpressionTypeVariable,
			Variable: &physical.Variable{Name: "c" + r[0], IsLevel0: true}}, r[1:]
	case "A", "O":
		ty, r := ParseType(toks[1:])
		k, err := strconv.Atoi(r[0])
		if err != nil {
			panic(err)
		}
		r = r[1:]
		args := make([]physical.Expression, k)
		for i := 0; i < k; i++ {
			args[i], r = c11ParseTree(r)
		}
		if toks[0] == "A" {
			return physical.Expression{Type: ty, ExpressionType: physical.ExpressionTypeAnd, And: &physical.And{Arguments: args}}, r
		}
		return physical.Expression{Type: ty, ExpressionType: physical.ExpressionTypeOr, Or: &physical.Or{Arguments: args}}, r
	case "F":
		ty, r := ParseType(toks[1:])
		nameb, err := hex.DecodeString(r[0])
		if err != nil {
			panic(err)
		}
		idx, err := strconv.Atoi(r[1])
		if err != nil {
			panic(err)
		}
		k, err := strconv.Atoi(r[2])
		if err != nil {
			panic(err)
		}
		r = r[3:]
		args := make([]physical.Expression, k)
		for i := 0; i < k; i++ {
			args[i], r = c11ParseTree(r)
		}
		det, ok := c11Funcs()[string(nameb)]
		if !ok || idx >= len(det.Descriptors) {
			panic("c11: unknown function descriptor " + string(nameb))
		}
		return physical.Expression{Type: ty, ExpressionType: physical.ExpressionTypeFunctionCall,
			FunctionCall: &physical.FunctionCall{Name: string(nameb), Arguments: args, FunctionDescriptor: det.Descriptors[idx]}}, r
	}
	panic("c11: bad tree token " + toks[0])
}

// ---------- canonical outcomes

var c11Prefixes = []struct {
	suffix string // after "couldn't evaluate <n> "
	frame  string
}{{"AND argument: ", "A"}, {"OR argument: ", "O"}, {"argument: ", "F"}}

// c11ErrCanon maps the error chain to err:<path>:<payload hex>; fails closed on an unknown shape.
func c11ErrCanon(err error) string {
	msg := err.Error()
	var path []string
	for {
		if strings.HasPrefix(msg, "couldn't evaluate function: ") {
			msg = msg[len("couldn't evaluate function: "):]
			path = append(path, "B")
			continue
		}
		if strings.HasPrefix(msg, "couldn't evaluate ") {
			rest := msg[len("couldn't evaluate "):]
			sp := strings.IndexByte(rest, ' ')
			if sp <= 0 {
				return "err:unparsed"
			}
			n, e := strconv.Atoi(rest[:sp])
			if e != nil {
				return "err:unparsed"
			}
			rest = rest[sp+1:]
			matched := false
			for _, p := range c11Prefixes {
				if strings.HasPrefix(rest, p.suffix) {
					path = append(path, p.frame+strconv.Itoa(n))
					msg = rest[len(p.suffix):]
					matched = true
					break
				}
			}
			if !matched {
				return "err:unparsed"
			}
			continue
		}
		break
	}
	if strings.HasPrefix(msg, "invalid type: ") && strings.Contains(msg, ", expected: ") {
		// a failed execution.TypeAssertion
		p := "-"
		if len(path) > 0 {
			p = strings.Join(path, ".")
		}
		return "err:" + p + ":" + hex.EncodeToString([]byte("invalid-type"))
	}
	if !strings.HasPrefix(msg, "panic: ") {
		return "err:unparsed"
	}
	payload := msg[len("panic: "):]
	tag := ""
	if len(payload) >= 2 && payload[0] == '\'' && payload[len(payload)-1] == '\'' {
		tag = hex.EncodeToString([]byte(payload[1 : len(payload)-1]))
	}
	p := "-"
	if len(path) > 0 {
		p = strings.Join(path, ".")
	}
	return "err:" + p + ":" + tag
}

func c11Schema(fields []string) *physical.VariableContext {
	fs := make([]physical.SchemaField, len(fields))
	for i, f := range fields {
		fs[i] = physical.SchemaField{Name: "c" + f, Type: octosql.Any}
	}
	return &physical.VariableContext{Fields: fs}
}

func c11Materialize(e physical.Expression, fields []string) execution.Expression {
	env := physical.Environment{Functions: c11Funcs(), VariableContext: c11Schema(fields)}
	x, err := e.Materialize(context.Background(), env)
	if err != nil {
		panic(err)
	}
	return x
}

func c11Eval(x execution.Expression, values []octosql.Value) (out string) {
	defer func() {
		if r := recover(); r != nil {
			out = "panic"
		}
	}()
	ctx := execution.ExecutionContext{Context: context.Background(), VariableContext: &execution.VariableContext{Values: values}}
	v, err := x.Evaluate(ctx)
	if err != nil {
		return c11ErrCanon(err)
	}
	return EncodeValue(v)
}

func c11Nat(s string) int {
	n, err := strconv.Atoi(s)
	if err != nil {
		panic(err)
	}
	return n
}

// leaf of the `and`/`or` sugar -> tree tokens
func c11LeafTokens(l string) []string {
	if l[0] == 'E' {
		return []string{"F", "Any", hex.EncodeToString([]byte("panic")), "0", "1", "C", "Str", "s" + l[1:]}
	}
	ty := map[byte]string{'n': "Null", 'b': "Bool", 'i': "Int", 's': "Str", 'f': "Float", 'd': "Dur"}[l[0]]
	if ty == "" {
		panic("c11: unsupported leaf " + l)
	}
	return []string{"C", ty, l}
}

func c11SugarTree(op string, leaves []string) []string {
	ty := []string{"Bool"}
	for _, l := range leaves {
		if l == "n" || l[0] == 'E' {
			ty = []string{"Union2", "Null", "Bool"}
		}
	}
	node := "A"
	if op == "or" {
		node = "O"
	}
	toks := append([]string{node}, ty...)
	toks = append(toks, strconv.Itoa(len(leaves)))
	for _, l := range leaves {
		toks = append(toks, c11LeafTokens(l)...)
	}
	return toks
}

var c11Tri = []octosql.Value{octosql.NewBoolean(true), octosql.NewBoolean(false), octosql.NewNull()}

func driveC11(toks []string) string {
	c11QuietLog()
	switch toks[0] {
	case "tree":
		nf := c11Nat(toks[1])
		fields := toks[2 : 2+nf]
		r := toks[2+nf:]
		nv := c11Nat(r[0])
		vals, r := ParseValues(nv, r[1:])
		e, _ := c11ParseTree(r)
		return c11Eval(c11Materialize(e, fields), vals)
	case "treeall":
		k := c11Nat(toks[1])
		fields := make([]string, k)
		for i := range fields {
			fields[i] = strconv.Itoa(i)
		}
		e, _ := c11ParseTree(toks[2:])
		x := c11Materialize(e, fields)
		total := 1
		for i := 0; i < k; i++ {
			total *= 3
		}
		outs := make([]string, 0, total)
		vals := make([]octosql.Value, k)
		for a := 0; a < total; a++ {
			d := a
			for i := k - 1; i >= 0; i-- {
				vals[i] = c11Tri[d%3]
				d /= 3
			}
			outs = append(outs, c11Eval(x, vals))
		}
		return strings.Join(outs, " ")
	case "and", "or":
		k := c11Nat(toks[1])
		e, _ := c11ParseTree(c11SugarTree(toks[0], toks[2:2+k]))
		return c11Eval(c11Materialize(e, nil), nil)
	case "strict":
		k := c11Nat(toks[3])
		tree := []string{"F", "Any", toks[1], toks[2], toks[3]}
		r := toks[4:]
		for i := 0; i < k; i++ {
			_, r2 := ParseType(r)
			_, r3 := ParseValue(r2)
			tree = append(tree, "C")
			tree = append(tree, r[:len(r)-len(r3)]...)
			r = r3
		}
		e, _ := c11ParseTree(tree)
		return c11Eval(c11Materialize(e, nil), nil)
	case "ltreeall":
		return driveC11Logical(toks)
	case "lcmp":
		return driveC11Cmp(toks)
	case "lcall":
		return driveC11Call(toks)
	case "filter":
		failAt := c11Nat(toks[1])
		nf := c11Nat(toks[2])
		fields := toks[3 : 3+nf]
		e, r := c11ParseTree(toks[3+nf:])
		msgs := ParseMsgs(r)
		pred := c11Materialize(e, fields)
		ctx := execution.ExecutionContext{Context: context.Background(), VariableContext: nil}
		out, err := Collect(ctx, nodes.NewFilter(&ScriptNode{Msgs: msgs, FailAt: failAt}, pred))
		st := "ok"
		if err != nil {
			msg := err.Error()
			const p1, p2 = "couldn't run source: ", "couldn't evaluate condition: "
			switch {
			case strings.HasPrefix(msg, p1+p2):
				st = c11ErrCanon(fmt.Errorf("%s", msg[len(p1+p2):]))
			case msg == p1+ErrInjected.Error():
				st = "err:injected"
			default:
				st = "err:unparsed"
			}
		}
		if len(out) == 0 {
			return "| " + st
		}
		return EncodeMsgs(out) + " | " + st
	}
	return "bad-op"
}

// ---------- generator

type c11Node struct {
	kind     string // C V A O F
	ty       []string
	val      string // C
	name     int    // V
	fn       string // F
	idx      int
	args     []*c11Node
	nullable bool // the sound nullability (what the typechecker's rule gives)
}

var (
	c11TyB  = []string{"Bool"}
	c11TyBN = []string{"Union2", "Null", "Bool"}
	c11TyN  = []string{"Null"}
)

func c11BoolTy(nullable bool) []string {
	if nullable {
		return c11TyBN
	}
	return c11TyB
}

func (n *c11Node) tokens(out []string) []string {
	switch n.kind {
	case "C":
		out = append(append(append(out, "C"), n.ty...), n.val)
	case "V":
		out = append(append(append(out, "V"), n.ty...), strconv.Itoa(n.name))
	case "A", "O":
		out = append(append(append(out, n.kind), n.ty...), strconv.Itoa(len(n.args)))
		for _, a := range n.args {
			out = a.tokens(out)
		}
	case "F":
		out = append(append(append(out, "F"), n.ty...), hex.EncodeToString([]byte(n.fn)), strconv.Itoa(n.idx), strconv.Itoa(len(n.args)))
		for _, a := range n.args {
			out = a.tokens(out)
		}
	}
	return out
}

func c11Const(v string) *c11Node {
	switch v {
	case "n":
		return &c11Node{kind: "C", ty: c11TyN, val: v, nullable: true}
	default:
		return &c11Node{kind: "C", ty: c11TyB, val: v}
	}
}
func c11Var(i int, nullable bool) *c11Node {
	return &c11Node{kind: "V", ty: c11BoolTy(nullable), name: i, nullable: nullable}
}
func c11Junction(kind string, args ...*c11Node) *c11Node {
	nl := false
	for _, a := range args {
		nl = nl || a.nullable
	}
	return &c11Node{kind: kind, ty: c11BoolTy(nl), args: args, nullable: nl}
}
func c11Not(a *c11Node) *c11Node {
	return &c11Node{kind: "F", fn: "not", ty: c11BoolTy(a.nullable), args: []*c11Node{a}, nullable: a.nullable}
}
func c11IsNull(fn string, a *c11Node) *c11Node {
	return &c11Node{kind: "F", fn: fn, ty: c11TyB, args: []*c11Node{a}}
}
func c11ErrLeaf(tag string) *c11Node {
	return &c11Node{kind: "F", fn: "panic", ty: []string{"Any"}, nullable: true,
		args: []*c11Node{{kind: "C", ty: []string{"Str"}, val: "s" + hex.EncodeToString([]byte(tag))}}}
}

func c11Line(n *c11Node) string { return strings.Join(n.tokens(nil), " ") }

// all trees of depth <= d over the given leaves (unary not / is null / is not null, binary and / or)
func c11AllTrees(leaves []*c11Node, d int) []*c11Node {
	cur := leaves
	for i := 0; i < d; i++ {
		next := append([]*c11Node(nil), leaves...)
		for _, a := range cur {
			next = append(next, c11Not(a), c11IsNull("is null", a), c11IsNull("is not null", a))
		}
		for _, a := range cur {
			for _, b := range cur {
				next = append(next, c11Junction("A", a, b), c11Junction("O", a, b))
			}
		}
		cur = next
	}
	return cur
}

func c11RandTree(g *Gen, depth, nvars int, errs bool) *c11Node {
	if depth == 0 || g.Chance(1, 5) {
		switch g.Intn(7) {
		case 0:
			return c11Const("b1")
		case 1:
			return c11Const("b0")
		case 2:
			return c11Const("n")
		case 3:
			if errs {
				return c11ErrLeaf("e" + strconv.Itoa(g.Intn(4)))
			}
			fallthrough
		default:
			return c11Var(g.Intn(nvars), true)
		}
	}
	switch g.Intn(8) {
	case 0, 1:
		return c11Not(c11RandTree(g, depth-1, nvars, errs))
	case 2:
		return c11IsNull("is null", c11RandTree(g, depth-1, nvars, errs))
	case 3:
		return c11IsNull("is not null", c11RandTree(g, depth-1, nvars, errs))
	default:
		k := 2
		if g.Chance(1, 3) {
			k = g.Intn(5)
		}
		args := make([]*c11Node, k)
		for i := range args {
			args[i] = c11RandTree(g, depth-1, nvars, errs)
		}
		if g.Bool() {
			return c11Junction("A", args...)
		}
		return c11Junction("O", args...)
	}
}

// c11Distort makes some static types unsound / unusual (the model must follow the static types exactly)
func c11Distort(g *Gen, n *c11Node) {
	for _, a := range n.args {
		c11Distort(g, a)
	}
	if n.kind == "C" && n.ty[0] == "Str" {
		return
	}
	if g.Chance(1, 4) {
		n.ty = Pick(g, [][]string{c11TyB, c11TyBN, {"Union2", "Bool", "Null"}, {"Any"}, c11TyN, {"Int"},
			{"Union2", "Int", "Union2", "Str", "Null"}, {"Union0"}, {"List", "Null"}, {"Tuple1", "Null"}, {"Struct1", "x61", "Null"}})
	}
}

func c11Pow3(k int) int {
	t := 1
	for i := 0; i < k; i++ {
		t *= 3
	}
	return t
}

// sample constant argument of a primitive type
var c11Sample = map[octosql.TypeID][2]string{
	octosql.TypeIDInt:      {"Int", "i3"},
	octosql.TypeIDFloat:    {"Float", "f3ff8000000000000"},
	octosql.TypeIDBoolean:  {"Bool", "b1"},
	octosql.TypeIDString:   {"Str", "s6162"},
	octosql.TypeIDTime:     {"Time", "t1000000000:0"},
	octosql.TypeIDDuration: {"Dur", "d5"},
	octosql.TypeIDAny:      {"Int", "i7"},
}

// sample argument lists for the TypeFn descriptors, by function name (fail closed on a name not listed)
var c11TypeFnSamples = map[string][][][2]string{
	"<":      {{{"Int", "i1"}, {"Int", "i2"}}},
	"<=":     {{{"Int", "i1"}, {"Int", "i2"}}},
	">=":     {{{"Int", "i1"}, {"Int", "i2"}}},
	">":      {{{"Int", "i1"}, {"Int", "i2"}}},
	"len":    {nil, {{"List Int", "L2 i1 i2"}}, {{"Struct1 x61 Int", "S1 i1"}}, {{"Tuple2 Int Int", "T2 i1 i2"}}},
	"[]":     {{{"List Int", "L2 i1 i2"}, {"Int", "i0"}}},
	"in":     {{{"Int", "i1"}, {"List Int", "L2 i1 i2"}}, {{"Int", "i1"}, {"Tuple2 Int Int", "T2 i1 i2"}}},
	"not in": {{{"Int", "i1"}, {"List Int", "L2 i1 i2"}}, {{"Int", "i1"}, {"Tuple2 Int Int", "T2 i1 i2"}}},
}

func c11Nullable(ty string) string { return "Union2 Null " + ty }

func c11SampleArgs(name string, idx int, d physical.FunctionDescriptor) ([][2]string, error) {
	if d.TypeFn != nil {
		s, ok := c11TypeFnSamples[name]
		if !ok || idx >= len(s) || s[idx] == nil {
			return nil, fmt.Errorf("c11: no sample arguments for TypeFn descriptor %s/%d", name, idx)
		}
		return s[idx], nil
	}
	out := make([][2]string, len(d.ArgumentTypes))
	for i, t := range d.ArgumentTypes {
		s, ok := c11Sample[t.TypeID]
		if !ok {
			return nil, fmt.Errorf("c11: no sample argument for type %s of %s/%d", t, name, idx)
		}
		out[i] = s
	}
	return out, nil
}

// functions whose bodies the Lean model has (calls with no checked NULL are emitted only for these)
var c11Modelled = map[string]bool{"not": true, "is null": true, "is not null": true, "<": true, "<=": true, "=": true,
	"!=": true, ">=": true, ">": true, "panic": true}

func genC11(g *Gen, tier string, w *bufio.Writer) {
	thorough := tier == "thorough"
	tri := []string{"b1", "b0", "n"}
	// 1. AND / OR over {TRUE,FALSE,NULL}^k, exhaustive
	maxK := 5
	if thorough {
		maxK = 7
	}
	for _, op := range []string{"and", "or"} {
		for k := 0; k <= maxK; k++ {
			for a := 0; a < c11Pow3(k); a++ {
				ls := make([]string, k)
				d := a
				for i := k - 1; i >= 0; i-- {
					ls[i] = tri[d%3]
					d /= 3
				}
				fmt.Fprintf(w, "%s %d %s\n", op, k, strings.Join(ls, " "))
			}
		}
	}
	// … with error leaves and non-boolean values in every position: {T,F,N,E0,E1,i0,i5,s}^k
	ext := []string{"b1", "b0", "n", "E6530", "E6531", "i0", "i5", "s61"}
	extK := 3
	if thorough {
		extK = 4
	}
	for _, op := range []string{"and", "or"} {
		for k := 1; k <= extK; k++ {
			total := 1
			for i := 0; i < k; i++ {
				total *= len(ext)
			}
			for a := 0; a < total; a++ {
				ls := make([]string, k)
				d := a
				for i := k - 1; i >= 0; i-- {
					ls[i] = ext[d%len(ext)]
					d /= len(ext)
				}
				fmt.Fprintf(w, "%s %d %s\n", op, k, strings.Join(ls, " "))
			}
		}
	}
	// 2. boolean trees: exhaustive up to depth 2 over leaves c0 c1 c2 TRUE FALSE NULL, all 27 assignments each
	leaves := []*c11Node{c11Var(0, true), c11Var(1, true), c11Var(2, true), c11Const("b1"), c11Const("b0"), c11Const("n")}
	for _, t := range c11AllTrees(leaves, 2) {
		fmt.Fprintf(w, "treeall 3 %s\n", c11Line(t))
	}
	// depth 3 (and deeper on thorough): sampled; n-ary junctions, error leaves
	n3, dmax := 6000, 3
	if thorough {
		n3, dmax = 120000, 6
	}
	for i := 0; i < n3; i++ {
		d := 3
		if dmax > 3 {
			d = 3 + g.Intn(dmax-2)
		}
		t := c11RandTree(g, d, 3, i%3 == 0)
		fmt.Fprintf(w, "treeall 3 %s\n", c11Line(t))
	}
	// non-nullable variables (static type Boolean): assignments over {T,F} only, explicit environments;
	// and distorted static types (unsound on purpose: the implementation follows the static types, so must the model)
	for i := 0; i < n3/2; i++ {
		nvars := 1 + g.Intn(3)
		t := c11RandTree(g, 1+g.Intn(3), nvars, i%4 == 0)
		vals := make([]string, nvars)
		for j := range vals {
			vals[j] = Pick(g, tri)
		}
		if i%2 == 0 {
			c11Distort(g, t)
		}
		fields := make([]string, nvars)
		for j := range fields {
			fields[j] = strconv.Itoa(j)
		}
		switch g.Intn(12) {
		case 0: // a field the schema does not have
			fields[g.Intn(nvars)] = "9"
		case 1: // fewer values than fields
			vals = vals[:nvars-1]
		case 2: // non-boolean value
			vals[g.Intn(nvars)] = Pick(g, []string{"i0", "i1", "s61", "L1 b1", "d0"})
		}
		fmt.Fprintf(w, "tree %d %s %d %s %s\n", nvars, strings.Join(fields, " "), len(vals), strings.Join(vals, " "), c11Line(t))
	}
	// comparisons inside trees: (a ⋈ b) with nullable Int operands
	cmpNames := []string{"<", "<=", "=", "!=", ">=", ">"}
	ints := []string{"i0", "i1", "i2", "n"}
	for _, fn := range cmpNames {
		for _, a := range ints {
			for _, b := range ints {
				mk := func(v string) *c11Node {
					if v == "n" {
						return &c11Node{kind: "C", ty: []string{"Union2", "Null", "Int"}, val: v, nullable: true}
					}
					return &c11Node{kind: "C", ty: []string{"Int"}, val: v}
				}
				x, y := mk(a), mk(b)
				c := &c11Node{kind: "F", fn: fn, ty: c11BoolTy(x.nullable || y.nullable), args: []*c11Node{x, y}, nullable: x.nullable || y.nullable}
				fmt.Fprintf(w, "tree 0 0 %s\n", c11Line(c))
				fmt.Fprintf(w, "tree 0 0 %s\n", c11Line(c11Not(c)))
				fmt.Fprintf(w, "tree 0 0 %s\n", c11Line(c11Junction("A", c, c11Const("b1"))))
				fmt.Fprintf(w, "tree 0 0 %s\n", c11Line(c11Junction("O", c, c11Const("b0"))))
				fmt.Fprintf(w, "tree 0 0 %s\n", c11Line(c11IsNull("is null", c)))
			}
		}
	}
	// 3. every descriptor of functions.FunctionMap(): NULL in each argument position
	fm := c11Funcs()
	names := make([]string, 0, len(fm))
	for n := range fm {
		names = append(names, n)
	}
	sort.Strings(names)
	for _, name := range names {
		for idx, d := range fm[name].Descriptors {
			args, err := c11SampleArgs(name, idx, d)
			if err != nil {
				fmt.Fprintln(os.Stderr, err)
				os.Exit(1)
			}
			hexname := hex.EncodeToString([]byte(name))
			emit := func(a [][2]string) {
				parts := make([]string, len(a))
				for i := range a {
					parts[i] = a[i][0] + " " + a[i][1]
				}
				fmt.Fprintf(w, "strict %s %d %d %s\n", hexname, idx, len(a), strings.Join(parts, " "))
			}
			if c11Modelled[name] {
				emit(args)
			}
			for p := range args {
				// NULL at position p, static type nullable (well typed)
				a := append([][2]string(nil), args...)
				a[p] = [2]string{c11Nullable(args[p][0]), "n"}
				if c11Modelled[name] || d.Strict {
					emit(a)
				}
				// static type NULL itself / Any
				a[p] = [2]string{"Null", "n"}
				if c11Modelled[name] || d.Strict {
					emit(a)
				}
				// all positions nullable, NULL only at p
				b := make([][2]string, len(args))
				for i := range args {
					b[i] = [2]string{c11Nullable(args[i][0]), args[i][1]}
				}
				b[p][1] = "n"
				if c11Modelled[name] || d.Strict {
					emit(b)
				}
				// ill typed: NULL value under a non-nullable static type (only where the body is modelled)
				if c11Modelled[name] {
					a[p] = [2]string{args[p][0], "n"}
					emit(a)
				}
			}
		}
	}
	// 3b. logical expressions through the real typechecker
	genC11Logical(g, thorough, func(l string) { fmt.Fprintln(w, l) })
	genC11Cmp(func(l string) { fmt.Fprintln(w, l) })
	genC11Call(func(l string) { fmt.Fprintln(w, l) })
	// 4. Filter over streams
	nf := 1500
	if thorough {
		nf = 30000
	}
	for i := 0; i < nf; i++ {
		nvars := 1 + g.Intn(3)
		t := c11RandTree(g, g.Intn(4), nvars, i%5 == 0)
		if i%7 == 0 {
			c11Distort(g, t)
		}
		nm := g.Intn(9)
		msgs := make([]string, nm)
		for j := range msgs {
			if g.Chance(1, 6) {
				msgs[j] = "W" + strconv.Itoa(g.Intn(100))
				continue
			}
			vals := make([]string, nvars)
			for c := range vals {
				vals[c] = Pick(g, tri)
				if g.Chance(1, 25) {
					vals[c] = Pick(g, []string{"i0", "i1", "s61"})
				}
			}
			sign := "+"
			if g.Chance(1, 4) {
				sign = "-"
			}
			et := "z"
			if g.Bool() {
				et = strconv.Itoa(g.Intn(1000))
			}
			msgs[j] = fmt.Sprintf("R%d %s %s %s", nvars, strings.Join(vals, " "), sign, et)
		}
		failAt := -1
		if g.Chance(1, 8) {
			failAt = g.Intn(nm + 1)
		}
		fields := make([]string, nvars)
		for j := range fields {
			fields[j] = strconv.Itoa(j)
		}
		fmt.Fprintf(w, "filter %d %d %s %s %s\n", failAt, nvars, strings.Join(fields, " "), c11Line(t), strings.Join(msgs, " ; "))
	}
}

// ---------- translator: the Strict flag of every descriptor of functions.FunctionMap(), from the source text

func extractStrict(repoDir, outDir string) error {
	path := filepath.Join(repoDir, "functions", "functions.go")
	fset := token.NewFileSet()
	f, err := parser.ParseFile(fset, path, nil, 0)
	if err != nil {
		return err
	}
	var fm *ast.FuncDecl
	for _, d := range f.Decls {
		if fd, ok := d.(*ast.FuncDecl); ok && fd.Name.Name == "FunctionMap" && fd.Recv == nil {
			fm = fd
		}
	}
	if fm == nil || fm.Body == nil || len(fm.Body.List) != 1 {
		return fmt.Errorf("functions.go: FunctionMap is not a single return statement")
	}
	ret, ok := fm.Body.List[0].(*ast.ReturnStmt)
	if !ok || len(ret.Results) != 1 {
		return fmt.Errorf("functions.go: FunctionMap body is not `return <map literal>`")
	}
	lit, ok := ret.Results[0].(*ast.CompositeLit)
	if !ok {
		return fmt.Errorf("functions.go: FunctionMap does not return a composite literal")
	}
	if _, ok := lit.Type.(*ast.MapType); !ok {
		return fmt.Errorf("functions.go: FunctionMap does not return a map literal")
	}
	type entry struct {
		name   string
		idx    int
		strict bool
		arity  int // -1 = TypeFn
		params []int
	}
	var entries []entry
	seen := map[string]bool{}
	for _, el := range lit.Elts {
		kv, ok := el.(*ast.KeyValueExpr)
		if !ok {
			return fmt.Errorf("functions.go: map element is not key: value")
		}
		kl, ok := kv.Key.(*ast.BasicLit)
		if !ok || kl.Kind != token.STRING {
			return fmt.Errorf("functions.go:%v: function name is not a string literal", fset.Position(kv.Pos()))
		}
		name, err := strconv.Unquote(kl.Value)
		if err != nil {
			return err
		}
		if seen[name] {
			return fmt.Errorf("functions.go: duplicate function %q", name)
		}
		seen[name] = true
		det, ok := kv.Value.(*ast.CompositeLit)
		if !ok {
			return fmt.Errorf("functions.go: %q: details are not a composite literal", name)
		}
		var descs *ast.CompositeLit
		for _, del := range det.Elts {
			dkv, ok := del.(*ast.KeyValueExpr)
			if !ok {
				return fmt.Errorf("functions.go: %q: unkeyed details field", name)
			}
			switch dkv.Key.(*ast.Ident).Name {
			case "Description":
			case "Descriptors":
				descs, ok = dkv.Value.(*ast.CompositeLit)
				if !ok {
					return fmt.Errorf("functions.go: %q: Descriptors is not a composite literal", name)
				}
			default:
				return fmt.Errorf("functions.go: %q: unknown details field %s", name, dkv.Key.(*ast.Ident).Name)
			}
		}
		if descs == nil {
			return fmt.Errorf("functions.go: %q has no Descriptors", name)
		}
		for idx, de := range descs.Elts {
			dl, ok := de.(*ast.CompositeLit)
			if !ok {
				return fmt.Errorf("functions.go: %q/%d: descriptor is not a composite literal", name, idx)
			}
			e := entry{name: name, idx: idx, arity: -2}
			hasFn, hasStrict := false, false
			for _, fe := range dl.Elts {
				fkv, ok := fe.(*ast.KeyValueExpr)
				if !ok {
					return fmt.Errorf("functions.go: %q/%d: unkeyed descriptor field", name, idx)
				}
				switch fkv.Key.(*ast.Ident).Name {
				case "ArgumentTypes":
					al, ok := fkv.Value.(*ast.CompositeLit)
					if !ok {
						return fmt.Errorf("functions.go: %q/%d: ArgumentTypes is not a literal", name, idx)
					}
					e.arity = len(al.Elts)
					for _, pe := range al.Elts {
						sel, ok := pe.(*ast.SelectorExpr)
						id, known := map[string]int{"Null": 0, "Int": 1, "Float": 2, "Boolean": 3, "String": 4, "Time": 5, "Duration": 6, "Any": 11}[func() string {
							if ok {
								return sel.Sel.Name
							}
							return ""
						}()]
						if !ok || !known {
							return fmt.Errorf("functions.go: %q/%d: argument type is not one of octosql.{Null,Int,Float,Boolean,String,Time,Duration,Any}", name, idx)
						}
						e.params = append(e.params, id)
					}
				case "TypeFn":
					if e.arity == -2 {
						e.arity = -1
					}
				case "OutputType":
				case "Function":
					hasFn = true
				case "Strict":
					id, ok := fkv.Value.(*ast.Ident)
					if !ok || (id.Name != "true" && id.Name != "false") {
						return fmt.Errorf("functions.go: %q/%d: Strict is not a boolean literal", name, idx)
					}
					e.strict = id.Name == "true"
					hasStrict = true
				default:
					return fmt.Errorf("functions.go: %q/%d: unknown descriptor field %s", name, idx, fkv.Key.(*ast.Ident).Name)
				}
			}
			if !hasFn || e.arity == -2 {
				return fmt.Errorf("functions.go: %q/%d: descriptor without Function or without ArgumentTypes/TypeFn", name, idx)
			}
			_ = hasStrict // an absent Strict field is Go's zero value: false
			entries = append(entries, e)
		}
	}
	sort.SliceStable(entries, func(i, j int) bool {
		if entries[i].name != entries[j].name {
			return entries[i].name < entries[j].name
		}
		return entries[i].idx < entries[j].idx
	})
	var sb strings.Builder
	sb.WriteString("/-! GENERATED by `vh extract strict` from functions/functions.go (FunctionMap) — do not edit.\n")
	sb.WriteString("    One entry per descriptor: function name (bytes), index in `Descriptors`, the `Strict` flag,\n")
	sb.WriteString("    the number of `ArgumentTypes` (none = the descriptor has a `TypeFn`), the TypeIDs of the `ArgumentTypes`. -/\n")
	sb.WriteString("namespace Octo.Gen.Strict\n\n")
	sb.WriteString("structure Entry where\n  name : List Nat\n  idx : Nat\n  strict : Bool\n  arity : Option Nat\n  params : List Nat\n  deriving Repr, DecidableEq\n\n")
	sb.WriteString("def table : List Entry := [\n")
	for i, e := range entries {
		bs := make([]string, len(e.name))
		for j := 0; j < len(e.name); j++ {
			bs[j] = strconv.Itoa(int(e.name[j]))
		}
		ar := "none"
		if e.arity >= 0 {
			ar = fmt.Sprintf("some %d", e.arity)
		}
		sep := ","
		if i == len(entries)-1 {
			sep = ""
		}
		ps := make([]string, len(e.params))
		for j, p := range e.params {
			ps[j] = strconv.Itoa(p)
		}
		fmt.Fprintf(&sb, "  ⟨[%s], %d, %v, %s, [%s]⟩%s  -- %s\n", strings.Join(bs, ", "), e.idx, e.strict, ar, strings.Join(ps, ", "), sep, strconv.Quote(e.name))
	}
	sb.WriteString("]\n\nend Octo.Gen.Strict\n")
	if err := os.MkdirAll(outDir, 0o755); err != nil {
		return err
	}
	return os.WriteFile(filepath.Join(outDir, "Strict.lean"), []byte(sb.String()), 0o644)
}
