package main

import (
	"encoding/hex"
	"strconv"
	"strings"

	"github.com/cube2222/octosql/octosql"
)

// Types:  Null Int Float Bool Str Time Dur Any ListNil | List <ty> | Struct<k> (x<name hex> <ty>)… | Tuple<k> <ty>… | Union<k> <ty>…

func EncodeType(t octosql.Type) string {
	var sb strings.Builder
	encodeType(&sb, t)
	return sb.String()
}

func encodeType(sb *strings.Builder, t octosql.Type) {
	switch t.TypeID {
	case octosql.TypeIDNull:
		sb.WriteString("Null")
	case octosql.TypeIDInt:
		sb.WriteString("Int")
	case octosql.TypeIDFloat:
		sb.WriteString("Float")
	case octosql.TypeIDBoolean:
		sb.WriteString("Bool")
	case octosql.TypeIDString:
		sb.WriteString("Str")
	case octosql.TypeIDTime:
		sb.WriteString("Time")
	case octosql.TypeIDDuration:
		sb.WriteString("Dur")
	case octosql.TypeIDAny:
		sb.WriteString("Any")
	case octosql.TypeIDList:
		if t.List.Element == nil {
			sb.WriteString("ListNil")
		} else {
			sb.WriteString("List ")
			encodeType(sb, *t.List.Element)
		}
	case octosql.TypeIDStruct:
		sb.WriteString("Struct" + strconv.Itoa(len(t.Struct.Fields)))
		for _, f := range t.Struct.Fields {
			sb.WriteString(" x" + hex.EncodeToString([]byte(f.Name)) + " ")
			encodeType(sb, f.Type)
		}
	case octosql.TypeIDTuple:
		sb.WriteString("Tuple" + strconv.Itoa(len(t.Tuple.Elements)))
		for _, e := range t.Tuple.Elements {
			sb.WriteByte(' ')
			encodeType(sb, e)
		}
	case octosql.TypeIDUnion:
		sb.WriteString("Union" + strconv.Itoa(len(t.Union.Alternatives)))
		for _, e := range t.Union.Alternatives {
			sb.WriteByte(' ')
			encodeType(sb, e)
		}
	default:
		sb.WriteString("?" + strconv.Itoa(int(t.TypeID)))
	}
}

func ParseType(toks []string) (octosql.Type, []string) {
	tok, rest := toks[0], toks[1:]
	switch tok {
	case "Null":
		return octosql.Null, rest
	case "Int":
		return octosql.Int, rest
	case "Float":
		return octosql.Float, rest
	case "Bool":
		return octosql.Boolean, rest
	case "Str":
		return octosql.String, rest
	case "Time":
		return octosql.Time, rest
	case "Dur":
		return octosql.Duration, rest
	case "Any":
		return octosql.Any, rest
	case "ListNil":
		return octosql.Type{TypeID: octosql.TypeIDList}, rest
	case "List":
		e, r := ParseType(rest)
		return octosql.Type{TypeID: octosql.TypeIDList, List: struct{ Element *octosql.Type }{Element: &e}}, r
	}
	switch {
	case strings.HasPrefix(tok, "Struct"):
		k, _ := strconv.Atoi(tok[6:])
		fields := make([]octosql.StructField, k)
		for i := 0; i < k; i++ {
			nm, _ := hex.DecodeString(rest[0][1:])
			fields[i].Name = string(nm)
			fields[i].Type, rest = ParseType(rest[1:])
		}
		return octosql.Type{TypeID: octosql.TypeIDStruct, Struct: struct{ Fields []octosql.StructField }{Fields: fields}}, rest
	case strings.HasPrefix(tok, "Tuple"):
		k, _ := strconv.Atoi(tok[5:])
		es := make([]octosql.Type, k)
		for i := 0; i < k; i++ {
			es[i], rest = ParseType(rest)
		}
		return octosql.Type{TypeID: octosql.TypeIDTuple, Tuple: struct{ Elements []octosql.Type }{Elements: es}}, rest
	case strings.HasPrefix(tok, "Union"):
		k, _ := strconv.Atoi(tok[5:])
		es := make([]octosql.Type, k)
		for i := 0; i < k; i++ {
			es[i], rest = ParseType(rest)
		}
		return octosql.Type{TypeID: octosql.TypeIDUnion, Union: struct{ Alternatives []octosql.Type }{Alternatives: es}}, rest
	}
	panic("codec: bad type token " + tok)
}
