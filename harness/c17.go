package main

import "bufio"

// C17 — triggers fire exactly when specified.
// Ops: `trig …` (the real trigger objects, one method call per event) and `gb …` (the real node; the oracle
// looks at where watermarks are forwarded relative to the results).  See util_triggers.go.
func init() {
	register("C17", &prop{gen: genC17, drive: driveTrigProps})
}

func genC17(g *Gen, tier string, w *bufio.Writer) {
	genTrigOps(g, tier, w)
	genGbOps(g, tier, w, int(seed())+1, true)
}
