package main

import "github.com/cube2222/octosql/octosql"

type execution_Value = octosql.Value
