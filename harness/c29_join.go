package main

// C29, join half: the goroutine protocol of the REAL nodes.StreamJoin / nodes.OuterJoin — two producer goroutines
// forwarding their source's messages over buffered channels, the node's select loop as consumer — run free (no
// gating) on scripted sources that are longer than the channel capacity, with early returns (LIMIT / error
// downstream after k outputs, a failing source).
//
//   op    join <nw> <sj|oj> <nL> <nR> <matching keys m> <stop after k outputs|-> <errL after e records|-> <errR …|-> d<seed>
//   out   <ret> sent=<l>,<r> recv=<l>,<r> ended=<l>,<r> aborted=<l>,<r>
//
// ended=0 means: the node returned, and that side's producer goroutine is blocked for ever (all goroutines of the
// run blocked on channel operations, nothing logged between samples) — the goroutine leak the property excludes.

import (
	"context"
	"fmt"
	"strconv"
	"strings"
	"sync"
	"sync/atomic"
	"time"

	"github.com/cube2222/octosql/execution"
	"github.com/cube2222/octosql/execution/nodes"
	"github.com/cube2222/octosql/octosql"
)

type c29JoinCounters struct {
	sent, recv, aborted [2]int64
	ended               [2]int32
	events              int64
}

type c29Source struct {
	side   int
	n      int
	match  int
	errAt  int // -1: none
	seed   uint64
	c      *c29JoinCounters
	endedW *sync.WaitGroup
}

func (s *c29Source) Run(ctx execution.ExecutionContext, produce execution.ProduceFn, metaSend execution.MetaSendFn) (err error) {
	defer func() {
		atomic.StoreInt32(&s.c.ended[s.side], 1)
		atomic.AddInt64(&s.c.events, 1)
		s.endedW.Done()
	}()
	pctx := execution.ProduceFromExecutionContext(ctx)
	for i := 0; i < s.n; i++ {
		if i == s.errAt {
			return fmt.Errorf("c29 source error")
		}
		key := i
		if i >= s.match {
			key = (s.side+1)*1000000 + i
		}
		if c29Mix(s.seed, uint64(s.side), uint64(i))%97 == 0 {
			time.Sleep(20 * time.Microsecond)
		}
		rec := execution.NewRecord([]octosql.Value{octosql.NewInt(int64(key)), octosql.NewInt(int64(i))}, false, time.Time{})
		if e := produce(pctx, rec); e != nil {
			atomic.AddInt64(&s.c.aborted[s.side], 1)
			atomic.AddInt64(&s.c.events, 1)
			return e
		}
		atomic.AddInt64(&s.c.sent[s.side], 1)
		atomic.AddInt64(&s.c.events, 1)
	}
	if s.errAt == s.n {
		return fmt.Errorf("c29 source error")
	}
	return nil
}

func c29OptInt(s string) int {
	if s == "-" {
		return -1
	}
	n, _ := strconv.Atoi(s)
	return n
}

func c29RunJoin(toks []string) string {
	if len(toks) < 10 {
		return "bad-op"
	}
	kind := toks[2]
	nL, _ := strconv.Atoi(toks[3])
	nR, _ := strconv.Atoi(toks[4])
	m, _ := strconv.Atoi(toks[5])
	stop := c29OptInt(toks[6])
	errL, errR := c29OptInt(toks[7]), c29OptInt(toks[8])
	seed, _ := strconv.ParseUint(strings.TrimPrefix(toks[9], "d"), 10, 64)

	var c c29JoinCounters
	var ended sync.WaitGroup
	ended.Add(2)
	ls := &c29Source{side: 0, n: nL, match: m, errAt: errL, seed: seed, c: &c, endedW: &ended}
	rs := &c29Source{side: 1, n: nR, match: m, errAt: errR, seed: seed, c: &c, endedW: &ended}
	key := []execution.Expression{execution.NewVariable(0, 0)}
	var node execution.Node
	if kind == "oj" {
		node = nodes.NewOuterJoin(ls, rs, 2, 2, key, key, true, false)
	} else {
		node = nodes.NewStreamJoin(ls, rs, key, key)
	}
	nodes.VerifJoinRecv = func(left bool, closed bool) {
		if !closed {
			side := 1
			if left {
				side = 0
			}
			atomic.AddInt64(&c.recv[side], 1)
		}
		atomic.AddInt64(&c.events, 1)
		if c29Mix(seed, 7, uint64(atomic.LoadInt64(&c.events)))%211 == 0 {
			time.Sleep(10 * time.Microsecond)
		}
	}
	defer func() { nodes.VerifJoinRecv = nil }()

	ret := make(chan string, 1)
	go func() {
		outputs := 0
		err := node.Run(execution.ExecutionContext{Context: context.Background()},
			func(_ execution.ProduceContext, r execution.Record) error {
				outputs++
				if stop >= 0 && outputs == stop {
					return fmt.Errorf("c29 stop")
				}
				return nil
			},
			func(_ execution.ProduceContext, _ execution.MetadataMessage) error { return nil })
		switch {
		case err == nil:
			ret <- "ok"
		case strings.Contains(err.Error(), "c29 stop"):
			ret <- "stop"
		case strings.Contains(err.Error(), "c29 source error"):
			ret <- "err"
		default:
			ret <- "other:" + strings.ReplaceAll(err.Error(), " ", "_")
		}
	}()
	allEnded := make(chan struct{})
	go func() { ended.Wait(); close(allEnded) }()

	result := ""
	endedOK := false
	start := time.Now()
	tick := time.NewTicker(2 * time.Millisecond)
	defer tick.Stop()
	var lastN int64 = -1
	blocked := 0
	timedOut := false
loop:
	for result == "" || !endedOK {
		select {
		case r := <-ret:
			result = r
			continue
		case <-allEnded:
			endedOK = true
			allEnded = nil
			continue
		case <-tick.C:
		}
		el := time.Since(start)
		if el > 8*time.Minute {
			timedOut = true
			break loop
		}
		if el > 300*time.Millisecond {
			n := atomic.LoadInt64(&c.events)
			if n == lastN && c29AllBlocked() {
				blocked++
				if blocked >= 100 {
					break loop
				}
			} else {
				blocked = 0
			}
			lastN = n
		}
	}
	if result == "" {
		if timedOut {
			c29SaveDump(toks)
			return "timeout"
		}
		c29SaveDump(toks)
		return "timeout deadlock"
	}
	return fmt.Sprintf("%s sent=%d,%d recv=%d,%d ended=%d,%d aborted=%d,%d", result,
		atomic.LoadInt64(&c.sent[0]), atomic.LoadInt64(&c.sent[1]), atomic.LoadInt64(&c.recv[0]), atomic.LoadInt64(&c.recv[1]),
		atomic.LoadInt32(&c.ended[0]), atomic.LoadInt32(&c.ended[1]), atomic.LoadInt64(&c.aborted[0]), atomic.LoadInt64(&c.aborted[1]))
}
