package main

// C29 — protocol-level check of the JSON datasource pipeline (reader goroutine / global parser worker pool /
// consumer loop) of the REAL code, under varied GOMAXPROCS (= size of the worker pool), seeded worker delays,
// slow consumers, early stops (LIMIT / produce error / parse error / scanner error / parent cancellation).
//
//   op    json <nw> <np> <pipe>… d<seed> m<maxdelay µs>
//   pipe  <rows>:<batch 64|1>:<scanErr 0|1>:<bad a.b.c|->:<stopAt k|->:<parent-cancel-after n|->:<consumer delay µs>
//   out   <ret>:<produced>… | <event>…          (see lean/Octo/Drv/C29.lean)
//
// The worker pool is created at package initialisation with runtime.GOMAXPROCS(0) workers, so an op is executed in
// a child process (`vh drive C29` with GOMAXPROCS=<nw>, one persistent child per value). The child runs the real
// DatasourceExecuting.Run (obtained through json.Creator + Materialize) in-process with the `verif` hooks logging
// every channel operation; the log is the output. A watchdog declares `timeout` only when all goroutines of the
// pipeline are blocked on channel operations and no event was logged between two samples (a real deadlock, not a
// slow machine), or after a very long absolute deadline.

import (
	"bufio"
	"bytes"
	"context"
	"fmt"
	"io"
	"os"
	"os/exec"
	"path/filepath"
	"runtime"
	"strconv"
	"strings"
	"sync"
	"time"

	"github.com/cube2222/octosql/config"
	jsonds "github.com/cube2222/octosql/datasources/json"
	"github.com/cube2222/octosql/execution"
	"github.com/cube2222/octosql/physical"
)

func init() {
	register("C29", &prop{gen: c29Gen, drive: c29Drive, driveAll: c29DriveAll})
}

// ---------------------------------------------------------------- generator

type c29Pipe struct {
	rows, batch  int
	scanErr      bool
	bad          []int
	stopAt       int // -1: none
	pcancelAfter int // -1: none
	cdelayUS     int
}

func (p c29Pipe) String() string {
	se := "0"
	if p.scanErr {
		se = "1"
	}
	bad := "-"
	if len(p.bad) > 0 {
		ss := make([]string, len(p.bad))
		for i, b := range p.bad {
			ss[i] = strconv.Itoa(b)
		}
		bad = strings.Join(ss, ".")
	}
	opt := func(n int) string {
		if n < 0 {
			return "-"
		}
		return strconv.Itoa(n)
	}
	return fmt.Sprintf("%d:b:%s:%s:%s:%s:%d", p.rows, se, bad, opt(p.stopAt), opt(p.pcancelAfter), p.cdelayUS)
}

func c29LineT(nw int, pipes []c29Pipe, seed uint64, maxDelayUS int, cancelAfterUS int) string {
	return c29Line(nw, pipes, seed, maxDelayUS) + fmt.Sprintf(" t%d", cancelAfterUS)
}

func c29Line(nw int, pipes []c29Pipe, seed uint64, maxDelayUS int) string {
	var sb strings.Builder
	fmt.Fprintf(&sb, "json %d %d", nw, len(pipes))
	for _, p := range pipes {
		sb.WriteByte(' ')
		sb.WriteString(p.String())
	}
	fmt.Fprintf(&sb, " d%d m%d", seed, maxDelayUS)
	return sb.String()
}

var c29RowCounts = []int{0, 1, 63, 64, 65, 127, 128, 129, 1000}

func c29Gen(g *Gen, tier string, w *bufio.Writer) {
	emit := func(s string) { w.WriteString(s); w.WriteByte('\n') }
	nws := []int{1, 2, 16}
	plain := func(rows int) c29Pipe { return c29Pipe{rows: rows, batch: 64, stopAt: -1, pcancelAfter: -1} }
	// 1. the fixed grid of the property text: row counts x GOMAXPROCS, no noise and with worker delays
	for _, rows := range c29RowCounts {
		for _, nw := range nws {
			emit(c29Line(nw, []c29Pipe{plain(rows)}, 0, 0))
			emit(c29Line(nw, []c29Pipe{plain(rows)}, g.U64()%1000+1, 200))
		}
	}
	// 2. more batches than tokens (128 tokens x 64 lines = 8192 lines) with a slow consumer: the token channel fills up
	for _, nw := range nws {
		p := plain(8192 + 64*3 + 5)
		p.cdelayUS = 3
		emit(c29Line(nw, []c29Pipe{p}, g.U64()%1000+1, 50))
	}
	n := 60
	if tier == "thorough" {
		n = 1200
	}
	pickRows := func() int {
		switch g.Intn(6) {
		case 0:
			return c29RowCounts[g.Intn(len(c29RowCounts))]
		case 1:
			return g.Intn(5)
		case 2:
			return 64*g.Intn(6) + g.Intn(3) - 1 + 1
		case 3:
			return 8192 + g.Intn(400)
		default:
			return g.Intn(1500)
		}
	}
	// 3. random single pipes with early stops and errors
	for i := 0; i < n; i++ {
		p := plain(pickRows())
		switch g.Intn(7) {
		case 0: // LIMIT
			p.stopAt = 1 + g.Intn(p.rows+2)
		case 1: // a malformed line
			if p.rows > 0 {
				p.bad = []int{g.Intn(p.rows)}
				if g.Intn(3) == 0 {
					p.bad = append(p.bad, g.Intn(p.rows))
				}
			}
		case 2:
			p.scanErr = true
		case 3:
			if p.rows > 0 {
				p.pcancelAfter = 1 + g.Intn(p.rows)
			}
		case 4:
			p.stopAt = 1 + g.Intn(p.rows+2)
			if p.rows > 0 {
				p.bad = []int{g.Intn(p.rows)}
			}
		}
		if g.Intn(3) == 0 {
			p.cdelayUS = 1 + g.Intn(20)
			if p.rows > 3000 {
				p.cdelayUS = 1 + g.Intn(3)
			}
		}
		md := 0
		if g.Intn(2) == 0 {
			md = 20 + g.Intn(400)
		}
		emit(c29Line(nws[g.Intn(3)], []c29Pipe{p}, g.U64()%100000+1, md))
	}
	// 3b. cancellation of the parent context from outside, at a random moment (while the consumer waits in its select,
	//     while the reader waits for a token, …)
	nt := 12
	if tier == "thorough" {
		nt = 150
	}
	for i := 0; i < nt; i++ {
		p := plain(pickRows())
		if g.Intn(2) == 0 {
			p.cdelayUS = 1 + g.Intn(5)
		}
		emit(c29LineT(nws[g.Intn(3)], []c29Pipe{p}, g.U64()%100000+1, g.Intn(300), 30+g.Intn(4000)))
	}
	// 4. several pipes sharing the pool
	m := 20
	if tier == "thorough" {
		m = 300
	}
	for i := 0; i < m; i++ {
		k := 2 + g.Intn(2)
		var ps []c29Pipe
		for j := 0; j < k; j++ {
			p := plain(pickRows())
			if p.rows > 2000 {
				p.rows = 1000 + g.Intn(1500)
			}
			switch g.Intn(5) {
			case 0:
				p.stopAt = 1 + g.Intn(p.rows+2)
			case 1:
				if p.rows > 0 {
					p.bad = []int{g.Intn(p.rows)}
				}
			case 2:
				if p.rows > 0 {
					p.pcancelAfter = 1 + g.Intn(p.rows)
				}
			}
			if g.Intn(3) == 0 {
				p.cdelayUS = 1 + g.Intn(10)
			}
			ps = append(ps, p)
		}
		emit(c29Line(nws[g.Intn(3)], ps, g.U64()%100000+1, g.Intn(300)))
	}
	// 5. the join's goroutine protocol: inputs around and above the channel capacity (10000), complete runs,
	//    early returns (k-th output fails: LIMIT / error downstream) and failing sources
	opt := func(n int) string {
		if n < 0 {
			return "-"
		}
		return strconv.Itoa(n)
	}
	joinLine := func(nw int, kind string, nL, nR, m, stop, errL, errR int) {
		emit(fmt.Sprintf("join %d %s %d %d %d %s %s %s d%d", nw, kind, nL, nR, m, opt(stop), opt(errL), opt(errR), g.U64()%100000+1))
	}
	kinds := []string{"sj", "oj"}
	sizes := []int{0, 1, 100, 9999, 10000, 10001, 10005, 25000}
	joinLine(2, "sj", 0, 0, 0, -1, -1, -1)
	joinLine(1, "oj", 1, 0, 0, -1, -1, -1)
	joinLine(16, "sj", 12000, 11000, 50, -1, -1, -1)
	joinLine(2, "sj", 30000, 20, 5, 3, -1, -1)
	joinLine(2, "oj", 20, 25000, 5, 2, -1, -1)
	joinLine(1, "sj", 10001, 0, 0, -1, -1, 0)
	joinLine(16, "sj", 100, 30000, 5, -1, 50, -1)
	nj := 8
	if tier == "thorough" {
		nj = 120
	}
	for i := 0; i < nj; i++ {
		kind := kinds[g.Intn(2)]
		nL, nR := sizes[g.Intn(len(sizes))], sizes[g.Intn(len(sizes))]
		if g.Intn(2) == 0 {
			nL = g.Intn(300)
		}
		m := g.Intn(40)
		stop, errL, errR := -1, -1, -1
		matches := m
		if nL < matches {
			matches = nL
		}
		if nR < matches {
			matches = nR
		}
		switch g.Intn(4) {
		case 0:
			if matches > 0 {
				stop = 1 + g.Intn(matches)
			}
		case 1:
			errL = g.Intn(nL + 1)
		case 2:
			errR = g.Intn(nR + 1)
		}
		joinLine(nws[g.Intn(3)], kind, nL, nR, m, stop, errL, errR)
	}
	// 6. data-race SEARCH: whole queries through the race-detector build of the binary
	nr := len(c29RaceQueries)
	if tier == "thorough" {
		nr = 90
	}
	gmps := []int{1, 2, 4, 16}
	for i := 0; i < nr; i++ {
		qid := i % len(c29RaceQueries)
		if i >= len(c29RaceQueries) {
			qid = g.Intn(len(c29RaceQueries))
		}
		rows := []int{40, 200, 1000, 3000}[g.Intn(4)]
		emit(fmt.Sprintf("race %d %d %d d%d x%d", gmps[g.Intn(4)], qid, rows, g.U64()%100000+1, c29RaceQueries[qid].exit))
	}
	// 7. whole-engine traces: the same queries through the plain verif binary with the pipeline hooks logging to a file
	nc := len(c29RaceQueries)
	if tier == "thorough" {
		nc = 130
	}
	for i := 0; i < nc; i++ {
		qid := i % len(c29RaceQueries)
		if i >= len(c29RaceQueries) {
			qid = g.Intn(len(c29RaceQueries))
		}
		rows := []int{1, 40, 200, 1000, 3000}[g.Intn(5)]
		emit(fmt.Sprintf("cli %d %d %d d%d x%d", gmps[g.Intn(4)], qid, rows, g.U64()%100000+1, c29RaceQueries[qid].exit))
	}
}

// ---------------------------------------------------------------- parent: persistent children per GOMAXPROCS

// c29DriveAll is the line loop of `vh drive C29`: the parent dispatches every op to the child with the right
// GOMAXPROCS; the child executes and flushes after every line (the parent waits for it).
func c29DriveAll(sc *bufio.Scanner, w *bufio.Writer) {
	child := os.Getenv("VERIF_C29_CHILD") == "1"
	c29Out = w
	if child {
		for sc.Scan() {
			toks := strings.Fields(sc.Text())
			out := safe(func() string { return c29Drive(toks) })
			w.WriteString(out)
			w.WriteByte('\n')
			w.Flush()
		}
		return
	}
	// parent: read everything, run the lines of each GOMAXPROCS value on their own children (two per value, in
	// parallel), print the results in input order
	var lines [][]string
	for sc.Scan() {
		lines = append(lines, strings.Fields(sc.Text()))
	}
	outs := make([]string, len(lines))
	queues := map[string][]int{}
	for i, toks := range lines {
		key := "-"
		if len(toks) >= 3 && (toks[0] == "race" || toks[0] == "cli") {
			key = toks[0] + "/" + strconv.Itoa(i%4)
		} else if len(toks) >= 3 && (toks[0] == "json" || toks[0] == "join") {
			if len(queues[toks[1]+"/0"]) > len(queues[toks[1]+"/1"]) {
				key = toks[1] + "/1"
			} else {
				key = toks[1] + "/0"
			}
		}
		queues[key] = append(queues[key], i)
	}
	var wg sync.WaitGroup
	for key, idx := range queues {
		wg.Add(1)
		go func(key string, idx []int) {
			defer wg.Done()
			var ch *c29Child
			for _, i := range idx {
				toks := lines[i]
				outs[i] = safe(func() string { return c29Dispatch(&ch, toks) })
			}
			if ch != nil {
				ch.in.Close()
				ch.cmd.Wait()
			}
		}(key, idx)
	}
	wg.Wait()
	for _, o := range outs {
		w.WriteString(o)
		w.WriteByte('\n')
	}
}

var c29Out *bufio.Writer

type c29Child struct {
	cmd *exec.Cmd
	in  io.WriteCloser
	out *bufio.Reader
}

func c29StartChild(nw int) (*c29Child, error) {
	cmd := exec.Command(os.Args[0], "drive", "C29")
	cmd.Env = append(os.Environ(), "VERIF_C29_CHILD=1", "GOMAXPROCS="+strconv.Itoa(nw))
	in, err := cmd.StdinPipe()
	if err != nil {
		return nil, err
	}
	out, err := cmd.StdoutPipe()
	if err != nil {
		return nil, err
	}
	cmd.Stderr = nil
	if err := cmd.Start(); err != nil {
		return nil, err
	}
	return &c29Child{cmd: cmd, in: in, out: bufio.NewReaderSize(out, 1<<20)}, nil
}

// c29Drive: in the child, execute; (the parent goes through c29DriveAll / c29Dispatch)
func c29Drive(toks []string) string {
	if len(toks) >= 3 && toks[0] == "race" {
		return c29RunRace(toks)
	}
	if len(toks) >= 3 && toks[0] == "cli" {
		return c29RunCLI(toks)
	}
	if len(toks) < 3 || (toks[0] != "json" && toks[0] != "join") {
		return "bad-op"
	}
	if os.Getenv("VERIF_C29_CHILD") == "1" {
		if toks[0] == "join" {
			return c29RunJoin(toks)
		}
		return c29RunOp(toks)
	}
	var ch *c29Child
	out := c29Dispatch(&ch, toks)
	if ch != nil {
		ch.in.Close()
		ch.cmd.Wait()
	}
	return out
}

// c29Dispatch sends one op to the child *pch (started on demand with GOMAXPROCS = the op's worker count)
func c29Dispatch(pch **c29Child, toks []string) string {
	if len(toks) >= 3 && toks[0] == "race" {
		return c29RunRace(toks)
	}
	if len(toks) >= 3 && toks[0] == "cli" {
		return c29RunCLI(toks)
	}
	if len(toks) < 3 || (toks[0] != "json" && toks[0] != "join") {
		return "bad-op"
	}
	nw, err := strconv.Atoi(toks[1])
	if err != nil || nw < 1 {
		return "bad-op"
	}
	ch := *pch
	if ch == nil {
		ch, err = c29StartChild(nw)
		if err != nil {
			return "driver-error " + err.Error()
		}
		*pch = ch
	}
	if _, err := io.WriteString(ch.in, strings.Join(toks, " ")+"\n"); err != nil {
		*pch = nil
		return "driver-error child-write"
	}
	type res struct {
		s   string
		err error
	}
	rc := make(chan res, 1)
	go func() {
		s, err := ch.out.ReadString('\n')
		rc <- res{s, err}
	}()
	select {
	case r := <-rc:
		if r.err != nil {
			// the child died
			ch.cmd.Process.Kill()
			ch.cmd.Wait()
			*pch = nil
			if r.s != "" {
				return strings.TrimRight(r.s, "\n")
			}
			return "timeout child-died"
		}
		if strings.HasPrefix(r.s, "timeout") {
			// the child answered `timeout`: its goroutines may be wedged for good — it is killed, the next op gets a fresh one
			ch.cmd.Process.Kill()
			ch.cmd.Wait()
			*pch = nil
		}
		return strings.TrimRight(r.s, "\n")
	case <-time.After(10 * time.Minute):
		ch.cmd.Process.Kill()
		ch.cmd.Wait()
		*pch = nil
		return "timeout child-unresponsive"
	}
}

// ---------------------------------------------------------------- child: run one op on the real code

type c29Event struct {
	kind      string
	run, wid  int
	n         int
	pipeKnown int
}

type c29Log struct {
	mu        sync.Mutex
	events    []c29Event
	runToPipe map[int]int
	pending   int // pipe index the next `start` event belongs to
}

var c29TheLog *c29Log
var c29StartMu sync.Mutex

func c29Hook(run int, proc string, wid int, kind string, n int) {
	l := c29TheLog
	if l == nil {
		return
	}
	l.mu.Lock()
	if kind == "start" {
		l.runToPipe[run] = l.pending
	}
	l.events = append(l.events, c29Event{kind: kind, run: run, wid: wid, n: n})
	l.mu.Unlock()
	if kind == "start" {
		c29StartMu.Unlock()
	}
}

func c29ParsePipe(s string) (c29Pipe, error) {
	f := strings.Split(s, ":")
	if len(f) != 7 {
		return c29Pipe{}, fmt.Errorf("pipe spec")
	}
	var p c29Pipe
	var err error
	atoi := func(s string) int {
		if s == "-" {
			return -1
		}
		n, e := strconv.Atoi(s)
		if e != nil {
			err = e
		}
		return n
	}
	p.rows = atoi(f[0])
	p.scanErr = f[2] == "1"
	if f[3] != "-" {
		for _, b := range strings.Split(f[3], ".") {
			p.bad = append(p.bad, atoi(b))
		}
	}
	p.stopAt, p.pcancelAfter, p.cdelayUS = atoi(f[4]), atoi(f[5]), atoi(f[6])
	return p, err
}

const c29MaxLine = 4096

func c29WriteFile(path string, p c29Pipe, clean bool) {
	var buf bytes.Buffer
	bad := map[int]bool{}
	if !clean {
		for _, b := range p.bad {
			bad[b] = true
		}
	}
	for i := 0; i < p.rows; i++ {
		if bad[i] {
			fmt.Fprintf(&buf, "{\"a\": %d, \"b\": \n", i)
		} else {
			fmt.Fprintf(&buf, "{\"a\": %d, \"b\": \"r%d\"}\n", i, i%13)
		}
	}
	if p.scanErr && !clean {
		buf.WriteString("{\"a\": 0, \"b\": \"")
		buf.Write(bytes.Repeat([]byte("x"), c29MaxLine+100))
		buf.WriteString("\"}\n")
	}
	if err := os.WriteFile(path, buf.Bytes(), 0o644); err != nil {
		panic(err)
	}
}

func c29Spin(us int) {
	if us <= 0 {
		return
	}
	time.Sleep(time.Duration(us) * time.Microsecond)
}

// consumer delay: yield on every record, sleep on every 64th (time.Sleep costs ~0.1-1 ms whatever the argument)
func c29ConsumerDelay(us, produced int) {
	if us <= 0 {
		return
	}
	runtime.Gosched()
	if produced%64 == 0 {
		time.Sleep(time.Duration(us*10) * time.Microsecond)
	}
}

// splitmix-style hash for the delay hook
func c29Mix(a, b, c uint64) uint64 {
	z := a*0x9E3779B97F4A7C15 + b*0xBF58476D1CE4E5B9 + c*0x94D049BB133111EB + 0x1234567
	z = (z ^ (z >> 30)) * 0xBF58476D1CE4E5B9
	z = (z ^ (z >> 27)) * 0x94D049BB133111EB
	return z ^ (z >> 31)
}

type c29PipeResult struct {
	ret      string
	produced int
}

func c29RunOp(toks []string) (result string) {
	np, _ := strconv.Atoi(toks[2])
	if len(toks) < 3+np+2 {
		return "bad-op"
	}
	pipes := make([]c29Pipe, np)
	for i := range pipes {
		p, err := c29ParsePipe(toks[3+i])
		if err != nil {
			return "bad-op"
		}
		pipes[i] = p
	}
	seed, _ := strconv.ParseUint(strings.TrimPrefix(toks[3+np], "d"), 10, 64)
	maxDelay, _ := strconv.Atoi(strings.TrimPrefix(toks[3+np+1], "m"))
	cancelAllAfterUS := 0 // t<µs>: the parent contexts of all pipes are cancelled from outside after that time
	if len(toks) > 3+np+2 && strings.HasPrefix(toks[3+np+2], "t") {
		cancelAllAfterUS, _ = strconv.Atoi(strings.TrimPrefix(toks[3+np+2], "t"))
	}

	dir := scratchDir("c29")
	defer os.RemoveAll(dir)

	cfg := &config.Config{}
	cfg.Files.BufferSizeBytes = 4096
	cfg.Files.JSON.MaxLineSizeBytes = c29MaxLine
	baseCtx := config.ContextWithConfig(context.Background(), cfg)

	nodes := make([]execution.Node, np)
	for i, p := range pipes {
		path := filepath.Join(dir, fmt.Sprintf("t%d.json", i))
		c29WriteFile(path, p, true)
		opts := map[string]string{} // tail mode (batch size 1) follows the file for ever: not driven, only modelled
		impl, schema, err := jsonds.Creator(baseCtx, path, opts)
		if err != nil {
			return "driver-error creator " + err.Error()
		}
		node, err := impl.Materialize(baseCtx, physical.Environment{}, schema, nil)
		if err != nil {
			return "driver-error materialize"
		}
		nodes[i] = node
		c29WriteFile(path, p, false)
	}

	log := &c29Log{runToPipe: map[int]int{}}
	c29TheLog = log
	jsonds.VerifJSONHook = c29Hook
	if maxDelay > 0 {
		jsonds.VerifJSONDelay = func(wid, first int) {
			h := c29Mix(seed, uint64(wid), uint64(first))
			switch h % 4 {
			case 0:
				runtime.Gosched()
			case 1:
			default:
				c29Spin(int((h >> 8) % uint64(maxDelay)))
			}
		}
	} else {
		jsonds.VerifJSONDelay = nil
	}

	results := make([]c29PipeResult, np)
	var wg sync.WaitGroup
	for i := range pipes {
		wg.Add(1)
		go func(i int) {
			defer wg.Done()
			p := pipes[i]
			ctx, cancel := context.WithCancel(baseCtx)
			defer cancel()
			if cancelAllAfterUS > 0 {
				tm := time.AfterFunc(time.Duration(cancelAllAfterUS)*time.Microsecond, func() {
					log.mu.Lock()
					known := false
					for r, pi := range log.runToPipe {
						if pi == i {
							log.events = append(log.events, c29Event{kind: "pcancel", run: r})
							known = true
						}
					}
					log.mu.Unlock()
					if known { // (before the run's `start` event there is nothing to attribute the cancellation to: skip it)
						cancel()
					}
				})
				defer tm.Stop()
			}
			produced := 0
			stopErr := fmt.Errorf("c29 stop")
			produce := func(pctx execution.ProduceContext, rec execution.Record) error {
				produced++
				c29ConsumerDelay(p.cdelayUS, produced)
				if p.pcancelAfter >= 0 && produced == p.pcancelAfter {
					log.mu.Lock()
					// the run id of this pipe: reverse lookup
					for r, pi := range log.runToPipe {
						if pi == i {
							log.events = append(log.events, c29Event{kind: "pcancel", run: r})
						}
					}
					log.mu.Unlock()
					cancel()
				}
				if p.stopAt >= 0 && produced == p.stopAt {
					return stopErr
				}
				return nil
			}
			c29StartMu.Lock()
			log.mu.Lock()
			log.pending = i
			log.mu.Unlock()
			defer func() {
				// Run failed before its `start` event (could not open the file): release the start lock ourselves
				log.mu.Lock()
				started := false
				for _, pi := range log.runToPipe {
					if pi == i {
						started = true
					}
				}
				log.mu.Unlock()
				if !started {
					c29StartMu.Unlock()
				}
			}()
			err := nodes[i].Run(execution.ExecutionContext{Context: ctx}, produce, func(execution.ProduceContext, execution.MetadataMessage) error { return nil })
			r := "ok"
			switch {
			case err == nil:
			case strings.Contains(err.Error(), "c29 stop"):
				r = "stop"
			case strings.Contains(err.Error(), "couldn't parse line"):
				r = "err"
			case strings.Contains(err.Error(), "token too long"):
				r = "scanerr"
			case err == context.Canceled:
				r = "ctx"
			default:
				r = "other:" + strings.ReplaceAll(err.Error(), " ", "_")
			}
			results[i] = c29PipeResult{r, produced}
		}(i)
	}
	finished := make(chan struct{})
	go func() { wg.Wait(); close(finished) }()

	quiescent := func() bool {
		// every reader ended and every taken job was sent or dropped
		log.mu.Lock()
		defer log.mu.Unlock()
		readers := 0
		open := 0
		for _, e := range log.events {
			switch e.kind {
			case "rstop", "rdone":
				readers++
			case "rsub":
				open++ // submitted; closed by the worker's wsent / wdrop
			case "wsent", "wdrop":
				open--
			}
		}
		return readers == np && open == 0
	}
	nEvents := func() int { log.mu.Lock(); defer log.mu.Unlock(); return len(log.events) }

	timedOut := false
	runDone := false
	lastN, blockedSamples := -1, 0
	start := time.Now()
	tick := time.NewTicker(2 * time.Millisecond)
	defer tick.Stop()
loop:
	for {
		if !runDone {
			select {
			case <-finished:
				runDone = true
				continue
			case <-tick.C:
			}
		} else {
			if quiescent() {
				break loop
			}
			<-tick.C
		}
		el := time.Since(start)
		if el > 8*time.Minute {
			timedOut = true
			break loop
		}
		if el > 500*time.Millisecond {
			// deadlock detection: nothing logged since the previous sample and every goroutine of the pipeline blocked
			n := nEvents()
			if n == lastN && c29AllBlocked() {
				blockedSamples++
				if blockedSamples >= 100 { // 100 ticks >= 0.2 s of a completely blocked pipeline
					timedOut = true
					break loop
				}
			} else {
				blockedSamples = 0
			}
			lastN = n
		}
	}
	var sb strings.Builder
	if timedOut {
		sb.WriteString("timeout")
		c29SaveDump(toks)
	} else {
		for i, r := range results {
			if i > 0 {
				sb.WriteByte(' ')
			}
			fmt.Fprintf(&sb, "%s:%d", r.ret, r.produced)
		}
	}
	sb.WriteString(" |")
	log.mu.Lock()
	for _, e := range log.events {
		pi, ok := log.runToPipe[e.run]
		if !ok {
			pi = 99
		}
		fmt.Fprintf(&sb, " %s,%d,%d,%d", e.kind, pi, e.wid, e.n)
	}
	for r := range log.runToPipe {
		jsonds.VerifJSONForget(r)
	}
	log.mu.Unlock()
	if timedOut && c29Out != nil {
		// the process is wedged (pool workers may be blocked for ever): answer and do not reuse it
		c29Out.WriteString(sb.String())
		c29Out.WriteByte('\n')
		c29Out.Flush()
		os.Exit(0)
	}
	return sb.String()
}

func c29AllBlocked() bool {
	buf := make([]byte, 1<<20)
	n := runtime.Stack(buf, true)
	gs := strings.Split(string(buf[:n]), "\n\n")
	relevant := 0
	for i, g := range gs {
		if i == 0 {
			continue // the calling goroutine
		}
		if !strings.Contains(g, "datasources/json.") && !strings.Contains(g, "main.c29RunOp.func") &&
			!strings.Contains(g, "main.c29RunJoin.func") && !strings.Contains(g, "main.(*c29Source).Run") &&
			!strings.Contains(g, "execution/nodes.(*StreamJoin).Run") && !strings.Contains(g, "execution/nodes.(*OuterJoin).Run") {
			continue
		}
		relevant++
		hdr := g
		if j := strings.IndexByte(g, '\n'); j >= 0 {
			hdr = g[:j]
		}
		a := strings.IndexByte(hdr, '[')
		b := strings.LastIndexByte(hdr, ']')
		if a < 0 || b < a {
			return false
		}
		st := hdr[a+1 : b]
		blocked := false
		for _, pre := range []string{"chan receive", "chan send", "select", "semacquire", "sync."} {
			if strings.HasPrefix(st, pre) {
				blocked = true
			}
		}
		if !blocked {
			return false
		}
	}
	return relevant > 0
}

func c29SaveDump(toks []string) {
	buf := make([]byte, 4<<20)
	n := runtime.Stack(buf, true)
	d := filepath.Join(buildDir(), "run", "timeouts")
	os.MkdirAll(d, 0o755)
	os.WriteFile(filepath.Join(d, fmt.Sprintf("c29-%d-%d.txt", os.Getpid(), time.Now().UnixNano())),
		append([]byte(strings.Join(toks, " ")+"\n"), buf[:n]...), 0o644)
}
