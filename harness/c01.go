package main

import (
	"bufio"
	"encoding/hex"
	"fmt"
	"os"
	"path/filepath"
	"strconv"

	"github.com/cube2222/octosql/octosql"
)

func init() {
	register("C01", &prop{gen: genC01, drive: driveSel})
}

var allModes = []string{"json", "csv", "stream_native", "batch_table", "live_table"}

func genC01(g *Gen, tier string, w *bufio.Writer) {
	n := 1500
	if tier == "thorough" {
		n = 30000
	}
	for i := 0; i < n; i++ {
		mode := Pick(g, []string{"json", "json", "csv", "csv", "stream_native", "batch_table", "live_table"})
		fileFmt := Pick(g, []string{"csv", "csv", "json"})
		o := sqlGenOpts{fileFmt: fileFmt, simpleStr: mode != "json" && mode != "csv", maxRows: 10, maxDepth: 3, bigInts: true}
		t := genQTable(g, o)
		q := genQuery(g, o, t, "t."+fileFmt)
		fmt.Fprintln(w, selLine(mode, true, fileFmt, t, q))
	}
}

// parseSelLine extracts what the driver needs from a `sel` line.
func parseSelLine(toks []string) (mode string, opt bool, fileFmt, kinds string, names []string, rows [][]octosql.Value, sql string) {
	mode, opt, fileFmt, kinds = toks[1], toks[2] == "1", toks[3], toks[4]
	if toks[5] != "T" {
		panic("sel: expected T")
	}
	ncols, _ := strconv.Atoi(toks[6])
	nrows, _ := strconv.Atoi(toks[7])
	rest := toks[8:]
	for i := 0; i < ncols; i++ {
		names = append(names, fmt.Sprintf("c%d", i))
	}
	for r := 0; r < nrows; r++ {
		var row []octosql.Value
		row, rest = ParseValues(ncols, rest)
		rows = append(rows, row)
	}
	for i := len(toks) - 2; i >= 0; i-- {
		if toks[i] == "SQL" {
			b, err := hex.DecodeString(toks[i+1])
			if err != nil {
				panic(err)
			}
			sql = string(b)
			break
		}
	}
	return
}

func writeTable(dir, fileFmt string, names []string, rows [][]octosql.Value) {
	if fileFmt == "json" {
		writeJSONLines(filepath.Join(dir, "t.json"), names, rows)
	} else {
		writeCSV(filepath.Join(dir, "t.csv"), names, rows)
	}
}

// driveSel runs one generated query through the real binary.
func driveSel(toks []string) string {
	mode, opt, fileFmt, kinds, names, rows, sql := parseSelLine(toks)
	dir := scratchDir("sel")
	defer os.RemoveAll(dir)
	writeTable(dir, fileFmt, names, rows)
	args := []string{sql, "-o", mode}
	if !opt {
		args = append(args, "--optimize=false")
	}
	return canonOutput(runOctosql(dir, nil, args...), mode, kinds)
}
