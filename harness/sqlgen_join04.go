package main

// Generator of multi-table queries for C04 (and usable by C02/C03): joins (stream / lookup / comma / outer), extra
// WHERE conjuncts referencing one side, both sides or none, group-by above joins, nested subqueries whose columns
// are partly unused, DISTINCT, ORDER BY / LIMIT inside subqueries, unnest, table valued functions; tables with
// NULLs and duplicates.  Only SQL text is produced: the Lean side is handed the plan the real planner builds.

import (
	"bytes"
	"encoding/json"
	"fmt"
	"os"
	"path/filepath"
	"strconv"
	"strings"

	"github.com/cube2222/octosql/octosql"
)

type jtable04 struct {
	file string
	cols []qcol // name = column name in the file; kind 'l' = list of floats (json only), 't' = time (csv only)
	rows [][]octosql.Value
}

func (t jtable04) isJSON() bool { return strings.HasSuffix(t.file, ".json") }

// encode: <file> <ncols> <colname>* <nrows> <values>
func (t jtable04) encode() string {
	var sb strings.Builder
	fmt.Fprintf(&sb, "%s %d", encName(t.file), len(t.cols))
	for _, c := range t.cols {
		sb.WriteString(" " + encName(c.name))
	}
	fmt.Fprintf(&sb, " %d", len(t.rows))
	for _, r := range t.rows {
		for _, v := range r {
			sb.WriteByte(' ')
			sb.WriteString(EncodeValue(v))
		}
	}
	return sb.String()
}

func jsonValue(v octosql.Value) interface{} {
	if v.TypeID == octosql.TypeIDList {
		out := make([]interface{}, len(v.List))
		for i := range v.List {
			out[i] = jsonValue(v.List[i])
		}
		return out
	}
	return jsonScalar(v)
}

func (t jtable04) write(dir string) {
	names := make([]string, len(t.cols))
	for i, c := range t.cols {
		names[i] = c.name
	}
	path := filepath.Join(dir, t.file)
	if !t.isJSON() {
		writeCSV(path, names, t.rows)
		return
	}
	var buf bytes.Buffer
	for _, r := range t.rows {
		buf.WriteByte('{')
		for i, v := range r {
			if i > 0 {
				buf.WriteByte(',')
			}
			k, _ := json.Marshal(names[i])
			buf.Write(k)
			buf.WriteByte(':')
			b, err := json.Marshal(jsonValue(v))
			if err != nil {
				panic(err)
			}
			buf.Write(b)
		}
		buf.WriteString("}\n")
	}
	if err := os.WriteFile(path, buf.Bytes(), 0o644); err != nil {
		panic(err)
	}
}

// parseJTables reads `<n> table*` and returns the rest of the tokens.
func parseJTables(toks []string) ([]jtable04, []string) {
	n, _ := strconv.Atoi(toks[0])
	toks = toks[1:]
	var out []jtable04
	for i := 0; i < n; i++ {
		t := jtable04{file: decName(toks[0])}
		nc, _ := strconv.Atoi(toks[1])
		toks = toks[2:]
		for j := 0; j < nc; j++ {
			t.cols = append(t.cols, qcol{name: decName(toks[j])})
		}
		toks = toks[nc:]
		nr, _ := strconv.Atoi(toks[0])
		toks = toks[1:]
		for r := 0; r < nr; r++ {
			var row []octosql.Value
			row, toks = ParseValues(nc, toks)
			t.rows = append(t.rows, row)
		}
		out = append(out, t)
	}
	return out, toks
}

var keyInts = []int64{0, 1, 1, 2, 2, 3}
var keyFloats = []float64{0, 1, 1, 2.5, 2.5}
var keyStrings = []string{"x", "xa", "xa", "q"}

// genJTable04: column 0 is a join-key-like column (small domain, NULLs, duplicates), the others are payload.
func genJTable04(g *Gen, file string, maxRows int, withList bool) jtable04 {
	isJSON := strings.HasSuffix(file, ".json")
	t := jtable04{file: file}
	kinds := []byte{'i', 'i', 'f', 's', 's', 'b'}
	if isJSON {
		kinds = []byte{'f', 'f', 's', 's', 'b'}
	}
	ncols := 2 + g.Intn(3)
	names := []string{"k", "a", "b", "c", "d"}
	for i := 0; i < ncols; i++ {
		kind := Pick(g, kinds)
		if i == 0 {
			kind = Pick(g, []byte{kinds[0], kinds[0], 's'})
		}
		t.cols = append(t.cols, qcol{name: names[i], kind: kind, nullable: g.Chance(1, 2)})
	}
	if withList && isJSON {
		t.cols = append(t.cols, qcol{name: "l", kind: 'l'})
	}
	fillJTable(g, &t, maxRows)
	return t
}

// genFixedTable: a table with the given columns (column 0 is key-like)
func genFixedTable(g *Gen, file string, cols []qcol, maxRows int) jtable04 {
	t := jtable04{file: file, cols: cols}
	fillJTable(g, &t, maxRows)
	return t
}

var timeTexts = []string{"2021-01-01T00:00:00Z", "2021-01-01T00:00:01Z", "2021-01-01T00:00:01Z", "2021-01-01T00:00:03Z"}

func fillJTable(g *Gen, t *jtable04, maxRows int) {
	nrows := 1 + g.Intn(maxRows)
	for r := 0; r < nrows; r++ {
		row := make([]octosql.Value, len(t.cols))
		for i, c := range t.cols {
			if c.nullable && r > 0 && g.Chance(1, 4) {
				row[i] = octosql.NewNull()
				continue
			}
			switch c.kind {
			case 'i':
				if i == 0 {
					row[i] = octosql.NewInt(Pick(g, keyInts))
				} else {
					row[i] = octosql.NewInt(Pick(g, smallInts))
				}
			case 'f':
				if i == 0 {
					row[i] = octosql.NewFloat(Pick(g, keyFloats))
				} else {
					row[i] = octosql.NewFloat(Pick(g, quarterFloats))
				}
			case 'b':
				row[i] = octosql.NewBoolean(g.Bool())
			case 'T':
				// a time, written (and modelled) as its RFC 3339 text; non-decreasing down the file
				row[i] = octosql.NewString(timeTexts[min(r, len(timeTexts)-1)])
			case 'l':
				n := g.Intn(3)
				if r == 0 {
					n = 1 + g.Intn(2) // the first line fixes the element type
				}
				xs := make([]octosql.Value, n)
				for j := range xs {
					xs[j] = octosql.NewFloat(Pick(g, []float64{1, 2, 2.5}))
				}
				row[i] = octosql.NewList(xs)
			default:
				if i == 0 {
					row[i] = octosql.NewString(Pick(g, keyStrings))
				} else {
					row[i] = octosql.NewString(Pick(g, simpleStrings))
				}
			}
		}
		if r > 0 && g.Chance(1, 5) {
			src := t.rows[g.Intn(r)]
			for i := range row {
				if t.cols[i].kind != 'T' {
					row[i] = src[i]
				}
			}
		}
		t.rows = append(t.rows, row)
	}
}

// ---- queries

// jrel: something that can stand in a FROM clause. cols[i].name is the SQL text that refers to the column.
type jrel struct {
	sql     string
	sides   [][]qcol // the columns of each joined item
	ordered bool     // the record order is a function of the input (no join / hash map below)
}

func (r jrel) cols() []qcol {
	var out []qcol
	for _, s := range r.sides {
		out = append(out, s...)
	}
	return out
}

type jgen struct {
	g      *Gen
	tables []jtable04
	alias  int
	opts   jopts
}

type jopts struct {
	maxDepth int
	outer    bool // LEFT / RIGHT / OUTER joins
	lookup   bool
	groupBy  bool
	unnest   bool
	noLimit  bool
}

func (c *jgen) newAlias() string {
	c.alias++
	return fmt.Sprintf("q%d", c.alias)
}

func scalarCols(cols []qcol) []qcol {
	var out []qcol
	for _, c := range cols {
		if c.kind == 'i' || c.kind == 'f' || c.kind == 's' || c.kind == 'b' {
			out = append(out, c)
		}
	}
	return out
}

// item: a table or a parenthesised subquery with an alias
func (c *jgen) item(depth int) jrel {
	g := c.g
	if depth > 1 && g.Chance(2, 5) {
		sql, cols, ordered := c.block(depth-1, false)
		a := c.newAlias()
		out := make([]qcol, len(cols))
		for i, col := range cols {
			out[i] = col
			out[i].name = a + "." + col.name
		}
		return jrel{sql: "(" + sql + ") " + a, sides: [][]qcol{out}, ordered: ordered}
	}
	t := Pick(g, c.tables)
	a := c.newAlias()
	out := make([]qcol, len(t.cols))
	for i, col := range t.cols {
		out[i] = col
		out[i].name = a + "." + col.name
	}
	return jrel{sql: t.file + " " + a, sides: [][]qcol{out}, ordered: true}
}

// equality between two sides: same-kind columns (or an arithmetic expression on an Int side)
func (c *jgen) equality(l, r []qcol) (string, bool) {
	g := c.g
	for try := 0; try < 8; try++ {
		a := Pick(g, l)
		var cands []qcol
		for _, b := range r {
			if b.kind == a.kind && a.kind != 'l' && a.kind != 'b' {
				cands = append(cands, b)
			}
		}
		if len(cands) == 0 {
			continue
		}
		b := Pick(g, cands)
		ls, rs := a.name, b.name
		if a.kind == 'i' && g.Chance(1, 5) {
			ls = "(" + ls + " + 1)"
		}
		if a.kind == 'i' && g.Chance(1, 8) {
			rs = "(" + rs + " * 1)"
		}
		if g.Chance(1, 3) {
			ls, rs = rs, ls
		}
		return "(" + ls + " = " + rs + ")", true
	}
	return "", false
}

// a literal of the column's domain
func domainLit(g *Gen, col qcol) string {
	switch col.kind {
	case 'i':
		return strconv.Itoa(g.Intn(4))
	case 'f':
		return Pick(g, []string{"0.25", "1.0", "2.5", "0.0"})
	case 's':
		return "'" + Pick(g, []string{"x", "xa", "q", "Xa"}) + "'"
	}
	return "true"
}

// conjunct over the given columns: mostly a mildly selective comparison with a literal, sometimes a boolean tree
func (c *jgen) conjunct(cols []qcol) string {
	g := c.g
	cols = scalarCols(cols)
	if len(cols) == 0 {
		return "(1 = 1)"
	}
	if g.Chance(7, 10) {
		col := Pick(g, cols)
		switch {
		case col.kind == 'b':
			return Pick(g, []string{"(" + col.name + " IS NOT NULL)", col.name, "(NOT " + col.name + ")"})
		case g.Chance(1, 5):
			return "(" + col.name + Pick(g, []string{" IS NOT NULL)", " IS NOT NULL)", " IS NULL)"})
		case g.Chance(1, 6) && len(cols) > 1:
			other := Pick(g, cols)
			if other.kind == col.kind {
				return "(" + col.name + Pick(g, []string{" <= ", " >= ", " != ", " = "}) + other.name + ")"
			}
			fallthrough
		default:
			return "(" + col.name + Pick(g, []string{" >= ", " <= ", " != ", " != ", " > ", " < ", " = "}) + domainLit(g, col) + ")"
		}
	}
	return genBool(g, cols, 1+g.Intn(2)).sql
}

func (c *jgen) from(depth int) (jrel, []string) {
	g := c.g
	first := c.item(depth)
	var pending []string // conjuncts for WHERE
	n := 1
	if g.Chance(3, 5) {
		n = 2
		if g.Chance(1, 4) {
			n = 3
		}
	}
	cur := first
	comma := g.Chance(3, 10) // `a, b` binds looser than JOIN: a FROM clause is either all commas or a JOIN chain
	for i := 1; i < n; i++ {
		next := c.item(depth)
		lcols, rcols := cur.cols(), next.cols()
		var conds []string
		nkeys := 1 + g.Intn(2)
		for k := 0; k < nkeys; k++ {
			if e, ok := c.equality(lcols, rcols); ok {
				conds = append(conds, e)
			}
		}
		// extra conjuncts: left only, right only, both, none
		for _, which := range []int{0, 1, 2, 3} {
			if !g.Chance(1, 4) {
				continue
			}
			var e string
			switch which {
			case 0:
				e = c.conjunct(lcols)
			case 1:
				e = c.conjunct(rcols)
			case 2:
				e = c.conjunct(append(append([]qcol{}, lcols...), rcols...))
			default:
				e = Pick(g, []string{"(1 = 1)", "(1 = 1)", "(2 > 1)", "true", "true", "(NULL IS NULL)", "(1 = 2)"})
			}
			if g.Bool() {
				conds = append(conds, e)
			} else {
				pending = append(pending, e)
			}
		}
		style := 3 + g.Intn(7)
		if comma {
			style = 2
		} else if g.Chance(1, 5) {
			style = g.Intn(2)
		}
		switch {
		case c.opts.lookup && style == 0:
			on := ""
			if len(conds) > 0 {
				on = " ON " + strings.Join(conds, " AND ")
			}
			cur = jrel{sql: cur.sql + " LOOKUP JOIN " + next.sql + on, sides: append(cur.sides, next.sides...), ordered: cur.ordered && next.ordered}
		case c.opts.outer && style == 1 && len(conds) > 0:
			// outer join: the ON clause must be a conjunction of equalities between the two sides
			var eqs []string
			for k := 0; k < 1+g.Intn(2); k++ {
				if e, ok := c.equality(lcols, rcols); ok {
					eqs = append(eqs, e)
				}
			}
			if len(eqs) == 0 {
				cur = jrel{sql: cur.sql + " JOIN " + next.sql, sides: append(cur.sides, next.sides...)}
				break
			}
			kind := Pick(g, []string{"LEFT JOIN", "RIGHT JOIN", "OUTER JOIN"})
			sides := append([][]qcol{}, cur.sides...)
			sides = append(sides, next.sides...)
			// every column may now be NULL
			for si := range sides {
				s := append([]qcol{}, sides[si]...)
				for ci := range s {
					s[ci].nullable = true
				}
				sides[si] = s
			}
			pending = append(pending, conds...)
			cur = jrel{sql: cur.sql + " " + kind + " " + next.sql + " ON " + strings.Join(eqs, " AND "), sides: sides}
		case style == 2:
			// comma join: everything goes to WHERE. ParseSelect joins the FROM items right to left.
			pending = append(pending, conds...)
			cur = jrel{sql: cur.sql + ", " + next.sql, sides: append(cur.sides, next.sides...)}
		default:
			on := ""
			if len(conds) > 0 {
				on = " ON " + strings.Join(conds, " AND ")
			}
			cur = jrel{sql: cur.sql + " JOIN " + next.sql + on, sides: append(cur.sides, next.sides...)}
		}
	}
	return cur, pending
}

// block: one SELECT; returns its SQL, its output columns (name = output column name) and whether its order is fixed
func (c *jgen) block(depth int, top bool) (string, []qcol, bool) {
	g := c.g
	src, pending := c.from(depth)
	cols := src.cols()
	ordered := src.ordered
	where := pending
	for i := 0; i < 2; i++ {
		if g.Chance(1, 3) {
			// a conjunct over one side or over everything
			if g.Bool() {
				where = append(where, c.conjunct(Pick(g, src.sides)))
			} else {
				where = append(where, c.conjunct(cols))
			}
		}
	}
	whereSQL := ""
	if len(where) > 0 {
		// shuffle
		for i := len(where) - 1; i > 0; i-- {
			j := g.Intn(i + 1)
			where[i], where[j] = where[j], where[i]
		}
		whereSQL = " WHERE " + strings.Join(where, " AND ")
	}
	id := c.newAlias()
	var outCols []qcol
	var projSQL string
	groupSQL := ""
	sc := scalarCols(cols)
	listCols := colsOfKind(cols, 'l')
	switch {
	case c.opts.unnest && len(listCols) > 0 && g.Chance(2, 3):
		// unnest one list column, keep a few scalars
		var parts []string
		k := 1 + g.Intn(2)
		for i := 0; i < k && len(sc) > 0; i++ {
			col := Pick(g, sc)
			name := fmt.Sprintf("%s_%d", id, i)
			parts = append(parts, col.name+" AS "+name)
			outCols = append(outCols, qcol{name: name, kind: col.kind, nullable: col.nullable})
		}
		lc := cols[Pick(g, listCols)]
		name := id + "_u"
		pos := g.Intn(len(parts) + 1)
		parts = append(parts[:pos], append([]string{"unnest(" + lc.name + ") AS " + name}, parts[pos:]...)...)
		outCols = append(outCols[:pos], append([]qcol{{name: name, kind: 'f'}}, outCols[pos:]...)...)
		projSQL = strings.Join(parts, ", ")
	case c.opts.groupBy && len(sc) > 0 && g.Chance(1, 4):
		nk := g.Intn(3)
		var parts, keys []string
		for i := 0; i < nk; i++ {
			col := Pick(g, sc)
			e := col.name
			if col.kind == 'i' && g.Chance(1, 4) {
				e = "(" + col.name + " + 1)"
			}
			dup := false
			for _, k := range keys {
				if k == e {
					dup = true
				}
			}
			if dup {
				continue
			}
			keys = append(keys, e)
			name := fmt.Sprintf("%s_k%d", id, i)
			parts = append(parts, e+" AS "+name)
			outCols = append(outCols, qcol{name: name, kind: col.kind, nullable: col.nullable})
		}
		na := 1 + g.Intn(3)
		for i := 0; i < na; i++ {
			name := fmt.Sprintf("%s_a%d", id, i)
			switch g.Intn(4) {
			case 0:
				parts = append(parts, "COUNT(*) AS "+name)
				outCols = append(outCols, qcol{name: name, kind: 'i'})
			case 1:
				col := Pick(g, sc)
				parts = append(parts, "COUNT("+col.name+") AS "+name)
				outCols = append(outCols, qcol{name: name, kind: 'i', nullable: true})
			case 2:
				ic := colsOfKind(sc, 'i')
				if len(ic) > 0 {
					col := sc[Pick(g, ic)]
					parts = append(parts, "SUM("+col.name+") AS "+name)
					outCols = append(outCols, qcol{name: name, kind: 'i', nullable: true})
					break
				}
				fallthrough
			default:
				var cand []qcol
				for _, col := range sc {
					if col.kind != 'b' {
						cand = append(cand, col)
					}
				}
				if len(cand) == 0 {
					parts = append(parts, "COUNT(*) AS "+name)
					outCols = append(outCols, qcol{name: name, kind: 'i'})
					break
				}
				col := Pick(g, cand)
				if col.kind == 's' && g.Chance(3, 4) {
					// MIN/MAX of a String resolves to the Int overload behind a type assertion (a C03 matter): rarely
					parts = append(parts, "COUNT("+col.name+") AS "+name)
					outCols = append(outCols, qcol{name: name, kind: 'i', nullable: true})
					break
				}
				parts = append(parts, Pick(g, []string{"MIN", "MAX"})+"("+col.name+") AS "+name)
				outCols = append(outCols, qcol{name: name, kind: col.kind, nullable: true})
			}
		}
		// aggregates and keys interleave freely in the select list
		for i := len(parts) - 1; i > 0; i-- {
			j := g.Intn(i + 1)
			parts[i], parts[j] = parts[j], parts[i]
			outCols[i], outCols[j] = outCols[j], outCols[i]
		}
		projSQL = strings.Join(parts, ", ")
		if len(keys) > 0 {
			groupSQL = " GROUP BY " + strings.Join(keys, ", ")
		}
		ordered = false
	case len(src.sides) == 1 && len(listCols) == 0 && g.Chance(1, 5):
		projSQL = "*"
		for _, col := range cols {
			col.name = col.name[strings.Index(col.name, ".")+1:]
			outCols = append(outCols, col)
		}
	default:
		if len(sc) == 0 {
			projSQL = "1 AS " + id + "_0"
			outCols = []qcol{{name: id + "_0", kind: 'i'}}
			break
		}
		k := 1 + g.Intn(4)
		var parts []string
		for i := 0; i < k; i++ {
			name := fmt.Sprintf("%s_%d", id, i)
			var e qexpr
			switch g.Intn(6) {
			case 0:
				e = genBool(g, sc, 2)
			case 1:
				e = genScalar(g, sc, Pick(g, sc).kind, 2)
			default:
				col := Pick(g, sc)
				e = qexpr{kind: col.kind, nullable: col.nullable, sql: col.name}
			}
			parts = append(parts, e.sql+" AS "+name)
			outCols = append(outCols, qcol{name: name, kind: e.kind, nullable: e.nullable})
		}
		projSQL = strings.Join(parts, ", ")
	}
	dSQL := ""
	if g.Chance(1, 5) {
		dSQL = "DISTINCT "
	}
	ordSQL := ""
	hasOrder := g.Chance(1, 3)
	if hasOrder {
		k := 1 + g.Intn(2)
		var parts []string
		for i := 0; i < k; i++ {
			col := Pick(g, outCols)
			e := col.name
			if col.kind == 'i' && g.Chance(1, 5) {
				e = "(" + col.name + " * " + col.name + ")"
			}
			parts = append(parts, e+Pick(g, []string{" ASC", " DESC", ""}))
		}
		ordSQL = " ORDER BY " + strings.Join(parts, ", ")
	}
	limSQL := ""
	if !c.opts.noLimit && (hasOrder || ordered) && g.Chance(1, 3) {
		limSQL = fmt.Sprintf(" LIMIT %d", Pick(g, []int{0, 1, 1, 2, 2, 3, 4}))
	}
	if hasOrder {
		// OrderSensitiveTransform orders by (keys, values): a function of the input bag
		ordered = true
	}
	sql := "SELECT " + dSQL + projSQL + " FROM " + src.sql + whereSQL + groupSQL + ordSQL + limSQL
	return sql, outCols, ordered
}
