import Octo.Model.SqlJoin
import Octo.Spec.SqlSem
/-!
  Octo.Spec.JoinSem — what SQL says a JOIN query returns (reference semantics of C02), in the most naive
  terms: nested loops over the two inputs.

  * a pair `(a, b)` is in the join iff the ON condition evaluates to TRUE on `a ++ b` (three-valued logic:
    NULL and FALSE both reject; in particular `a.k = b.k` rejects when either key is NULL);
  * LEFT / FULL: every left row for which no right row makes ON true appears once, followed by NULLs;
  * RIGHT / FULL: every right row for which no left row makes ON true appears once, preceded by NULLs;
  * LOOKUP JOIN: an inner join whose right side may refer to the left row (a dependent join);
  * then WHERE keeps the rows on which it is TRUE, and the SELECT list is applied.
  Nothing here mentions keys, trees, schedules, retractions or the optimizer.
-/
namespace Octo.SqlJoin
open Octo Octo.Sql

/-- the predicate evaluates to the Boolean TRUE -/
def isTrue (row : List Value) (e : SExpr) : Bool :=
  match eval row e with
  | some (.bool true) => true
  | _ => false

def nullRow (n : Nat) : List Value := List.replicate n Value.null

def wantsLeft (k : JKind) : Bool := k == .left || k == .full
def wantsRight (k : JKind) : Bool := k == .right || k == .full

/-- pairs on which ON is true -/
def innerPart (on : SExpr) (ctx : List Value) (L R : List (List Value)) : List (List Value) :=
  L.flatMap fun a => (R.filter fun b => isTrue (ctx ++ a ++ b) on).map fun b => a ++ b

/-- left rows without a partner, NULL-padded -/
def leftPart (on : SExpr) (ctx : List Value) (nR : Nat) (L R : List (List Value)) : List (List Value) :=
  (L.filter fun a => !(R.any fun b => isTrue (ctx ++ a ++ b) on)).map fun a => a ++ nullRow nR

/-- right rows without a partner, NULL-padded -/
def rightPart (on : SExpr) (ctx : List Value) (nL : Nat) (L R : List (List Value)) : List (List Value) :=
  (R.filter fun b => !(L.any fun a => isTrue (ctx ++ a ++ b) on)).map fun b => nullRow nL ++ b

/-- the rows of a FROM clause; `ctx` = the rows of enclosing LOOKUP JOIN left sides -/
def fromSem (db : Db) : From → List Value → List (List Value)
  | .tbl i, _ => tableRows db i
  | .sub s w, ctx => (fromSem db s ctx).filter fun r => isTrue (ctx ++ r) w
  | .proj s es, ctx => (fromSem db s ctx).filterMap fun r => evalAll (ctx ++ r) es
  | .join k l r on, ctx =>
    match k with
    | .lookup =>
      (fromSem db l ctx).flatMap fun a =>
        ((fromSem db r (ctx ++ a)).filter fun b => isTrue (ctx ++ a ++ b) on).map fun b => a ++ b
    | _ =>
      let L := fromSem db l ctx
      let R := fromSem db r ctx
      innerPart on ctx L R
        ++ (if wantsLeft k then leftPart on ctx (r.width db) L R else [])
        ++ (if wantsRight k then rightPart on ctx (l.width db) L R else [])

/-- the FROM clause contains a LEFT / RIGHT / FULL OUTER JOIN: evaluated incrementally, such a join has to take back
    a NULL-padded row when a partner shows up later, so its result (and everything computed from it) is a changelog
    with retractions, whatever the order in which the inputs are read -/
def From.mayRetract : From → Bool
  | .tbl _ => false
  | .sub s _ => s.mayRetract
  | .proj s _ => s.mayRetract
  | .join k l r _ => wantsLeft k || wantsRight k || l.mayRetract || r.mayRetract

/-- the joins of a FROM clause in pre-order, each with "its result can contain retractions" -/
def From.joins : From → List (JKind × Bool)
  | .tbl _ => []
  | .sub s _ => s.joins
  | .proj s _ => s.joins
  | .join k l r on => (k, (From.join k l r on).mayRetract) :: (l.joins ++ r.joins)

/-- the SQL result of a join query (as a bag: the order of a join's result is unspecified) -/
def joinSem (q : JQuery) (db : Db) : List (List Value) :=
  specMap q.proj (specFilter q.whr (fromSem db q.frm []))

end Octo.SqlJoin
