import Octo.Model.Logic
import Octo.Gen.Strict
/-!
  Octo.Spec.Kleene — the reference semantics of property C11: Kleene's three-valued logic over TRUE / FALSE / NULL,
  the typed boolean fragment of `physical.Expression` it is stated about, and the spec notion "value conforms to type".
  Nothing here looks at `nullCheckIndices`, `nullEncountered` or the evaluation loops.
-/
namespace Octo.Logic
open Octo

/-- a truth value: `none` = NULL -/
abbrev Tri := Option Bool

def Tri.toValue : Tri → Value
  | none => .null
  | some b => .bool b

/-- the truth value a column holds (anything that is not a Boolean reads as NULL; used only on boolean columns) -/
def triOf : Value → Tri
  | .bool b => some b
  | _ => none

/-- Kleene conjunction -/
def and3 : Tri → Tri → Tri
  | some false, _ => some false
  | _, some false => some false
  | some true, some true => some true
  | _, _ => none
/-- Kleene disjunction -/
def or3 : Tri → Tri → Tri
  | some true, _ => some true
  | _, some true => some true
  | some false, some false => some false
  | _, _ => none
/-- Kleene negation -/
def not3 : Tri → Tri
  | none => none
  | some b => some (!b)

/-- n-ary AND / OR: the fold of the binary tables -/
def kAnd (ts : List Tri) : Tri := ts.foldr and3 (some true)
def kOr (ts : List Tri) : Tri := ts.foldr or3 (some false)

/-! ### "value conforms to static type" (spec notion, independent of `Type.Is`) -/
mutual
def conforms : Ty → Value → Bool
  | .any, _ => true
  | .null, .null => true
  | .int, .int _ => true
  | .float, .float _ => true
  | .bool, .bool _ => true
  | .str, .str _ => true
  | .time, .time _ _ => true
  | .dur, .dur _ => true
  | .listNil, .list xs => xs.isEmpty
  | .list e, .list xs => xs.all (conforms e)
  | .struct _ ts, .struct xs => conformsZip ts xs
  | .tuple ts, .tuple xs => conformsZip ts xs
  | .union alts, v => conformsAny alts v
  | _, _ => false
def conformsZip : List Ty → List Value → Bool
  | [], [] => true
  | t :: ts, x :: xs => conforms t x && conformsZip ts xs
  | _, _ => false
def conformsAny : List Ty → Value → Bool
  | [], _ => false
  | t :: ts, v => conforms t v || conformsAny ts v
end

/-! ### Descriptors, with the `Strict` flag read from the table generated from functions/functions.go -/

def nameBytes (s : String) : List Nat := s.toUTF8.toList.map (·.toNat)

def nmNot : List Nat := [110, 111, 116]
def nmIsNull : List Nat := [105, 115, 32, 110, 117, 108, 108]
def nmIsNotNull : List Nat := [105, 115, 32, 110, 111, 116, 32, 110, 117, 108, 108]
def nmPanic : List Nat := [112, 97, 110, 105, 99]
def nmString : List Nat := [115, 116, 114, 105, 110, 103]
def nmLt : List Nat := [60]
def nmLe : List Nat := [60, 61]
def nmEq : List Nat := [61]
def nmNe : List Nat := [33, 61]
def nmGe : List Nat := [62, 61]
def nmGt : List Nat := [62]

/-- the `Strict` flag of `FunctionMap()[name].Descriptors[idx]` as extracted from the source; `none` = no such descriptor -/
def strictOf (name : List Nat) (idx : Nat) : Option Bool :=
  (Octo.Gen.Strict.table.find? fun e => e.name == name && e.idx == idx).map (·.strict)

/-- the descriptor `FunctionMap()[name].Descriptors[idx]` with the given body model; a missing descriptor is
    treated as non-strict (the Go driver fails on it anyway) -/
def tableDesc (name : List Nat) (idx : Nat) (fn : List Value → Res) : Desc :=
  { strict := (strictOf name idx).getD false, fn := fn }

/-! ### The typed boolean fragment of `physical.Expression` -/

inductive TTree where
  | const (ty : Ty) (t : Tri)
  | var (ty : Ty) (name : Nat)
  | fail (ty : Ty) (tag : List UInt8)      -- `panic('<tag>')`
  | and (ty : Ty) (args : List TTree)
  | or (ty : Ty) (args : List TTree)
  | not (ty : Ty) (a : TTree)
  | isNull (ty : Ty) (a : TTree)
  | isNotNull (ty : Ty) (a : TTree)
  deriving Inhabited

def TTree.ty : TTree → Ty
  | .const t _ => t | .var t _ => t | .fail t _ => t | .and t _ => t | .or t _ => t
  | .not t _ => t | .isNull t _ => t | .isNotNull t _ => t

mutual
/-- the `physical.Expression` a tree stands for -/
def TTree.toP : TTree → PExpr
  | .const ty t => .const ty t.toValue
  | .var ty n => .var ty n
  | .fail ty tag => .call ty (tableDesc nmPanic 0 fnPanic) [.const .str (.str tag)]
  | .and ty args => .and ty (TTree.toPList args)
  | .or ty args => .or ty (TTree.toPList args)
  | .not ty a => .call ty (tableDesc nmNot 0 fnNot) [a.toP]
  | .isNull ty a => .call ty (tableDesc nmIsNull 0 fnIsNull) [a.toP]
  | .isNotNull ty a => .call ty (tableDesc nmIsNotNull 0 fnIsNotNull) [a.toP]
def TTree.toPList : List TTree → List PExpr
  | [] => []
  | a :: rest => a.toP :: TTree.toPList rest
end

/-- the result a query author expects: a truth value, or the error that evaluation order reaches first -/
abbrev Sem := Except Err Tri

mutual
/-- **Reference semantics.** Kleene logic, arguments considered left to right; an error is the result only if no
    earlier argument already decided the junction (FALSE for AND, TRUE for OR). -/
def TTree.den (ρ : Nat → Tri) : TTree → Sem
  | .const _ t => .ok t
  | .var _ n => .ok (ρ n)
  | .fail _ tag => .error { path := [.fnBody], tag := tag }
  | .and _ args => TTree.denAnd ρ 0 args
  | .or _ args => TTree.denOr ρ 0 args
  | .not _ a =>
    match a.den ρ with
    | .ok t => .ok (not3 t)
    | .error e => .error (e.wrap (.fnArg 0))
  | .isNull _ a =>
    match a.den ρ with
    | .ok t => .ok (some t.isNone)
    | .error e => .error (e.wrap (.fnArg 0))
  | .isNotNull _ a =>
    match a.den ρ with
    | .ok t => .ok (some t.isSome)
    | .error e => .error (e.wrap (.fnArg 0))
def TTree.denAnd (ρ : Nat → Tri) (i : Nat) : List TTree → Sem
  | [] => .ok (some true)
  | a :: rest =>
    match a.den ρ with
    | .error e => .error (e.wrap (.andArg i))
    | .ok (some false) => .ok (some false)
    | .ok t =>
      match TTree.denAnd ρ (i + 1) rest with
      | .ok r => .ok (and3 t r)
      | .error e => .error e
def TTree.denOr (ρ : Nat → Tri) (i : Nat) : List TTree → Sem
  | [] => .ok (some false)
  | a :: rest =>
    match a.den ρ with
    | .error e => .error (e.wrap (.orArg i))
    | .ok (some true) => .ok (some true)
    | .ok t =>
      match TTree.denOr ρ (i + 1) rest with
      | .ok r => .ok (or3 t r)
      | .error e => .error e
end

mutual
/-- pure Kleene semantics of an error-free tree (no evaluation order at all) -/
def TTree.kleene (ρ : Nat → Tri) : TTree → Tri
  | .const _ t => t
  | .var _ n => ρ n
  | .fail _ _ => none
  | .and _ args => TTree.kleeneAnd ρ args
  | .or _ args => TTree.kleeneOr ρ args
  | .not _ a => not3 (a.kleene ρ)
  | .isNull _ a => some (a.kleene ρ).isNone
  | .isNotNull _ a => some (a.kleene ρ).isSome
def TTree.kleeneAnd (ρ : Nat → Tri) : List TTree → Tri
  | [] => some true
  | a :: rest => and3 (a.kleene ρ) (TTree.kleeneAnd ρ rest)
def TTree.kleeneOr (ρ : Nat → Tri) : List TTree → Tri
  | [] => some false
  | a :: rest => or3 (a.kleene ρ) (TTree.kleeneOr ρ rest)
end

mutual
/-- no `panic(...)` leaf -/
def TTree.errorFree : TTree → Bool
  | .fail _ _ => false
  | .const _ _ => true
  | .var _ _ => true
  | .and _ args => TTree.errorFreeList args
  | .or _ args => TTree.errorFreeList args
  | .not _ a => a.errorFree
  | .isNull _ a => a.errorFree
  | .isNotNull _ a => a.errorFree
def TTree.errorFreeList : List TTree → Bool
  | [] => true
  | a :: rest => a.errorFree && TTree.errorFreeList rest
end

/-- some argument's static type admits NULL -/
def anyNullable : List TTree → Bool
  | [] => false
  | a :: rest => nullIs a.ty || anyNullable rest

mutual
/-- **Sound static types** (what the typechecker's rules guarantee): a node's type admits NULL whenever one of the
    things it is computed from can be NULL.  Constants and variables: relative to the actual value. -/
def TTree.ok (ρ : Nat → Tri) : TTree → Bool
  | .const ty t => t.isSome || nullIs ty
  | .var ty n => (ρ n).isSome || nullIs ty
  | .fail _ _ => true
  | .and ty args => TTree.okList ρ args && (!anyNullable args || nullIs ty)
  | .or ty args => TTree.okList ρ args && (!anyNullable args || nullIs ty)
  | .not ty a => a.ok ρ && (!nullIs a.ty || nullIs ty)
  | .isNull _ a => a.ok ρ
  | .isNotNull _ a => a.ok ρ
def TTree.okList (ρ : Nat → Tri) : List TTree → Bool
  | [] => true
  | a :: rest => a.ok ρ && TTree.okList ρ rest
end

mutual
/-- every variable of the tree is a field of the (single-frame) schema -/
def TTree.bound (names : List Nat) : TTree → Bool
  | .var _ n => (findField n 0 names).isSome
  | .const _ _ => true
  | .fail _ _ => true
  | .and _ args => TTree.boundList names args
  | .or _ args => TTree.boundList names args
  | .not _ a => a.bound names
  | .isNull _ a => a.bound names
  | .isNotNull _ a => a.bound names
def TTree.boundList (names : List Nat) : List TTree → Bool
  | [] => true
  | a :: rest => a.bound names && TTree.boundList names rest
end

/-- the assignment a record induces: variable `n` is the column at the position of field `n` -/
def envOf (names : List Nat) (tris : List Tri) : Nat → Tri := fun n =>
  match findField n 0 names with
  | some i => (tris[i]?).getD none
  | none => none

/-- the implementation-side outcome that corresponds to a reference result -/
def Sem.toRes : Sem → Res
  | .ok t => .val t.toValue
  | .error e => .err e

end Octo.Logic
