import Octo.Model.SqlGroup
import Octo.Spec.Aggregates
import Octo.Spec.SqlSem
/-!
  Octo.Spec.GroupSem — what the property says a GROUP BY returns, in the most naive terms:

  * the groups are the classes of key tuples under the engine's equality (`Compare == 0` pointwise; NULL is
    an ordinary key value, so there is a NULL group), one output row per class;
  * each aggregate is computed *from scratch* (`Octo.Agg.specFull`: list length, sum, truncating
    division, least / greatest element, insertion sort, the support for DISTINCT) over the multiset of the
    group's non-NULL inputs; it is NULL when that multiset is empty (also for COUNT — the property's
    wording, not ANSI's).

  Executable: `Octo.Drv.C03.judge` evaluates it on the implementation's output.
-/
namespace Octo.Grp
open Octo Octo.Sql

/-- the key tuple of a row -/
def keyOfRow (keys : List SExpr) (r : Row) : Row := (evalAll r keys).getD []

/-- one representative per class of key tuples, in order of first occurrence -/
def keyClasses : List Row → List Row
  | [] => []
  | k :: ks => k :: (keyClasses ks).filter fun k' => !rowEq k' k

/-- the rows of the group of key `k` -/
def groupRows (keys : List SExpr) (k : Row) (rows : List Row) : List Row :=
  rows.filter fun r => rowEq (keyOfRow keys r) k

/-- the multiset an aggregate ranges over: the non-NULL values of its argument on the group's rows -/
def aggInputs (p : PAgg) (rows : List Row) : List Value :=
  (rows.filterMap fun r => evalArg r p).filter fun v => !isNullV v

/-- the aggregate of a multiset: from scratch, NULL for the empty multiset -/
def aggValue (p : PAgg) (M : List Value) : Value :=
  if M.isEmpty then .null else Agg.specFull p.kind p.distinct M

def groupRow (keys : List SExpr) (aggs : List PAgg) (rows : List Row) (k : Row) : Row :=
  k ++ aggs.map fun p => aggValue p (aggInputs p (groupRows keys k rows))

/-- **GROUP BY**: one row per class of key tuples: the key, then the aggregates of the group -/
def groupSem (keys : List SExpr) (aggs : List PAgg) (rows : List Row) : List Row :=
  (keyClasses (rows.map (keyOfRow keys))).map (groupRow keys aggs rows)

/-- key and aggregate expressions evaluate on every row -/
def evalsOk (keys : List SExpr) (aggs : List PAgg) (rows : List Row) : Bool :=
  rows.all fun r => (evalAll r keys).isSome && (evalArgs r aggs).isSome

/-- two row lists agree row by row up to the engine's equality -/
def RowsEqv : List Row → List Row → Prop
  | [], [] => True
  | a :: as, b :: bs => rowEq a b = true ∧ RowsEqv as bs
  | _, _ => False

def rowsEqvB : List Row → List Row → Bool
  | [], [] => true
  | a :: as, b :: bs => rowEq a b && rowsEqvB as bs
  | _, _ => false

/-- the result of a grouping query may be `out`: FROM is an allowed result of the source query (C01's
    `QueryResult`), WHERE keeps the TRUE rows, GROUP BY is `groupSem` (up to the engine's equality of rows),
    then select list / DISTINCT / ORDER BY / LIMIT as for every block (`BlockResult`) -/
def GQueryResult (tys : List Ty) : GQuery → List Row → List Row → Prop
  | .group src g, t, out =>
    ∃ cols aggs r0 grouped, queryTys tys src = some cols ∧ typecheckAggs cols g.aggs = some aggs ∧
      QueryResult src t r0 ∧ RowsEqv grouped (groupSem g.keys aggs (specFilter g.whr r0)) ∧
      BlockResult g.post grouped out
  | .sel src b, t, out => ∃ mid, GQueryResult tys src t mid ∧ BlockResult b mid out

end Octo.Grp
