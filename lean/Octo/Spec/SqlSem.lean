import Octo.Model.Sql
/-!
  Octo.Spec.SqlSem — what SQL says a single-source SELECT returns (the reference semantics for
  C01 / C05), stated as a relation between the input table and an output row list, in the most
  naive terms: filter, map, "one representative per class of equal rows", "a key-sorted
  rearrangement", "its first n rows".

  Rows are compared with the engine's own notion of equality (`rowEq`, pointwise `Compare = 0`):
  that is OctoSQL's documented convention (C09), e.g. `0.0` and `-0.0` are one value.
-/
namespace Octo.Sql
open Octo

/-- multiplicity of (the class of) `r` in `l` -/
def countRow (r : Row) : List Row → Nat
  | [] => 0
  | x :: xs => (if rowEq r x then 1 else 0) + countRow r xs

/-- equal as multisets of rows -/
def SameBag (a b : List Row) : Prop := ∀ r, countRow r a = countRow r b

/-- `d` holds exactly one representative of every class of rows occurring in `l` -/
def IsDistinctOf (d l : List Row) : Prop := ∀ r, countRow r d = if countRow r l > 0 then 1 else 0

def mults (order : List (SExpr × Bool)) : List Int := order.map fun k => if k.2 then (-1 : Int) else 1
def keyExprs (order : List (SExpr × Bool)) : List SExpr := order.map (·.1)

/-- `a` does not sort after `b` under the ORDER BY clause (keys that fail to evaluate are not ordered) -/
def KeyLE (order : List (SExpr × Bool)) (a b : Row) : Prop :=
  ∀ ka kb, evalAll a (keyExprs order) = some ka → evalAll b (keyExprs order) = some kb →
    keyCmp (mults order) ka kb ≤ 0

/-- every earlier row sorts no later than every later row -/
def SortedBy (order : List (SExpr × Bool)) : List Row → Prop
  | [] => True
  | r :: rs => (∀ x ∈ rs, KeyLE order r x) ∧ SortedBy order rs

/-- WHERE keeps the rows whose predicate is TRUE; the SELECT list is applied to each of them -/
def specFilter (p : Option SExpr) (rows : List Row) : List Row :=
  match p with
  | none => rows
  | some p => rows.filter fun r => match eval r p with | some (.bool true) => true | _ => false

def specMap (es : Option (List SExpr)) (rows : List Row) : List Row :=
  match es with
  | none => rows
  | some es => rows.filterMap fun r => evalAll r es

/-- LIMIT: the first n rows -/
def applyLimit (l : Option Nat) (full : List Row) : List Row :=
  match l with
  | some n => full.take n
  | none => full

/-- the result of one SELECT block over input `inp` may be `out` -/
def BlockResult (b : Block) (inp out : List Row) : Prop :=
  ∃ core full,
    (if b.distinct then IsDistinctOf core (specMap b.proj (specFilter b.whr inp))
     else core = specMap b.proj (specFilter b.whr inp)) ∧
    SameBag full core ∧ SortedBy b.order full ∧
    out = applyLimit b.limit full

/-- the result of a (possibly nested) query over table `t` may be `out` -/
def QueryResult : Query → List Row → List Row → Prop
  | .table, t, out => out = t
  | .sel src b, t, out => ∃ mid, QueryResult src t mid ∧ BlockResult b mid out

/-! ### executable oracle (used by `octodrv judge` on the implementation's output) -/

def subBagB (out full : List Row) : Bool :=
  out.all fun r => decide (countRow r out ≤ countRow r full)

def sameBagB (a b : List Row) : Bool :=
  a.length == b.length && a.all (fun r => countRow r a == countRow r b)

def keyOf (order : List (SExpr × Bool)) (r : Row) : List Value := (evalAll r (keyExprs order)).getD []

/-- canonical member of the allowed results: sort by (keys, then values) — insertion sort -/
def insertCanon (order : List (SExpr × Bool)) (r : Row) : List Row → List Row
  | [] => [r]
  | x :: xs =>
    let c := itemCmp (mults order) ⟨keyOf order r, r, 1⟩ ⟨keyOf order x, x, 1⟩
    if c ≤ 0 then r :: x :: xs else x :: insertCanon order r xs

def sortCanon (order : List (SExpr × Bool)) (rows : List Row) : List Row :=
  rows.foldr (insertCanon order) []

def sortedByB (order : List (SExpr × Bool)) : List Row → Bool
  | [] => true
  | [_] => true
  | a :: b :: rest => decide (keyCmp (mults order) (keyOf order a) (keyOf order b) ≤ 0) && sortedByB order (b :: rest)

/-- is `out` an allowed result of ORDER BY/LIMIT over the bag `core`? (sorted, a sub-bag, right length,
    and key-for-key the head of the canonical sort) -/
def checkOrderLimit (b : Block) (core out : List Row) : Bool :=
  let full := sortCanon b.order core
  let n := match b.limit with | some n => min n full.length | none => full.length
  out.length == n && sortedByB b.order out && subBagB out full &&
    (List.zip out full).all (fun p => keyCmp (mults b.order) (keyOf b.order p.1) (keyOf b.order p.2) == 0)

/-- deterministic evaluation of the block's core with errors surfaced -/
def specCore (b : Block) (inp : List Row) : Option (List Row) := blockCore b inp

/-- is the cut of an inner ORDER BY/LIMIT ambiguous? The rows tied with the last included row on the ORDER BY key
    straddle the cut and are not all the same row: which of them are kept is then up to the implementation. -/
def cutAmbiguous (b : Block) (core : List Row) : Bool :=
  match b.limit with
  | none => false
  | some n =>
    let full := sortCanon b.order core
    match full[n - 1]?, full[n]? with
    | some x, some y =>
      let sameKey (r : Row) : Bool := keyCmp (mults b.order) (keyOf b.order x) (keyOf b.order r) == 0
      let tie := full.filter sameKey
      n > 0 && sameKey y && !(tie.all fun r => rowEq x r)
    | _, _ => false

end Octo.Sql
