import Octo.Model.OutputFormat
import Octo.Spec.JsonCsv
import Octo.Spec.TimeText
/-!
  Octo.Spec.OutputSpec — what C25 demands of one output line, stated on the *decoded* document:

  * `fits τ v`         — the value is one the static type describes (the hypothesis of the property:
                          rows of a query result have the types of the schema);
  * `matchesV τ v j`   — the JSON document `j` *is* the value `v`: NULL ↦ null, ints and floats exact
                          (the number literal denotes exactly the int / rounds to exactly the float),
                          strings byte for byte, a time is an RFC 3339 text of exactly that instant, a duration
                          a text denoting exactly that many nanoseconds, lists / objects / tuples keep their
                          structure and the objects carry the field names of the type;
  * `csvCellOk`        — a CSV field is the text of a scalar, NULL is the empty field.
-/
namespace Octo.Spec
open Octo Octo.OutFmt

mutual
/-- `v` is a value of type `τ` as far as the formatter can tell (scalars are not inspected) -/
def fits (τ : Ty) (v : Value) : Bool :=
  match pick τ v.rank with
  | none => false
  | some t =>
    match v with
    | .list xs =>
      match elemTy t with
      | some e => fitsAll e xs
      | none => xs.isEmpty
    | .struct xs => decide ((fieldNames t).length = (fieldTys t).length) && fitsEach (fieldTys t) xs
    | .tuple xs => fitsEach (tupleTys t) xs
    | _ => true
def fitsAll (e : Ty) : List Value → Bool
  | [] => true
  | x :: xs => fits e x && fitsAll e xs
def fitsEach : List Ty → List Value → Bool
  | [], [] => true
  | t :: ts, x :: xs => fits t x && fitsEach ts xs
  | _, _ => false
end

/-- a row fits a schema: one value per field, each fitting -/
def rowFits (names : List Name) (tys : List Ty) (vals : List Value) : Bool :=
  decide (names.length = tys.length) && fitsEach tys vals

def nonFiniteText (bits : Nat) : Bytes :=
  if bits % 2^63 > 0x7FF0000000000000 then [78, 97, 78]          -- NaN
  else if bits < 2^63 then [43, 73, 110, 102] else [45, 73, 110, 102]   -- +Inf / -Inf

mutual
/-- the decoded JSON document `j` is the value `v` of type `τ` -/
def matchesV (τ : Ty) (v : Value) (j : JVal) : Bool :=
  match pick τ v.rank with
  | none => false
  | some t =>
    match v, j with
    | .null, .null => true
    | .int i, .num lit => Num.denotesInt lit i
    | .float b, .num lit => finite b && Num.litToF64 lit == b
    | .float b, .null => !finite b            -- JSON has no NaN / Infinity
    | .bool a, .bool b => a == b
    | .str s, .str t => strBytes s == t
    | .time ns _, .str t => TimeText.parseRfc3339 t == some ns
    | .dur ns, .str t => TimeText.parseDuration t == some ns
    | .list xs, .arr js =>
      match elemTy t with
      | some e => matchesAll e xs js
      | none => xs.isEmpty && js.isEmpty
    | .struct xs, .obj ks js => ks == (fieldNames t).map nameBytes && matchesEach (fieldTys t) xs js
    | .tuple xs, .arr js => matchesEach (tupleTys t) xs js
    | _, _ => false
def matchesAll (e : Ty) : List Value → List JVal → Bool
  | [], [] => true
  | x :: xs, j :: js => matchesV e x j && matchesAll e xs js
  | _, _ => false
def matchesEach : List Ty → List Value → List JVal → Bool
  | _, [], [] => true
  | t :: ts, x :: xs, j :: js => matchesV t x j && matchesEach ts xs js
  | _, _, _ => false
end

/-- a decoded `-o json` line is the row -/
def rowMatches (names : List Name) (tys : List Ty) (vals : List Value) (j : JVal) : Bool :=
  match j with
  | .obj ks js => ks == names.map nameBytes && matchesEach tys vals js
  | _ => false

/-- a CSV field is the text of the scalar `v` (NULL ↦ empty; nothing is demanded of non-scalars) -/
def csvCellOk (v : Value) (field : Bytes) : Bool :=
  match v with
  | .null => field.isEmpty
  | .int i => Num.intLit field == some i
  | .float b =>
    if finite b then Json.validNumber field && Num.litToF64 field == b else field == nonFiniteText b
  | .bool b => field == (if b then trueLit else falseLit)
  | .str s => field == strBytes s
  | .time ns _ => TimeText.parseRfc3339 field == some ns
  | .dur ns => TimeText.parseDuration field == some ns
  | _ => true

def csvRowOk : List Value → List Bytes → Bool
  | [], [] => true
  | v :: vs, f :: fs => csvCellOk v f && csvRowOk vs fs
  | _, _ => false

/-- every record of a decoded `-o csv` output is its row -/
def csvRowsOk : List (List Value) → List (List Bytes) → Bool
  | [], [] => true
  | r :: rs, c :: cs => csvRowOk r c && csvRowsOk rs cs
  | _, _ => false

/-! every string of the row (and the library's texts) is well-formed UTF-8 -/
mutual
def utf8Value (L : Lib) : Value → Bool
  | .str s => Utf8.valid (strBytes s)
  | .float b => Utf8.valid (L.fmtFloatG b)
  | .time ns loc => Utf8.valid (L.fmtTime ns loc)
  | .dur ns => Utf8.valid (L.fmtDur ns)
  | .list xs => utf8Values L xs
  | .struct xs => utf8Values L xs
  | .tuple xs => utf8Values L xs
  | _ => true
def utf8Values (L : Lib) : List Value → Bool
  | [] => true
  | x :: xs => utf8Value L x && utf8Values L xs
end

mutual
def utf8Ty : Ty → Bool
  | .list e => utf8Ty e
  | .struct ns ts => ns.all (fun n => Utf8.valid (nameBytes n)) && utf8Tys ts
  | .tuple ts => utf8Tys ts
  | .union ts => utf8Tys ts
  | _ => true
def utf8Tys : List Ty → Bool
  | [] => true
  | t :: ts => utf8Ty t && utf8Tys ts
end

end Octo.Spec
