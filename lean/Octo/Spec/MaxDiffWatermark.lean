import Octo.Model.Changelog
/-!
  Octo.Spec.MaxDiffWatermark — what property C20 says, in the most naive form, independent of the
  implementation model: nothing here is incremental, every quantity is recomputed from the list of
  times seen so far.
-/
namespace Octo.MaxDiffSpec
open Octo

/-- `t` rounded down (toward −∞) to a multiple of `res`  (Lean's `Int./` is floor division for `res > 0`) -/
def floorTo (res t : Int) : Int := res * (t / res)

/-- the largest element of a list, `none` for the empty list -/
def maxOf : List Int → Option Int
  | [] => none
  | t :: ts => match maxOf ts with
    | none => some t
    | some m => some (if t < m then m else t)

/-- the watermark that property C20 prescribes after the times `seen`:
    (largest time seen, rounded down to the resolution) minus max_diff; none before the first record -/
def wmAfter (res md : Int) (seen : List Int) : Option Int :=
  (maxOf seen).map fun m => floorTo res m - md

/-- a record with time `t` is dropped iff `t` is at or below the current watermark -/
def dropped (W : Option Int) (t : Int) : Bool :=
  match W with
  | none => false
  | some w => decide (t ≤ w)

/-- the watermark value moved up (or is the first one) -/
def increased (W W' : Option Int) : Bool :=
  match W, W' with
  | _, none => false
  | none, some _ => true
  | some w, some w' => decide (w < w')

/-- the watermark message to emit when the prescribed watermark went from `W` to `W'`: `W'` iff it increased -/
def wmMsg (W W' : Option Int) : List Msg :=
  match W' with
  | some w' => if increased W W' then [.wm w'] else []
  | none => []

/-- the time field of a record, when it holds a Time -/
def timeOf (idx : Nat) (r : Rec) : Option Int :=
  match r.vals[idx]? with
  | some (.time ns _) => some ns
  | _ => none

/-- the prescribed output, given the times `seen` before this point of the input:
    upstream watermarks vanish; a record is forwarded (values and retraction flag unchanged, event time :=
    its time field) unless it is dropped; then the new watermark is emitted iff it increased. -/
def specFrom (res md : Int) (idx : Nat) : List Int → List Msg → List Msg
  | _, [] => []
  | seen, .wm _ :: ms => specFrom res md idx seen ms
  | seen, .data r :: ms =>
    match timeOf idx r with
    | none => []      -- ill-typed input: outside the property
    | some t =>
      let W := wmAfter res md seen
      let W' := wmAfter res md (seen ++ [t])
      (if dropped W t then [] else [.data { r with et := some t }])
        ++ wmMsg W W'
        ++ specFrom res md idx (seen ++ [t]) ms

def spec (res md : Int) (idx : Nat) (inp : List Msg) : List Msg := specFrom res md idx [] inp

/-- the time-field values of the records of a stream, in order -/
def times (idx : Nat) (ms : List Msg) : List Int := (recs ms).filterMap (timeOf idx)

/-- `ws` is strictly increasing and, when there is a previous value `d`, starts above it -/
def StrictIncrFrom : Option Int → List Int → Prop
  | _, [] => True
  | d, w :: ws => (match d with | none => True | some v => v < w) ∧ StrictIncrFrom (some w) ws

def StrictIncr (ws : List Int) : Prop := StrictIncrFrom none ws

/-- the last element of `ws`, or `d` when there is none: the *current* watermark after emitting `ws` -/
def lastWm : Option Int → List Int → Option Int
  | d, [] => d
  | _, w :: ws => lastWm (some w) ws

/-- a record as it must be forwarded: event time := its time field, nothing else touched -/
def stamped (idx : Nat) (r : Rec) : Rec := { r with et := timeOf idx r }

/-- the input is in the domain of the property: every record has a Time in the time field, within the
    Int64-nanosecond range (outside it Go's `UnixNano` is undefined) -/
def inDomainB (idx : Nat) (inp : List Msg) : Bool :=
  (recs inp).all fun r => match timeOf idx r with
    | some t => decide (-(2:Int)^63 ≤ t ∧ t < (2:Int)^63)
    | none => false

end Octo.MaxDiffSpec
