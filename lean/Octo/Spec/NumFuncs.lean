import Octo.Model.Coalesce
/-!
  Octo.Spec.NumFuncs — what property C13 says the functions compute, in the most naive form:
  mathematical integers with one explicit `wrap64`, `List.any`, "first non-NULL", decimal grammar.
  Nothing here follows the Go text; the theorems of `Octo.Props.C13` prove the models of
  `Octo.Model.NumFuncs` / `Octo.Model.Coalesce` equal to these, and `Octo.Drv.C13.judge` evaluates
  them on what the implementation printed.
-/
namespace Octo.Spec13
open Octo Octo.Num

/-- what the specification demands of one call -/
inductive Expect where
  /-- exactly this value -/
  | exact (v : Value)
  /-- the call must be refused with an error (not a panic) -/
  | error
  /-- some value of this TypeID (runtime / library arithmetic outside the model) -/
  | someOf (tid : Nat)
  /-- the specification does not cover this call -/
  | unspecified
  deriving Repr, Inhabited

/-! ### decimal integers -/
def isDigit (c : UInt8) : Bool := 48 ≤ c.toNat && c.toNat ≤ 57
/-- value of a digit string, most significant first -/
def digitsVal (s : List UInt8) : Nat := s.foldl (fun acc c => acc * 10 + (c.toNat - 48)) 0

/-- split an optional sign off: (negative?, rest) -/
def signBody : List UInt8 → Bool × List UInt8
  | [] => (false, [])
  | c :: r => if c = 45 then (true, r) else if c = 43 then (false, r) else (false, c :: r)

/-- `[+-]?[0-9]+` denoting an integer in the Int64 range, else nothing -/
def parseIntSpec (s : List UInt8) : Option Int :=
  let neg := (signBody s).1
  let body := (signBody s).2
  if body.isEmpty ∨ body.all isDigit = false then none
  else
    let v : Int := if neg then -(digitsVal body : Int) else (digitsVal body : Int)
    if minI64 ≤ v ∧ v ≤ maxI64 then some v else none

/-! ### layout fixing, directed by the value and the two types -/
def firstIndexOf (names : List Name) (n : Name) : Option Nat :=
  let rec go (i : Nat) : List Name → Option Nat
    | [] => none
    | m :: ms => if m == n then some i else go (i + 1) ms
  go 0 names

/-- the alternative of a (possibly union) type that a value of TypeID `tid` belongs to -/
def altFor (tid : Nat) : Ty → Ty
  | .union alts => (Coal.findAlt tid alts).getD .null
  | t => t

/-- one field of the target object type, by NAME, from the source object (NULL when the source lacks it) -/
def relayoutField (rec : Ty → Ty → Value → Value) (sn : List Name) (st : List Ty) (xs : List Value) (nt : Name × Ty) : Value :=
  match firstIndexOf sn nt.1 with
  | some j => (match xs[j]?, st[j]? with
    | some x, some sj => rec nt.2 sj x
    | _, _ => .null)
  | none => .null

/-- object: every field of the target type -/
def relayoutStruct (rec : Ty → Ty → Value → Value) (tn : List Name) (tt : List Ty) (sn : List Name) (st : List Ty)
    (xs : List Value) : Value :=
  .struct ((tn.zip tt).map (relayoutField rec sn st xs))

/-- tuple: position by position over the target element types, NULL where the source tuple has ended -/
def relayoutElems (rec : Ty → Ty → Value → Value) : List Ty → List Ty → List Value → List Value
  | [], _, _ => []
  | t :: ts, s :: ss, x :: xs => rec t s x :: relayoutElems rec ts ss xs
  | _ :: ts, ss, xs => .null :: relayoutElems rec ts ss.tail xs.tail

def relayoutTuple (rec : Ty → Ty → Value → Value) (te se : List Ty) (xs : List Value) : Value :=
  .tuple (relayoutElems rec te se xs)

/-- a value of type `source`, re-laid-out for type `target`: object fields go to the position their NAME has in the
    target (fields the source lacks are NULL), recursively through lists, tuples (padded with NULL) and unions. -/
def relayout : Nat → Ty → Ty → Value → Value
  | 0, _, _, v => v
  | fuel + 1, target, source, v =>
    match v, altFor v.rank target, altFor v.rank source with
    | .struct xs, .struct tn tt, .struct sn st => relayoutStruct (relayout fuel) tn tt sn st xs
    | .list xs, .list te, .list se => .list (xs.map fun x => relayout fuel te se x)
    | .tuple xs, .tuple te, .tuple se => relayoutTuple (relayout fuel) te se xs
    | _, _, _ => v

/-- COALESCE: the first non-NULL argument, re-laid-out for the result type; NULL when there is none -/
def coalesceSpec (target : Ty) : List (Ty × Value) → Value
  | [] => .null
  | (_, .null) :: rest => coalesceSpec target rest
  | (s, v) :: _ => relayout (Value.size v + 1) target s v

/-! ### the functions -/
def repeatSpec (s : List UInt8) (n : Int) : Expect :=
  if n < 0 ∨ (s.length : Int) * n > maxRepeatedStringLength then .error
  else if s.isEmpty then .exact (.str [])
  else .exact (.str (List.replicate n.toNat s).flatten)

def specAdd : Nat → List Value → Expect
  | 0, [.int a, .int b] => .exact (.int (wrap64 (a + b)))
  | 2, [.dur a, .dur b] => .exact (.dur (wrap64 (a + b)))
  | 3, [.time t l, .dur d] => if InI64 (timeExt (t + d)) then .exact (.time (t + d) l) else .someOf tTime
  | 4, [.dur d, .time t l] => if InI64 (timeExt (t + d)) then .exact (.time (t + d) l) else .someOf tTime
  | 5, [.str a, .str b] => .exact (.str (a ++ b))
  | _, _ => .unspecified

def specSub : Nat → List Value → Expect
  | 0, [.int a, .int b] => .exact (.int (wrap64 (a - b)))
  | 1, [.int a] => .exact (.int (wrap64 (-a)))
  | 3, [.float a] => .exact (.float (floatNeg a))
  | 4, [.dur a, .dur b] => .exact (.dur (wrap64 (a - b)))
  | 5, [.dur a] => .exact (.dur (wrap64 (-a)))
  | 6, [.time t l, .dur d] =>
    if d ≠ minI64 ∧ InI64 (timeExt (t - d)) then .exact (.time (t - d) l) else .someOf tTime
  | _, _ => .unspecified

def specMul : Nat → List Value → Expect
  | 0, [.int a, .int b] => .exact (.int (wrap64 (a * b)))
  | 2, [.dur a, .int b] => .exact (.dur (wrap64 (a * b)))
  | 3, [.int a, .dur b] => .exact (.dur (wrap64 (a * b)))
  | 4, [.str s, .int n] => repeatSpec s n
  | 5, [.int n, .str s] => repeatSpec s n
  | _, _ => .unspecified

/-- `/` truncates toward zero; a zero divisor is an error -/
def specDiv : Nat → List Value → Expect
  | 0, [.int a, .int b] => if b = 0 then .error else .exact (.int (wrap64 (Int.tdiv a b)))
  | 2, [.dur a, .int b] => if b = 0 then .error else .exact (.dur (wrap64 (Int.tdiv a b)))
  | _, _ => .unspecified

def specAbs : Nat → List Value → Expect
  | 0, [.int a] => .exact (.int (wrap64 (a.natAbs : Int)))
  | 1, [.float a] => .exact (.float (floatAbs a))
  | _, _ => .unspecified

def specLen : Nat → List Value → Expect
  | 0, [.str s] => .exact (.int s.length)
  | 1, [.list xs] => .exact (.int xs.length)
  | 2, [.struct xs] => .exact (.int xs.length)
  | 3, [.tuple xs] => .exact (.int xs.length)
  | _, _ => .unspecified

def specTimeFromUnix : Nat → List Value → Expect
  | 0, [.int x] => if InI64 (x + unixToInternal) then .exact (.time (x * nsPerSec) 0) else .someOf tTime
  | _, _ => .unspecified

def specTimeToUnix : Nat → List Value → Expect
  | 0, [.time t _] => .exact (.int (wrap64 (t / nsPerSec)))
  | _, _ => .unspecified

def specInt : Nat → List Value → Expect
  | 0, [.int a] => .exact (.int a)
  | 1, [.bool b] => .exact (.int (if b then 1 else 0))
  | 3, [.str s] => (match parseIntSpec s with | some i => .exact (.int i) | none => .exact .null)
  | 4, [.dur d] => .exact (.int d)
  | _, _ => .unspecified

def specFloat : Nat → List Value → Expect
  | 0, [.float a] => .exact (.float a)
  | _, _ => .unspecified

def specString : Nat → List Value → Expect
  | 0, [v] => (match valueString v with | some s => .exact (.str s) | none => .someOf tStr)
  | _, _ => .unspecified

def specIndex : Nat → List Value → Expect
  | 0, [.list xs, .int i] =>
    if 0 ≤ i ∧ i < (xs.length : Int) then .exact (xs[i.toNat]?.getD .null) else .exact .null
  | _, _ => .unspecified

def specIn : Nat → List Value → Expect
  | 0, [x, .list xs] => .exact (.bool (xs.any fun y => x.equal y))
  | 1, [x, .tuple xs] => .exact (.bool (xs.any fun y => x.equal y))
  | _, _ => .unspecified

def specNotIn : Nat → List Value → Expect
  | 0, [x, .list xs] => .exact (.bool (xs.all fun y => !x.equal y))
  | 1, [x, .tuple xs] => .exact (.bool (xs.all fun y => !x.equal y))
  | _, _ => .unspecified

def specFn (name : String) (idx : Nat) (args : List Value) : Expect :=
  if name = "add" then specAdd idx args
  else if name = "sub" then specSub idx args
  else if name = "mul" then specMul idx args
  else if name = "div" then specDiv idx args
  else if name = "abs" then specAbs idx args
  else if name = "len" then specLen idx args
  else if name = "tfu" then specTimeFromUnix idx args
  else if name = "ttu" then specTimeToUnix idx args
  else if name = "int" then specInt idx args
  else if name = "float" then specFloat idx args
  else if name = "string" then specString idx args
  else if name = "idx" then specIndex idx args
  else if name = "in" then specIn idx args
  else if name = "notin" then specNotIn idx args
  else .unspecified

end Octo.Spec13

namespace Octo.Spec13
open Octo

mutual
/-- a value inhabits a static type -/
def conforms : Ty → Value → Bool
  | .any, _ => true
  | .null, .null => true
  | .int, .int _ => true
  | .float, .float _ => true
  | .bool, .bool _ => true
  | .str, .str _ => true
  | .time, .time _ _ => true
  | .dur, .dur _ => true
  | .listNil, .list xs => xs.isEmpty
  | .list e, .list xs => xs.all fun x => conforms e x
  | .struct _ ts, .struct xs => conformsEach ts xs
  | .tuple ts, .tuple xs => conformsEach ts xs
  | .union alts, v => conformsAny alts v
  | _, _ => false
def conformsEach : List Ty → List Value → Bool
  | [], [] => true
  | t :: ts, x :: xs => conforms t x && conformsEach ts xs
  | _, _ => false
def conformsAny : List Ty → Value → Bool
  | [], _ => false
  | t :: ts, v => conforms t v || conformsAny ts v
end

end Octo.Spec13
