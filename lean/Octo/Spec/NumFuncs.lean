import Octo.Model.Coalesce
/-!
  Octo.Spec.NumFuncs — what property C13 says the functions compute, in the most naive form:
  mathematical integers with one explicit `wrap64`, `List.any`, "first non-NULL", decimal grammar.
  Nothing here follows the Go text; the theorems of `Octo.Props.C13` prove the models of
  `Octo.Model.NumFuncs` / `Octo.Model.Coalesce` equal to these, and `Octo.Drv.C13.judge` evaluates
  them on what the implementation printed.
-/
namespace Octo.Spec13
open Octo Octo.Num

/-- what the specification demands of one call -/
inductive Expect where
  /-- exactly this value -/
  | exact (v : Value)
  /-- the call must be refused with an error (not a panic) -/
  | error
  /-- some value of this TypeID (runtime / library arithmetic outside the model) -/
  | someOf (tid : Nat)
  /-- the specification does not cover this call -/
  | unspecified
  deriving Repr, Inhabited

/-! ### decimal integers -/
def isDigit (c : UInt8) : Bool := 48 ≤ c.toNat && c.toNat ≤ 57
/-- value of a digit string, most significant first -/
def digitsVal (s : List UInt8) : Nat := s.foldl (fun acc c => acc * 10 + (c.toNat - 48)) 0

/-- `[+-]?[0-9]+` denoting an integer in the Int64 range, else nothing -/
def parseIntSpec (s : List UInt8) : Option Int :=
  let (neg, body) : Bool × List UInt8 :=
    match s with
    | 45 :: r => (true, r)
    | 43 :: r => (false, r)
    | _ => (false, s)
  if body.isEmpty ∨ !body.all isDigit then none
  else
    let v : Int := if neg then -(digitsVal body : Int) else (digitsVal body : Int)
    if minI64 ≤ v ∧ v ≤ maxI64 then some v else none

/-! ### layout fixing, directed by the value and the two types -/
def firstIndexOf (names : List Name) (n : Name) : Option Nat :=
  let rec go (i : Nat) : List Name → Option Nat
    | [] => none
    | m :: ms => if m == n then some i else go (i + 1) ms
  go 0 names

/-- the alternative of a (possibly union) type that a value of TypeID `tid` belongs to -/
def altFor (tid : Nat) : Ty → Ty
  | .union alts => (Coal.findAlt tid alts).getD .null
  | t => t

/-- a value of type `source`, re-laid-out for type `target`: object fields go to the position their NAME has in the
    target (fields the source lacks are NULL), recursively through lists, tuples (padded with NULL) and unions. -/
def relayout : Nat → Ty → Ty → Value → Value
  | 0, _, _, v => v
  | fuel + 1, target, source, v =>
    let t := altFor v.rank target
    let s := altFor v.rank source
    match v, t, s with
    | .struct xs, .struct tn tt, .struct sn st =>
      .struct ((tn.zip tt).map fun (nt : Name × Ty) =>
        match firstIndexOf sn nt.1 with
        | some j => (match xs[j]?, st[j]? with
          | some x, some sj => relayout fuel nt.2 sj x
          | _, _ => .null)
        | none => .null)
    | .list xs, .list te, .list se => .list (xs.map fun x => relayout fuel te se x)
    | .tuple xs, .tuple te, .tuple se =>
      .tuple (te.zipIdx.map fun (ti : Ty × Nat) =>
        match xs[ti.2]?, se[ti.2]? with
        | some x, some sj => relayout fuel ti.1 sj x
        | _, _ => .null)
    | _, _, _ => v

/-- COALESCE: the first non-NULL argument, re-laid-out for the result type; NULL when there is none -/
def coalesceSpec (target : Ty) : List (Ty × Value) → Value
  | [] => .null
  | (_, .null) :: rest => coalesceSpec target rest
  | (s, v) :: _ => relayout (Value.size v + 1) target s v

/-! ### the functions -/
def specFn (name : String) (idx : Nat) (args : List Value) : Expect :=
  match name, idx, args with
  | "add", 0, [.int a, .int b] => .exact (.int (wrap64 (a + b)))
  | "add", 2, [.dur a, .dur b] => .exact (.dur (wrap64 (a + b)))
  | "add", 3, [.time t l, .dur d] => if InI64 (timeExt (t + d)) then .exact (.time (t + d) l) else .someOf tTime
  | "add", 4, [.dur d, .time t l] => if InI64 (timeExt (t + d)) then .exact (.time (t + d) l) else .someOf tTime
  | "add", 5, [.str a, .str b] => .exact (.str (a ++ b))
  | "sub", 0, [.int a, .int b] => .exact (.int (wrap64 (a - b)))
  | "sub", 1, [.int a] => .exact (.int (wrap64 (-a)))
  | "sub", 3, [.float a] => .exact (.float (floatNeg a))
  | "sub", 4, [.dur a, .dur b] => .exact (.dur (wrap64 (a - b)))
  | "sub", 5, [.dur a] => .exact (.dur (wrap64 (-a)))
  | "sub", 6, [.time t l, .dur d] =>
    if d ≠ minI64 ∧ InI64 (timeExt (t - d)) then .exact (.time (t - d) l) else .someOf tTime
  | "mul", 0, [.int a, .int b] => .exact (.int (wrap64 (a * b)))
  | "mul", 2, [.dur a, .int b] => .exact (.dur (wrap64 (a * b)))
  | "mul", 3, [.int a, .dur b] => .exact (.dur (wrap64 (a * b)))
  | "mul", 4, [.str s, .int n] =>
    if n < 0 ∨ (s.length : Int) * n > maxRepeatedStringLength then .error
    else if s.isEmpty then .exact (.str [])
    else .exact (.str (List.replicate n.toNat s).flatten)
  | "mul", 5, [.int n, .str s] =>
    if n < 0 ∨ (s.length : Int) * n > maxRepeatedStringLength then .error
    else if s.isEmpty then .exact (.str [])
    else .exact (.str (List.replicate n.toNat s).flatten)
  | "div", 0, [.int a, .int b] => if b = 0 then .error else .exact (.int (wrap64 (Int.tdiv a b)))
  | "div", 2, [.dur a, .int b] => if b = 0 then .error else .exact (.dur (wrap64 (Int.tdiv a b)))
  | "abs", 0, [.int a] => .exact (.int (wrap64 (a.natAbs : Int)))
  | "abs", 1, [.float a] => .exact (.float (floatAbs a))
  | "len", 0, [.str s] => .exact (.int s.length)
  | "len", 1, [.list xs] => .exact (.int xs.length)
  | "len", 2, [.struct xs] => .exact (.int xs.length)
  | "len", 3, [.tuple xs] => .exact (.int xs.length)
  | "tfu", 0, [.int x] => if InI64 (x + unixToInternal) then .exact (.time (x * nsPerSec) 0) else .someOf tTime
  | "ttu", 0, [.time t _] => .exact (.int (wrap64 (t / nsPerSec)))
  | "int", 0, [.int a] => .exact (.int a)
  | "int", 1, [.bool b] => .exact (.int (if b then 1 else 0))
  | "int", 3, [.str s] => (match parseIntSpec s with | some i => .exact (.int i) | none => .exact .null)
  | "int", 4, [.dur d] => .exact (.int d)
  | "float", 0, [.float a] => .exact (.float a)
  | "string", 0, [v] => (match valueString v with | some s => .exact (.str s) | none => .someOf tStr)
  | "idx", 0, [.list xs, .int i] =>
    if 0 ≤ i ∧ i < (xs.length : Int) then .exact (xs[i.toNat]?.getD .null) else .exact .null
  | "in", 0, [x, .list xs] => .exact (.bool (xs.any fun y => x.equal y))
  | "in", 1, [x, .tuple xs] => .exact (.bool (xs.any fun y => x.equal y))
  | "notin", 0, [x, .list xs] => .exact (.bool (xs.all fun y => !x.equal y))
  | "notin", 1, [x, .tuple xs] => .exact (.bool (xs.all fun y => !x.equal y))
  | _, _, _ => .unspecified

end Octo.Spec13

namespace Octo.Spec13
open Octo

mutual
/-- a value inhabits a static type -/
def conforms : Ty → Value → Bool
  | .any, _ => true
  | .null, .null => true
  | .int, .int _ => true
  | .float, .float _ => true
  | .bool, .bool _ => true
  | .str, .str _ => true
  | .time, .time _ _ => true
  | .dur, .dur _ => true
  | .listNil, .list xs => xs.isEmpty
  | .list e, .list xs => xs.all fun x => conforms e x
  | .struct _ ts, .struct xs => conformsEach ts xs
  | .tuple ts, .tuple xs => conformsEach ts xs
  | .union alts, v => conformsAny alts v
  | _, _ => false
def conformsEach : List Ty → List Value → Bool
  | [], [] => true
  | t :: ts, x :: xs => conforms t x && conformsEach ts xs
  | _, _ => false
def conformsAny : List Ty → Value → Bool
  | [], _ => false
  | t :: ts, v => conforms t v || conformsAny ts v
end

end Octo.Spec13
