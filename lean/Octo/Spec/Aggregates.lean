import Octo.Model.Aggregates
/-!
  Octo.Spec.Aggregates — the reference semantics of C14: histories, their net multiset, and every
  aggregate *computed from scratch* on a list that represents the net multiset.
  Values are identified the way the engine identifies them: `Compare == 0`.
  Everything here is executable; `Octo.Drv.C14.judge` uses it as the oracle on the implementation's output.
-/
namespace Octo.Agg
open Octo

/-- multiplicity of `v` in `L` (elements identified by `cmp = 0`) -/
def cnt : List Value → Value → Int
  | [], _ => 0
  | x :: r, v => (if cmp x v = 0 then 1 else 0) + cnt r v

/-- +1 for an addition of (a value equal to) `v`, −1 for a retraction, 0 otherwise -/
def weight (e : Bool × Value) (v : Value) : Int :=
  if cmp e.2 v = 0 then (if e.1 then -1 else 1) else 0

/-- signed multiplicity of `v` after the history -/
def netH : Hist → Value → Int
  | [], _ => 0
  | e :: h, v => weight e v + netH h v

/-- no prefix of the history retracts a value below zero -/
def ValidHist (h : Hist) : Prop := ∀ n v, 0 ≤ netH (h.take n) v

/-- the list `M` represents the net multiset of `h` -/
def IsNet (M : List Value) (h : Hist) : Prop := ∀ v, cnt M v = netH h v

/-! ### an executable net multiset (used by the oracle and inside the proofs) -/
/-- remove the first element equal to `x` -/
def eraseEq (x : Value) : List Value → List Value
  | [] => []
  | y :: r => if cmp y x = 0 then r else y :: eraseEq x r

def bagStep (L : List Value) (e : Bool × Value) : List Value :=
  if e.1 then eraseEq e.2 L else e.2 :: L

/-- the multiset after each step, or `none` as soon as a retraction finds nothing to retract -/
def bagsOf : List Value → Hist → Option (List (List Value))
  | _, [] => some []
  | L, e :: h =>
    if e.1 && decide (cnt L e.2 ≤ 0) then none
    else (bagsOf (bagStep L e) h).map (bagStep L e :: ·)

/-! ### aggregates from scratch -/
def sumZ (f : Value → Int) : List Value → Int
  | [] => 0
  | x :: r => f x + sumZ f r

def specCount (M : List Value) : Value := .int M.length
def specSumInt (M : List Value) : Value := .int (wrap64 (sumZ intField M))
def specSumDur (M : List Value) : Value := .dur (wrap64 (sumZ durField M))
/-- truncating division of the wrapped sum by the count -/
def specAvgInt (M : List Value) : Value := .int (wrap64 (Int.tdiv (wrap64 (sumZ intField M)) M.length))
def specAvgDur (M : List Value) : Value := .dur (wrap64 (Int.tdiv (wrap64 (sumZ durField M)) M.length))

/-- the exact value (units of 2^-1074) of a finite float field; non-finite ones are accounted for separately -/
def finScaled (v : Value) : Int :=
  if F64.isFinite (floatField v) then F64.toScaled (floatField v) else 0

/-- the sum of the float fields as an extended real: any NaN, or both infinities → NaN; one kind of
    infinity → it; otherwise the exact sum -/
def specFSum (M : List Value) : FSum :=
  let bs := M.map floatField
  if bs.any F64.isNaN then .nan
  else
    let p := bs.any fun b => F64.isInf b && !F64.neg b
    let n := bs.any fun b => F64.isInf b && F64.neg b
    if p && n then .nan else if p then .inf false else if n then .inf true
    else .fin (sumZ finScaled M)

def specSumFloat (M : List Value) : Value := .float (specFSum M).toBits
def specAvgFloat (M : List Value) : Value := .float ((specFSum M).divInt M.length)

/-- the least element (the first one among equals) -/
def specMin : List Value → Value
  | [] => .null
  | x :: r => r.foldl (fun m y => if cmp y m < 0 then y else m) x
def specMax : List Value → Value
  | [] => .null
  | x :: r => r.foldl (fun m y => if cmp y m > 0 then y else m) x

def insertSorted (x : Value) : List Value → List Value
  | [] => [x]
  | y :: r => if cmp x y ≤ 0 then x :: y :: r else y :: insertSorted x r
/-- insertion sort by `cmp` -/
def sortSpec (M : List Value) : List Value := M.foldr insertSorted []
def specArray (M : List Value) : Value := .list (sortSpec M)

/-- one representative per equivalence class -/
def support : List Value → List Value
  | [] => []
  | x :: r => if 0 < cnt r x then support r else x :: support r

def specOf : Kind → List Value → Value
  | .count => specCount | .sumInt => specSumInt | .sumFloat => specSumFloat | .sumDur => specSumDur
  | .avgInt => specAvgInt | .avgFloat => specAvgFloat | .avgDur => specAvgDur
  | .min => specMin | .max => specMax | .array => specArray

/-- the aggregate of the multiset `M`; the DISTINCT variants aggregate its support -/
def specFull (k : Kind) (distinct : Bool) (M : List Value) : Value :=
  specOf k (if distinct then support M else M)

end Octo.Agg
