/-!
  Octo.Spec.JsonCsv — the *reader's* side of C25, written independently of the formatters:

  * `Json.decode`  — an RFC 8259 parser (whitespace, the seven escapes, `\uXXXX` with surrogate pairs,
    the number grammar; control characters inside strings are rejected);
  * `Utf8.valid`   — RFC 3629 well-formedness (JSON text is UTF-8, RFC 8259 §8.1);
  * `Num.*`        — the exact value of a JSON number literal and its correctly rounded binary64;
  * `Csv.decode`   — an RFC 4180 reader (quoted fields with doubled quotes, records ended by LF or CRLF).

  Bytes are `Nat`s.  Nothing in this file mentions octosql.
-/
namespace Octo.Spec

abbrev Bytes := List Nat

/-! ## UTF-8 (RFC 3629, table 3-7 of the Unicode standard) -/
namespace Utf8
def isCont (b : Nat) : Bool := decide (0x80 ≤ b ∧ b ≤ 0xBF)

def valid : Bytes → Bool
  | [] => true
  | b0 :: r =>
    if b0 < 0x80 then valid r
    else if 0xC2 ≤ b0 ∧ b0 ≤ 0xDF then
      match r with
      | b1 :: r' => isCont b1 && valid r'
      | _ => false
    else if 0xE0 ≤ b0 ∧ b0 ≤ 0xEF then
      match r with
      | b1 :: b2 :: r' =>
        decide ((b0 = 0xE0 → 0xA0 ≤ b1) ∧ (b0 = 0xED → b1 ≤ 0x9F)) && isCont b1 && isCont b2 && valid r'
      | _ => false
    else if 0xF0 ≤ b0 ∧ b0 ≤ 0xF4 then
      match r with
      | b1 :: b2 :: b3 :: r' =>
        decide ((b0 = 0xF0 → 0x90 ≤ b1) ∧ (b0 = 0xF4 → b1 ≤ 0x8F)) && isCont b1 && isCont b2 && isCont b3 && valid r'
      | _ => false
    else false

/-- UTF-8 encoding of a scalar value -/
def encode (cp : Nat) : Bytes :=
  if cp < 0x80 then [cp]
  else if cp < 0x800 then [0xC0 + cp / 64, 0x80 + cp % 64]
  else if cp < 0x10000 then [0xE0 + cp / 4096, 0x80 + cp / 64 % 64, 0x80 + cp % 64]
  else [0xF0 + cp / 262144, 0x80 + cp / 4096 % 64, 0x80 + cp / 64 % 64, 0x80 + cp % 64]
end Utf8

/-! ## JSON (RFC 8259) -/
inductive JVal where
  | null
  | bool (b : Bool)
  | num (lit : Bytes)          -- the literal, already checked against the number grammar
  | str (s : Bytes)            -- the *decoded* bytes
  | arr (xs : List JVal)
  | obj (keys : List Bytes) (vals : List JVal)   -- members in document order (duplicates kept)
  deriving Repr, Inhabited

namespace Json

def isWs (c : Nat) : Bool := decide (c = 32 ∨ c = 9 ∨ c = 10 ∨ c = 13)

def skipWs : Bytes → Bytes
  | [] => []
  | c :: r => if isWs c then skipWs r else c :: r

def hexVal (c : Nat) : Option Nat :=
  if 48 ≤ c ∧ c ≤ 57 then some (c - 48)
  else if 97 ≤ c ∧ c ≤ 102 then some (c - 87)
  else if 65 ≤ c ∧ c ≤ 70 then some (c - 55)
  else none

def hex4 (a b c d : Nat) : Option Nat :=
  match hexVal a, hexVal b, hexVal c, hexVal d with
  | some a, some b, some c, some d => some (((a * 16 + b) * 16 + c) * 16 + d)
  | _, _, _, _ => none

/-- the single-character escapes of RFC 8259 §7 -/
def simpleEsc (e : Nat) : Option Nat :=
  if e = 34 then some 34 else if e = 92 then some 92 else if e = 47 then some 47
  else if e = 98 then some 8 else if e = 102 then some 12 else if e = 110 then some 10
  else if e = 114 then some 13 else if e = 116 then some 9 else none

/-- the rest of a string after the opening quote: (decoded bytes, input after the closing quote) -/
def pStr : Bytes → Option (Bytes × Bytes)
  | [] => none
  | c :: r =>
    if c = 34 then some ([], r)
    else if c = 92 then
      match r with
      | [] => none
      | e :: r1 =>
        if e = 117 then
          match r1 with
          | a :: b :: c' :: d :: r2 =>
            match hex4 a b c' d with
            | none => none
            | some u =>
              if 0xD800 ≤ u ∧ u ≤ 0xDBFF then
                -- a high surrogate must be followed by an escaped low surrogate
                match r2 with
                | 92 :: 117 :: a2 :: b2 :: c2 :: d2 :: r3 =>
                  match hex4 a2 b2 c2 d2 with
                  | none => none
                  | some lo =>
                    if 0xDC00 ≤ lo ∧ lo ≤ 0xDFFF then
                      (pStr r3).map fun (s, r') => (Utf8.encode (0x10000 + (u - 0xD800) * 1024 + (lo - 0xDC00)) ++ s, r')
                    else none
                | _ => none
              else if 0xDC00 ≤ u ∧ u ≤ 0xDFFF then none
              else (pStr r2).map fun (s, r') => (Utf8.encode u ++ s, r')
          | _ => none
        else
          match simpleEsc e with
          | none => none
          | some b => (pStr r1).map fun (s, r') => (b :: s, r')
    else if c < 32 then none
    else (pStr r).map fun (s, r') => (c :: s, r')

/-! ### numbers -/
def isDigit (c : Nat) : Bool := decide (48 ≤ c ∧ c ≤ 57)
def isNumChar (c : Nat) : Bool := isDigit c || decide (c = 45 ∨ c = 43 ∨ c = 46 ∨ c = 101 ∨ c = 69)

def allDigits : Bytes → Bool
  | [] => true
  | c :: r => isDigit c && allDigits r

/-- `1*DIGIT` then end -/
def digits1 (s : Bytes) : Bool := !s.isEmpty && allDigits s

/-- `[ exp ]` then end:  `e|E [+|-] 1*DIGIT` -/
def expPart : Bytes → Bool
  | [] => true
  | c :: r =>
    if c = 101 ∨ c = 69 then
      match r with
      | s :: r' => if s = 43 ∨ s = 45 then digits1 r' else digits1 (s :: r')
      | [] => false
    else false

/-- digits of the fraction, then `[ exp ]` -/
def fracDigits : Bool → Bytes → Bool
  | seen, [] => seen
  | seen, c :: r => if isDigit c then fracDigits true r else seen && expPart (c :: r)

/-- `[ frac ] [ exp ]` then end -/
def fracExp : Bytes → Bool
  | [] => true
  | c :: r => if c = 46 then fracDigits false r else expPart (c :: r)

/-- `*DIGIT [ frac ] [ exp ]` -/
def intTail : Bytes → Bool
  | [] => true
  | c :: r => if isDigit c then intTail r else fracExp (c :: r)

/-- `int [ frac ] [ exp ]` with `int = zero / ( digit1-9 *DIGIT )` -/
def unsignedNumber : Bytes → Bool
  | [] => false
  | c :: r => if c = 48 then fracExp r else if 49 ≤ c ∧ c ≤ 57 then intTail r else false

/-- RFC 8259 §6: `number = [ minus ] int [ frac ] [ exp ]` -/
def validNumber : Bytes → Bool
  | [] => false
  | c :: r => if c = 45 then unsignedNumber r else unsignedNumber (c :: r)

def spanNum : Bytes → Bytes × Bytes
  | [] => ([], [])
  | c :: r => if isNumChar c then ((spanNum r).1.cons c, (spanNum r).2) else ([], c :: r)

def pNum (inp : Bytes) : Option (Bytes × Bytes) :=
  let p := spanNum inp
  if validNumber p.1 then some p else none

def stripPrefix : Bytes → Bytes → Option Bytes
  | [], r => some r
  | _ :: _, [] => none
  | p :: ps, c :: r => if p = c then stripPrefix ps r else none

mutual
/-- one JSON value (leading whitespace allowed); fuel bounds the nesting -/
def pValue : Nat → Bytes → Option (JVal × Bytes)
  | 0, _ => none
  | f + 1, inp =>
    match skipWs inp with
    | [] => none
    | c :: r =>
      if c = 34 then (pStr r).map fun (s, r') => (.str s, r')
      else if c = 91 then
        match skipWs r with
        | [] => none
        | c2 :: r2 =>
          if c2 = 93 then some (.arr [], r2)
          else (pElems f (c2 :: r2)).map fun (xs, r') => (.arr xs, r')
      else if c = 123 then
        match skipWs r with
        | [] => none
        | c2 :: r2 =>
          if c2 = 125 then some (.obj [] [], r2)
          else (pMembers f (c2 :: r2)).map fun (ks, vs, r') => (.obj ks vs, r')
      else if c = 110 then (stripPrefix [117, 108, 108] r).map fun r' => (.null, r')
      else if c = 116 then (stripPrefix [114, 117, 101] r).map fun r' => (.bool true, r')
      else if c = 102 then (stripPrefix [97, 108, 115, 101] r).map fun r' => (.bool false, r')
      else (pNum (c :: r)).map fun (lit, r') => (.num lit, r')
/-- `value *( , value ) ]` -/
def pElems : Nat → Bytes → Option (List JVal × Bytes)
  | 0, _ => none
  | f + 1, inp =>
    match pValue f inp with
    | none => none
    | some (v, r) =>
      match skipWs r with
      | [] => none
      | c :: r' =>
        if c = 44 then (pElems f r').map fun (vs, r'') => (v :: vs, r'')
        else if c = 93 then some ([v], r')
        else none
/-- `member *( , member ) }` with `member = string : value` -/
def pMembers : Nat → Bytes → Option (List Bytes × List JVal × Bytes)
  | 0, _ => none
  | f + 1, inp =>
    match skipWs inp with
    | [] => none
    | q :: r0 =>
      if q = 34 then
        match pStr r0 with
        | none => none
        | some (k, r1) =>
          match skipWs r1 with
          | [] => none
          | col :: r2 =>
            if col = 58 then
              match pValue f r2 with
              | none => none
              | some (v, r3) =>
                match skipWs r3 with
                | [] => none
                | c :: r4 =>
                  if c = 44 then (pMembers f r4).map fun (ks, vs, r') => (k :: ks, v :: vs, r')
                  else if c = 125 then some ([k], [v], r4)
                  else none
            else none
      else none
end

/-- a JSON text: one value surrounded by optional whitespace, nothing else -/
def decode (inp : Bytes) : Option JVal :=
  match pValue (2 * inp.length + 2) inp with
  | some (v, r) => if skipWs r = [] then some v else none
  | none => none

/-- the lines of a JSON-lines stream: every chunk up to and including a LF (a last unterminated chunk is kept) -/
def splitLines : Bytes → Bytes → List Bytes
  | [], [] => []
  | [], cur => [cur.reverse]
  | c :: r, cur => if c = 10 then (10 :: cur).reverse :: splitLines r [] else splitLines r (c :: cur)

/-- RFC 8259 §8.1 + §2: a *valid JSON text* is well-formed UTF-8 that parses -/
def validText (inp : Bytes) : Bool := Utf8.valid inp && (decode inp).isSome

end Json

/-! ## The value of a number literal -/
namespace Num

def digitsVal (acc : Nat) (s : Bytes) : Nat := s.foldl (fun a c => a * 10 + (c - 48)) acc

/-- an integer literal `-?digits` (no fraction, no exponent) and its value -/
def intLit (lit : Bytes) : Option Int :=
  match lit with
  | [] => none
  | c :: r =>
    if c = 45 then (if Json.digits1 r then some (-(digitsVal 0 r : Int)) else none)
    else if Json.digits1 (c :: r) then some (digitsVal 0 (c :: r)) else none

/-- decomposition of a number literal (assumed to satisfy `Json.validNumber`):
    sign, decimal mantissa (all digits of int and frac), decimal exponent -/
structure Dec where
  neg : Bool
  mant : Nat
  exp10 : Int
  deriving Repr

def takeDigits : Bytes → Bytes × Bytes
  | [] => ([], [])
  | c :: r => if Json.isDigit c then ((takeDigits r).1.cons c, (takeDigits r).2) else ([], c :: r)

def parseDec (lit : Bytes) : Dec :=
  let (neg, r) := match lit with
    | 45 :: r => (true, r)
    | r => (false, r)
  let (ip, r) := takeDigits r
  let (fp, r) := match r with
    | 46 :: r' => takeDigits r'
    | r => ([], r)
  let e : Int := match r with
    | _ :: 45 :: ds => -(digitsVal 0 ds : Int)
    | _ :: 43 :: ds => (digitsVal 0 ds : Int)
    | _ :: ds => (digitsVal 0 ds : Int)
    | [] => 0
  { neg := neg, mant := digitsVal 0 (ip ++ fp), exp10 := e - fp.length }

/-- the exact value of the literal equals the integer `i` -/
def denotesInt (lit : Bytes) (i : Int) : Bool :=
  let d := parseDec lit
  let m : Int := if d.neg then -(d.mant : Int) else d.mant
  if d.exp10 ≥ 0 then m * (10 : Int) ^ d.exp10.toNat == i
  else m == i * (10 : Int) ^ (-d.exp10).toNat

/-- `n / d` rounded to the nearest integer, ties to even -/
def roundDivEven (n d : Nat) : Nat :=
  let q := n / d
  let r := n % d
  if 2 * r < d then q else if 2 * r > d then q + 1 else if q % 2 = 0 then q else q + 1

/-- the binary64 nearest to the positive rational `n / d` (round half to even), as bits without sign -/
def ratToBits (n d : Nat) : Nat :=
  if n = 0 then 0 else
  -- e with 2^52 ≤ n / (d·2^e) < 2^53, but not below the subnormal exponent
  let e0 : Int := (Nat.log2 n : Int) - (Nat.log2 d : Int) - 52
  let scaledGe (e : Int) (k : Nat) : Bool :=   -- n / (d·2^e) ≥ 2^k
    if e ≥ 0 then n ≥ d * 2 ^ e.toNat * 2 ^ k else n * 2 ^ (-e).toNat ≥ d * 2 ^ k
  let e1 : Int := if scaledGe e0 53 then e0 + 1 else if scaledGe e0 52 then e0 else e0 - 1
  let e : Int := if e1 < -1074 then -1074 else e1
  let q := if e ≥ 0 then roundDivEven n (d * 2 ^ e.toNat) else roundDivEven (n * 2 ^ (-e).toNat) d
  -- rounding may carry into the next binade
  let (q, e) := if q = 2 ^ 53 then (2 ^ 52, e + 1) else (q, e)
  if q < 2 ^ 52 then q                                  -- subnormal (e = −1074) or zero
  else if e + 1075 ≥ 2047 then 0x7FF0000000000000     -- overflow: +Inf
  else (e + 1075).toNat * 2 ^ 52 + (q - 2 ^ 52)

/-- the binary64 bit pattern a correctly rounding reader obtains from the literal -/
def litToF64 (lit : Bytes) : Nat :=
  let d := parseDec lit
  let mag := if d.exp10 ≥ 0 then ratToBits (d.mant * 10 ^ d.exp10.toNat) 1 else ratToBits d.mant (10 ^ (-d.exp10).toNat)
  if d.neg then 2 ^ 63 + mag else mag

end Num

/-! ## CSV (RFC 4180) -/
namespace Csv

/-- the rest of a quoted field after the opening quote: (content, input after the closing quote) -/
def pQuoted : Bytes → Option (Bytes × Bytes)
  | [] => none
  | c :: r =>
    if c = 34 then
      match r with
      | c2 :: r2 => if c2 = 34 then (pQuoted r2).map fun (s, r') => (34 :: s, r') else some ([], c2 :: r2)
      | [] => some ([], [])
    else (pQuoted r).map fun (s, r') => (c :: s, r')

/-- an unquoted field: up to the next comma / line break; a quote inside it is an error -/
def pPlain : Bytes → Option (Bytes × Bytes)
  | [] => some ([], [])
  | c :: r =>
    if c = 44 ∨ c = 10 ∨ c = 13 then some ([], c :: r)
    else if c = 34 then none
    else (pPlain r).map fun (s, r') => (c :: s, r')

def pField : Bytes → Option (Bytes × Bytes)
  | 34 :: r => pQuoted r
  | inp => pPlain inp

/-- one record: fields separated by commas, ended by LF, CRLF or the end of the input.
    Fuel: the number of fields is at most the input length + 1. -/
def pRecord : Nat → Bytes → Option (List Bytes × Bytes)
  | 0, _ => none
  | f + 1, inp =>
    match pField inp with
    | none => none
    | some (x, r) =>
      match r with
      | [] => some ([x], [])
      | 10 :: r' => some ([x], r')
      | 13 :: 10 :: r' => some ([x], r')
      | 44 :: r' => (pRecord f r').map fun (xs, r'') => (x :: xs, r'')
      | _ => none

/-- a file: records until the input is exhausted (every record is terminated by a line break,
    the last one optionally) -/
def pFile : Nat → Bytes → Option (List (List Bytes))
  | 0, _ => none
  | _ + 1, [] => some []
  | f + 1, c :: r =>
    match pRecord ((c :: r).length + 1) (c :: r) with
    | none => none
    | some (rec, rest) => (pFile f rest).map fun recs => rec :: recs

def decode (inp : Bytes) : Option (List (List Bytes)) := pFile (inp.length + 1) inp

end Csv
end Octo.Spec
