import Octo.Spec.JsonCsv
/-!
  Octo.Spec.TimeText — readers for the two remaining scalar texts of an output line, written independently
  of Go's `time` package:

  * `parseRfc3339`  — RFC 3339 `date-time` (`YYYY-MM-DDTHH:MM:SS[.fraction](Z|±HH:MM)`) ↦ the instant in
                       nanoseconds since 1970-01-01T00:00:00Z (proleptic Gregorian calendar, years 0001–9999);
  * `parseDuration` — the syntax of Go's `time.ParseDuration` (`1h2m3.5s`, `1.5µs`, `-1ns`, `0s`) ↦ nanoseconds,
                       exact (a text denoting a non-integral number of nanoseconds is rejected).
-/
namespace Octo.Spec.TimeText
open Octo.Spec

def isDigit (c : Nat) : Bool := decide (48 ≤ c ∧ c ≤ 57)

/-- exactly `n` digits: their value and the rest -/
def digitsN : Nat → Bytes → Nat → Option (Nat × Bytes)
  | 0, r, acc => some (acc, r)
  | n + 1, c :: r, acc => if isDigit c then digitsN n r (acc * 10 + (c - 48)) else none
  | _ + 1, [], _ => none

/-- as many digits as there are (possibly none): value, count, rest -/
def digitsMany : Bytes → Nat → Nat → Nat × Nat × Bytes
  | [], acc, k => (acc, k, [])
  | c :: r, acc, k => if isDigit c then digitsMany r (acc * 10 + (c - 48)) (k + 1) else (acc, k, c :: r)

def expect (c : Nat) : Bytes → Option Bytes
  | d :: r => if d = c then some r else none
  | [] => none

/-- days since 1970-01-01 of the civil date (year ≥ 1); Hinnant's `days_from_civil` -/
def daysFromCivil (y m d : Nat) : Int :=
  let y' := if m ≤ 2 then y - 1 else y
  let era := y' / 400
  let yoe := y' % 400
  let mp := (m + 9) % 12
  let doy := (153 * mp + 2) / 5 + d - 1
  let doe := yoe * 365 + yoe / 4 - yoe / 100 + doy
  ((era * 146097 + doe : Nat) : Int) - 719468

def daysInMonth (y m : Nat) : Nat :=
  if m = 2 then (if (y % 4 = 0 ∧ y % 100 ≠ 0) ∨ y % 400 = 0 then 29 else 28)
  else if m = 4 ∨ m = 6 ∨ m = 9 ∨ m = 11 then 30 else 31

/-- RFC 3339 date-time ↦ nanoseconds since the Unix epoch -/
def parseRfc3339 (s : Bytes) : Option Int := do
  let (y, r) ← digitsN 4 s 0
  let r ← expect 45 r
  let (mo, r) ← digitsN 2 r 0
  let r ← expect 45 r
  let (d, r) ← digitsN 2 r 0
  let r ← expect 84 r
  let (h, r) ← digitsN 2 r 0
  let r ← expect 58 r
  let (mi, r) ← digitsN 2 r 0
  let r ← expect 58 r
  let (sec, r) ← digitsN 2 r 0
  if y = 0 ∨ mo = 0 ∨ mo > 12 ∨ d = 0 ∨ d > daysInMonth y mo ∨ h > 23 ∨ mi > 59 ∨ sec > 59 then none
  let (frac, r) ← (match r with
    | 46 :: r' =>
      let (f, k, r'') := digitsMany r' 0 0
      if k = 0 ∨ k > 9 then none else some (f * 10 ^ (9 - k), r'')
    | _ => some (0, r))
  let off : Int ← (match r with
    | [90] => some 0
    | sg :: r' =>
      if sg = 43 ∨ sg = 45 then
        match digitsN 2 r' 0 with
        | some (oh, r'') =>
          match expect 58 r'' with
          | some r3 =>
            match digitsN 2 r3 0 with
            | some (om, []) =>
              if oh > 23 ∨ om > 59 then none
              else some (if sg = 45 then -((oh * 3600 + om * 60 : Nat) : Int) else ((oh * 3600 + om * 60 : Nat) : Int))
            | _ => none
          | none => none
        | none => none
      else none
    | [] => none)
  let secs : Int := daysFromCivil y mo d * 86400 + ((h * 3600 + mi * 60 + sec : Nat) : Int) - off
  pure (secs * 1000000000 + (frac : Int))

/-- a unit of `time.ParseDuration`: nanoseconds per unit and the rest -/
def unit : Bytes → Option (Nat × Bytes)
  | 110 :: 115 :: r => some (1, r)                      -- ns
  | 117 :: 115 :: r => some (1000, r)                   -- us
  | 194 :: 181 :: 115 :: r => some (1000, r)            -- µs (U+00B5)
  | 206 :: 188 :: 115 :: r => some (1000, r)            -- μs (U+03BC)
  | 109 :: 115 :: r => some (1000000, r)                -- ms
  | 115 :: r => some (1000000000, r)                    -- s
  | 109 :: r => some (60000000000, r)                   -- m
  | 104 :: r => some (3600000000000, r)                 -- h
  | _ => none

/-- `( decimal unit )+` ↦ total nanoseconds (exact) -/
def terms : Nat → Bytes → Nat → Option Nat
  | 0, _, _ => none
  | f + 1, s, acc =>
    let (ip, k1, r) := digitsMany s 0 0
    let (fp, k2, r) := match r with
      | 46 :: r' => let (v, k, r'') := digitsMany r' 0 0; (v, k, r'')
      | _ => (0, 0, r)
    if k1 = 0 ∧ k2 = 0 then none else
    match unit r with
    | none => none
    | some (u, r') =>
      let num := (ip * 10 ^ k2 + fp) * u
      if num % 10 ^ k2 ≠ 0 then none else
      let acc := acc + num / 10 ^ k2
      if r' = [] then some acc else terms f r' acc

/-- Go duration syntax ↦ nanoseconds -/
def parseDuration (s : Bytes) : Option Int :=
  let (neg, r) := match s with
    | 45 :: r => (true, r)
    | 43 :: r => (false, r)
    | r => (false, r)
  if r = [48] then some 0 else
  (terms (r.length + 1) r 0).map fun n => if neg then -(n : Int) else (n : Int)

end Octo.Spec.TimeText
