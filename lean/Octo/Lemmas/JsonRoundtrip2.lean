import Octo.Lemmas.JsonRoundtrip
/-!
  Lemmas for C25, part 4: the main induction.  For every value that fits its type, `ValueToJson` does not
  panic and the RFC 8259 reader, run on its output followed by any text that cannot continue a number,
  returns the document `erase L τ v` and exactly that remaining text.
-/
namespace Octo.OutFmt
open Octo Octo.Spec

theorem vsize_pos (a : Value) : 0 < a.size := by cases a <;> simp [Value.size] <;> omega

theorem fits_pick {τ : Ty} {v : Value} (h : fits τ v = true) : ∃ t, pick τ v.rank = some t := by
  unfold fits at h
  cases hp : pick τ v.rank with
  | none => simp [hp] at h
  | some t => exact ⟨t, rfl⟩

/-- a (possibly empty) continuation written by a loop with `first = false` starts with a comma -/
def CommaOrNil (bs : Bytes) : Prop := bs = [] ∨ ∃ r, bs = 44 :: r

theorem term_after {bs : Bytes} (h : CommaOrNil bs) (close : Nat) (hc : close = 93 ∨ close = 125) (rest : Bytes) :
    Term (bs ++ close :: rest) := by
  rcases h with h | ⟨r, h⟩ <;> subst h
  · exact term_of_sep close rest (by omega)
  · exact term_of_sep 44 _ (by omega)

theorem skipWs_after {bs : Bytes} (h : CommaOrNil bs) (close : Nat) (hc : close = 93 ∨ close = 125) (rest : Bytes) :
    Json.skipWs (bs ++ close :: rest) = bs ++ close :: rest := by
  rcases h with h | ⟨r, h⟩ <;> subst h
  · exact skipWs_cons _ _ (by simp [Json.isWs]; omega)
  · exact skipWs_cons _ _ (by decide)

mutual
theorem encJson_dec (L : Lib) (hL : FloatSyntax L) : ∀ (v : Value) (τ : Ty), fits τ v = true →
    ∃ bs, encJson L τ v = some bs ∧
      ∀ f rest, Term rest → 2 * v.size ≤ f → Json.pValue f (bs ++ rest) = some (erase L τ v, rest)
  | .null, τ, h => by
    obtain ⟨t, hp⟩ := fits_pick h
    refine ⟨nullLit, by simp [encJson, hp], ?_⟩
    intro f rest _ hf
    have e : erase L τ .null = .null := by simp [erase, hp]
    rw [e]
    cases f with
    | zero => simp [Value.size, Value.sizeList] at hf
    | succ f => exact pValue_null f rest
  | .int i, τ, h => by
    obtain ⟨t, hp⟩ := fits_pick h
    refine ⟨fmtInt i, by simp [encJson, hp], ?_⟩
    intro f rest hr hf
    have e : erase L τ (.int i) = .num (fmtInt i) := by simp [erase, hp]
    rw [e]
    cases f with
    | zero => simp [Value.size, Value.sizeList] at hf
    | succ f => exact pValue_num f _ rest (validNumber_fmtInt i) hr
  | .float b, τ, h => by
    obtain ⟨t, hp⟩ := fits_pick h
    by_cases hb : finite b = true
    · refine ⟨L.fmtFloatG b, by simp [encJson, hp, hb], ?_⟩
      intro f rest hr hf
      have e : erase L τ (.float b) = .num (L.fmtFloatG b) := by simp [erase, hp, hb]
      rw [e]
      cases f with
      | zero => simp [Value.size, Value.sizeList] at hf
      | succ f => exact pValue_num f _ rest (hL b hb) hr
    · refine ⟨nullLit, by simp [encJson, hp, hb], ?_⟩
      intro f rest _ hf
      have e : erase L τ (.float b) = .null := by simp [erase, hp, hb]
      rw [e]
      cases f with
      | zero => simp [Value.size, Value.sizeList] at hf
      | succ f => exact pValue_null f rest
  | .bool b, τ, h => by
    obtain ⟨t, hp⟩ := fits_pick h
    refine ⟨if b then trueLit else falseLit, by simp [encJson, hp], ?_⟩
    intro f rest _ hf
    have e : erase L τ (.bool b) = .bool b := by simp [erase, hp]
    rw [e]
    cases f with
    | zero => simp [Value.size, Value.sizeList] at hf
    | succ f =>
      cases b
      · exact pValue_false f rest
      · exact pValue_true f rest
  | .str s, τ, h => by
    obtain ⟨t, hp⟩ := fits_pick h
    refine ⟨jsonString (strBytes s), by simp [encJson, hp], ?_⟩
    intro f rest _ hf
    have e : erase L τ (.str s) = .str (strBytes s) := by simp [erase, hp]
    rw [e]
    cases f with
    | zero => simp [Value.size, Value.sizeList] at hf
    | succ f =>
      simp only [jsonString, List.cons_append, List.append_assoc, pValue_str, List.singleton_append, pStr_escBody]
      rfl
  | .time ns loc, τ, h => by
    obtain ⟨t, hp⟩ := fits_pick h
    refine ⟨jsonString (L.fmtTime ns loc), by simp [encJson, hp], ?_⟩
    intro f rest _ hf
    have e : erase L τ (.time ns loc) = .str (L.fmtTime ns loc) := by simp [erase, hp]
    rw [e]
    cases f with
    | zero => simp [Value.size, Value.sizeList] at hf
    | succ f =>
      simp only [jsonString, List.cons_append, List.append_assoc, pValue_str, List.singleton_append, pStr_escBody]
      rfl
  | .dur ns, τ, h => by
    obtain ⟨t, hp⟩ := fits_pick h
    refine ⟨jsonString (L.fmtDur ns), by simp [encJson, hp], ?_⟩
    intro f rest _ hf
    have e : erase L τ (.dur ns) = .str (L.fmtDur ns) := by simp [erase, hp]
    rw [e]
    cases f with
    | zero => simp [Value.size, Value.sizeList] at hf
    | succ f =>
      simp only [jsonString, List.cons_append, List.append_assoc, pValue_str, List.singleton_append, pStr_escBody]
      rfl
  | .list [], τ, h => by
    obtain ⟨t, hp⟩ := fits_pick h
    refine ⟨[91, 93], by simp [encJson, hp, encElems], ?_⟩
    intro f rest _ hf
    have e : erase L τ (.list []) = .arr [] := by
      simp only [erase, hp]; cases elemTy t <;> simp [eraseAll]
    rw [e]
    cases f with
    | zero => simp [Value.size, Value.sizeList] at hf
    | succ f => exact pValue_arr_empty f rest
  | .list (x :: xs), τ, h => by
    obtain ⟨t, hp⟩ := fits_pick h
    unfold fits at h
    simp only [hp] at h
    cases he : elemTy t with
    | none => simp [he] at h
    | some e =>
      simp only [he, fitsAll, Bool.and_eq_true] at h
      obtain ⟨a, ha, hda⟩ := encJson_dec L hL x e h.1
      obtain ⟨b, hb, hcb, hdb⟩ := encElems_dec L hL xs e h.2
      refine ⟨91 :: (a ++ b ++ [93]), by simp [encJson, hp, he, encElems, ha, hb, sep], ?_⟩
      intro f rest _ hf
      have er : erase L τ (.list (x :: xs)) = .arr (erase L e x :: eraseAll L e xs) := by
        simp [erase, hp, he, eraseAll]
      rw [er]
      obtain ⟨c, r, ea, hc⟩ := encJson_head L hL e x a ha
      simp only [Value.size, Value.sizeList] at hf
      have hx := vsize_pos x
      obtain ⟨f, rfl⟩ : ∃ g, f = g + 2 := ⟨f - 2, by omega⟩
      subst ea
      have h1 := hda f (b ++ 93 :: rest) (term_after hcb 93 (Or.inl rfl) rest) (by omega)
      simp only [List.cons_append, List.append_assoc, List.nil_append, List.singleton_append] at h1 ⊢
      rw [pValue_arr (f + 1) c _ hc.notWs hc.ne93, pElems_succ, h1]
      simp only [hdb f rest (erase L e x) (by omega)]
      rfl
  | .struct xs, τ, h => by
    obtain ⟨t, hp⟩ := fits_pick h
    unfold fits at h
    simp only [hp, Bool.and_eq_true, decide_eq_true_eq] at h
    have er : erase L τ (.struct xs) = .obj ((fieldNames t).map nameBytes) (eraseEach L (fieldTys t) xs) := by
      simp [erase, hp]
    rw [er]
    generalize hns : fieldNames t = ns at *
    generalize hts : fieldTys t = ts at *
    match xs, ns, ts, h with
    | [], ns, ts, h =>
      cases ts with
      | cons _ _ => simp [fitsEach] at h
      | nil =>
        have : ns = [] := by cases ns with | nil => rfl | cons _ _ => simp at h
        subst this
        refine ⟨[123, 125], by simp [encJson, hp, hns, hts, encFields], ?_⟩
        intro f rest _ hf
        cases f with
        | zero => simp [Value.size, Value.sizeList] at hf
        | succ f => simp only [List.map_nil, eraseEach]; exact pValue_obj_empty f rest
    | x :: xs, [], _, h => cases ‹List Ty› <;> simp [fitsEach] at h
    | x :: xs, _ :: _, [], h => simp [fitsEach] at h
    | x :: xs, n :: ns, t1 :: ts, h =>
      simp only [fitsEach, Bool.and_eq_true, List.length_cons, Nat.add_right_cancel_iff] at h
      obtain ⟨a, ha, hda⟩ := encJson_dec L hL x t1 h.2.1
      obtain ⟨b, hb, hcb, hdb⟩ := encFields_dec L hL xs ns ts h.1 h.2.2
      refine ⟨123 :: (jsonString (nameBytes n) ++ 58 :: a ++ b ++ [125]), by simp [encJson, hp, hns, hts, encFields, ha, hb, sep], ?_⟩
      intro f rest _ hf
      simp only [Value.size, Value.sizeList] at hf
      have hx := vsize_pos x
      obtain ⟨f, rfl⟩ : ∃ g, f = g + 2 := ⟨f - 2, by omega⟩
      have hk := pMembers_key f (nameBytes n) (a ++ (b ++ 125 :: rest))
      have h1 := hda f (b ++ 125 :: rest) (term_after hcb 125 (Or.inr rfl) rest) (by omega)
      simp only [jsonString, List.cons_append, List.append_assoc, List.nil_append, List.singleton_append] at hk ⊢
      rw [pValue_obj (f + 1) 34 _ (by decide) (by decide), hk, h1]
      simp only [hdb f rest (nameBytes n) (erase L t1 x) (by omega)]
      simp [eraseEach]
  | .tuple xs, τ, h => by
    obtain ⟨t, hp⟩ := fits_pick h
    unfold fits at h
    simp only [hp] at h
    have er : erase L τ (.tuple xs) = .arr (eraseEach L (tupleTys t) xs) := by simp [erase, hp]
    rw [er]
    generalize hts : tupleTys t = ts at *
    match xs, ts, h with
    | [], [], h =>
      refine ⟨[91, 93], by simp [encJson, hp, hts, encTuple], ?_⟩
      intro f rest _ hf
      cases f with
      | zero => simp [Value.size, Value.sizeList] at hf
      | succ f => simp only [eraseEach]; exact pValue_arr_empty f rest
    | [], _ :: _, h => simp [fitsEach] at h
    | x :: xs, [], h => simp [fitsEach] at h
    | x :: xs, t1 :: ts, h =>
      simp only [fitsEach, Bool.and_eq_true] at h
      obtain ⟨a, ha, hda⟩ := encJson_dec L hL x t1 h.1
      obtain ⟨b, hb, hcb, hdb⟩ := encTuple_dec L hL xs ts h.2
      refine ⟨91 :: (a ++ b ++ [93]), by simp [encJson, hp, hts, encTuple, ha, hb, sep], ?_⟩
      intro f rest _ hf
      obtain ⟨c, r, ea, hc⟩ := encJson_head L hL t1 x a ha
      simp only [Value.size, Value.sizeList] at hf
      have hx := vsize_pos x
      obtain ⟨f, rfl⟩ : ∃ g, f = g + 2 := ⟨f - 2, by omega⟩
      subst ea
      have h1 := hda f (b ++ 93 :: rest) (term_after hcb 93 (Or.inl rfl) rest) (by omega)
      simp only [List.cons_append, List.append_assoc, List.nil_append, List.singleton_append] at h1 ⊢
      rw [pValue_arr (f + 1) c _ hc.notWs hc.ne93, pElems_succ, h1]
      simp only [hdb f rest (erase L t1 x) (by omega)]
      simp [eraseEach]
/-- the rest of the List loop (`first = false`), read by the reader's continuation -/
theorem encElems_dec (L : Lib) (hL : FloatSyntax L) : ∀ (xs : List Value) (e : Ty), fitsAll e xs = true →
    ∃ bs, encElems L (some e) false xs = some bs ∧ CommaOrNil bs ∧
      ∀ f rest v0, 2 * Value.sizeList xs + 1 ≤ f →
        contElems f v0 (bs ++ 93 :: rest) = some (v0 :: eraseAll L e xs, rest)
  | [], e, _ => by
    refine ⟨[], by simp [encElems], Or.inl rfl, ?_⟩
    intro f rest v0 _
    simp [contElems_close, eraseAll]
  | x :: xs, e, h => by
    simp only [fitsAll, Bool.and_eq_true] at h
    obtain ⟨a, ha, hda⟩ := encJson_dec L hL x e h.1
    obtain ⟨b, hb, hcb, hdb⟩ := encElems_dec L hL xs e h.2
    refine ⟨44 :: (a ++ b), by simp [encElems, ha, hb, sep], Or.inr ⟨_, rfl⟩, ?_⟩
    intro f rest v0 hf
    simp only [Value.sizeList] at hf
    have hx := vsize_pos x
    obtain ⟨f, rfl⟩ : ∃ g, f = g + 1 := ⟨f - 1, by omega⟩
    have h1 := hda f (b ++ 93 :: rest) (term_after hcb 93 (Or.inl rfl) rest) (by omega)
    simp only [List.cons_append, List.append_assoc, List.nil_append, List.singleton_append] at h1 ⊢
    rw [contElems_comma, pElems_succ, h1]
    simp only [hdb f rest (erase L e x) (by omega)]
    simp [eraseAll]
/-- the rest of the Struct loop -/
theorem encFields_dec (L : Lib) (hL : FloatSyntax L) : ∀ (xs : List Value) (ns : List Name) (ts : List Ty),
    ns.length = ts.length → fitsEach ts xs = true →
    ∃ bs, encFields L ns ts false xs = some bs ∧ CommaOrNil bs ∧
      ∀ f rest k0 v0, 2 * Value.sizeList xs + 1 ≤ f →
        contMembers f k0 v0 (bs ++ 125 :: rest) = some (k0 :: ns.map nameBytes, v0 :: eraseEach L ts xs, rest)
  | [], ns, ts, hl, h => by
    cases ts with
    | cons _ _ => simp [fitsEach] at h
    | nil =>
      have : ns = [] := by cases ns with | nil => rfl | cons _ _ => simp at hl
      subst this
      refine ⟨[], by simp [encFields], Or.inl rfl, ?_⟩
      intro f rest k0 v0 _
      simp [contMembers_close, eraseEach]
  | x :: xs, [], ts, hl, h => by cases ts <;> simp [fitsEach] at h hl
  | x :: xs, _ :: _, [], hl, h => by simp [fitsEach] at h
  | x :: xs, n :: ns, t1 :: ts, hl, h => by
    simp only [fitsEach, Bool.and_eq_true] at h
    simp only [List.length_cons, Nat.add_right_cancel_iff] at hl
    obtain ⟨a, ha, hda⟩ := encJson_dec L hL x t1 h.1
    obtain ⟨b, hb, hcb, hdb⟩ := encFields_dec L hL xs ns ts hl h.2
    refine ⟨44 :: (jsonString (nameBytes n) ++ 58 :: a ++ b), by simp [encFields, ha, hb, sep], Or.inr ⟨_, rfl⟩, ?_⟩
    intro f rest k0 v0 hf
    simp only [Value.sizeList] at hf
    have hx := vsize_pos x
    obtain ⟨f, rfl⟩ : ∃ g, f = g + 1 := ⟨f - 1, by omega⟩
    have hk := pMembers_key f (nameBytes n) (a ++ (b ++ 125 :: rest))
    have h1 := hda f (b ++ 125 :: rest) (term_after hcb 125 (Or.inr rfl) rest) (by omega)
    simp only [jsonString, List.cons_append, List.append_assoc, List.nil_append, List.singleton_append] at hk ⊢
    rw [contMembers_comma, hk, h1]
    simp only [hdb f rest (nameBytes n) (erase L t1 x) (by omega)]
    simp [eraseEach]
/-- the rest of the Tuple loop -/
theorem encTuple_dec (L : Lib) (hL : FloatSyntax L) : ∀ (xs : List Value) (ts : List Ty), fitsEach ts xs = true →
    ∃ bs, encTuple L ts false xs = some bs ∧ CommaOrNil bs ∧
      ∀ f rest v0, 2 * Value.sizeList xs + 1 ≤ f →
        contElems f v0 (bs ++ 93 :: rest) = some (v0 :: eraseEach L ts xs, rest)
  | [], [], _ => by
    refine ⟨[], by simp [encTuple], Or.inl rfl, ?_⟩
    intro f rest v0 _
    simp [contElems_close, eraseEach]
  | [], _ :: _, h => by simp [fitsEach] at h
  | x :: xs, [], h => by simp [fitsEach] at h
  | x :: xs, t1 :: ts, h => by
    simp only [fitsEach, Bool.and_eq_true] at h
    obtain ⟨a, ha, hda⟩ := encJson_dec L hL x t1 h.1
    obtain ⟨b, hb, hcb, hdb⟩ := encTuple_dec L hL xs ts h.2
    refine ⟨44 :: (a ++ b), by simp [encTuple, ha, hb, sep], Or.inr ⟨_, rfl⟩, ?_⟩
    intro f rest v0 hf
    simp only [Value.sizeList] at hf
    have hx := vsize_pos x
    obtain ⟨f, rfl⟩ : ∃ g, f = g + 1 := ⟨f - 1, by omega⟩
    have h1 := hda f (b ++ 93 :: rest) (term_after hcb 93 (Or.inl rfl) rest) (by omega)
    simp only [List.cons_append, List.append_assoc, List.nil_append, List.singleton_append] at h1 ⊢
    rw [contElems_comma, pElems_succ, h1]
    simp only [hdb f rest (erase L t1 x) (by omega)]
    simp [eraseEach]
end

end Octo.OutFmt
